import Postcard.Model.Dyn
import Postcard.Model.JsonOf
import Postcard.Lemmas.Varint
import Postcard.Lemmas.Codec
import Postcard.Lemmas.Decode
import Postcard.Lemmas.Dyn
import Postcard.Props.C15
/-
  Postcard.Props.C17 — "Dynamic (schema-driven) codec agrees with the static
  codec and serde_json": for every type and value whose JSON form is
  unambiguous, encoding the value's serde_json representation under the type's
  schema yields exactly the bytes the static encoder yields, and decoding those
  bytes under the schema yields exactly the serde_json representation.

  Model: Model/Json.lean (serde_json::Value; JSON form of a schema value),
  Model/Dyn.lean (postcard-dyn ser.rs / de.rs, arm by arm, AFTER the repairs),
  Model/JsonOf.lean (serde_json::to_value), Model/Ser.lean (`enc`, the static
  encoder), Model/SchemaSer.lean (`serOwned`, `decOwnedBytes`).

  Result: the full statements hold of the repaired code on the whole scope of
  the property (`Faithful`), INCLUDING the `Schema` kind: `dyn_ser_agrees`,
  `dyn_de_agrees`, `fromSliceDyn_agrees` (section J).

  Repaired since the previous round (the refutations `dyn_ser_agrees_false`,
  `dyn_de_agrees_false` and the witnesses are now positive examples, section H):
    1. de: `Char` decoded (was `todo!()`);            2. ser: `Char` must be one scalar;
    3. ser+de: `Schema` kind via serde (was `todo!()`); 4. tuples of arity 0 and 1 are arrays;
    5. `I128` in `2^63 ..= u64::MAX`;                  6. ser: `F32` overflow refused.

  Helper lemmas live in `namespace Postcard.Dyn`; the scope predicates and the
  property theorems in `namespace Postcard`.
-/
set_option linter.unusedSimpArgs false
set_option linter.unusedVariables false

namespace Postcard

/-- names pairwise distinct. -/
def namesNodup : List Name → Bool
  | [] => true
  | n :: ns => !(ns.contains n) && namesNodup ns

end Postcard

namespace Postcard.Dyn

/-! ## A. the crate's private varint / zig-zag copies equal postcard's -/

theorem dynVarintMax_eq (bits : Nat) : dynVarintMax bits = varintMax bits := rfl
theorem dynMaxOfLastByte_eq (bits : Nat) : dynMaxOfLastByte bits = maxOfLastByte bits := rfl

theorem dynVarintLoop_eq : ∀ (f v : Nat), dynVarintLoop f v = encVarintLoop f v := by
  intro f
  induction f with
  | zero => intro v; rfl
  | succ f ih => intro v; simp only [dynVarintLoop, encVarintLoop, ih]

theorem dynVarint_eq (bits n : Nat) : dynVarint bits n = encVarint bits n :=
  dynVarintLoop_eq _ _

theorem dynZigzag_eq (bits : Nat) (x : Int) : dynZigzag bits x = zigzag bits x := rfl
theorem dynUnzigzag_eq (n : Nat) : dynUnzigzag n = unzigzag n := rfl

/-- error translation postcard → postcard-dyn for the varint readers. -/
def liftVarintErr {α : Type} : R α → DR α
  | .ok a => .ok a
  | .error .unexpectedEnd => .error .unexpectedEnd
  | .error _ => .error .schemaMismatch

theorem dynTakeVarintLoop_eq (bits : Nat) : ∀ (f i out : Nat) (bs : List Byte),
    dynTakeVarintLoop bits f i out bs = liftVarintErr (decVarintLoop bits f i out bs) := by
  intro f
  induction f with
  | zero => intro i out bs; rfl
  | succ f ih =>
    intro i out bs
    cases bs with
    | nil => rfl
    | cons b rest =>
      simp only [dynTakeVarintLoop, decVarintLoop, dynVarintMax_eq, dynMaxOfLastByte_eq, ih]
      split
      · split <;> simp_all [liftVarintErr]
      · rfl

theorem dynTakeVarint_eq (bits : Nat) (bs : List Byte) :
    dynTakeVarint bits bs = liftVarintErr (decVarint bits bs) :=
  dynTakeVarintLoop_eq bits _ _ _ _

theorem dynTakeVarint_enc {bits n : Nat} (hb : WidthOk bits) (h : n < 2 ^ bits) (rest : List Byte) :
    dynTakeVarint bits (encVarint bits n ++ rest) = .ok (n, rest) := by
  rw [dynTakeVarint_eq, decVarint_encVarint hb h]; rfl

/-! ## B. association-list (`serde_json::Map`) lemmas -/

theorem bytesLt_irrefl : ∀ a : List Byte, bytesLt a a = false
  | [] => rfl
  | a :: as => by simp [bytesLt, bytesLt_irrefl as]

theorem bytesLt_asymm : ∀ a b : List Byte, bytesLt a b = true → bytesLt b a = false
  | [], [], h => by simp [bytesLt] at h
  | [], _ :: _, _ => rfl
  | _ :: _, [], h => by simp [bytesLt] at h
  | a :: as, b :: bs, h => by
    simp only [bytesLt] at h ⊢
    split at h
    · rename_i hlt
      have h1 : ¬ b.toNat < a.toNat := by omega
      have h2 : ¬ b.toNat = a.toNat := by omega
      simp [h1, h2]
    · split at h
      · rename_i hnl heq
        have h1 : ¬ b.toNat < a.toNat := by omega
        simp [h1, heq, bytesLt_asymm as bs h]
      · simp at h

theorem bytesLt_ne {a b : List Byte} (h : bytesLt a b = true) : a ≠ b := by
  intro e; subst e; rw [bytesLt_irrefl] at h; simp at h

theorem objInsert_last (k : List Byte) (v : Json) :
    ∀ acc : List (List Byte × Json), (∀ p ∈ acc, bytesLt p.1 k = true) →
      objInsert k v acc = acc ++ [(k, v)]
  | [], _ => rfl
  | (k', v') :: rest, h => by
    have h1 := h (k', v') (by simp)
    have hne : k' ≠ k := bytesLt_ne h1
    have hlt : bytesLt k k' = false := bytesLt_asymm _ _ h1
    simp [objInsert, hne, hlt, objInsert_last k v rest (fun p hp => h p (by simp [hp]))]

theorem allKeysGt_mem {k : List Byte} : ∀ {l : List (List Byte × Json)},
    allKeysGt k l = true → ∀ q ∈ l, bytesLt k q.1 = true
  | [], _, q, hq => by simp at hq
  | (k', v') :: rest, h, q, hq => by
    simp [allKeysGt] at h
    simp at hq
    rcases hq with rfl | hq
    · exact h.1
    · exact allKeysGt_mem h.2 q hq

theorem objInsertAll_sorted : ∀ (l acc : List (List Byte × Json)),
    (∀ p ∈ acc, ∀ q ∈ l, bytesLt p.1 q.1 = true) → keysPairwiseLt l = true →
      objInsertAll acc l = acc ++ l
  | [], acc, _, _ => by simp [objInsertAll]
  | (k, v) :: rest, acc, h, hp => by
    simp [keysPairwiseLt] at hp
    have hins : objInsert k v acc = acc ++ [(k, v)] :=
      objInsert_last k v acc (fun p hp' => h p hp' (k, v) (by simp))
    simp only [objInsertAll, hins]
    rw [objInsertAll_sorted rest (acc ++ [(k, v)]) _ hp.2]
    · simp
    · intro p hp' q hq
      simp at hp'
      rcases hp' with hp' | rfl
      · exact h p hp' q (by simp [hq])
      · exact allKeysGt_mem hp.1 q hq

theorem objGet_insert_self (k : List Byte) (v : Json) :
    ∀ l : List (List Byte × Json), objGet k (objInsert k v l) = some v
  | [] => by simp [objInsert, objGet]
  | (k', v') :: rest => by
    simp only [objInsert]
    split
    · simp [objGet]
    · split
      · simp [objGet]
      · rename_i hne _
        simp [objGet, hne, objGet_insert_self k v rest]

theorem objGet_insert_ne {k k' : List Byte} (v : Json) (hne : k ≠ k') :
    ∀ l : List (List Byte × Json), objGet k' (objInsert k v l) = objGet k' l
  | [] => by simp [objInsert, objGet, hne]
  | (k2, v2) :: rest => by
    simp only [objInsert]
    split
    · rename_i h; subst h
      simp [objGet, hne]
    · split
      · simp [objGet, hne]
      · simp [objGet, objGet_insert_ne v hne rest]

def keysOf (l : List (List Byte × Json)) : List (List Byte) := l.map Prod.fst

theorem objGet_insertAll_notin {k : List Byte} : ∀ (ps acc : List (List Byte × Json)),
    k ∉ keysOf ps → objGet k (objInsertAll acc ps) = objGet k acc
  | [], acc, _ => rfl
  | (k', v') :: rest, acc, h => by
    simp [keysOf] at h
    have hne : k' ≠ k := fun e => h.1 e.symm
    simp only [objInsertAll]
    rw [objGet_insertAll_notin rest _ (by simpa [keysOf] using h.2), objGet_insert_ne v' hne]

theorem mem_keys_insert {k k' : List Byte} (v : Json) :
    ∀ l : List (List Byte × Json), k' ∈ keysOf (objInsert k v l) ↔ k' = k ∨ k' ∈ keysOf l
  | [] => by simp [objInsert, keysOf]
  | (k2, v2) :: rest => by
    simp only [objInsert]
    split
    · rename_i h; subst h; simp [keysOf]
    · split
      · simp [keysOf]
      · have := mem_keys_insert (k := k) (k' := k') v rest
        simp [keysOf] at this ⊢
        rw [this]
        constructor
        · rintro (h | h | h) <;> simp [h]
        · rintro (h | h | h) <;> simp [h]

theorem length_insert_notin {k : List Byte} (v : Json) :
    ∀ l : List (List Byte × Json), k ∉ keysOf l → (objInsert k v l).length = l.length + 1
  | [], _ => rfl
  | (k2, v2) :: rest, h => by
    simp [keysOf] at h
    have hne : k2 ≠ k := fun e => h.1 e.symm
    simp only [objInsert, hne, if_false]
    split
    · simp
    · simp [length_insert_notin v rest (by simpa [keysOf] using h.2)]

theorem length_insertAll : ∀ (ps acc : List (List Byte × Json)),
    namesNodup (keysOf ps) = true → (∀ k ∈ keysOf ps, k ∉ keysOf acc) →
      (objInsertAll acc ps).length = acc.length + ps.length
  | [], acc, _, _ => by simp [objInsertAll]
  | (k, v) :: rest, acc, hn, hd => by
    simp [keysOf, namesNodup] at hn
    simp only [objInsertAll]
    rw [length_insertAll rest _ (by simpa [keysOf] using hn.2)]
    · rw [length_insert_notin v acc (hd k (by simp [keysOf]))]
      simp; omega
    · intro k' hk' hmem
      rw [mem_keys_insert] at hmem
      rcases hmem with rfl | hmem
      · simp [keysOf] at hk'
        obtain ⟨j, hj⟩ := hk'
        exact hn.1 j hj
      · exact hd k' (by simp [keysOf] at hk' ⊢; exact Or.inr hk') hmem

theorem keysOf_zipNames : ∀ (ns : List Name) (js : List Json), ns.length = js.length →
    keysOf (zipNames ns js) = ns
  | [], [], _ => rfl
  | [], _ :: _, h => by simp at h
  | _ :: _, [], h => by simp at h
  | n :: ns, j :: js, h => by
    simp at h
    simp [zipNames, keysOf] at *
    exact keysOf_zipNames ns js h

theorem length_zipNames : ∀ (ns : List Name) (js : List Json), ns.length = js.length →
    (zipNames ns js).length = ns.length
  | [], [], _ => rfl
  | [], _ :: _, h => by simp at h
  | _ :: _, [], h => by simp at h
  | n :: ns, j :: js, h => by
    simp at h
    simp [zipNames, length_zipNames ns js h]

/-- `obj.get(nameᵢ) = Some(jᵢ)` for every field. -/
def GetsAll (obj : List (List Byte × Json)) : List Name → List Json → Prop
  | n :: ns, j :: js => objGet n obj = some j ∧ GetsAll obj ns js
  | _, _ => True

theorem getsAll_insertAll : ∀ (ns : List Name) (js : List Json) (acc : List (List Byte × Json)),
    namesNodup ns = true → ns.length = js.length →
      GetsAll (objInsertAll acc (zipNames ns js)) ns js
  | [], _, _, _, _ => by simp [GetsAll]
  | _ :: _, [], _, _, h => by simp at h
  | n :: ns, j :: js, acc, hn, hl => by
    simp [namesNodup] at hn
    simp at hl
    refine ⟨?_, ?_⟩
    · simp only [zipNames, objInsertAll]
      rw [objGet_insertAll_notin _ _ (by rw [keysOf_zipNames ns js hl]; exact hn.1),
        objGet_insert_self]
    · simp only [zipNames, objInsertAll]
      exact getsAll_insertAll ns js _ hn.2 hl

end Postcard.Dyn

namespace Postcard

/-! ## C. scope predicates -/

/-- what the property assumes about the float conversions:
a finite f32 survives f32→f64→f32, and widens to a finite f64. -/
structure FloatOk (fo : FloatOps) : Prop where
  rt32 : ∀ b, b < 2 ^ 32 → fo.isFinite32 b = true → fo.f64ToF32 (fo.f32ToF64 b) = b
  fin32 : ∀ b, b < 2 ^ 32 → fo.isFinite32 b = true → fo.isFinite64 (fo.f32ToF64 b) = true

mutual
/-- every map node of the schema is keyed by `String`. -/
def stringKeyed : Schema → Bool
  | .option t => stringKeyed t
  | .seq t => stringKeyed t
  | .tuple ts => stringKeyedList ts
  | .map k v => (match k with | .string => true | _ => false) && stringKeyed v
  | .struct _ d => stringKeyedData d
  | .enum _ vs => stringKeyedVariants vs
  | _ => true
def stringKeyedList : List Schema → Bool
  | [] => true
  | t :: ts => stringKeyed t && stringKeyedList ts
def stringKeyedData : SData → Bool
  | .unit => true
  | .newtype t => stringKeyed t
  | .tuple ts => stringKeyedList ts
  | .struct fs => stringKeyedFields fs
def stringKeyedFields : List SField → Bool
  | [] => true
  | .mk _ t :: fs => stringKeyed t && stringKeyedFields fs
def stringKeyedVariants : List SVariant → Bool
  | [] => true
  | .mk _ d :: vs => stringKeyedData d && stringKeyedVariants vs
end

mutual
/-- value part of `Faithful`: the JSON form of the value is unambiguous. -/
def faithful (fo : FloatOps) : NVal → Bool
  | .u _ n => decide (n < 2 ^ 64)                                      -- integers within u64 …
  | .i _ x => decide (-(2 ^ 63 : Int) ≤ x) && decide (x < (2 ^ 64 : Int))  -- … / i64 (what `to_value` accepts)
  | .f32 b => fo.isFinite32 b                                          -- finite floats
  | .f64 b => fo.isFinite64 b
  | .some v => faithful fo v && !(toJson fo v).isNull                  -- no `Some(x)` whose JSON is `null`
  | .newtypeStruct v => faithful fo v
  | .newtypeVariant _ _ v => faithful fo v
  | .seq vs => faithfulList fo vs
  | .tuple vs => faithfulList fo vs
  | .tupleStruct vs => faithfulList fo vs                              -- (any arity: since the repair, 1-tuples are arrays too)
  | .tupleVariant _ _ vs => faithfulList fo vs
  | .map kvs => faithfulKV fo kvs && keysPairwiseLt (toJsonKV fo kvs)  -- string keys, strictly ascending
  | .struct names vs => faithfulList fo vs && namesNodup names         -- field names distinct
  | .structVariant _ _ names vs => faithfulList fo vs && namesNodup names
  | _ => true
def faithfulList (fo : FloatOps) : List NVal → Bool
  | [] => true
  | v :: vs => faithful fo v && faithfulList fo vs
def faithfulKV (fo : FloatOps) : List NVal → Bool
  | k :: v :: rest => isStrKey k && faithful fo v && faithfulKV fo rest
  | _ => true
end

/-- `Faithful s v` of the property statement: the schema has string-keyed maps
only and the JSON form of the value is unambiguous (integers within what
`serde_json` can hold — for `i128`: `i64 ∪ u64` —, finite floats, map keys
strings in strictly ascending order, no `Some(x)` whose JSON is `null`,
distinct field names). -/
def Faithful (fo : FloatOps) (s : Schema) (v : NVal) : Prop :=
  stringKeyed s = true ∧ faithful fo v = true

end Postcard

namespace Postcard.Dyn

/-! ## D. small facts -/

theorem encVarint_64_32 {n : Nat} (h : n < 2 ^ 32) : encVarint 64 n = encVarint 32 n := by
  rw [encVarint_eq_spec widthOk64 (Nat.lt_of_lt_of_le h (by decide)), encVarint_eq_spec widthOk32 h]

theorem toJsonList_length (fo : FloatOps) : ∀ vs : List NVal, (toJsonList fo vs).length = vs.length
  | [] => rfl
  | _ :: vs => by simp [toJsonList, toJsonList_length fo vs]

theorem eraseList_length : ∀ vs : List NVal, (eraseList vs).length = vs.length
  | [] => rfl
  | _ :: vs => by simp [eraseList, eraseList_length vs]

theorem asI64_jsonOfInt {x : Int} (h1 : -(2 ^ 63 : Int) ≤ x) (h2 : x < (2 ^ 63 : Int)) :
    (jsonOfInt x).asI64 = some x := by
  unfold jsonOfInt
  split
  · have : x < (2 ^ 64 : Int) := by omega
    simp only [this, if_true, Json.asI64]
    have h3 : x.toNat ≤ 2 ^ 63 - 1 := by omega
    simp only [h3, if_true]
    congr 1; omega
  · simp [Json.asI64]

theorem serByteElems_map : ∀ bs : List Byte,
    serByteElems (bs.map fun b => Json.posInt b.toNat) = .ok bs
  | [] => rfl
  | b :: bs => by
    have hb : b.toNat < 2 ^ 8 := by have := b.toNat_lt; simpa using this
    simp [serByteElems, getU, Json.asU64, hb, serByteElems_map bs]

theorem conformsNFields_length : ∀ (ns : List Name) (vs : List NVal) (fs : List SField),
    conformsNFields ns vs fs = true → ns.length = vs.length ∧ fs.length = vs.length
  | [], [], [], _ => by simp
  | [], [], _ :: _, h => by simp [conformsNFields] at h
  | [], _ :: _, _, h => by simp [conformsNFields] at h
  | _ :: _, [], _, h => by simp [conformsNFields] at h
  | _ :: _, _ :: _, [], h => by simp [conformsNFields] at h
  | n :: ns, v :: vs, .mk fn ty :: fs, h => by
    simp [conformsNFields] at h
    have := conformsNFields_length ns vs fs h.2
    simp [this.1, this.2]

theorem conformsNs_length : ∀ (vs : List NVal) (ts : List Schema),
    conformsNs vs ts = true → ts.length = vs.length
  | [], [], _ => rfl
  | [], _ :: _, h => by simp [conformsNs] at h
  | _ :: _, [], h => by simp [conformsNs] at h
  | _ :: vs, _ :: ts, h => by
    simp [conformsNs] at h
    simp [conformsNs_length vs ts h.2]

theorem toJsonKV_length (fo : FloatOps) : ∀ (kvs : List NVal) (k v : Schema),
    conformsNKV kvs k v = true → (toJsonKV fo kvs).length = kvs.length / 2
  | [], _, _, _ => rfl
  | [_], _, _, h => by simp [conformsNKV] at h
  | a :: b :: rest, k, v, h => by
    simp [conformsNKV] at h
    simp [toJsonKV, toJsonKV_length fo rest k v h.2]
    omega

/-! ### finding a variant -/

theorem dynSerUnitVariant_find (name : Name) (i : Nat) (d : SData) : ∀ (vs : List SVariant) (k : Nat),
    findVariant vs name k = some (i, d) →
      dynSerUnitVariant vs k name = dynSerUnitVariant [.mk name d] i name
  | [], _, h => by simp [findVariant] at h
  | .mk n d' :: rest, k, h => by
    simp only [findVariant] at h
    split at h
    · rename_i hn; subst hn
      simp at h; obtain ⟨rfl, rfl⟩ := h
      simp [dynSerUnitVariant]
    · rename_i hn
      rw [show dynSerUnitVariant (.mk n d' :: rest) k name = dynSerUnitVariant rest (k + 1) name by
        simp [dynSerUnitVariant, hn]]
      exact dynSerUnitVariant_find name i d rest (k + 1) h

theorem dynSerVariant_find (fo : FloatOps) (name : Name) (i : Nat) (d : SData) (j : Json) :
    ∀ (vs : List SVariant) (k : Nat), findVariant vs name k = some (i, d) →
      dynSerVariant fo vs k name j = dynSerVariant fo [.mk name d] i name j
  | [], _, h => by simp [findVariant] at h
  | .mk n d' :: rest, k, h => by
    simp only [findVariant] at h
    split at h
    · rename_i hn; subst hn
      simp at h; obtain ⟨rfl, rfl⟩ := h
      rw [dynSerVariant.eq_def]
      conv => rhs; rw [dynSerVariant.eq_def]
      dsimp only
      rw [if_pos rfl, if_pos rfl]
    · rename_i hn
      rw [show dynSerVariant fo (.mk n d' :: rest) k name j = dynSerVariant fo rest (k + 1) name j by
        rw [dynSerVariant.eq_def]; simp only [hn, if_false]]
      exact dynSerVariant_find fo name i d j rest (k + 1) h

theorem stringKeyed_find (name : Name) (i : Nat) (d : SData) : ∀ (vs : List SVariant) (k : Nat),
    findVariant vs name k = some (i, d) → stringKeyedVariants vs = true → stringKeyedData d = true
  | [], _, h, _ => by simp [findVariant] at h
  | .mk n d' :: rest, k, h, hk => by
    simp only [findVariant] at h
    simp [stringKeyedVariants] at hk
    split at h
    · simp at h; obtain ⟨_, rfl⟩ := h; exact hk.1
    · exact stringKeyed_find name i d rest (k + 1) h hk.2

end Postcard.Dyn

namespace Postcard.Dyn

/-! ## E. encoding direction -/

theorem asI64_posInt_big {n : Nat} (h : 2 ^ 63 ≤ n) : (Json.posInt n).asI64 = none := by
  have : ¬ n ≤ 2 ^ 63 - 1 := by omega
  simp [Json.asI64, this]

theorem oneScalar_encode {c : Nat} (h : isScalar c = true) : oneScalar (utf8Encode c) = true := by
  have := utf8Next_encode h []
  rw [List.append_nil] at this
  simp [oneScalar, this]

mutual
theorem ser_val (fo : FloatOps) (hfo : FloatOk fo) : (v : NVal) → (s : Schema) →
    conformsN v s = true → stringKeyed s = true → faithful fo v = true →
    dynSer fo s (toJson fo v) = .ok (enc (erase v))
  | .bool b, s, hc, hk, hf => by
    cases s <;> simp [conformsN] at hc
    cases b <;> simp [toJson, dynSer, Json.asBool, erase, enc]
  | .u w n, s, hc, hk, hf => by
    simp [faithful] at hf
    cases s <;> cases w <;> simp [conformsN] at hc <;>
      simp [toJson, jsonOfNat, hf, hc, dynSer, getU, asU64R, Json.asU64, erase, enc, dynVarint_eq, IntW.bits]
  | .i .w128 x, s, hc, hk, hf => by
    simp [faithful] at hf
    cases s <;> simp [conformsN, IntW.inRangeI_iff, IntW.bits] at hc
    by_cases hx : x < (2 ^ 63 : Int)
    · have ha : (jsonOfInt x).asI64 = some x := asI64_jsonOfInt (by omega) hx
      simp [toJson, dynSer, ha, erase, enc, dynVarint_eq, dynZigzag_eq, IntW.bits]
    · have h0 : (0 : Int) ≤ x := by omega
      have hj : jsonOfInt x = .posInt x.toNat := by simp [jsonOfInt, h0, hf.2]
      have hb : (2 : Nat) ^ 63 ≤ x.toNat := by omega
      have hcast : ((x.toNat : Nat) : Int) = x := by omega
      simp [toJson, hj, dynSer, asI64_posInt_big hb, asU64R, Json.asU64, hcast, erase, enc, dynVarint_eq,
        dynZigzag_eq, IntW.bits]
  | .i .w8 x, s, hc, hk, hf => by
    cases s <;> simp [conformsN, IntW.inRangeI_iff, IntW.bits] at hc
    have ha : (jsonOfInt x).asI64 = some x := asI64_jsonOfInt (by omega) (by omega)
    simp [toJson, dynSer, getI, asI64R, ha, hc, erase, enc, dynVarint_eq, dynZigzag_eq, IntW.bits]
  | .i .w16 x, s, hc, hk, hf => by
    cases s <;> simp [conformsN, IntW.inRangeI_iff, IntW.bits] at hc
    have ha : (jsonOfInt x).asI64 = some x := asI64_jsonOfInt (by omega) (by omega)
    simp [toJson, dynSer, getI, asI64R, ha, hc, erase, enc, dynVarint_eq, dynZigzag_eq, IntW.bits]
  | .i .w32 x, s, hc, hk, hf => by
    cases s <;> simp [conformsN, IntW.inRangeI_iff, IntW.bits] at hc
    have ha : (jsonOfInt x).asI64 = some x := asI64_jsonOfInt (by omega) (by omega)
    simp [toJson, dynSer, getI, asI64R, ha, hc, erase, enc, dynVarint_eq, dynZigzag_eq, IntW.bits]
  | .i .w64 x, s, hc, hk, hf => by
    cases s <;> simp [conformsN, IntW.inRangeI_iff, IntW.bits] at hc <;>
      (have ha : (jsonOfInt x).asI64 = some x := asI64_jsonOfInt (by omega) (by omega)) <;>
      simp [toJson, dynSer, getI, asI64R, ha, hc, erase, enc, dynVarint_eq, dynZigzag_eq, IntW.bits]
  | .f32 b, s, hc, hk, hf => by
    cases s <;> simp [conformsN] at hc
    simp [faithful] at hf
    simp [toJson, Json.ofF32, hf, dynSer, Json.asF64, hfo.rt32 b hc hf, erase, enc]
  | .f64 b, s, hc, hk, hf => by
    cases s <;> simp [conformsN] at hc
    simp [faithful] at hf
    simp [toJson, Json.ofF64, Json.numFromF64, hf, dynSer, Json.asF64, erase, enc]
  | .char c, s, hc, hk, hf => by
    cases s <;> simp [conformsN] at hc
    simp [toJson, dynSer, serStr, Json.asStr, oneScalar_encode hc, erase, enc, dynVarint_eq]
  | .str u, s, hc, hk, hf => by
    cases s <;> simp [conformsN] at hc
    simp [toJson, dynSer, serStr, Json.asStr, erase, enc, dynVarint_eq]
  | .bytes u, s, hc, hk, hf => by
    cases s <;> simp [conformsN] at hc
    simp [toJson, dynSer, Json.asArray, serByteElems_map, erase, enc, dynVarint_eq]
  | .none, s, hc, hk, hf => by
    cases s <;> simp [conformsN] at hc
    simp [toJson, dynSer, Json.isNull, erase, enc]
  | .some v, s, hc, hk, hf => by
    cases s <;> simp [conformsN] at hc
    simp [faithful] at hf
    simp [stringKeyed] at hk
    simp [toJson, dynSer, hf.2, ser_val fo hfo v _ hc hk hf.1, erase, enc]
  | .unit, s, hc, hk, hf => by
    cases s <;> simp [conformsN] at hc
    simp [toJson, dynSer, erase, enc]
  | .unitStruct, s, hc, hk, hf => by
    cases s <;> try (simp [conformsN] at hc)
    rename_i nm d
    cases d <;> simp [conformsN] at hc
    simp [toJson, dynSer, erase, enc]
  | .newtypeStruct v, s, hc, hk, hf => by
    cases s <;> try (simp [conformsN] at hc)
    rename_i nm d
    cases d <;> simp [conformsN] at hc
    simp [faithful] at hf
    simp [stringKeyed, stringKeyedData] at hk
    simp [toJson, dynSer, ser_val fo hfo v _ hc hk hf, erase, enc]
  | .seq vs, s, hc, hk, hf => by
    cases s <;> simp [conformsN] at hc
    simp [faithful] at hf
    simp [stringKeyed] at hk
    simp [toJson, dynSer, Json.asArray, ser_all fo hfo vs _ hc.1 hk hf, erase, enc, dynVarint_eq,
      toJsonList_length, eraseList_length]
  | .tuple vs, s, hc, hk, hf => by
    cases s <;> simp [conformsN] at hc
    rename_i ts
    simp [faithful] at hf
    simp [stringKeyed] at hk
    have hl := conformsNs_length vs ts hc
    simp [toJson, dynSer, Json.asArray, toJsonList_length, hl, ser_zip fo hfo vs ts hc hk hf, erase, enc]
  | .tupleStruct vs, s, hc, hk, hf => by
    cases s <;> try (simp [conformsN] at hc)
    rename_i nm d
    cases d <;> simp [conformsN] at hc
    rename_i ts
    simp [faithful] at hf
    simp [stringKeyed, stringKeyedData] at hk
    have hl := conformsNs_length vs ts hc
    simp [toJson, dynSer, Json.asArray, toJsonList_length, hl, ser_zip fo hfo vs ts hc hk hf, erase, enc]
  | .map kvs, s, hc, hk, hf => by
    cases s <;> simp [conformsN] at hc
    rename_i kt vt
    simp [faithful] at hf
    simp [stringKeyed] at hk
    cases kt <;> simp at hk
    have hsorted : objInsertAll [] (toJsonKV fo kvs) = toJsonKV fo kvs := by
      have := objInsertAll_sorted (toJsonKV fo kvs) [] (by simp) hf.2
      simpa using this
    simp [toJson, hsorted, dynSer, Json.asObject, ser_kv fo hfo kvs _ hc.1 hk hf.1, erase, enc,
      dynVarint_eq, toJsonKV_length fo kvs _ _ hc.1, eraseList_length]
  | .struct names vs, s, hc, hk, hf => by
    cases s <;> try (simp [conformsN] at hc)
    rename_i nm d
    cases d <;> simp [conformsN] at hc
    rename_i fs
    simp [faithful] at hf
    simp [stringKeyed, stringKeyedData] at hk
    have hl := conformsNFields_length names vs fs hc
    have hlj : names.length = (toJsonList fo vs).length := by simp [toJsonList_length, hl.1]
    have hlen : (objInsertAll [] (zipNames names (toJsonList fo vs))).length = fs.length := by
      rw [length_insertAll _ _ (by rw [keysOf_zipNames _ _ hlj]; exact hf.2) (by simp [keysOf]),
        length_zipNames _ _ hlj]
      simp [hl.1, hl.2]
    simp [toJson, dynSer, Json.asObject, hlen, erase, enc,
      ser_fields fo hfo names vs fs hc hk hf.1 _ (getsAll_insertAll names _ [] hf.2 hlj)]
  | .unitVariant idx name, s, hc, hk, hf => by
    cases s <;> simp [conformsN] at hc
    rename_i nm vars
    obtain ⟨hi, hc⟩ := hc
    split at hc <;> try (simp at hc)
    rename_i i hfind
    subst hc
    simp [toJson, dynSer, Json.asStr, dynSerUnitVariant_find name i _ vars 0 hfind, dynSerUnitVariant,
      erase, enc, dynVarint_eq, encVarint_64_32 hi]
  | .newtypeVariant idx name v, s, hc, hk, hf => by
    cases s <;> simp [conformsN] at hc
    rename_i nm vars
    obtain ⟨hi, hc⟩ := hc
    split at hc <;> try (simp at hc)
    rename_i i t hfind
    obtain ⟨rfl, hc⟩ := hc
    simp [faithful] at hf
    simp [stringKeyed] at hk
    have hk' := stringKeyed_find name i _ vars 0 hfind hk
    simp [stringKeyedData] at hk'
    simp only [toJson, dynSer, Json.asStr, Json.asObject, dynSerVariant_find fo name i _ _ vars 0 hfind]
    rw [dynSerVariant.eq_def]; dsimp only; rw [if_pos rfl]
    simp [ser_val fo hfo v t hc hk' hf, erase, enc, dynVarint_eq, encVarint_64_32 hi]
  | .tupleVariant idx name vs, s, hc, hk, hf => by
    cases s <;> simp [conformsN] at hc
    rename_i nm vars
    obtain ⟨hi, hc⟩ := hc
    split at hc <;> try (simp at hc)
    rename_i i ts hfind
    obtain ⟨rfl, hc⟩ := hc
    simp [faithful] at hf
    simp [stringKeyed] at hk
    have hk' := stringKeyed_find name i _ vars 0 hfind hk
    simp [stringKeyedData] at hk'
    have hl := conformsNs_length vs ts hc
    simp only [toJson, dynSer, Json.asStr, Json.asObject, dynSerVariant_find fo name i _ _ vars 0 hfind]
    rw [dynSerVariant.eq_def]; dsimp only; rw [if_pos rfl]
    simp [Json.asArray, toJsonList_length, hl, ser_zip fo hfo vs ts hc hk' hf, erase, enc, dynVarint_eq,
      encVarint_64_32 hi]
  | .structVariant idx name names vs, s, hc, hk, hf => by
    cases s <;> simp [conformsN] at hc
    rename_i nm vars
    obtain ⟨hi, hc⟩ := hc
    split at hc <;> try (simp at hc)
    rename_i i fs hfind
    obtain ⟨rfl, hc⟩ := hc
    simp [faithful] at hf
    simp [stringKeyed] at hk
    have hk' := stringKeyed_find name i _ vars 0 hfind hk
    simp [stringKeyedData] at hk'
    have hl := conformsNFields_length names vs fs hc
    have hlj : names.length = (toJsonList fo vs).length := by simp [toJsonList_length, hl.1]
    have hlen : (objInsertAll [] (zipNames names (toJsonList fo vs))).length = fs.length := by
      rw [length_insertAll _ _ (by rw [keysOf_zipNames _ _ hlj]; exact hf.2) (by simp [keysOf]),
        length_zipNames _ _ hlj]
      simp [hl.1, hl.2]
    simp only [toJson, dynSer, Json.asStr, Json.asObject, dynSerVariant_find fo name i _ _ vars 0 hfind]
    rw [dynSerVariant.eq_def]; dsimp only; rw [if_pos rfl]
    simp [Json.asObject, hlen, erase, enc, dynVarint_eq, encVarint_64_32 hi,
      ser_fields fo hfo names vs fs hc hk' hf.1 _ (getsAll_insertAll names _ [] hf.2 hlj)]
  | .schema sv, s, hc, hk, hf => by
    cases s <;> simp [conformsN] at hc
    simp [toJson, dynSer, soj_schema, erase]
theorem ser_zip (fo : FloatOps) (hfo : FloatOk fo) : (vs : List NVal) → (ts : List Schema) →
    conformsNs vs ts = true → stringKeyedList ts = true → faithfulList fo vs = true →
    dynSerZip fo ts (toJsonList fo vs) = .ok (encList (eraseList vs))
  | [], ts, hc, hk, hf => by
    cases ts <;> simp [conformsNs] at hc
    simp [toJsonList, dynSerZip, eraseList, encList]
  | v :: vs, ts, hc, hk, hf => by
    cases ts <;> simp [conformsNs] at hc
    simp [faithfulList] at hf
    simp [stringKeyedList] at hk
    simp [toJsonList, dynSerZip, eraseList, encList, ser_val fo hfo v _ hc.1 hk.1 hf.1,
      ser_zip fo hfo vs _ hc.2 hk.2 hf.2]
theorem ser_all (fo : FloatOps) (hfo : FloatOk fo) : (vs : List NVal) → (t : Schema) →
    conformsNAll vs t = true → stringKeyed t = true → faithfulList fo vs = true →
    serAll (dynSer fo t) (toJsonList fo vs) = .ok (encList (eraseList vs))
  | [], t, _, _, _ => by simp [toJsonList, serAll, eraseList, encList]
  | v :: vs, t, hc, hk, hf => by
    simp [conformsNAll] at hc
    simp [faithfulList] at hf
    simp [toJsonList, serAll, eraseList, encList, ser_val fo hfo v _ hc.1 hk hf.1,
      ser_all fo hfo vs _ hc.2 hk hf.2]
theorem ser_kv (fo : FloatOps) (hfo : FloatOk fo) : (kvs : List NVal) → (vt : Schema) →
    conformsNKV kvs .string vt = true → stringKeyed vt = true → faithfulKV fo kvs = true →
    serKvs (dynSer fo vt) (toJsonKV fo kvs) = .ok (encList (eraseList kvs))
  | [], _, _, _, _ => by simp [toJsonKV, serKvs, eraseList, encList]
  | [_], _, hc, _, _ => by simp [conformsNKV] at hc
  | k :: v :: rest, vt, hc, hk, hf => by
    simp [conformsNKV] at hc
    simp [faithfulKV] at hf
    cases k <;> simp [isStrKey] at hf
    simp [toJsonKV, jsonKeyOf, serKvs, eraseList, encList, erase, enc, dynVarint_eq,
      ser_val fo hfo v _ hc.1.2 hk hf.1, ser_kv fo hfo rest _ hc.2 hk hf.2]
theorem ser_fields (fo : FloatOps) (hfo : FloatOk fo) : (names : List Name) → (vs : List NVal) →
    (fs : List SField) → conformsNFields names vs fs = true → stringKeyedFields fs = true →
    faithfulList fo vs = true →
    (obj : List (List Byte × Json)) → GetsAll obj names (toJsonList fo vs) →
    dynSerFields fo fs obj = .ok (encList (eraseList vs))
  | [], [], [], _, _, _, _, _ => by simp [dynSerFields, eraseList, encList]
  | [], [], _ :: _, hc, _, _, _, _ => by simp [conformsNFields] at hc
  | [], _ :: _, _, hc, _, _, _, _ => by simp [conformsNFields] at hc
  | _ :: _, [], _, hc, _, _, _, _ => by simp [conformsNFields] at hc
  | _ :: _, _ :: _, [], hc, _, _, _, _ => by simp [conformsNFields] at hc
  | n :: ns, v :: vs, .mk fname ty :: fs, hc, hk, hf, obj, hg => by
    simp [conformsNFields] at hc
    obtain ⟨⟨rfl, hc1⟩, hc2⟩ := hc
    simp [faithfulList] at hf
    simp [stringKeyedFields] at hk
    simp only [toJsonList, GetsAll] at hg
    simp [dynSerFields, hg.1, eraseList, encList, ser_val fo hfo v _ hc1 hk.1 hf.1,
      ser_fields fo hfo ns vs fs hc2 hk.2 hf.2 obj hg.2]
end

end Postcard.Dyn

namespace Postcard.Dyn

/-! ## F. decoding direction -/

theorem dynTakeN_append (s r : List Byte) : dynTakeN s.length (s ++ r) = .ok (s, r) := by
  simp [dynTakeN]

theorem dynTakeN_append' {n : Nat} (s r : List Byte) (h : s.length = n) :
    dynTakeN n (s ++ r) = .ok (s, r) := by
  subst h; exact dynTakeN_append s r

theorem ofI64_eq_jsonOfInt {x : Int} (h1 : -(2 ^ 63 : Int) ≤ x) (h2 : x < (2 ^ 64 : Int)) :
    Json.ofI64 x = jsonOfInt x := by
  unfold Json.ofI64 jsonOfInt
  split <;> split <;> simp_all <;> omega

theorem de_i_varint (w : IntW) (hw : w ≠ .w8) (x : Int) (h : w.inRangeI x = true) (rest : List Byte) :
    dynTakeVarint w.bits (encVarint w.bits (zigzag w.bits x) ++ rest) = .ok (zigzag w.bits x, rest) :=
  dynTakeVarint_enc (IntW.widthOk hw) (zigzag_lt (IntW.bits_pos _) ((IntW.inRangeI_iff w x).1 h)) rest

theorem de_i_unzig (w : IntW) (x : Int) (h : w.inRangeI x = true) :
    dynUnzigzag (zigzag w.bits x) = x :=
  unzigzag_zigzag (IntW.bits_pos _) ((IntW.inRangeI_iff w x).1 h)

theorem findVariant_ge (name : Name) (i : Nat) (d : SData) : ∀ (vs : List SVariant) (k : Nat),
    findVariant vs name k = some (i, d) → k ≤ i
  | [], _, h => by simp [findVariant] at h
  | .mk n d' :: rest, k, h => by
    simp only [findVariant] at h
    split at h
    · simp at h; omega
    · have := findVariant_ge name i d rest (k + 1) h; omega

theorem dynDeVariant_find (fo : FloatOps) (name : Name) (i : Nat) (d : SData) (bs : List Byte) :
    ∀ (vs : List SVariant) (k : Nat), findVariant vs name k = some (i, d) →
      dynDeVariant fo vs (i - k) bs = dynDeVariant fo [.mk name d] 0 bs
  | [], _, h => by simp [findVariant] at h
  | .mk n d' :: rest, k, h => by
    simp only [findVariant] at h
    split at h
    · rename_i hn; subst hn
      simp at h; obtain ⟨rfl, rfl⟩ := h
      rw [Nat.sub_self, dynDeVariant.eq_def]
      conv => rhs; rw [dynDeVariant.eq_def]
    · have hge := findVariant_ge name i d rest (k + 1) h
      have : i - k = (i - (k + 1)) + 1 := by omega
      rw [this, dynDeVariant.eq_def]
      exact dynDeVariant_find fo name i d bs rest (k + 1) h

mutual
theorem de_val (fo : FloatOps) (hfo : FloatOk fo) : (v : NVal) → (s : Schema) →
    conformsN v s = true → stringKeyed s = true → faithful fo v = true →
    (rest : List Byte) →
    dynDe fo s (enc (erase v) ++ rest) = .ok (toJson fo v, rest)
  | .bool b, s, hc, hk, hf, rest => by
    cases s <;> simp [conformsN] at hc
    cases b <;> simp [toJson, dynDe, dynTakeOne, erase, enc]
  | .u .w8 n, s, hc, hk, hf, rest => by
    cases s <;> simp [conformsN] at hc
    have : n % 256 = n := Nat.mod_eq_of_lt hc
    have h64 : n < 2 ^ 64 := by omega
    simp [toJson, jsonOfNat, dynDe, dynTakeOne, erase, enc, UInt8.toNat_ofNat', this, h64]
  | .u .w16 n, s, hc, hk, hf, rest => by
    cases s <;> simp [conformsN] at hc
    have h64 : n < 2 ^ 64 := by omega
    simp [toJson, jsonOfNat, h64, dynDe, erase, enc, IntW.bits, dynTakeVarint_enc widthOk16 hc]
  | .u .w32 n, s, hc, hk, hf, rest => by
    cases s <;> simp [conformsN] at hc
    have h64 : n < 2 ^ 64 := by omega
    simp [toJson, jsonOfNat, h64, dynDe, erase, enc, IntW.bits, dynTakeVarint_enc widthOk32 hc]
  | .u .w64 n, s, hc, hk, hf, rest => by
    cases s <;> simp [conformsN] at hc <;>
      simp [toJson, jsonOfNat, hc, dynDe, erase, enc, IntW.bits, dynTakeVarint_enc widthOk64 hc]
  | .u .w128 n, s, hc, hk, hf, rest => by
    cases s <;> simp [conformsN] at hc
    simp [faithful] at hf
    simp [toJson, jsonOfNat, hf, dynDe, erase, enc, IntW.bits, dynTakeVarint_enc widthOk128 hc]
  | .i .w8 x, s, hc, hk, hf, rest => by
    cases s <;> simp [conformsN] at hc
    have hr : -128 ≤ x ∧ x < 128 := by simpa [IntW.bits] using (IntW.inRangeI_iff _ _).1 hc
    have hb : ofBits 8 (toBits 8 x % 256) = x := by
      have := ofBits_toBits8 hr
      simpa [UInt8.toNat_ofNat'] using this
    simp [toJson, dynDe, dynTakeOne, erase, enc, hb,
      ofI64_eq_jsonOfInt (x := x) (by omega) (by omega)]
  | .i .w16 x, s, hc, hk, hf, rest => by
    cases s <;> simp [conformsN] at hc
    have hr : -32768 ≤ x ∧ x < 32768 := by simpa [IntW.bits] using (IntW.inRangeI_iff _ _).1 hc
    have h1 := de_i_varint .w16 (by decide) x hc rest
    have h2 := de_i_unzig .w16 x hc
    simp only [IntW.bits] at h1 h2
    simp [toJson, dynDe, erase, enc, IntW.bits, h1, h2, ofI64_eq_jsonOfInt (x := x) (by omega) (by omega)]
  | .i .w32 x, s, hc, hk, hf, rest => by
    cases s <;> simp [conformsN] at hc
    have hr : -2147483648 ≤ x ∧ x < 2147483648 := by simpa [IntW.bits] using (IntW.inRangeI_iff _ _).1 hc
    have h1 := de_i_varint .w32 (by decide) x hc rest
    have h2 := de_i_unzig .w32 x hc
    simp only [IntW.bits] at h1 h2
    simp [toJson, dynDe, erase, enc, IntW.bits, h1, h2, ofI64_eq_jsonOfInt (x := x) (by omega) (by omega)]
  | .i .w64 x, s, hc, hk, hf, rest => by
    cases s <;> simp [conformsN] at hc <;>
    · have hr : -9223372036854775808 ≤ x ∧ x < 9223372036854775808 := by
        simpa [IntW.bits] using (IntW.inRangeI_iff _ _).1 hc
      have h1 := de_i_varint .w64 (by decide) x hc rest
      have h2 := de_i_unzig .w64 x hc
      simp only [IntW.bits] at h1 h2
      simp [toJson, dynDe, erase, enc, IntW.bits, h1, h2, ofI64_eq_jsonOfInt (x := x) (by omega) (by omega)]
  | .i .w128 x, s, hc, hk, hf, rest => by
    cases s <;> simp [conformsN] at hc
    simp [faithful] at hf
    have h1 := de_i_varint .w128 (by decide) x hc rest
    have h2 := de_i_unzig .w128 x hc
    simp only [IntW.bits] at h1 h2
    by_cases hx : x < (2 ^ 63 : Int)
    · have hx' : x < 9223372036854775808 := by simpa using hx
      simp [toJson, dynDe, erase, enc, IntW.bits, h1, h2, hf.1, hx',
        ofI64_eq_jsonOfInt (x := x) (by omega) (by omega)]
    · have h0 : (0 : Int) ≤ x := by omega
      have hx' : ¬ x < 9223372036854775808 := by simpa using hx
      have hj : jsonOfInt x = .posInt x.toNat := by simp [jsonOfInt, h0, hf.2]
      simp [toJson, hj, dynDe, erase, enc, IntW.bits, h1, h2, hx', h0, hf.2]
  | .f32 b, s, hc, hk, hf, rest => by
    cases s <;> simp [conformsN] at hc
    simp [faithful] at hf
    have hb : b < 256 ^ 4 := by omega
    simp [toJson, Json.ofF32, hf, dynDe, erase, enc, dynTakeN_append' _ rest (leBytes_length 4 b),
      ofLeBytes_leBytes hb, Json.numFromF64, hfo.fin32 b hc hf]
  | .f64 b, s, hc, hk, hf, rest => by
    cases s <;> simp [conformsN] at hc
    simp [faithful] at hf
    have hb : b < 256 ^ 8 := by omega
    simp [toJson, Json.ofF64, hf, dynDe, erase, enc, dynTakeN_append' _ rest (leBytes_length 8 b),
      ofLeBytes_leBytes hb, Json.numFromF64]
  | .char c, s, hc, hk, hf, rest => by
    cases s <;> simp [conformsN] at hc
    have hl : (utf8Encode c).length < 2 ^ 64 := by have := utf8Encode_length_le c; omega
    simp [toJson, dynDe, erase, enc, dynTakeVarint_enc widthOk64 hl, dynTakeN_append,
      utf8Valid_encode hc, oneScalar_encode hc]
  | .str u, s, hc, hk, hf, rest => by
    cases s <;> simp [conformsN] at hc
    simp [toJson, dynDe, erase, enc, dynTakeVarint_enc widthOk64 hc.2, dynTakeN_append, hc.1]
  | .bytes u, s, hc, hk, hf, rest => by
    cases s <;> simp [conformsN] at hc
    simp [toJson, dynDe, erase, enc, dynTakeVarint_enc widthOk64 hc, dynTakeN_append]
  | .none, s, hc, hk, hf, rest => by
    cases s <;> simp [conformsN] at hc
    simp [toJson, dynDe, dynTakeOne, erase, enc]
  | .some v, s, hc, hk, hf, rest => by
    cases s <;> simp [conformsN] at hc
    simp [faithful] at hf
    simp [stringKeyed] at hk
    simp [toJson, dynDe, dynTakeOne, de_val fo hfo v _ hc hk hf.1 rest, erase, enc]
  | .unit, s, hc, hk, hf, rest => by
    cases s <;> simp [conformsN] at hc
    simp [toJson, dynDe, erase, enc]
  | .unitStruct, s, hc, hk, hf, rest => by
    cases s <;> try (simp [conformsN] at hc)
    rename_i nm d
    cases d <;> simp [conformsN] at hc
    simp [toJson, dynDe, erase, enc]
  | .newtypeStruct v, s, hc, hk, hf, rest => by
    cases s <;> try (simp [conformsN] at hc)
    rename_i nm d
    cases d <;> simp [conformsN] at hc
    simp [faithful] at hf
    simp [stringKeyed, stringKeyedData] at hk
    simp [toJson, dynDe, de_val fo hfo v _ hc hk hf rest, erase, enc]
  | .seq vs, s, hc, hk, hf, rest => by
    cases s <;> simp [conformsN] at hc
    simp [faithful] at hf
    have hl : (eraseList vs).length < 2 ^ 64 := by rw [eraseList_length]; exact hc.2
    simp [stringKeyed] at hk
    have := de_all fo hfo vs _ hc.1 hk hf rest
    rw [← eraseList_length] at this
    simp [toJson, dynDe, erase, enc, dynTakeVarint_enc widthOk64 hl, this]
  | .tuple vs, s, hc, hk, hf, rest => by
    cases s <;> simp [conformsN] at hc
    rename_i ts
    simp [faithful] at hf
    simp [stringKeyed] at hk
    simp [toJson, dynDe, erase, enc, de_list fo hfo vs ts hc hk hf rest]
  | .tupleStruct vs, s, hc, hk, hf, rest => by
    cases s <;> try (simp [conformsN] at hc)
    rename_i nm d
    cases d <;> simp [conformsN] at hc
    rename_i ts
    simp [faithful] at hf
    simp [stringKeyed, stringKeyedData] at hk
    simp [toJson, dynDe, erase, enc, de_list fo hfo vs ts hc hk hf rest]
  | .map kvs, s, hc, hk, hf, rest => by
    cases s <;> simp [conformsN] at hc
    rename_i kt vt
    simp [faithful] at hf
    simp [stringKeyed] at hk
    cases kt <;> simp at hk
    have hl : (eraseList kvs).length / 2 < 2 ^ 64 := by rw [eraseList_length]; exact hc.2
    have := de_kv fo hfo kvs _ hc.1 hk hf.1 [] rest
    rw [← eraseList_length] at this
    simp [toJson, dynDe, erase, enc, dynTakeVarint_enc widthOk64 hl, this]
  | .struct names vs, s, hc, hk, hf, rest => by
    cases s <;> try (simp [conformsN] at hc)
    rename_i nm d
    cases d <;> simp [conformsN] at hc
    rename_i fs
    simp [faithful] at hf
    simp [stringKeyed, stringKeyedData] at hk
    simp [toJson, dynDe, erase, enc, de_fields fo hfo names vs fs hc hk hf.1 [] rest]
  | .unitVariant idx name, s, hc, hk, hf, rest => by
    cases s <;> simp [conformsN] at hc
    rename_i nm vars
    obtain ⟨hi, hc⟩ := hc
    split at hc <;> try (simp at hc)
    rename_i i hfind
    subst hc
    have hd := dynDeVariant_find fo name i _ rest vars 0 hfind
    simp only [Nat.sub_zero] at hd
    simp only [erase, enc, dynDe, ← encVarint_64_32 hi,
      dynTakeVarint_enc widthOk64 (Nat.lt_of_lt_of_le hi (by decide)), hd]
    rw [dynDeVariant.eq_def]
    simp [toJson]
  | .newtypeVariant idx name v, s, hc, hk, hf, rest => by
    cases s <;> simp [conformsN] at hc
    rename_i nm vars
    obtain ⟨hi, hc⟩ := hc
    split at hc <;> try (simp at hc)
    rename_i i t hfind
    obtain ⟨rfl, hc⟩ := hc
    simp [faithful] at hf
    simp [stringKeyed] at hk
    have hk' := stringKeyed_find name i _ vars 0 hfind hk
    simp [stringKeyedData] at hk'
    have hd := dynDeVariant_find fo name i _ (enc (erase v) ++ rest) vars 0 hfind
    simp only [Nat.sub_zero] at hd
    simp only [erase, enc, dynDe, ← encVarint_64_32 hi, List.append_assoc,
      dynTakeVarint_enc widthOk64 (Nat.lt_of_lt_of_le hi (by decide)), hd]
    rw [dynDeVariant.eq_def]
    simp [toJson, de_val fo hfo v t hc hk' hf rest]
  | .tupleVariant idx name vs, s, hc, hk, hf, rest => by
    cases s <;> simp [conformsN] at hc
    rename_i nm vars
    obtain ⟨hi, hc⟩ := hc
    split at hc <;> try (simp at hc)
    rename_i i ts hfind
    obtain ⟨rfl, hc⟩ := hc
    simp [faithful] at hf
    simp [stringKeyed] at hk
    have hk' := stringKeyed_find name i _ vars 0 hfind hk
    simp [stringKeyedData] at hk'
    have hd := dynDeVariant_find fo name i _ (encList (eraseList vs) ++ rest) vars 0 hfind
    simp only [Nat.sub_zero] at hd
    simp only [erase, enc, dynDe, ← encVarint_64_32 hi, List.append_assoc,
      dynTakeVarint_enc widthOk64 (Nat.lt_of_lt_of_le hi (by decide)), hd]
    rw [dynDeVariant.eq_def]
    simp [toJson, de_list fo hfo vs ts hc hk' hf rest]
  | .structVariant idx name names vs, s, hc, hk, hf, rest => by
    cases s <;> simp [conformsN] at hc
    rename_i nm vars
    obtain ⟨hi, hc⟩ := hc
    split at hc <;> try (simp at hc)
    rename_i i fs hfind
    obtain ⟨rfl, hc⟩ := hc
    simp [faithful] at hf
    simp [stringKeyed] at hk
    have hk' := stringKeyed_find name i _ vars 0 hfind hk
    simp [stringKeyedData] at hk'
    have hd := dynDeVariant_find fo name i _ (encList (eraseList vs) ++ rest) vars 0 hfind
    simp only [Nat.sub_zero] at hd
    simp only [erase, enc, dynDe, ← encVarint_64_32 hi, List.append_assoc,
      dynTakeVarint_enc widthOk64 (Nat.lt_of_lt_of_le hi (by decide)), hd]
    rw [dynDeVariant.eq_def]
    simp [toJson, de_fields fo hfo names vs fs hc hk' hf.1 [] rest]
  | .schema sv, s, hc, hk, hf, rest => by
    cases s <;> simp [conformsN] at hc
    simp [toJson, dynDe, erase, owned_roundtrip_closed sv hc rest]
theorem de_list (fo : FloatOps) (hfo : FloatOk fo) : (vs : List NVal) → (ts : List Schema) →
    conformsNs vs ts = true → stringKeyedList ts = true → faithfulList fo vs = true →
    (rest : List Byte) →
    dynDeList fo ts (encList (eraseList vs) ++ rest) = .ok (toJsonList fo vs, rest)
  | [], ts, hc, _, _, rest => by
    cases ts <;> simp [conformsNs] at hc
    simp [toJsonList, dynDeList, eraseList, encList]
  | v :: vs, ts, hc, hk, hf, rest => by
    cases ts <;> simp [conformsNs] at hc
    simp [faithfulList] at hf
    simp [stringKeyedList] at hk
    simp [toJsonList, dynDeList, eraseList, encList, de_val fo hfo v _ hc.1 hk.1 hf.1,
      de_list fo hfo vs _ hc.2 hk.2 hf.2 rest]
theorem de_all (fo : FloatOps) (hfo : FloatOk fo) : (vs : List NVal) → (t : Schema) →
    conformsNAll vs t = true → stringKeyed t = true → faithfulList fo vs = true →
    (rest : List Byte) →
    deN (dynDe fo t) vs.length (encList (eraseList vs) ++ rest) = .ok (toJsonList fo vs, rest)
  | [], t, _, _, _, rest => by simp [toJsonList, deN, eraseList, encList]
  | v :: vs, t, hc, hk, hf, rest => by
    simp [conformsNAll] at hc
    simp [faithfulList] at hf
    simp [toJsonList, deN, eraseList, encList, de_val fo hfo v _ hc.1 hk hf.1,
      de_all fo hfo vs _ hc.2 hk hf.2 rest]
theorem de_kv (fo : FloatOps) (hfo : FloatOk fo) : (kvs : List NVal) → (vt : Schema) →
    conformsNKV kvs .string vt = true → stringKeyed vt = true → faithfulKV fo kvs = true →
    (acc : List (List Byte × Json)) → (rest : List Byte) →
    deKvs (dynDe fo vt) (kvs.length / 2) acc (encList (eraseList kvs) ++ rest) =
      .ok (objInsertAll acc (toJsonKV fo kvs), rest)
  | [], _, _, _, _, acc, rest => by simp [toJsonKV, deKvs, eraseList, encList, objInsertAll]
  | [_], _, hc, _, _, _, _ => by simp [conformsNKV] at hc
  | k :: v :: more, vt, hc, hk, hf, acc, rest => by
    simp [conformsNKV] at hc
    simp [faithfulKV] at hf
    cases k <;> simp [isStrKey] at hf
    rename_i u
    have hcu := hc.1.1
    simp [conformsN] at hcu
    have hlen : (NVal.str u :: v :: more).length / 2 = more.length / 2 + 1 := by simp; omega
    rw [hlen]
    simp [toJsonKV, jsonKeyOf, deKvs, eraseList, encList, erase, enc, objInsertAll,
      dynTakeVarint_enc widthOk64 hcu.2, dynTakeN_append, hcu.1,
      de_val fo hfo v _ hc.1.2 hk hf.1, de_kv fo hfo more _ hc.2 hk hf.2]
theorem de_fields (fo : FloatOps) (hfo : FloatOk fo) : (names : List Name) → (vs : List NVal) →
    (fs : List SField) → conformsNFields names vs fs = true → stringKeyedFields fs = true →
    faithfulList fo vs = true →
    (acc : List (List Byte × Json)) → (rest : List Byte) →
    dynDeFields fo fs acc (encList (eraseList vs) ++ rest) =
      .ok (objInsertAll acc (zipNames names (toJsonList fo vs)), rest)
  | [], [], [], _, _, _, acc, rest => by
    simp [dynDeFields, eraseList, encList, toJsonList, zipNames, objInsertAll]
  | [], [], _ :: _, hc, _, _, _, _ => by simp [conformsNFields] at hc
  | [], _ :: _, _, hc, _, _, _, _ => by simp [conformsNFields] at hc
  | _ :: _, [], _, hc, _, _, _, _ => by simp [conformsNFields] at hc
  | _ :: _, _ :: _, [], hc, _, _, _, _ => by simp [conformsNFields] at hc
  | n :: ns, v :: vs, .mk fname ty :: fs, hc, hk, hf, acc, rest => by
    simp [conformsNFields] at hc
    obtain ⟨⟨rfl, hc1⟩, hc2⟩ := hc
    simp [faithfulList] at hf
    simp [stringKeyedFields] at hk
    simp [dynDeFields, eraseList, encList, toJsonList, zipNames, objInsertAll,
      de_val fo hfo v _ hc1 hk.1 hf.1, de_fields fo hfo ns vs fs hc2 hk.2 hf.2]
end

end Postcard.Dyn

namespace Postcard.Dyn

/-! ## H. the former refuting witnesses, now POSITIVE examples of the repaired behaviour

Every example is a closed term evaluated by the kernel (`rfl` / `decide`), for
an arbitrary `fo : FloatOps` (no float conversion is involved).  All confirmed
on the real crate (scratch crate linking /repo/source/postcard-dyn; 614 cases
compared with this model, no mismatch). -/

section Witnesses
variable (fo : FloatOps)

/-- (a) `char`: `'a'`, JSON `"a"`, static bytes `[1, 97]` — decoded since repair 1. -/
example : conformsN (.char 97) .char = true := by decide
example : dynSer fo .char (toJson fo (.char 97)) = .ok (enc (erase (.char 97))) := rfl
example : dynDe fo .char (enc (erase (.char 97)) ++ []) = .ok (toJson fo (.char 97), []) := rfl
/-- repair 2: a string of two scalars is not a `char`. -/
example : dynSer fo .char (.str [97, 98]) = .error .schemaMismatch := rfl
example : dynDe fo .char [2, 97, 98] = .error .schemaMismatch := rfl

/-- (b) the `Schema` kind (repair 3): the value `Option(Bool)`, JSON `{"Option": "Bool"}`,
static bytes `[18, 0]`. -/
example : toJson fo (.schema (.option .bool)) = .obj [(kindName .option, .str (kindName .bool))] := rfl
example : dynSer fo .schema (toJson fo (.schema (.option .bool))) = .ok [18, 0] := rfl
example : enc (erase (.schema (.option .bool))) = [18, 0] := by decide
example : dynDe fo .schema [18, 0, 7] = .ok (toJson fo (.schema (.option .bool)), [7]) := rfl
example : dynSer fo .schema .null = .error .schemaMismatch := rfl
example : dynDe fo .schema [26] = .error .schemaMismatch := rfl

/-- (c) plain tuple / array of arity 1 (repair 4): `(5u8,)`, JSON `[5]`, static bytes `[5]`. -/
def w1 : NVal := .tuple [.u .w8 5]
example : conformsN w1 (.tuple [.u8]) = true := by decide
example : toJson fo w1 = .arr [.posInt 5] := rfl
example : enc (erase w1) = [5] := by decide
example : dynSer fo (.tuple [.u8]) (toJson fo w1) = .ok [5] := rfl
example : dynDe fo (.tuple [.u8]) (enc (erase w1) ++ []) = .ok (.arr [.posInt 5], []) := rfl
/-- the bare value is no longer accepted for a 1-tuple. -/
example : dynSer fo (.tuple [.u8]) (.posInt 5) = .error .schemaMismatch := rfl

/-- (d) arity 0: `[u8; 0]`, JSON `[]`, static bytes `[]`. -/
def w0 : NVal := .tuple []
example : conformsN w0 (.tuple []) = true := by decide
example : dynSer fo (.tuple []) (toJson fo w0) = .ok (enc (erase w0)) := rfl
example : dynDe fo (.tuple []) (enc (erase w0) ++ []) = .ok (.arr [], []) := rfl

/-- (d') nested: `([u8; 0], 3u8)`, JSON `[[], 3]`. -/
def w0n : NVal := .tuple [.tuple [], .u .w8 3]
example : dynDe fo (.tuple [.tuple [], .u8]) (enc (erase w0n) ++ []) = .ok (toJson fo w0n, []) ∧
    toJson fo w0n = .arr [.arr [], .posInt 3] := ⟨rfl, rfl⟩

/-- (e) tuple struct with zero fields `struct Tup0();`, JSON `[]`. -/
def wts0 : NVal := .tupleStruct []
def sts0 : Schema := .struct [84] (.tuple [])
example : dynDe fo sts0 (enc (erase wts0) ++ []) = .ok (toJson fo wts0, []) ∧ toJson fo wts0 = .arr [] :=
  ⟨rfl, rfl⟩

/-- (f) tuple variant with zero fields `enum E { A, C() }`, `E::C()`, JSON `{"C": []}`, bytes `[1]`. -/
def wtv0 : NVal := .tupleVariant 1 [67] []
def sen : Schema := .enum [69] [.mk [65] .unit, .mk [67] (.tuple [])]
example : conformsN wtv0 sen = true := by decide
example : dynSer fo sen (toJson fo wtv0) = .ok (enc (erase wtv0)) := rfl
example : dynDe fo sen (enc (erase wtv0) ++ []) = .ok (toJson fo wtv0, []) ∧
    toJson fo wtv0 = .obj [([67], .arr [])] := ⟨rfl, rfl⟩

/-- (g) `i128` in `2^63 ..= u64::MAX` (repair 5): `1i128 << 63`, JSON `PosInt(2^63)`. -/
def wi128 : NVal := .i .w128 (2 ^ 63)
example : conformsN wi128 .i128 = true := by decide
example : toJson fo wi128 = .posInt (2 ^ 63) := rfl
example : dynSer fo .i128 (toJson fo wi128) = .ok (enc (erase wi128)) := rfl
example : dynDe fo .i128 (enc (erase wi128) ++ []) = .ok (toJson fo wi128, []) := rfl

/-- OUTSIDE `Faithful` (recorded, not counted as violations of C17; all UNREPAIRED, inherent to
using `serde_json::Value`):
`Some(())` has JSON `null`; dyn-ser writes `[0]`, static writes `[1]`. -/
example : dynSer fo (.option .unit) (toJson fo (.some .unit)) = .ok [0] ∧ enc (erase (.some .unit)) = [1] :=
  ⟨rfl, by decide⟩
/-- OUTSIDE `Faithful`: a struct with two fields of the same name (only reachable
with hand-built schemas): `to_value`-style object has one entry, dyn-ser checks
`val.len() != nvs.len()` → SchemaMismatch. -/
example : dynSer fo (.struct [83] (.struct [.mk [97] .u8, .mk [97] .u8]))
    (toJson fo (.struct [[97], [97]] [.u .w8 1, .u .w8 2])) = .error .schemaMismatch := rfl
/-- OUTSIDE `Faithful` (`stringKeyed`): an EMPTY map whose key type is not `String`
(`BTreeMap<u8, bool>::new()`, JSON `{}`, static bytes `[0]`) → ShouldSupportButDont. -/
example : dynSer fo (.map .u8 .bool) (toJson fo (.map [])) = .error .shouldSupportButDont ∧
    enc (erase (.map [])) = [0] := ⟨rfl, by decide⟩
/-- OUTSIDE `Faithful`: `i128` beyond `u64::MAX` — `serde_json::to_value` itself fails
(`toJsonOk = false`); the decoder answers ShouldSupportButDont. -/
example : toJsonOk (.i .w128 (2 ^ 64)) = false ∧
    dynDe fo .i128 (enc (erase (.i .w128 (2 ^ 64)))) = .error .shouldSupportButDont :=
  ⟨by decide, rfl⟩

end Witnesses
end Postcard.Dyn

namespace Postcard
open Dyn

/-! ## J. C17 — the property theorems -/

/-- C17, encoding direction, FULL strength on the scope of the property: for every
value `v` of a type with schema `s` (`conformsN`; this includes values of the
`Schema` kind, `NVal.schema`) whose JSON form is unambiguous (`Faithful`), the
dynamic encoder applied to `serde_json::to_value(v)` produces exactly the bytes
of the static encoder. -/
theorem dyn_ser_agrees (fo : FloatOps) (hfo : FloatOk fo) (v : NVal) (s : Schema)
    (hc : conformsN v s = true) (hf : Faithful fo s v) :
    dynSer fo s (toJson fo v) = .ok (enc (erase v)) :=
  ser_val fo hfo v s hc hf.1 hf.2

/-- C17, decoding direction, FULL strength: the dynamic decoder applied to the
static bytes (followed by anything) yields `serde_json::to_value(v)` and leaves
the remainder untouched. -/
theorem dyn_de_agrees (fo : FloatOps) (hfo : FloatOk fo) (v : NVal) (s : Schema)
    (hc : conformsN v s = true) (hf : Faithful fo s v) (rest : List Byte) :
    dynDe fo s (enc (erase v) ++ rest) = .ok (toJson fo v, rest) :=
  de_val fo hfo v s hc hf.1 hf.2 rest

/-- the public entry point. -/
theorem fromSliceDyn_agrees (fo : FloatOps) (hfo : FloatOk fo) (v : NVal) (s : Schema)
    (hc : conformsN v s = true) (hf : Faithful fo s v) :
    fromSliceDyn fo s (enc (erase v)) = .ok (toJson fo v) := by
  have := dyn_de_agrees fo hfo v s hc hf []
  simp only [List.append_nil] at this
  simp [fromSliceDyn, this]

/-- the public encoding entry point. -/
theorem toStdvecDyn_agrees (fo : FloatOps) (hfo : FloatOk fo) (v : NVal) (s : Schema)
    (hc : conformsN v s = true) (hf : Faithful fo s v) :
    toStdvecDyn fo s (toJson fo v) = .ok (enc (erase v)) :=
  dyn_ser_agrees fo hfo v s hc hf

/-- serde_json's `to_value` / `from_value` round-trip on schema values (used by the `Schema` kind). -/
theorem schemaOfJson_jsonOfSchema (s : Schema) : schemaOfJson (jsonOfSchema s) = some s :=
  soj_schema s

/-- a `FloatOps` satisfying `FloatOk` (non-vacuity of the hypotheses). -/
def foTrivial : FloatOps := ⟨id, id, id, fun _ => 0, fun _ => true, fun _ => true⟩
theorem foTrivial_ok : FloatOk foTrivial := ⟨fun _ _ _ => rfl, fun _ _ _ => rfl⟩

/-- non-vacuity: a value exercising chars, tuples of arity 0 and 1, i128 ≥ 2^63 and a schema value is in scope. -/
example : let v : NVal := .tuple [.char 97, .tuple [], .tuple [.i .w128 (2 ^ 63)], .schema (.seq .char)]
    let s : Schema := .tuple [.char, .tuple [], .tuple [.i128], .schema]
    conformsN v s = true ∧ Faithful foTrivial s v := by
  refine ⟨by decide, by decide, by decide⟩

end Postcard
