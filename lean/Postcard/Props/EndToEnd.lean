import Postcard.Props.C01
import Postcard.Props.C03
import Postcard.Props.C04
import Postcard.Props.C05
import Postcard.Props.C06
import Postcard.Props.C07
import Postcard.Props.C08
import Postcard.Props.C10
import Postcard.Props.C20
import Postcard.Model.EntryFramed
/-
  Postcard.Props.EndToEnd — corollaries that instantiate the abstract
  parameters of the per-property theorems with postcard's OWN decoder
  (`dec t` / `fromBytes t`) and chain them:

    1. `acc_delivers_values`  (C01 + C06 + C08): serialise values with COBS
       framing, cut the byte stream into chunks in ANY way, run the documented
       accumulator loop: exactly the values come out, in order.
    2. `crc_roundtrip_dec`, `crc_sound_dec`, `checksum_corruption_rejected_dec`,
       `payload_burst_rejected_dec` (C10 with `decF := dec t`; hypotheses about
       the abstract decoder discharged by C01 / C03 / C04).
    3. `to_slice_then_from_bytes`, `to_slice_cobs_then_from_bytes_cobs`,
       `to_slice_crc_then_from_bytes_crc`: bounded-buffer encode entry point
       followed by the matching decode entry point.

  Helper lemmas live in `namespace Postcard.E2E`; definitions and property
  theorems in `namespace Postcard`.
-/

namespace Postcard.E2E
open Postcard Spec

/-- the stream `frame m₁ ++ … ++ frame mₖ` is cut at its zeros into exactly the
frame bodies, nothing is left over. -/
theorem segs_frames (ms : List (List Byte)) :
    segs [] ((ms.map (fun m => cobsEncode m ++ [0])).flatten) = (ms.map cobsEncode, []) := by
  induction ms with
  | nil => simp [segs]
  | cons m ms ih =>
    simp only [List.map_cons, List.flatten_cons, List.append_assoc, List.singleton_append]
    rw [segs_append_zero (fun h => cobsEncode_no_zero m 0 h rfl), ih]
    simp

/-- `from_bytes_cobs` on one complete frame (followed by anything). -/
theorem fromBytesCobs_frame {α : Type} (decF : List Byte → R α) (m rest : List Byte) :
    (fromBytesCobs decF (cobsEncode m ++ [0] ++ rest)).1 = decF m := by
  have hfb : frameBody (cobsEncode m ++ [0] ++ rest) = cobsEncode m := by
    simpa using frameBody_append_zero (cobsEncode m) rest (cobsEncode_no_zero m)
  rw [fromBytesCobs_eq, hfb, cobsDecode_encode]

theorem fromBytes_enc (v : Val) (t : Ty) (h : hasTy v t = true) (rest : List Byte) :
    fromBytes t (enc v ++ rest) = .ok v := (decode_entries v t h rest).2

/-- the accumulator's decoder gives the value back on the frame of a
well-typed value. -/
theorem accDecoder_frame (v : Val) (t : Ty) (h : hasTy v t = true) :
    accDecoder t (cobsEncode (enc v) ++ [0]) = some v := by
  have h1 := fromBytesCobs_frame (fromBytes t) (enc v) []
  have h2 := fromBytes_enc v t h []
  simp only [List.append_nil] at h1 h2
  simp only [accDecoder, h1, h2]

end Postcard.E2E

namespace Postcard
open Spec

/-! ## 1. serialise with COBS, accumulate under any chunking -/

/-- **C01 + C06 + C08.**  Values `vs` of type `t`, each serialised as the COBS
frame `cobsEncode (enc v) ++ [0]` (what `to_slice_cobs` / `to_vec_cobs` /
`to_allocvec_cobs` return), the frames concatenated into one stream, the
stream cut into `chunks` in ANY way.  If every frame including its sentinel
fits the accumulator capacity `n`, the documented loop over the chunks,
starting from `CobsAccumulator::new()` and decoding with
`from_bytes_cobs::<T>`, reports exactly `Success(v)` for each `v` in order —
no `DeserError`, no `OverFull`, no panic — and ends with an empty buffer. -/
theorem acc_delivers_values (t : Ty) (vs : List Val) (n : Nat) (chunks : List (List Byte))
    (hty : ∀ v ∈ vs, hasTy v t = true)
    (hcap : ∀ v ∈ vs, (cobsEncode (enc v) ++ [0]).length ≤ n)
    (hchunks : chunks.flatten = (vs.map (fun v => cobsEncode (enc v) ++ [0])).flatten) :
    frameResults (Acc.run (accDecoder t) ⟨n, []⟩ chunks).1 = vs.map Outcome.ok ∧
    (Acc.run (accDecoder t) ⟨n, []⟩ chunks).2 = ⟨n, []⟩ ∧
    FeedRes.panic ∉ (Acc.run (accDecoder t) ⟨n, []⟩ chunks).1 ∧
    Outcome.overFull ∉ frameResults (Acc.run (accDecoder t) ⟨n, []⟩ chunks).1 ∧
    Outcome.deserErr ∉ frameResults (Acc.run (accDecoder t) ⟨n, []⟩ chunks).1 := by
  have hsegs : segs [] chunks.flatten = (vs.map (fun v => cobsEncode (enc v)), []) := by
    have := E2E.segs_frames (vs.map enc)
    rw [List.map_map, List.map_map] at this
    rw [hchunks]
    exact this
  have hfit : Fits n (segs [] chunks.flatten) := by
    rw [hsegs]
    refine ⟨?_, Nat.zero_le _⟩
    intro s hs
    simp only [List.mem_map] at hs
    obtain ⟨v, hv, rfl⟩ := hs
    simpa using hcap v hv
  obtain ⟨h1, h2, h3, h4⟩ := acc_delivers n (accDecoder t) chunks hfit
  have hres : frameResults (Acc.run (accDecoder t) ⟨n, []⟩ chunks).1 = vs.map Outcome.ok := by
    rw [h1, hsegs]
    simp only [List.map_map]
    apply List.map_congr_left
    intro v hv
    simp only [Function.comp, E2E.accDecoder_frame v t (hty v hv)]
  refine ⟨hres, ?_, h3, h4, ?_⟩
  · rw [h2, hsegs]
  · rw [hres]; simp

end Postcard

namespace Postcard.E2E
open Postcard Spec

/-- `dec t` only ever returns a suffix of its input (hypothesis `hsuffix` of
`crc_sound`). -/
theorem dec_suffix (t : Ty) : ∀ bs v r, dec t bs = .ok (v, r) → ∃ p, bs = p ++ r :=
  fun _ _ _ h => dec_consumes_prefix h

/-- in an accepted frame `p ++ c ++ r` with `|c| = nbytes`, `dec t` consumed
exactly `p` — and would do so whatever follows `p`. -/
theorem accepted_split {w : Nat} {alg : CrcAlg w} {nbytes : Nat} {t : Ty} {p c r : List Byte}
    {v : Val} (hok : takeFromBytesCrc alg nbytes (dec t) (p ++ c ++ r) = .ok (v, r))
    (hc : c.length = nbytes) :
    dec t (p ++ c ++ r) = .ok (v, c ++ r) ∧ (∀ x, dec t (p ++ x) = .ok (v, x)) ∧
      c = leBytes nbytes (crc alg p).toNat := by
  obtain ⟨p2, c2, hb, hc2, hcrc, hd⟩ := crc_sound alg nbytes (dec t) (dec_suffix t) _ _ _ hok
  have h1 : p ++ c = p2 ++ c2 := List.append_cancel_right hb
  have hcc : c = c2 := by
    have hl := congrArg List.length h1
    simp only [List.length_append] at hl
    exact (List.append_inj' h1 (by omega)).2
  subst hcc
  have hpp : p = p2 := List.append_cancel_right h1
  subst hpp
  refine ⟨hd, ?_, hcrc⟩
  rw [List.append_assoc] at hd
  exact rest_irrelevant hd

end Postcard.E2E

namespace Postcard
open Spec

/-! ## 2. CRC framing with postcard's own decoder -/

/-- **C10 round trip, `decF := dec t`.**  A well-typed value, its plain
encoding followed by the little-endian checksum (what `to_slice_uN` /
`to_vec_uN` / `to_allocvec_uN` return, see `crc_over_entry`), followed by
anything: `take_from_bytes_uN` returns the value and exactly what followed;
`from_bytes_uN` returns the value. -/
theorem crc_roundtrip_dec {w : Nat} (alg : CrcAlg w) (nbytes : Nat) (t : Ty) (v : Val)
    (hty : hasTy v t = true) (hfit : w ≤ nbytes * 8) (rest : List Byte) :
    takeFromBytesCrc alg nbytes (dec t) (enc v ++ leBytes nbytes (crc alg (enc v)).toNat ++ rest)
      = .ok (v, rest) ∧
    fromBytesCrc alg nbytes (dec t) (enc v ++ leBytes nbytes (crc alg (enc v)).toNat ++ rest)
      = .ok v :=
  ⟨crc_roundtrip alg nbytes (dec t) (enc v) rest v hfit (fun r => roundtrip v t hty r),
   crc_roundtrip_fromBytes alg nbytes (dec t) (enc v) rest v hfit (fun r => roundtrip v t hty r)⟩

/-- **C10 soundness, `decF := dec t`** (no hypothesis left): whatever
`take_from_bytes_uN::<T>` accepts is `p ++ c ++ r` with `c` the `nbytes`-byte
little-endian checksum of `p`, `r` the returned remainder, and `p` a complete
encoding of the returned value: `dec t` decodes `p` to `v` whatever follows. -/
theorem crc_sound_dec {w : Nat} (alg : CrcAlg w) (nbytes : Nat) (t : Ty) (bs r : List Byte)
    (v : Val) (h : takeFromBytesCrc alg nbytes (dec t) bs = .ok (v, r)) :
    ∃ p c, bs = p ++ c ++ r ∧ c.length = nbytes ∧ c = leBytes nbytes (crc alg p).toNat ∧
      dec t bs = .ok (v, c ++ r) ∧ ∀ x, dec t (p ++ x) = .ok (v, x) := by
  obtain ⟨p, c, hb, hc, hcrc, hd⟩ := crc_sound alg nbytes (dec t) (E2E.dec_suffix t) bs r v h
  refine ⟨p, c, hb, hc, hcrc, hd, ?_⟩
  rw [hb, List.append_assoc] at hd
  exact rest_irrelevant hd

/-- **C10 checksum corruption, `decF := dec t`** (independence hypothesis
discharged by C03 `rest_irrelevant`): in ANY accepted frame `p ++ c ++ r`
(`c` the `nbytes` checksum bytes), replacing the checksum by any other bytes of
the same length gives `DeserializeBadCrc`. -/
theorem checksum_corruption_rejected_dec {w : Nat} (alg : CrcAlg w) (nbytes : Nat) (t : Ty)
    (p c c' r : List Byte) (v : Val)
    (hok : takeFromBytesCrc alg nbytes (dec t) (p ++ c ++ r) = .ok (v, r))
    (hc : c.length = nbytes) (hlen : c'.length = c.length) (hne : c' ≠ c) :
    takeFromBytesCrc alg nbytes (dec t) (p ++ c' ++ r) = .error .badCrc :=
  checksum_corruption_rejected' alg nbytes (dec t) p c c' r v (E2E.accepted_split hok hc).2.1
    hok hc hlen hne

/-- the same starting from a value: the frame of a well-typed `v` with its
checksum bytes replaced by anything else of the same length is rejected with
`DeserializeBadCrc`. -/
theorem checksum_corruption_rejected_enc {w : Nat} (alg : CrcAlg w) (nbytes : Nat) (t : Ty)
    (v : Val) (hty : hasTy v t = true) (hfit : w ≤ nbytes * 8) (c' r : List Byte)
    (hlen : c'.length = nbytes) (hne : c' ≠ leBytes nbytes (crc alg (enc v)).toNat) :
    takeFromBytesCrc alg nbytes (dec t) (enc v ++ c' ++ r) = .error .badCrc :=
  checksum_corruption_rejected_dec alg nbytes t (enc v) _ c' r v
    (crc_roundtrip_dec alg nbytes t v hty hfit r).1 (leBytes_length _ _)
    (by rw [hlen, leBytes_length]) hne

/-- **C10 payload corruption, `decF := dec t`.**  In ANY accepted frame
`p ++ c ++ r`, replace the value bytes `p` by `p'` of the same length differing
by a burst of at most `w` bits.  The one genuine hypothesis is kept: IF the
corrupted frame still decodes, `dec t` stops at the same place (`hsame`).  Then
the corrupted frame is not accepted.  (The hypothesis "`decF` consumed exactly
`p`" of `payload_burst_rejected` is discharged by C04 `dec_consumes_prefix`.) -/
theorem payload_burst_rejected_dec {w : Nat} (alg : CrcAlg w) (hodd : alg.poly.getLsbD 0 = true)
    (nbytes : Nat) (t : Ty) (p p' c r : List Byte) (v : Val)
    (hok : takeFromBytesCrc alg nbytes (dec t) (p ++ c ++ r) = .ok (v, r))
    (hc : c.length = nbytes) (hlen : p'.length = p.length) (hburst : BurstDiff alg p p')
    (hsame : ∀ v' r', dec t (p' ++ c ++ r) = .ok (v', r') → r' = c ++ r) :
    ∀ v' r', takeFromBytesCrc alg nbytes (dec t) (p' ++ c ++ r) ≠ .ok (v', r') :=
  payload_burst_rejected alg hodd nbytes (dec t) p p' c r v hok (E2E.accepted_split hok hc).1 hc
    hlen hburst hsame

/-- the same starting from a value: corrupt the plain encoding of a well-typed
`v` inside its CRC frame by a burst of at most `w` bits. -/
theorem payload_burst_rejected_enc {w : Nat} (alg : CrcAlg w) (hodd : alg.poly.getLsbD 0 = true)
    (nbytes : Nat) (t : Ty) (v : Val) (hty : hasTy v t = true) (hfit : w ≤ nbytes * 8)
    (p' r : List Byte) (hlen : p'.length = (enc v).length) (hburst : BurstDiff alg (enc v) p')
    (hsame : ∀ v' r', dec t (p' ++ leBytes nbytes (crc alg (enc v)).toNat ++ r) = .ok (v', r') →
      r' = leBytes nbytes (crc alg (enc v)).toNat ++ r) :
    ∀ v' r', takeFromBytesCrc alg nbytes (dec t)
      (p' ++ leBytes nbytes (crc alg (enc v)).toNat ++ r) ≠ .ok (v', r') :=
  payload_burst_rejected_dec alg hodd nbytes t (enc v) p' _ r v
    (crc_roundtrip_dec alg nbytes t v hty hfit r).1 (leBytes_length _ _) hlen hburst hsame

/-! ## 3. bounded-buffer encode entry point, then the matching decode entry point -/

/-- `to_slice` into a buffer at least as long as the encoding, then
`take_from_bytes` / `from_bytes` on the returned bytes followed by anything. -/
theorem to_slice_then_from_bytes (v : Val) (t : Ty) (hty : hasTy v t = true) (buf : List Byte)
    (hcap : (enc v).length ≤ buf.length) (rest : List Byte) :
    ∃ out, (toSlice v buf).2 = .ok out ∧
      takeFromBytes t (out ++ rest) = .ok (v, rest) ∧ fromBytes t (out ++ rest) = .ok v := by
  refine ⟨enc v, ?_, decode_entries v t hty rest⟩
  rw [to_slice_threshold, if_pos hcap]

/-- `to_slice_cobs` into a buffer at least as long as the frame, then
`from_bytes_cobs` / `take_from_bytes_cobs` on the returned bytes followed by
anything. -/
theorem to_slice_cobs_then_from_bytes_cobs (v : Val) (t : Ty) (hty : hasTy v t = true)
    (buf : List Byte) (hcap : (cobsEncode (enc v)).length + 1 ≤ buf.length) (rest : List Byte) :
    ∃ out, (toSliceCobs v buf).2 = .ok out ∧
      (fromBytesCobs (fromBytes t) (out ++ rest)).1 = .ok v ∧
      (takeFromBytesCobs (fromBytes t) (out ++ rest)).1 = .ok (v, rest) := by
  obtain ⟨st1, h1, h2⟩ := (cobs_over v).2.2 buf hcap
  have hfb := E2E.fromBytes_enc v t hty []
  simp only [List.append_nil] at hfb
  refine ⟨cobsEncode (enc v) ++ [0], ?_, ?_, ?_⟩
  · simp only [toSliceCobs, h1, h2]
  · rw [E2E.fromBytesCobs_frame, hfb]
  · rw [(take_frames (fromBytes t) (enc v) rest).1, hfb]; rfl

/-- `to_vec_cobs::<_, B>` with `B` at least the frame length, likewise. -/
theorem to_hvec_cobs_then_from_bytes_cobs (v : Val) (t : Ty) (hty : hasTy v t = true)
    (cap : Nat) (hcap : (cobsEncode (enc v)).length + 1 ≤ cap) (rest : List Byte) :
    ∃ out, (toHVecCobs cap v).2 = .ok out ∧
      (fromBytesCobs (fromBytes t) (out ++ rest)).1 = .ok v ∧
      (takeFromBytesCobs (fromBytes t) (out ++ rest)).1 = .ok (v, rest) := by
  obtain ⟨st1, h1, h2⟩ := (cobs_over v).2.1 cap hcap
  have hfb := E2E.fromBytes_enc v t hty []
  simp only [List.append_nil] at hfb
  refine ⟨cobsEncode (enc v) ++ [0], ?_, ?_, ?_⟩
  · simp only [toHVecCobs, h1, h2]
  · rw [E2E.fromBytesCobs_frame, hfb]
  · rw [(take_frames (fromBytes t) (enc v) rest).1, hfb]; rfl

/-- `to_slice_uN` into a buffer with room for encoding and checksum, then
`take_from_bytes_uN` / `from_bytes_uN` on the returned bytes followed by
anything. -/
theorem to_slice_crc_then_from_bytes_crc {w : Nat} (alg : CrcAlg w) (nbytes : Nat) (v : Val)
    (t : Ty) (hty : hasTy v t = true) (hfit : w ≤ nbytes * 8) (buf : List Byte)
    (hcap : (enc v).length + nbytes ≤ buf.length) (rest : List Byte) :
    ∃ out, (toSliceCrc alg nbytes buf v).2 = .ok out ∧
      takeFromBytesCrc alg nbytes (dec t) (out ++ rest) = .ok (v, rest) ∧
      fromBytesCrc alg nbytes (dec t) (out ++ rest) = .ok v :=
  ⟨_, (crc_over_entry alg nbytes v).2.2 buf hcap, crc_roundtrip_dec alg nbytes t v hty hfit rest⟩

/-- `to_vec_uN::<_, B>` likewise. -/
theorem to_hvec_crc_then_from_bytes_crc {w : Nat} (alg : CrcAlg w) (nbytes : Nat) (v : Val)
    (t : Ty) (hty : hasTy v t = true) (hfit : w ≤ nbytes * 8) (cap : Nat)
    (hcap : (enc v).length + nbytes ≤ cap) (rest : List Byte) :
    ∃ out, toHVecCrc alg nbytes cap v = .ok out ∧
      takeFromBytesCrc alg nbytes (dec t) (out ++ rest) = .ok (v, rest) ∧
      fromBytesCrc alg nbytes (dec t) (out ++ rest) = .ok v :=
  ⟨_, (crc_over_entry alg nbytes v).2.1 cap hcap, crc_roundtrip_dec alg nbytes t v hty hfit rest⟩

end Postcard

/-! ## Non-vacuity

The running example of C01: `C01.exV : C01.exT`, `enc C01.exV` = 8 bytes, its
COBS frame = 10 bytes. -/
namespace Postcard
open Spec

private instance decEqRE2E {α : Type} [DecidableEq α] : DecidableEq (R α)
  | .ok a, .ok b => if h : a = b then isTrue (by rw [h]) else isFalse (by intro h'; cases h'; exact h rfl)
  | .error a, .error b =>
    if h : a = b then isTrue (by rw [h]) else isFalse (by intro h'; cases h'; exact h rfl)
  | .ok _, .error _ => isFalse (by intro h; cases h)
  | .error _, .ok _ => isFalse (by intro h; cases h)

example : cobsEncode (enc C01.exV) ++ [0] = [9, 0xAC, 0x02, 1, 2, 0x68, 0x69, 1, 3, 0] := by decide

/-- two frames, cut inside both frames, with an empty chunk and the last
sentinel alone in its chunk. -/
def E2E.exChunks : List (List Byte) :=
  [[9, 0xAC], [0x02, 1, 2, 0x68, 0x69, 1, 3, 0, 9, 0xAC, 0x02], [], [1, 2, 0x68, 0x69, 1, 3], [0]]

/-- the hypotheses of `acc_delivers_values` are satisfiable (capacity = frame length) … -/
example :
    frameResults (Acc.run (accDecoder C01.exT) ⟨10, []⟩ E2E.exChunks).1
        = [C01.exV, C01.exV].map Outcome.ok ∧
      (Acc.run (accDecoder C01.exT) ⟨10, []⟩ E2E.exChunks).2 = ⟨10, []⟩ :=
  have h := acc_delivers_values C01.exT [C01.exV, C01.exV] 10 E2E.exChunks
    (by decide) (by decide) (by decide)
  ⟨h.1, h.2.1⟩

/-- … the model, evaluated, agrees … -/
example : frameResults (Acc.run (accDecoder C01.exT) ⟨10, []⟩ E2E.exChunks).1
    = [.ok C01.exV, .ok C01.exV] := by rfl
example : (Acc.run (accDecoder C01.exT) ⟨10, []⟩ E2E.exChunks).1
    = [.consumed, .success C01.exV [9, 0xAC, 0x02], .consumed, .consumed, .success C01.exV []] := by
  rfl

/-- … and the capacity hypothesis is sharp: one byte less and both frames are `OverFull`. -/
example : frameResults (Acc.run (accDecoder C01.exT) ⟨9, []⟩ E2E.exChunks).1
    = [.overFull, .overFull] := by rfl

/-- the accumulator's decoder on one frame, and on a frame whose payload is not a `T`. -/
example : accDecoder C01.exT [9, 0xAC, 0x02, 1, 2, 0x68, 0x69, 1, 3, 0] = some C01.exV := by rfl
example : accDecoder C01.exT [2, 0xAC, 0] = none := by rfl

/-- CRC with postcard's decoder: the hypotheses of the `_dec` theorems are satisfiable. -/
example : takeFromBytesCrc CRC_32_ISO_HDLC 4 (dec C01.exT)
    (enc C01.exV ++ leBytes 4 (crc CRC_32_ISO_HDLC (enc C01.exV)).toNat ++ [0xaa])
      = .ok (C01.exV, [0xaa]) :=
  (crc_roundtrip_dec CRC_32_ISO_HDLC 4 C01.exT C01.exV C01.ex_hasTy (by decide) [0xaa]).1
example : enc C01.exV ++ leBytes 4 (crc CRC_32_ISO_HDLC (enc C01.exV)).toNat
    = [0xAC, 0x02, 1, 2, 0x68, 0x69, 1, 3, 254, 243, 69, 135] := by decide +kernel

/-- checksum replaced by zeros: `DeserializeBadCrc`. -/
example : takeFromBytesCrc CRC_32_ISO_HDLC 4 (dec C01.exT) (enc C01.exV ++ [0, 0, 0, 0] ++ [0xaa])
    = .error .badCrc :=
  checksum_corruption_rejected_enc CRC_32_ISO_HDLC 4 C01.exT C01.exV C01.ex_hasTy (by decide)
    [0, 0, 0, 0] [0xaa] rfl (by decide +kernel)

/-- a flipped payload bit (`0x31 → 0x33` in a `u8`): `hsame` holds because a `u8` always
consumes one byte; the corrupted frame is not accepted. -/
example : ∀ v' r', takeFromBytesCrc CRC_32_ISO_HDLC 4 (dec (.u .w8))
    ([] ++ [flipBit 0x31 1] ++ [] ++ leBytes 4 (crc CRC_32_ISO_HDLC (enc (.u .w8 0x31))).toNat
      ++ [0xaa]) ≠ .ok (v', r') :=
  payload_burst_rejected_enc CRC_32_ISO_HDLC (by decide +kernel) 4 (.u .w8) (.u .w8 0x31)
    (by decide) (by decide) ([] ++ [flipBit 0x31 1] ++ []) [0xaa] rfl
    (bitflip_burstDiff CRC_32_ISO_HDLC (by decide) [] [] 0x31 1 (by decide))
    (by
      intro v' r' h
      simp only [List.nil_append, List.append_nil, List.cons_append, dec, Except.ok.injEq,
        Prod.mk.injEq] at h
      exact h.2.symm)

/-- the entry-point compositions, instantiated and evaluated. -/
example : ∃ out, (toSliceCobs C01.exV (List.replicate 10 0xFF)).2 = .ok out ∧
    (fromBytesCobs (fromBytes C01.exT) (out ++ [7, 0])).1 = .ok C01.exV ∧
    (takeFromBytesCobs (fromBytes C01.exT) (out ++ [7, 0])).1 = .ok (C01.exV, [7, 0]) :=
  to_slice_cobs_then_from_bytes_cobs C01.exV C01.exT C01.ex_hasTy _ (by decide) _
example : (toSliceCobs C01.exV (List.replicate 10 0xFF)).2
    = .ok [9, 0xAC, 0x02, 1, 2, 0x68, 0x69, 1, 3, 0] := by rfl
example : (takeFromBytesCobs (fromBytes C01.exT)
    ([9, 0xAC, 0x02, 1, 2, 0x68, 0x69, 1, 3, 0] ++ [7, 0])).1 = .ok (C01.exV, [7, 0]) := by rfl
example : ∃ out, (toSliceCrc CRC_32_ISO_HDLC 4 (List.replicate 12 0xFF) C01.exV).2 = .ok out ∧
    takeFromBytesCrc CRC_32_ISO_HDLC 4 (dec C01.exT) (out ++ [7]) = .ok (C01.exV, [7]) ∧
    fromBytesCrc CRC_32_ISO_HDLC 4 (dec C01.exT) (out ++ [7]) = .ok C01.exV :=
  to_slice_crc_then_from_bytes_crc CRC_32_ISO_HDLC 4 C01.exV C01.exT C01.ex_hasTy (by decide) _
    (by decide) _
example : ∃ out, (toSlice C01.exV (List.replicate 8 0)).2 = .ok out ∧
    takeFromBytes C01.exT (out ++ [7]) = .ok (C01.exV, [7]) ∧
    fromBytes C01.exT (out ++ [7]) = .ok C01.exV :=
  to_slice_then_from_bytes C01.exV C01.exT C01.ex_hasTy _ (by decide) _

end Postcard

/- TODO: nothing left open in this file.  (`payload_burst_rejected_dec` keeps, as
requested, the one genuine hypothesis `hsame`: a corrupted payload that still
decodes must stop at the same place.) -/
