import Postcard.Lemmas.DeFlavor
import Postcard.Props.C01
/-
  Postcard.Props.C11 — "Reader/writer transports are equivalent to the slice
  path and never over-read."

  Model side: Model/DeFlavor.lean — the flavour-generic deserializer `decG`, the
  index-level `Slice` flavour `SliceDe`, the reader flavour `IOReader` (`fromIo`,
  `fromIoSeq`), the writer flavour `WriteFl` (`toIo`).

  1. `decG_slice_eq_dec`, `dec_ok_slice`, `takeFromBytesG_eq`: the pointer-level
     `Slice` run of the generic deserializer refines the list-level `dec` of
     Model/De.lean (so everything proved about `dec` — C01, C03, C04 — is about
     the flavour-generic code over `Slice`);
     `slice_reads_in_bounds`, `slice_pop_in_bounds`, `slice_take_in_bounds`: the
     index-level part of C04 — no read outside `[cursor, end)`.
  2. `reader_equiv` (+ `slots_disjoint`, `reader_step`), `reader_value_eq_slice`,
     `reader_success_exact`, `reader_consecutive`.
  3. `scratch_too_small`, `reader_fault`, `reader_eof`, `fromIo_total`,
     `fromIo_error_kinds`.
  4. `writer_bytes`, `writer_no_fault_needed`, `writer_fault`, `writer_flush_fault`,
     `writer_consecutive`.
  5. non-vacuity examples.

  Partial reads / partial writes: `IOReader` / `WriteFlavor` call nothing but
  `read_exact` / `write_all` (+ `flush`) and inspect nothing but `Ok` / `Err`.
  `read_exact(n)` delivers the next `n` bytes of the stream whatever the sizes
  of the underlying `read` calls; `write_all(bs)` hands over `bs` whatever the
  sizes of the underlying `write` calls.  So the theorems below, stated for one
  transition per `read_exact` / `write_all`, hold for EVERY way the reader
  delivers / the writer accepts the data in pieces; the only schedule-dependent
  observable is WHERE a failure strikes, which is the parameter `fault` /
  `failAt` (an absolute byte index), universally quantified below.
-/
namespace Postcard

/-! ## 1. the index-level `Slice` flavour refines `dec` -/

/-- **C11.1a** From `cursor ≤ end = mem.length`, the generic deserializer over the
pointer-level `Slice` flavour and the list-level `dec` on the bytes from
`cursor` on give the same error, or the same value with the new cursor
pointing at `dec`'s remainder; `mem` / `end` are untouched and the cursor
moved forward inside the buffer. -/
theorem decG_slice_eq_dec (t : Ty) (mem : List Byte) (cursor : Nat) (hc : cursor ≤ mem.length) :
    match decG SliceDe t ⟨mem, cursor, mem.length⟩ with
    | .ok (v, s') =>
        s'.mem = mem ∧ s'.end_ = mem.length ∧ cursor ≤ s'.cursor ∧ s'.cursor ≤ mem.length ∧
        dec t (mem.drop cursor) = .ok (v, mem.drop s'.cursor)
    | .error e => dec t (mem.drop cursor) = .error e := by
  have h := decG_agrees (SliceDe.sim mem mem.length cursor) t ⟨mem, cursor, mem.length⟩
    ⟨rfl, rfl, Nat.le_refl _, hc, Nat.le_refl _⟩
  have hview : SliceDeSt.view ⟨mem, cursor, mem.length⟩ = mem.drop cursor := by
    simp [SliceDeSt.view]
  rw [hview] at h
  cases hr : decG SliceDe t ⟨mem, cursor, mem.length⟩ with
  | error e =>
    rw [hr] at h
    rcases h with h | ⟨hf, _⟩
    · exact h
    · exact hf.elim
  | ok x =>
    obtain ⟨v, s'⟩ := x
    rw [hr] at h
    obtain ⟨hd, hm, he, hc0, hce, _⟩ := h
    refine ⟨hm, he, hc0, by omega, ?_⟩
    rw [hd]
    simp [SliceDeSt.view, hm, he]

/-- the same, read from `dec`'s side: whatever the list-level decoder answers,
the pointer-level run answers the same. -/
theorem dec_ok_slice {t : Ty} {mem rest : List Byte} {cursor : Nat} {v : Val}
    (hc : cursor ≤ mem.length) (h : dec t (mem.drop cursor) = .ok (v, rest)) :
    ∃ c', decG SliceDe t ⟨mem, cursor, mem.length⟩ = .ok (v, ⟨mem, c', mem.length⟩) ∧
      cursor ≤ c' ∧ c' ≤ mem.length ∧ mem.drop c' = rest := by
  have h0 := decG_slice_eq_dec t mem cursor hc
  cases hr : decG SliceDe t ⟨mem, cursor, mem.length⟩ with
  | error e => rw [hr] at h0; simp only at h0; rw [h0] at h; cases h
  | ok x =>
    obtain ⟨v', s'⟩ := x
    rw [hr] at h0
    obtain ⟨hm, he, h1, h2, hd⟩ := h0
    rw [hd] at h
    simp only [Except.ok.injEq, Prod.mk.injEq] at h
    obtain ⟨rfl, hrest⟩ := h
    obtain ⟨m, c, e⟩ := s'
    simp only at hm he h1 h2 hrest
    subst hm he
    exact ⟨c, rfl, h1, h2, hrest⟩

theorem dec_error_slice {t : Ty} {mem : List Byte} {cursor : Nat} {e : Err}
    (hc : cursor ≤ mem.length) (h : dec t (mem.drop cursor) = .error e) :
    decG SliceDe t ⟨mem, cursor, mem.length⟩ = .error e := by
  have h0 := decG_slice_eq_dec t mem cursor hc
  cases hr : decG SliceDe t ⟨mem, cursor, mem.length⟩ with
  | error e' => rw [hr] at h0; simp only at h0; rw [h0] at h; cases h; rfl
  | ok x =>
    obtain ⟨v', s'⟩ := x
    rw [hr] at h0
    rw [h0.2.2.2.2] at h; cases h

/-- `take_from_bytes` through the pointer-level flavour = `take_from_bytes` of
Model/Entry.lean. -/
theorem takeFromBytesG_eq (t : Ty) (bs : List Byte) : takeFromBytesG t bs = takeFromBytes t bs := by
  unfold takeFromBytesG takeFromBytes SliceDeSt.new
  cases hd : dec t bs with
  | error e =>
    have := dec_error_slice (mem := bs) (cursor := 0) (Nat.zero_le _) (by simpa using hd)
    rw [this]
  | ok x =>
    obtain ⟨v, rest⟩ := x
    obtain ⟨c', hr, _, hc', hrest⟩ :=
      dec_ok_slice (mem := bs) (cursor := 0) (Nat.zero_le _) (by simpa using hd)
    rw [hr]
    simp only [SliceDe.finalize, List.extract_eq_take_drop]
    rw [List.take_of_length_le (by simp), hrest]

/-- **C11.1b** (index-level part of C04) From any state with
`cursor ≤ end ≤ mem.length` the run never dereferences outside the allocation
(the model's explicit `.panic` outcome), never changes `mem` / `end`, and the
cursor stays in `[cursor, end]`: every byte read lies in `[cursor, end)`.  The
result is that of `dec` on the sub-slice `mem[cursor..end]`. -/
theorem slice_reads_in_bounds (t : Ty) (s : SliceDeSt) (h1 : s.cursor ≤ s.end_)
    (h2 : s.end_ ≤ s.mem.length) :
    decG SliceDe t s ≠ .error .panic ∧
    (∀ e, decG SliceDe t s = .error e → dec t (s.mem.extract s.cursor s.end_) = .error e) ∧
    (∀ v s', decG SliceDe t s = .ok (v, s') →
      s'.mem = s.mem ∧ s'.end_ = s.end_ ∧ s.cursor ≤ s'.cursor ∧ s'.cursor ≤ s'.end_ ∧
      dec t (s.mem.extract s.cursor s.end_) = .ok (v, s.mem.extract s'.cursor s.end_)) := by
  have h := decG_agrees (SliceDe.sim s.mem s.end_ s.cursor) t s ⟨rfl, rfl, Nat.le_refl _, h1, h2⟩
  have hview : ∀ c, c ≤ s.end_ → (s.mem.take s.end_).drop c = s.mem.extract c s.end_ := by
    intro c _
    rw [List.extract_eq_take_drop, List.drop_take]
  have hv0 : s.view = s.mem.extract s.cursor s.end_ := hview _ h1
  rw [hv0] at h
  have herr : ∀ e, decG SliceDe t s = .error e → dec t (s.mem.extract s.cursor s.end_) = .error e := by
    intro e he
    rw [he] at h
    rcases h with h | ⟨hf, _⟩
    · exact h
    · exact hf.elim
  refine ⟨?_, herr, ?_⟩
  · intro hp
    exact dec_total _ _ (herr _ hp)
  · intro v s' hok
    rw [hok] at h
    obtain ⟨hd, hm, he, hc0, hce, _⟩ := h
    refine ⟨hm, he, hc0, by omega, ?_⟩
    rw [hd, SliceDeSt.view, hm, he, hview _ hce]

/-- one `pop`: the byte read is `mem[cursor]` with `cursor < end ≤ mem.length`. -/
theorem slice_pop_in_bounds (s : SliceDeSt) (h1 : s.cursor ≤ s.end_) (h2 : s.end_ ≤ s.mem.length) :
    (s.cursor = s.end_ ∧ SliceDe.pop s = .error .unexpectedEnd) ∨
    (∃ h : s.cursor < s.mem.length, s.cursor < s.end_ ∧
      SliceDe.pop s = .ok (s.mem[s.cursor], { s with cursor := s.cursor + 1 })) := by
  by_cases hc : s.cursor = s.end_
  · exact .inl ⟨hc, by simp [SliceDe, hc]⟩
  · have hlt : s.cursor < s.mem.length := by omega
    refine .inr ⟨hlt, by omega, ?_⟩
    simp [SliceDe, hc, List.getElem?_eq_getElem hlt]

/-- one `try_take_n(ct)`: the range read is `mem[cursor .. cursor+ct]` with
`cursor + ct ≤ end ≤ mem.length`, or nothing is read. -/
theorem slice_take_in_bounds (s : SliceDeSt) (ct : Nat) (h1 : s.cursor ≤ s.end_)
    (h2 : s.end_ ≤ s.mem.length) :
    (s.end_ - s.cursor < ct ∧ SliceDe.tryTakeN s ct = .error .unexpectedEnd) ∨
    (s.cursor + ct ≤ s.end_ ∧
      SliceDe.tryTakeN s ct =
        .ok (s.mem.extract s.cursor (s.cursor + ct), { s with cursor := s.cursor + ct })) := by
  by_cases hc : s.end_ - s.cursor < ct
  · exact .inl ⟨hc, by simp [SliceDe, hc]⟩
  · refine .inr ⟨by omega, ?_⟩
    have : ¬ s.mem.length < s.cursor + ct := by omega
    simp [SliceDe, hc, this]

/-- the pre-allocation hint of the generic `SeqAccess` over `Slice` is the one
analysed in C04 (`hint_le_remaining`, `prealloc_bound`): remaining = `end - cursor`. -/
theorem slice_seq_hint (s : SliceDeSt) (len : Nat) :
    seqHintG SliceDe s len = seqSizeHint (s.end_ - s.cursor) len := rfl

/-- over a reader the flavour's `size_hint` is the remaining SCRATCH (not the
remaining input, which a reader cannot know): a claimed length is passed to
the visitor only if it does not exceed the scratch left; `cautious` (C04
`prealloc_le_cap`) still caps the reservation at 1 MiB. -/
theorem reader_seq_hint (st : IOReaderSt) (len : Nat) :
    seqHintG IOReader st len = if st.scratchLeft < len then none else some len := rfl

/-! ## 2. reading through a reader = decoding the slice -/

/-- what `reader_equiv` says about the slots. -/
theorem slots_disjoint (v : Val) {cap : Nat} (h : need v ≤ cap) :
    SlotsOk cap (mkSlots 0 (leaves v)) ∧ (mkSlots 0 (leaves v)).map (·.2) = leaves v ∧
    (leaves v).sum = need v :=
  ⟨mkSlots_ok (by rw [← need_eq_sum_leaves]; simpa using h), mkSlots_lengths _ _,
    (need_eq_sum_leaves v).symm⟩

/-- general single step (any starting state): if the stream starts with a
message `msg` that slice decoding maps to `v`, then `from_io` succeeds exactly
when the remaining scratch holds `need v` bytes and the reader does not fault
before the last byte of `msg`; it then has pulled exactly `msg.length` bytes
from the reader and used exactly `need v` bytes of scratch, in contiguous slots;
otherwise it fails with `DeserializeUnexpectedEnd`. -/
theorem reader_step {t : Ty} {v : Val} {msg more : List Byte} (st : IOReaderSt)
    (hdec : dec t (msg ++ more) = .ok (v, more)) (hs : st.stream = msg ++ more) :
    fromIo t st =
      if need v ≤ st.scratchCap - st.scratchUsed ∧
          (msg.length = 0 ∨ faultOk st.fault (st.delivered + msg.length) = true) then
        .ok (v, { st with stream := more, delivered := st.delivered + msg.length,
                          scratchUsed := st.scratchUsed + need v,
                          slots := st.slots ++ mkSlots st.scratchUsed (leaves v) })
      else .error .unexpectedEnd := by
  have hp := permitted_of_dec hdec
  unfold fromIo
  rw [io_permitted hp st more hs]
  simp only [ioRes, IOReaderSt.fits, IOReaderSt.adv, ← need_eq_sum_leaves, hs, List.drop_left]

/-- **C11.2** the message's bytes `msg` (followed by anything) on a reader, enough
scratch, no fault inside the message: `from_io` returns the value slice
decoding gives; the reader is left exactly at the end of the message
(`delivered = msg.length`, the stream is `more`: not one byte more was pulled);
`need v` bytes of scratch were used — the unused `cap - need v` are returned —
in the slots `mkSlots 0 (leaves v)`: one per borrowed leaf, contiguous from
offset 0 (see `slots_disjoint`). -/
theorem reader_equiv {t : Ty} {v : Val} {msg more : List Byte} {fault : Option Nat} {cap : Nat}
    (hdec : dec t (msg ++ more) = .ok (v, more)) (hcap : need v ≤ cap)
    (hfault : ∀ k, fault = some k → msg.length ≤ k) :
    fromIo t ⟨msg ++ more, fault, 0, cap, 0, []⟩ =
      .ok (v, ⟨more, fault, msg.length, cap, need v, mkSlots 0 (leaves v)⟩) := by
  rw [reader_step _ hdec rfl]
  have hf : faultOk fault (0 + msg.length) = true := by
    cases fault with
    | none => rfl
    | some k => simpa [faultOk] using hfault k rfl
  rw [if_pos ⟨by simpa using hcap, .inr hf⟩]
  simp

/-- `reader_equiv`, unpacked. -/
theorem reader_equiv' {t : Ty} {v : Val} {msg more : List Byte} {fault : Option Nat} {cap : Nat}
    (hdec : dec t (msg ++ more) = .ok (v, more)) (hcap : need v ≤ cap)
    (hfault : ∀ k, fault = some k → msg.length ≤ k) :
    ∃ st', fromIo t ⟨msg ++ more, fault, 0, cap, 0, []⟩ = .ok (v, st') ∧
      st'.stream = more ∧ st'.delivered = msg.length ∧
      st'.scratchUsed = need v ∧ st'.scratchLeft = cap - need v ∧
      SlotsOk cap st'.slots ∧ st'.slots.map (·.2) = leaves v :=
  ⟨_, reader_equiv hdec hcap hfault, rfl, rfl, rfl, rfl, (slots_disjoint v hcap).1,
    (slots_disjoint v hcap).2.1⟩

/-- the serializer's output through a reader: `from_io(to_stdvec(v))` is `v`. -/
theorem reader_roundtrip {v : Val} {t : Ty} (h : hasTy v t = true) (more : List Byte) {cap : Nat}
    (hcap : need v ≤ cap) :
    fromIo t ⟨enc v ++ more, none, 0, cap, 0, []⟩ =
      .ok (v, ⟨more, none, (enc v).length, cap, need v, mkSlots 0 (leaves v)⟩) :=
  reader_equiv (roundtrip v t h more) hcap (fun _ hk => by cases hk)

/-- **C11.2'** whenever `from_io` succeeds — from ANY state, with or without a
fault position, whatever the scratch — its value is the slice decoder's value
on the bytes the reader had left, and the reader is left exactly at the slice
decoder's remainder; every byte taken from the stream is counted in
`delivered` (nothing is read and dropped); the slots handed out during the call
are contiguous from the old scratch cursor, pairwise disjoint and inside the
scratch buffer. -/
theorem reader_value_eq_slice_gen {t : Ty} {v : Val} {st st' : IOReaderSt}
    (h : fromIo t st = .ok (v, st')) :
    dec t st.stream = .ok (v, st'.stream) ∧
    st'.delivered + st'.stream.length = st.delivered + st.stream.length ∧
    st'.fault = st.fault ∧ st'.scratchCap = st.scratchCap ∧
    (st.scratchUsed ≤ st.scratchCap →
      ∃ lens, st'.slots = st.slots ++ mkSlots st.scratchUsed lens ∧
        st'.scratchUsed = st.scratchUsed + lens.sum ∧ st'.scratchUsed ≤ st.scratchCap ∧
        SlotsOk st.scratchCap (mkSlots st.scratchUsed lens)) := by
  have hs := decG_agrees (IOReader.sim _ _ _ _ _) t st st.inv_self
  have h' : decG IOReader t st = .ok (v, st') := h
  rw [h'] at hs
  obtain ⟨hd, hI⟩ := hs
  refine ⟨hd, hI.2.2.1, hI.1, hI.2.1, fun h0 => ?_⟩
  obtain ⟨lens, h1, h2, h3, h4, _⟩ := hI.slots h0
  exact ⟨lens, h1, h2, h3, h4⟩

theorem reader_value_eq_slice {t : Ty} {v : Val} {s : List Byte} {cap : Nat} {st' : IOReaderSt}
    (h : fromIo t ⟨s, none, 0, cap, 0, []⟩ = .ok (v, st')) :
    ∃ rest, dec t s = .ok (v, rest) ∧ st'.stream = rest :=
  ⟨st'.stream, (reader_value_eq_slice_gen h).1, rfl⟩

/-- the converse of `reader_equiv`: a successful `from_io` on a fresh reader
state has consumed exactly the message, used exactly `need v` scratch bytes in
the slots `mkSlots 0 (leaves v)`, and the resources were sufficient. -/
theorem reader_success_exact {t : Ty} {v : Val} {s : List Byte} {fault : Option Nat} {cap : Nat}
    {st' : IOReaderSt} (h : fromIo t ⟨s, fault, 0, cap, 0, []⟩ = .ok (v, st')) :
    ∃ msg, s = msg ++ st'.stream ∧ dec t s = .ok (v, st'.stream) ∧
      st' = ⟨st'.stream, fault, msg.length, cap, need v, mkSlots 0 (leaves v)⟩ ∧
      need v ≤ cap ∧ (msg.length = 0 ∨ ∀ k, fault = some k → msg.length ≤ k) := by
  have hd := (reader_value_eq_slice_gen h).1
  simp only at hd
  obtain ⟨msg, hmsg⟩ := dec_consumes_prefix hd
  refine ⟨msg, hmsg, hd, ?_⟩
  have hstep := reader_step (msg := msg) (more := st'.stream) ⟨s, fault, 0, cap, 0, []⟩
    (by rw [← hmsg]; exact hd) hmsg
  rw [h] at hstep
  simp only [Nat.sub_zero, Nat.zero_add, List.nil_append] at hstep
  split at hstep
  · rename_i hc
    simp only [Except.ok.injEq, Prod.mk.injEq, true_and] at hstep
    refine ⟨hstep, hc.1, ?_⟩
    rcases hc.2 with h0 | hf
    · exact .inl h0
    · right
      intro k hk
      subst hk
      simpa [faultOk] using hf
  · cases hstep

/-- `from_io` applied `ms.length` times to one reader.  `ms` lists, per message,
its type, the value slice decoding gives, and its bytes. -/
theorem reader_consecutive_gen (more : List Byte) (fault : Option Nat) :
    ∀ (ms : List (Ty × Val × List Byte)) (d cap : Nat),
    (∀ m ∈ ms, ∀ r, dec m.1 (m.2.2 ++ r) = .ok (m.2.1, r)) →
    (ms.map (fun m => need m.2.1)).sum ≤ cap →
    (∀ k, fault = some k → d + (ms.map (fun m => m.2.2.length)).sum ≤ k) →
    fromIoSeq (ms.map (·.1)) ⟨(ms.map (·.2.2)).flatten ++ more, fault, d, cap, 0, []⟩ =
      .ok (ms.map (·.2.1),
        ⟨more, fault, d + (ms.map (fun m => m.2.2.length)).sum,
          cap - (ms.map (fun m => need m.2.1)).sum, 0, []⟩)
  | [], d, cap, _, _, _ => by simp [fromIoSeq]
  | (t, v, msg) :: ms, d, cap, hdec, hcap, hf => by
    simp only [List.map_cons, List.sum_cons, List.flatten_cons, List.append_assoc] at hcap hf ⊢
    have h1 := hdec (t, v, msg) (by simp) ((ms.map (·.2.2)).flatten ++ more)
    simp only at h1
    have hok : faultOk fault (d + msg.length) = true := by
      cases fault with
      | none => rfl
      | some k => have := hf k rfl; simp only [faultOk, decide_eq_true_eq]; omega
    simp only [fromIoSeq]
    rw [reader_step _ h1 rfl, if_pos ⟨by simp only [Nat.sub_zero]; omega, .inr hok⟩]
    simp only [IOReaderSt.next, Nat.zero_add]
    rw [reader_consecutive_gen more fault ms (d + msg.length) (cap - need v)
      (fun m hm => hdec m (List.mem_cons_of_mem _ hm)) (by omega)
      (fun k hk => by have := hf k hk; omega)]
    simp only [Nat.add_assoc, Nat.sub_sub]

/-- **C11.3** `k` messages back to back on one stream: `k` consecutive `from_io`
calls (each given the reader and the scratch returned by the previous one)
yield, in order, the values slice decoding gives for each message, provided
the scratch buffer holds the sum of their demands and the reader does not
fault before the end of the last message.  The reader ends exactly at `more`,
having delivered exactly the total length of the messages.  (With
`more := the remaining messages ++ more'` the same statement describes every
intermediate call: each call leaves the stream at the start of the next
message.) -/
theorem reader_consecutive (ms : List (Ty × Val × List Byte)) (more : List Byte)
    (fault : Option Nat) (cap : Nat)
    (hdec : ∀ m ∈ ms, ∀ r, dec m.1 (m.2.2 ++ r) = .ok (m.2.1, r))
    (hcap : (ms.map (fun m => need m.2.1)).sum ≤ cap)
    (hfault : ∀ k, fault = some k → (ms.map (fun m => m.2.2.length)).sum ≤ k) :
    fromIoSeq (ms.map (·.1)) ⟨(ms.map (·.2.2)).flatten ++ more, fault, 0, cap, 0, []⟩ =
      .ok (ms.map (·.2.1),
        ⟨more, fault, (ms.map (fun m => m.2.2.length)).sum,
          cap - (ms.map (fun m => need m.2.1)).sum, 0, []⟩) := by
  have := reader_consecutive_gen more fault ms 0 cap hdec hcap
    (fun k hk => by simpa using hfault k hk)
  simpa using this

/-- two messages, spelled out: the second call starts exactly where the first
one stopped. -/
theorem reader_two {t1 t2 : Ty} {v1 v2 : Val} {m1 m2 more : List Byte} {cap : Nat}
    (h1 : ∀ r, dec t1 (m1 ++ r) = .ok (v1, r)) (h2 : ∀ r, dec t2 (m2 ++ r) = .ok (v2, r))
    (hcap : need v1 + need v2 ≤ cap) :
    ∃ st1 st2, fromIo t1 ⟨m1 ++ m2 ++ more, none, 0, cap, 0, []⟩ = .ok (v1, st1) ∧
      st1.stream = m2 ++ more ∧ st1.delivered = m1.length ∧
      fromIo t2 st1.next = .ok (v2, st2) ∧ st2.stream = more ∧
      st2.delivered = m1.length + m2.length := by
  have e1 := reader_equiv (fault := none) (cap := cap) (h1 (m2 ++ more)) (by omega)
    (fun _ hk => by cases hk)
  rw [← List.append_assoc] at e1
  refine ⟨_, ⟨more, none, m1.length + m2.length, cap - need v1, need v2, mkSlots 0 (leaves v2)⟩,
    e1, rfl, rfl, ?_, rfl, rfl⟩
  rw [reader_step _ (h2 more) rfl, if_pos ⟨by simp [IOReaderSt.next]; omega, .inr rfl⟩]
  simp [IOReaderSt.next]

/-! ## 3. failures are errors, never panics -/

/-- **C11.4** a scratch buffer that is too small (from any state: less scratch
left than the value needs) ⇒ `DeserializeUnexpectedEnd`: not a panic, not a
wrong value. -/
theorem scratch_too_small_gen {t : Ty} {v : Val} {msg more : List Byte} (st : IOReaderSt)
    (hdec : dec t (msg ++ more) = .ok (v, more)) (hs : st.stream = msg ++ more)
    (h : st.scratchCap - st.scratchUsed < need v) :
    fromIo t st = .error .unexpectedEnd := by
  rw [reader_step st hdec hs, if_neg (fun hc => by omega)]

theorem scratch_too_small {t : Ty} {v : Val} {msg more : List Byte} {fault : Option Nat} {cap : Nat}
    (hdec : dec t (msg ++ more) = .ok (v, more)) (h : cap < need v) :
    fromIo t ⟨msg ++ more, fault, 0, cap, 0, []⟩ = .error .unexpectedEnd :=
  scratch_too_small_gen _ hdec rfl (by simpa using h)

/-- **C11.5a** a reader fault strictly inside the message ⇒ `DeserializeUnexpectedEnd`. -/
theorem reader_fault {t : Ty} {v : Val} {msg more : List Byte} {k cap : Nat}
    (hdec : dec t (msg ++ more) = .ok (v, more)) (hk : k < msg.length) :
    fromIo t ⟨msg ++ more, some k, 0, cap, 0, []⟩ = .error .unexpectedEnd := by
  rw [reader_step _ hdec rfl, if_neg]
  rintro ⟨_, h0 | hf⟩
  · omega
  · simp only [faultOk, Nat.zero_add, decide_eq_true_eq] at hf; omega

/-- **C11.5b** end of stream strictly inside the message ⇒ `DeserializeUnexpectedEnd`
(whatever the scratch size and fault position). -/
theorem reader_eof {t : Ty} {v : Val} {msg more q : List Byte} (st : IOReaderSt)
    (hdec : dec t (msg ++ more) = .ok (v, more)) (hq : q <+: msg) (hne : q ≠ msg)
    (hs : st.stream = q) : fromIo t st = .error .unexpectedEnd := by
  have hd := strict_prefix_unexpected_end hdec q hq hne
  have hs' := decG_agrees IOReader.sim_true t st trivial
  rw [hs, hd] at hs'
  unfold fromIo
  cases hr : decG IOReader t st with
  | error e =>
    rw [hr] at hs'
    rcases hs' with h | ⟨_, rfl⟩
    · cases h; rfl
    · rfl
  | ok x =>
    obtain ⟨v', s'⟩ := x
    rw [hr] at hs'
    cases hs'.1

/-- **C11.6** `from_io` never panics, from any state at all; its errors are the
slice decoder's error kinds. -/
theorem fromIo_error_kinds (t : Ty) (st : IOReaderSt) (e : Err) (h : fromIo t st = .error e) :
    DecErr e := by
  have hs := decG_agrees IOReader.sim_true t st trivial
  have h' : decG IOReader t st = .error e := h
  rw [h'] at hs
  rcases hs with hd | ⟨_, rfl⟩
  · exact dec_error_kinds _ _ _ hd
  · exact .inl rfl

theorem fromIo_total (t : Ty) (st : IOReaderSt) : fromIo t st ≠ .error .panic := by
  intro h
  have := fromIo_error_kinds t st _ h
  simp [DecErr] at this

/-- when `from_io` fails with anything but `unexpectedEnd`, slice decoding of the
same bytes fails with the same error. -/
theorem fromIo_error_eq_slice {t : Ty} {st : IOReaderSt} {e : Err}
    (h : fromIo t st = .error e) (hne : e ≠ .unexpectedEnd) : dec t st.stream = .error e := by
  have hs := decG_agrees IOReader.sim_true t st trivial
  have h' : decG IOReader t st = .error e := h
  rw [h'] at hs
  rcases hs with hd | ⟨_, rfl⟩
  · exact hd
  · exact absurd rfl hne

/-! ## 4. writing through a writer = the plain encoding -/

/-- **C11.7** a sink that never fails receives exactly the plain encoding
(appended to what it held), for every way it accepts the data in pieces (see
the header). -/
theorem writer_bytes_gen (v : Val) (w : List Byte) :
    toIo v ⟨w, none⟩ = (⟨w ++ enc v, none⟩, .ok (w ++ enc v)) := by
  simp only [toIo, serializeWith, WriteFl, WriteFlF.feed_none, chunkBytes_emit]
  rfl

theorem writer_bytes (v : Val) : toIo v ⟨[], none⟩ = (⟨enc v, none⟩, .ok (enc v)) := by
  simpa using writer_bytes_gen v []

/-- **C11.8** a fault index at or beyond the end of the encoding is never reached. -/
theorem writer_no_fault_needed (v : Val) (k : Nat) (h : (enc v).length ≤ k) :
    toIo v ⟨[], some k⟩ = (⟨enc v, some k⟩, .ok (enc v)) := by
  have := WriteFlF.feed_fits true (emit v) [] k (by simpa [chunkBytes_emit] using h)
  simp only [chunkBytes_emit, List.nil_append] at this
  simp only [toIo, serializeWith, WriteFl, this]
  rfl

/-- **C11.9** a sink that fails at byte index `k` inside the encoding: the result is
`SerializeBufferFull` (an error, not a panic) and the sink holds exactly the
first `k` bytes of the encoding — a prefix; nothing after the fault was
written. -/
theorem writer_fault (v : Val) (k : Nat) (h : k < (enc v).length) :
    toIo v ⟨[], some k⟩ = (⟨(enc v).take k, some k⟩, .error .bufferFull) := by
  have := WriteFlF.feed_fault true (emit v) [] k (Nat.zero_le _) (by simpa [chunkBytes_emit] using h)
  simp only [chunkBytes_emit, List.nil_append, List.length_nil, Nat.sub_zero] at this
  simp only [toIo, serializeWith, WriteFl, this]

theorem writer_fault_prefix (v : Val) (k : Nat) (h : k < (enc v).length) :
    (toIo v ⟨[], some k⟩).2 = .error .bufferFull ∧
    (toIo v ⟨[], some k⟩).1.written <+: enc v ∧
    (toIo v ⟨[], some k⟩).1.written.length = k := by
  rw [writer_fault v k h]
  exact ⟨rfl, List.take_prefix _ _, by simp; omega⟩

/-- the threshold form, like `to_slice_threshold`. -/
theorem writer_threshold (v : Val) (k : Nat) :
    (toIo v ⟨[], some k⟩).2 = if (enc v).length ≤ k then .ok (enc v) else .error .bufferFull := by
  by_cases h : (enc v).length ≤ k
  · rw [if_pos h, writer_no_fault_needed v k h]
  · rw [if_neg h, writer_fault v k (by omega)]

/-- in every case what the sink holds afterwards is a prefix of the encoding,
and the result is never a panic. -/
theorem writer_always_prefix (v : Val) (fa : Option Nat) :
    (toIo v ⟨[], fa⟩).1.written <+: enc v ∧ (toIo v ⟨[], fa⟩).2 ≠ .error .panic := by
  cases fa with
  | none => rw [writer_bytes]; exact ⟨List.prefix_refl _, by simp⟩
  | some k =>
    by_cases h : (enc v).length ≤ k
    · rw [writer_no_fault_needed v k h]; exact ⟨List.prefix_refl _, by simp⟩
    · rw [writer_fault v k (by omega)]; exact ⟨List.take_prefix _ _, by simp⟩

/-- a sink whose `flush` fails: everything was written, the result is
`SerializeBufferFull`. -/
theorem writer_flush_fault (v : Val) :
    serializeWith (WriteFlF false) ⟨[], none⟩ v = (⟨enc v, none⟩, .error .bufferFull) := by
  simp only [serializeWith, WriteFlF.feed_none, chunkBytes_emit, List.nil_append]
  rfl

/-- `to_io` returns the writer: a second `to_io` appends (the doc example
`to_io(&true, &mut w)` then `to_io("Hi!", w)`). -/
theorem writer_consecutive (v1 v2 : Val) :
    toIo v2 (toIo v1 ⟨[], none⟩).1 = (⟨enc v1 ++ enc v2, none⟩, .ok (enc v1 ++ enc v2)) := by
  rw [writer_bytes, writer_bytes_gen]

/-- writer then reader: what `to_io` wrote, `from_io` reads back. -/
theorem writer_reader_roundtrip {v : Val} {t : Ty} (h : hasTy v t = true) {cap : Nat}
    (hcap : need v ≤ cap) :
    fromIo t ⟨(toIo v ⟨[], none⟩).1.written, none, 0, cap, 0, []⟩ =
      .ok (v, ⟨[], none, (enc v).length, cap, need v, mkSlots 0 (leaves v)⟩) := by
  rw [writer_bytes]
  have := reader_roundtrip h [] hcap
  simpa using this

/-! ## 5. non-vacuity -/

namespace C11

/-- a struct with two strings and a float. -/
def exT : Ty := .struct [.str, .f32, .str]
def exV : Val := .struct [.str [0x68, 0x69], .f32 0x3F800000, .str [0x61, 0x62, 0x63]]
def exMsg : List Byte := [2, 0x68, 0x69, 0, 0, 0x80, 0x3F, 3, 0x61, 0x62, 0x63]

example : hasTy exV exT = true := by decide
example : enc exV = exMsg := by decide
example : need exV = 9 := by decide
example : leaves exV = [2, 4, 3] := by decide

-- exactly enough scratch; two trailing bytes stay on the reader
example : fromIo exT ⟨exMsg ++ [9, 9], none, 0, 9, 0, []⟩
    = .ok (exV, ⟨[9, 9], none, 11, 9, 9, [(0, 2), (2, 4), (6, 3)]⟩) := by rfl
-- one scratch byte short
example : fromIo exT ⟨exMsg ++ [9, 9], none, 0, 8, 0, []⟩ = .error .unexpectedEnd := by rfl
-- the reader may fail right after the message …
example : fromIo exT ⟨exMsg ++ [9, 9], some 11, 0, 9, 0, []⟩
    = .ok (exV, ⟨[9, 9], some 11, 11, 9, 9, [(0, 2), (2, 4), (6, 3)]⟩) := by rfl
-- … but not inside it
example : fromIo exT ⟨exMsg ++ [9, 9], some 10, 0, 9, 0, []⟩ = .error .unexpectedEnd := by rfl
-- end of stream inside the message
example : fromIo exT ⟨exMsg.take 10, none, 0, 9, 0, []⟩ = .error .unexpectedEnd := by rfl
-- a non-flavour error is the slice decoder's
example : fromIo .bool ⟨[2], none, 0, 0, 0, []⟩ = .error .badBool := by rfl
-- the pointer-level slice run
example : takeFromBytesG exT (exMsg ++ [9, 9]) = .ok (exV, [9, 9]) := by rfl
example : decG SliceDe exT ⟨[7] ++ exMsg ++ [9, 9], 1, 14⟩
    = .ok (exV, ⟨[7] ++ exMsg ++ [9, 9], 12, 14⟩) := by rfl
-- a cursor outside the allocation is the explicit panic outcome (excluded by `slice_reads_in_bounds`)
example : SliceDe.pop ⟨[1, 2], 2, 3⟩ = .error .panic := by rfl
-- three messages on one stream, one scratch buffer of 18 bytes
example : fromIoSeq [exT, .bool, exT] ⟨exMsg ++ [1] ++ exMsg ++ [7], none, 0, 18, 0, []⟩
    = .ok ([exV, .bool true, exV], ⟨[7], none, 23, 0, 0, []⟩) := by rfl
-- writer
example : toIo exV ⟨[], none⟩ = (⟨exMsg, none⟩, .ok exMsg) := by rfl
example : toIo exV ⟨[], some 5⟩ = (⟨[2, 0x68, 0x69, 0, 0], some 5⟩, .error .bufferFull) := by rfl
example : toIo exV ⟨[], some 11⟩ = (⟨exMsg, some 11⟩, .ok exMsg) := by rfl
example : (toIo exV ⟨[], some 10⟩).2 = .error .bufferFull := by rfl

end C11

end Postcard
