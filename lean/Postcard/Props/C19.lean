import Postcard.Lemmas.SchemaFmt
/-
  Property C19 — "Schema inspection helpers are total and faithful for every
  schema".

  Model: Postcard/Model/SchemaFmt.lean (`fmtDmt`, `toPseudocode`,
  `discoverTys`, `discoverSet`) mirroring schema/fmt.rs and schema/owned.rs.
  `discoverTys true` is the tree as found (panics on usize/isize/schema),
  `discoverTys false` the repaired code.
-/
namespace Postcard

/-! ## Totality -/

/-- The renderer is a total function: every schema, under either flag, has a
rendering (there is no error outcome in its type; the model function is
defined by structural recursion, which Lean checked to terminate). -/
theorem fmt_total (topLevel : Bool) (s : Schema) : ∃ out : List Byte, fmtDmt topLevel s = out :=
  ⟨_, rfl⟩

/-- `is_prim` is total likewise. -/
theorem isPrim_total (s : Schema) : ∃ b : Bool, isPrim s = b := ⟨_, rfl⟩

/-- On the repaired code the walk is the reference walk. -/
theorem discover_eq_subterms (s : Schema) : discoverTys false s = .ok (subterms s) := by
  simp [discoverTys_eq, walkOutcome]

/-- On the repaired code `discover_tys` never panics (nor fails otherwise). -/
theorem discover_total (s : Schema) : ∃ l, discoverTys false s = .ok l :=
  ⟨_, discover_eq_subterms s⟩

theorem discoverSet_total (s : Schema) : ∃ l, discoverSet false s = .ok l :=
  ⟨(subterms s).eraseDups, by simp [discoverSet, discover_eq_subterms, andThen]⟩

/-- `hasPanicLeaf` says what it should: some subterm is usize/isize/schema. -/
theorem hasPanicLeaf_iff (s : Schema) :
    hasPanicLeaf s = true ↔
      ∃ x, Subterm x s ∧ (x = .usize ∨ x = .isize ∨ x = .schema) := by
  rw [hasPanicLeaf_eq, List.any_eq_true]
  constructor
  · rintro ⟨x, hm, hk⟩
    refine ⟨x, mem_subterms.1 hm, ?_⟩
    cases x <;> simp [isPanicKind] at hk ⊢
  · rintro ⟨x, hs, hk⟩
    refine ⟨x, mem_subterms.2 hs, ?_⟩
    rcases hk with rfl | rfl | rfl <;> rfl

/-- The tree as found: the walk panics exactly on the schemas that contain a
usize/isize/schema node (all nested nodes are reached by the walk). -/
theorem discover_panics_iff (s : Schema) :
    discoverTys true s = .error .panic ↔ hasPanicLeaf s = true := by
  rw [discoverTys_eq]
  cases h : hasPanicLeaf s <;> simp [walkOutcome]

/-- ... and in terms of `Subterm`. -/
theorem discover_panics_iff' (s : Schema) :
    discoverTys true s = .error .panic ↔
      ∃ x, Subterm x s ∧ (x = .usize ∨ x = .isize ∨ x = .schema) :=
  (discover_panics_iff s).trans (hasPanicLeaf_iff s)

/-- The tree as found, away from the panicking kinds, agrees with the repair. -/
theorem discover_unrepaired_ok (s : Schema) (h : hasPanicLeaf s = false) :
    discoverTys true s = discoverTys false s := by
  simp [discoverTys_eq, walkOutcome, h]

/-- The unrepaired walk has no third outcome. -/
theorem discover_unrepaired_cases (s : Schema) :
    discoverTys true s = .error .panic ∨ discoverTys true s = .ok (subterms s) := by
  rw [discoverTys_eq]
  cases h : hasPanicLeaf s <;> simp [walkOutcome]

/-! ## Exactness -/

/-- The collected types are exactly the schema itself and every schema nested
inside it. -/
theorem discover_exact (s : Schema) :
    ∃ l, discoverTys false s = .ok l ∧ ∀ x, x ∈ l ↔ Subterm x s :=
  ⟨subterms s, discover_eq_subterms s, fun _ => mem_subterms⟩

/-- The same for the duplicate-free set `all_used_types` returns. -/
theorem discoverSet_exact (s : Schema) :
    ∃ l, discoverSet false s = .ok l ∧ l.Nodup ∧ ∀ x, x ∈ l ↔ Subterm x s := by
  refine ⟨(subterms s).eraseDups, by simp [discoverSet, discover_eq_subterms, andThen], ?_, ?_⟩
  · exact nodup_eraseDups _
  · intro x; rw [List.mem_eraseDups]; exact mem_subterms

/-- the set contains the schema itself -/
theorem discover_self (s : Schema) :
    ∃ l, discoverTys false s = .ok l ∧ s ∈ l :=
  ⟨subterms s, discover_eq_subterms s, self_mem_subterms s⟩

/-! ## The rendering mentions every name -/

/-- Top-level struct: the struct name occurs in the rendering, directly after
`struct `. -/
theorem render_mentions_struct_name (name : Name) (data : SData) :
    name <:+: toPseudocode (.struct name data) ∧
    (ascii "struct " ++ name) <+: toPseudocode (.struct name data) := by
  simp only [toPseudocode, fmtDmt, if_true]
  exact ⟨infix_mid _ _ _, List.prefix_append _ _⟩

/-- Top-level struct with named fields: every field is rendered as
`name: <type>`; in particular every field name occurs. -/
theorem render_mentions_struct_fields (name : Name) (fields : List SField)
    (fn : Name) (ty : Schema) (h : SField.mk fn ty ∈ fields) :
    fn <:+: toPseudocode (.struct name (.struct fields)) ∧
    (fn ++ ascii ": " ++ fmtDmt false ty) <:+: toPseudocode (.struct name (.struct fields)) := by
  have h2 : (fn ++ ascii ": " ++ fmtDmt false ty) <:+:
      toPseudocode (.struct name (.struct fields)) := by
    simp only [toPseudocode, fmtDmt, if_true]
    exact List.infix_append_of_infix_right (field_infix_fmtData h)
  refine ⟨List.IsInfix.trans ?_ h2, h2⟩
  rw [List.append_assoc]; exact (List.prefix_append fn _).isInfix

/-- Top-level enum: the enum name occurs, directly after `enum `. -/
theorem render_mentions_enum_name (name : Name) (variants : List SVariant) :
    name <:+: toPseudocode (.enum name variants) ∧
    (ascii "enum " ++ name) <+: toPseudocode (.enum name variants) := by
  simp only [toPseudocode, fmtDmt, if_true]
  refine ⟨?_, ?_⟩
  · exact ⟨ascii "enum ", ascii " { " ++ fmtVariants variants ++ ascii " }", by
      simp [List.append_assoc]⟩
  · exact ⟨ascii " { " ++ fmtVariants variants ++ ascii " }", by simp [List.append_assoc]⟩

/-- Top-level enum: every variant name occurs, immediately followed by the
rendering of its payload. -/
theorem render_mentions_enum_variants (name : Name) (variants : List SVariant)
    (vn : Name) (d : SData) (h : SVariant.mk vn d ∈ variants) :
    vn <:+: toPseudocode (.enum name variants) ∧
    (vn ++ fmtData d) <:+: toPseudocode (.enum name variants) := by
  have h2 : (vn ++ fmtData d) <:+: toPseudocode (.enum name variants) :=
    (variant_infix_variants h).trans (fmtVariants_infix_enum name variants)
  exact ⟨List.IsInfix.trans (List.prefix_append vn _).isInfix h2, h2⟩

/-- Top-level enum: every field name of every struct-like variant occurs. -/
theorem render_mentions_enum_variant_fields (name : Name) (variants : List SVariant)
    (vn : Name) (fields : List SField) (hv : SVariant.mk vn (.struct fields) ∈ variants)
    (fn : Name) (ty : Schema) (hf : SField.mk fn ty ∈ fields) :
    fn <:+: toPseudocode (.enum name variants) :=
  (fieldName_infix_fmtData hf).trans <|
    (List.suffix_append vn _).isInfix.trans
      (render_mentions_enum_variants name variants vn _ hv).2

/-- field names of a struct payload -/
def fieldNames : List SField → List Name
  | [] => []
  | .mk n _ :: fs => n :: fieldNames fs

theorem mem_fieldNames {n : Name} {fs : List SField} :
    n ∈ fieldNames fs → ∃ t, SField.mk n t ∈ fs := by
  induction fs with
  | nil => simp [fieldNames]
  | cons f fs ih =>
    cases f with
    | mk n' t =>
      simp only [fieldNames, List.mem_cons]
      rintro (rfl | h)
      · exact ⟨t, .inl rfl⟩
      · obtain ⟨t', h'⟩ := ih h; exact ⟨t', .inr h'⟩

/-- all names that a top-level struct/enum declares -/
def declaredNames : Schema → List Name
  | .struct name (.struct fields) => name :: fieldNames fields
  | .struct name _ => [name]
  | .enum name variants =>
    name :: variants.flatMap fun
      | .mk vn (.struct fields) => vn :: fieldNames fields
      | .mk vn _ => [vn]
  | _ => []

/-- C19, rendering half, in one statement: every name a top-level struct or
enum declares occurs as a contiguous substring of its pseudocode. -/
theorem render_mentions (s : Schema) (n : Name) (h : n ∈ declaredNames s) :
    n <:+: toPseudocode s := by
  cases s with
  | struct name data =>
    cases data with
    | struct fields =>
      simp only [declaredNames, List.mem_cons] at h
      rcases h with rfl | h
      · exact (render_mentions_struct_name _ _).1
      · obtain ⟨t, ht⟩ := mem_fieldNames h
        exact (render_mentions_struct_fields name fields n t ht).1
    | _ =>
      simp only [declaredNames, List.mem_singleton] at h
      subst h; exact (render_mentions_struct_name _ _).1
  | «enum» name variants =>
    simp only [declaredNames, List.mem_cons, List.mem_flatMap] at h
    rcases h with rfl | ⟨v, hv, hn⟩
    · exact (render_mentions_enum_name _ _).1
    · cases v with
      | mk vn d =>
        cases d with
        | struct fields =>
          simp only [List.mem_cons] at hn
          rcases hn with rfl | hn
          · exact (render_mentions_enum_variants name variants _ _ hv).1
          · obtain ⟨t, ht⟩ := mem_fieldNames hn
            exact render_mentions_enum_variant_fields name variants vn fields hv n t ht
        | _ =>
          simp only [List.mem_singleton] at hn
          subst hn; exact (render_mentions_enum_variants name variants _ _ hv).1
  | _ => simp [declaredNames] at h

/-- Nested (non-top-level) struct/enum render as just their name. -/
theorem render_nested_name (name : Name) :
    (∀ data, fmtDmt false (.struct name data) = name) ∧
    (∀ variants, fmtDmt false (.enum name variants) = name) := by
  constructor <;> intro _ <;> simp [fmtDmt]

/-- array-vs-tuple: a non-empty tuple renders as `[T; n]` iff all elements
equal the first. -/
theorem render_tuple (first : Schema) (rest : List Schema) :
    fmtDmt false (.tuple (first :: rest)) =
      if ∀ v ∈ rest, v = first then
        ascii "[" ++ fmtDmt false first ++ ascii "; " ++ natDigits (rest.length + 1) ++ ascii "]"
      else ascii "(" ++ fmtDmt false first ++ fmtTail rest ++ ascii ")" := by
  have : ((first :: rest).all fun v => Schema.beq first v) = true ↔ ∀ v ∈ rest, v = first := by
    simp only [List.all_cons, Schema.beq_refl, Bool.true_and, List.all_eq_true, Schema.beq_iff]
    exact ⟨fun h v hv => (h v hv).symm, fun h v hv => (h v hv).symm⟩
  simp only [fmtDmt, List.length_cons]
  by_cases hc : ∀ v ∈ rest, v = first
  · rw [if_pos (this.2 hc), if_pos hc]
  · rw [if_neg (fun h => hc (this.1 h)), if_neg hc]

/-! ## Non-vacuity -/

section Examples

private def pt : Schema :=
  .struct (ascii "Pt") (.struct [.mk (ascii "x") .u8, .mk (ascii "y") (.tuple [.u16, .u16, .u16])])

private def ex : Schema :=
  .enum (ascii "E")
    [.mk (ascii "A") .unit, .mk (ascii "B") (.newtype pt),
     .mk (ascii "C") (.tuple [.u8, .string]),
     .mk (ascii "D") (.struct [.mk (ascii "f") (.map .u8 (.option .bool))])]

example : toPseudocode pt = ascii "struct Pt { x: u8, y: [u16; 3] }" := by decide
example : toPseudocode ex =
    ascii "enum E { A, B(Pt), C(u8, String), D { f: Map<u8, Option<bool>> } }" := by decide
example : toPseudocode (.tuple [.u8, .u16]) = ascii "(u8, u16)" := by decide
example : toPseudocode (.tuple []) = ascii "()" := by decide
example : toPseudocode (.seq (.tuple [pt, pt])) = ascii "[[Pt; 2]]" := by decide
example : toPseudocode (.struct (ascii "U") .unit) = ascii "struct U" := by decide
example : toPseudocode (.struct (ascii "N") (.newtype .byteArray)) = ascii "struct N([u8])" := by
  decide
-- degenerate payloads, as the real `to_pseudocode` prints them
example : toPseudocode (.struct (ascii "T0") (.tuple [])) = ascii "struct T0()" := by decide
example : toPseudocode (.struct (ascii "S0") (.struct [])) = ascii "struct S0 {  }" := by decide
example : toPseudocode (.enum (ascii "E0") []) = ascii "enum E0 {  }" := by decide
example : natDigits 120 = ascii "120" := by decide
example : declaredNames ex = [ascii "E", ascii "A", ascii "B", ascii "C", ascii "D", ascii "f"] := by
  decide
example : ascii "f" <:+: toPseudocode ex := render_mentions ex _ (by decide)

example : discoverTys false pt = .ok [pt, .u8, .tuple [.u16, .u16, .u16], .u16, .u16, .u16] := rfl
example : discoverSet false pt = .ok [pt, .u8, .tuple [.u16, .u16, .u16], .u16] := rfl
example : discoverTys false ex =
    .ok [ex, pt, .u8, .tuple [.u16, .u16, .u16], .u16, .u16, .u16, .u8, .string,
         .map .u8 (.option .bool), .u8, .option .bool, .bool] := rfl
-- the panics on the tree as found, and their absence after the repair
example : discoverTys true .usize = .error .panic := rfl
example : discoverTys true (.struct (ascii "S") (.newtype (.option .schema))) = .error .panic := rfl
example : discoverTys false (.struct (ascii "S") (.newtype (.option .schema))) =
    .ok [.struct (ascii "S") (.newtype (.option .schema)), .option .schema, .schema] := rfl
example : discoverTys true pt = discoverTys false pt := rfl
example : hasPanicLeaf ex = false := by decide
example : isPrim (.map .u8 (.option .bool)) = true ∧ isPrim pt = false := by decide

end Examples

end Postcard
