import Postcard.Model.Entry
import Postcard.Lemmas.Flavor
import Postcard.Props.C01
/-
  Postcard.Props.C05 — "Bounded-buffer serialisation: exact capacity threshold,
  never out of bounds" (plain framing).

  * `slice_feed_fits` / `slice_feed_overflow`: what `Slice` does with an arbitrary
    call sequence from an arbitrary in-bounds state (item 6).
  * `to_slice_threshold`, `prefix_and_tail`, `to_hvec_threshold`, `size_exact`,
    `alloc_never_fails` (item 7).
  * `user_flavor_sees_plain` (item 8, used by property C20).
-/
namespace Postcard

/-! ## 6. `Slice` and a call sequence -/

/-- everything fits ⇒ no call fails; the payload sits at `[cursor, cursor+len)`. -/
theorem slice_feed_fits (s : SliceSt) (cs : List Chunk) (hc : s.cursor ≤ s.mem.length)
    (h : s.cursor + (cs.flatMap Chunk.bytes).length ≤ s.mem.length) :
    Slice.feed s cs =
      (⟨writeAt s.mem s.cursor (cs.flatMap Chunk.bytes),
        s.cursor + (cs.flatMap Chunk.bytes).length⟩, none) :=
  Slice.feed_fits cs s hc h

/-- something does not fit ⇒ `SerializeBufferFull`; the buffer keeps its
length, the cursor only moves forward and stays in bounds (no write outside the
buffer), cells outside `[s.cursor, s'.cursor)` are untouched and the cells
inside hold a prefix of the payload. -/
theorem slice_feed_overflow (s : SliceSt) (cs : List Chunk) (hc : s.cursor ≤ s.mem.length)
    (h : ¬ s.cursor + (cs.flatMap Chunk.bytes).length ≤ s.mem.length) :
    ∃ s', Slice.feed s cs = (s', some .bufferFull) ∧
      s'.mem.length = s.mem.length ∧ s.cursor ≤ s'.cursor ∧ s'.cursor ≤ s'.mem.length ∧
      (∀ i, i < s.cursor → s'.mem[i]? = s.mem[i]?) ∧
      (∀ i, s'.cursor ≤ i → s'.mem[i]? = s.mem[i]?) ∧
      (∀ j, s.cursor + j < s'.cursor → s'.mem[s.cursor + j]? = (cs.flatMap Chunk.bytes)[j]?) :=
  Slice.feed_overflow_obs cs s hc h

/-- the same, with the written prefix named. -/
theorem slice_feed_overflow_prefix (s : SliceSt) (cs : List Chunk) (hc : s.cursor ≤ s.mem.length)
    (h : ¬ s.cursor + (cs.flatMap Chunk.bytes).length ≤ s.mem.length) :
    ∃ p, p <+: cs.flatMap Chunk.bytes ∧ s.cursor + p.length ≤ s.mem.length ∧
      Slice.feed s cs = (⟨writeAt s.mem s.cursor p, s.cursor + p.length⟩, some .bufferFull) :=
  Slice.feed_overflow cs s hc h

/-- in-bounds invariant of a single call, success or failure. -/
theorem slice_step_in_bounds (s : SliceSt) (c : Chunk) (hc : s.cursor ≤ s.mem.length) :
    (Slice.step s c).1.mem.length = s.mem.length ∧
    (Slice.step s c).1.cursor ≤ (Slice.step s c).1.mem.length := by
  rw [Slice.step_eq s c hc]
  split
  · next hfit => exact ⟨writeAt_length hfit, by simp only [writeAt_length hfit]; exact hfit⟩
  · exact ⟨rfl, hc⟩

/-! ## 7. thresholds -/

/-- `to_slice` succeeds iff the encoding fits, and then returns the encoding. -/
theorem to_slice_threshold (v : Val) (buf : List Byte) :
    (toSlice v buf).2 = if (enc v).length ≤ buf.length then .ok (enc v) else .error .bufferFull := by
  by_cases h : (enc v).length ≤ buf.length
  · rw [if_pos h, toSlice_fits v buf h]
  · obtain ⟨p, _, _, he⟩ := toSlice_overflow v buf h
    rw [if_neg h, he]

/-- on success the caller's buffer is `enc v` followed by its untouched tail; on
failure it has the same length and is a prefix of `enc v` followed by the
untouched tail (so nothing outside the buffer, and nothing in the buffer beyond
the written prefix, was modified). -/
theorem prefix_and_tail (v : Val) (buf : List Byte) :
    ((enc v).length ≤ buf.length →
      (toSlice v buf).1.mem = enc v ++ buf.drop (enc v).length ∧
      (toSlice v buf).1.cursor = (enc v).length) ∧
    (¬ (enc v).length ≤ buf.length →
      (toSlice v buf).1.mem.length = buf.length ∧
      (toSlice v buf).1.cursor ≤ buf.length ∧
      ∃ p, p <+: enc v ∧ p.length = (toSlice v buf).1.cursor ∧
        (toSlice v buf).1.mem = p ++ buf.drop p.length) := by
  constructor
  · intro h; rw [toSlice_fits v buf h]; exact ⟨rfl, rfl⟩
  · intro h
    obtain ⟨p, hp, hb, he⟩ := toSlice_overflow v buf h
    rw [he]
    refine ⟨?_, hb, p, hp, rfl, rfl⟩
    simp only [List.length_append, List.length_drop]
    omega

/-- memory length is never changed by `to_slice`. -/
theorem to_slice_mem_length (v : Val) (buf : List Byte) :
    (toSlice v buf).1.mem.length = buf.length ∧ (toSlice v buf).1.cursor ≤ buf.length := by
  by_cases h : (enc v).length ≤ buf.length
  · rw [toSlice_fits v buf h]
    simp only [List.length_append, List.length_drop]
    omega
  · exact ⟨((prefix_and_tail v buf).2 h).1, ((prefix_and_tail v buf).2 h).2.1⟩

/-- `to_vec::<_, B>`: same threshold with `B = cap`. -/
theorem to_hvec_threshold (cap : Nat) (v : Val) :
    (toHVec cap v).2 = if (enc v).length ≤ cap then .ok (enc v) else .error .bufferFull := by
  by_cases h : (enc v).length ≤ cap
  · rw [if_pos h, toHVec_fits cap v h]
  · obtain ⟨p, _, _, he⟩ := toHVec_overflow cap v h
    rw [if_neg h, he]

/-- the vector never exceeds its capacity and always holds a prefix of `enc v`. -/
theorem to_hvec_within_capacity (cap : Nat) (v : Val) :
    (toHVec cap v).1.cap = cap ∧ (toHVec cap v).1.vec.length ≤ cap ∧
    (toHVec cap v).1.vec <+: enc v := by
  by_cases h : (enc v).length ≤ cap
  · rw [toHVec_fits cap v h]; exact ⟨rfl, h, List.prefix_refl _⟩
  · obtain ⟨p, hp, hb, he⟩ := toHVec_overflow cap v h
    rw [he]; exact ⟨rfl, hb, hp⟩

/-- `serialized_size` is exact. -/
theorem size_exact (v : Val) : serializedSize v = .ok (enc v).length := serializedSize_ok v

/-- `to_allocvec` / `to_stdvec` cannot fail. -/
theorem alloc_never_fails (v : Val) : toAllocVec v = .ok (enc v) := toAllocVec_ok v

/-- the threshold is `serialized_size`: `to_slice` succeeds iff the buffer is at
least that long. -/
theorem to_slice_ok_iff_size (v : Val) (buf : List Byte) :
    (∃ out, (toSlice v buf).2 = .ok out) ↔ ∃ n, serializedSize v = .ok n ∧ n ≤ buf.length := by
  rw [to_slice_threshold, size_exact]
  constructor
  · rintro ⟨out, h⟩
    by_cases hf : (enc v).length ≤ buf.length
    · exact ⟨_, rfl, hf⟩
    · rw [if_neg hf] at h; cases h
  · rintro ⟨n, hn, hle⟩
    injection hn with hn
    subst hn
    exact ⟨enc v, by rw [if_pos hle]⟩

-- the running example: 8 bytes; a 10-byte buffer keeps its last two cells, a
-- 5-byte buffer fails after four bytes (the 2-byte string payload is atomic).
example : (toSlice C01.exV (List.replicate 10 0xFF)).1.mem
    = [0xAC, 0x02, 1, 2, 0x68, 0x69, 1, 3, 0xFF, 0xFF] := by decide
example : (toSlice C01.exV (List.replicate 8 0xFF)).2 = .ok [0xAC, 0x02, 1, 2, 0x68, 0x69, 1, 3] := by
  rfl
example : toSlice C01.exV (List.replicate 7 0xFF)
    = (⟨[0xAC, 0x02, 1, 2, 0x68, 0x69, 1], 7⟩, .error .bufferFull) := by rfl
example : toSlice C01.exV (List.replicate 5 0xFF)
    = (⟨[0xAC, 0x02, 1, 2, 0xFF], 4⟩, .error .bufferFull) := by rfl
example : toHVec 7 C01.exV = (⟨7, [0xAC, 0x02, 1, 2, 0x68, 0x69, 1]⟩, .error .bufferFull) := by rfl
example : toHVec 8 C01.exV = (⟨8, enc C01.exV⟩, .ok (enc C01.exV)) := by rfl
example : serializedSize C01.exV = .ok 8 := by rfl

/-! ## 8. what a user flavour sees (for C20) -/

/-- For ANY flavour `F` and start state `s`:
* the calls issued to `F` (`F.issued`, up to and including the first failing
  one) are a prefix of `emit v`, so the concatenation of their payloads is a
  prefix of `enc v`;
* if no call fails, they are all of `emit v` and their payloads concatenate to
  `enc v`;
* the run depends on `v` only through these calls;
* a flavour that keeps the default `try_extend` is pushed `enc v` byte by byte;
* the recording flavour `Rec` logs exactly `emit v`, the byte-recording flavour
  with default `try_extend` logs exactly `enc v`. -/
theorem user_flavor_sees_plain {σ ω : Type} (F : Flavor σ ω) (s : σ) (v : Val) :
    F.issued s (emit v) <+: emit v ∧
    (F.issued s (emit v)).flatMap Chunk.bytes <+: enc v ∧
    ((F.feed s (emit v)).2 = none →
      F.issued s (emit v) = emit v ∧ (F.issued s (emit v)).flatMap Chunk.bytes = enc v) ∧
    F.feed s (F.issued s (emit v)) = F.feed s (emit v) ∧
    (F.tryExtend = defaultExtend F.tryPush →
      F.feed s (emit v) = defaultExtend F.tryPush s (enc v)) ∧
    (Rec.feed [] (emit v)).1 = emit v ∧
    (emit v).flatMap Chunk.bytes = enc v ∧
    (RecBytes.feed [] (emit v)).1 = enc v := by
  have hp := F.issued_prefix s (emit v)
  refine ⟨hp, ?_, ?_, F.feed_issued s (emit v), ?_, ?_, emit_flatten v, ?_⟩
  · have := chunkBytes_prefix hp
    rwa [chunkBytes_emit] at this
  · intro h
    rw [F.issued_of_ok s (emit v) h]
    exact ⟨rfl, emit_flatten v⟩
  · intro hF
    rw [F.feed_defaultExtend hF, chunkBytes_emit]
  · rw [Rec.feed_eq]; rfl
  · rw [RecBytes.feed_eq, chunkBytes_emit]; rfl

example : (Rec.feed [] (emit C01.exV)).1 =
    [.extend [0xAC, 0x02], .push 1, .extend [2], .extend [0x68, 0x69], .extend [1], .extend [3]] := by
  rfl
example : (RecBytes.feed [] (emit C01.exV)).1 = [0xAC, 0x02, 1, 2, 0x68, 0x69, 1, 3] := by rfl
-- a failing flavour: `Slice` over 5 bytes is issued three successful calls and the failing one
example : Slice.issued ⟨List.replicate 5 0, 0⟩ (emit C01.exV)
    = [.extend [0xAC, 0x02], .push 1, .extend [2], .extend [0x68, 0x69]] := by rfl

end Postcard
