import Postcard.Lemmas.Varint
import Postcard.Lemmas.SchemaSer
import Postcard.Model.SchemaFmt
/-
  Property C15 — "Borrowed and owned schemas are the same thing on the wire".

  Model: Postcard/Model/SchemaSer.lean.  `idxBorrowed`/`serBorrowed` transcribe
  schema/mod.rs, `idxOwned`/`serOwned`/`decOwned` transcribe schema/owned.rs,
  `conv` transcribes the `From<&Borrowed> for Owned` impls.
-/
namespace Postcard

/-! ## The two variant-index tables -/

/-- The two enum declarations number their variants identically. -/
theorem tables_equal : ∀ k : SchemaKind, idxBorrowed k = idxOwned k := by
  intro k; cases k <;> rfl

theorem data_tables_equal : ∀ k : DataKind, dataIdxBorrowed k = dataIdxOwned k := by
  intro k; cases k <;> rfl

/-- Distinct kinds have distinct indices (owned table). -/
theorem idxOwned_injective : ∀ a b : SchemaKind, idxOwned a = idxOwned b → a = b := by
  intro a b h
  have := congrArg kindOfIdxOwned h
  simpa [kindOfIdxOwned_idxOwned] using this

theorem idxBorrowed_injective : ∀ a b : SchemaKind, idxBorrowed a = idxBorrowed b → a = b := by
  intro a b h
  rw [tables_equal, tables_equal] at h
  exact idxOwned_injective a b h

theorem dataIdxOwned_injective : ∀ a b : DataKind, dataIdxOwned a = dataIdxOwned b → a = b := by
  intro a b h
  have := congrArg dataKindOfIdxOwned h
  simpa [dataKindOfIdxOwned_dataIdxOwned] using this

theorem dataIdxBorrowed_injective :
    ∀ a b : DataKind, dataIdxBorrowed a = dataIdxBorrowed b → a = b := by
  intro a b h
  rw [data_tables_equal, data_tables_equal] at h
  exact dataIdxOwned_injective a b h

/-- The tables are onto `0..26` / `0..4`: the decoder's index → kind table is
the inverse of the encoder's. -/
theorem tables_inverse :
    (∀ k, kindOfIdxOwned (idxOwned k) = some k) ∧
    (∀ i k, kindOfIdxOwned i = some k → idxOwned k = i) ∧
    (∀ k, dataKindOfIdxOwned (dataIdxOwned k) = some k) ∧
    (∀ i k, dataKindOfIdxOwned i = some k → dataIdxOwned k = i) := by
  refine ⟨kindOfIdxOwned_idxOwned, ?_, dataKindOfIdxOwned_dataIdxOwned, ?_⟩
  · intro i k h
    unfold kindOfIdxOwned at h
    split at h <;> simp at h <;> subst h <;> rfl
  · intro i k h
    unfold dataKindOfIdxOwned at h
    split at h <;> simp at h <;> subst h <;> rfl

/-- every index is a `u32` -/
theorem idx_lt_u32 : (∀ k, idxOwned k < 2 ^ 32) ∧ (∀ k, dataIdxOwned k < 2 ^ 32) :=
  ⟨fun k => Nat.lt_trans (idxOwned_lt k) (by decide),
   fun k => Nat.lt_trans (dataIdxOwned_lt k) (by decide)⟩

/-! ## Conversion -/

/-- `OwnedDataModelType::from(&borrowed)` is the same tree: kind, names, order
and nesting are preserved (the model uses one tree type for both families, so
"the same tree" is equality). -/
theorem conv_id : ∀ s : Schema, conv s = s := conv_eq

theorem convData_id : ∀ d : SData, convData d = d := convData_eq

theorem conv_kind (s : Schema) : (conv s).kind = s.kind := by rw [conv_id]

/-! ## Punning -/

/-- The serde values the two derived `Serialize` impls produce coincide. -/
theorem punning_val (s : Schema) : serBorrowed s = serOwned (conv s) := by
  rw [conv_id]; exact serBorrowed_eq tables_equal data_tables_equal s

/-- A borrowed schema and its owned conversion have the same postcard bytes. -/
theorem punning (s : Schema) : enc (serBorrowed s) = enc (serOwned (conv s)) := by
  rw [punning_val]

theorem punning_data (d : SData) : enc (serBorrowedData d) = enc (serOwnedData (convData d)) := by
  rw [convData_id, serBorrowedData_eq tables_equal data_tables_equal d]

/-! ## Round trip -/

-- The varint round trip `decVarint bits (encVarint bits n ++ rest) = .ok (n, rest)` for
-- `bits ∈ {32, 64}`, `n < 2^bits` is proved in Lemmas/Varint; the theorems below take it as the
-- explicit hypothesis `hv` so that it can be discharged there.

/-- Serialising an owned schema and deserialising it again gives the same
schema and leaves the remainder untouched, for every schema a Rust value can
be (`SchemaWf`: names valid UTF-8, lengths < 2^64), for every fuel that covers
the nesting (`s.size ≤ fuel`). -/
theorem owned_roundtrip
    (hv : ∀ bits n rest, (bits = 32 ∨ bits = 64) → n < 2 ^ bits →
      decVarint bits (encVarint bits n ++ rest) = .ok (n, rest))
    (s : Schema) (hw : SchemaWf s) (fuel : Nat) (hf : s.size ≤ fuel) (rest : List Byte) :
    decOwned fuel (enc (serOwned s) ++ rest) = .ok (s, rest) :=
  rt_schema hv s fuel rest hf hw

/-- Fuel-free form: `decOwnedBytes` supplies `bs.length + 1` units of fuel, which
always covers the nesting because every node occupies at least one byte. -/
theorem owned_roundtrip_bytes
    (hv : ∀ bits n rest, (bits = 32 ∨ bits = 64) → n < 2 ^ bits →
      decVarint bits (encVarint bits n ++ rest) = .ok (n, rest))
    (s : Schema) (hw : SchemaWf s) (rest : List Byte) :
    decOwnedBytes (enc (serOwned s) ++ rest) = .ok (s, rest) := by
  unfold decOwnedBytes
  refine owned_roundtrip hv s hw _ ?_ rest
  have := size_le_enc s
  rw [List.length_append]; omega

/-- The same for `OwnedData`. -/
theorem owned_data_roundtrip
    (hv : ∀ bits n rest, (bits = 32 ∨ bits = 64) → n < 2 ^ bits →
      decVarint bits (encVarint bits n ++ rest) = .ok (n, rest))
    (d : SData) (hw : d.wf = true) (fuel : Nat) (hf : d.size ≤ fuel) (rest : List Byte) :
    decOwnedData fuel (enc (serOwnedData d) ++ rest) = .ok (d, rest) :=
  rt_data hv d fuel rest hf hw

/-- The intended use: bytes written from a BORROWED schema (`T::SCHEMA`) are
read back as the OWNED conversion of that schema. -/
theorem borrowed_owned_roundtrip
    (hv : ∀ bits n rest, (bits = 32 ∨ bits = 64) → n < 2 ^ bits →
      decVarint bits (encVarint bits n ++ rest) = .ok (n, rest))
    (s : Schema) (hw : SchemaWf s) (fuel : Nat) (hf : s.size ≤ fuel) (rest : List Byte) :
    decOwned fuel (enc (serBorrowed s) ++ rest) = .ok (conv s, rest) := by
  rw [punning, conv_id]; exact owned_roundtrip hv s hw fuel hf rest

/-- Consequently the owned wire format is injective on well-formed schemas. -/
theorem serOwned_injective
    (hv : ∀ bits n rest, (bits = 32 ∨ bits = 64) → n < 2 ^ bits →
      decVarint bits (encVarint bits n ++ rest) = .ok (n, rest))
    (s t : Schema) (hs : SchemaWf s) (ht : SchemaWf t)
    (h : enc (serOwned s) = enc (serOwned t)) : s = t := by
  have h1 := owned_roundtrip hv s hs (s.size + t.size) (by omega) []
  have h2 := owned_roundtrip hv t ht (s.size + t.size) (by omega) []
  rw [h, h2] at h1
  cases h1; rfl

/-! ## Non-vacuity -/

section Examples

private def pt : Schema :=
  .struct (ascii "Pt") (.struct [.mk (ascii "x") .u8, .mk (ascii "y") (.tuple [.u16, .u16, .u16])])

private def ex : Schema :=
  .enum (ascii "E")
    [.mk (ascii "A") .unit, .mk (ascii "B") (.newtype pt),
     .mk (ascii "C") (.tuple [.u8, .string]),
     .mk (ascii "D") (.struct [.mk (ascii "f") (.map .u8 (.option .bool))])]

example : SchemaWf ex := by decide
example : ex.size = 18 := by decide
-- byte strings below are the output of `postcard::to_stdvec` on the corresponding Rust values
example : enc (serOwned pt) = [23, 2, 80, 116, 3, 2, 1, 120, 2, 1, 121, 21, 3, 7, 7, 7] := by
  decide
example : enc (serBorrowed pt) = [23, 2, 80, 116, 3, 2, 1, 120, 2, 1, 121, 21, 3, 7, 7, 7] := by
  decide
example : enc (serBorrowed ex) =
    [24, 1, 69, 4, 1, 65, 0, 1, 66, 1, 23, 2, 80, 116, 3, 2, 1, 120, 2, 1, 121, 21, 3, 7, 7, 7,
     1, 67, 2, 2, 2, 16, 1, 68, 3, 1, 1, 102, 22, 2, 18, 0] := by decide
example : decOwned 5 (enc (serOwned pt) ++ [9]) = .ok (pt, [9]) := rfl
example : decOwnedBytes (enc (serBorrowed ex)) = .ok (ex, []) := rfl
example : decOwned ex.size (enc (serBorrowed ex) ++ [1, 2]) = .ok (conv ex, [1, 2]) := rfl
-- error paths of the decoder (as the real `from_bytes::<OwnedDataModelType>` reports them)
example : decOwnedBytes [26] = .error .custom := rfl                    -- variant index out of range
example : decOwnedBytes [23, 1, 0xff, 0] = .error .badUtf8 := rfl       -- struct name not UTF-8
example : decOwnedBytes [23, 1, 0x41, 4] = .error .custom := rfl        -- data index out of range
example : decOwnedBytes [21, 2, 0] = .error .unexpectedEnd := rfl       -- tuple announces 2, has 1
example : decOwnedBytes [] = .error .unexpectedEnd := rfl
-- the fuel bound in `owned_roundtrip` is about nesting: too little fuel is reported, not mis-decoded
example : decOwned 2 (enc (serOwned pt)) = .error .panic := rfl
-- a schema that is not `SchemaWf` (name is not UTF-8) does not round-trip
example : ¬ SchemaWf (.struct [0xff] .unit) := by decide
example : decOwnedBytes (enc (serOwned (.struct [0xff] .unit))) = .error .badUtf8 := rfl
-- the tables are what the wire examples say
example : idxOwned .struct = 23 ∧ idxBorrowed .enum = 24 ∧ dataIdxOwned .struct = 3 := by decide

end Examples

end Postcard

/-! ### Closed forms: the varint hypothesis `hv` discharged from Lemmas/Varint -/
namespace Postcard

theorem varint_rt_32_64 : ∀ bits n rest, (bits = 32 ∨ bits = 64) → n < 2 ^ bits →
    decVarint bits (encVarint bits n ++ rest) = .ok (n, rest) := by
  intro bits n rest hb hn
  exact decVarint_encVarint (by rcases hb with h | h <;> simp [WidthOk, h]) hn rest

/-- C15: the bytes of an owned schema decode back to it (any remainder untouched). -/
theorem owned_roundtrip_closed (s : Schema) (hw : SchemaWf s) (rest : List Byte) :
    decOwnedBytes (enc (serOwned s) ++ rest) = .ok (s, rest) :=
  owned_roundtrip_bytes varint_rt_32_64 s hw rest

/-- C15: a device sends its static (borrowed) schema, any host receives the owned conversion. -/
theorem borrowed_owned_roundtrip_closed (s : Schema) (hw : SchemaWf s) (fuel : Nat)
    (hf : s.size ≤ fuel) (rest : List Byte) :
    decOwned fuel (enc (serBorrowed s) ++ rest) = .ok (conv s, rest) :=
  borrowed_owned_roundtrip varint_rt_32_64 s hw fuel hf rest

end Postcard
