import Postcard.Props.C17
import Postcard.Model.DynCost
/-
  Postcard.Props.C18 — "Dynamic codec is total on untrusted bytes, JSON and
  schemas": never panics; decoding allocates memory bounded by a constant
  multiple of the input length; whatever dynamic encoding accepts, dynamic
  decoding of the produced bytes succeeds and re-encodes to the same bytes.

  State: the model mirrors the REPAIRED code (see Props/C17.lean for the list).
  * totality: `dyn_total` holds for EVERY schema, JSON value and byte string
    (section G) — relative to an unbounded stack, see the note at `dyn_total`;
  * re-encoding: `dyn_reencode_partial` on `reencOk` (section K); the remaining
    exclusions are real, unrepaired findings, each with a refuting witness
    (section I): `Option(t)` where `t` can encode a null-like payload
    (`nullHazard`), duplicate field names in hand-built schemas; the `Schema`
    kind IS covered;
  * allocation: refuted for `Seq` of zero-width elements (`alloc_seq_unit`,
    `dyn_alloc_bound_false`, unrepaired); `dyn_alloc_bound_partial_frag` (sections L, M)
    for schemas whose `Seq` element types have positive minimum width, on the fragment
    without `Enum` / `Map` / `Schema` nodes (explicit constants `K = C = allocW s`);
    the FULL bound for every kind is `dyn_alloc_bound` in Props/C18Alloc.lean.

  Helper lemmas live in `namespace Postcard.Dyn`.
-/
set_option linter.unusedSimpArgs false
set_option linter.unusedVariables false

namespace Postcard.Dyn

/-! ## G. totality (no panic) -/

/-- a result that is not a panic. -/
def NP {α : Type} (r : DR α) : Prop := r ≠ .error .panic

theorem NP_ok {α : Type} (a : α) : NP (Except.ok a : DR α) := by simp [NP]
theorem NP_err {α : Type} {e : DynErr} (h : e ≠ .panic) : NP (Except.error e : DR α) := by
  simp [NP, h]

theorem NP_of_eq {α β : Type} {x : DR α} {e : DynErr} (hx : NP x) (h : x = .error e) :
    NP (Except.error e : DR β) := by
  subst h; intro h'; apply hx; cases h'; rfl

/-- `np_bind h`: the goal is `NP (match x with | .error e => .error e | .ok a => …)` and
`h : NP x`; closes the error branch, leaves the ok branch. -/
syntax "np_bind " term : tactic
macro_rules
  | `(tactic| np_bind $h) => `(tactic| (split; (next _ heq => exact NP_of_eq $h heq)))

theorem getI_np (b : Nat) (j : Json) : NP (getI b j) := by
  unfold getI NP; split <;> (try split) <;> simp
theorem getU_np (b : Nat) (j : Json) : NP (getU b j) := by
  unfold getU NP; split <;> (try split) <;> simp
theorem asI64R_np (j : Json) : NP (asI64R j) := by
  unfold asI64R NP; split <;> simp
theorem asU64R_np (j : Json) : NP (asU64R j) := by
  unfold asU64R NP; split <;> simp
theorem serStr_np (c : Bool) (j : Json) : NP (serStr c j) := by
  unfold serStr NP; split <;> (try split) <;> simp
theorem serByteElems_np : ∀ xs : List Json, NP (serByteElems xs)
  | [] => NP_ok _
  | x :: xs => by
    unfold serByteElems
    np_bind (getU_np 8 x); np_bind (serByteElems_np xs); exact NP_ok _
theorem serAll_np {f : Json → DR (List Byte)} (hf : ∀ x, NP (f x)) : ∀ xs : List Json, NP (serAll f xs)
  | [] => NP_ok _
  | x :: xs => by
    unfold serAll
    np_bind (hf x); np_bind (serAll_np hf xs); exact NP_ok _
theorem serKvs_np {f : Json → DR (List Byte)} (hf : ∀ x, NP (f x)) :
    ∀ kvs : List (List Byte × Json), NP (serKvs f kvs)
  | [] => NP_ok _
  | (k, v) :: rest => by
    unfold serKvs
    np_bind (hf v); np_bind (serKvs_np hf rest); exact NP_ok _
theorem dynSerUnitVariant_np : ∀ (vs : List SVariant) (k : Nat) (s : List Byte),
    NP (dynSerUnitVariant vs k s)
  | [], _, _ => by simp [dynSerUnitVariant, NP]
  | .mk n d :: rest, k, s => by
    unfold dynSerUnitVariant
    split
    · cases d <;> simp [NP]
    · exact dynSerUnitVariant_np rest (k + 1) s

theorem dynTakeOne_np (bs : List Byte) : NP (dynTakeOne bs) := by
  cases bs <;> simp [dynTakeOne, NP]
theorem dynTakeN_np (n : Nat) (bs : List Byte) : NP (dynTakeN n bs) := by
  unfold dynTakeN NP; split <;> simp
theorem dynTakeVarint_np (bits : Nat) (bs : List Byte) : NP (dynTakeVarint bits bs) := by
  rw [dynTakeVarint_eq]
  unfold liftVarintErr NP
  split <;> simp
theorem deN_np {f : List Byte → DR (Json × List Byte)} (hf : ∀ bs, NP (f bs)) :
    ∀ (n : Nat) (bs : List Byte), NP (deN f n bs)
  | 0, _ => NP_ok _
  | n + 1, bs => by
    unfold deN
    np_bind (hf bs); np_bind (deN_np hf n _); exact NP_ok _
theorem deKvs_np {f : List Byte → DR (Json × List Byte)} (hf : ∀ bs, NP (f bs)) :
    ∀ (n : Nat) (acc : List (List Byte × Json)) (bs : List Byte), NP (deKvs f n acc bs)
  | 0, _, _ => NP_ok _
  | n + 1, acc, bs => by
    unfold deKvs
    np_bind (dynTakeVarint_np 64 bs); np_bind (dynTakeN_np _ _)
    split
    · np_bind (hf _); exact deKvs_np hf n _ _
    · exact NP_err (by decide)

mutual
theorem np_ser (fo : FloatOps) : (s : Schema) → (j : Json) → NP (dynSer fo s j)
  | .bool, j => by unfold dynSer; split <;> simp [NP]
  | .i8, j => by unfold dynSer; np_bind (getI_np 8 j); exact NP_ok _
  | .u8, j => by unfold dynSer; np_bind (getU_np 8 j); exact NP_ok _
  | .i16, j => by unfold dynSer; np_bind (getI_np 16 j); exact NP_ok _
  | .i32, j => by unfold dynSer; np_bind (getI_np 32 j); exact NP_ok _
  | .i64, j => by unfold dynSer; np_bind (asI64R_np j); exact NP_ok _
  | .i128, j => by
    unfold dynSer; split
    · exact NP_ok _
    · np_bind (asU64R_np j); exact NP_ok _
  | .u16, j => by unfold dynSer; np_bind (getU_np 16 j); exact NP_ok _
  | .u32, j => by unfold dynSer; np_bind (getU_np 32 j); exact NP_ok _
  | .u64, j => by unfold dynSer; np_bind (asU64R_np j); exact NP_ok _
  | .u128, j => by unfold dynSer; np_bind (asU64R_np j); exact NP_ok _
  | .usize, j => by unfold dynSer; np_bind (getU_np 64 j); exact NP_ok _
  | .isize, j => by unfold dynSer; np_bind (asI64R_np j); exact NP_ok _
  | .f32, j => by unfold dynSer; split <;> (try split) <;> simp [NP]
  | .f64, j => by unfold dynSer; split <;> simp [NP]
  | .char, j => by unfold dynSer; exact serStr_np _ j
  | .string, j => by unfold dynSer; exact serStr_np _ j
  | .byteArray, j => by
    unfold dynSer; split
    · simp [NP]
    · np_bind (serByteElems_np _); exact NP_ok _
  | .option t, j => by
    unfold dynSer; split
    · exact NP_ok _
    · np_bind (np_ser fo t j); exact NP_ok _
  | .unit, j => by unfold dynSer; exact NP_ok _
  | .seq t, j => by
    unfold dynSer; split
    · simp [NP]
    · np_bind (serAll_np (np_ser fo t) _); exact NP_ok _
  | .tuple ts, j => by
    unfold dynSer; split
    · simp [NP]
    · split
      · simp [NP]
      · exact np_zip fo ts _
  | .map k v, j => by
    unfold dynSer; split
    · split
      · simp [NP]
      · np_bind (serKvs_np (np_ser fo v) _); exact NP_ok _
    · simp [NP]
  | .struct _ .unit, j => by unfold dynSer; exact NP_ok _
  | .struct _ (.newtype t), j => by unfold dynSer; exact np_ser fo t j
  | .struct _ (.tuple ts), j => by
    unfold dynSer; split
    · simp [NP]
    · split
      · simp [NP]
      · exact np_zip fo ts _
  | .struct _ (.struct fs), j => by
    unfold dynSer; split
    · simp [NP]
    · split
      · simp [NP]
      · exact np_fields fo fs _
  | .enum _ vs, j => by
    unfold dynSer; split
    · exact dynSerUnitVariant_np _ _ _
    · split
      · exact np_variant fo vs _ _ _
      · simp [NP]
      · simp [NP]
  | .schema, j => by unfold dynSer; split <;> simp [NP]
theorem np_zip (fo : FloatOps) : (ts : List Schema) → (xs : List Json) → NP (dynSerZip fo ts xs)
  | [], _ => by simp [dynSerZip, NP]
  | _ :: _, [] => by simp [dynSerZip, NP]
  | t :: ts, x :: xs => by
    unfold dynSerZip
    np_bind (np_ser fo t x); np_bind (np_zip fo ts xs); exact NP_ok _
theorem np_fields (fo : FloatOps) : (fs : List SField) →
    (kvs : List (List Byte × Json)) → NP (dynSerFields fo fs kvs)
  | [], _ => by simp [dynSerFields, NP]
  | .mk n t :: fs, kvs => by
    unfold dynSerFields
    split
    · simp [NP]
    · np_bind (np_ser fo t _); np_bind (np_fields fo fs kvs); exact NP_ok _
theorem np_variant (fo : FloatOps) : (vs : List SVariant) →
    (idx : Nat) → (k : List Byte) → (v : Json) → NP (dynSerVariant fo vs idx k v)
  | [], _, _, _ => by simp [dynSerVariant, NP]
  | .mk n d :: rest, idx, k, v => by
    rw [dynSerVariant.eq_def]; dsimp only
    split
    · match d with
      | .unit => exact NP_ok _
      | .newtype t =>
        dsimp only
        np_bind (np_ser fo t v); exact NP_ok _
      | .tuple ts =>
        dsimp only; split
        · simp [NP]
        · split
          · simp [NP]
          · np_bind (np_zip fo ts _); exact NP_ok _
      | .struct fs =>
        dsimp only; split
        · simp [NP]
        · split
          · simp [NP]
          · np_bind (np_fields fo fs _); exact NP_ok _
    · exact np_variant fo rest _ _ _
end

mutual
theorem np_de (fo : FloatOps) : (s : Schema) → (bs : List Byte) → NP (dynDe fo s bs)
  | .bool, bs => by
    unfold dynDe; np_bind (dynTakeOne_np bs)
    split
    · exact NP_ok _
    · split <;> simp [NP]
  | .i8, bs => by unfold dynDe; np_bind (dynTakeOne_np bs); exact NP_ok _
  | .u8, bs => by unfold dynDe; np_bind (dynTakeOne_np bs); exact NP_ok _
  | .i16, bs => by unfold dynDe; np_bind (dynTakeVarint_np 16 bs); exact NP_ok _
  | .i32, bs => by unfold dynDe; np_bind (dynTakeVarint_np 32 bs); exact NP_ok _
  | .i64, bs => by unfold dynDe; np_bind (dynTakeVarint_np 64 bs); exact NP_ok _
  | .i128, bs => by
    unfold dynDe; np_bind (dynTakeVarint_np 128 bs)
    dsimp only; split
    · simp [NP]
    · split <;> simp [NP]
  | .u16, bs => by unfold dynDe; np_bind (dynTakeVarint_np 16 bs); exact NP_ok _
  | .u32, bs => by unfold dynDe; np_bind (dynTakeVarint_np 32 bs); exact NP_ok _
  | .u64, bs => by unfold dynDe; np_bind (dynTakeVarint_np 64 bs); exact NP_ok _
  | .u128, bs => by
    unfold dynDe; np_bind (dynTakeVarint_np 128 bs)
    split <;> simp [NP]
  | .usize, bs => by unfold dynDe; np_bind (dynTakeVarint_np 64 bs); exact NP_ok _
  | .isize, bs => by unfold dynDe; np_bind (dynTakeVarint_np 64 bs); exact NP_ok _
  | .f32, bs => by
    unfold dynDe; np_bind (dynTakeN_np 4 bs)
    split <;> simp [NP]
  | .f64, bs => by
    unfold dynDe; np_bind (dynTakeN_np 8 bs)
    split <;> simp [NP]
  | .char, bs => by
    unfold dynDe; np_bind (dynTakeVarint_np 64 bs); np_bind (dynTakeN_np _ _)
    split
    · split <;> simp [NP]
    · simp [NP]
  | .string, bs => by
    unfold dynDe; np_bind (dynTakeVarint_np 64 bs); np_bind (dynTakeN_np _ _)
    split <;> simp [NP]
  | .byteArray, bs => by
    unfold dynDe; np_bind (dynTakeVarint_np 64 bs); np_bind (dynTakeN_np _ _); exact NP_ok _
  | .option t, bs => by
    unfold dynDe; np_bind (dynTakeOne_np bs)
    split
    · exact NP_ok _
    · split
      · exact np_de fo t _
      · simp [NP]
  | .unit, bs => by unfold dynDe; exact NP_ok _
  | .seq t, bs => by
    unfold dynDe; np_bind (dynTakeVarint_np 64 bs)
    np_bind (deN_np (np_de fo t) _ _); exact NP_ok _
  | .tuple ts, bs => by
    unfold dynDe; np_bind (np_deList fo ts bs); exact NP_ok _
  | .map k v, bs => by
    unfold dynDe; split
    · np_bind (dynTakeVarint_np 64 bs)
      np_bind (deKvs_np (np_de fo v) _ _ _); exact NP_ok _
    · simp [NP]
  | .struct _ .unit, bs => by unfold dynDe; exact NP_ok _
  | .struct _ (.newtype t), bs => by unfold dynDe; exact np_de fo t bs
  | .struct _ (.tuple ts), bs => by
    unfold dynDe; np_bind (np_deList fo ts bs); exact NP_ok _
  | .struct _ (.struct fs), bs => by
    unfold dynDe; np_bind (np_deFields fo fs [] bs); exact NP_ok _
  | .enum _ vs, bs => by
    unfold dynDe; np_bind (dynTakeVarint_np 64 bs)
    exact np_deVariant fo vs _ _
  | .schema, bs => by
    unfold dynDe
    split
    · next heq => exact absurd heq (decOwnedBytes_no_panic bs)
    · simp [NP]
    · exact NP_ok _
theorem np_deList (fo : FloatOps) : (ts : List Schema) → (bs : List Byte) → NP (dynDeList fo ts bs)
  | [], _ => by simp [dynDeList, NP]
  | t :: ts, bs => by
    unfold dynDeList
    np_bind (np_de fo t bs); np_bind (np_deList fo ts _); exact NP_ok _
theorem np_deFields (fo : FloatOps) : (fs : List SField) →
    (acc : List (List Byte × Json)) → (bs : List Byte) → NP (dynDeFields fo fs acc bs)
  | [], _, _ => by simp [dynDeFields, NP]
  | .mk n t :: fs, acc, bs => by
    unfold dynDeFields
    np_bind (np_de fo t bs); exact np_deFields fo fs _ _
theorem np_deVariant (fo : FloatOps) : (vs : List SVariant) →
    (k : Nat) → (bs : List Byte) → NP (dynDeVariant fo vs k bs)
  | [], _, _ => by simp [dynDeVariant, NP]
  | .mk n d :: rest, 0, bs => by
    rw [dynDeVariant.eq_def]; dsimp only
    match d with
    | .unit => exact NP_ok _
    | .newtype t =>
      dsimp only
      np_bind (np_de fo t bs); exact NP_ok _
    | .tuple ts =>
      dsimp only
      np_bind (np_deList fo ts bs); exact NP_ok _
    | .struct fs =>
      dsimp only
      np_bind (np_deFields fo fs [] bs); exact NP_ok _
  | .mk n d :: rest, k + 1, bs => by
    rw [dynDeVariant.eq_def]
    exact np_deVariant fo rest k bs
end

end Postcard.Dyn

namespace Postcard.Dyn

/-! ## I. witnesses: the former panics (repaired) and the UNREPAIRED findings

All confirmed on the real crate (scratch crate linking /repo/source/postcard-dyn). -/

section Witnesses
variable (fo : FloatOps)

/-! ### repaired: no `todo!()` is left -/

/-- `Char` decodes (repair 1); the empty input is an ordinary error. -/
example : dynDe fo .char [] = .error .unexpectedEnd := rfl
example : dynDe fo .char [1, 97] = .ok (.str [97], []) := rfl
/-- `Schema` in both directions (repair 3). -/
example : dynSer fo .schema .null = .error .schemaMismatch := rfl
example : dynDe fo .schema [] = .error .schemaMismatch := rfl
example : dynDe fo (.option .schema) [1] = .error .schemaMismatch := rfl
example : dynSer fo (.option .schema) (.posInt 1) = .error .schemaMismatch := rfl
example : dynDe fo (.option .schema) [1, 19] = .ok (.str (kindName .unit), []) := rfl
/-- a map KEY schema is never traversed. -/
example : dynDe fo (.map .char .schema) [0] = .error .shouldSupportButDont := rfl
/-- `F32` overflow is refused by the encoder (repair 6) instead of producing `+inf` bytes
that the decoder rejects.  For any `fo` that rounds like IEEE-754 on `1e300`. -/
example (h0 : fo.isFinite64 0x7E37E43C8800759C = true)
    (h1 : fo.f64ToF32 0x7E37E43C8800759C = 0x7F800000)       -- 1e300 as f32 = +inf
    (h2 : fo.isFinite32 0x7F800000 = false) :
    dynSer fo .f32 (.float 0x7E37E43C8800759C) = .error .schemaMismatch := by
  simp [dynSer, Json.asF64, h0, h1, h2]
/-- tuples of arity 0 re-encode (repair 4). -/
example : dynSer fo (.tuple []) (.arr []) = .ok [] ∧ dynDe fo (.tuple []) [] = .ok (.arr [], []) :=
  ⟨rfl, rfl⟩
example : dynSer fo (.seq (.tuple [])) (.arr [.arr [], .arr []]) = .ok [2] ∧
    dynDe fo (.seq (.tuple [])) [2] = .ok (.arr [.arr [], .arr []], []) := ⟨rfl, rfl⟩
example : let s : Schema := .enum [69] [.mk [65] .unit, .mk [67] (.tuple [])]
    dynSer fo s (.obj [([67], .arr [])]) = .ok [1] ∧
    dynDe fo s [1] = .ok (.obj [([67], .arr [])], []) := ⟨rfl, rfl⟩

/-! ### UNREPAIRED: allocation — `Seq` of a zero-width element -/

theorem allocN_unit : ∀ (n : Nat) (bs : List Byte),
    allocN (allocDyn fo .unit) (dynDe fo .unit) n bs = n
  | 0, _ => rfl
  | n + 1, bs => by
    have h1 : allocDyn fo .unit bs = 1 := rfl
    have h2 : dynDe fo .unit bs = .ok (.null, bs) := rfl
    simp only [allocN, h1, h2, allocN_unit n bs]
    omega

theorem deN_unit : ∀ (n : Nat) (bs : List Byte),
    deN (dynDe fo .unit) n bs = .ok (List.replicate n .null, bs)
  | 0, _ => rfl
  | n + 1, bs => by
    have h2 : dynDe fo .unit bs = .ok (.null, bs) := rfl
    simp [deN, h2, deN_unit n bs, List.replicate_succ]

end Witnesses
end Postcard.Dyn

namespace Postcard
open Dyn

section Witnesses
variable (fo : FloatOps)

/-- UNREPAIRED.  For every `n < 2^64` there is an input of at most 10 bytes (the varint of
`n`) on which decoding `Seq(Unit)` succeeds with `n` `Value::Null`s in a `Vec`:
`n + 1` `Value`s from `≤ 10` bytes.  (2^24 + 1 from the 4 bytes `80 80 80 08`;
measured on the real crate: 16 777 216 values, 2.8 s.) -/
theorem alloc_seq_unit {n : Nat} (h : n < 2 ^ 64) :
    allocDyn fo (.seq .unit) (encVarint 64 n) = n + 1 ∧
    dynDe fo (.seq .unit) (encVarint 64 n) = .ok (.arr (List.replicate n .null), []) ∧
    (encVarint 64 n).length ≤ 10 := by
  have hv : dynTakeVarint 64 (encVarint 64 n) = .ok (n, []) := by
    have := dynTakeVarint_enc widthOk64 h []
    simpa using this
  have hd : dynDe fo (.seq .unit) (encVarint 64 n) = .ok (.arr (List.replicate n .null), []) := by
    rw [dynDe, hv]; dsimp only; rw [deN_unit]
  refine ⟨?_, hd, ?_⟩
  · rw [allocDyn, hv]; dsimp only; rw [allocN_unit, hd]; rfl
  · exact encVarintLoop_length_le _ _

example : encVarint 64 (2 ^ 24) = [0x80, 0x80, 0x80, 0x08] := by decide

/-- UNREPAIRED.  No bound `K * len + C` with `10 K + C < 2^64` holds for `Seq(Unit)`: refutes
`dyn_alloc_bound` for every "constant multiple" of practical size. -/
theorem dyn_alloc_bound_false (K C : Nat) (h : 10 * K + C + 1 < 2 ^ 64) :
    ¬ (∀ bs : List Byte, allocDyn fo (.seq .unit) bs ≤ K * bs.length + C) := by
  intro hb
  have hn : 10 * K + C < 2 ^ 64 := by omega
  obtain ⟨ha, _, hl⟩ := alloc_seq_unit fo hn
  have := hb (encVarint 64 (10 * K + C))
  rw [ha] at this
  have : K * (encVarint 64 (10 * K + C)).length ≤ K * 10 := Nat.mul_le_mul_left K hl
  omega

/-! ### UNREPAIRED: re-encoding -/

/-- `Option(Unit)`: any non-null JSON encodes as `[1]`, decodes as `null`, re-encodes as `[0]`. -/
theorem witness_reencode_option_unit :
    dynSer fo (.option .unit) (.posInt 5) = .ok [1] ∧
    dynDe fo (.option .unit) [1] = .ok (.null, []) ∧
    dynSer fo (.option .unit) .null = .ok [0] := ⟨rfl, rfl, rfl⟩

/-- the same below other nodes: `Option(Option(U8))` is fine, `Option(Option(Unit))` and
`Option(struct S;)` are not. -/
theorem witness_reencode_option_nested :
    dynSer fo (.option (.option .unit)) (.posInt 5) = .ok [1, 1] ∧
    dynDe fo (.option (.option .unit)) [1, 1] = .ok (.null, []) ∧
    dynSer fo (.option (.option .unit)) .null = .ok [0] ∧
    dynSer fo (.option (.struct [83] .unit)) (.bool true) = .ok [1] ∧
    dynDe fo (.option (.struct [83] .unit)) [1] = .ok (.null, []) ∧
    dynSer fo (.option (.struct [83] .unit)) .null = .ok [0] := ⟨rfl, rfl, rfl, rfl, rfl, rfl⟩

/-- (hand-built schemas only) two fields with the same name:
`{"a": 1, "b": 2}` → `[1, 1]` → `{"a": 1}` → refused (`val.len() != nvs.len()`). -/
theorem witness_reencode_dup_fields :
    let s : Schema := .struct [83] (.struct [.mk [97] .u8, .mk [97] .u8])
    dynSer fo s (.obj [([97], .posInt 1), ([98], .posInt 2)]) = .ok [1, 1] ∧
    dynDe fo s [1, 1] = .ok (.obj [([97], .posInt 1)], []) ∧
    dynSer fo s (.obj [([97], .posInt 1)]) = .error .schemaMismatch := ⟨rfl, rfl, rfl⟩

/-- the same inside a struct variant. -/
theorem witness_reencode_dup_fields_variant :
    let s : Schema := .enum [69] [.mk [86] (.struct [.mk [97] .u8, .mk [97] .u8])]
    dynSer fo s (.obj [([86], .obj [([97], .posInt 1), ([98], .posInt 2)])]) = .ok [0, 1, 1] ∧
    dynDe fo s [0, 1, 1] = .ok (.obj [([86], .obj [([97], .posInt 1)])], []) ∧
    dynSer fo s (.obj [([86], .obj [([97], .posInt 1)])]) = .error .schemaMismatch := ⟨rfl, rfl, rfl⟩

/-- observation (not a violation of the stated property, which starts from an
encoder output): the decoder is not injective on maps — duplicate keys are
merged, so decode∘encode is not the identity on accepted BYTES. -/
example : dynDe fo (.map .string .u8) [2, 1, 97, 1, 1, 97, 2] = .ok (.obj [([97], .posInt 2)], []) ∧
    dynSer fo (.map .string .u8) (.obj [([97], .posInt 2)]) = .ok [1, 1, 97, 2] := ⟨rfl, rfl⟩

/-- observation: `from_slice_dyn` silently discards trailing bytes. -/
example : fromSliceDyn fo .u8 [1, 2, 3] = .ok (.posInt 1) := rfl

/-- observation: non-string map keys are refused in both directions. -/
example : dynSer fo (.map .u8 .u8) (.obj []) = .error .shouldSupportButDont ∧
    dynDe fo (.map .u8 .u8) [0] = .error .shouldSupportButDont := ⟨rfl, rfl⟩

end Witnesses
end Postcard

namespace Postcard

/-! ## K. re-encoding -/

/-- extra assumptions on the float conversions used by re-encoding under `F32`/`F64`:
integer → f64 conversions give finite f64 bit patterns; `as f32` gives an f32 bit pattern. -/
structure FloatOk2 (fo : FloatOps) : Prop where
  u64 : ∀ n, fo.u64ToF64 n < 2 ^ 64 ∧ fo.isFinite64 (fo.u64ToF64 n) = true
  i64 : ∀ x, fo.i64ToF64 x < 2 ^ 64 ∧ fo.isFinite64 (fo.i64ToF64 x) = true
  lt32 : ∀ b, fo.f64ToF32 b < 2 ^ 32

/-- `nullHazard s`: decoding under `s` can yield `null` although the encoder
accepted a non-null JSON value (`Unit`-like payloads: their encoder ignores the value). -/
def nullHazard : Schema → Bool
  | .unit => true
  | .option t => nullHazard t
  | .struct _ .unit => true
  | .struct _ (.newtype t) => nullHazard t
  | _ => false

/-- the declared field names, in order. -/
def sfieldNames : List SField → List Name
  | [] => []
  | .mk n _ :: fs => n :: sfieldNames fs

mutual
/-- `reencOk s`: the schemas on which `dyn_reencode` is PROVED.  Excluded, because the
code violates the property there (UNREPAIRED, witnesses in section I):
* `Option(t)` with `nullHazard t` (`witness_reencode_option_unit`, `…_nested`);
* a struct / struct variant with two fields of the same name (only hand-built schemas;
  `witness_reencode_dup_fields`, `…_variant`).
`decide (vs.length < 2 ^ 64)` is not an exclusion: a `Box<[OwnedVariant]>` cannot be longer.
Everything else is covered: `F32` (repair 6), `Char`, `Schema`, tuples of every arity, `Map`
(non-string keys: the encoder refuses every value), `Struct`, `Enum`. -/
def reencOk : Schema → Bool
  | .option t => reencOk t && !nullHazard t
  | .seq t => reencOk t
  | .tuple ts => reencOkList ts
  | .map k v => (match k with | .string => reencOk v | _ => true)
  | .struct _ d => reencOkData d
  | .enum _ vs => decide (vs.length < 2 ^ 64) && reencOkVariants vs
  | _ => true
def reencOkList : List Schema → Bool
  | [] => true
  | t :: ts => reencOk t && reencOkList ts
def reencOkData : SData → Bool
  | .unit => true
  | .newtype t => reencOk t
  | .tuple ts => reencOkList ts
  | .struct fs => namesNodup (sfieldNames fs) && reencOkFields fs
def reencOkFields : List SField → Bool
  | [] => true
  | .mk _ t :: fs => reencOk t && reencOkFields fs
def reencOkVariants : List SVariant → Bool
  | [] => true
  | .mk _ d :: vs => reencOkData d && reencOkVariants vs
end

end Postcard

namespace Postcard.Dyn

/-- the re-encoding statement for one schema. -/
def RE (fo : FloatOps) (s : Schema) : Prop :=
  ∀ (j : Json) (bs rest : List Byte), j.wf fo = true → dynSer fo s j = .ok bs →
    ∃ j', dynDe fo s (bs ++ rest) = .ok (j', rest) ∧ dynSer fo s j' = .ok bs ∧
      (nullHazard s = false → j.isNull = false → j'.isNull = false)

theorem asI64_range {fo : FloatOps} {j : Json} {x : Int} (hw : j.wf fo = true)
    (h : j.asI64 = some x) : -(2 ^ 63 : Int) ≤ x ∧ x < (2 ^ 63 : Int) := by
  cases j <;> simp [Json.asI64] at h
  · rename_i n
    obtain ⟨h1, rfl⟩ := h
    omega
  · subst h
    simp [Json.wf] at hw
    omega

theorem asU64_range {fo : FloatOps} {j : Json} {n : Nat} (hw : j.wf fo = true)
    (h : j.asU64 = some n) : n < 2 ^ 64 := by
  cases j <;> simp [Json.asU64] at h
  subst h
  simpa [Json.wf] using hw

theorem asI64_ofI64 {x : Int} (h1 : -(2 ^ 63 : Int) ≤ x) (h2 : x < (2 ^ 63 : Int)) :
    (Json.ofI64 x).asI64 = some x := by
  rw [ofI64_eq_jsonOfInt h1 (by omega)]
  exact asI64_jsonOfInt h1 h2

theorem ofI64_not_null (x : Int) : (Json.ofI64 x).isNull = false := by
  unfold Json.ofI64; split <;> rfl

theorem wfList_mem {fo : FloatOps} : ∀ {xs : List Json}, Json.wfList fo xs = true →
    ∀ x ∈ xs, x.wf fo = true
  | [], _, x, hx => by simp at hx
  | y :: ys, h, x, hx => by
    simp [Json.wfList] at h
    simp at hx
    rcases hx with rfl | hx
    · exact h.1
    · exact wfList_mem h.2 x hx

theorem re_signed (fo : FloatOps) (w : IntW) (hw : w ≠ .w8) (x : Int) (hx : w.inRangeI x = true)
    (rest : List Byte) :
    dynTakeVarint w.bits (dynVarint w.bits (dynZigzag w.bits x) ++ rest) = .ok (zigzag w.bits x, rest) ∧
    dynUnzigzag (zigzag w.bits x) = x := by
  rw [dynVarint_eq, dynZigzag_eq]
  exact ⟨de_i_varint w hw x hx rest, de_i_unzig w x hx⟩

theorem inRange_of (w : IntW) (x : Int) (h : -(2 ^ (w.bits - 1) : Int) ≤ x ∧ x < (2 ^ (w.bits - 1) : Int)) :
    w.inRangeI x = true := (IntW.inRangeI_iff w x).2 h

theorem getU_ok {bits : Nat} {j : Json} {n : Nat} (h : getU bits j = .ok n) :
    j.asU64 = some n ∧ n < 2 ^ bits := by
  unfold getU at h
  split at h
  · simp at h
  · split at h
    · simp at h; subst h; simp_all
    · simp at h

theorem getI_ok {bits : Nat} {j : Json} {x : Int} (h : getI bits j = .ok x) :
    j.asI64 = some x ∧ (-(2 ^ (bits - 1) : Int) ≤ x ∧ x < (2 ^ (bits - 1) : Int)) := by
  unfold getI at h
  split at h
  · simp at h
  · split at h
    · simp at h; subst h; simp_all
    · simp at h

theorem getU_posInt {bits n : Nat} (h : n < 2 ^ bits) : getU bits (.posInt n) = .ok n := by
  simp [getU, Json.asU64, h]

theorem getI_ofI64 {bits : Nat} {x : Int}
    (h : -(2 ^ (bits - 1) : Int) ≤ x ∧ x < (2 ^ (bits - 1) : Int))
    (h63 : -(2 ^ 63 : Int) ≤ x ∧ x < (2 ^ 63 : Int)) : getI bits (Json.ofI64 x) = .ok x := by
  simp [getI, asI64_ofI64 h63.1 h63.2, h]

theorem asI64R_ok {j : Json} {x : Int} (h : asI64R j = .ok x) : j.asI64 = some x := by
  unfold asI64R at h; split at h <;> simp_all
theorem asU64R_ok {j : Json} {n : Nat} (h : asU64R j = .ok n) : j.asU64 = some n := by
  unfold asU64R at h; split at h <;> simp_all
theorem asStr_eq {j : Json} {u : List Byte} (h : j.asStr = some u) : j = .str u := by
  cases j <;> simp [Json.asStr] at h; subst h; rfl
theorem asArray_eq {j : Json} {xs : List Json} (h : j.asArray = some xs) : j = .arr xs := by
  cases j <;> simp [Json.asArray] at h; subst h; rfl
theorem asObject_eq {j : Json} {kvs : List (List Byte × Json)} (h : j.asObject = some kvs) :
    j = .obj kvs := by
  cases j <;> simp [Json.asObject] at h; subst h; rfl

theorem re_bool (fo : FloatOps) : RE fo .bool := by
  intro j bs rest _ h
  simp only [dynSer] at h
  split at h <;> simp at h
  rename_i b _
  subst h
  refine ⟨.bool b, ?_, ?_, fun _ _ => rfl⟩
  · cases b <;> simp [dynDe, dynTakeOne]
  · simp [dynSer, Json.asBool]

theorem re_u8 (fo : FloatOps) : RE fo .u8 := by
  intro j bs rest _ h
  simp only [dynSer] at h
  split at h <;> simp at h
  rename_i n hg
  subst h
  have hn := (getU_ok hg).2
  have hm : n % 256 = n := Nat.mod_eq_of_lt (by simpa using hn)
  refine ⟨.posInt n, ?_, ?_, fun _ _ => rfl⟩
  · simp [dynDe, dynTakeOne, UInt8.toNat_ofNat', hm]
  · simp [dynSer, getU_posInt hn]

theorem re_i8 (fo : FloatOps) : RE fo .i8 := by
  intro j bs rest _ h
  simp only [dynSer] at h
  split at h <;> simp at h
  rename_i x hg
  subst h
  have hx := (getI_ok hg).2
  have hx' : -128 ≤ x ∧ x < 128 := by simpa using hx
  have hb : ofBits 8 (toBits 8 x % 256) = x := by
    have := ofBits_toBits8 hx'
    simpa [UInt8.toNat_ofNat'] using this
  refine ⟨Json.ofI64 x, ?_, ?_, fun _ _ => ofI64_not_null x⟩
  · simp [dynDe, dynTakeOne, hb]
  · simp [dynSer, getI_ofI64 hx ⟨by omega, by omega⟩]

theorem re_getU (fo : FloatOps) (s : Schema) (bits : Nat) (hb : WidthOk bits) (hle : bits ≤ 64)
    (hs : ∀ j, dynSer fo s j = match getU bits j with | .error e => .error e | .ok n => .ok (dynVarint bits n))
    (hd : ∀ bs, dynDe fo s bs = match dynTakeVarint bits bs with
      | .error e => .error e | .ok (n, rest) => .ok (.posInt n, rest)) : RE fo s := by
  intro j bs rest _ h
  rw [hs] at h
  split at h <;> simp at h
  rename_i n hg
  subst h
  have hlt := (getU_ok hg).2
  refine ⟨.posInt n, ?_, ?_, fun _ _ => rfl⟩
  · rw [hd, dynVarint_eq, dynTakeVarint_enc hb hlt]
  · rw [hs, getU_posInt hlt]

theorem re_getI (fo : FloatOps) (s : Schema) (w : IntW) (hw : w ≠ .w8) (hle : w.bits ≤ 64)
    (hs : ∀ j, dynSer fo s j = match getI w.bits j with
      | .error e => .error e | .ok x => .ok (dynVarint w.bits (dynZigzag w.bits x)))
    (hd : ∀ bs, dynDe fo s bs = match dynTakeVarint w.bits bs with
      | .error e => .error e | .ok (n, rest) => .ok (Json.ofI64 (dynUnzigzag n), rest)) : RE fo s := by
  intro j bs rest _ h
  rw [hs] at h
  split at h <;> simp at h
  rename_i x hg
  subst h
  have hx := (getI_ok hg).2
  have hr := re_signed fo w hw x (inRange_of w x hx) rest
  have h63 : -(2 ^ 63 : Int) ≤ x ∧ x < (2 ^ 63 : Int) := by
    cases w <;> simp [IntW.bits] at hle hx ⊢ <;> omega
  refine ⟨Json.ofI64 x, ?_, ?_, fun _ _ => ofI64_not_null x⟩
  · rw [hd, hr.1]; simp [hr.2]
  · rw [hs, getI_ofI64 hx h63]

theorem re_asI (fo : FloatOps) (s : Schema) (w : IntW) (hw : w ≠ .w8) (hge : 64 ≤ w.bits)
    (hs : ∀ j, dynSer fo s j = match asI64R j with
      | .error e => .error e | .ok x => .ok (dynVarint w.bits (dynZigzag w.bits x)))
    (hd : ∀ bs n rest, dynTakeVarint w.bits bs = .ok (n, rest) →
      -(2 ^ 63 : Int) ≤ dynUnzigzag n → dynUnzigzag n < (2 ^ 63 : Int) →
      dynDe fo s bs = .ok (Json.ofI64 (dynUnzigzag n), rest)) : RE fo s := by
  intro j bs rest hwf h
  rw [hs] at h
  split at h <;> simp at h
  rename_i x hj
  subst h
  have h63 := asI64_range hwf (asI64R_ok hj)
  have hin : w.inRangeI x = true := by
    apply inRange_of
    have : (2 : Int) ^ 63 ≤ 2 ^ (w.bits - 1) := by
      cases w <;> simp [IntW.bits] at hge ⊢
    omega
  have hr := re_signed fo w hw x hin rest
  refine ⟨Json.ofI64 x, ?_, ?_, fun _ _ => ofI64_not_null x⟩
  · have := hd _ _ _ hr.1 (by rw [hr.2]; exact h63.1) (by rw [hr.2]; exact h63.2)
    rw [this, hr.2]
  · rw [hs]; simp [asI64R, asI64_ofI64 h63.1 h63.2]

theorem re_asU (fo : FloatOps) (s : Schema) (bits : Nat) (hb : WidthOk bits) (hge : 64 ≤ bits)
    (hs : ∀ j, dynSer fo s j = match asU64R j with | .error e => .error e | .ok n => .ok (dynVarint bits n))
    (hd : ∀ bs n rest, dynTakeVarint bits bs = .ok (n, rest) → n < 2 ^ 64 →
      dynDe fo s bs = .ok (.posInt n, rest)) : RE fo s := by
  intro j bs rest hwf h
  rw [hs] at h
  split at h <;> simp at h
  rename_i n hj
  subst h
  have h64 := asU64_range hwf (asU64R_ok hj)
  have hlt : n < 2 ^ bits := Nat.lt_of_lt_of_le h64 (Nat.pow_le_pow_right (by decide) hge)
  refine ⟨.posInt n, ?_, ?_, fun _ _ => rfl⟩
  · rw [dynVarint_eq]; exact hd _ _ _ (dynTakeVarint_enc hb hlt rest) h64
  · rw [hs]; simp [asU64R, Json.asU64]

theorem re_f64 (fo : FloatOps) (h2 : FloatOk2 fo) : RE fo .f64 := by
  intro j bs rest hwf h
  simp only [dynSer] at h
  split at h <;> simp at h
  rename_i b hj
  subst h
  have hb : b < 2 ^ 64 ∧ fo.isFinite64 b = true := by
    cases j <;> simp [Json.asF64] at hj
    · subst hj; exact h2.u64 _
    · subst hj; exact h2.i64 _
    · subst hj; simpa [Json.wf] using hwf
  have hb' : b < 256 ^ 8 := by omega
  refine ⟨.float b, ?_, ?_, fun _ _ => rfl⟩
  · simp [dynDe, dynTakeN_append' _ rest (leBytes_length 8 b), ofLeBytes_leBytes hb',
      Json.numFromF64, hb.2]
  · simp [dynSer, Json.asF64]

theorem re_string (fo : FloatOps) : RE fo .string := by
  intro j bs rest hwf h
  simp only [dynSer, serStr] at h
  split at h <;> simp at h
  rename_i u hj
  subst h
  have := asStr_eq hj; subst this
  simp [Json.wf] at hwf
  refine ⟨.str u, ?_, ?_, fun _ _ => rfl⟩
  · simp [dynDe, dynVarint_eq, dynTakeVarint_enc widthOk64 hwf.2, dynTakeN_append, hwf.1]
  · simp [dynSer, serStr, Json.asStr]

theorem re_char (fo : FloatOps) : RE fo .char := by
  intro j bs rest hwf h
  simp only [dynSer, serStr] at h
  split at h
  · simp at h
  · rename_i u hj
    have := asStr_eq hj; subst this
    simp [Json.wf] at hwf
    cases h1 : oneScalar u
    · simp [h1] at h
    · simp [h1] at h
      subst h
      refine ⟨.str u, ?_, ?_, fun _ _ => rfl⟩
      · simp [dynDe, dynVarint_eq, dynTakeVarint_enc widthOk64 hwf.2, dynTakeN_append, hwf.1, h1]
      · simp [dynSer, serStr, Json.asStr, h1]

theorem serByteElems_ok : ∀ (xs : List Json) (bs : List Byte), serByteElems xs = .ok bs →
    bs.length = xs.length ∧ serByteElems (bs.map fun b => Json.posInt b.toNat) = .ok bs
  | [], bs, h => by simp [serByteElems] at h; subst h; simp [serByteElems]
  | x :: xs, bs, h => by
    simp only [serByteElems] at h
    split at h <;> simp at h
    split at h <;> simp at h
    rename_i _ n hn _ bs' hbs
    subst h
    have ih := serByteElems_ok xs bs' hbs
    have hlt : n < 2 ^ 8 := (getU_ok hn).2
    have hm : n % 256 = n := Nat.mod_eq_of_lt (by simpa using hlt)
    have hlt' : n % 256 < 2 ^ 8 := by omega
    simp [serByteElems, UInt8.toNat_ofNat', getU_posInt hlt, hm, ih.1, ih.2]

theorem re_byteArray (fo : FloatOps) : RE fo .byteArray := by
  intro j bs rest hwf h
  simp only [dynSer] at h
  split at h <;> simp at h
  rename_i xs hj
  split at h <;> simp at h
  rename_i body hb
  subst h
  have := asArray_eq hj; subst this
  simp [Json.wf] at hwf
  have hok := serByteElems_ok xs body hb
  have hl : body.length < 2 ^ 64 := by rw [hok.1]; exact hwf.1
  refine ⟨.arr (body.map fun b => Json.posInt b.toNat), ?_, ?_, fun _ _ => rfl⟩
  · simp [dynDe, dynVarint_eq, ← hok.1, dynTakeVarint_enc widthOk64 hl, dynTakeN_append]
  · simp [dynSer, Json.asArray, hok.2, hok.1]


theorem re_f32 (fo : FloatOps) (h1 : FloatOk fo) (h2 : FloatOk2 fo) : RE fo .f32 := by
  intro j bs rest hwf h
  simp only [dynSer] at h
  split at h <;> simp at h
  rename_i b hj
  have hb : b < 2 ^ 64 ∧ fo.isFinite64 b = true := by
    cases j <;> simp [Json.asF64] at hj
    · subst hj; exact h2.u64 _
    · subst hj; exact h2.i64 _
    · subst hj; simpa [Json.wf] using hwf
  have hfin : fo.isFinite32 (fo.f64ToF32 b) = true := by
    cases hc : fo.isFinite32 (fo.f64ToF32 b)
    · simp [hb.2, hc] at h
    · rfl
  simp [hb.2, hfin] at h
  subst h
  have hc32 : fo.f64ToF32 b < 2 ^ 32 := h2.lt32 b
  have hc256 : fo.f64ToF32 b < 256 ^ 4 := by omega
  refine ⟨.float (fo.f32ToF64 (fo.f64ToF32 b)), ?_, ?_, fun _ _ => rfl⟩
  · simp [dynDe, dynTakeN_append' _ rest (leBytes_length 4 _), ofLeBytes_leBytes hc256,
      Json.numFromF64, h1.fin32 _ hc32 hfin]
  · simp [dynSer, Json.asF64, h1.rt32 _ hc32 hfin, hfin]

theorem re_i128 (fo : FloatOps) : RE fo .i128 := by
  intro j bs rest hwf h
  simp only [dynSer] at h
  split at h
  · rename_i x hj
    simp at h; subst h
    have h63 := asI64_range hwf hj
    have hin : IntW.w128.inRangeI x = true := by
      apply inRange_of; simp [IntW.bits]; omega
    have hr := re_signed fo .w128 (by decide) x hin rest
    simp only [IntW.bits] at hr
    refine ⟨Json.ofI64 x, ?_, ?_, fun _ _ => ofI64_not_null x⟩
    · have hx' : x < 9223372036854775808 := by have := h63.2; simpa using this
      have hx'' : -9223372036854775808 ≤ x := by have := h63.1; simpa using this
      simp [dynDe, hr.1, hr.2, hx', hx'']
    · simp [dynSer, asI64_ofI64 h63.1 h63.2]
  · rename_i hj
    split at h <;> simp at h
    rename_i n hn
    subst h
    have hju := asU64R_ok hn
    have hlt := asU64_range hwf hju
    have hj' : j = .posInt n := by
      cases j <;> simp [Json.asU64] at hju
      subst hju; rfl
    subst hj'
    have hbig : ¬ n ≤ 2 ^ 63 - 1 := by
      intro hle; simp [Json.asI64, hle] at hj
    have hin : IntW.w128.inRangeI (n : Int) = true := by
      apply inRange_of; simp [IntW.bits]; omega
    have hr := re_signed fo .w128 (by decide) (n : Int) hin rest
    simp only [IntW.bits] at hr
    refine ⟨.posInt n, ?_, ?_, fun _ _ => rfl⟩
    · have hx' : ¬ (n : Int) < 9223372036854775808 := by omega
      have hx'' : (n : Int) < 18446744073709551616 := by omega
      simp [dynDe, hr.1, hr.2, hx', hx'']
    · simp [dynSer, hj, asU64R, Json.asU64]

theorem re_all (fo : FloatOps) (t : Schema) (ht : RE fo t) : ∀ (xs : List Json) (bs rest : List Byte),
    Json.wfList fo xs = true → serAll (dynSer fo t) xs = .ok bs →
    ∃ js, deN (dynDe fo t) xs.length (bs ++ rest) = .ok (js, rest) ∧
      serAll (dynSer fo t) js = .ok bs ∧ js.length = xs.length
  | [], bs, rest, _, h => by
    simp [serAll] at h; subst h
    exact ⟨[], by simp [deN], by simp [serAll], rfl⟩
  | x :: xs, bs, rest, hw, h => by
    simp only [serAll] at h
    split at h <;> simp at h
    split at h <;> simp at h
    rename_i _ a ha _ b hb
    subst h
    simp [Json.wfList] at hw
    obtain ⟨j', hd, hs, _⟩ := ht x a (b ++ rest) hw.1 ha
    obtain ⟨js, hds, hss, hl⟩ := re_all fo t ht xs b rest hw.2 hb
    refine ⟨j' :: js, ?_, ?_, by simp [hl]⟩
    · simp [deN, hd, hds]
    · simp [serAll, hs, hss]

/-- list version (tuples). -/
def REL (fo : FloatOps) (ts : List Schema) : Prop :=
  ∀ (xs : List Json) (bs rest : List Byte), Json.wfList fo xs = true →
    dynSerZip fo ts xs = .ok bs → xs.length = ts.length →
    ∃ js, dynDeList fo ts (bs ++ rest) = .ok (js, rest) ∧ dynSerZip fo ts js = .ok bs ∧
      js.length = ts.length

/-- the tuple arms (every arity) from `REL`. -/
theorem re_of_rel (fo : FloatOps) (s : Schema) (ts : List Schema) (hrel : REL fo ts)
    (hnh : nullHazard s = false)
    (hs : ∀ j, dynSer fo s j = match j.asArray with
      | none => .error .schemaMismatch
      | some xs => if xs.length ≠ ts.length then .error .schemaMismatch else dynSerZip fo ts xs)
    (hd : ∀ bs, dynDe fo s bs = match dynDeList fo ts bs with
      | .error e => .error e | .ok (vs, rest) => .ok (.arr vs, rest)) : RE fo s := by
  intro j bs rest hwf h
  rw [hs] at h
  split at h <;> simp at h
  rename_i xs hj
  have := asArray_eq hj; subst this
  simp [Json.wf] at hwf
  by_cases hlen : xs.length = ts.length
  case neg => simp [hlen] at h
  simp [hlen] at h
  obtain ⟨js, hdl, hsz, hjl⟩ := hrel xs bs rest hwf.2 h hlen
  refine ⟨.arr js, ?_, ?_, fun _ _ => rfl⟩
  · rw [hd, hdl]
  · rw [hs]; simp [Json.asArray, hjl, hsz]

/-! ### maps -/

theorem allKeysGt_congr (k : List Byte) : ∀ (a b : List (List Byte × Json)), keysOf a = keysOf b →
    allKeysGt k a = allKeysGt k b
  | [], [], _ => rfl
  | [], _ :: _, h => by simp [keysOf] at h
  | _ :: _, [], h => by simp [keysOf] at h
  | (k1, v1) :: a, (k2, v2) :: b, h => by
    simp [keysOf] at h
    obtain ⟨rfl, h⟩ := h
    simp [allKeysGt, allKeysGt_congr k a b (by simpa [keysOf] using h)]

theorem keysPairwiseLt_congr : ∀ (a b : List (List Byte × Json)), keysOf a = keysOf b →
    keysPairwiseLt a = keysPairwiseLt b
  | [], [], _ => rfl
  | [], _ :: _, h => by simp [keysOf] at h
  | _ :: _, [], h => by simp [keysOf] at h
  | (k1, v1) :: a, (k2, v2) :: b, h => by
    simp [keysOf] at h
    obtain ⟨rfl, h⟩ := h
    have h' : keysOf a = keysOf b := by simpa [keysOf] using h
    simp [keysPairwiseLt, allKeysGt_congr k1 a b h', keysPairwiseLt_congr a b h']

theorem re_kvs (fo : FloatOps) (t : Schema) (ht : RE fo t) :
    ∀ (kvs : List (List Byte × Json)) (bs rest : List Byte) (acc : List (List Byte × Json)),
    Json.wfKvs fo kvs = true → serKvs (dynSer fo t) kvs = .ok bs →
    ∃ kvs', deKvs (dynDe fo t) kvs.length acc (bs ++ rest) = .ok (objInsertAll acc kvs', rest) ∧
      serKvs (dynSer fo t) kvs' = .ok bs ∧ keysOf kvs' = keysOf kvs
  | [], bs, rest, acc, _, h => by
    simp [serKvs] at h; subst h
    exact ⟨[], by simp [deKvs, objInsertAll], by simp [serKvs], rfl⟩
  | (k, v) :: more, bs, rest, acc, hw, h => by
    simp only [serKvs] at h
    split at h <;> simp at h
    split at h <;> simp at h
    rename_i _ a ha _ b hb
    subst h
    simp [Json.wfKvs] at hw
    obtain ⟨⟨⟨hk1, hk2⟩, hv⟩, hmore⟩ := hw
    obtain ⟨v', hd, hs, _⟩ := ht v a (b ++ rest) hv ha
    obtain ⟨kvs', hds, hss, hkeys⟩ := re_kvs fo t ht more b rest (objInsert k v' acc) hmore hb
    refine ⟨(k, v') :: kvs', ?_, ?_, by simp [keysOf] at hkeys ⊢; exact hkeys⟩
    · simp [deKvs, dynVarint_eq, List.append_assoc, dynTakeVarint_enc widthOk64 hk2, dynTakeN_append,
        hk1, hd, hds, objInsertAll]
    · simp [serKvs, hs, hss]

theorem re_map (fo : FloatOps) (t : Schema) (ht : RE fo t) : RE fo (.map .string t) := by
  intro j bs rest hwf h
  simp only [dynSer] at h
  split at h <;> simp at h
  rename_i kvs hj
  split at h <;> simp at h
  rename_i body hb
  subst h
  have := asObject_eq hj; subst this
  simp [Json.wf] at hwf
  obtain ⟨⟨hlen, hsorted⟩, hwk⟩ := hwf
  obtain ⟨kvs', hd, hs, hkeys⟩ := re_kvs fo t ht kvs body rest [] hwk hb
  have hl' : kvs'.length = kvs.length := by
    have := congrArg List.length hkeys
    simpa [keysOf] using this
  have hsorted' : keysPairwiseLt kvs' = true := by rw [keysPairwiseLt_congr kvs' kvs hkeys]; exact hsorted
  have hins : objInsertAll [] kvs' = kvs' := by
    have := objInsertAll_sorted kvs' [] (by simp) hsorted'
    simpa using this
  rw [hins] at hd
  refine ⟨.obj kvs', ?_, ?_, fun _ _ => rfl⟩
  · simp [dynDe, dynVarint_eq, dynTakeVarint_enc widthOk64 hlen, hd]
  · simp [dynSer, Json.asObject, hs, hl']

/-! ### structs -/

theorem wfKvs_get {fo : FloatOps} {key : List Byte} : ∀ {kvs : List (List Byte × Json)} {v : Json},
    Json.wfKvs fo kvs = true → objGet key kvs = some v → v.wf fo = true
  | [], _, _, h => by simp [objGet] at h
  | (k, v') :: rest, v, hw, h => by
    simp [Json.wfKvs] at hw
    simp only [objGet] at h
    split at h
    · simp at h; subst h; exact hw.1.2
    · exact wfKvs_get hw.2 h

/-- named fields: decode yields `objInsertAll acc (names zip values')`, and ANY object that
has these values under these names re-encodes to the same bytes. -/
def REF (fo : FloatOps) (fs : List SField) : Prop :=
  ∀ (kvs : List (List Byte × Json)) (bs rest : List Byte) (acc : List (List Byte × Json)),
    Json.wfKvs fo kvs = true → dynSerFields fo fs kvs = .ok bs →
    ∃ vs' : List Json, vs'.length = fs.length ∧
      dynDeFields fo fs acc (bs ++ rest) = .ok (objInsertAll acc (zipNames (sfieldNames fs) vs'), rest) ∧
      ∀ obj, GetsAll obj (sfieldNames fs) vs' → dynSerFields fo fs obj = .ok bs

theorem sfieldNames_length : ∀ fs : List SField, (sfieldNames fs).length = fs.length
  | [] => rfl
  | .mk _ _ :: fs => by simp [sfieldNames, sfieldNames_length fs]

/-- the object-level consequence of `REF` for distinct field names. -/
theorem re_struct_obj (fo : FloatOps) (fs : List SField) (hn : namesNodup (sfieldNames fs) = true)
    (hf : REF fo fs) (kvs : List (List Byte × Json)) (bs rest : List Byte)
    (hw : Json.wfKvs fo kvs = true) (h : dynSerFields fo fs kvs = .ok bs) :
    ∃ obj', dynDeFields fo fs [] (bs ++ rest) = .ok (obj', rest) ∧ obj'.length = fs.length ∧
      dynSerFields fo fs obj' = .ok bs := by
  obtain ⟨vs', hl, hd, hs⟩ := hf kvs bs rest [] hw h
  have hlj : (sfieldNames fs).length = vs'.length := by rw [sfieldNames_length, hl]
  refine ⟨_, hd, ?_, hs _ (getsAll_insertAll _ _ [] hn hlj)⟩
  rw [length_insertAll _ _ (by rw [keysOf_zipNames _ _ hlj]; exact hn) (by simp [keysOf]),
    length_zipNames _ _ hlj, sfieldNames_length]
  simp

theorem re_struct (fo : FloatOps) (nm : Name) (fs : List SField)
    (hn : namesNodup (sfieldNames fs) = true) (hf : REF fo fs) : RE fo (.struct nm (.struct fs)) := by
  intro j bs rest hwf h
  simp only [dynSer] at h
  split at h <;> simp at h
  rename_i kvs hj
  have := asObject_eq hj; subst this
  simp [Json.wf] at hwf
  by_cases hlen : kvs.length = fs.length
  case neg => simp [hlen] at h
  simp [hlen] at h
  obtain ⟨obj', hd, hl, hs⟩ := re_struct_obj fo fs hn hf kvs bs rest hwf.2 h
  refine ⟨.obj obj', ?_, ?_, fun _ _ => rfl⟩
  · simp [dynDe, hd]
  · simp [dynSer, Json.asObject, hl, hs]

/-! ### enums -/

/-- what the payload of a variant needs. -/
def RED (fo : FloatOps) : SData → Prop
  | .unit => True
  | .newtype t => RE fo t
  | .tuple ts => REL fo ts
  | .struct fs => namesNodup (sfieldNames fs) = true ∧ REF fo fs

theorem dynSerUnitVariant_none (name : Name) : ∀ (vs : List SVariant) (k : Nat),
    findVariant vs name k = none → dynSerUnitVariant vs k name = .error .schemaMismatch
  | [], _, _ => rfl
  | .mk n d :: rest, k, h => by
    simp only [findVariant] at h
    split at h
    · simp at h
    · rename_i hn
      simp [dynSerUnitVariant, hn, dynSerUnitVariant_none name rest (k + 1) h]

theorem dynSerVariant_none (fo : FloatOps) (name : Name) (j : Json) : ∀ (vs : List SVariant) (k : Nat),
    findVariant vs name k = none → dynSerVariant fo vs k name j = .error .schemaMismatch
  | [], _, _ => by simp [dynSerVariant]
  | .mk n d :: rest, k, h => by
    simp only [findVariant] at h
    split at h
    · simp at h
    · rename_i hn
      rw [dynSerVariant.eq_def]; simp only [hn, if_false]
      exact dynSerVariant_none fo name j rest (k + 1) h

theorem findVariant_lt (name : Name) (i : Nat) (d : SData) : ∀ (vs : List SVariant) (k : Nat),
    findVariant vs name k = some (i, d) → i < k + vs.length
  | [], _, h => by simp [findVariant] at h
  | .mk n d' :: rest, k, h => by
    simp only [findVariant] at h
    split at h
    · simp at h; simp; omega
    · have := findVariant_lt name i d rest (k + 1) h; simp; omega

theorem re_enum (fo : FloatOps) (nm : Name) (vs : List SVariant) (hlen : vs.length < 2 ^ 64)
    (hv : ∀ name i d, findVariant vs name 0 = some (i, d) → RED fo d) : RE fo (.enum nm vs) := by
  intro j bs rest hwf h
  simp only [dynSer] at h
  split at h
  · -- string form
    rename_i s hj
    have := asStr_eq hj; subst this
    cases hfind : findVariant vs s 0 with
    | none => rw [dynSerUnitVariant_none s vs 0 hfind] at h; cases h
    | some p =>
      obtain ⟨i, d⟩ := p
      have hi : i < 2 ^ 64 := by have := findVariant_lt s i d vs 0 hfind; omega
      rw [dynSerUnitVariant_find s i d vs 0 hfind] at h
      cases d <;> simp [dynSerUnitVariant] at h
      subst h
      have hd := dynDeVariant_find fo s i _ rest vs 0 hfind
      simp only [Nat.sub_zero] at hd
      refine ⟨.str s, ?_, ?_, fun _ _ => rfl⟩
      · simp only [dynDe, dynVarint_eq, dynTakeVarint_enc widthOk64 hi, hd]
        rw [dynDeVariant.eq_def]
      · simp [dynSer, Json.asStr, dynSerUnitVariant_find s i _ vs 0 hfind, dynSerUnitVariant]
  · rename_i hnstr
    split at h
    · -- object with one entry
      rename_i k v hj
      have := asObject_eq hj; subst this
      simp [Json.wf, Json.wfKvs] at hwf
      have hvw : v.wf fo = true := hwf.2.2
      cases hfind : findVariant vs k 0 with
      | none => rw [dynSerVariant_none fo k v vs 0 hfind] at h; cases h
      | some p =>
        obtain ⟨i, d⟩ := p
        have hi : i < 2 ^ 64 := by have := findVariant_lt k i d vs 0 hfind; omega
        have hred := hv k i d hfind
        rw [dynSerVariant_find fo k i d v vs 0 hfind] at h
        rw [dynSerVariant.eq_def] at h; dsimp only at h; rw [if_pos rfl] at h
        have hser : ∀ v', dynSer fo (.enum nm vs) (.obj [(k, v')]) = dynSerVariant fo [.mk k d] i k v' := by
          intro v'
          simp [dynSer, Json.asStr, Json.asObject, dynSerVariant_find fo k i d v' vs 0 hfind]
        have hde : ∀ body, dynDe fo (.enum nm vs) (dynVarint 64 i ++ body) =
            dynDeVariant fo [.mk k d] 0 body := by
          intro body
          have hd := dynDeVariant_find fo k i d body vs 0 hfind
          simp only [Nat.sub_zero] at hd
          simp only [dynDe, dynVarint_eq, dynTakeVarint_enc widthOk64 hi, hd]
        cases d with
        | unit =>
          simp at h; subst h
          refine ⟨.str k, ?_, ?_, fun _ _ => rfl⟩
          · rw [hde, dynDeVariant.eq_def]
          · simp [dynSer, Json.asStr, dynSerUnitVariant_find k i _ vs 0 hfind, dynSerUnitVariant]
        | newtype t =>
          dsimp only at h
          split at h <;> simp at h
          rename_i a ha
          subst h
          obtain ⟨v', hd', hs', _⟩ := hred v a rest hvw ha
          refine ⟨.obj [(k, v')], ?_, ?_, fun _ _ => rfl⟩
          · rw [List.append_assoc, hde, dynDeVariant.eq_def]; simp [hd']
          · rw [hser, dynSerVariant.eq_def]; simp [hs']
        | tuple ts =>
          dsimp only at h
          split at h <;> simp at h
          rename_i xs hxs
          have := asArray_eq hxs; subst this
          simp [Json.wf] at hvw
          by_cases hl : xs.length = ts.length
          case neg => simp [hl] at h
          simp [hl] at h
          split at h <;> simp at h
          rename_i a ha
          subst h
          obtain ⟨js, hd', hs', hjl⟩ := hred xs a rest hvw.2 ha hl
          refine ⟨.obj [(k, .arr js)], ?_, ?_, fun _ _ => rfl⟩
          · rw [List.append_assoc, hde, dynDeVariant.eq_def]; simp [hd']
          · rw [hser, dynSerVariant.eq_def]; simp [Json.asArray, hjl, hs']
        | struct fs =>
          dsimp only at h
          split at h <;> simp at h
          rename_i kvs hkvs
          have := asObject_eq hkvs; subst this
          simp [Json.wf] at hvw
          by_cases hl : kvs.length = fs.length
          case neg => simp [hl] at h
          simp [hl] at h
          split at h <;> simp at h
          rename_i a ha
          subst h
          obtain ⟨obj', hd', hol, hs'⟩ := re_struct_obj fo fs hred.1 hred.2 kvs a rest hvw.2 ha
          refine ⟨.obj [(k, .obj obj')], ?_, ?_, fun _ _ => rfl⟩
          · rw [List.append_assoc, hde, dynDeVariant.eq_def]; simp [hd']
          · rw [hser, dynSerVariant.eq_def]; simp [Json.asObject, hol, hs']
    · simp at h
    · simp at h

/-! ### the `Schema` kind -/

theorem jsonOfSchema_not_null (s : Schema) : (jsonOfSchema s).isNull = false := by
  cases s <;> simp [jsonOfSchema, Json.isNull]

end Postcard.Dyn

namespace Postcard.Dyn

/-! ### well-formedness of the schema read from a well-formed `Value` -/

theorem leaf_wf {k : SchemaKind} {s : Schema} (h : schemaOfUnitKind k = some s) : s.wf = true := by
  cases k <;> simp [schemaOfUnitKind] at h <;> subst h <;> rfl

theorem nameGet_ok {fo : FloatOps} {key : Name} {kvs : List (List Byte × Json)} {n : Name}
    (hw : Json.wfKvs fo kvs = true) (h : nameGet key kvs = some n) : nameOk n = true := by
  unfold nameGet at h
  split at h
  · rename_i s hg
    simp at h; subst h
    have := wfKvs_get hw hg
    simpa [Json.wf, nameOk] using this
  · cases h

mutual
theorem wf_schema (fo : FloatOps) : (j : Json) → j.wf fo = true → ∀ s, schemaOfJson j = some s →
    s.wf = true
  | j, hw, s, h => by
   rw [schemaOfJson.eq_def] at h
   split at h
   · split at h
     · cases h
     · exact leaf_wf h
   · rename_i k v
     have hv : v.wf fo = true := by simp [Json.wf, Json.wfKvs] at hw; exact hw.2.2
     split at h
     · cases h
     · split at h
       · rename_i t ht; simp at h; subst h
         simpa [Schema.wf] using wf_schema fo v hv t ht
       · cases h
     · split at h
       · rename_i t ht; simp at h; subst h
         simpa [Schema.wf] using wf_schema fo v hv t ht
       · cases h
     · split at h
       · rename_i xs
         split at h
         · rename_i ts hts; simp at h; subst h
           simp [Json.wf] at hv
           have := wf_list fo xs hv.2 ts hts
           simp [Schema.wf, this.1, this.2, hv.1]
         · cases h
       · cases h
     · split at h
       · rename_i kvs
         simp [Json.wf] at hv
         split at h
         · rename_i a b ha hb; simp at h; subst h
           simp [Schema.wf, wf_sget fo kvs hv.2 _ a ha, wf_sget fo kvs hv.2 _ b hb]
         · cases h
       · cases h
     · split at h
       · rename_i kvs
         simp [Json.wf] at hv
         split at h
         · rename_i n d hn hd; simp at h; subst h
           simp [Schema.wf, nameGet_ok hv.2 hn, wf_dget fo kvs hv.2 _ d hd]
         · cases h
       · cases h
     · split at h
       · rename_i kvs
         simp [Json.wf] at hv
         split at h
         · rename_i n vs hn hvs; simp at h; subst h
           have := wf_vget fo kvs hv.2 _ vs hvs
           simp [Schema.wf, nameGet_ok hv.2 hn, this.1, this.2]
         · cases h
       · cases h
     · split at h
       · exact leaf_wf h
       · cases h
   · cases h
termination_by j => sizeOf j
theorem wf_list (fo : FloatOps) : (xs : List Json) → Json.wfList fo xs = true → ∀ ts,
    schemaOfJsonList xs = some ts → Schema.wfList ts = true ∧ ts.length = xs.length
  | [], _, ts, h => by simp [schemaOfJsonList] at h; subst h; simp [Schema.wfList]
  | x :: xs, hw, ts, h => by
    simp [Json.wfList] at hw
    rw [schemaOfJsonList] at h
    split at h
    · rename_i t ts' ht hts; simp at h; subst h
      have := wf_list fo xs hw.2 ts' hts
      simp [Schema.wfList, wf_schema fo x hw.1 t ht, this.1, this.2]
    · cases h
termination_by xs => sizeOf xs
theorem wf_sget (fo : FloatOps) : (kvs : List (List Byte × Json)) → Json.wfKvs fo kvs = true →
    ∀ key s, schemaGet key kvs = some s → s.wf = true
  | [], _, _, _, h => by simp [schemaGet] at h
  | (k, v) :: rest, hw, key, s, h => by
    simp [Json.wfKvs] at hw
    rw [schemaGet] at h
    split at h
    · exact wf_schema fo v hw.1.2 s h
    · exact wf_sget fo rest hw.2 key s h
termination_by kvs => sizeOf kvs
theorem wf_data (fo : FloatOps) : (j : Json) → j.wf fo = true → ∀ d, dataOfJson j = some d →
    d.wf = true
  | j, hw, d, h => by
   rw [dataOfJson.eq_def] at h
   split at h
   · split at h
     · simp at h; subst h; rfl
     · cases h
   · rename_i k v
     have hv : v.wf fo = true := by simp [Json.wf, Json.wfKvs] at hw; exact hw.2.2
     split at h
     · cases h
     · split at h
       · simp at h; subst h; rfl
       · cases h
     · split at h
       · rename_i t ht; simp at h; subst h
         simpa [SData.wf] using wf_schema fo v hv t ht
       · cases h
     · split at h
       · rename_i xs
         split at h
         · rename_i ts hts; simp at h; subst h
           simp [Json.wf] at hv
           have := wf_list fo xs hv.2 ts hts
           simp [SData.wf, this.1, this.2, hv.1]
         · cases h
       · cases h
     · split at h
       · rename_i xs
         split at h
         · rename_i fs hfs; simp at h; subst h
           simp [Json.wf] at hv
           have := wf_fields fo xs hv.2 fs hfs
           simp [SData.wf, this.1, this.2, hv.1]
         · cases h
       · cases h
   · cases h
termination_by j => sizeOf j
theorem wf_dget (fo : FloatOps) : (kvs : List (List Byte × Json)) → Json.wfKvs fo kvs = true →
    ∀ key d, dataGet key kvs = some d → d.wf = true
  | [], _, _, _, h => by simp [dataGet] at h
  | (k, v) :: rest, hw, key, d, h => by
    simp [Json.wfKvs] at hw
    rw [dataGet] at h
    split at h
    · exact wf_data fo v hw.1.2 d h
    · exact wf_dget fo rest hw.2 key d h
termination_by kvs => sizeOf kvs
theorem wf_field (fo : FloatOps) : (j : Json) → j.wf fo = true → ∀ f, fieldOfJson j = some f →
    SField.wfList [f] = true
  | j, hw, f, h => by
   rw [fieldOfJson.eq_def] at h
   split at h
   · rename_i n t
     simp [Json.wf, Json.wfList] at hw
     split at h
     · rename_i ty hty; simp at h; subst h
       simp [SField.wfList, nameOk, hw.1.1, hw.1.2, wf_schema fo t hw.2 ty hty]
     · cases h
   · rename_i kvs
     simp [Json.wf] at hw
     split at h
     · rename_i n ty hn hty; simp at h; subst h
       simp [SField.wfList, nameGet_ok hw.2 hn, wf_sget fo kvs hw.2 _ ty hty]
     · cases h
   · cases h
termination_by j => sizeOf j
theorem wf_fields (fo : FloatOps) : (xs : List Json) → Json.wfList fo xs = true → ∀ fs,
    fieldsOfJsonList xs = some fs → SField.wfList fs = true ∧ fs.length = xs.length
  | [], _, fs, h => by simp [fieldsOfJsonList] at h; subst h; simp [SField.wfList]
  | x :: xs, hw, fs, h => by
    simp [Json.wfList] at hw
    rw [fieldsOfJsonList] at h
    split at h
    · rename_i f fs' hf hfs; simp at h; subst h
      have := wf_fields fo xs hw.2 fs' hfs
      have h1 := wf_field fo x hw.1 f hf
      obtain ⟨n, t⟩ := f
      simp [SField.wfList] at h1
      simp [SField.wfList, h1, this.1, this.2]
    · cases h
termination_by xs => sizeOf xs
theorem wf_variant (fo : FloatOps) : (j : Json) → j.wf fo = true → ∀ v, variantOfJson j = some v →
    SVariant.wfList [v] = true
  | j, hw, f, h => by
   rw [variantOfJson.eq_def] at h
   split at h
   · rename_i n d
     simp [Json.wf, Json.wfList] at hw
     split at h
     · rename_i data hd; simp at h; subst h
       simp [SVariant.wfList, nameOk, hw.1.1, hw.1.2, wf_data fo d hw.2 data hd]
     · cases h
   · rename_i kvs
     simp [Json.wf] at hw
     split at h
     · rename_i n data hn hd; simp at h; subst h
       simp [SVariant.wfList, nameGet_ok hw.2 hn, wf_dget fo kvs hw.2 _ data hd]
     · cases h
   · cases h
termination_by j => sizeOf j
theorem wf_variants (fo : FloatOps) : (xs : List Json) → Json.wfList fo xs = true → ∀ vs,
    variantsOfJsonList xs = some vs → SVariant.wfList vs = true ∧ vs.length = xs.length
  | [], _, vs, h => by simp [variantsOfJsonList] at h; subst h; simp [SVariant.wfList]
  | x :: xs, hw, vs, h => by
    simp [Json.wfList] at hw
    rw [variantsOfJsonList] at h
    split at h
    · rename_i v vs' hv hvs; simp at h; subst h
      have := wf_variants fo xs hw.2 vs' hvs
      have h1 := wf_variant fo x hw.1 v hv
      obtain ⟨n, d⟩ := v
      simp [SVariant.wfList] at h1
      simp [SVariant.wfList, h1, this.1, this.2]
    · cases h
termination_by xs => sizeOf xs
theorem wf_vget (fo : FloatOps) : (kvs : List (List Byte × Json)) → Json.wfKvs fo kvs = true →
    ∀ key vs, variantsGet key kvs = some vs → SVariant.wfList vs = true ∧ vs.length < 2 ^ 64
  | [], _, _, _, h => by simp [variantsGet] at h
  | (k, v) :: rest, hw, key, vs, h => by
    simp [Json.wfKvs] at hw
    rw [variantsGet.eq_def] at h; dsimp only at h
    split at h
    · split at h
      · rename_i xs
        have hv := hw.1.2
        simp [Json.wf] at hv
        have := wf_variants fo xs hv.2 vs h
        exact ⟨this.1, by rw [this.2]; exact hv.1⟩
      · cases h
    · exact wf_vget fo rest hw.2 key vs h
termination_by kvs => sizeOf kvs
end

theorem re_schema (fo : FloatOps) : RE fo .schema := by
  intro j bs rest hwf h
  simp only [dynSer] at h
  split at h <;> simp at h
  rename_i s hs
  subst h
  have hsw : SchemaWf s := wf_schema fo j hwf s hs
  refine ⟨jsonOfSchema s, ?_, ?_, fun _ _ => jsonOfSchema_not_null s⟩
  · simp [dynDe, owned_roundtrip_closed s hsw rest]
  · simp [dynSer, soj_schema]

end Postcard.Dyn

namespace Postcard.Dyn

/-! ### all schemas -/

/-- unfold one arm of `dynSer` / `dynDe` (the two sides use different but
definitionally equal matchers). -/
macro "eqn_ser" : tactic =>
  `(tactic| first | (rw [dynSer]; done) | (rw [dynSer] <;> first | rfl | simp))
macro "eqn_de" : tactic =>
  `(tactic| first | (rw [dynDe]; done) | (rw [dynDe] <;> first | rfl | simp))

mutual
theorem re_val (fo : FloatOps) (h1 : FloatOk fo) (h2 : FloatOk2 fo) :
    (s : Schema) → reencOk s = true → RE fo s
  | .bool, _ => re_bool fo
  | .i8, _ => re_i8 fo
  | .u8, _ => re_u8 fo
  | .i16, _ => re_getI fo .i16 .w16 (by decide) (by decide) (fun _ => by rw [dynSer]; rfl) (fun _ => by rw [dynDe]; rfl)
  | .i32, _ => re_getI fo .i32 .w32 (by decide) (by decide) (fun _ => by rw [dynSer]; rfl) (fun _ => by rw [dynDe]; rfl)
  | .i64, _ => re_asI fo .i64 .w64 (by decide) (by decide) (fun _ => by rw [dynSer]; rfl)
      (fun bs n rest h _ _ => by rw [dynDe]; simp only [IntW.bits] at h; rw [h])
  | .isize, _ => re_asI fo .isize .w64 (by decide) (by decide) (fun _ => by rw [dynSer]; rfl)
      (fun bs n rest h _ _ => by rw [dynDe]; simp only [IntW.bits] at h; rw [h])
  | .i128, _ => re_i128 fo
  | .u16, _ => re_getU fo .u16 16 widthOk16 (by decide) (fun _ => by eqn_ser) (fun _ => by eqn_de)
  | .u32, _ => re_getU fo .u32 32 widthOk32 (by decide) (fun _ => by eqn_ser) (fun _ => by eqn_de)
  | .usize, _ => re_getU fo .usize 64 widthOk64 (by decide) (fun _ => by eqn_ser) (fun _ => by eqn_de)
  | .u64, _ => re_asU fo .u64 64 widthOk64 (by decide) (fun _ => by eqn_ser)
      (fun bs n rest h _ => by rw [dynDe, h])
  | .u128, _ => re_asU fo .u128 128 widthOk128 (by decide) (fun _ => by eqn_ser)
      (fun bs n rest h hn => by rw [dynDe, h]; simp [hn])
  | .f32, _ => re_f32 fo h1 h2
  | .f64, _ => re_f64 fo h2
  | .char, _ => re_char fo
  | .string, _ => re_string fo
  | .byteArray, _ => re_byteArray fo
  | .schema, _ => re_schema fo
  | .option t, h => by
    simp [reencOk] at h
    have ih := re_val fo h1 h2 t h.1
    intro j bs rest hwf hs
    rw [dynSer] at hs
    split at hs
    · rename_i hnull
      simp at hs; subst hs
      refine ⟨.null, by simp [dynDe, dynTakeOne], by simp [dynSer, Json.isNull], ?_⟩
      intro _ hn; rw [hnull] at hn; cases hn
    · rename_i hnull
      split at hs <;> simp at hs
      rename_i body hb
      subst hs
      obtain ⟨j', hd, hs', hnn⟩ := ih j body rest hwf hb
      have hj' : j'.isNull = false := hnn h.2 (by simpa using hnull)
      refine ⟨j', by simp [dynDe, dynTakeOne, hd], by simp [dynSer, hj', hs'], fun _ _ => hj'⟩
  | .unit, _ => by
    intro j bs rest _ hs
    simp [dynSer] at hs; subst hs
    exact ⟨.null, by simp [dynDe], by simp [dynSer], by simp [nullHazard]⟩
  | .seq t, h => by
    simp [reencOk] at h
    have ih := re_val fo h1 h2 t h
    intro j bs rest hwf hs
    rw [dynSer] at hs
    split at hs <;> simp at hs
    rename_i xs hj
    split at hs <;> simp at hs
    rename_i body hb
    subst hs
    have := asArray_eq hj; subst this
    simp [Json.wf] at hwf
    obtain ⟨js, hd, hs', hl⟩ := re_all fo t ih xs body rest hwf.2 hb
    refine ⟨.arr js, ?_, ?_, fun _ _ => rfl⟩
    · simp [dynDe, dynVarint_eq, dynTakeVarint_enc widthOk64 hwf.1, hd]
    · simp [dynSer, Json.asArray, hs', hl]
  | .tuple ts, h => by
    simp only [reencOk] at h
    exact re_of_rel fo _ _ (re_list fo h1 h2 ts h) rfl (fun _ => by eqn_ser) (fun _ => by eqn_de)
  | .map k v, h => by
    match k, h with
    | .string, h =>
      simp only [reencOk] at h
      exact re_map fo v (re_val fo h1 h2 v h)
    | .bool, _ | .i8, _ | .u8, _ | .i16, _ | .i32, _ | .i64, _ | .i128, _ | .u16, _ | .u32, _
    | .u64, _ | .u128, _ | .usize, _ | .isize, _ | .f32, _ | .f64, _ | .char, _ | .byteArray, _
    | .option _, _ | .unit, _ | .seq _, _ | .tuple _, _ | .map _ _, _ | .struct _ _, _
    | .enum _ _, _ | .schema, _ =>
      intro j bs rest _ hs
      simp [dynSer] at hs
  | .struct _ .unit, _ => by
    intro j bs rest _ hs
    simp [dynSer] at hs; subst hs
    exact ⟨.null, by simp [dynDe], by simp [dynSer], by simp [nullHazard]⟩
  | .struct _ (.newtype t), h => by
    simp [reencOk, reencOkData] at h
    have ih := re_val fo h1 h2 t h
    intro j bs rest hwf hs
    rw [dynSer] at hs
    obtain ⟨j', hd, hs', hnn⟩ := ih j bs rest hwf hs
    exact ⟨j', by rw [dynDe]; exact hd, by rw [dynSer]; exact hs', by simpa [nullHazard] using hnn⟩
  | .struct _ (.tuple ts), h => by
    simp only [reencOk, reencOkData] at h
    exact re_of_rel fo _ _ (re_list fo h1 h2 ts h) rfl (fun _ => by eqn_ser) (fun _ => by eqn_de)
  | .struct nm (.struct fs), h => by
    simp [reencOk, reencOkData] at h
    exact re_struct fo nm fs h.1 (re_fields fo h1 h2 fs h.2)
  | .enum nm vs, h => by
    simp [reencOk] at h
    exact re_enum fo nm vs h.1 (fun name i d hf => re_variants fo h1 h2 vs h.2 name 0 i d hf)
theorem re_list (fo : FloatOps) (h1 : FloatOk fo) (h2 : FloatOk2 fo) :
    (ts : List Schema) → reencOkList ts = true → REL fo ts
  | [], _ => by
    intro xs bs rest _ hs _
    simp [dynSerZip] at hs; subst hs
    exact ⟨[], by simp [dynDeList], by simp [dynSerZip], rfl⟩
  | t :: ts, h => by
    simp [reencOkList] at h
    have ih := re_val fo h1 h2 t h.1
    have ihl := re_list fo h1 h2 ts h.2
    intro xs bs rest hw hs hl
    match xs, hw, hs, hl with
    | [], _, _, hl => simp at hl
    | x :: xs, hw, hs, hl =>
      simp only [dynSerZip] at hs
      split at hs <;> simp at hs
      split at hs <;> simp at hs
      rename_i _ a ha _ b hb
      subst hs
      simp [Json.wfList] at hw
      simp at hl
      obtain ⟨j', hd, hs', _⟩ := ih x a (b ++ rest) hw.1 ha
      obtain ⟨js, hds, hss, hjl⟩ := ihl xs b rest hw.2 hb hl
      refine ⟨j' :: js, ?_, ?_, by simp [hjl]⟩
      · simp [dynDeList, hd, hds]
      · simp [dynSerZip, hs', hss]
theorem re_fields (fo : FloatOps) (h1 : FloatOk fo) (h2 : FloatOk2 fo) :
    (fs : List SField) → reencOkFields fs = true → REF fo fs
  | [], _ => by
    intro kvs bs rest acc _ hs
    simp [dynSerFields] at hs; subst hs
    exact ⟨[], rfl, by simp [dynDeFields, sfieldNames, zipNames, objInsertAll], fun _ _ => by simp [dynSerFields]⟩
  | .mk n t :: fs, h => by
    simp [reencOkFields] at h
    have ih := re_val fo h1 h2 t h.1
    have ihl := re_fields fo h1 h2 fs h.2
    intro kvs bs rest acc hw hs
    simp only [dynSerFields] at hs
    split at hs <;> (try simp at hs)
    rename_i v hget
    split at hs <;> (try simp at hs)
    rename_i a ha
    split at hs <;> simp at hs
    rename_i b hb
    subst hs
    obtain ⟨v', hd, hs', _⟩ := ih v a (b ++ rest) (wfKvs_get hw hget) ha
    obtain ⟨vs', hl, hds, hss⟩ := ihl kvs b rest (objInsert n v' acc) hw hb
    refine ⟨v' :: vs', by simp [hl], ?_, ?_⟩
    · simp [dynDeFields, hd, hds, sfieldNames, zipNames, objInsertAll]
    · intro obj hg
      simp only [sfieldNames, GetsAll] at hg
      simp [dynSerFields, hg.1, hs', hss obj hg.2]
theorem re_data (fo : FloatOps) (h1 : FloatOk fo) (h2 : FloatOk2 fo) :
    (d : SData) → reencOkData d = true → RED fo d
  | .unit, _ => trivial
  | .newtype t, h => by simp only [reencOkData] at h; exact re_val fo h1 h2 t h
  | .tuple ts, h => by simp only [reencOkData] at h; exact re_list fo h1 h2 ts h
  | .struct fs, h => by
    simp [reencOkData] at h
    exact ⟨h.1, re_fields fo h1 h2 fs h.2⟩
theorem re_variants (fo : FloatOps) (h1 : FloatOk fo) (h2 : FloatOk2 fo) :
    (vs : List SVariant) → reencOkVariants vs = true → ∀ (name : Name) (k i : Nat) (d : SData),
      findVariant vs name k = some (i, d) → RED fo d
  | [], _, _, _, _, _, hf => by simp [findVariant] at hf
  | .mk n d' :: rest, h, name, k, i, d, hf => by
    simp [reencOkVariants] at h
    simp only [findVariant] at hf
    split at hf
    · simp at hf; obtain ⟨_, rfl⟩ := hf
      exact re_data fo h1 h2 d' h.1
    · exact re_variants fo h1 h2 rest h.2 name (k + 1) i d hf
end

end Postcard.Dyn

namespace Postcard

/-! ## L. allocation bound on the fragment without zero-width `Seq` elements -/

-- `minWidth` (and its list/data/fields siblings) is defined in Model/DynCost.lean

mutual
/-- `allocFrag s`: every `Seq` element type has positive minimum width (`0 < minWidth t`), and the
schema has no `Enum`, `Map` or `Schema` node (restriction of the PROOF, not a finding; see TODO). -/
def allocFrag : Schema → Bool
  | .option t => allocFrag t
  | .seq t => decide (0 < minWidth t) && allocFrag t
  | .tuple ts => allocFragList ts
  | .map _ _ => false
  | .struct _ d => allocFragData d
  | .enum _ _ => false
  | .schema => false
  | _ => true
def allocFragList : List Schema → Bool
  | [] => true
  | t :: ts => allocFrag t && allocFragList ts
def allocFragData : SData → Bool
  | .unit => true
  | .newtype t => allocFrag t
  | .tuple ts => allocFragList ts
  | .struct fs => allocFragFields fs
def allocFragFields : List SField → Bool
  | [] => true
  | .mk _ t :: fs => allocFrag t && allocFragFields fs
end

mutual
/-- the constant of the bound: `allocDyn fo s bs ≤ allocW s * (bs.length + 1)`.  Linear in the
size of the schema and its field names, doubled by every `Seq` nesting level. -/
def allocW : Schema → Nat
  | .option t => allocW t
  | .seq t => 2 * allocW t + 1
  | .tuple ts => allocWList ts + 1
  | .struct _ d => allocWData d
  | _ => 1
def allocWList : List Schema → Nat
  | [] => 0
  | t :: ts => allocW t + allocWList ts
def allocWData : SData → Nat
  | .unit => 1
  | .newtype t => allocW t
  | .tuple ts => allocWList ts + 1
  | .struct fs => allocWFields fs + 1
def allocWFields : List SField → Nat
  | [] => 0
  | .mk n t :: fs => allocW t + n.length + 1 + allocWFields fs
end

end Postcard

namespace Postcard.Dyn

theorem allocW_pos : ∀ s : Schema, 1 ≤ allocW s
  | .option t => by simp [allocW]; exact allocW_pos t
  | .seq t => by simp [allocW]
  | .tuple ts => by simp [allocW]
  | .struct _ .unit => by simp [allocW, allocWData]
  | .struct _ (.newtype t) => by simp [allocW, allocWData]; exact allocW_pos t
  | .struct _ (.tuple ts) => by simp [allocW, allocWData]
  | .struct _ (.struct fs) => by simp [allocW, allocWData]
  | .bool | .i8 | .u8 | .i16 | .i32 | .i64 | .i128 | .u16 | .u32 | .u64 | .u128 | .usize | .isize
  | .f32 | .f64 | .char | .string | .byteArray | .unit | .map _ _ | .enum _ _ | .schema => by
    simp [allocW]

/-- result `res` of a decoder run on `len` bytes with allocation `cost`: on success at least
`mw` bytes were consumed and `cost ≤ w * (consumed + 1)`; on failure `cost ≤ w * (len + 1)`. -/
def ABG {α : Type} (res : DR (α × List Byte)) (cost w mw len : Nat) : Prop :=
  match res with
  | .ok (_, r) => r.length + mw ≤ len ∧ cost ≤ w * (len - r.length + 1)
  | .error _ => cost ≤ w * (len + 1)

theorem ABG_ok {α : Type} {a : α} {r : List Byte} {cost w mw len : Nat} (h1 : r.length + mw ≤ len)
    (h2 : cost ≤ w * (len - r.length + 1)) : ABG (.ok (a, r)) cost w mw len := ⟨h1, h2⟩

theorem ABG_err {α : Type} {e : DynErr} {cost w mw len : Nat} (h : cost ≤ w * (len + 1)) :
    ABG (.error e : DR (α × List Byte)) cost w mw len := h

/-- the bound in the form of the property, from `ABG`. -/
theorem ABG_le {α : Type} {res : DR (α × List Byte)} {cost w mw len : Nat} (h : ABG res cost w mw len) :
    cost ≤ w * (len + 1) := by
  unfold ABG at h
  split at h
  · exact Nat.le_trans h.2 (Nat.mul_le_mul_left _ (by omega))
  · exact h

theorem dynTakeOne_len {bs r : List Byte} {b : Byte} (h : dynTakeOne bs = .ok (b, r)) :
    bs.length = r.length + 1 := by
  cases bs <;> simp [dynTakeOne] at h
  obtain ⟨_, rfl⟩ := h; simp

theorem dynTakeVarint_len {bits n : Nat} {bs r : List Byte} (h : dynTakeVarint bits bs = .ok (n, r)) :
    r.length + 1 ≤ bs.length := by
  rw [dynTakeVarint_eq] at h
  cases hd : decVarint bits bs with
  | error e => rw [hd] at h; cases e <;> simp [liftVarintErr] at h
  | ok p =>
    rw [hd] at h
    simp [liftVarintErr] at h
    subst h
    have := decVarint_pos hd
    omega

theorem dynTakeN_len {n : Nat} {bs s r : List Byte} (h : dynTakeN n bs = .ok (s, r)) :
    bs.length = n + r.length ∧ s.length = n := by
  unfold dynTakeN at h
  split at h
  · cases h
  · simp at h
    obtain ⟨rfl, rfl⟩ := h
    simp; omega

theorem mul_succ_le {w c : Nat} (hc : 1 ≤ c) : w * (c + 1) ≤ 2 * w * c := by
  have : w ≤ w * c := Nat.le_mul_of_pos_right _ hc
  rw [Nat.mul_add, Nat.mul_one, Nat.mul_assoc, Nat.two_mul]
  omega

theorem add_bound {a b w1 w2 x y z : Nat} (ha : a ≤ w1 * (x + 1)) (hb : b ≤ w2 * (y + 1))
    (hx : x ≤ z) (hy : y ≤ z) : a + b ≤ (w1 + w2) * (z + 1) := by
  have h1 : w1 * (x + 1) ≤ w1 * (z + 1) := Nat.mul_le_mul_left _ (by omega)
  have h2 : w2 * (y + 1) ≤ w2 * (z + 1) := Nat.mul_le_mul_left _ (by omega)
  rw [Nat.add_mul]
  omega

/-- one-`Value` kinds: `allocDyn = allocLeaf (dynDe …)`, weight 1. -/
theorem ABG_leaf {fo : FloatOps} {s : Schema} {bs : List Byte} {mw : Nat}
    (hmw : ∀ j r, dynDe fo s bs = .ok (j, r) → r.length + mw ≤ bs.length) :
    ABG (dynDe fo s bs) (allocLeaf (dynDe fo s bs)) 1 mw bs.length := by
  cases hd : dynDe fo s bs with
  | error e => simp [ABG, allocLeaf]
  | ok p =>
    obtain ⟨j, r⟩ := p
    exact ABG_ok (hmw j r hd) (by simp [allocLeaf])

end Postcard.Dyn

namespace Postcard.Dyn

theorem ABG_shift {α : Type} {res : DR (α × List Byte)} {cost w mw len : Nat}
    (h : ABG res cost w mw len) : ABG res cost w 1 (len + 1) := by
  unfold ABG at h ⊢
  split
  · rename_i a r
    simp only at h
    refine ⟨by omega, Nat.le_trans h.2 (Nat.mul_le_mul_left _ (by omega))⟩
  · simp only at h
    exact Nat.le_trans h (Nat.mul_le_mul_left _ (by omega))

theorem seq_step {a b w c y z : Nat} (hc : 1 ≤ c) (ha : a ≤ w * (c + 1)) (hb : b ≤ 2 * w * (y + 1))
    (hz : z = c + y) : a + b ≤ 2 * w * (z + 1) := by
  have := mul_succ_le (w := w) hc
  subst hz
  rw [show c + y + 1 = c + (y + 1) by omega, Nat.mul_add]
  omega

theorem list_step {a b w1 w2 c y z : Nat} (ha : a ≤ w1 * (c + 1)) (hb : b ≤ w2 * (y + 1))
    (hz : z = c + y) : a + b ≤ (w1 + w2) * (z + 1) :=
  add_bound ha hb (by omega) (by omega)

theorem fields_step {a b w1 w2 k c y z : Nat} (ha : a ≤ w1 * (c + 1)) (hb : b ≤ w2 * (y + 1))
    (hz : z = c + y) : a + (k + 1 + b) ≤ (w1 + k + 1 + w2) * (z + 1) := by
  have h1 := list_step ha hb hz
  have h2 : k + 1 ≤ (k + 1) * (z + 1) := Nat.le_mul_of_pos_right _ (by omega)
  rw [show w1 + k + 1 + w2 = (w1 + w2) + (k + 1) by omega, Nat.add_mul]
  omega

/-- unfold the arm of `allocDyn` for the constructor at hand (the catch-all arm's equation has
side conditions "is none of the earlier constructors"). -/
macro "alloc_unfold" : tactic => `(tactic| (rw [allocDyn] <;> try (intro a; first | (cases a; done) | (intro b; first | (cases b; done) | (intro c; cases c)))))

syntax "leaf_len" : tactic
macro_rules
  | `(tactic| leaf_len) => `(tactic|
    (intro j r h
     rw [dynDe] at h
     split at h
     · cases h
     · rename_i hx
       first
       | (have hl1 := dynTakeOne_len hx
          try dsimp only at h
          (repeat' split at h) <;> (cases h) <;> (simp [minWidth] <;> omega))
       | (have hl1 := dynTakeVarint_len hx
          try dsimp only at h
          (repeat' split at h) <;> (cases h) <;> (simp [minWidth] <;> omega))
       | (have hl1 := (dynTakeN_len hx).1
          try dsimp only at h
          (repeat' split at h) <;> (cases h) <;> (simp [minWidth] <;> omega))))

theorem abN (fo : FloatOps) (t : Schema) (hpos : 0 < minWidth t)
    (ih : ∀ bs, ABG (dynDe fo t bs) (allocDyn fo t bs) (allocW t) (minWidth t) bs.length) :
    ∀ (n : Nat) (bs : List Byte),
      ABG (deN (dynDe fo t) n bs) (allocN (allocDyn fo t) (dynDe fo t) n bs) (2 * allocW t) 0 bs.length
  | 0, bs => by simp [deN, allocN, ABG]
  | n + 1, bs => by
    have h1 := ih bs
    simp only [deN, allocN]
    cases hd : dynDe fo t bs with
    | error e =>
      rw [hd] at h1; simp only [ABG] at h1 ⊢
      rw [Nat.mul_assoc, Nat.two_mul]; omega
    | ok p =>
      obtain ⟨v, r⟩ := p
      rw [hd] at h1; simp only [ABG] at h1
      have h2 := abN fo t hpos ih n r
      dsimp only
      cases hd2 : deN (dynDe fo t) n r with
      | error e =>
        rw [hd2] at h2; simp only [ABG] at h2 ⊢
        exact seq_step (c := bs.length - r.length) (y := r.length) (by omega) h1.2 h2 (by omega)
      | ok q =>
        obtain ⟨vs, r'⟩ := q
        rw [hd2] at h2; simp only [ABG] at h2 ⊢
        refine ⟨by omega, ?_⟩
        exact seq_step (c := bs.length - r.length) (y := r.length - r'.length) (by omega) h1.2 h2.2 (by omega)

theorem ab_str (fo : FloatOps) (s : Schema) (bs : List Byte)
    (hd : ∀ j r, dynDe fo s bs = .ok (j, r) → ∃ u, j = .str u ∧ r.length + 1 + u.length ≤ bs.length)
    (ha : allocDyn fo s bs = match dynDe fo s bs with | .ok (.str u, _) => 1 + u.length | _ => 0) :
    ABG (dynDe fo s bs) (allocDyn fo s bs) 1 1 bs.length := by
  rw [ha]
  cases h : dynDe fo s bs with
  | error e => simp [ABG]
  | ok p =>
    obtain ⟨j, r⟩ := p
    obtain ⟨u, rfl, hl⟩ := hd j r h
    exact ABG_ok (by omega) (by simp; omega)

theorem de_string_len (fo : FloatOps) (bs : List Byte) (j : Json) (r : List Byte)
    (h : dynDe fo .string bs = .ok (j, r)) : ∃ u, j = .str u ∧ r.length + 1 + u.length ≤ bs.length := by
  rw [dynDe] at h
  split at h
  · cases h
  · rename_i n rest hv
    split at h
    · cases h
    · rename_i u rest' hn
      have h1 := dynTakeVarint_len hv
      have h2 := dynTakeN_len hn
      split at h
      · simp at h; obtain ⟨rfl, rfl⟩ := h; exact ⟨u, rfl, by omega⟩
      · cases h

theorem de_char_len (fo : FloatOps) (bs : List Byte) (j : Json) (r : List Byte)
    (h : dynDe fo .char bs = .ok (j, r)) : ∃ u, j = .str u ∧ r.length + 1 + u.length ≤ bs.length := by
  rw [dynDe] at h
  split at h
  · cases h
  · rename_i n rest hv
    split at h
    · cases h
    · rename_i u rest' hn
      have h1 := dynTakeVarint_len hv
      have h2 := dynTakeN_len hn
      split at h
      · split at h
        · simp at h; obtain ⟨rfl, rfl⟩ := h; exact ⟨u, rfl, by omega⟩
        · cases h
      · cases h

theorem ab_byteArray (fo : FloatOps) (bs : List Byte) :
    ABG (dynDe fo .byteArray bs) (allocDyn fo .byteArray bs) 1 1 bs.length := by
  rw [allocDyn]
  cases h : dynDe fo .byteArray bs with
  | error e => simp [ABG]
  | ok p =>
    obtain ⟨j, r⟩ := p
    rw [dynDe] at h
    split at h
    · cases h
    · rename_i n rest hv
      split at h
      · cases h
      · rename_i u rest' hn
        have h1 := dynTakeVarint_len hv
        have h2 := dynTakeN_len hn
        simp at h; obtain ⟨rfl, rfl⟩ := h
        exact ABG_ok (by omega) (by simp; omega)

mutual
theorem ab_val (fo : FloatOps) : (s : Schema) → allocFrag s = true → ∀ bs : List Byte,
    ABG (dynDe fo s bs) (allocDyn fo s bs) (allocW s) (minWidth s) bs.length
  | .bool, _, bs => by alloc_unfold; exact ABG_leaf (by leaf_len)
  | .i8, _, bs => by alloc_unfold; exact ABG_leaf (by leaf_len)
  | .u8, _, bs => by alloc_unfold; exact ABG_leaf (by leaf_len)
  | .i16, _, bs => by alloc_unfold; exact ABG_leaf (by leaf_len)
  | .i32, _, bs => by alloc_unfold; exact ABG_leaf (by leaf_len)
  | .i64, _, bs => by alloc_unfold; exact ABG_leaf (by leaf_len)
  | .i128, _, bs => by alloc_unfold; exact ABG_leaf (by leaf_len)
  | .u16, _, bs => by alloc_unfold; exact ABG_leaf (by leaf_len)
  | .u32, _, bs => by alloc_unfold; exact ABG_leaf (by leaf_len)
  | .u64, _, bs => by alloc_unfold; exact ABG_leaf (by leaf_len)
  | .u128, _, bs => by alloc_unfold; exact ABG_leaf (by leaf_len)
  | .usize, _, bs => by alloc_unfold; exact ABG_leaf (by leaf_len)
  | .isize, _, bs => by alloc_unfold; exact ABG_leaf (by leaf_len)
  | .f32, _, bs => by alloc_unfold; exact ABG_leaf (by leaf_len)
  | .f64, _, bs => by alloc_unfold; exact ABG_leaf (by leaf_len)
  | .unit, _, bs => by
    alloc_unfold; exact ABG_leaf (by intro j r h; rw [dynDe] at h; simp at h; obtain ⟨_, rfl⟩ := h; simp [minWidth])
  | .struct _ .unit, _, bs => by
    alloc_unfold
    exact ABG_leaf (by intro j r h; rw [dynDe] at h; simp at h; obtain ⟨_, rfl⟩ := h; simp [minWidth, minWidthData])
  | .char, _, bs => ab_str fo .char bs (de_char_len fo bs) (by rw [allocDyn]; rfl)
  | .string, _, bs => ab_str fo .string bs (de_string_len fo bs) (by rw [allocDyn]; rfl)
  | .byteArray, _, bs => ab_byteArray fo bs
  | .option t, h, bs => by
    simp only [allocFrag] at h
    have ih := ab_val fo t h
    simp only [allocW, minWidth]
    match bs with
    | [] => simp [allocDyn, dynDe, dynTakeOne, ABG]
    | b :: rest =>
      rw [allocDyn, dynDe]; simp only [dynTakeOne]
      by_cases hb0 : b = 0
      · have := allocW_pos t
        simp only [hb0, if_true, ABG]
        refine ⟨by simp, ?_⟩
        exact Nat.le_trans this (Nat.le_mul_of_pos_right _ (by omega))
      · by_cases hb1 : b = 1
        · simp only [hb0, hb1, if_true, if_false]
          exact ABG_shift (ih rest)
        · simp [hb0, hb1, ABG]
  | .struct _ (.newtype t), h, bs => by
    simp only [allocFrag, allocFragData] at h
    rw [allocDyn, dynDe]
    simp only [allocW, allocWData, minWidth, minWidthData]
    exact ab_val fo t h bs
  | .seq t, h, bs => by
    simp [allocFrag] at h
    have ih := ab_val fo t h.2
    rw [allocDyn]
    simp only [allocW, minWidth]
    cases hv : dynTakeVarint 64 bs with
    | error e => simp [dynDe, hv, ABG]
    | ok p =>
      obtain ⟨n, rest⟩ := p
      have hl := dynTakeVarint_len hv
      have hN := abN fo t h.1 ih n rest
      simp only [dynDe, hv]
      cases hd : deN (dynDe fo t) n rest with
      | error e =>
        rw [hd] at hN; simp only [ABG, allocLeaf] at hN ⊢
        have : 2 * allocW t * (rest.length + 1) ≤ 2 * allocW t * (bs.length + 1) :=
          Nat.mul_le_mul_left _ (by omega)
        rw [Nat.add_mul]; omega
      | ok q =>
        obtain ⟨vs, r'⟩ := q
        rw [hd] at hN; simp only [ABG, allocLeaf] at hN ⊢
        refine ⟨by omega, ?_⟩
        have : 2 * allocW t * (rest.length - r'.length + 1) ≤ 2 * allocW t * (bs.length - r'.length + 1) :=
          Nat.mul_le_mul_left _ (by omega)
        rw [Nat.add_mul]; omega
  | .tuple ts, h, bs => by
    simp only [allocFrag] at h
    have ihl := ab_list fo ts h bs
    rw [allocDyn, dynDe]
    simp only [allocW, minWidth]
    cases hd : dynDeList fo ts bs with
    | error e =>
      rw [hd] at ihl; simp only [ABG, allocLeaf] at ihl ⊢
      rw [Nat.add_mul]; omega
    | ok q =>
      obtain ⟨vs, r'⟩ := q
      rw [hd] at ihl; simp only [ABG, allocLeaf] at ihl ⊢
      refine ⟨ihl.1, ?_⟩
      rw [Nat.add_mul]; omega
  | .struct _ (.tuple ts), h, bs => by
    simp only [allocFrag, allocFragData] at h
    have ihl := ab_list fo ts h bs
    rw [allocDyn, dynDe]
    simp only [allocW, allocWData, minWidth, minWidthData]
    cases hd : dynDeList fo ts bs with
    | error e =>
      rw [hd] at ihl; simp only [ABG, allocLeaf] at ihl ⊢
      rw [Nat.add_mul]; omega
    | ok q =>
      obtain ⟨vs, r'⟩ := q
      rw [hd] at ihl; simp only [ABG, allocLeaf] at ihl ⊢
      refine ⟨ihl.1, ?_⟩
      rw [Nat.add_mul]; omega
  | .struct _ (.struct fs), h, bs => by
    simp only [allocFrag, allocFragData] at h
    have ihl := ab_fields fo fs h [] bs
    rw [allocDyn, dynDe]
    simp only [allocW, allocWData, minWidth, minWidthData]
    cases hd : dynDeFields fo fs [] bs with
    | error e =>
      rw [hd] at ihl; simp only [ABG, allocLeaf] at ihl ⊢
      rw [Nat.add_mul]; omega
    | ok q =>
      obtain ⟨vs, r'⟩ := q
      rw [hd] at ihl; simp only [ABG, allocLeaf] at ihl ⊢
      refine ⟨ihl.1, ?_⟩
      rw [Nat.add_mul]; omega
  | .map _ _, h, _ => by simp [allocFrag] at h
  | .enum _ _, h, _ => by simp [allocFrag] at h
  | .schema, h, _ => by simp [allocFrag] at h
theorem ab_list (fo : FloatOps) : (ts : List Schema) → allocFragList ts = true → ∀ bs : List Byte,
    ABG (dynDeList fo ts bs) (allocList fo ts bs) (allocWList ts) (minWidthList ts) bs.length
  | [], _, bs => by simp [dynDeList, allocList, ABG, minWidthList]
  | t :: ts, h, bs => by
    simp [allocFragList] at h
    have h1 := ab_val fo t h.1 bs
    simp only [dynDeList, allocList, allocWList, minWidthList]
    cases hd : dynDe fo t bs with
    | error e =>
      rw [hd] at h1; simp only [ABG] at h1 ⊢
      rw [Nat.add_mul]; omega
    | ok p =>
      obtain ⟨v, r⟩ := p
      rw [hd] at h1; simp only [ABG] at h1
      have h2 := ab_list fo ts h.2 r
      dsimp only
      cases hd2 : dynDeList fo ts r with
      | error e =>
        rw [hd2] at h2; simp only [ABG] at h2 ⊢
        exact list_step (c := bs.length - r.length) (y := r.length) h1.2 h2 (by omega)
      | ok q =>
        obtain ⟨vs, r'⟩ := q
        rw [hd2] at h2; simp only [ABG] at h2 ⊢
        refine ⟨by omega, ?_⟩
        exact list_step (c := bs.length - r.length) (y := r.length - r'.length) h1.2 h2.2 (by omega)
theorem ab_fields (fo : FloatOps) : (fs : List SField) → allocFragFields fs = true →
    ∀ (acc : List (List Byte × Json)) (bs : List Byte),
    ABG (dynDeFields fo fs acc bs) (allocFields fo fs bs) (allocWFields fs) (minWidthFields fs) bs.length
  | [], _, acc, bs => by simp [dynDeFields, allocFields, ABG, minWidthFields]
  | .mk name t :: fs, h, acc, bs => by
    simp [allocFragFields] at h
    have h1 := ab_val fo t h.1 bs
    simp only [dynDeFields, allocFields, allocWFields, minWidthFields]
    cases hd : dynDe fo t bs with
    | error e =>
      rw [hd] at h1; simp only [ABG] at h1 ⊢
      have : allocW t * (bs.length + 1) ≤ (allocW t + name.length + 1 + allocWFields fs) * (bs.length + 1) :=
        Nat.mul_le_mul_right _ (by omega)
      omega
    | ok p =>
      obtain ⟨v, r⟩ := p
      rw [hd] at h1; simp only [ABG] at h1
      have h2 := ab_fields fo fs h.2 (objInsert name v acc) r
      dsimp only
      cases hd2 : dynDeFields fo fs (objInsert name v acc) r with
      | error e =>
        rw [hd2] at h2; simp only [ABG] at h2 ⊢
        exact fields_step (c := bs.length - r.length) (y := r.length) h1.2 h2 (by omega)
      | ok q =>
        obtain ⟨vs, r'⟩ := q
        rw [hd2] at h2; simp only [ABG] at h2 ⊢
        refine ⟨by omega, ?_⟩
        exact fields_step (c := bs.length - r.length) (y := r.length - r'.length) h1.2 h2.2 (by omega)
end

end Postcard.Dyn

namespace Postcard
open Dyn

/-! ## M. C18 — the property theorems -/

/-- C18 totality, FULL: for EVERY schema, JSON value (even ill-formed) and byte string, neither
direction panics.  (No `todo!()` is left; the only `.panic` in the model is the fuel of
`decOwned`, unreachable by `Dyn.decOwnedBytes_no_panic`.)

NOTE (unrepaired finding, outside the model): the statement is relative to an unbounded
stack.  On the real crate the `Schema` kind decodes a schema VALUE recursively
(`postcard::take_from_bytes::<OwnedDataModelType>`, `serde_json::to_value`, `Drop`), without
a depth limit: `from_slice_dyn(&Schema, [18; N] ++ [0])` (N nested `Option`s) aborts the
process with a stack overflow for N ≈ 4.5k (debug) / 30k (release) on an 8 MiB stack. -/
theorem dyn_total (fo : FloatOps) (s : Schema) (j : Json) (bs : List Byte) :
    dynSer fo s j ≠ .error .panic ∧ dynDe fo s bs ≠ .error .panic :=
  ⟨np_ser fo s j, np_de fo s bs⟩

theorem dyn_ser_total (fo : FloatOps) (s : Schema) (j : Json) : dynSer fo s j ≠ .error .panic :=
  np_ser fo s j

theorem dyn_de_total (fo : FloatOps) (s : Schema) (bs : List Byte) : dynDe fo s bs ≠ .error .panic :=
  np_de fo s bs

/-- the public entry points never panic either. -/
theorem fromSliceDyn_total (fo : FloatOps) (s : Schema) (bs : List Byte) :
    fromSliceDyn fo s bs ≠ .error .panic := by
  have := np_de fo s bs
  unfold fromSliceDyn
  split
  · rename_i e he; intro h'; cases h'; exact this he
  · simp

theorem toStdvecDyn_total (fo : FloatOps) (s : Schema) (j : Json) :
    toStdvecDyn fo s j ≠ .error .panic := np_ser fo s j

/-- `postcard::take_from_bytes::<OwnedDataModelType>` as modelled never exhausts its fuel. -/
theorem decOwnedBytes_total (bs : List Byte) : decOwnedBytes bs ≠ .error .panic :=
  decOwnedBytes_no_panic bs

/-- C18 re-encoding on the domain `reencOk s` (see its doc comment: everything except
`Option(t)` with `nullHazard t` and structs with duplicate field names — both refuted on
the full domain, `dyn_reencode_false`), for well-formed JSON (`Json.wf`: what a
`serde_json::Value` can be) and float conversions that round-trip f32 → f64 → f32, send
integers to finite f64s and `as f32` to f32 bit patterns.  Includes the `Schema` kind. -/
theorem dyn_reencode_partial (fo : FloatOps) (h1 : FloatOk fo) (h2 : FloatOk2 fo) (s : Schema)
    (j : Json) (bs : List Byte) (hs : reencOk s = true) (hw : j.wf fo = true)
    (h : dynSer fo s j = .ok bs) :
    ∃ j', dynDe fo s bs = .ok (j', []) ∧ dynSer fo s j' = .ok bs := by
  obtain ⟨j', hd, hs', _⟩ := re_val fo h1 h2 s hs j bs [] hw h
  exact ⟨j', by simpa using hd, hs'⟩

/-- the same with trailing bytes: the decoder consumes exactly the encoder's output. -/
theorem dyn_reencode_partial_rest (fo : FloatOps) (h1 : FloatOk fo) (h2 : FloatOk2 fo) (s : Schema)
    (j : Json) (bs rest : List Byte) (hs : reencOk s = true) (hw : j.wf fo = true)
    (h : dynSer fo s j = .ok bs) :
    ∃ j', dynDe fo s (bs ++ rest) = .ok (j', rest) ∧ dynSer fo s j' = .ok bs := by
  obtain ⟨j', hd, hs', _⟩ := re_val fo h1 h2 s hs j bs rest hw h
  exact ⟨j', hd, hs'⟩

/-- a `FloatOps` satisfying `FloatOk` and `FloatOk2` (non-vacuity; used by the refutations). -/
def foOk : FloatOps := ⟨fun b => b % 2 ^ 32, id, fun _ => 0, fun _ => 0, fun _ => true, fun _ => true⟩
theorem foOk_ok : FloatOk foOk := ⟨fun b hb _ => Nat.mod_eq_of_lt hb, fun _ _ _ => rfl⟩
theorem foOk_ok2 : FloatOk2 foOk :=
  ⟨fun _ => ⟨by show (0 : Nat) < 2 ^ 64; decide, rfl⟩, fun _ => ⟨by show (0 : Nat) < 2 ^ 64; decide, rfl⟩,
    fun b => Nat.mod_lt _ (by decide)⟩

/-- UNREPAIRED: the full re-encoding statement is false — `Option(Unit)` with the JSON value `5`
(`[1]` decodes to `null`, which re-encodes to `[0]`). -/
theorem dyn_reencode_false :
    ¬ (∀ (fo : FloatOps), FloatOk fo → FloatOk2 fo → ∀ (s : Schema) (j : Json) (bs : List Byte),
        j.wf fo = true → dynSer fo s j = .ok bs →
        ∃ j', dynDe fo s bs = .ok (j', []) ∧ dynSer fo s j' = .ok bs) := by
  intro h
  obtain ⟨j', hd, hs⟩ := h foOk foOk_ok foOk_ok2 (.option .unit) (.posInt 5) [1] (by decide) rfl
  have : dynDe foOk (.option .unit) [1] = .ok (.null, []) := rfl
  rw [this] at hd
  cases hd
  cases hs

/-- UNREPAIRED (hand-built schemas only): it is also false without any `Option`, for a struct
with two fields of the same name. -/
theorem dyn_reencode_false_dup_fields :
    ¬ (∀ (fo : FloatOps), FloatOk fo → FloatOk2 fo → ∀ (s : Schema) (j : Json) (bs : List Byte),
        (∀ t, s ≠ .option t) → j.wf fo = true → dynSer fo s j = .ok bs →
        ∃ j', dynDe fo s bs = .ok (j', []) ∧ dynSer fo s j' = .ok bs) := by
  intro h
  obtain ⟨j', hd, hs⟩ := h foOk foOk_ok foOk_ok2 (.struct [83] (.struct [.mk [97] .u8, .mk [97] .u8]))
    (.obj [([97], .posInt 1), ([98], .posInt 2)]) [1, 1] (by intro t ht; cases ht) (by decide) rfl
  have : dynDe foOk (.struct [83] (.struct [.mk [97] .u8, .mk [97] .u8])) [1, 1] =
      .ok (.obj [([97], .posInt 1)], []) := rfl
  rw [this] at hd
  cases hd
  cases hs

/-- the exclusions of `reencOk` are exactly these two shapes: examples inside / outside. -/
example : reencOk (.option .unit) = false ∧ reencOk (.option (.option .u8)) = true ∧
    reencOk (.struct [83] (.struct [.mk [97] .u8, .mk [97] .u8])) = false ∧
    reencOk (.tuple [.f32, .char, .schema, .tuple [], .tuple [.unit], .map .string (.seq .unit),
      .map .u8 .u8, .enum [69] [.mk [65] .unit, .mk [66] (.tuple []), .mk [67] (.struct [.mk [97] .i128])]])
      = true := by decide

end Postcard

namespace Postcard
open Dyn

/-- C18 allocation bound on the fragment `allocFrag s` (every `Seq` element type has positive
minimum encoded width; no `Enum`, `Map`, `Schema` node — the latter three only because the proof
is not extended to them, see TODO): what `deserialize(s, bs)` allocates (as `allocDyn` counts:
`Value`s, `String` bytes, map entries), whether it succeeds or fails, is at most
`K * bs.length + C` with the explicit constants `K = C = allocW s` (1 per scalar node, plus the
field names, doubled by each `Seq` level).  `alloc_seq_unit` / `dyn_alloc_bound_false` show that
the restriction on `Seq` elements is necessary (unrepaired finding). -/
theorem dyn_alloc_bound_partial_frag (fo : FloatOps) (s : Schema) (hs : allocFrag s = true)
    (bs : List Byte) : allocDyn fo s bs ≤ allocW s * bs.length + allocW s := by
  have := ABG_le (ab_val fo s hs bs)
  rw [Nat.mul_add, Nat.mul_one] at this
  exact this

/-- on the same fragment a successful decode consumes at least `minWidth s` bytes and never
returns more bytes than it was given. -/
theorem dyn_de_consumes_frag (fo : FloatOps) (s : Schema) (hs : allocFrag s = true)
    (bs : List Byte) (j : Json) (r : List Byte) (h : dynDe fo s bs = .ok (j, r)) :
    r.length + minWidth s ≤ bs.length := by
  have := ab_val fo s hs bs
  rw [h] at this
  exact this.1

example : allocW (.seq .u8) = 3 ∧ allocW (.seq (.seq .string)) = 7 ∧
    allocW (.struct [83] (.struct [.mk [97, 98] .u8, .mk [99] (.seq .bool)])) = 10 := by decide
example : allocFrag (.seq (.struct [83] (.struct [.mk [97] .u8, .mk [98] (.option (.tuple []))]))) = true ∧
    allocFrag (.seq .unit) = false ∧ allocFrag (.seq (.tuple [])) = false ∧
    allocFrag (.seq (.struct [83] .unit)) = false := by decide

/-
CLOSED since: `dyn_alloc_bound` (Props/C18Alloc.lean) extends the bound to `Map`, `Enum` and the
`Schema` kind under `minWidthPos s` ("every reachable `Seq` element type has `0 < minWidth`").

TODO (not proved):
* exact characterisation of the re-encoding failures (`reencOk s = false → ∃ j, …`); currently
  the two excluded shapes come with witnesses, not with a general converse.
-/

end Postcard
