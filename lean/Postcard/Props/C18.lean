import Postcard.Props.C17
/-
  Postcard.Props.C18 — "Dynamic codec is total on untrusted bytes, JSON and
  schemas": never panics; decoding allocates memory bounded by a constant
  multiple of the input length; whatever dynamic encoding accepts, dynamic
  decoding of the produced bytes succeeds and re-encodes to the same bytes.

  Result: all three parts are FALSE of the current code (section I: witnesses,
  confirmed on the real crate; `dyn_total_false`, `dyn_alloc_bound_false`,
  `dyn_reencode_false`).  Proved: `dyn_total_partial` (+ `…_panics_only_if`),
  `dyn_reencode_partial` on `reencOk`; the allocation bound is refuted for
  `Seq(zero-width)` and its restricted form is left as TODO (section L).
-/
set_option linter.unusedSimpArgs false
set_option linter.unusedVariables false

namespace Postcard

/-! ## G. totality (no panic) -/

mutual
/-- `noPanicKinds de s`: no `Schema` node (and, for decoding, no `Char` node) in a
position the codec can reach.  Map KEY schemas are only compared with
`String`, never traversed, so they are not restricted. -/
def noPanicKinds (de : Bool) : Schema → Bool
  | .schema => false
  | .char => !de
  | .option t => noPanicKinds de t
  | .seq t => noPanicKinds de t
  | .tuple ts => noPanicKindsList de ts
  | .map _ v => noPanicKinds de v
  | .struct _ d => noPanicKindsData de d
  | .enum _ vs => noPanicKindsVariants de vs
  | _ => true
def noPanicKindsList (de : Bool) : List Schema → Bool
  | [] => true
  | t :: ts => noPanicKinds de t && noPanicKindsList de ts
def noPanicKindsData (de : Bool) : SData → Bool
  | .unit => true
  | .newtype t => noPanicKinds de t
  | .tuple ts => noPanicKindsList de ts
  | .struct fs => noPanicKindsFields de fs
def noPanicKindsFields (de : Bool) : List SField → Bool
  | [] => true
  | .mk _ t :: fs => noPanicKinds de t && noPanicKindsFields de fs
def noPanicKindsVariants (de : Bool) : List SVariant → Bool
  | [] => true
  | .mk _ d :: vs => noPanicKindsData de d && noPanicKindsVariants de vs
end

/-- a result that is not a panic. -/
def NP {α : Type} (r : DR α) : Prop := r ≠ .error .panic

theorem NP_ok {α : Type} (a : α) : NP (Except.ok a : DR α) := by simp [NP]
theorem NP_err {α : Type} {e : DynErr} (h : e ≠ .panic) : NP (Except.error e : DR α) := by
  simp [NP, h]

theorem NP_of_eq {α β : Type} {x : DR α} {e : DynErr} (hx : NP x) (h : x = .error e) :
    NP (Except.error e : DR β) := by
  subst h; intro h'; apply hx; cases h'; rfl

/-- `np_bind h`: the goal is `NP (match x with | .error e => .error e | .ok a => …)` and
`h : NP x`; closes the error branch, leaves the ok branch. -/
syntax "np_bind " term : tactic
macro_rules
  | `(tactic| np_bind $h) => `(tactic| (split; (next _ heq => exact NP_of_eq $h heq)))

theorem getI_np (b : Nat) (j : Json) : NP (getI b j) := by
  unfold getI NP; split <;> (try split) <;> simp
theorem getU_np (b : Nat) (j : Json) : NP (getU b j) := by
  unfold getU NP; split <;> (try split) <;> simp
theorem asI64R_np (j : Json) : NP (asI64R j) := by
  unfold asI64R NP; split <;> simp
theorem asU64R_np (j : Json) : NP (asU64R j) := by
  unfold asU64R NP; split <;> simp
theorem serStr_np (j : Json) : NP (serStr j) := by
  unfold serStr NP; split <;> simp
theorem serByteElems_np : ∀ xs : List Json, NP (serByteElems xs)
  | [] => NP_ok _
  | x :: xs => by
    unfold serByteElems
    np_bind (getU_np 8 x); np_bind (serByteElems_np xs); exact NP_ok _
theorem serAll_np {f : Json → DR (List Byte)} (hf : ∀ x, NP (f x)) : ∀ xs : List Json, NP (serAll f xs)
  | [] => NP_ok _
  | x :: xs => by
    unfold serAll
    np_bind (hf x); np_bind (serAll_np hf xs); exact NP_ok _
theorem serKvs_np {f : Json → DR (List Byte)} (hf : ∀ x, NP (f x)) :
    ∀ kvs : List (List Byte × Json), NP (serKvs f kvs)
  | [] => NP_ok _
  | (k, v) :: rest => by
    unfold serKvs
    np_bind (hf v); np_bind (serKvs_np hf rest); exact NP_ok _
theorem dynSerUnitVariant_np : ∀ (vs : List SVariant) (k : Nat) (s : List Byte),
    NP (dynSerUnitVariant vs k s)
  | [], _, _ => by simp [dynSerUnitVariant, NP]
  | .mk n d :: rest, k, s => by
    unfold dynSerUnitVariant
    split
    · cases d <;> simp [NP]
    · exact dynSerUnitVariant_np rest (k + 1) s

theorem dynTakeOne_np (bs : List Byte) : NP (dynTakeOne bs) := by
  cases bs <;> simp [dynTakeOne, NP]
theorem dynTakeN_np (n : Nat) (bs : List Byte) : NP (dynTakeN n bs) := by
  unfold dynTakeN NP; split <;> simp
theorem dynTakeVarint_np (bits : Nat) (bs : List Byte) : NP (dynTakeVarint bits bs) := by
  rw [dynTakeVarint_eq]
  unfold liftVarintErr NP
  split <;> simp
theorem deN_np {f : List Byte → DR (Json × List Byte)} (hf : ∀ bs, NP (f bs)) :
    ∀ (n : Nat) (bs : List Byte), NP (deN f n bs)
  | 0, _ => NP_ok _
  | n + 1, bs => by
    unfold deN
    np_bind (hf bs); np_bind (deN_np hf n _); exact NP_ok _
theorem deKvs_np {f : List Byte → DR (Json × List Byte)} (hf : ∀ bs, NP (f bs)) :
    ∀ (n : Nat) (acc : List (List Byte × Json)) (bs : List Byte), NP (deKvs f n acc bs)
  | 0, _, _ => NP_ok _
  | n + 1, acc, bs => by
    unfold deKvs
    np_bind (dynTakeVarint_np 64 bs); np_bind (dynTakeN_np _ _)
    split
    · np_bind (hf _); exact deKvs_np hf n _ _
    · exact NP_err (by decide)

end Postcard
namespace Postcard

mutual
theorem np_ser (fo : FloatOps) : (s : Schema) → noPanicKinds false s = true → (j : Json) →
    NP (dynSer fo s j)
  | .bool, _, j => by unfold dynSer; split <;> simp [NP]
  | .i8, _, j => by unfold dynSer; np_bind (getI_np 8 j); exact NP_ok _
  | .u8, _, j => by unfold dynSer; np_bind (getU_np 8 j); exact NP_ok _
  | .i16, _, j => by unfold dynSer; np_bind (getI_np 16 j); exact NP_ok _
  | .i32, _, j => by unfold dynSer; np_bind (getI_np 32 j); exact NP_ok _
  | .i64, _, j => by unfold dynSer; np_bind (asI64R_np j); exact NP_ok _
  | .i128, _, j => by unfold dynSer; np_bind (asI64R_np j); exact NP_ok _
  | .u16, _, j => by unfold dynSer; np_bind (getU_np 16 j); exact NP_ok _
  | .u32, _, j => by unfold dynSer; np_bind (getU_np 32 j); exact NP_ok _
  | .u64, _, j => by unfold dynSer; np_bind (asU64R_np j); exact NP_ok _
  | .u128, _, j => by unfold dynSer; np_bind (asU64R_np j); exact NP_ok _
  | .usize, _, j => by unfold dynSer; np_bind (getU_np 64 j); exact NP_ok _
  | .isize, _, j => by unfold dynSer; np_bind (asI64R_np j); exact NP_ok _
  | .f32, _, j => by unfold dynSer; split <;> simp [NP]
  | .f64, _, j => by unfold dynSer; split <;> simp [NP]
  | .char, _, j => by unfold dynSer; exact serStr_np j
  | .string, _, j => by unfold dynSer; exact serStr_np j
  | .byteArray, _, j => by
    unfold dynSer; split
    · simp [NP]
    · np_bind (serByteElems_np _); exact NP_ok _
  | .option t, h, j => by
    simp [noPanicKinds] at h
    unfold dynSer; split
    · exact NP_ok _
    · np_bind (np_ser fo t h j); exact NP_ok _
  | .unit, _, j => by unfold dynSer; exact NP_ok _
  | .seq t, h, j => by
    simp [noPanicKinds] at h
    unfold dynSer; split
    · simp [NP]
    · np_bind (serAll_np (np_ser fo t h) _); exact NP_ok _
  | .tuple [], _, j => by
    unfold dynSer; split
    · simp [NP]
    · split
      · simp [NP]
      · simp [dynSerZip, NP]
  | .tuple [t], h, j => by
    simp [noPanicKinds, noPanicKindsList] at h
    unfold dynSer; exact np_ser fo t h j
  | .tuple (t :: t' :: ts), h, j => by
    simp only [noPanicKinds] at h
    unfold dynSer; split
    · simp [NP]
    · split
      · simp [NP]
      · exact np_zip fo _ h _
  | .map k v, h, j => by
    simp [noPanicKinds] at h
    unfold dynSer; split
    · split
      · simp [NP]
      · np_bind (serKvs_np (np_ser fo v h) _); exact NP_ok _
    · simp [NP]
  | .struct _ .unit, _, j => by unfold dynSer; exact NP_ok _
  | .struct _ (.newtype t), h, j => by
    simp [noPanicKinds, noPanicKindsData] at h
    unfold dynSer; exact np_ser fo t h j
  | .struct _ (.tuple []), _, j => by
    unfold dynSer; split
    · simp [NP]
    · split
      · simp [NP]
      · simp [dynSerZip, NP]
  | .struct _ (.tuple [t]), h, j => by
    simp [noPanicKinds, noPanicKindsData, noPanicKindsList] at h
    unfold dynSer; exact np_ser fo t h j
  | .struct _ (.tuple (t :: t' :: ts)), h, j => by
    simp only [noPanicKinds, noPanicKindsData] at h
    unfold dynSer; split
    · simp [NP]
    · split
      · simp [NP]
      · exact np_zip fo _ h _
  | .struct _ (.struct fs), h, j => by
    simp only [noPanicKinds, noPanicKindsData] at h
    unfold dynSer; split
    · simp [NP]
    · split
      · simp [NP]
      · exact np_fields fo fs h _
  | .enum _ vs, h, j => by
    simp only [noPanicKinds] at h
    unfold dynSer; split
    · exact dynSerUnitVariant_np _ _ _
    · split
      · exact np_variant fo vs h _ _ _
      · simp [NP]
      · simp [NP]
  | .schema, h, _ => by simp [noPanicKinds] at h
theorem np_zip (fo : FloatOps) : (ts : List Schema) → noPanicKindsList false ts = true →
    (xs : List Json) → NP (dynSerZip fo ts xs)
  | [], _, _ => by simp [dynSerZip, NP]
  | _ :: _, _, [] => by simp [dynSerZip, NP]
  | t :: ts, h, x :: xs => by
    simp [noPanicKindsList] at h
    unfold dynSerZip
    np_bind (np_ser fo t h.1 x); np_bind (np_zip fo ts h.2 xs); exact NP_ok _
theorem np_fields (fo : FloatOps) : (fs : List SField) → noPanicKindsFields false fs = true →
    (kvs : List (List Byte × Json)) → NP (dynSerFields fo fs kvs)
  | [], _, _ => by simp [dynSerFields, NP]
  | .mk n t :: fs, h, kvs => by
    simp [noPanicKindsFields] at h
    unfold dynSerFields
    split
    · simp [NP]
    · np_bind (np_ser fo t h.1 _); np_bind (np_fields fo fs h.2 kvs); exact NP_ok _
theorem np_variant (fo : FloatOps) : (vs : List SVariant) → noPanicKindsVariants false vs = true →
    (idx : Nat) → (k : List Byte) → (v : Json) → NP (dynSerVariant fo vs idx k v)
  | [], _, _, _, _ => by simp [dynSerVariant, NP]
  | .mk n d :: rest, h, idx, k, v => by
    simp only [noPanicKindsVariants, Bool.and_eq_true] at h
    rw [dynSerVariant.eq_def]; dsimp only
    split
    · match d, h.1 with
      | .unit, _ => exact NP_ok _
      | .newtype t, hd =>
        simp only [noPanicKindsData] at hd
        dsimp only
        np_bind (np_ser fo t hd v); exact NP_ok _
      | .tuple [], _ =>
        dsimp only; split
        · simp [NP]
        · split
          · simp [NP]
          · simp [dynSerZip, NP]
      | .tuple [t], hd =>
        simp [noPanicKindsData, noPanicKindsList] at hd
        dsimp only
        np_bind (np_ser fo t hd v); exact NP_ok _
      | .tuple (t :: t' :: ts), hd =>
        simp only [noPanicKindsData] at hd
        dsimp only; split
        · simp [NP]
        · split
          · simp [NP]
          · np_bind (np_zip fo _ hd _); exact NP_ok _
      | .struct fs, hd =>
        simp only [noPanicKindsData] at hd
        dsimp only; split
        · simp [NP]
        · split
          · simp [NP]
          · np_bind (np_fields fo fs hd _); exact NP_ok _
    · exact np_variant fo rest h.2 _ _ _
end

end Postcard
namespace Postcard

mutual
theorem np_de (fo : FloatOps) : (s : Schema) → noPanicKinds true s = true → (bs : List Byte) →
    NP (dynDe fo s bs)
  | .bool, _, bs => by
    unfold dynDe; np_bind (dynTakeOne_np bs)
    split
    · exact NP_ok _
    · split <;> simp [NP]
  | .i8, _, bs => by unfold dynDe; np_bind (dynTakeOne_np bs); exact NP_ok _
  | .u8, _, bs => by unfold dynDe; np_bind (dynTakeOne_np bs); exact NP_ok _
  | .i16, _, bs => by unfold dynDe; np_bind (dynTakeVarint_np 16 bs); exact NP_ok _
  | .i32, _, bs => by unfold dynDe; np_bind (dynTakeVarint_np 32 bs); exact NP_ok _
  | .i64, _, bs => by unfold dynDe; np_bind (dynTakeVarint_np 64 bs); exact NP_ok _
  | .i128, _, bs => by
    unfold dynDe; np_bind (dynTakeVarint_np 128 bs)
    dsimp only; split <;> simp [NP]
  | .u16, _, bs => by unfold dynDe; np_bind (dynTakeVarint_np 16 bs); exact NP_ok _
  | .u32, _, bs => by unfold dynDe; np_bind (dynTakeVarint_np 32 bs); exact NP_ok _
  | .u64, _, bs => by unfold dynDe; np_bind (dynTakeVarint_np 64 bs); exact NP_ok _
  | .u128, _, bs => by
    unfold dynDe; np_bind (dynTakeVarint_np 128 bs)
    split <;> simp [NP]
  | .usize, _, bs => by unfold dynDe; np_bind (dynTakeVarint_np 64 bs); exact NP_ok _
  | .isize, _, bs => by unfold dynDe; np_bind (dynTakeVarint_np 64 bs); exact NP_ok _
  | .f32, _, bs => by
    unfold dynDe; np_bind (dynTakeN_np 4 bs)
    split <;> simp [NP]
  | .f64, _, bs => by
    unfold dynDe; np_bind (dynTakeN_np 8 bs)
    split <;> simp [NP]
  | .char, h, _ => by simp [noPanicKinds] at h
  | .string, _, bs => by
    unfold dynDe; np_bind (dynTakeVarint_np 64 bs); np_bind (dynTakeN_np _ _)
    split <;> simp [NP]
  | .byteArray, _, bs => by
    unfold dynDe; np_bind (dynTakeVarint_np 64 bs); np_bind (dynTakeN_np _ _); exact NP_ok _
  | .option t, h, bs => by
    simp [noPanicKinds] at h
    unfold dynDe; np_bind (dynTakeOne_np bs)
    split
    · exact NP_ok _
    · split
      · exact np_de fo t h _
      · simp [NP]
  | .unit, _, bs => by unfold dynDe; exact NP_ok _
  | .seq t, h, bs => by
    simp [noPanicKinds] at h
    unfold dynDe; np_bind (dynTakeVarint_np 64 bs)
    np_bind (deN_np (np_de fo t h) _ _); exact NP_ok _
  | .tuple [], _, bs => by unfold dynDe; exact NP_ok _
  | .tuple [t], h, bs => by
    simp [noPanicKinds, noPanicKindsList] at h
    unfold dynDe; exact np_de fo t h bs
  | .tuple (t :: t' :: ts), h, bs => by
    simp only [noPanicKinds] at h
    unfold dynDe; np_bind (np_deList fo _ h bs); exact NP_ok _
  | .map k v, h, bs => by
    simp [noPanicKinds] at h
    unfold dynDe; split
    · np_bind (dynTakeVarint_np 64 bs)
      np_bind (deKvs_np (np_de fo v h) _ _ _); exact NP_ok _
    · simp [NP]
  | .struct _ .unit, _, bs => by unfold dynDe; exact NP_ok _
  | .struct _ (.newtype t), h, bs => by
    simp [noPanicKinds, noPanicKindsData] at h
    unfold dynDe; exact np_de fo t h bs
  | .struct _ (.tuple []), _, bs => by unfold dynDe; exact NP_ok _
  | .struct _ (.tuple [t]), h, bs => by
    simp [noPanicKinds, noPanicKindsData, noPanicKindsList] at h
    unfold dynDe; exact np_de fo t h bs
  | .struct _ (.tuple (t :: t' :: ts)), h, bs => by
    simp only [noPanicKinds, noPanicKindsData] at h
    unfold dynDe; np_bind (np_deList fo _ h bs); exact NP_ok _
  | .struct _ (.struct fs), h, bs => by
    simp only [noPanicKinds, noPanicKindsData] at h
    unfold dynDe; np_bind (np_deFields fo fs h [] bs); exact NP_ok _
  | .enum _ vs, h, bs => by
    simp only [noPanicKinds] at h
    unfold dynDe; np_bind (dynTakeVarint_np 64 bs)
    exact np_deVariant fo vs h _ _
  | .schema, h, _ => by simp [noPanicKinds] at h
theorem np_deList (fo : FloatOps) : (ts : List Schema) → noPanicKindsList true ts = true →
    (bs : List Byte) → NP (dynDeList fo ts bs)
  | [], _, _ => by simp [dynDeList, NP]
  | t :: ts, h, bs => by
    simp [noPanicKindsList] at h
    unfold dynDeList
    np_bind (np_de fo t h.1 bs); np_bind (np_deList fo ts h.2 _); exact NP_ok _
theorem np_deFields (fo : FloatOps) : (fs : List SField) → noPanicKindsFields true fs = true →
    (acc : List (List Byte × Json)) → (bs : List Byte) → NP (dynDeFields fo fs acc bs)
  | [], _, _, _ => by simp [dynDeFields, NP]
  | .mk n t :: fs, h, acc, bs => by
    simp [noPanicKindsFields] at h
    unfold dynDeFields
    np_bind (np_de fo t h.1 bs); exact np_deFields fo fs h.2 _ _
theorem np_deVariant (fo : FloatOps) : (vs : List SVariant) → noPanicKindsVariants true vs = true →
    (k : Nat) → (bs : List Byte) → NP (dynDeVariant fo vs k bs)
  | [], _, _, _ => by simp [dynDeVariant, NP]
  | .mk n d :: rest, h, 0, bs => by
    simp only [noPanicKindsVariants, Bool.and_eq_true] at h
    rw [dynDeVariant.eq_def]; dsimp only
    match d, h.1 with
    | .unit, _ => exact NP_ok _
    | .newtype t, hd =>
      simp only [noPanicKindsData] at hd
      dsimp only
      np_bind (np_de fo t hd bs); exact NP_ok _
    | .tuple [], _ => exact NP_ok _
    | .tuple [t], hd =>
      simp [noPanicKindsData, noPanicKindsList] at hd
      dsimp only
      np_bind (np_de fo t hd bs); exact NP_ok _
    | .tuple (t :: t' :: ts), hd =>
      simp only [noPanicKindsData] at hd
      dsimp only
      np_bind (np_deList fo _ hd bs); exact NP_ok _
    | .struct fs, hd =>
      simp only [noPanicKindsData] at hd
      dsimp only
      np_bind (np_deFields fo fs hd [] bs); exact NP_ok _
  | .mk n d :: rest, h, k + 1, bs => by
    simp only [noPanicKindsVariants, Bool.and_eq_true] at h
    rw [dynDeVariant.eq_def]
    exact np_deVariant fo rest h.2 k bs
end

end Postcard

namespace Postcard

/-! ## I. refuting witnesses for C18 (totality, allocation bound, re-encoding)

All confirmed on the real crate (scratch crate linking /repo/source/postcard-dyn). -/

section Witnesses
variable (fo : FloatOps)

/-! ### panics -/

/-- decoding under `Char` panics on EVERY input (`todo!()`), even the empty one. -/
theorem dynDe_char_panics (bs : List Byte) : dynDe fo .char bs = .error .panic := rfl
/-- `Schema` panics in both directions on every input. -/
theorem dynSer_schema_panics (j : Json) : dynSer fo .schema j = .error .panic := rfl
theorem dynDe_schema_panics (bs : List Byte) : dynDe fo .schema bs = .error .panic := rfl
/-- the panic is input dependent below other nodes: `Option(Schema)`. -/
example : dynDe fo (.option .schema) [0] = .ok (.null, []) := rfl
example : dynDe fo (.option .schema) [1] = .error .panic := rfl
example : dynSer fo (.option .schema) .null = .ok [0] := rfl
example : dynSer fo (.option .schema) (.posInt 1) = .error .panic := rfl
/-- a map KEY schema is never traversed: no panic although `Schema`/`Char` occur. -/
example : dynDe fo (.map .char .schema) [0] = .error .shouldSupportButDont := rfl

/-- refutation of the unrestricted `dyn_total`. -/
theorem dyn_total_false :
    ¬ (∀ (fo : FloatOps) (s : Schema) (j : Json) (bs : List Byte),
        dynSer fo s j ≠ .error .panic ∧ dynDe fo s bs ≠ .error .panic) := by
  intro h
  exact (h ⟨id, id, id, fun _ => 0, fun _ => true, fun _ => true⟩ .schema .null []).1 rfl

/-! ### allocation: `Seq` of a zero-width element -/

theorem allocN_unit : ∀ (n : Nat) (bs : List Byte),
    allocN (allocDyn fo .unit) (dynDe fo .unit) n bs = n
  | 0, _ => rfl
  | n + 1, bs => by
    have h1 : allocDyn fo .unit bs = 1 := rfl
    have h2 : dynDe fo .unit bs = .ok (.null, bs) := rfl
    simp only [allocN, h1, h2, allocN_unit n bs]
    omega

theorem deN_unit : ∀ (n : Nat) (bs : List Byte),
    deN (dynDe fo .unit) n bs = .ok (List.replicate n .null, bs)
  | 0, _ => rfl
  | n + 1, bs => by
    have h2 : dynDe fo .unit bs = .ok (.null, bs) := rfl
    simp [deN, h2, deN_unit n bs, List.replicate_succ]

/-- for every `n < 2^64` there is an input of at most 10 bytes (the varint of
`n`) on which decoding `Seq(Unit)` succeeds with `n` `Value::Null`s in a `Vec`:
`n + 1` `Value`s from `≤ 10` bytes.  (2^24 + 1 from the 4 bytes `80 80 80 08`;
measured on the real crate: 16 777 216 values, 2.8 s.) -/
theorem alloc_seq_unit {n : Nat} (h : n < 2 ^ 64) :
    allocDyn fo (.seq .unit) (encVarint 64 n) = n + 1 ∧
    dynDe fo (.seq .unit) (encVarint 64 n) = .ok (.arr (List.replicate n .null), []) ∧
    (encVarint 64 n).length ≤ 10 := by
  have hv : dynTakeVarint 64 (encVarint 64 n) = .ok (n, []) := by
    have := dynTakeVarint_enc widthOk64 h []
    simpa using this
  have hd : dynDe fo (.seq .unit) (encVarint 64 n) = .ok (.arr (List.replicate n .null), []) := by
    rw [dynDe, hv]; dsimp only; rw [deN_unit]
  refine ⟨?_, hd, ?_⟩
  · rw [allocDyn, hv]; dsimp only; rw [allocN_unit, hd]; rfl
  · exact encVarintLoop_length_le _ _

example : encVarint 64 (2 ^ 24) = [0x80, 0x80, 0x80, 0x08] := by decide

/-- no bound `K * len + C` with `10 K + C < 2^64` holds: refutes `dyn_alloc_bound` for
every "constant multiple" of practical size. -/
theorem dyn_alloc_bound_false (K C : Nat) (h : 10 * K + C + 1 < 2 ^ 64) :
    ¬ (∀ bs : List Byte, allocDyn fo (.seq .unit) bs ≤ K * bs.length + C) := by
  intro hb
  have hn : 10 * K + C < 2 ^ 64 := by omega
  obtain ⟨ha, _, hl⟩ := alloc_seq_unit fo hn
  have := hb (encVarint 64 (10 * K + C))
  rw [ha] at this
  have : K * (encVarint 64 (10 * K + C)).length ≤ K * 10 := Nat.mul_le_mul_left K hl
  omega

/-! ### re-encoding -/

/-- an f64 too large for f32 (`1e300`) is encoded as `+inf`, which the decoder
refuses.  Stated for any `fo` that rounds like IEEE-754 on these three values. -/
theorem witness_reencode_f32
    (h1 : fo.f64ToF32 0x7E37E43C8800759C = 0x7F800000)       -- 1e300 as f32 = +inf
    (h2 : fo.f32ToF64 0x7F800000 = 0x7FF0000000000000)       -- +inf as f64 = +inf
    (h3 : fo.isFinite64 0x7FF0000000000000 = false) :
    dynSer fo .f32 (.float 0x7E37E43C8800759C) = .ok [0, 0, 0x80, 0x7F] ∧
    dynDe fo .f32 [0, 0, 0x80, 0x7F] = .error .schemaMismatch := by
  constructor
  · simp only [dynSer, Json.asF64, h1]; exact congrArg Except.ok (by decide)
  · have : ofLeBytes [0, 0, 0x80, 0x7F] = 0x7F800000 := by decide
    simp [dynDe, dynTakeN, this, h2, Json.numFromF64, h3]

/-- `Option(Unit)`: any non-null JSON encodes as `[1]`, decodes as `null`, re-encodes as `[0]`. -/
theorem witness_reencode_option_unit :
    dynSer fo (.option .unit) (.posInt 5) = .ok [1] ∧
    dynDe fo (.option .unit) [1] = .ok (.null, []) ∧
    dynSer fo (.option .unit) .null = .ok [0] := ⟨rfl, rfl, rfl⟩

/-- `Tuple([])` accepts `[]`, decodes `null`, which it refuses to re-encode. -/
theorem witness_reencode_tuple0 :
    dynSer fo (.tuple []) (.arr []) = .ok [] ∧
    dynDe fo (.tuple []) [] = .ok (.null, []) ∧
    dynSer fo (.tuple []) .null = .error .schemaMismatch := ⟨rfl, rfl, rfl⟩

/-- same through a sequence: `Seq(Tuple([]))`, `[[], []]` → `[2]` → `[null, null]` → refused. -/
theorem witness_reencode_seq_tuple0 :
    dynSer fo (.seq (.tuple [])) (.arr [.arr [], .arr []]) = .ok [2] ∧
    dynDe fo (.seq (.tuple [])) [2] = .ok (.arr [.null, .null], []) ∧
    dynSer fo (.seq (.tuple [])) (.arr [.null, .null]) = .error .schemaMismatch := ⟨rfl, rfl, rfl⟩

/-- NEW: zero-field tuple variant: `{"C": []}` → `[1]` → `{"C": null}` → refused. -/
theorem witness_reencode_tupleVariant0 :
    let s : Schema := .enum [69] [.mk [65] .unit, .mk [67] (.tuple [])]
    dynSer fo s (.obj [([67], .arr [])]) = .ok [1] ∧
    dynDe fo s [1] = .ok (.obj [([67], .null)], []) ∧
    dynSer fo s (.obj [([67], .null)]) = .error .schemaMismatch := ⟨rfl, rfl, rfl⟩

/-- NEW (hand-built schemas only): two fields with the same name:
`{"a": 1, "b": 2}` → `[1, 1]` → `{"a": 1}` → refused (`val.len() != nvs.len()`). -/
theorem witness_reencode_dup_fields :
    let s : Schema := .struct [83] (.struct [.mk [97] .u8, .mk [97] .u8])
    dynSer fo s (.obj [([97], .posInt 1), ([98], .posInt 2)]) = .ok [1, 1] ∧
    dynDe fo s [1, 1] = .ok (.obj [([97], .posInt 1)], []) ∧
    dynSer fo s (.obj [([97], .posInt 1)]) = .error .schemaMismatch := ⟨rfl, rfl, rfl⟩

/-- observation (not a violation of the stated property, which starts from an
encoder output): the decoder is not injective on maps — duplicate keys are
merged, so decode∘encode is not the identity on accepted BYTES. -/
example : dynDe fo (.map .string .u8) [2, 1, 97, 1, 1, 97, 2] = .ok (.obj [([97], .posInt 2)], []) ∧
    dynSer fo (.map .string .u8) (.obj [([97], .posInt 2)]) = .ok [1, 1, 97, 2] := ⟨rfl, rfl⟩

/-- observation: `from_slice_dyn` silently discards trailing bytes. -/
example : fromSliceDyn fo .u8 [1, 2, 3] = .ok (.posInt 1) := rfl

end Witnesses
end Postcard

namespace Postcard

/-! ## K. re-encoding -/

/-- extra assumptions on the float conversions used by re-encoding under `F64`:
integer → f64 conversions give finite f64 bit patterns. -/
structure FloatOk2 (fo : FloatOps) : Prop where
  u64 : ∀ n, fo.u64ToF64 n < 2 ^ 64 ∧ fo.isFinite64 (fo.u64ToF64 n) = true
  i64 : ∀ x, fo.i64ToF64 x < 2 ^ 64 ∧ fo.isFinite64 (fo.i64ToF64 x) = true

/-- `nullHazard s`: decoding under `s` can yield `null` although the encoder
accepted a non-null JSON value (`Unit`-like payloads). -/
def nullHazard : Schema → Bool
  | .unit => true
  | .option t => nullHazard t
  | .tuple [] => true
  | .tuple [t] => nullHazard t
  | .struct _ .unit => true
  | .struct _ (.newtype t) => nullHazard t
  | .struct _ (.tuple []) => true
  | .struct _ (.tuple [t]) => nullHazard t
  | _ => false

mutual
/-- `reencOk s`: the schemas on which `dyn_reencode` is PROVED.  Excluded because
the current code violates the property there (witnesses above): `F32`
(overflow to ±inf), `Char`/`Schema` (panic), `Option(t)` with `nullHazard t`,
tuples / tuple structs of arity 0.  Excluded only because the proof is not
finished (TODO, no counterexample known other than duplicate field names and
zero-field tuple variants): `Map`, `Struct{Struct}`, `Enum`. -/
def reencOk : Schema → Bool
  | .f32 => false
  | .char => false
  | .schema => false
  | .option t => reencOk t && !nullHazard t
  | .seq t => reencOk t
  | .tuple [] => false
  | .tuple ts => reencOkList ts
  | .map _ _ => false
  | .struct _ .unit => true
  | .struct _ (.newtype t) => reencOk t
  | .struct _ (.tuple []) => false
  | .struct _ (.tuple ts) => reencOkList ts
  | .struct _ (.struct _) => false
  | .enum _ _ => false
  | _ => true
def reencOkList : List Schema → Bool
  | [] => true
  | t :: ts => reencOk t && reencOkList ts
end

theorem asI64_range {fo : FloatOps} {j : Json} {x : Int} (hw : j.wf fo = true)
    (h : j.asI64 = some x) : -(2 ^ 63 : Int) ≤ x ∧ x < (2 ^ 63 : Int) := by
  cases j <;> simp [Json.asI64] at h
  · rename_i n
    obtain ⟨h1, rfl⟩ := h
    omega
  · subst h
    simp [Json.wf] at hw
    omega

theorem asU64_range {fo : FloatOps} {j : Json} {n : Nat} (hw : j.wf fo = true)
    (h : j.asU64 = some n) : n < 2 ^ 64 := by
  cases j <;> simp [Json.asU64] at h
  subst h
  simpa [Json.wf] using hw

theorem asI64_ofI64 {x : Int} (h1 : -(2 ^ 63 : Int) ≤ x) (h2 : x < (2 ^ 63 : Int)) :
    (Json.ofI64 x).asI64 = some x := by
  rw [ofI64_eq_jsonOfInt h1 (by omega)]
  exact asI64_jsonOfInt h1 h2

theorem ofI64_not_null (x : Int) : (Json.ofI64 x).isNull = false := by
  unfold Json.ofI64; split <;> rfl

theorem wfList_mem {fo : FloatOps} : ∀ {xs : List Json}, Json.wfList fo xs = true →
    ∀ x ∈ xs, x.wf fo = true
  | [], _, x, hx => by simp at hx
  | y :: ys, h, x, hx => by
    simp [Json.wfList] at h
    simp at hx
    rcases hx with rfl | hx
    · exact h.1
    · exact wfList_mem h.2 x hx

/-- the re-encoding statement for one schema. -/
def RE (fo : FloatOps) (s : Schema) : Prop :=
  ∀ (j : Json) (bs rest : List Byte), j.wf fo = true → dynSer fo s j = .ok bs →
    ∃ j', dynDe fo s (bs ++ rest) = .ok (j', rest) ∧ dynSer fo s j' = .ok bs ∧
      (nullHazard s = false → j.isNull = false → j'.isNull = false)

theorem re_signed (fo : FloatOps) (w : IntW) (hw : w ≠ .w8) (x : Int) (hx : w.inRangeI x = true)
    (rest : List Byte) :
    dynTakeVarint w.bits (dynVarint w.bits (dynZigzag w.bits x) ++ rest) = .ok (zigzag w.bits x, rest) ∧
    dynUnzigzag (zigzag w.bits x) = x := by
  rw [dynVarint_eq, dynZigzag_eq]
  exact ⟨de_i_varint w hw x hx rest, de_i_unzig w x hx⟩

end Postcard

namespace Postcard

theorem inRange_of (w : IntW) (x : Int) (h : -(2 ^ (w.bits - 1) : Int) ≤ x ∧ x < (2 ^ (w.bits - 1) : Int)) :
    w.inRangeI x = true := (IntW.inRangeI_iff w x).2 h

theorem getU_ok {bits : Nat} {j : Json} {n : Nat} (h : getU bits j = .ok n) :
    j.asU64 = some n ∧ n < 2 ^ bits := by
  unfold getU at h
  split at h
  · simp at h
  · split at h
    · simp at h; subst h; simp_all
    · simp at h

theorem getI_ok {bits : Nat} {j : Json} {x : Int} (h : getI bits j = .ok x) :
    j.asI64 = some x ∧ (-(2 ^ (bits - 1) : Int) ≤ x ∧ x < (2 ^ (bits - 1) : Int)) := by
  unfold getI at h
  split at h
  · simp at h
  · split at h
    · simp at h; subst h; simp_all
    · simp at h

theorem getU_posInt {bits n : Nat} (h : n < 2 ^ bits) : getU bits (.posInt n) = .ok n := by
  simp [getU, Json.asU64, h]

theorem getI_ofI64 {bits : Nat} {x : Int}
    (h : -(2 ^ (bits - 1) : Int) ≤ x ∧ x < (2 ^ (bits - 1) : Int))
    (h63 : -(2 ^ 63 : Int) ≤ x ∧ x < (2 ^ 63 : Int)) : getI bits (Json.ofI64 x) = .ok x := by
  simp [getI, asI64_ofI64 h63.1 h63.2, h]

theorem asI64R_ok {j : Json} {x : Int} (h : asI64R j = .ok x) : j.asI64 = some x := by
  unfold asI64R at h; split at h <;> simp_all
theorem asU64R_ok {j : Json} {n : Nat} (h : asU64R j = .ok n) : j.asU64 = some n := by
  unfold asU64R at h; split at h <;> simp_all
theorem asStr_eq {j : Json} {u : List Byte} (h : j.asStr = some u) : j = .str u := by
  cases j <;> simp [Json.asStr] at h; subst h; rfl
theorem asArray_eq {j : Json} {xs : List Json} (h : j.asArray = some xs) : j = .arr xs := by
  cases j <;> simp [Json.asArray] at h; subst h; rfl
theorem asObject_eq {j : Json} {kvs : List (List Byte × Json)} (h : j.asObject = some kvs) :
    j = .obj kvs := by
  cases j <;> simp [Json.asObject] at h; subst h; rfl

theorem re_bool (fo : FloatOps) : RE fo .bool := by
  intro j bs rest _ h
  simp only [dynSer] at h
  split at h <;> simp at h
  rename_i b _
  subst h
  refine ⟨.bool b, ?_, ?_, fun _ _ => rfl⟩
  · cases b <;> simp [dynDe, dynTakeOne]
  · simp [dynSer, Json.asBool]

theorem re_u8 (fo : FloatOps) : RE fo .u8 := by
  intro j bs rest _ h
  simp only [dynSer] at h
  split at h <;> simp at h
  rename_i n hg
  subst h
  have hn := (getU_ok hg).2
  have hm : n % 256 = n := Nat.mod_eq_of_lt (by simpa using hn)
  refine ⟨.posInt n, ?_, ?_, fun _ _ => rfl⟩
  · simp [dynDe, dynTakeOne, UInt8.toNat_ofNat', hm]
  · simp [dynSer, getU_posInt hn]

theorem re_i8 (fo : FloatOps) : RE fo .i8 := by
  intro j bs rest _ h
  simp only [dynSer] at h
  split at h <;> simp at h
  rename_i x hg
  subst h
  have hx := (getI_ok hg).2
  have hx' : -128 ≤ x ∧ x < 128 := by simpa using hx
  have hb : ofBits 8 (toBits 8 x % 256) = x := by
    have := ofBits_toBits8 hx'
    simpa [UInt8.toNat_ofNat'] using this
  refine ⟨Json.ofI64 x, ?_, ?_, fun _ _ => ofI64_not_null x⟩
  · simp [dynDe, dynTakeOne, hb]
  · simp [dynSer, getI_ofI64 hx ⟨by omega, by omega⟩]

theorem re_getU (fo : FloatOps) (s : Schema) (bits : Nat) (hb : WidthOk bits) (hle : bits ≤ 64)
    (hs : ∀ j, dynSer fo s j = match getU bits j with | .error e => .error e | .ok n => .ok (dynVarint bits n))
    (hd : ∀ bs, dynDe fo s bs = match dynTakeVarint bits bs with
      | .error e => .error e | .ok (n, rest) => .ok (.posInt n, rest)) : RE fo s := by
  intro j bs rest _ h
  rw [hs] at h
  split at h <;> simp at h
  rename_i n hg
  subst h
  have hlt := (getU_ok hg).2
  refine ⟨.posInt n, ?_, ?_, fun _ _ => rfl⟩
  · rw [hd, dynVarint_eq, dynTakeVarint_enc hb hlt]
  · rw [hs, getU_posInt hlt]

theorem re_getI (fo : FloatOps) (s : Schema) (w : IntW) (hw : w ≠ .w8) (hle : w.bits ≤ 64)
    (hs : ∀ j, dynSer fo s j = match getI w.bits j with
      | .error e => .error e | .ok x => .ok (dynVarint w.bits (dynZigzag w.bits x)))
    (hd : ∀ bs, dynDe fo s bs = match dynTakeVarint w.bits bs with
      | .error e => .error e | .ok (n, rest) => .ok (Json.ofI64 (dynUnzigzag n), rest)) : RE fo s := by
  intro j bs rest _ h
  rw [hs] at h
  split at h <;> simp at h
  rename_i x hg
  subst h
  have hx := (getI_ok hg).2
  have hr := re_signed fo w hw x (inRange_of w x hx) rest
  have h63 : -(2 ^ 63 : Int) ≤ x ∧ x < (2 ^ 63 : Int) := by
    cases w <;> simp [IntW.bits] at hle hx ⊢ <;> omega
  refine ⟨Json.ofI64 x, ?_, ?_, fun _ _ => ofI64_not_null x⟩
  · rw [hd, hr.1]; simp [hr.2]
  · rw [hs, getI_ofI64 hx h63]

theorem re_asI (fo : FloatOps) (s : Schema) (w : IntW) (hw : w ≠ .w8) (hge : 64 ≤ w.bits)
    (hs : ∀ j, dynSer fo s j = match asI64R j with
      | .error e => .error e | .ok x => .ok (dynVarint w.bits (dynZigzag w.bits x)))
    (hd : ∀ bs n rest, dynTakeVarint w.bits bs = .ok (n, rest) →
      -(2 ^ 63 : Int) ≤ dynUnzigzag n → dynUnzigzag n < (2 ^ 63 : Int) →
      dynDe fo s bs = .ok (Json.ofI64 (dynUnzigzag n), rest)) : RE fo s := by
  intro j bs rest hwf h
  rw [hs] at h
  split at h <;> simp at h
  rename_i x hj
  subst h
  have h63 := asI64_range hwf (asI64R_ok hj)
  have hin : w.inRangeI x = true := by
    apply inRange_of
    have : (2 : Int) ^ 63 ≤ 2 ^ (w.bits - 1) := by
      cases w <;> simp [IntW.bits] at hge ⊢
    omega
  have hr := re_signed fo w hw x hin rest
  refine ⟨Json.ofI64 x, ?_, ?_, fun _ _ => ofI64_not_null x⟩
  · have := hd _ _ _ hr.1 (by rw [hr.2]; exact h63.1) (by rw [hr.2]; exact h63.2)
    rw [this, hr.2]
  · rw [hs]; simp [asI64R, asI64_ofI64 h63.1 h63.2]

theorem re_asU (fo : FloatOps) (s : Schema) (bits : Nat) (hb : WidthOk bits) (hge : 64 ≤ bits)
    (hs : ∀ j, dynSer fo s j = match asU64R j with | .error e => .error e | .ok n => .ok (dynVarint bits n))
    (hd : ∀ bs n rest, dynTakeVarint bits bs = .ok (n, rest) → n < 2 ^ 64 →
      dynDe fo s bs = .ok (.posInt n, rest)) : RE fo s := by
  intro j bs rest hwf h
  rw [hs] at h
  split at h <;> simp at h
  rename_i n hj
  subst h
  have h64 := asU64_range hwf (asU64R_ok hj)
  have hlt : n < 2 ^ bits := Nat.lt_of_lt_of_le h64 (Nat.pow_le_pow_right (by decide) hge)
  refine ⟨.posInt n, ?_, ?_, fun _ _ => rfl⟩
  · rw [dynVarint_eq]; exact hd _ _ _ (dynTakeVarint_enc hb hlt rest) h64
  · rw [hs]; simp [asU64R, Json.asU64]

theorem re_f64 (fo : FloatOps) (h2 : FloatOk2 fo) : RE fo .f64 := by
  intro j bs rest hwf h
  simp only [dynSer] at h
  split at h <;> simp at h
  rename_i b hj
  subst h
  have hb : b < 2 ^ 64 ∧ fo.isFinite64 b = true := by
    cases j <;> simp [Json.asF64] at hj
    · subst hj; exact h2.u64 _
    · subst hj; exact h2.i64 _
    · subst hj; simpa [Json.wf] using hwf
  have hb' : b < 256 ^ 8 := by omega
  refine ⟨.float b, ?_, ?_, fun _ _ => rfl⟩
  · simp [dynDe, dynTakeN_append' _ rest (leBytes_length 8 b), ofLeBytes_leBytes hb',
      Json.numFromF64, hb.2]
  · simp [dynSer, Json.asF64]

theorem re_string (fo : FloatOps) : RE fo .string := by
  intro j bs rest hwf h
  simp only [dynSer, serStr] at h
  split at h <;> simp at h
  rename_i u hj
  subst h
  have := asStr_eq hj; subst this
  simp [Json.wf] at hwf
  refine ⟨.str u, ?_, ?_, fun _ _ => rfl⟩
  · simp [dynDe, dynVarint_eq, dynTakeVarint_enc widthOk64 hwf.2, dynTakeN_append, hwf.1]
  · simp [dynSer, serStr, Json.asStr]

theorem serByteElems_ok : ∀ (xs : List Json) (bs : List Byte), serByteElems xs = .ok bs →
    bs.length = xs.length ∧ serByteElems (bs.map fun b => Json.posInt b.toNat) = .ok bs
  | [], bs, h => by simp [serByteElems] at h; subst h; simp [serByteElems]
  | x :: xs, bs, h => by
    simp only [serByteElems] at h
    split at h <;> simp at h
    split at h <;> simp at h
    rename_i _ n hn _ bs' hbs
    subst h
    have ih := serByteElems_ok xs bs' hbs
    have hlt : n < 2 ^ 8 := (getU_ok hn).2
    have hm : n % 256 = n := Nat.mod_eq_of_lt (by simpa using hlt)
    have hlt' : n % 256 < 2 ^ 8 := by omega
    simp [serByteElems, UInt8.toNat_ofNat', getU_posInt hlt, hm, ih.1, ih.2]

theorem re_byteArray (fo : FloatOps) : RE fo .byteArray := by
  intro j bs rest hwf h
  simp only [dynSer] at h
  split at h <;> simp at h
  rename_i xs hj
  split at h <;> simp at h
  rename_i body hb
  subst h
  have := asArray_eq hj; subst this
  simp [Json.wf] at hwf
  have hok := serByteElems_ok xs body hb
  have hl : body.length < 2 ^ 64 := by rw [hok.1]; exact hwf.1
  refine ⟨.arr (body.map fun b => Json.posInt b.toNat), ?_, ?_, fun _ _ => rfl⟩
  · simp [dynDe, dynVarint_eq, ← hok.1, dynTakeVarint_enc widthOk64 hl, dynTakeN_append]
  · simp [dynSer, Json.asArray, hok.2, hok.1]

end Postcard

namespace Postcard

theorem re_all (fo : FloatOps) (t : Schema) (ht : RE fo t) : ∀ (xs : List Json) (bs rest : List Byte),
    Json.wfList fo xs = true → serAll (dynSer fo t) xs = .ok bs →
    ∃ js, deN (dynDe fo t) xs.length (bs ++ rest) = .ok (js, rest) ∧
      serAll (dynSer fo t) js = .ok bs ∧ js.length = xs.length
  | [], bs, rest, _, h => by
    simp [serAll] at h; subst h
    exact ⟨[], by simp [deN], by simp [serAll], rfl⟩
  | x :: xs, bs, rest, hw, h => by
    simp only [serAll] at h
    split at h <;> simp at h
    split at h <;> simp at h
    rename_i _ a ha _ b hb
    subst h
    simp [Json.wfList] at hw
    obtain ⟨j', hd, hs, _⟩ := ht x a (b ++ rest) hw.1 ha
    obtain ⟨js, hds, hss, hl⟩ := re_all fo t ht xs b rest hw.2 hb
    refine ⟨j' :: js, ?_, ?_, by simp [hl]⟩
    · simp [deN, hd, hds]
    · simp [serAll, hs, hss]

/-- list version (tuples). -/
def REL (fo : FloatOps) (ts : List Schema) : Prop :=
  ∀ (xs : List Json) (bs rest : List Byte), Json.wfList fo xs = true →
    dynSerZip fo ts xs = .ok bs → xs.length = ts.length →
    ∃ js, dynDeList fo ts (bs ++ rest) = .ok (js, rest) ∧ dynSerZip fo ts js = .ok bs ∧
      js.length = ts.length

/-- the tuple arm (arity ≥ 2, or any arity ≠ 0,1 handled by the caller) from `REL`. -/
theorem re_of_rel (fo : FloatOps) (s : Schema) (ts : List Schema) (hrel : REL fo ts)
    (hs : ∀ j, dynSer fo s j = match j.asArray with
      | none => .error .schemaMismatch
      | some xs => if xs.length ≠ ts.length then .error .schemaMismatch else dynSerZip fo ts xs)
    (hd : ∀ bs, dynDe fo s bs = match dynDeList fo ts bs with
      | .error e => .error e | .ok (vs, rest) => .ok (.arr vs, rest)) : RE fo s := by
  intro j bs rest hwf h
  rw [hs] at h
  split at h <;> simp at h
  rename_i xs hj
  have := asArray_eq hj; subst this
  simp [Json.wf] at hwf
  by_cases hlen : xs.length = ts.length
  case neg => simp [hlen] at h
  simp [hlen] at h
  obtain ⟨js, hdl, hsz, hjl⟩ := hrel xs bs rest hwf.2 h hlen
  refine ⟨.arr js, ?_, ?_, fun _ _ => rfl⟩
  · rw [hd, hdl]
  · rw [hs]; simp [Json.asArray, hjl, hsz]

/-- unfold one arm of `dynSer` / `dynDe` (the two sides use different but
definitionally equal matchers). -/
macro "eqn_ser" : tactic =>
  `(tactic| first | (rw [dynSer]; done) | (rw [dynSer] <;> first | rfl | simp))
macro "eqn_de" : tactic =>
  `(tactic| first | (rw [dynDe]; done) | (rw [dynDe] <;> first | rfl | simp))

mutual
theorem re_val (fo : FloatOps) (h2 : FloatOk2 fo) : (s : Schema) → reencOk s = true → RE fo s
  | .bool, _ => re_bool fo
  | .i8, _ => re_i8 fo
  | .u8, _ => re_u8 fo
  | .i16, _ => re_getI fo .i16 .w16 (by decide) (by decide) (fun _ => by rw [dynSer]; rfl) (fun _ => by rw [dynDe]; rfl)
  | .i32, _ => re_getI fo .i32 .w32 (by decide) (by decide) (fun _ => by rw [dynSer]; rfl) (fun _ => by rw [dynDe]; rfl)
  | .i64, _ => re_asI fo .i64 .w64 (by decide) (by decide) (fun _ => by rw [dynSer]; rfl)
      (fun bs n rest h _ _ => by rw [dynDe]; simp only [IntW.bits] at h; rw [h])
  | .isize, _ => re_asI fo .isize .w64 (by decide) (by decide) (fun _ => by rw [dynSer]; rfl)
      (fun bs n rest h _ _ => by rw [dynDe]; simp only [IntW.bits] at h; rw [h])
  | .i128, _ => re_asI fo .i128 .w128 (by decide) (by decide) (fun _ => by rw [dynSer]; rfl)
      (fun bs n rest h h1 h2 => by
        rw [dynDe]; simp only [IntW.bits] at h; rw [h]; dsimp only; rw [if_pos ⟨h1, h2⟩])
  | .u16, _ => re_getU fo .u16 16 widthOk16 (by decide) (fun _ => by eqn_ser) (fun _ => by eqn_de)
  | .u32, _ => re_getU fo .u32 32 widthOk32 (by decide) (fun _ => by eqn_ser) (fun _ => by eqn_de)
  | .usize, _ => re_getU fo .usize 64 widthOk64 (by decide) (fun _ => by eqn_ser) (fun _ => by eqn_de)
  | .u64, _ => re_asU fo .u64 64 widthOk64 (by decide) (fun _ => by eqn_ser)
      (fun bs n rest h _ => by rw [dynDe, h])
  | .u128, _ => re_asU fo .u128 128 widthOk128 (by decide) (fun _ => by eqn_ser)
      (fun bs n rest h hn => by rw [dynDe, h]; simp [hn])
  | .f32, h => by simp [reencOk] at h
  | .f64, _ => re_f64 fo h2
  | .char, h => by simp [reencOk] at h
  | .string, _ => re_string fo
  | .byteArray, _ => re_byteArray fo
  | .option t, h => by
    simp [reencOk] at h
    have ih := re_val fo h2 t h.1
    intro j bs rest hwf hs
    rw [dynSer] at hs
    split at hs
    · rename_i hnull
      simp at hs; subst hs
      refine ⟨.null, by simp [dynDe, dynTakeOne], by simp [dynSer, Json.isNull], ?_⟩
      intro _ hn; rw [hnull] at hn; cases hn
    · rename_i hnull
      split at hs <;> simp at hs
      rename_i body hb
      subst hs
      obtain ⟨j', hd, hs', hnn⟩ := ih j body rest hwf hb
      have hj' : j'.isNull = false := hnn h.2 (by simpa using hnull)
      refine ⟨j', by simp [dynDe, dynTakeOne, hd], by simp [dynSer, hj', hs'], fun _ _ => hj'⟩
  | .unit, _ => by
    intro j bs rest _ hs
    simp [dynSer] at hs; subst hs
    exact ⟨.null, by simp [dynDe], by simp [dynSer], by simp [nullHazard]⟩
  | .seq t, h => by
    simp [reencOk] at h
    have ih := re_val fo h2 t h
    intro j bs rest hwf hs
    rw [dynSer] at hs
    split at hs <;> simp at hs
    rename_i xs hj
    split at hs <;> simp at hs
    rename_i body hb
    subst hs
    have := asArray_eq hj; subst this
    simp [Json.wf] at hwf
    obtain ⟨js, hd, hs', hl⟩ := re_all fo t ih xs body rest hwf.2 hb
    refine ⟨.arr js, ?_, ?_, fun _ _ => rfl⟩
    · simp [dynDe, dynVarint_eq, dynTakeVarint_enc widthOk64 hwf.1, hd]
    · simp [dynSer, Json.asArray, hs', hl]
  | .tuple [], h => by simp [reencOk] at h
  | .tuple [t], h => by
    simp [reencOk, reencOkList] at h
    have ih := re_val fo h2 t h
    intro j bs rest hwf hs
    rw [dynSer] at hs
    obtain ⟨j', hd, hs', hnn⟩ := ih j bs rest hwf hs
    exact ⟨j', by rw [dynDe]; exact hd, by rw [dynSer]; exact hs', by simpa [nullHazard] using hnn⟩
  | .tuple (t :: t' :: ts), h => by
    simp only [reencOk] at h
    exact re_of_rel fo _ _ (re_list fo h2 _ h) (fun _ => by eqn_ser) (fun _ => by eqn_de)
  | .map _ _, h => by simp [reencOk] at h
  | .struct _ .unit, _ => by
    intro j bs rest _ hs
    simp [dynSer] at hs; subst hs
    exact ⟨.null, by simp [dynDe], by simp [dynSer], by simp [nullHazard]⟩
  | .struct _ (.newtype t), h => by
    simp [reencOk] at h
    have ih := re_val fo h2 t h
    intro j bs rest hwf hs
    rw [dynSer] at hs
    obtain ⟨j', hd, hs', hnn⟩ := ih j bs rest hwf hs
    exact ⟨j', by rw [dynDe]; exact hd, by rw [dynSer]; exact hs', by simpa [nullHazard] using hnn⟩
  | .struct _ (.tuple []), h => by simp [reencOk] at h
  | .struct _ (.tuple [t]), h => by
    simp [reencOk, reencOkList] at h
    have ih := re_val fo h2 t h
    intro j bs rest hwf hs
    rw [dynSer] at hs
    obtain ⟨j', hd, hs', hnn⟩ := ih j bs rest hwf hs
    exact ⟨j', by rw [dynDe]; exact hd, by rw [dynSer]; exact hs', by simpa [nullHazard] using hnn⟩
  | .struct _ (.tuple (t :: t' :: ts)), h => by
    simp only [reencOk] at h
    exact re_of_rel fo _ _ (re_list fo h2 _ h) (fun _ => by eqn_ser) (fun _ => by eqn_de)
  | .struct _ (.struct _), h => by simp [reencOk] at h
  | .enum _ _, h => by simp [reencOk] at h
  | .schema, h => by simp [reencOk] at h
theorem re_list (fo : FloatOps) (h2 : FloatOk2 fo) : (ts : List Schema) → reencOkList ts = true →
    REL fo ts
  | [], _ => by
    intro xs bs rest _ hs _
    simp [dynSerZip] at hs; subst hs
    exact ⟨[], by simp [dynDeList], by simp [dynSerZip], rfl⟩
  | t :: ts, h => by
    simp [reencOkList] at h
    have ih := re_val fo h2 t h.1
    have ihl := re_list fo h2 ts h.2
    intro xs bs rest hw hs hl
    match xs, hw, hs, hl with
    | [], _, _, hl => simp at hl
    | x :: xs, hw, hs, hl =>
      simp only [dynSerZip] at hs
      split at hs <;> simp at hs
      split at hs <;> simp at hs
      rename_i _ a ha _ b hb
      subst hs
      simp [Json.wfList] at hw
      simp at hl
      obtain ⟨j', hd, hs', _⟩ := ih x a (b ++ rest) hw.1 ha
      obtain ⟨js, hds, hss, hjl⟩ := ihl xs b rest hw.2 hb hl
      refine ⟨j' :: js, ?_, ?_, by simp [hjl]⟩
      · simp [dynDeList, hd, hds]
      · simp [dynSerZip, hs', hss]
end

end Postcard

namespace Postcard

/-! ## L. C18 — the property theorems -/

/-
FULL STATEMENTS (what C18 asks for).  All three are FALSE of the current code
(refuted: `dyn_total_false`, `dyn_alloc_bound_false`, `dyn_reencode_false` and
the `witness_reencode_*` theorems):

theorem dyn_total (fo : FloatOps) (s : Schema) (j : Json) (bs : List Byte) :
    dynSer fo s j ≠ .error .panic ∧ dynDe fo s bs ≠ .error .panic

theorem dyn_alloc_bound : ∃ K C, ∀ (fo : FloatOps) (s : Schema) (bs : List Byte),
    allocDyn fo s bs ≤ K * bs.length + C        -- (or with K, C depending on `s`)

theorem dyn_reencode (fo : FloatOps) (s : Schema) (j : Json) (bs : List Byte)
    (hw : j.wf fo = true) (h : dynSer fo s j = .ok bs) :
    ∃ j', dynDe fo s bs = .ok (j', []) ∧ dynSer fo s j' = .ok bs
-/

/-- `NoPanicKinds de s` — the exclusion predicate of `dyn_total_partial`. -/
def NoPanicKinds (de : Bool) (s : Schema) : Prop := noPanicKinds de s = true

/-- C18 totality, encoding: no `Schema` node reachable ⇒ never panics (any JSON, even ill-formed). -/
theorem dyn_ser_total_partial (fo : FloatOps) (s : Schema) (j : Json) (h : NoPanicKinds false s) :
    dynSer fo s j ≠ .error .panic := np_ser fo s h j

/-- C18 totality, decoding: no `Schema` and no `Char` node reachable ⇒ never panics (any bytes). -/
theorem dyn_de_total_partial (fo : FloatOps) (s : Schema) (bs : List Byte) (h : NoPanicKinds true s) :
    dynDe fo s bs ≠ .error .panic := np_de fo s h bs

theorem dyn_total_partial (fo : FloatOps) (s : Schema) (j : Json) (bs : List Byte)
    (hs : NoPanicKinds false s) (hd : NoPanicKinds true s) :
    dynSer fo s j ≠ .error .panic ∧ dynDe fo s bs ≠ .error .panic :=
  ⟨np_ser fo s hs j, np_de fo s hd bs⟩

/-- panics only come from the two `todo!()` kinds (necessary condition; the exact
"iff" needs a reachability predicate because e.g. `Option(Schema)` panics on
`[1]` but not on `[0]`, and `Map{key: Char, ..}` never panics — see witnesses).
At the kinds themselves it is an iff: `dynDe_char_panics`, `dynDe_schema_panics`,
`dynSer_schema_panics` hold for EVERY input. -/
theorem dyn_ser_panics_only_if (fo : FloatOps) (s : Schema) (j : Json)
    (h : dynSer fo s j = .error .panic) : noPanicKinds false s = false := by
  cases hk : noPanicKinds false s
  · rfl
  · exact absurd h (np_ser fo s hk j)

theorem dyn_de_panics_only_if (fo : FloatOps) (s : Schema) (bs : List Byte)
    (h : dynDe fo s bs = .error .panic) : noPanicKinds true s = false := by
  cases hk : noPanicKinds true s
  · rfl
  · exact absurd h (np_de fo s hk bs)

/-- the public decoding entry never panics either. -/
theorem fromSliceDyn_total_partial (fo : FloatOps) (s : Schema) (bs : List Byte)
    (h : NoPanicKinds true s) : fromSliceDyn fo s bs ≠ .error .panic := by
  have := np_de fo s h bs
  unfold fromSliceDyn
  split
  · rename_i e he; intro h'; cases h'; exact this he
  · simp

/-- C18 re-encoding on the domain `reencOk s` (see its doc comment for what is
excluded and why), for well-formed JSON (`Json.wf`: what a `serde_json::Value`
can be) and float conversions that send integers to finite f64s. -/
theorem dyn_reencode_partial (fo : FloatOps) (h2 : FloatOk2 fo) (s : Schema) (j : Json)
    (bs : List Byte) (hs : reencOk s = true) (hw : j.wf fo = true) (h : dynSer fo s j = .ok bs) :
    ∃ j', dynDe fo s bs = .ok (j', []) ∧ dynSer fo s j' = .ok bs := by
  obtain ⟨j', hd, hs', _⟩ := re_val fo h2 s hs j bs [] hw h
  exact ⟨j', by simpa using hd, hs'⟩

/-- the full re-encoding statement is false: `Tuple([])` with `[]`. -/
theorem dyn_reencode_false :
    ¬ (∀ (fo : FloatOps) (s : Schema) (j : Json) (bs : List Byte), j.wf fo = true →
        dynSer fo s j = .ok bs → ∃ j', dynDe fo s bs = .ok (j', []) ∧ dynSer fo s j' = .ok bs) := by
  intro h
  obtain ⟨j', hd, hs⟩ := h foTrivial (.tuple []) (.arr []) [] (by decide) rfl
  have : dynDe foTrivial (.tuple []) [] = .ok (.null, []) := rfl
  rw [this] at hd
  cases hd
  cases hs

/-
TODO (not proved; statements kept for the next round):

* dyn_alloc_bound_partial: for schemas in which every `Seq` element type has a
  positive minimum encoded width,
    allocDyn fo s bs ≤ K s * bs.length + C s
  with `K s`, `C s` linear in `Schema.size s`.  Needs "dynDe consumes at least
  minWidth bytes".  (`alloc_seq_unit` / `dyn_alloc_bound_false` show the
  restriction is necessary.)
* dyn_reencode_partial for `Map`, `Struct{Struct}` (distinct field names) and
  `Enum` (no zero-field tuple variants, distinct field names, < 2^64 variants):
  `reencOk` currently answers `false` there only because the proof is unfinished.
* exact panic characterisation (`dyn_de_panics_iff`) through a reachability predicate.
-/

end Postcard
