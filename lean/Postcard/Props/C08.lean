import Postcard.Model.Accumulator
import Postcard.Lemmas.Accumulator
/-
  Postcard.Props.C08 — the COBS accumulator delivers every frame exactly once
  under any chunking (model: Postcard/Model/Accumulator.lean, mirrors
  source/postcard/src/accumulator.rs).
-/
namespace Postcard

variable {α : Type}

/-- **C08 `feed_conserves`.**  One `feed` call, under the invariant `idx ≤ N`:
the bytes it consumed followed by the remainder it returns are exactly the chunk
it was given, and the consumed bytes are precisely what was appended to the
buffer (`consumed`), handed to the decoder together with the buffered bytes
(`success`/`deserError`: `decF` is applied to `a.buf ++ pre ++ [0]` where
`pre ++ [0]` is the input up to and including its FIRST zero), or discarded
(`overFull`). -/
theorem feed_conserves (decF : List Byte → Option α) (a : Acc) (input : List Byte)
    (hinv : a.buf.length ≤ a.n) :
    match a.feed decF input with
    | (.consumed, a') =>
        (0 : Byte) ∉ input ∧ a' = ⟨a.n, a.buf ++ input⟩
    | (.success d rem, a') =>
        ∃ pre, input = (pre ++ [0]) ++ rem ∧ (0 : Byte) ∉ pre ∧
          decF (a.buf ++ (pre ++ [0])) = some d ∧ a' = ⟨a.n, []⟩
    | (.deserError rem, a') =>
        ∃ pre, input = (pre ++ [0]) ++ rem ∧ (0 : Byte) ∉ pre ∧
          decF (a.buf ++ (pre ++ [0])) = none ∧ a' = ⟨a.n, []⟩
    | (.overFull rem, a') =>
        (∃ c, input = c ++ rem) ∧ a' = ⟨a.n, []⟩ ∧
          ((∃ pre, input = (pre ++ [0]) ++ rem ∧ (0 : Byte) ∉ pre ∧
              a.n < a.buf.length + (pre ++ [0]).length)
            ∨ ((0 : Byte) ∉ input ∧ a.n < a.buf.length + input.length ∧
              rem = input.drop (a.n - a.buf.length)))
    | (.panic, _) => True := by
  rcases feed_cases decF a input hinv with ⟨h0, _, h⟩ | ⟨h0, hov, h⟩ |
      ⟨pre, r, rfl, hp, _, h⟩ | ⟨pre, r, rfl, hp, hov, h⟩
  · rw [h]; exact ⟨h0, rfl⟩
  · rw [h]
    refine ⟨⟨input.take (a.n - a.buf.length), (List.take_append_drop _ _).symm⟩, rfl,
      Or.inr ⟨h0, hov, rfl⟩⟩
  · rw [h]
    cases hd : decF (a.buf ++ pre ++ [0]) with
    | none =>
      simp only [decRes, hd]
      exact ⟨pre, by simp, hp, by simpa using hd, trivial⟩
    | some d =>
      simp only [decRes, hd]
      exact ⟨pre, by simp, hp, by simpa using hd, trivial⟩
  · rw [h]
    refine ⟨⟨pre ++ [0], by simp⟩, rfl, Or.inl ⟨pre, by simp, hp, ?_⟩⟩
    simp only [List.length_append, List.length_cons, List.length_nil]; omega

/-- Corollary in the plain "consumed ++ remainder = input" form. -/
theorem feed_conserves_rem (decF : List Byte → Option α) (a : Acc) (input : List Byte)
    (hinv : a.buf.length ≤ a.n) (rem : List Byte)
    (h : (a.feed decF input).1.next = some rem) : ∃ c, input = c ++ rem := by
  have hc := feed_conserves decF a input hinv
  cases hf : a.feed decF input with
  | mk r a' =>
    rw [hf] at hc h
    cases r with
    | consumed => simp [FeedRes.next] at h
    | panic => simp [FeedRes.next] at h
    | overFull w =>
      simp only [FeedRes.next, Option.some.injEq] at h; subst h
      exact hc.1
    | deserError w =>
      simp only [FeedRes.next, Option.some.injEq] at h; subst h
      obtain ⟨pre, h1, _⟩ := hc
      exact ⟨pre ++ [0], h1⟩
    | success d w =>
      simp only [FeedRes.next, Option.some.injEq] at h; subst h
      obtain ⟨pre, h1, _⟩ := hc
      exact ⟨pre ++ [0], h1⟩

/-- **C08 `acc_delivers`, general form** (arbitrary starting buffer `b`; the
stream seen by the specification is `b` followed by the chunks).  For EVERY
chunk list whose segments (including their sentinel) and unterminated tail fit
the capacity: the frame outcomes of the documented loop are exactly the
isolated decodings of the zero-terminated segments of the stream, one per zero
byte, in stream order (hence never `overFull`); the final buffer is the
unterminated tail; no call panics. -/
theorem acc_delivers_from (n : Nat) (decF : List Byte → Option α) (b : List Byte)
    (chunks : List (List Byte)) (hfit : Fits n (segs b chunks.flatten)) :
    frameResults (Acc.run decF ⟨n, b⟩ chunks).1
        = (segs b chunks.flatten).1.map (isolated decF) ∧
      (Acc.run decF ⟨n, b⟩ chunks).2 = ⟨n, (segs b chunks.flatten).2⟩ ∧
      FeedRes.panic ∉ (Acc.run decF ⟨n, b⟩ chunks).1 := by
  induction chunks generalizing b with
  | nil => simp [run_nil, segs, frameResults]
  | cons c cs ih =>
    rw [List.flatten_cons] at hfit ⊢
    have hA := drainX_fits decF (2 * c.length + 2) b c (by omega) (Fits_prefix hfit)
    have hB := ih (segs b c).2 (Fits_append hfit).2
    obtain ⟨a1, a2, a3, _⟩ := hA
    obtain ⟨b1, b2, b3⟩ := hB
    rw [run_cons, segs_append]
    simp only [Acc.drainChunk, Acc.drain, a2]
    refine ⟨?_, b2, ?_⟩
    · rw [frameResults_append, a1, b1, List.map_append]
    · simp only [List.mem_append, not_or]
      exact ⟨a3, b3⟩

/-- **C08 `acc_delivers`.**  From the fresh accumulator `CobsAccumulator::new()`:
for every way `chunks` of cutting a stream into chunks, if every segment with
its sentinel and the unterminated tail fit the capacity `n`, the documented loop
reports exactly one outcome per zero byte, in stream order, equal to decoding
each segment in isolation, and ends with the unterminated tail buffered. -/
theorem acc_delivers (n : Nat) (decF : List Byte → Option α) (chunks : List (List Byte))
    (hfit : Fits n (segs [] chunks.flatten)) :
    frameResults (Acc.run decF ⟨n, []⟩ chunks).1
        = (segs [] chunks.flatten).1.map
            (fun s => match decF (s ++ [0]) with | some d => Outcome.ok d | none => .deserErr) ∧
      (Acc.run decF ⟨n, []⟩ chunks).2 = ⟨n, (segs [] chunks.flatten).2⟩ ∧
      FeedRes.panic ∉ (Acc.run decF ⟨n, []⟩ chunks).1 ∧
      Outcome.overFull ∉ frameResults (Acc.run decF ⟨n, []⟩ chunks).1 := by
  obtain ⟨h1, h2, h3⟩ := acc_delivers_from n decF [] chunks hfit
  refine ⟨h1, h2, h3, ?_⟩
  rw [h1]
  simp only [List.mem_map, not_exists, not_and]
  intro s _ hs
  unfold isolated at hs
  cases hd : decF (s ++ [0]) <;> simp [hd] at hs

/-- The chunking does not matter: two chunkings of the same stream give the same
frame outcomes and the same final accumulator. -/
theorem acc_delivers_chunking_irrelevant (n : Nat) (decF : List Byte → Option α)
    (chunks chunks' : List (List Byte)) (hsame : chunks.flatten = chunks'.flatten)
    (hfit : Fits n (segs [] chunks.flatten)) :
    frameResults (Acc.run decF ⟨n, []⟩ chunks).1 = frameResults (Acc.run decF ⟨n, []⟩ chunks').1 ∧
      (Acc.run decF ⟨n, []⟩ chunks).2 = (Acc.run decF ⟨n, []⟩ chunks').2 := by
  obtain ⟨h1, h2, _⟩ := acc_delivers_from n decF [] chunks hfit
  obtain ⟨h1', h2', _⟩ := acc_delivers_from n decF [] chunks' (hsame ▸ hfit)
  rw [h1, h2, h1', h2', hsame]
  exact ⟨rfl, rfl⟩

/-! ### Non-vacuity

Capacity 4, decoder "sum of the bytes before the sentinel, error on an empty
frame or a frame not ending in 0"; the stream `1 2 0 | 3 4 5 0 | 6` (two frames
and an unterminated tail) is cut in the middle of both frames and right before
a sentinel.  -/

/-- A concrete decoder for the examples. -/
def exampleDec (frame : List Byte) : Option Nat :=
  match frame.reverse with
  | 0 :: x :: xs => some ((x :: xs).foldl (fun acc b => acc + b.toNat) 0)
  | _ => none

/-- The hypotheses of `acc_delivers` are satisfiable by a chunking that cuts
frames in the middle … -/
example : Fits 4 (segs [] [[1], [2, 0, 3, 4], [5], [0, 6]].flatten) := by
  refine ⟨?_, ?_⟩ <;> decide

/-- … the specification side of that stream … -/
example : segs [] [[1], [2, 0, 3, 4], [5], [0, 6]].flatten = ([[1, 2], [3, 4, 5]], [6]) := by
  decide

/-- … and the model, evaluated, does deliver both frames once and keeps the tail. -/
example :
    (frameResults (Acc.run exampleDec ⟨4, []⟩ [[1], [2, 0, 3, 4], [5], [0, 6]]).1,
      (Acc.run exampleDec ⟨4, []⟩ [[1], [2, 0, 3, 4], [5], [0, 6]]).2)
      = ([.ok 3, .ok 12], ⟨4, [6]⟩) := by
  decide

/-- The raw feed results of the same run (every call, including `consumed`). -/
example :
    (Acc.run exampleDec ⟨4, []⟩ [[1], [2, 0, 3, 4], [5], [0, 6]]).1
      = [.consumed, .success 3 [3, 4], .consumed, .consumed, .success 12 [6], .consumed] := by
  decide

/-- The capacity bound is sharp: with capacity 3 the second frame (3 bytes + its
sentinel) is reported `overFull`, so the `Fits` hypothesis cannot be dropped. -/
example :
    frameResults (Acc.run exampleDec ⟨3, []⟩ [[1], [2, 0, 3, 4], [5], [0, 6]]).1
      = [.ok 3, .overFull] := by
  decide

end Postcard
