import Postcard.Model.Entry
import Postcard.Lemmas.RoundTrip
import Postcard.Lemmas.Flavor
import Postcard.Props.C01
/-
  Postcard.Props.C02 — "Encoder emits exactly the published wire format."

  * `enc_eq_spec`: on every well-typed value the model of the Rust serializer
    (`enc`, widths / fuel / `to_le_bytes` and all) equals `Spec.encode`, the
    transcription of spec/src/wire-format.md.
  * `enc_name_irrelevant`: names and arities never reach the wire.
  * `seq_unknown_len`, `collect_str_eq`: the serializer methods whose behaviour
    is not a function of a `Val`.
-/
namespace Postcard

/-! ## 3. encoder = specification -/

theorem enc_eq_spec (v : Val) (t : Ty) (h : hasTy v t = true) : enc v = Spec.encode v :=
  enc_spec v t h

theorem encList_eq_spec_tys (vs : List Val) (ts : List Ty) (h : hasTys vs ts = true) :
    encList vs = Spec.encodeAll vs := encList_spec_tys vs ts h

theorem encList_eq_spec_all (vs : List Val) (t : Ty) (h : hasTyAll vs t = true) :
    encList vs = Spec.encodeAll vs := encList_spec_all vs t h

theorem encList_eq_spec_kv (kvs : List Val) (isKey : Bool) (k v : Ty)
    (h : hasTyKV isKey kvs k v = true) : encList kvs = Spec.encodeAll kvs :=
  encList_spec_kv kvs isKey k v h

/-- every encode entry point that succeeds returns the specified bytes. -/
theorem entry_points_eq_spec (v : Val) (t : Ty) (h : hasTy v t = true) :
    toAllocVec v = .ok (Spec.encode v) ∧
    (∀ buf out, (toSlice v buf).2 = .ok out → out = Spec.encode v) ∧
    (∀ cap out, (toHVec cap v).2 = .ok out → out = Spec.encode v) := by
  rw [← enc_eq_spec v t h]
  exact ⟨toAllocVec_eq v, (encode_entry_out v).2.1, (encode_entry_out v).2.2⟩

example : Spec.encode C01.exV = [0xAC, 0x02, 1, 2, 0x68, 0x69, 1, 3] := by
  simp [C01.exV, Spec.encode, Spec.encodeAll, Spec.varint, Spec.zigzag]
example : enc C01.exV = Spec.encode C01.exV := enc_eq_spec _ _ C01.ex_hasTy
-- the typing hypothesis matters: an out-of-range `u16` is truncated by the
-- width-limited Rust loop but not by the specification's varint
example : enc (.u .w16 (2 ^ 21)) ≠ Spec.encode (.u .w16 (2 ^ 21)) := by
  simp [enc, Spec.encode, encVarint, varintMax, encVarintLoop, IntW.bits, Spec.varint]

/-! ## 4. names and arities are not on the wire -/

theorem enc_name_irrelevant :
    (∀ vs, enc (.tuple vs) = enc (.tupleStruct vs) ∧ enc (.tuple vs) = enc (.struct vs)) ∧
    (∀ v, enc (.newtypeStruct v) = enc v) ∧
    (enc .unit = [] ∧ enc .unitStruct = []) ∧
    (∀ idx vs, enc (.tupleVariant idx vs) = enc (.structVariant idx vs)) := by
  refine ⟨fun vs => ⟨?_, ?_⟩, fun v => ?_, ⟨?_, ?_⟩, fun idx vs => ?_⟩ <;> simp only [enc]

/-- structs, tuple structs and tuples are the concatenation of their fields. -/
theorem enc_fields (vs : List Val) : enc (.struct vs) = (vs.map enc).flatten := by
  simp only [enc]
  induction vs with
  | nil => simp [encList]
  | cons v vs ih => simp [encList, ih]

example : enc (.tuple [.bool true, .u .w8 7]) = enc (.struct [.bool true, .u .w8 7]) :=
  (enc_name_irrelevant.1 _).2
example : enc (.struct [.bool true, .u .w8 7]) = [1, 7] := by decide

/-! ## 5. unknown-length sequences / maps, `collect_str` -/

/-- `serialize_seq(None)` / `serialize_map(None)` fail with
`SerializeSeqLengthUnknown` before anything is handed to the flavour. -/
theorem seq_unknown_len : serSeqHeader none = .error .seqLengthUnknown := rfl

/-- with a known length exactly the `usize` varint of the length is emitted. -/
theorem seq_known_len (n : Nat) : serSeqHeader (some n) = .ok [.extend (encVarint 64 n)] := rfl

/-- the header of `.seq vs` / `.map kvs` in `emit` is `serSeqHeader (some len)`. -/
theorem emit_seq_header (vs : List Val) :
    (∃ hdr, serSeqHeader (some vs.length) = .ok hdr ∧ emit (.seq vs) = hdr ++ emitList vs) ∧
    (∃ hdr, serSeqHeader (some (vs.length / 2)) = .ok hdr ∧ emit (.map vs) = hdr ++ emitList vs) :=
  ⟨⟨_, rfl, by simp [emit]⟩, ⟨_, rfl, by simp [emit]⟩⟩

private theorem sum_length_flatten (l : List (List Byte)) :
    (l.map List.length).sum = l.flatten.length := List.length_flatten.symm

private theorem flatMap_extend (l : List (List Byte)) :
    (l.map Chunk.extend).flatMap Chunk.bytes = l.flatten := by
  induction l with
  | nil => rfl
  | cons a l ih => simp [Chunk.bytes, ih]

/-- `collect_str`: if the two formatting passes produce the same text, the
bytes handed to the flavour are those of `serialize_str` on that text. -/
theorem collect_str_eq (pass1 pass2 : List (List Byte)) (h : pass1.flatten = pass2.flatten) :
    (collectStr pass1 pass2).flatMap Chunk.bytes = enc (.str pass2.flatten) := by
  simp only [collectStr, List.flatMap_cons, Chunk.bytes, flatMap_extend, sum_length_flatten, h, enc]

/-- …and only the total text matters, not how `Display` chops it into
`write_str` pieces. -/
example : (collectStr [[0x68], [0x69]] [[0x68, 0x69]]).flatMap Chunk.bytes
    = enc (.str [0x68, 0x69]) := collect_str_eq _ _ rfl
example : (collectStr [[0x68], [0x69]] [[0x68, 0x69]]).flatMap Chunk.bytes = [2, 0x68, 0x69] := by
  decide

end Postcard

namespace Postcard

/-- C02: an iterator whose length is not known up front (size hint not exact) handed to
`collect_seq` / `collect_map` is refused, nothing is emitted. -/
theorem collect_unknown_refused (lo : Nat) (hi : Option Nat) (h : hi ≠ some lo) :
    collectHeader lo hi = .error .seqLengthUnknown := by
  unfold collectHeader iteratorLenHint
  cases hi with
  | none => rfl
  | some k =>
    have : lo ≠ k := fun e => h (by rw [e])
    simp [this, serSeqHeader]

/-- … and an exact size hint is framed with exactly that count. -/
theorem collect_exact (n : Nat) :
    collectHeader n (some n) = .ok [.extend (encVarint 64 n)] := by
  simp [collectHeader, iteratorLenHint, serSeqHeader]

end Postcard
