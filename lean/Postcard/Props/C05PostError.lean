import Postcard.Model.Flavor
import Postcard.Model.Cobs
/-
  Postcard.Props.C05PostError — what the storage flavours do when a caller keeps driving them AFTER they have
  reported buffer-full (the `flavseq` op): for the plain storages `Slice` / `HVec`, over EVERY sequence of
  `try_push` / `try_extend` calls - whatever mixture of successes and failures - the cursor stays inside the
  buffer, the buffer keeps its length, a refused call changes nothing, and `finalize` hands back the bytes written
  so far (never a panic).  And, as a recorded OBSERVATION about the unchanged code that the model reproduces:
  `Cobs<Slice>::finalize` after a refused push panics (it back-patches a placeholder whose push was refused).
-/
namespace Postcard

/-- one call of the public Flavor API -/
inductive Call
  | push (b : Byte)
  | extend (bs : List Byte)

def Call.apply {σ ω} (F : Flavor σ ω) (s : σ) : Call → σ × Option Err
  | .push b => F.tryPush s b
  | .extend bs => F.tryExtend s bs

/-- drive the flavour through ALL the calls, continuing after errors -/
def driveAll {σ ω} (F : Flavor σ ω) (s : σ) : List Call → σ
  | [] => s
  | c :: cs => driveAll F (c.apply F s).1 cs

theorem writeAt_length' (mem : List Byte) (pos : Nat) (bs : List Byte) (h : pos + bs.length ≤ mem.length) :
    (writeAt mem pos bs).length = mem.length := by
  simp only [writeAt, List.length_append, List.length_take, List.length_drop]
  omega

/-- one call keeps the `Slice` invariant: buffer length unchanged, cursor inside it; a refused call changes
nothing at all. -/
theorem slice_call_inv (s : SliceSt) (c : Call) (h : s.cursor ≤ s.mem.length) :
    let r := c.apply Slice s
    r.1.mem.length = s.mem.length ∧ r.1.cursor ≤ r.1.mem.length ∧ s.cursor ≤ r.1.cursor ∧
      (r.2 ≠ none → r.1 = s) := by
  cases c with
  | push b =>
    simp only [Call.apply, Slice]
    split
    · exact ⟨rfl, h, Nat.le_refl _, fun _ => rfl⟩
    · rename_i hne
      refine ⟨by simp, ?_, by simp, fun hc => absurd rfl hc⟩
      simp only [List.length_set]; omega
  | extend bs =>
    simp only [Call.apply, Slice]
    split
    · exact ⟨rfl, h, Nat.le_refl _, fun _ => rfl⟩
    · rename_i hfit
      have hlen : (writeAt s.mem s.cursor bs).length = s.mem.length :=
        writeAt_length' _ _ _ (by omega)
      refine ⟨hlen, ?_, by simp, fun hc => absurd rfl hc⟩
      simp only [hlen]; omega

/-- **C05 (calls after an error, `Slice`)** over every call sequence from a fresh slice of `cap` bytes:
the buffer keeps its length, the cursor stays inside it, and `finalize` returns `Ok` with exactly the bytes in
front of the cursor - never a panic, never more than the buffer holds. -/
theorem slice_any_history (mem : List Byte) (calls : List Call) :
    let s := driveAll Slice ⟨mem, 0⟩ calls
    s.mem.length = mem.length ∧ s.cursor ≤ mem.length ∧
      (Slice.finalize s).2 = .ok (s.mem.take s.cursor) ∧ (s.mem.take s.cursor).length ≤ mem.length := by
  have key : ∀ (calls : List Call) (s : SliceSt), s.cursor ≤ s.mem.length →
      (driveAll Slice s calls).mem.length = s.mem.length ∧
      (driveAll Slice s calls).cursor ≤ s.mem.length := by
    intro calls
    induction calls with
    | nil => intro s h; exact ⟨rfl, h⟩
    | cons c cs ih =>
      intro s h
      obtain ⟨h1, h2, _, _⟩ := slice_call_inv s c h
      obtain ⟨h3, h4⟩ := ih (c.apply Slice s).1 h2
      simp only [driveAll]
      exact ⟨h3.trans h1, by rw [h1] at h4; exact h4⟩
  intro s
  obtain ⟨h1, h2⟩ := key calls ⟨mem, 0⟩ (Nat.zero_le _)
  refine ⟨h1, h2, rfl, ?_⟩
  simp only [List.length_take]
  exact Nat.le_trans (Nat.min_le_left _ _) h2

/-- the same for `heapless::Vec`: the length never exceeds the capacity, whatever is called after an error. -/
theorem hvec_any_history (cap : Nat) (calls : List Call) :
    let s := driveAll HVec ⟨cap, []⟩ calls
    s.cap = cap ∧ s.vec.length ≤ cap ∧ (HVec.finalize s).2 = .ok s.vec := by
  have key : ∀ (calls : List Call) (s : HVecSt), s.vec.length ≤ s.cap →
      (driveAll HVec s calls).cap = s.cap ∧ (driveAll HVec s calls).vec.length ≤ s.cap := by
    intro calls
    induction calls with
    | nil => intro s h; exact ⟨rfl, h⟩
    | cons c cs ih =>
      intro s h
      have hstep : (c.apply HVec s).1.cap = s.cap ∧ (c.apply HVec s).1.vec.length ≤ (c.apply HVec s).1.cap := by
        cases c with
        | push b =>
          simp only [Call.apply, HVec]
          split
          · refine ⟨rfl, ?_⟩; simp only [List.length_append, List.length_singleton]; omega
          · exact ⟨rfl, h⟩
        | extend bs =>
          simp only [Call.apply, HVec]
          split
          · exact ⟨rfl, h⟩
          · refine ⟨rfl, ?_⟩; simp only [List.length_append]; omega
      obtain ⟨h3, h4⟩ := ih (c.apply HVec s).1 hstep.2
      simp only [driveAll]
      exact ⟨h3.trans hstep.1, by rw [hstep.1] at h4; exact h4⟩
  intro s
  obtain ⟨h1, h2⟩ := key calls ⟨cap, []⟩ (Nat.zero_le _)
  exact ⟨h1, h2, rfl⟩

/-- OBSERVATION (unchanged code, reproduced by the model): `Cobs<Slice>` over a one-byte buffer - `try_new`
takes the only byte for its placeholder, `try_push(0)` is refused (`buffer-full`), and `finalize` then PANICS
(the encoder state already points at a second placeholder that was never pushed; `self.flav[idx]` is out of
range).  Outside C05's statement (DESIGN 8); not compared by `flavseq`. -/
example :
    let st := (Cobs.tryNew Slice ⟨[0xA5], 0⟩).1
    let st2 := ((Cobs Slice).tryPush st 0)
    (st2.2 = some .bufferFull) ∧ (((Cobs Slice).finalize st2.1).2 = .error .panic) :=
  ⟨rfl, rfl⟩

end Postcard
