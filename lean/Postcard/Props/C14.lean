import Postcard.Lemmas.Conforms
/-
  Property C14 — "A type's Schema describes exactly what its Serialize writes."

  Model
  * Model/CallTree.lean     `CT` (serde calls with the names handed in), `CT.erase`,
                            `CT.wfVal`, `ctSchema` (call tree of a schema value);
  * Model/SchemaImpls.lean  `RTy` (the Rust types with both impls), `schemaOf repaired`
                            (the `Schema` impl tables and `#[derive(Schema)]`;
                            `repaired = true`: the current derive, `false`: the
                            derive before the raw-identifier repair),
                            `callTree` (serde's / serde_derive's / heapless' /
                            uuid's / chrono's / nalgebra's `Serialize`: MODELLED),
                            `RTy.wf` (scope), `RTy.namesOk` (name restriction
                            needed by the unrepaired derive only).
  Specification
  * Spec/Conforms.lean      `conforms`, `schemaParse` / `schemaRead`.

  Results
  * `schema_conforms`          every impl, every value: the call tree conforms to
                               the declared schema.  FULL statement for the current
                               (repaired) `#[derive(Schema)]`: `schemaOf true`; raw
                               identifiers (`r#type`) are in scope;
  * `schema_conforms_unrepaired_partial`  the derive BEFORE the repair
                               (`schemaOf false`): the same, EXCEPT derived types that
                               use a raw identifier as a field or variant name;
  * `raw_ident_not_conforms`, `raw_field_never_conforms`,
    `raw_variant_not_conforms` for the unrepaired derive the exception was real
                               (the FINDING that led to the repair);
  * `schema_reader`, `schema_reader_bytes`  a reader that knows only the schema parses
                               every conforming encoding and consumes it exactly
                               (all kinds, including `.schema`);
  * `callTree_wfVal`, `schema_describes_serialize`  the two composed.
-/
namespace Postcard

/-! ## 1. the schema of a type describes what its `Serialize` emits -/

/-- C14 (conformance).  For every Rust type `r` that has both impls (`RTy`, in
scope `RTy.wf`: tuple arity 1–6, array length ≤ 32) and every value `v` of it,
the serde call tree `c` that `Serialize` emits — kinds, field names and order,
variant names and indices, arity, element types — conforms to
`<r as Schema>::SCHEMA` as declared by the current (repaired) derive,
`schemaOf true`.

FULL: no condition on identifiers; derived structs / enums may use raw
identifiers (`r#type`) as field, variant or type names. -/
theorem schema_conforms (r : RTy) (v : RV) (c : CT) (hwf : RTy.wf r = true)
    (h : callTree r v = some c) : conforms c (schemaOf true r) = true :=
  sc_val true r hwf (RTy.namesOk_true r) v c h

/-- tuples / unnamed fields, pointwise -/
theorem schema_conforms_list (ts : List RTy) (vs : List RV) (cs : List CT)
    (hwf : RTy.wfList ts = true) (h : callTrees ts vs = some cs) :
    conformsList cs (schemaOfList true ts) = true :=
  sc_list true ts hwf (RTy.namesOkList_true ts) vs cs h

/-- both derive versions at once: conformance holds whenever every field and
variant identifier in `r` is named as serde_derive names it
(`RTy.namesOk repaired`: vacuous for `repaired = true`, "no raw identifier" for
`repaired = false`). -/
theorem schema_conforms_of_namesOk (repaired : Bool) (r : RTy) (v : RV) (c : CT)
    (hwf : RTy.wf r = true) (hn : RTy.namesOk repaired r = true)
    (h : callTree r v = some c) : conforms c (schemaOf repaired r) = true :=
  sc_val repaired r hwf hn v c h

/-- the derive BEFORE the repair (`schemaOf false`).  PARTIAL: restricted to
derive inputs without a raw identifier as a field or variant name
(`RTy.namesOk false`, i.e. `Ident.plain` everywhere); outside that restriction
the statement is false (`raw_ident_not_conforms`). -/
theorem schema_conforms_unrepaired_partial (r : RTy) (v : RV) (c : CT) (hwf : RTy.wf r = true)
    (hplain : RTy.namesOk false r = true) (h : callTree r v = some c) :
    conforms c (schemaOf false r) = true :=
  sc_val false r hwf hplain v c h

/-! ### FINDING (repaired): raw identifiers

Before the repair `#[derive(Schema)]` named fields and variants with
`ident.to_string()`, which keeps the `r#` of a raw identifier;
`#[derive(Serialize)]` uses the unraw'ed identifier.  Observed on the real
crates (recording serializer) with the UNREPAIRED derive:
`#[derive(Serialize, Schema)] struct Raw { r#type: u8, r#fn: u8 }`
  SCHEMA = Struct { name: "Raw", data: Struct([NamedField { name: "r#type", ty: U8 },
                                               NamedField { name: "r#fn", ty: U8 }]) }
  calls  = serialize_struct("Raw", 2); serialize_field("type", 1u8); serialize_field("fn", 2u8)
`enum RawEn { r#type, r#Match(u8) }`: SCHEMA variant names "r#type", "r#Match";
  calls = serialize_unit_variant("RawEn", 0, "type") / serialize_newtype_variant("RawEn", 1, "Match", _).
The derive now calls `.unraw()` on field and variant identifiers
(`schemaOf true`); the three theorems below are about `schemaOf false`. -/

/-- `struct Raw { r#type: u8, r#fn: u8 }` -/
def C14.rawStruct : RTy :=
  .dstruct (.ofString "Raw")
    (.named [.mk ⟨true, ascii "type"⟩ (.uint .w8), .mk ⟨true, ascii "fn"⟩ (.uint .w8)])

/-- `enum RawEn { r#type, r#Match(u8) }` -/
def C14.rawEnum : RTy :=
  .denum (.ofString "RawEn")
    [.mk ⟨true, ascii "type"⟩ .unit, .mk ⟨true, ascii "Match"⟩ (.unnamed [.uint .w8])]

/-- UNREPAIRED derive: the negation of conformance, on a concrete witness:
`Raw { r#type: 1, r#fn: 2 }` serialises as a struct with fields "type", "fn";
its pre-repair schema says "r#type", "r#fn".  The witness is in scope
(`RTy.wf`); what it violates is the name restriction `RTy.namesOk false`. -/
theorem raw_ident_not_conforms :
    schemaOf false C14.rawStruct =
      .struct (ascii "Raw") (.struct [.mk (ascii "r#type") .u8, .mk (ascii "r#fn") .u8]) ∧
    callTree C14.rawStruct (.list [.nat 1, .nat 2]) =
      some (.struct (ascii "Raw") [ascii "type", ascii "fn"] [.u .w8 1, .u .w8 2]) ∧
    (∃ c, callTree C14.rawStruct (.list [.nat 1, .nat 2]) = some c ∧
      conforms c (schemaOf false C14.rawStruct) = false) ∧
    RTy.wf C14.rawStruct = true ∧ RTy.namesOk false C14.rawStruct = false := by
  refine ⟨by rfl, by rfl, ⟨_, rfl, by decide⟩, by decide, by decide⟩

/-- UNREPAIRED derive: the same for variant names: `RawEn::r#Match(1)`. -/
theorem raw_variant_not_conforms :
    schemaOf false C14.rawEnum =
      .enum (ascii "RawEn") [.mk (ascii "r#type") .unit, .mk (ascii "r#Match") (.newtype .u8)] ∧
    callTree C14.rawEnum (.variant 1 [.nat 1]) =
      some (.newtypeVariant (ascii "RawEn") 1 (ascii "Match") (.u .w8 1)) ∧
    (∃ c, callTree C14.rawEnum (.variant 1 [.nat 1]) = some c ∧
      conforms c (schemaOf false C14.rawEnum) = false) ∧
    RTy.wf C14.rawEnum = true ∧ RTy.namesOk false C14.rawEnum = false := by
  refine ⟨by rfl, by rfl, ⟨_, rfl, by decide⟩, by decide, by decide⟩

/-- UNREPAIRED derive: not an accident of the witness: a struct whose FIRST
field is a raw identifier conforms for NO value, whatever the field types. -/
theorem raw_field_never_conforms (sid : Ident) (fname : Name) (t : RTy) (fs : List DeriveField)
    (v : RV) (c : CT)
    (h : callTree (.dstruct sid (.named (.mk ⟨true, fname⟩ t :: fs))) v = some c) :
    conforms c (schemaOf false (.dstruct sid (.named (.mk ⟨true, fname⟩ t :: fs)))) = false := by
  cases v <;> simp [callTree] at h
  rename_i vs
  simp [callData] at h
  obtain ⟨cs, hcs, rfl⟩ := h
  cases vs with
  | nil => simp [callNamed] at hcs
  | cons v vs =>
    simp only [callNamed] at hcs
    split at hcs
    · simp at hcs; subst hcs
      have hne : ¬ fname = ascii "r#" ++ fname := by
        intro he
        have := congrArg List.length he
        have h2 : (ascii "r#").length = 2 := by decide
        rw [List.length_append, h2] at this
        omega
      simp [schemaOf, schemaOfFields, schemaOfNamed, Head.struct, serdeFieldNames, conforms,
        conformsFields, Ident.schemaName, Ident.rawName, Ident.unrawName, Ident.serdeName, hne]
    · simp at hcs

/-- the wire format carries no names, so the mismatch was invisible to a
schema-driven reader: the bytes of the witness were still parsed exactly. -/
example : schemaRead (schemaOf false C14.rawStruct) ([1, 2] ++ [9]) =
    .ok (.struct [.u .w8 1, .u .w8 2], [9]) := by rfl

/-! ### the repaired derive on the former witnesses -/

-- SCHEMA (repaired): Struct { name: "Raw", data: Struct([{ "type", U8 }, { "fn", U8 }]) }
example : schemaOf true C14.rawStruct =
    .struct (ascii "Raw") (.struct [.mk (ascii "type") .u8, .mk (ascii "fn") .u8]) := by rfl
example : schemaOf true C14.rawEnum =
    .enum (ascii "RawEn") [.mk (ascii "type") .unit, .mk (ascii "Match") (.newtype .u8)] := by rfl
-- the former counterexamples DO conform under the repaired derive …
example : (callTree C14.rawStruct (.list [.nat 1, .nat 2])).map
    (conforms · (schemaOf true C14.rawStruct)) = some true := by decide
example : ∀ v ∈ [RV.variant 0 [], .variant 1 [.nat 1]],
    (callTree C14.rawEnum v).map (conforms · (schemaOf true C14.rawEnum)) = some true := by decide
-- … and are instances of the full theorem
example : conforms (.struct (ascii "Raw") [ascii "type", ascii "fn"] [.u .w8 1, .u .w8 2])
    (schemaOf true C14.rawStruct) = true :=
  schema_conforms C14.rawStruct (.list [.nat 1, .nat 2]) _ (by decide) (by rfl)
example : conforms (.newtypeVariant (ascii "RawEn") 1 (ascii "Match") (.u .w8 1))
    (schemaOf true C14.rawEnum) = true :=
  schema_conforms C14.rawEnum (.variant 1 [.nat 1]) _ (by decide) (by rfl)
example : RTy.wf C14.rawStruct = true ∧ RTy.wf C14.rawEnum = true := by decide
-- a raw identifier as the TYPE name (`struct r#Type { r#fn: u8 }`): the type name keeps its
-- `r#` in the schema (`name.to_string()`), serde drops it; type names are not compared
example : (callTree (.dstruct ⟨true, ascii "Type"⟩ (.named [.mk ⟨true, ascii "fn"⟩ (.uint .w8)]))
      (.list [.nat 1])).map
    (fun c => (c, conforms c (schemaOf true
      (.dstruct ⟨true, ascii "Type"⟩ (.named [.mk ⟨true, ascii "fn"⟩ (.uint .w8)]))))) =
    some (.struct (ascii "Type") [ascii "fn"] [.u .w8 1], true) := by rfl
example : schemaOf true (.dstruct ⟨true, ascii "Type"⟩ (.named [.mk ⟨true, ascii "fn"⟩ (.uint .w8)]))
    = .struct (ascii "r#Type") (.struct [.mk (ascii "fn") .u8]) := by rfl

/-! ## 2. a reader that knows only the schema -/

/-- C14 (reader).  If the call tree `c` conforms to the schema `s` and is a
well-formed value (integers in range, valid UTF-8, scalar `char`s, lengths
`< 2^64`, variant indices `< 2^32`: `CT.wfVal`), then the schema-driven reader,
given enough fuel for embedded schema values (`fuel` more than the encoding's
length always suffices), parses the encoding of `c` followed by anything:
it returns the name-free skeleton of `c` and exactly the trailing bytes.
All schema kinds, including `.schema`. -/
theorem schema_reader (c : CT) (s : Schema) (h : conforms c s = true) (hw : CT.wfVal c = true)
    (fuel : Nat) (hf : (enc c.erase).length < fuel) (rest : List Byte) :
    schemaParse fuel s (enc c.erase ++ rest) = .ok (c.erase, rest) :=
  sr_val c s h hw fuel hf rest

/-- fuel-free form (`schemaRead` supplies `bs.length + 1`). -/
theorem schema_reader_bytes (c : CT) (s : Schema) (h : conforms c s = true)
    (hw : CT.wfVal c = true) (rest : List Byte) :
    schemaRead s (enc c.erase ++ rest) = .ok (c.erase, rest) := by
  unfold schemaRead
  exact schema_reader c s h hw _ (by rw [List.length_append]; omega) rest

/-- `conforms _ .schema` says what it should: the value is, up to type names,
the call tree of a schema value, hence its bytes are that schema's bytes. -/
theorem conforms_schema_iff (c : CT) :
    conforms c .schema = true ↔
      ∃ s', toSchema c = some s' ∧ CT.eqModTy c (ctSchema true s') = true := by
  rw [conforms_schema]
  unfold isSchemaTree
  constructor
  · intro h
    split at h
    · rename_i s' hs; exact ⟨s', hs, h⟩
    · simp at h
  · rintro ⟨s', hs, he⟩
    simp [hs, he]

theorem conforms_schema_erase (c : CT) (h : conforms c .schema = true) :
    ∃ s', c.erase = serOwned s' := by
  rw [conforms_schema] at h; exact isSchemaTree_erase h

/-- both families' call trees of every schema value conform to `.schema`. -/
theorem ctSchema_conforms (o : Bool) (s : Schema) : conforms (ctSchema o s) .schema = true := by
  rw [conforms_schema]; exact isSchemaTree_ctSchema o s

/-! ## 3. composition -/

/-- whatever `callTree` emits is a well-formed value (no scope condition). -/
theorem callTree_wfVal (r : RTy) (v : RV) (c : CT) (h : callTree r v = some c) :
    CT.wfVal c = true :=
  cw_val r v c h

/-- C14 (consequence).  For every in-scope type and every value, a reader that
is given nothing but `T::SCHEMA` parses the postcard encoding of the value and
consumes it exactly. -/
theorem schema_describes_serialize (r : RTy) (v : RV) (c : CT) (hwf : RTy.wf r = true)
    (h : callTree r v = some c) (rest : List Byte) :
    schemaRead (schemaOf true r) (enc c.erase ++ rest) = .ok (c.erase, rest) :=
  schema_reader_bytes c (schemaOf true r) (schema_conforms r v c hwf h)
    (callTree_wfVal r v c h) rest

/-! ## 4. non-vacuity: concrete types

`SCHEMA`, call sequence and bytes in the comments are the output of the real
crates (postcard-schema with all integrations, serde 1.0.228, a recording
`Serializer`, `postcard::to_stdvec`). -/

section Examples

private def i32T : RTy := .sint .w32
/-- `#[derive(Serialize, Schema)] struct Point { x: i32, y: i32 }` -/
private def point : RTy :=
  .dstruct (.ofString "Point") (.named [.mk (.ofString "x") i32T, .mk (.ofString "y") i32T])
/-- `enum En { A, B(u8), C(u8, u16), D { p: Point, q: bool }, E(), F {} }` -/
private def en : RTy :=
  .denum (.ofString "En")
    [.mk (.ofString "A") .unit, .mk (.ofString "B") (.unnamed [.uint .w8]),
     .mk (.ofString "C") (.unnamed [.uint .w8, .uint .w16]),
     .mk (.ofString "D") (.named [.mk (.ofString "p") point, .mk (.ofString "q") .bool]),
     .mk (.ofString "E") (.unnamed []), .mk (.ofString "F") (.named [])]
/-- `struct Gen<T, U> { a: T, b: Option<U> }` at `T = u8, U = NT`, `struct NT(u16)`;
`struct Lt<'a> { s: &'a str, b: &'a [u8] }` -/
private def nt : RTy := .dstruct (.ofString "NT") (.unnamed [.uint .w16])
private def gen : RTy :=
  .dstruct (.ofString "Gen") (.named [.mk (.ofString "a") (.uint .w8),
    .mk (.ofString "b") (.option nt)])
private def lt : RTy :=
  .dstruct (.ofString "Lt") (.named [.mk (.ofString "s") (.ref .str),
    .mk (.ofString "b") (.ref (.slice (.uint .w8)))])

example : RTy.wf point = true ∧ RTy.wf en = true ∧ RTy.wf gen = true ∧ RTy.wf lt = true := by
  decide

-- SCHEMA: Struct { name: "Point", data: Struct([NamedField { name: "x", ty: I32 }, { "y", I32 }]) }
example : schemaOf true point =
    .struct (ascii "Point") (.struct [.mk (ascii "x") .i32, .mk (ascii "y") .i32]) := by rfl
-- CALLS: struct[Point,2](x=i32(1), y=i32(-1));  BYTES: [2, 1]
example : callTree point (.list [.int 1, .int (-1)]) =
    some (.struct (ascii "Point") [ascii "x", ascii "y"] [.i .w32 1, .i .w32 (-1)]) := by rfl
example : (callTree point (.list [.int 1, .int (-1)])).map (conforms · (schemaOf true point))
    = some true := by decide
example : (callTree point (.list [.int 1, .int (-1)])).map (fun c => enc c.erase)
    = some [2, 1] := by decide
example : schemaRead (schemaOf true point) [2, 1, 7] = .ok (.struct [.i .w32 1, .i .w32 (-1)], [7]) := by
  rfl

-- all four variant kinds (+ the empty tuple / empty struct variants)
example : schemaOf true en = .enum (ascii "En")
    [.mk (ascii "A") .unit, .mk (ascii "B") (.newtype .u8), .mk (ascii "C") (.tuple [.u8, .u16]),
     .mk (ascii "D") (.struct [.mk (ascii "p") (schemaOf true point), .mk (ascii "q") .bool]),
     .mk (ascii "E") (.tuple []), .mk (ascii "F") (.struct [])] := by rfl
-- CALLS: unit_variant[En,0,A]; newtype_variant[En,1,B](u8(1)); tuple_variant[En,2,C,2](u8(1), u16(2));
--        struct_variant[En,3,D,2](p=struct[Point,2](x=i32(0), y=i32(0)), q=bool(true));
--        tuple_variant[En,4,E,0](); struct_variant[En,5,F,0]()
example : callTree en (.variant 0 []) = some (.unitVariant (ascii "En") 0 (ascii "A")) := by rfl
example : callTree en (.variant 1 [.nat 1]) =
    some (.newtypeVariant (ascii "En") 1 (ascii "B") (.u .w8 1)) := by rfl
example : callTree en (.variant 2 [.nat 1, .nat 2]) =
    some (.tupleVariant (ascii "En") 2 (ascii "C") [.u .w8 1, .u .w16 2]) := by rfl
example : callTree en (.variant 3 [.list [.int 0, .int 0], .bool true]) =
    some (.structVariant (ascii "En") 3 (ascii "D") [ascii "p", ascii "q"]
      [.struct (ascii "Point") [ascii "x", ascii "y"] [.i .w32 0, .i .w32 0], .bool true]) := by
  rfl
example : callTree en (.variant 4 []) = some (.tupleVariant (ascii "En") 4 (ascii "E") []) := by
  rfl
example : callTree en (.variant 5 []) =
    some (.structVariant (ascii "En") 5 (ascii "F") [] []) := by rfl
example : ∀ v ∈ [RV.variant 0 [], .variant 1 [.nat 1], .variant 2 [.nat 1, .nat 2],
      .variant 3 [.list [.int 0, .int 0], .bool true], .variant 4 [], .variant 5 []],
    (callTree en v).map (conforms · (schemaOf true en)) = some true := by decide
-- BYTES: [0]; [1, 1]; [2, 1, 2]; [3, 0, 0, 1]; [4]; [5]
example : [RV.variant 0 [], .variant 1 [.nat 1], .variant 2 [.nat 1, .nat 2],
      .variant 3 [.list [.int 0, .int 0], .bool true], .variant 4 [], .variant 5 []].map
    (fun v => (callTree en v).map (fun c => enc c.erase)) =
    [some [0], some [1, 1], some [2, 1, 2], some [3, 0, 0, 1], some [4], some [5]] := by decide
example : callTree en (.variant 6 []) = none := by decide     -- no such variant
example : callTree en (.variant 1 []) = none := by decide     -- wrong field count

-- generic + lifetime-carrying + nested
-- CALLS: struct[Gen,2](a=u8(1), b=some(newtype_struct[NT](u16(2))));  BYTES: [1, 1, 2]
example : callTree gen (.list [.nat 1, .some (.list [.nat 2])]) =
    some (.struct (ascii "Gen") [ascii "a", ascii "b"]
      [.u .w8 1, .some (.newtypeStruct (ascii "NT") (.u .w16 2))]) := by rfl
example : (callTree gen (.list [.nat 1, .some (.list [.nat 2])])).map
    (fun c => (conforms c (schemaOf true gen), enc c.erase)) = some (true, [1, 1, 2]) := by decide
-- CALLS: struct[Lt,2](s=str("a"), b=seq[Some(1)](u8(1)));  BYTES: [1, 97, 1, 1]
example : (callTree lt (.list [.text [97], .list [.nat 1]])).map
    (fun c => (conforms c (schemaOf true lt), enc c.erase)) = some (true, [1, 97, 1, 1]) := by decide

-- `Vec<Option<u16>>`: SCHEMA Seq(Option(U16)); CALLS seq[Some(2)](some(u16(1)), none); BYTES [2,1,1,0]
example : schemaOf true (.vec (.option (.uint .w16))) = .seq (.option .u16) := by rfl
example : callTree (.vec (.option (.uint .w16))) (.list [.some (.nat 1), .none]) =
    some (.seq [.some (.u .w16 1), .none]) := by rfl
example : (callTree (.vec (.option (.uint .w16))) (.list [.some (.nat 1), .none])).map
    (fun c => (conforms c (.seq (.option .u16)), enc c.erase)) = some (true, [2, 1, 1, 0]) := by
  decide
-- `[u8; 3]`: SCHEMA Tuple([U8, U8, U8]); CALLS tuple[3](u8(1), u8(2), u8(3)); BYTES [1, 2, 3]
example : schemaOf true (.array (.uint .w8) 3) = .tuple [.u8, .u8, .u8] := by rfl
example : (callTree (.array (.uint .w8) 3) (.list [.nat 1, .nat 2, .nat 3])).map
    (fun c => (conforms c (.tuple [.u8, .u8, .u8]), enc c.erase)) = some (true, [1, 2, 3]) := by
  decide
example : callTree (.array (.uint .w8) 3) (.list [.nat 1, .nat 2]) = none := by decide
-- `[u8; 0]`: SCHEMA Tuple([]); CALLS tuple[0](); BYTES []
example : (callTree (.array (.uint .w8) 0) (.list [])).map
    (fun c => (c, conforms c (schemaOf true (.array (.uint .w8) 0)))) = some (.tuple [], true) := by
  rfl
-- `(u8,)`: SCHEMA Tuple([U8]); CALLS tuple[1](u8(1)); BYTES [1]
example : schemaOf true (.tuple [.uint .w8]) = .tuple [.u8] := by rfl
example : callTree (.tuple [.uint .w8]) (.list [.nat 1]) = some (.tuple [.u .w8 1]) := by rfl
example : conforms (.tuple [.u .w8 1]) (.tuple [.u8]) = true := by decide
-- `Result<u8, i8>`: SCHEMA Enum { name: "Result<T, E>", [Ok: Newtype(U8), Err: Newtype(I8)] };
--   CALLS newtype_variant[Result,1,Err](i8(-1)); BYTES [1, 255]   (type names differ: not compared)
example : (callTree (.result (.uint .w8) (.sint .w8)) (.variant 1 [.int (-1)])).map
    (fun c => (c, conforms c (schemaOf true (.result (.uint .w8) (.sint .w8))), enc c.erase)) =
    some (.newtypeVariant (ascii "Result") 1 (ascii "Err") (.i .w8 (-1)), true, [1, 255]) := by
  rfl
-- `Range<u8>`: SCHEMA Struct { name: "Range<T>", Struct([start: U8, end: U8]) };
--   CALLS struct[Range,2](start=u8(1), end=u8(3)); BYTES [1, 3]
example : (callTree (.range (.uint .w8)) (.list [.nat 1, .nat 3])).map
    (fun c => (c, conforms c (schemaOf true (.range (.uint .w8))), enc c.erase)) =
    some (.struct (ascii "Range") [ascii "start", ascii "end"] [.u .w8 1, .u .w8 3], true,
      [1, 3]) := by rfl
-- `RangeTo<u8>`: CALLS struct[RangeTo,1](end=u8(3))
example : (callTree (.rangeTo (.uint .w8)) (.list [.nat 3])).map
    (fun c => (c, conforms c (schemaOf true (.rangeTo (.uint .w8))))) =
    some (.struct (ascii "RangeTo") [ascii "end"] [.u .w8 3], true) := by rfl
-- `HashMap<(u8,u8), bool>`: SCHEMA Map { key: Tuple([U8, U8]), val: Bool };
--   CALLS map[Some(1)](k:tuple[2](u8(1), u8(2)), v:bool(true)); BYTES [1, 1, 2, 1]
example : (callTree (.hashMap (.tuple [.uint .w8, .uint .w8]) .bool)
      (.list [.list [.nat 1, .nat 2], .bool true])).map
    (fun c => (conforms c (.map (.tuple [.u8, .u8]) .bool), enc c.erase)) =
    some (true, [1, 1, 2, 1]) := by decide
-- `Uuid`: SCHEMA ByteArray; CALLS bytes([7; 16]); BYTES [16, 7 × 16]
example : (callTree .uuid (.text (List.replicate 16 7))).map
    (fun c => (conforms c (schemaOf true .uuid), enc c.erase)) =
    some (true, 16 :: List.replicate 16 7) := by decide
-- `SMatrix<u8, 2, 3>::new(1,2,3,4,5,6)`: SCHEMA Tuple([U8; 6]);
--   CALLS tuple[6](u8(1), u8(4), u8(2), u8(5), u8(3), u8(6)); BYTES [1, 4, 2, 5, 3, 6]
example : (callTree (.matrix (.uint .w8) 2 3)
      (.list [.nat 1, .nat 4, .nat 2, .nat 5, .nat 3, .nat 6])).map
    (fun c => (conforms c (schemaOf true (.matrix (.uint .w8) 2 3)), enc c.erase)) =
    some (true, [1, 4, 2, 5, 3, 6]) := by decide
-- `Key`: SCHEMA Struct { name: "Key", data: Newtype(Tuple([U8; 8])) };
--   CALLS newtype_struct[Key](tuple[8](u8 …)); BYTES the 8 bytes
example : (callTree .key (.text [142, 119, 141, 181, 7, 11, 241, 8])).map
    (fun c => (conforms c (schemaOf true .key), enc c.erase)) =
    some (true, [142, 119, 141, 181, 7, 11, 241, 8]) := by decide
-- `DateTime<Utc>`: SCHEMA String; CALLS collect_str("1970-01-01T00:00:00Z"); BYTES [20, …]
example : (callTree .dateTime (.text (ascii "1970-01-01T00:00:00Z"))).map
    (fun c => (conforms c .string, (enc c.erase).length)) = some (true, 21) := by decide
-- `NonZeroU8`: SCHEMA U8; CALLS u8(3); and 0 is not a value
example : callTree (.nonZeroU .w8) (.nat 3) = some (.u .w8 3) := by rfl
example : callTree (.nonZeroU .w8) (.nat 0) = none := by decide
-- `PathBuf`: SCHEMA String; CALLS str("/a/b"); a non-UTF-8 path is a serialisation ERROR
example : callTree .pathBuf (.text (ascii "/a/b")) = some (.str (ascii "/a/b")) := by rfl
example : callTree .pathBuf (.text [0xff, 0x41]) = none := by decide
-- `<Point as Schema>::SCHEMA` as a VALUE of type `DataModelType`: SCHEMA Schema;
--   CALLS struct_variant[DataModelType,23,Struct,2](name=str("Point"), data=newtype_variant[Data,3,Struct](
--     seq[Some(2)](struct[NamedField,2](name=str("x"), ty=unit_variant[DataModelType,4,I32]), …)));
--   BYTES [23, 5, 80, 111, 105, 110, 116, 3, 2, 1, 120, 4, 1, 121, 4]
example : callTree .dataModelType (.schema (schemaOf true point)) =
    some (.structVariant (ascii "DataModelType") 23 (ascii "Struct") [ascii "name", ascii "data"]
      [.str (ascii "Point"),
       .newtypeVariant (ascii "Data") 3 (ascii "Struct")
        (.seq [.struct (ascii "NamedField") [ascii "name", ascii "ty"]
                 [.str (ascii "x"), .unitVariant (ascii "DataModelType") 4 (ascii "I32")],
               .struct (ascii "NamedField") [ascii "name", ascii "ty"]
                 [.str (ascii "y"), .unitVariant (ascii "DataModelType") 4 (ascii "I32")]])]) := by
  rfl
example : (callTree .dataModelType (.schema (schemaOf true point))).map
    (fun c => (conforms c .schema, enc c.erase)) =
    some (true, [23, 5, 80, 111, 105, 110, 116, 3, 2, 1, 120, 4, 1, 121, 4]) := by decide
example : (callTree .ownedDataModelType (.schema (schemaOf true en))).map (conforms · .schema)
    = some true := by decide
example : schemaRead .schema [23, 5, 80, 111, 105, 110, 116, 3, 2, 1, 120, 4, 1, 121, 4, 99] =
    .ok (serOwned (schemaOf true point), [99]) := by rfl

-- the theorems apply to the examples
private def enD : CT :=
  .structVariant (ascii "En") 3 (ascii "D") [ascii "p", ascii "q"]
    [.struct (ascii "Point") [ascii "x", ascii "y"] [.i .w32 0, .i .w32 0], .bool true]
example : schemaRead (schemaOf true en) (enc enD.erase ++ [5, 5]) = .ok (enD.erase, [5, 5]) :=
  schema_describes_serialize en (.variant 3 [.list [.int 0, .int 0], .bool true]) enD (by decide)
    (by rfl) [5, 5]
example : enc enD.erase = [3, 0, 0, 1] ∧ enD.erase =
    .structVariant 3 [.struct [.i .w32 0, .i .w32 0], .bool true] := ⟨by decide, by rfl⟩

/-! ### mismatch detection: `conforms` does say no -/

private def pointS : Schema :=
  .struct (ascii "Point") (.struct [.mk (ascii "x") .i32, .mk (ascii "y") .i32])
-- swapped field order
example : conforms (.struct (ascii "Point") [ascii "y", ascii "x"] [.i .w32 1, .i .w32 2]) pointS
    = false := by decide
-- a field missing / one too many
example : conforms (.struct (ascii "Point") [ascii "x"] [.i .w32 1]) pointS = false := by decide
example : conforms (.struct (ascii "Point") [ascii "x", ascii "y", ascii "z"]
    [.i .w32 1, .i .w32 2, .i .w32 3]) pointS = false := by decide
-- right names, wrong field type (u32 vs i32)
example : conforms (.struct (ascii "Point") [ascii "x", ascii "y"] [.u .w32 1, .i .w32 2]) pointS
    = false := by decide
example : conforms (.u .w32 1) .i32 = false := by decide
example : conforms (.i .w32 1) .u32 = false := by decide
example : conforms (.u .w16 1) .u32 = false := by decide
-- the TYPE name is not compared
example : conforms (.struct (ascii "Other") [ascii "x", ascii "y"] [.i .w32 1, .i .w32 2]) pointS
    = true := by decide
-- wrong variant index / wrong variant name / wrong variant kind / index out of range
example : conforms (.newtypeVariant (ascii "En") 2 (ascii "B") (.u .w8 1)) (schemaOf true en) = false := by
  decide
example : conforms (.newtypeVariant (ascii "En") 1 (ascii "Bee") (.u .w8 1)) (schemaOf true en)
    = false := by decide
example : conforms (.tupleVariant (ascii "En") 1 (ascii "B") [.u .w8 1]) (schemaOf true en) = false := by
  decide
example : conforms (.unitVariant (ascii "En") 6 (ascii "G")) (schemaOf true en) = false := by decide
-- newtype struct vs 1-tuple struct vs 1-tuple
example : conforms (.tupleStruct (ascii "NT") [.u .w16 5]) (schemaOf true nt) = false := by decide
example : conforms (.newtypeStruct (ascii "NT") (.u .w16 5)) (schemaOf true nt) = true := by decide
example : conforms (.u .w16 5) (schemaOf true nt) = false := by decide
example : conforms (.u .w8 1) (.tuple [.u8]) = false := by decide
example : conforms (.tuple [.u .w8 1]) (.tuple [.u8]) = true := by decide
-- seq vs tuple (`Vec<u8>` vs `[u8; 2]`), bytes vs seq of u8, str vs bytes
example : conforms (.seq [.u .w8 1, .u .w8 2]) (.tuple [.u8, .u8]) = false := by decide
example : conforms (.bytes [1, 2]) (.seq .u8) = false := by decide
example : conforms (.str [97]) .byteArray = false := by decide
-- arity
example : conforms (.tuple [.u .w8 1, .u .w8 2]) (.tuple [.u8]) = false := by decide
-- an odd flat map / a wrong value type
example : conforms (.map [.u .w8 1]) (.map .u8 .bool) = false := by decide
example : conforms (.map [.u .w8 1, .u .w8 2]) (.map .u8 .bool) = false := by decide
-- `.schema`: a wrong variant name, an index that is no schema kind, a non-schema value
example : conforms (.unitVariant (ascii "DataModelType") 4 (ascii "I64")) .schema = false := by
  decide
example : conforms (.unitVariant (ascii "DataModelType") 4 (ascii "I32")) .schema = true := by
  decide
example : conforms (.unitVariant (ascii "DataModelType") 26 (ascii "X")) .schema = false := by
  decide
example : conforms (.u .w8 4) .schema = false := by decide
-- usize / isize schemas describe 64-bit varints (no Rust type in `RTy` declares them)
example : conforms (.u .w64 5) .usize = true ∧ conforms (.i .w64 5) .isize = true ∧
    conforms (.u .w32 5) .usize = false := by decide
-- the reader does fail on non-conforming input
example : schemaRead pointS [2] = .error .unexpectedEnd := by rfl
example : schemaRead (schemaOf true en) [6] = .error .custom := by rfl
example : schemaRead (.option .bool) [2] = .error .badOption := by rfl
-- out of scope: arity-7 tuples, `[T; 33]`
example : RTy.wf (.tuple (List.replicate 7 .bool)) = false ∧ RTy.wf (.tuple []) = false ∧
    RTy.wf (.array .bool 33) = false ∧ RTy.wf (.array .bool 32) = true := by decide

end Examples

end Postcard
