import Postcard.Model.Accumulator
import Postcard.Lemmas.Accumulator
import Postcard.Props.C08
/-
  Postcard.Props.C09 — the COBS accumulator survives overflow and garbage,
  resynchronises at the next zero, never panics, and the documented drain loop
  terminates (model: Postcard/Model/Accumulator.lean, mirrors
  source/postcard/src/accumulator.rs).
-/
namespace Postcard

variable {α : Type}

/-! ### `idx_le_n`: the invariant `idx ≤ N` -/

/-- **C09 `idx_le_n`.**  `feed` preserves `idx ≤ N` (and never changes `N`),
for ANY input. -/
theorem idx_le_n (decF : List Byte → Option α) (a : Acc) (input : List Byte)
    (hinv : a.buf.length ≤ a.n) :
    (a.feed decF input).2.buf.length ≤ (a.feed decF input).2.n ∧
      (a.feed decF input).2.n = a.n :=
  ⟨(feed_inv decF a input hinv).1, feed_n decF a input⟩

/-- … hence so does the documented loop, with any fuel, on any window … -/
theorem idx_le_n_drain (decF : List Byte → Option α) (fuel : Nat) (a : Acc) (w : List Byte)
    (hinv : a.buf.length ≤ a.n) :
    (a.drain decF fuel w).2.buf.length ≤ (a.drain decF fuel w).2.n ∧
      (a.drain decF fuel w).2.n = a.n :=
  ⟨(drainX_inv decF fuel a w hinv).1, drainX_n decF fuel a w⟩

/-- … and `run` over any chunk list, together with "no call panics". -/
theorem run_inv (decF : List Byte → Option α) (a : Acc) (chunks : List (List Byte))
    (hinv : a.buf.length ≤ a.n) :
    (Acc.run decF a chunks).2.buf.length ≤ (Acc.run decF a chunks).2.n ∧
      (Acc.run decF a chunks).2.n = a.n ∧
      FeedRes.panic ∉ (Acc.run decF a chunks).1 := by
  induction chunks generalizing a with
  | nil => exact ⟨hinv, rfl, by simp [run_nil]⟩
  | cons c cs ih =>
    have h1 := drainX_inv decF (2 * c.length + 2) a c hinv
    have h2 := ih (a.drainChunk decF c).2 h1.1
    rw [run_cons]
    refine ⟨h2.1, by rw [h2.2.1, drainChunk_n], ?_⟩
    simp only [List.mem_append, not_or]
    exact ⟨h1.2, h2.2.2⟩

/-- From the fresh accumulator the invariant holds after every run. -/
theorem idx_le_n_run (n : Nat) (decF : List Byte → Option α) (chunks : List (List Byte)) :
    (Acc.run decF ⟨n, []⟩ chunks).2.buf.length ≤ n ∧ (Acc.run decF ⟨n, []⟩ chunks).2.n = n := by
  have h := run_inv decF ⟨n, []⟩ chunks (Nat.zero_le _)
  exact ⟨by simpa [h.2.1] using h.1, h.2.1⟩

/-! ### `feed_total`: no panic -/

/-- **C09 `feed_total`.**  Under the invariant, `feed` never panics, for ANY
input (garbage, over-long segments, empty input): `extend_unchecked` is only
reached when the data fits, `N - idx` does not underflow and `input[N-idx..]`
is in range. -/
theorem feed_total (decF : List Byte → Option α) (a : Acc) (input : List Byte)
    (hinv : a.buf.length ≤ a.n) : (a.feed decF input).1 ≠ .panic :=
  (feed_inv decF a input hinv).2

/-- No `feed` call of the documented loop over any chunk list, started from the
fresh accumulator, panics. -/
theorem run_total (n : Nat) (decF : List Byte → Option α) (chunks : List (List Byte)) :
    FeedRes.panic ∉ (Acc.run decF ⟨n, []⟩ chunks).1 :=
  (run_inv decF ⟨n, []⟩ chunks (Nat.zero_le _)).2.2

/-! ### `reset_after_zero` and `resync` -/

/-- **C09 `reset_after_zero`, single call.**  Whenever `feed` reports something
about a frame (`success`, `deserError`, or `overFull` in EITHER overflow
branch), the buffer is empty afterwards.  In the no-zero overflow branch the
returned remainder `input[N-idx..]` is non-trivially re-fed by the loop; the
buffer is nevertheless reset at that point. -/
theorem reset_after_zero_feed (decF : List Byte → Option α) (a : Acc) (input : List Byte)
    (hinv : a.buf.length ≤ a.n) (h : (a.feed decF input).1.isFrameResult = true) :
    (a.feed decF input).2 = ⟨a.n, []⟩ := by
  rcases feed_cases decF a input hinv with ⟨_, _, e⟩ | ⟨_, _, e⟩ | ⟨pre, r, _, _, _, e⟩ |
      ⟨pre, r, _, _, _, e⟩
  · rw [e] at h; simp [FeedRes.isFrameResult] at h
  · rw [e]
  · rw [e]
  · rw [e]

/-- Resynchronisation lemma behind `reset_after_zero` and `resync`: whatever the
accumulator state `a` (mid-frame, after an overflow, even violating the
invariant) and whatever precedes a zero byte in the stream, after that zero the
loop behaves exactly like a fresh accumulator on the rest `y` of the stream. -/
theorem run_resync (decF : List Byte → Option α) (a : Acc) (chunks : List (List Byte))
    (g y : List Byte) (h : chunks.flatten = g ++ 0 :: y) (hfit : Fits a.n (segs [] y)) :
    ∃ pre, frameResults (Acc.run decF a chunks).1 = pre ++ (segs [] y).1.map (isolated decF) ∧
      (Acc.run decF a chunks).2 = ⟨a.n, (segs [] y).2⟩ := by
  induction chunks generalizing a g with
  | nil => simp at h
  | cons c cs ih =>
    rw [List.flatten_cons] at h
    rcases chunk_split h with ⟨g', _, h2⟩ | ⟨c', rfl, rfl⟩
    · obtain ⟨pre, i1, i2⟩ := ih (a.drainChunk decF c).2 g' h2 (by rw [drainChunk_n]; exact hfit)
      rw [drainChunk_n] at i2
      rw [run_cons]
      refine ⟨frameResults (a.drainChunk decF c).1 ++ pre, ?_, i2⟩
      rw [frameResults_append, i1, List.append_assoc]
    · obtain ⟨pre, d1, d2, _⟩ := drainX_resync decF (2 * (g ++ 0 :: c').length + 2) a g c'
        (by omega) (Fits_prefix hfit)
      obtain ⟨b1, b2, _⟩ := acc_delivers_from a.n decF (segs [] c').2 cs (Fits_append hfit).2
      rw [run_cons, segs_append]
      simp only [Acc.drainChunk, Acc.drain, d2]
      refine ⟨pre, ?_, b2⟩
      rw [frameResults_append, d1, b1, List.map_append, List.append_assoc]

/-- **C09 `reset_after_zero`, stream level.**  After the documented loop has
been run on ANY chunk list whose concatenation ends with a zero byte — from any
accumulator state, whatever garbage or over-long segments the stream contains —
the buffer is empty: the accumulator is back in its initial state. -/
theorem reset_after_zero (decF : List Byte → Option α) (a : Acc) (chunks : List (List Byte))
    (s : List Byte) (h : chunks.flatten = s ++ [0]) :
    (Acc.run decF a chunks).2 = ⟨a.n, []⟩ := by
  obtain ⟨_, _, h2⟩ := run_resync decF a chunks s [] h
    ⟨fun _ hs => by simp [segs] at hs, by simp [segs]⟩
  simpa [segs] using h2

/-- `reset_after_zero` from the fresh accumulator: back to `CobsAccumulator::new()`. -/
theorem reset_after_zero_new (n : Nat) (decF : List Byte → Option α)
    (chunks : List (List Byte)) (s : List Byte) (h : chunks.flatten = s ++ [0]) :
    (Acc.run decF (Acc.new n) chunks).2 = Acc.new n :=
  reset_after_zero decF ⟨n, []⟩ chunks s h

/-- **C09 `resync`, general form**: from ANY accumulator state. -/
theorem resync_from (decF : List Byte → Option α) (a : Acc) (g f : List Byte)
    (chunks : List (List Byte)) (hf : (0 : Byte) ∉ f) (hlen : f.length + 1 ≤ a.n)
    (h : chunks.flatten = g ++ [0] ++ f ++ [0]) :
    (frameResults (Acc.run decF a chunks).1).getLast? = some (isolated decF f) ∧
      (Acc.run decF a chunks).2 = ⟨a.n, []⟩ := by
  have hs : segs [] (f ++ 0 :: []) = ([f], []) := by
    rw [segs_append_zero hf]; simp [segs]
  obtain ⟨pre, h1, h2⟩ := run_resync decF a chunks g (f ++ 0 :: []) (by simpa using h)
    (by rw [hs]; exact ⟨fun s hs' => by simp at hs'; subst hs'; exact hlen, Nat.zero_le _⟩)
  rw [hs] at h1 h2
  exact ⟨by simp [h1], h2⟩

/-- **C09 `resync`.**  For every garbage stream `g` (arbitrary bytes, zeros and
over-long segments included), every zero-free frame `f` that fits the capacity
with its sentinel, and EVERY chunking of `g ++ [0] ++ f ++ [0]`: the last
frame outcome reported by the documented loop, started from the fresh
accumulator, is the isolated decoding of `f ++ [0]`; the accumulator ends
empty; nothing panics.  (`1 ≤ n` is implied by `f.length + 1 ≤ n`.) -/
theorem resync (n : Nat) (decF : List Byte → Option α) (g f : List Byte)
    (chunks : List (List Byte)) (hf : (0 : Byte) ∉ f) (hlen : f.length + 1 ≤ n)
    (h : chunks.flatten = g ++ [0] ++ f ++ [0]) :
    (frameResults (Acc.run decF ⟨n, []⟩ chunks).1).getLast?
        = some (match decF (f ++ [0]) with | some d => Outcome.ok d | none => .deserErr) ∧
      (Acc.run decF ⟨n, []⟩ chunks).2 = ⟨n, []⟩ ∧
      FeedRes.panic ∉ (Acc.run decF ⟨n, []⟩ chunks).1 :=
  ⟨(resync_from decF ⟨n, []⟩ g f chunks hf hlen h).1,
    (resync_from decF ⟨n, []⟩ g f chunks hf hlen h).2, run_total n decF chunks⟩

/-! ### `overflow_reported` -/

/-- If the first `feed` call on a chunk reports `overFull`, so does the loop. -/
theorem drainChunk_overFull (decF : List Byte → Option α) {a a' : Acc} {c w' : List Byte}
    (hc : c ≠ []) (hf : a.feed decF c = (.overFull w', a')) :
    ∃ rs, (a.drainChunk decF c).1 = .overFull w' :: rs := by
  refine ⟨(a'.drainX decF (2 * c.length + 1) w').1.1, ?_⟩
  simp only [Acc.drainChunk, Acc.drain]
  rw [drainX_step decF hc hf rfl]

/-- **C09 `overflow_reported`, general form.**  Buffer `b` already holds the
beginning of a segment; `s` is the zero-free rest of that segment, `rest`
whatever follows its sentinel.  If the segment with its sentinel exceeds the
capacity (`b.length + s.length + 1 > n`), then for EVERY chunking of
`s ++ [0] ++ rest` the FIRST frame outcome the loop reports is `overFull`.
Since `ok`/`deserErr` are produced only by the call that consumes a zero
(`feed_conserves`) and the first zero of the stream is this segment's sentinel,
"the first frame outcome is `overFull`" says precisely: an `overFull` is
reported no later than the feed call that consumes the sentinel, and nothing
is (mis)delivered before it. -/
theorem overflow_reported_from (n : Nat) (decF : List Byte → Option α) (b s rest : List Byte)
    (chunks : List (List Byte)) (hb : b.length ≤ n) (hs : (0 : Byte) ∉ s)
    (hlen : n < b.length + s.length + 1) (h : chunks.flatten = s ++ 0 :: rest) :
    (frameResults (Acc.run decF ⟨n, b⟩ chunks).1).head? = some .overFull := by
  induction chunks generalizing b s with
  | nil => simp at h
  | cons c cs ih =>
    rw [List.flatten_cons] at h
    rw [run_cons]
    rcases chunk_split h with ⟨s', rfl, h2⟩ | ⟨c', rfl, _⟩
    · simp only [List.mem_append, not_or] at hs
      simp only [List.length_append] at hlen
      by_cases hc : c = []
      · subst hc
        rw [drainChunk_nil]
        simpa using ih b s' hb hs.2 (by simpa using hlen) h2
      · by_cases hfit : b.length + c.length ≤ n
        · have hf := feed_noZero_fit decF (a := ⟨n, b⟩) hs.1 hfit
          have hd : (⟨n, b⟩ : Acc).drainChunk decF c = ([.consumed], ⟨n, b ++ c⟩) := by
            simp only [Acc.drainChunk, Acc.drain]
            rw [drainX_stop decF hc hf rfl]
          rw [hd]
          have := ih (b ++ c) s' (by simpa using hfit) hs.2
            (by simp only [List.length_append]; omega) h2
          simpa [frameResults] using this
        · have hf := feed_noZero_over decF (a := ⟨n, b⟩) hs.1 hb (by simpa using hfit)
          obtain ⟨rs, hd⟩ := drainChunk_overFull decF hc hf
          rw [hd]; simp [frameResults]
    · have hf := feed_zero_over decF (a := ⟨n, b⟩) hs c' hlen
      obtain ⟨rs, hd⟩ := drainChunk_overFull decF (by simp) hf
      rw [hd]; simp [frameResults]

/-- **C09 `overflow_reported`.**  From the fresh accumulator: a zero-free segment
`s` with `s.length + 1 > n`, any chunking of `s ++ [0]` (optionally followed by
more stream): the first frame outcome reported is `overFull`; in particular at
least one `overFull` is produced, no later than the feed call that consumes the
sentinel. -/
theorem overflow_reported (n : Nat) (decF : List Byte → Option α) (s : List Byte)
    (chunks : List (List Byte)) (hs : (0 : Byte) ∉ s) (hlen : n < s.length + 1)
    (h : chunks.flatten = s ++ [0]) :
    (frameResults (Acc.run decF ⟨n, []⟩ chunks).1).head? = some .overFull ∧
      (∃ rem, FeedRes.overFull rem ∈ (Acc.run decF ⟨n, []⟩ chunks).1) := by
  have h1 := overflow_reported_from n decF [] s [] chunks (Nat.zero_le _) hs
    (by simpa using hlen) (by simpa using h)
  refine ⟨h1, ?_⟩
  generalize (Acc.run decF ⟨n, []⟩ chunks).1 = rs at h1
  induction rs with
  | nil => simp [frameResults] at h1
  | cons r rs ih =>
    cases r with
    | overFull w => exact ⟨w, by simp⟩
    | consumed =>
      obtain ⟨w, hw⟩ := ih (by simpa [frameResults] using h1)
      exact ⟨w, by simp [hw]⟩
    | panic =>
      obtain ⟨w, hw⟩ := ih (by simpa [frameResults] using h1)
      exact ⟨w, by simp [hw]⟩
    | deserError w => simp [frameResults] at h1
    | success d w => simp [frameResults] at h1

/-! ### `drain_terminates` -/

/-- **C09 `drain_terminates`.**  For a capacity of at least one byte and under
the invariant, the documented loop on a chunk `c` finishes within
`2 * c.length + 1` feed calls: `drainX` with the fuel `2 * c.length + 2` used by
`drainChunk` does not exhaust its fuel.  (Measure: `(|window|, |buf|)`
lexicographically — a call that does not shrink the window happens only with a
full buffer and empties it, so no two consecutive calls are non-shrinking.) -/
theorem drain_terminates (decF : List Byte → Option α) (a : Acc) (c : List Byte)
    (hn : 1 ≤ a.n) (hinv : a.buf.length ≤ a.n) :
    (a.drainX decF (2 * c.length + 2) c).2 = false ∧
      (a.drainChunk decF c).1.length ≤ 2 * c.length + 1 := by
  have h := drainX_terminates decF (2 * c.length + 2) a c hn hinv (by omega)
  refine ⟨h.1, ?_⟩
  have h2 := h.2
  simp only [Acc.drainChunk, Acc.drain]
  omega

/-- … hence no per-chunk loop inside `run` is ever cut short by the model's fuel. -/
theorem run_terminates (decF : List Byte → Option α) (a : Acc) (chunks : List (List Byte))
    (hn : 1 ≤ a.n) (hinv : a.buf.length ≤ a.n) : Acc.runExhausted decF a chunks = false := by
  induction chunks generalizing a with
  | nil => rfl
  | cons c cs ih =>
    have h1 := (drain_terminates decF a c hn hinv).1
    have h2 := drainX_inv decF (2 * c.length + 2) a c hinv
    have h3 := ih (a.drainChunk decF c).2 (by rw [drainChunk_n]; exact hn) h2.1
    simp only [Acc.runExhausted, h1, h3, Bool.or_self]

/-- **Why `1 ≤ n` is needed (labelled example).**  With capacity `N = 0`, one
`feed` call on the window `[1]` returns `overFull [1]` — the same window — and
leaves the accumulator unchanged: the documented loop cycles forever. -/
example : Acc.feed exampleDec ⟨0, []⟩ [1] = (.overFull [1], ⟨0, []⟩) := by decide

/-- The same divergence for every decoder and every fuel: the model's loop
always runs out of fuel, having seen nothing but `overFull [1]`. -/
theorem drain_diverges_zero (decF : List Byte → Option α) (fuel : Nat) :
    ((⟨0, []⟩ : Acc).drainX decF fuel [1]).2 = true ∧
      ((⟨0, []⟩ : Acc).drainX decF fuel [1]).1.1 = List.replicate fuel (.overFull [1]) := by
  induction fuel with
  | zero => simp [Acc.drainX]
  | succ fuel ih =>
    have hf : (⟨0, []⟩ : Acc).feed decF [1] = (.overFull [1], ⟨0, []⟩) :=
      feed_noZero_over decF (a := ⟨0, []⟩) (w := [1]) (by decide) (Nat.le_refl _) (by simp)
    rw [drainX_step decF (by simp) hf rfl]
    exact ⟨ih.1, by rw [ih.2]; rfl⟩

/-! ### Non-vacuity of the C09 statements (evaluated) -/

/-- `resync`/`overflow_reported` witnessed: capacity 3; garbage `9 9 9 9 9 0 7`
(an over-long segment, then a stray byte), then `0`, then the frame `1 2` and its
sentinel, cut into awkward chunks.  The loop reports `overFull` first, then the
junk frame `[7]`, and finally the isolated decoding of `1 2 0`; buffer empty. -/
example :
    (frameResults (Acc.run exampleDec ⟨3, []⟩ [[9, 9], [9, 9, 9, 0, 7], [0, 1], [2, 0]]).1,
      (Acc.run exampleDec ⟨3, []⟩ [[9, 9], [9, 9, 9, 0, 7], [0, 1], [2, 0]]).2)
      = ([.overFull, .ok 7, .ok 3], ⟨3, []⟩) := by
  decide

/-- The re-feeding subtlety of the no-zero overflow branch: capacity 2, chunk of
five non-zero bytes.  `OverFull(&input[N-idx..])` is fed again until the rest
fits; the last byte stays buffered. -/
example :
    Acc.run exampleDec ⟨2, []⟩ [[1, 2, 3, 4, 5]]
      = ([.overFull [3, 4, 5], .overFull [5], .consumed], ⟨2, [5]⟩) := by
  decide

/-- A non-shrinking call (full buffer, no zero): the window comes back unchanged
once, with the buffer emptied, and shrinks on the next call. -/
example :
    Acc.run exampleDec ⟨2, []⟩ [[1, 2], [3]]
      = ([.consumed, .overFull [3], .consumed], ⟨2, [3]⟩) := by
  decide

end Postcard
