import Postcard.Model.EnumAt
import Postcard.Props.C01
import Postcard.Props.C04
/-
  Postcard.Props.C01EnumAt — round trip for enums with ANY `u32` discriminant (sparse or wide:
  5-byte varints), decoded by a visitor that accepts that one discriminant.
-/
namespace Postcard

/-- the list walk of a derived enum reaches the same arm: decoding index `idx` against a variant
list whose entry `idx` is `vt` is decoding against the one-variant list. -/
theorem decVariant_skip (pre : List Ty) (vt : Ty) (post : List Ty) (idx : Nat) (bs : List Byte) :
    decVariant (pre ++ vt :: post) pre.length idx bs = decVariant [vt] 0 idx bs := by
  induction pre with
  | nil => cases vt <;> simp [decVariant]
  | cons p pre ih =>
    have hstep : decVariant (p :: (pre ++ vt :: post)) (pre.length + 1) idx bs
        = decVariant (pre ++ vt :: post) pre.length idx bs := by
      conv => lhs; rw [decVariant]
    exact hstep.trans ih

/-- **C01 (wide discriminants)**: for EVERY discriminant `idx < 2^32` and every payload,
decoding the encoding (followed by any bytes) with the one-discriminant visitor gives the value
back and exactly the following bytes. -/
theorem roundtrip_enumAt (idx : Nat) (vt : Ty) (v : Val) (h : hasTyAt idx vt v = true)
    (rest : List Byte) : decEnumAt idx vt (enc v ++ rest) = .ok (v, rest) := by
  cases v with
  | unitVariant i =>
    simp only [hasTyAt, Bool.and_eq_true, decide_eq_true_eq] at h
    obtain ⟨⟨rfl, hlt⟩, hvt⟩ := h
    cases vt <;> simp at hvt
    simp [decEnumAt, enc, decVarint_encVarint widthOk32 hlt, decVariant]
  | newtypeVariant i v =>
    simp only [hasTyAt, Bool.and_eq_true, decide_eq_true_eq] at h
    obtain ⟨⟨rfl, hlt⟩, hvt⟩ := h
    cases vt <;> simp at hvt
    rename_i t
    simp [decEnumAt, enc, List.append_assoc, decVarint_encVarint widthOk32 hlt, decVariant,
      roundtrip v t hvt rest]
  | tupleVariant i vs =>
    simp only [hasTyAt, Bool.and_eq_true, decide_eq_true_eq] at h
    obtain ⟨⟨rfl, hlt⟩, hvt⟩ := h
    cases vt <;> simp at hvt
    rename_i ts
    simp [decEnumAt, enc, List.append_assoc, decVarint_encVarint widthOk32 hlt, decVariant,
      roundtrip_tuple vs ts hvt rest]
  | structVariant i vs =>
    simp only [hasTyAt, Bool.and_eq_true, decide_eq_true_eq] at h
    obtain ⟨⟨rfl, hlt⟩, hvt⟩ := h
    cases vt <;> simp at hvt
    rename_i ts
    simp [decEnumAt, enc, List.append_assoc, decVarint_encVarint widthOk32 hlt, decVariant,
      roundtrip_tuple vs ts hvt rest]
  | _ => simp [hasTyAt] at h

/-- the one-discriminant visitor agrees with the derived enum's decoder on every input whose
discriminant is `idx`, and refuses every other discriminant. -/
theorem decEnumAt_eq_dec (pre : List Ty) (vt : Ty) (post : List Ty) (bs : List Byte) :
    decEnumAt pre.length vt bs =
      match decVarint 32 bs with
      | .error e => .error e
      | .ok (n, _) => if n = pre.length then dec (.enum (pre ++ vt :: post)) bs else .error .custom := by
  unfold decEnumAt
  cases hd : decVarint 32 bs with
  | error e => rfl
  | ok x =>
    obtain ⟨n, r⟩ := x
    by_cases hn : n = pre.length
    · subst hn
      simp [dec, hd, decVariant_skip]
    · simp [hn]

/-- **C03 / C04 transported to wide discriminants**: the one-discriminant visitor accepts exactly when the index
varint decodes to `idx` and the derived enum with `idx` unit variants in front of `vt` accepts - so everything
proved about `dec` (soundness and completeness against `Permitted`, prefix behaviour, named error kinds: C03;
totality: C04) holds for it. -/
theorem decEnumAt_ok_iff (idx : Nat) (vt : Ty) (bs : List Byte) (v : Val) (r : List Byte) :
    decEnumAt idx vt bs = .ok (v, r) ↔
      (∃ r0, decVarint 32 bs = .ok (idx, r0)) ∧
        dec (.enum (List.replicate idx .unit ++ [vt])) bs = .ok (v, r) := by
  have hskip := decVariant_skip (List.replicate idx .unit) vt [] idx
  simp only [List.length_replicate] at hskip
  unfold decEnumAt
  cases hd : decVarint 32 bs with
  | error e => simp [dec, hd]
  | ok x =>
    obtain ⟨n, r0⟩ := x
    by_cases hn : n = idx
    · subst hn
      simp [dec, hd, hskip]
    · simp only [hn, if_false]
      constructor
      · intro h; cases h
      · rintro ⟨⟨r1, h1⟩, _⟩
        simp only [Except.ok.injEq, Prod.mk.injEq] at h1
        exact absurd h1.1 hn

/-- never a panic, for any discriminant, shape and input. -/
theorem decEnumAt_total (idx : Nat) (vt : Ty) (bs : List Byte) : decEnumAt idx vt bs ≠ .error .panic := by
  have hskip := decVariant_skip (List.replicate idx .unit) vt [] idx
  simp only [List.length_replicate] at hskip
  have ht := dec_total (.enum (List.replicate idx .unit ++ [vt])) bs
  unfold decEnumAt
  cases hd : decVarint 32 bs with
  | error e =>
    simp only [dec, hd] at ht
    exact ht
  | ok x =>
    obtain ⟨n, r0⟩ := x
    by_cases hn : n = idx
    · subst hn
      simp only [dec, hd, hskip] at ht
      simpa using ht
    · simp [hn]

-- non-vacuity: a 5-byte discriminant (2^28 needs five varint bytes)
example : decEnumAt (2 ^ 28) (.newtypeStruct (.u .w8)) [0x80, 0x80, 0x80, 0x80, 0x01, 7, 9] =
    .ok (.newtypeVariant (2 ^ 28) (.u .w8 7), [9]) := by rfl
example : hasTyAt (2 ^ 32 - 1) .unit (.unitVariant (2 ^ 32 - 1)) = true := by decide +kernel

end Postcard
