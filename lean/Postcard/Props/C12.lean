import Postcard.Lemmas.MaxSize
import Postcard.Props.C13
/-
  Postcard.Props.C12 — "POSTCARD_MAX_SIZE is an upper bound on the encoded size
  of every value; for integers, floats, bool, char, arrays, tuples, options and
  fixed-capacity strings/vectors the maximum is attained by some value."

  Code: source/postcard/src/max_size.rs (all built-in impls, `varint_size`,
  `max`) and source/postcard-derive/src/max_size.rs (`#[derive(MaxSize)]`).
  Model: Model/MaxSize.lean (`MTy`, `maxSize`, `tyOf`, `MTy.inhabits`, `MTy.wf`);
  the witness `maxWitness` and the class `MTy.tight` are in Lemmas/MaxSize.lean.

  * `varint_len_le_size`, `varint_len_le_discriminant` — the two private
    size helpers bound the varints they are used for.
  * `max_size_sound` — upper bound, for EVERY `MTy` (incl. `Result`, derived
    structs and enums) and every value of the type.
  * `max_size_tight` — the bound is attained (explicit witness) for the tight
    types; `denum128_not_tight` — and it is NOT attained by a derived enum with
    128 unit variants (the derive sizes the discriminant from the variant COUNT,
    not from the largest index `count − 1`).
  * `inhabits_hasTy` — every value of a type `m` is a well-typed data-model
    value of shape `tyOf m` (so C01's round trip applies to it).
-/
namespace Postcard

/-! ## 1. the size helpers -/

/-- `max_size.rs::varint_size(N)` bounds the `usize` varint of every `n ≤ N`
(the length prefix of a `heapless::Vec<T,N>` / `heapless::String<N>`). -/
theorem varint_len_le_size {n N : Nat} (hn : n ≤ N) (hN : N < 2 ^ 64) :
    (encVarint 64 n).length ≤ varintSize N :=
  encVarint64_length_le_varintSize hn hN

/-- … and is exact at `n = N`. -/
theorem varint_len_eq_size {N : Nat} (hN : N < 2 ^ 64) :
    (encVarint 64 N).length = varintSize N :=
  encVarint64_length_eq_varintSize hN

/-- the derive's `varint_size_discriminant(variant_count)` bounds the `u32`
varint of every variant index `idx < variant_count`. -/
theorem varint_len_le_discriminant {idx count : Nat} (hi : idx < count) (hc : count < 2 ^ 32) :
    (encVarint 32 idx).length ≤ varintSizeDiscriminant count :=
  encVarint32_length_le_discriminant hi hc

/-! ## 2. upper bound -/

/-- C12 (soundness): for every type with a `MaxSize` impl (built-in or derived)
and every value of that type, the encoding has at most `POSTCARD_MAX_SIZE`
bytes. -/
theorem max_size_sound (m : MTy) (v : Val) (hw : m.wf = true) (h : m.inhabits v = true) :
    (enc v).length ≤ maxSize m :=
  sound_ty m v hw h

theorem max_size_sound_fields (ts : List MTy) (vs : List Val) (hw : wfList ts = true)
    (h : inhabitsList ts vs = true) : (encList vs).length ≤ sumFrom 0 ts :=
  sound_list ts vs hw h

/-! ## 3. the bound is attained -/

/-- C12 (tightness): for the tight types the explicit value `maxWitness m` is a
value of the type and its encoding has exactly `POSTCARD_MAX_SIZE` bytes. -/
theorem max_size_tight_witness (m : MTy) (ht : m.tight = true) (hw : m.wf = true) :
    m.inhabits (maxWitness m) = true ∧ (enc (maxWitness m)).length = maxSize m :=
  tight_ty m ht hw

theorem max_size_tight (m : MTy) (ht : m.tight = true) (hw : m.wf = true) :
    ∃ v, m.inhabits v = true ∧ (enc v).length = maxSize m :=
  ⟨maxWitness m, tight_ty m ht hw⟩

/-- for a tight type the constant is therefore the exact maximum. -/
theorem max_size_is_max (m : MTy) (ht : m.tight = true) (hw : m.wf = true) :
    (∀ v, m.inhabits v = true → (enc v).length ≤ maxSize m) ∧
    (∃ v, m.inhabits v = true ∧ (enc v).length = maxSize m) :=
  ⟨fun v h => max_size_sound m v hw h, max_size_tight m ht hw⟩

/-! ### derived enums are not tight in general -/

theorem inhabitsEnum_units (n k : Nat) (v : Val)
    (h : inhabitsEnum (List.replicate n DFields.unit) k v = true) :
    k < n ∧ ∃ idx, v = .unitVariant idx := by
  induction n generalizing k with
  | zero => simp [inhabitsEnum] at h
  | succ n ih =>
    rw [List.replicate_succ] at h
    cases k with
    | zero =>
      simp only [inhabitsEnum] at h
      cases v <;> simp [DFields.inhabitsVariant] at h
      exact ⟨by omega, _, rfl⟩
    | succ k =>
      simp only [inhabitsEnum] at h
      obtain ⟨h1, h2⟩ := ih k h
      exact ⟨by omega, h2⟩

/-- `enum E { V0, V1, …, V127 }` (128 unit variants): `POSTCARD_MAX_SIZE = 2`
(`varint_size_discriminant(128) = 2`) but every value encodes in ONE byte (the
largest index is 127).  The bound is sound but not attained. -/
theorem denum128_not_tight :
    maxSize (.denum (List.replicate 128 .unit)) = 2 ∧
    (MTy.denum (List.replicate 128 .unit)).wf = true ∧
    (MTy.denum (List.replicate 128 .unit)).inhabits (.unitVariant 127) = true ∧
    ∀ v, (MTy.denum (List.replicate 128 .unit)).inhabits v = true → (enc v).length = 1 := by
  refine ⟨by decide +kernel, by decide +kernel, by decide +kernel, ?_⟩
  intro v h
  simp only [MTy.inhabits] at h
  split at h
  · rename_i idx hidx
    simp at h
    obtain ⟨hk, idx', rfl⟩ := inhabitsEnum_units 128 idx v h.2
    simp [Val.variantIdx?] at hidx
    subst hidx
    simp only [enc]
    exact encVarint_small (by decide) (by omega)
  · simp at h

/-! ## 4. values of a type are well-typed data-model values -/

theorem hasTys_replicate_of_all (vs : List Val) (t : Ty) (h : ∀ v ∈ vs, hasTy v t = true) :
    hasTys vs (List.replicate vs.length t) = true := by
  induction vs with
  | nil => simp [hasTys]
  | cons v vs ih =>
    simp [List.replicate_succ, hasTys, h v (by simp), ih (fun x hx => h x (by simp [hx]))]

theorem hasTyAll_of_all (vs : List Val) (t : Ty) (h : ∀ v ∈ vs, hasTy v t = true) :
    hasTyAll vs t = true := by
  induction vs with
  | nil => simp [hasTyAll]
  | cons v vs ih =>
    simp [hasTyAll, h v (by simp), ih (fun x hx => h x (by simp [hx]))]

theorem int_hasTy (s : Bool) (w : IntW) (nz : Bool) (v : Val) (h : intInhabits s w nz v = true) :
    hasTy v (intTy s w) = true := by
  cases v <;> simp [intInhabits] at h
  case u w' n =>
    obtain ⟨⟨⟨rfl, rfl⟩, hn⟩, _⟩ := h
    simp [intTy, hasTy, hn]
  case i w' x =>
    obtain ⟨⟨⟨rfl, rfl⟩, hn⟩, _⟩ := h
    simp [intTy, hasTy, hn]

theorem tyOfList_length (ts : List MTy) : (tyOfList ts).length = ts.length := by
  induction ts with
  | nil => simp [tyOfList]
  | cons t ts ih => simp [tyOfList, ih]

theorem variantTys_getElem? (fs : List DFields) (k : Nat) :
    (variantTys fs)[k]? = (fs[k]?).map DFields.variantTy := by
  induction fs generalizing k with
  | nil => simp [variantTys]
  | cons f fs ih =>
    cases k with
    | zero => simp [variantTys]
    | succ k => simp [variantTys, ih]

theorem inhabitsEnum_getElem? (fs : List DFields) (k : Nat) (v : Val)
    (h : inhabitsEnum fs k v = true) :
    ∃ f, fs[k]? = some f ∧ DFields.inhabitsVariant f v = true := by
  induction fs generalizing k with
  | nil => simp [inhabitsEnum] at h
  | cons f fs ih =>
    cases k with
    | zero => exact ⟨f, by simp, by simpa [inhabitsEnum] using h⟩
    | succ k =>
      simp only [inhabitsEnum] at h
      obtain ⟨g, hg, hv⟩ := ih k h
      exact ⟨g, by simpa using hg, hv⟩

mutual
theorem inh_hasTy : (m : MTy) → (v : Val) → m.wf = true → m.inhabits v = true →
    hasTy v (tyOf m) = true
  | .bool, v, _, h => by
    cases v <;> simp [MTy.inhabits] at h
    simp [tyOf, hasTy]
  | .int s w, v, _, h => by
    simp only [MTy.inhabits] at h
    simpa [tyOf] using int_hasTy s w false v h
  | .usize, v, _, h => by
    simp only [MTy.inhabits] at h
    simpa [tyOf, intTy] using int_hasTy _ _ _ v h
  | .isize, v, _, h => by
    simp only [MTy.inhabits] at h
    simpa [tyOf, intTy] using int_hasTy _ _ _ v h
  | .nonZero s w, v, _, h => by
    simp only [MTy.inhabits] at h
    simpa [tyOf] using int_hasTy s w true v h
  | .nonZeroUsize, v, _, h => by
    simp only [MTy.inhabits] at h
    simpa [tyOf, intTy] using int_hasTy _ _ _ v h
  | .nonZeroIsize, v, _, h => by
    simp only [MTy.inhabits] at h
    simpa [tyOf, intTy] using int_hasTy _ _ _ v h
  | .f32, v, _, h => by
    cases v <;> simp [MTy.inhabits] at h
    simpa [tyOf, hasTy] using h
  | .f64, v, _, h => by
    cases v <;> simp [MTy.inhabits] at h
    simpa [tyOf, hasTy] using h
  | .char, v, _, h => by
    cases v <;> simp [MTy.inhabits] at h
    simpa [tyOf, hasTy] using h
  | .unit, v, _, h => by
    cases v <;> simp [MTy.inhabits] at h
    simp [tyOf, hasTy]
  | .phantom, v, _, h => by
    cases v <;> simp [MTy.inhabits] at h
    simp [tyOf, hasTy]
  | .option t, v, hw, h => by
    simp only [MTy.wf] at hw
    cases v <;> simp [MTy.inhabits] at h
    case none => simp [tyOf, hasTy]
    case some v => simpa [tyOf, hasTy] using inh_hasTy t v hw h
  | .result t e, v, hw, h => by
    simp [MTy.wf] at hw
    match v, h with
    | .newtypeVariant 0 v, h =>
      simp only [MTy.inhabits] at h
      simpa [tyOf, hasTy] using inh_hasTy t v hw.1 h
    | .newtypeVariant 1 v, h =>
      simp only [MTy.inhabits] at h
      simpa [tyOf, hasTy] using inh_hasTy e v hw.2 h
  | .array t n, v, hw, h => by
    simp [MTy.wf] at hw
    cases v <;> simp [MTy.inhabits] at h
    case tuple vs =>
      obtain ⟨hall, rfl⟩ := h
      simpa [tyOf, hasTy] using
        hasTys_replicate_of_all vs (tyOf t) (fun v hv => inh_hasTy t v hw.1 (hall v hv))
  | .tuple ts, v, hw, h => by
    simp only [MTy.wf] at hw
    cases v <;> simp [MTy.inhabits] at h
    case tuple vs => simpa [tyOf, hasTy] using inh_hasTys ts vs hw h
  | .range t, v, hw, h => by
    simp only [MTy.wf] at hw
    match v, h with
    | .struct [a, b], h =>
      simp [MTy.inhabits] at h
      simp [tyOf, hasTy, hasTys, inh_hasTy t a hw h.1, inh_hasTy t b hw h.2]
  | .rangeInclusive t, v, hw, h => by
    simp only [MTy.wf] at hw
    match v, h with
    | .struct [a, b], h =>
      simp [MTy.inhabits] at h
      simp [tyOf, hasTy, hasTys, inh_hasTy t a hw h.1, inh_hasTy t b hw h.2]
  | .rangeFrom t, v, hw, h => by
    simp only [MTy.wf] at hw
    match v, h with
    | .struct [a], h =>
      simp only [MTy.inhabits] at h
      simp [tyOf, hasTy, hasTys, inh_hasTy t a hw h]
  | .rangeTo t, v, hw, h => by
    simp only [MTy.wf] at hw
    match v, h with
    | .struct [a], h =>
      simp only [MTy.inhabits] at h
      simp [tyOf, hasTy, hasTys, inh_hasTy t a hw h]
  | .ref t, v, hw, h => by
    simp only [MTy.wf] at hw
    simp only [MTy.inhabits] at h
    simpa [tyOf] using inh_hasTy t v hw h
  | .hvec t n, v, hw, h => by
    simp [MTy.wf] at hw
    cases v <;> simp [MTy.inhabits] at h
    case seq vs =>
      obtain ⟨hall, hlen⟩ := h
      have := hasTyAll_of_all vs (tyOf t) (fun v hv => inh_hasTy t v hw.1 (hall v hv))
      have hl : vs.length < 2 ^ 64 := by omega
      simp [tyOf, hasTy, this]; omega
  | .hstring n, v, hw, h => by
    simp [MTy.wf] at hw
    cases v <;> simp [MTy.inhabits] at h
    case str s =>
      simp [tyOf, hasTy, h.1]; omega
  | .dstruct f, v, hw, h => by
    simp only [MTy.wf] at hw
    simp only [MTy.inhabits] at h
    simpa [tyOf] using inh_hasTy_struct f v hw h
  | .denum fs, v, hw, h => by
    simp [MTy.wf] at hw
    simp only [MTy.inhabits] at h
    split at h
    · rename_i idx hidx
      simp at h
      exact inh_hasTy_enum fs idx v hw.2 h.2 (variantTys fs) idx hidx h.1 rfl
    · simp at h
theorem inh_hasTys : (ts : List MTy) → (vs : List Val) → wfList ts = true →
    inhabitsList ts vs = true → hasTys vs (tyOfList ts) = true
  | [], vs, _, h => by
    cases vs <;> simp [inhabitsList] at h
    simp [tyOfList, hasTys]
  | t :: ts, vs, hw, h => by
    simp [wfList] at hw
    cases vs <;> simp [inhabitsList] at h
    case cons v vs =>
      simp [tyOfList, hasTys, inh_hasTy t v hw.1 h.1, inh_hasTys ts vs hw.2 h.2]
theorem inh_hasTy_struct : (f : DFields) → (v : Val) → DFields.wf f = true →
    DFields.inhabitsStruct f v = true → hasTy v (DFields.structTy f) = true
  | .unit, v, _, h => by
    cases v <;> simp [DFields.inhabitsStruct] at h
    simp [DFields.structTy, hasTy]
  | .unnamed ts, v, hw, h => by
    simp only [DFields.wf] at hw
    cases v <;> simp [DFields.inhabitsStruct] at h
    case newtypeStruct v =>
      have := inh_hasTys ts [v] hw h.2
      match ts, h.1, this with
      | [t], _, this =>
        simp [tyOfList, hasTys] at this
        simp [DFields.structTy, tyOfList, hasTy, this]
    case tupleStruct vs =>
      have := inh_hasTys ts vs hw h.2
      have hl := tyOfList_length ts
      simp only [DFields.structTy]
      split
      · rename_i t' heq
        rw [heq] at hl
        simp at hl
        exact absurd hl.symm h.1
      · simpa [hasTy] using this
  | .named ts, v, hw, h => by
    simp only [DFields.wf] at hw
    cases v <;> simp [DFields.inhabitsStruct] at h
    case struct vs => simpa [DFields.structTy, hasTy] using inh_hasTys ts vs hw h
theorem inh_hasTy_variant : (f : DFields) → (v : Val) → DFields.wf f = true →
    DFields.inhabitsVariant f v = true → (vts : List Ty) → (idx : Nat) →
    v.variantIdx? = some idx → idx < 2 ^ 32 → vts[idx]? = some (DFields.variantTy f) →
    hasTy v (.enum vts) = true
  | .unit, v, _, h, vts, idx, hi, hlt, hg => by
    cases v <;> simp [DFields.inhabitsVariant] at h
    case unitVariant idx' =>
      simp [Val.variantIdx?] at hi
      subst hi
      simp [hasTy, hlt, hg, DFields.variantTy]
  | .unnamed ts, v, hw, h, vts, idx, hi, hlt, hg => by
    simp only [DFields.wf] at hw
    cases v <;> simp [DFields.inhabitsVariant] at h
    case newtypeVariant idx' v =>
      simp [Val.variantIdx?] at hi
      subst hi
      have := inh_hasTys ts [v] hw h.2
      match ts, h.1, this, hg with
      | [t], _, this, hg =>
        simp [tyOfList, hasTys] at this
        simp [DFields.variantTy, tyOfList] at hg
        simp [hasTy, hlt, hg, this]
    case tupleVariant idx' vs =>
      simp [Val.variantIdx?] at hi
      subst hi
      have := inh_hasTys ts vs hw h.2
      have hl := tyOfList_length ts
      simp only [DFields.variantTy] at hg
      split at hg
      · rename_i t' heq
        rw [heq] at hl
        simp at hl
        exact absurd hl.symm h.1
      · simp [hasTy, hlt, hg, this]
  | .named ts, v, hw, h, vts, idx, hi, hlt, hg => by
    simp only [DFields.wf] at hw
    cases v <;> simp [DFields.inhabitsVariant] at h
    case structVariant idx' vs =>
      simp [Val.variantIdx?] at hi
      subst hi
      simp only [DFields.variantTy] at hg
      simp [hasTy, hlt, hg, inh_hasTys ts vs hw h]
theorem inh_hasTy_enum : (fs : List DFields) → (k : Nat) → (v : Val) → wfVariants fs = true →
    inhabitsEnum fs k v = true → (vts : List Ty) → (idx : Nat) →
    v.variantIdx? = some idx → idx < 2 ^ 32 → vts[idx]? = (variantTys fs)[k]? →
    hasTy v (.enum vts) = true
  | [], k, v, _, h, _, _, _, _, _ => by simp [inhabitsEnum] at h
  | f :: fs, 0, v, hw, h, vts, idx, hi, hlt, hg => by
    simp [wfVariants] at hw
    simp only [inhabitsEnum] at h
    exact inh_hasTy_variant f v hw.1 h vts idx hi hlt (by simpa [variantTys] using hg)
  | f :: fs, k + 1, v, hw, h, vts, idx, hi, hlt, hg => by
    simp [wfVariants] at hw
    simp only [inhabitsEnum] at h
    exact inh_hasTy_enum fs k v hw.2 h vts idx hi hlt (by simpa [variantTys] using hg)
end

/-- every value of a Rust type `m` is a well-typed data-model value of the
serde shape `tyOf m` — `MTy.inhabits` only ADDS restrictions to `hasTy`. -/
theorem inhabits_hasTy (m : MTy) (v : Val) (hw : m.wf = true) (h : m.inhabits v = true) :
    hasTy v (tyOf m) = true :=
  inh_hasTy m v hw h

/-- hence C01 applies: values of `m` round-trip, and the decoder consumes at
most `POSTCARD_MAX_SIZE` bytes for them. -/
theorem max_size_roundtrip (m : MTy) (v : Val) (hw : m.wf = true) (h : m.inhabits v = true)
    (rest : List Byte) :
    dec (tyOf m) (enc v ++ rest) = .ok (v, rest) ∧ (enc v).length ≤ maxSize m :=
  ⟨roundtrip v (tyOf m) (inhabits_hasTy m v hw h) rest, max_size_sound m v hw h⟩

/-! ### converse on the restriction-free fragment

`MTy.inhabits` is not narrower than intended: for every type that imposes no
restriction beyond its serde shape (no `NonZero*`, no `heapless` container
anywhere inside), EVERY well-typed value of shape `tyOf m` is a value of `m`.
So on this fragment `max_size_sound` quantifies over exactly the values `hasTy`
describes (the ones C01 round-trips). -/

mutual
def MTy.plain : MTy → Bool
  | .nonZero _ _ => false
  | .nonZeroUsize => false
  | .nonZeroIsize => false
  | .hvec _ _ => false
  | .hstring _ => false
  | .option t => t.plain
  | .result t e => t.plain && e.plain
  | .array t _ => t.plain
  | .tuple ts => plainList ts
  | .range t => t.plain
  | .rangeInclusive t => t.plain
  | .rangeFrom t => t.plain
  | .rangeTo t => t.plain
  | .ref t => t.plain
  | .dstruct f => DFields.plain f
  | .denum fs => plainVariants fs
  | _ => true
def plainList : List MTy → Bool
  | [] => true
  | t :: ts => t.plain && plainList ts
def DFields.plain : DFields → Bool
  | .unit => true
  | .unnamed ts => plainList ts
  | .named ts => plainList ts
def plainVariants : List DFields → Bool
  | [] => true
  | f :: fs => DFields.plain f && plainVariants fs
end

theorem int_conv (s : Bool) (w : IntW) (v : Val) (h : hasTy v (intTy s w) = true) :
    intInhabits s w false v = true := by
  cases s <;> cases v <;> simp [intTy, hasTy] at h <;>
    (obtain ⟨rfl, h⟩ := h; simp [intInhabits, h])

theorem hasTys_replicate_inv (vs : List Val) (n : Nat) (t : Ty)
    (h : hasTys vs (List.replicate n t) = true) :
    vs.length = n ∧ ∀ v ∈ vs, hasTy v t = true := by
  induction vs generalizing n with
  | nil => cases n <;> simp [List.replicate_succ, hasTys] at h ⊢
  | cons v vs ih =>
    cases n with
    | zero => simp [hasTys] at h
    | succ n =>
      simp [List.replicate_succ, hasTys] at h
      obtain ⟨h1, h2⟩ := ih n h.2
      exact ⟨by simp [h1], by
        intro x hx
        rcases List.mem_cons.1 hx with rfl | hx
        · exact h.1
        · exact h2 x hx⟩

mutual
theorem conv_ty : (m : MTy) → (v : Val) → m.plain = true → hasTy v (tyOf m) = true →
    m.inhabits v = true
  | .bool, v, _, h => by cases v <;> simp [tyOf, hasTy] at h; simp [MTy.inhabits]
  | .int s w, v, _, h => by simpa [MTy.inhabits] using int_conv s w v (by simpa [tyOf] using h)
  | .usize, v, _, h => by
    simpa [MTy.inhabits] using int_conv false .w64 v (by simpa [tyOf, intTy] using h)
  | .isize, v, _, h => by
    simpa [MTy.inhabits] using int_conv true .w64 v (by simpa [tyOf, intTy] using h)
  | .nonZero _ _, _, hp, _ => by simp [MTy.plain] at hp
  | .nonZeroUsize, _, hp, _ => by simp [MTy.plain] at hp
  | .nonZeroIsize, _, hp, _ => by simp [MTy.plain] at hp
  | .f32, v, _, h => by cases v <;> simp [tyOf, hasTy] at h; simpa [MTy.inhabits] using h
  | .f64, v, _, h => by cases v <;> simp [tyOf, hasTy] at h; simpa [MTy.inhabits] using h
  | .char, v, _, h => by cases v <;> simp [tyOf, hasTy] at h; simpa [MTy.inhabits] using h
  | .unit, v, _, h => by cases v <;> simp [tyOf, hasTy] at h; simp [MTy.inhabits]
  | .phantom, v, _, h => by cases v <;> simp [tyOf, hasTy] at h; simp [MTy.inhabits]
  | .option t, v, hp, h => by
    simp only [MTy.plain] at hp
    cases v <;> simp [tyOf, hasTy] at h
    case none => simp [MTy.inhabits]
    case some v => simpa [MTy.inhabits] using conv_ty t v hp h
  | .result t e, v, hp, h => by
    simp [MTy.plain] at hp
    cases v <;> simp [tyOf, hasTy] at h
    case unitVariant idx => rcases idx with _ | _ | k <;> simp at h
    case tupleVariant idx vs => rcases idx with _ | _ | k <;> simp at h
    case structVariant idx vs => rcases idx with _ | _ | k <;> simp at h
    case newtypeVariant idx v =>
      rcases idx with _ | _ | k <;> simp at h
      · simpa [MTy.inhabits] using conv_ty t v hp.1 h
      · simpa [MTy.inhabits] using conv_ty e v hp.2 h
  | .array t n, v, hp, h => by
    simp only [MTy.plain] at hp
    cases v <;> simp [tyOf, hasTy] at h
    case tuple vs =>
      obtain ⟨h1, h2⟩ := hasTys_replicate_inv vs n (tyOf t) h
      simp only [MTy.inhabits, Bool.and_eq_true, List.all_eq_true, decide_eq_true_eq]
      exact ⟨fun x hx => conv_ty t x hp (h2 x hx), h1⟩
  | .tuple ts, v, hp, h => by
    simp only [MTy.plain] at hp
    cases v <;> simp [tyOf, hasTy] at h
    case tuple vs => simpa [MTy.inhabits] using conv_list ts vs hp h
  | .range t, v, hp, h => by
    simp only [MTy.plain] at hp
    cases v <;> simp [tyOf, hasTy] at h
    case struct vs =>
      rcases vs with _ | ⟨a, _ | ⟨b, _ | ⟨c, r⟩⟩⟩ <;> simp [hasTys] at h
      simp [MTy.inhabits, conv_ty t a hp h.1, conv_ty t b hp h.2]
  | .rangeInclusive t, v, hp, h => by
    simp only [MTy.plain] at hp
    cases v <;> simp [tyOf, hasTy] at h
    case struct vs =>
      rcases vs with _ | ⟨a, _ | ⟨b, _ | ⟨c, r⟩⟩⟩ <;> simp [hasTys] at h
      simp [MTy.inhabits, conv_ty t a hp h.1, conv_ty t b hp h.2]
  | .rangeFrom t, v, hp, h => by
    simp only [MTy.plain] at hp
    cases v <;> simp [tyOf, hasTy] at h
    case struct vs =>
      rcases vs with _ | ⟨a, _ | ⟨b, r⟩⟩ <;> simp [hasTys] at h
      simp [MTy.inhabits, conv_ty t a hp h]
  | .rangeTo t, v, hp, h => by
    simp only [MTy.plain] at hp
    cases v <;> simp [tyOf, hasTy] at h
    case struct vs =>
      rcases vs with _ | ⟨a, _ | ⟨b, r⟩⟩ <;> simp [hasTys] at h
      simp [MTy.inhabits, conv_ty t a hp h]
  | .ref t, v, hp, h => by
    simp only [MTy.plain] at hp
    simpa [MTy.inhabits] using conv_ty t v hp (by simpa [tyOf] using h)
  | .hvec _ _, _, hp, _ => by simp [MTy.plain] at hp
  | .hstring _, _, hp, _ => by simp [MTy.plain] at hp
  | .dstruct f, v, hp, h => by
    simp only [MTy.plain] at hp
    simpa [MTy.inhabits] using conv_struct f v hp (by simpa [tyOf] using h)
  | .denum fs, v, hp, h => by
    simp only [MTy.plain] at hp
    simp only [tyOf] at h
    have hidx : ∃ idx, v.variantIdx? = some idx ∧ idx < 2 ^ 32 := by
      cases v <;> simp [hasTy] at h <;> exact ⟨_, rfl, h.1⟩
    obtain ⟨idx, hi, hlt⟩ := hidx
    simp only [MTy.inhabits, hi]
    simp [hlt]
    exact conv_enum fs idx v hp (variantTys fs) idx hi rfl h
theorem conv_list : (ts : List MTy) → (vs : List Val) → plainList ts = true →
    hasTys vs (tyOfList ts) = true → inhabitsList ts vs = true
  | [], vs, _, h => by cases vs <;> simp [tyOfList, hasTys] at h; simp [inhabitsList]
  | t :: ts, vs, hp, h => by
    simp [plainList] at hp
    cases vs <;> simp [tyOfList, hasTys] at h
    case cons v vs => simp [inhabitsList, conv_ty t v hp.1 h.1, conv_list ts vs hp.2 h.2]
theorem conv_struct : (f : DFields) → (v : Val) → DFields.plain f = true →
    hasTy v (DFields.structTy f) = true → DFields.inhabitsStruct f v = true
  | .unit, v, _, h => by
    cases v <;> simp [DFields.structTy, hasTy] at h; simp [DFields.inhabitsStruct]
  | .unnamed ts, v, hp, h => by
    simp only [DFields.plain] at hp
    rcases ts with _ | ⟨t, _ | ⟨t2, r⟩⟩
    · cases v <;> simp [DFields.structTy, tyOfList, hasTy] at h
      case tupleStruct vs =>
        simpa [DFields.inhabitsStruct] using conv_list [] vs hp (by simpa [tyOfList] using h)
    · cases v <;> simp [DFields.structTy, tyOfList, hasTy] at h
      case newtypeStruct v =>
        simpa [DFields.inhabitsStruct] using
          conv_list [t] [v] hp (by simpa [tyOfList, hasTys] using h)
    · cases v <;> simp [DFields.structTy, tyOfList, hasTy] at h
      case tupleStruct vs =>
        simpa [DFields.inhabitsStruct] using
          conv_list (t :: t2 :: r) vs hp (by simpa [tyOfList] using h)
  | .named ts, v, hp, h => by
    simp only [DFields.plain] at hp
    cases v <;> simp [DFields.structTy, hasTy] at h
    case struct vs => simpa [DFields.inhabitsStruct] using conv_list ts vs hp h
theorem conv_variant : (f : DFields) → (v : Val) → DFields.plain f = true →
    (vts : List Ty) → (idx : Nat) → v.variantIdx? = some idx →
    vts[idx]? = some (DFields.variantTy f) → hasTy v (.enum vts) = true →
    DFields.inhabitsVariant f v = true
  | .unit, v, _, vts, idx, hi, hg, h => by
    cases v <;> simp [Val.variantIdx?] at hi <;> subst hi <;>
      simp [hasTy, hg, DFields.variantTy] at h
    simp [DFields.inhabitsVariant]
  | .unnamed ts, v, hp, vts, idx, hi, hg, h => by
    simp only [DFields.plain] at hp
    rcases ts with _ | ⟨t, _ | ⟨t2, r⟩⟩
    · simp [DFields.variantTy, tyOfList] at hg
      cases v <;> simp [Val.variantIdx?] at hi <;> subst hi <;> simp [hasTy, hg] at h
      case tupleVariant vs =>
        simpa [DFields.inhabitsVariant] using conv_list [] vs hp (by simpa [tyOfList] using h.2)
    · simp [DFields.variantTy, tyOfList] at hg
      cases v <;> simp [Val.variantIdx?] at hi <;> subst hi <;> simp [hasTy, hg] at h
      case newtypeVariant v =>
        simpa [DFields.inhabitsVariant] using
          conv_list [t] [v] hp (by simpa [tyOfList, hasTys] using h.2)
    · simp [DFields.variantTy, tyOfList] at hg
      cases v <;> simp [Val.variantIdx?] at hi <;> subst hi <;> simp [hasTy, hg] at h
      case tupleVariant vs =>
        simpa [DFields.inhabitsVariant] using
          conv_list (t :: t2 :: r) vs hp (by simpa [tyOfList] using h.2)
  | .named ts, v, hp, vts, idx, hi, hg, h => by
    simp only [DFields.plain] at hp
    simp only [DFields.variantTy] at hg
    cases v <;> simp [Val.variantIdx?] at hi <;> subst hi <;> simp [hasTy, hg] at h
    case structVariant vs => simpa [DFields.inhabitsVariant] using conv_list ts vs hp h.2
theorem conv_enum : (fs : List DFields) → (k : Nat) → (v : Val) → plainVariants fs = true →
    (vts : List Ty) → (idx : Nat) → v.variantIdx? = some idx →
    vts[idx]? = (variantTys fs)[k]? → hasTy v (.enum vts) = true →
    inhabitsEnum fs k v = true
  | [], k, v, _, vts, idx, hi, hg, h => by
    simp [variantTys] at hg
    cases v <;> simp [Val.variantIdx?] at hi <;> subst hi <;> simp [hasTy, hg] at h
  | f :: fs, 0, v, hp, vts, idx, hi, hg, h => by
    simp [plainVariants] at hp
    simp only [inhabitsEnum]
    exact conv_variant f v hp.1 vts idx hi (by simpa [variantTys] using hg) h
  | f :: fs, k + 1, v, hp, vts, idx, hi, hg, h => by
    simp [plainVariants] at hp
    simp only [inhabitsEnum]
    exact conv_enum fs k v hp.2 vts idx hi (by simpa [variantTys] using hg) h
end

/-- on the restriction-free fragment, "value of the Rust type" and "well-typed
data-model value of its serde shape" coincide. -/
theorem inhabits_iff_hasTy (m : MTy) (v : Val) (hw : m.wf = true) (hp : m.plain = true) :
    m.inhabits v = true ↔ hasTy v (tyOf m) = true :=
  ⟨inhabits_hasTy m v hw, conv_ty m v hp⟩

/-! ## 5. interplay with C13: `#[serde(with = "postcard::fixint::le")]` fields

`#[derive(MaxSize)]` looks only at the field TYPE, not at serde attributes.  A
fixint-adapted integer field is nevertheless within the bound the derive uses
for it: `size_of::<T>() ≤ varint_max::<T>()`. -/

theorem fixint_within_max_size (w : IntW) (s : Bool) (x : Int) :
    (enc (fixLE w s x)).length ≤ maxSize (.int s w) ∧
    (enc (fixBE w s x)).length ≤ maxSize (.int s w) := by
  obtain ⟨h1, h2⟩ := fixint_length w s x
  rw [h1, h2]
  cases w <;> cases s <;> decide

/-! ## 6. non-vacuity: the crate's own tests, boundary values -/

section Examples
private abbrev u8' : MTy := .int false .w8
private abbrev u16' : MTy := .int false .w16
private abbrev u32' : MTy := .int false .w32
private abbrev u128' : MTy := .int false .w128

-- tests/max_size.rs::test_struct_max_size: `struct Foo { _a: u16, _b: Option<u8> }`
example : maxSize (.dstruct (.named [u16', .option u8'])) = 5 := by decide
-- tests/max_size.rs::test_enum_max_size: `enum Bar { A(u16), B(u8) }`, `enum Baz {}`
example : maxSize (.denum [.unnamed [u16'], .unnamed [u8']]) = 4 := by decide
example : maxSize (.denum []) = 0 := by decide
-- … and `Bar::A(0xFFFF)` is a value of `Bar` that uses all 4 bytes
example : (MTy.denum [.unnamed [u16'], .unnamed [u8']]).inhabits (.newtypeVariant 0 (.u .w16 0xFFFF)) = true
    ∧ enc (.newtypeVariant 0 (.u .w16 0xFFFF)) = [0, 0xFF, 0xFF, 0x03] := by decide
-- an empty enum has no values at all
example (v : Val) : (MTy.denum []).inhabits v = false := by
  simp only [MTy.inhabits]; split <;> simp [inhabitsEnum]
-- max_size.rs::tests::box_max_size / arc_max_size / rc_max_size
example : maxSize (.ref u8') = 1 ∧ maxSize (.ref u32') = 5
    ∧ maxSize (.ref (.tuple [u128', .array u8' 8])) = 27 := by decide
-- tests/max_size.rs::test_vec_edge_cases: a FULL `heapless::Vec<u8, N>` serialises to
-- exactly `POSTCARD_MAX_SIZE` bytes for N = 1, 2, 127, 128, 129, 16383, 16384, 16385
-- (instances of `max_size_tight_witness`)
example : (enc (maxWitness (.hvec u8' 127))).length = maxSize (.hvec u8' 127) :=
  (max_size_tight_witness _ (by decide) (by decide)).2
example : maxSize (.hvec u8' 1) = 2 ∧ maxSize (.hvec u8' 2) = 3 ∧ maxSize (.hvec u8' 127) = 128
    ∧ maxSize (.hvec u8' 128) = 130 ∧ maxSize (.hvec u8' 129) = 131
    ∧ maxSize (.hvec u8' 16383) = 16385 ∧ maxSize (.hvec u8' 16384) = 16387
    ∧ maxSize (.hvec u8' 16385) = 16388 := by decide
-- the two helpers on their edge cases (`varint_size(0) = 1`, discriminant of 0 variants = 0)
example : varintSize 0 = 1 ∧ varintSize 1 = 1 ∧ varintSize 127 = 1 ∧ varintSize 128 = 2
    ∧ varintSize 16383 = 2 ∧ varintSize 16384 = 3 ∧ varintSize (2 ^ 64 - 1) = 10 := by decide
example : varintSizeDiscriminant 0 = 0 ∧ varintSizeDiscriminant 1 = 1
    ∧ varintSizeDiscriminant 127 = 1 ∧ varintSizeDiscriminant 128 = 2
    ∧ varintSizeDiscriminant (2 ^ 32 - 1) = 5 := by decide
-- the built-in constants
example : maxSize .bool = 1 ∧ maxSize (.int true .w8) = 1 ∧ maxSize (.int true .w16) = 3
    ∧ maxSize u32' = 5 ∧ maxSize (.int true .w64) = 10 ∧ maxSize u128' = 19
    ∧ maxSize .usize = 10 ∧ maxSize .isize = 10 ∧ maxSize .f32 = 4 ∧ maxSize .f64 = 8
    ∧ maxSize .char = 5 ∧ maxSize .unit = 0 ∧ maxSize .phantom = 0
    ∧ maxSize (.nonZero false .w8) = 1 ∧ maxSize .nonZeroUsize = 10 := by decide
example : maxSize (.option u32') = 6 ∧ maxSize (.result u8' u32') = 6
    ∧ maxSize (.result u32' u8') = 6 ∧ maxSize (.range u16') = 6
    ∧ maxSize (.rangeInclusive u16') = 6 ∧ maxSize (.rangeFrom u16') = 3
    ∧ maxSize (.rangeTo u16') = 3 ∧ maxSize (.hstring 10) = 11
    ∧ maxSize (.tuple [u8', u16', u32', .bool, .char, .f64]) = 23 := by decide
-- witnesses
example : enc (maxWitness u16') = [0xFF, 0xFF, 0x03] := by decide
example : enc (maxWitness (.int true .w16)) = [0xFF, 0xFF, 0x03] := by decide
example : enc (maxWitness .char) = [4, 0xF0, 0x90, 0x80, 0x80] := by decide
example : enc (maxWitness (.hstring 3)) = [3, 0x41, 0x41, 0x41] := by decide
example : enc (maxWitness (.result u8' u16')) = [1, 0xFF, 0xFF, 0x03] := by decide
example : maxWitness (.dstruct (.unnamed [u8'])) = .newtypeStruct (.u .w8 255) := by rfl
-- the extra restrictions of `MTy.inhabits` matter: the serde shape alone is not
-- enough for the bound (an over-full `heapless::Vec<u8, 2>` would need 4 > 3 bytes) …
example : hasTy (.seq [.u .w8 1, .u .w8 2, .u .w8 3]) (tyOf (.hvec u8' 2)) = true
    ∧ (MTy.hvec u8' 2).inhabits (.seq [.u .w8 1, .u .w8 2, .u .w8 3]) = false
    ∧ (enc (.seq [.u .w8 1, .u .w8 2, .u .w8 3])).length = 4
    ∧ maxSize (.hvec u8' 2) = 3 := by decide
-- … and `NonZero*` excludes 0
example : (MTy.nonZero false .w16).inhabits (.u .w16 0) = false
    ∧ (MTy.nonZero false .w16).inhabits (.u .w16 1) = true
    ∧ (MTy.int false .w16).inhabits (.u .w16 0) = true := by decide
end Examples

end Postcard
