import Postcard.Model.Fixint
import Postcard.Props.C01
/-
  Postcard.Props.C13 — "Fixed-width integer adapters emit exactly size_of bytes
  in the chosen byte order … never a varint … decoding returns the original
  integer."   (source/postcard/src/fixint.rs)
-/
namespace Postcard

/-! ## helper lemmas -/

theorem encList_byteVals (bs : List Byte) :
    encList (bs.map (fun b => Val.u .w8 b.toNat)) = bs := by
  induction bs with
  | nil => simp [encList]
  | cons b bs ih => simp [encList, enc, ih, UInt8.ofNat_toNat]

theorem enc_byteArrayVal (bs : List Byte) : enc (byteArrayVal bs) = bs := by
  simp [byteArrayVal, enc, encList_byteVals]

theorem hasTys_byteVals (bs : List Byte) :
    hasTys (bs.map (fun b => Val.u .w8 b.toNat)) (List.replicate bs.length (.u .w8)) = true := by
  induction bs with
  | nil => simp [hasTys]
  | cons b bs ih =>
    have := UInt8.toNat_lt b
    simp [hasTys, hasTy, List.replicate_succ, ih, IntW.bits]
    exact decide_eq_true (by omega)

theorem bytesOfVals_byteVals (bs : List Byte) :
    bytesOfVals (bs.map (fun b => Val.u .w8 b.toNat)) = some bs := by
  induction bs with
  | nil => simp [bytesOfVals]
  | cons b bs ih =>
    have := UInt8.toNat_lt b
    simp [bytesOfVals, ih, UInt8.ofNat_toNat]
    omega

theorem fixBytesLE_length (w : IntW) (x : Int) : (fixBytesLE w x).length = w.bits / 8 :=
  leBytes_length _ _

theorem fixBytesBE_length (w : IntW) (x : Int) : (fixBytesBE w x).length = w.bits / 8 := by
  simp [fixBytesBE, fixBytesLE_length]

theorem IntW.pow256 (w : IntW) : 256 ^ (w.bits / 8) = 2 ^ w.bits := by
  cases w <;> decide

theorem toBits_lt (bits : Nat) (x : Int) : toBits bits x < 2 ^ bits := by
  unfold toBits
  have hpos : (0 : Int) < (2 : Int) ^ bits := Int.pow_pos (by decide)
  have h1 := Int.emod_nonneg x (Int.ne_of_gt hpos)
  have h2 := Int.emod_lt_of_pos x hpos
  have : ((2 ^ bits : Nat) : Int) = (2 : Int) ^ bits := by simp
  omega

/-- unsigned in-range values are their own bit pattern. -/
theorem toBits_of_nonneg {bits : Nat} {x : Int} (h0 : 0 ≤ x) (h1 : x < (2 ^ bits : Int)) :
    (toBits bits x : Int) = x := by
  unfold toBits
  rw [Int.emod_eq_of_lt h0 h1]
  omega

/-- signed reinterpretation inverts the two's complement bit pattern. -/
theorem ofBits_toBits {bits : Nat} {x : Int} (hb : 0 < bits)
    (h : -(2 ^ (bits - 1) : Int) ≤ x ∧ x < (2 ^ (bits - 1) : Int)) :
    ofBits bits (toBits bits x) = x := by
  obtain ⟨k, rfl⟩ : ∃ k, bits = k + 1 := ⟨bits - 1, by omega⟩
  simp only [Nat.add_sub_cancel] at h
  unfold ofBits toBits
  simp only [Nat.add_sub_cancel]
  have hP : (0 : Int) < (2 : Int) ^ k := Int.pow_pos (by decide)
  have e1 : (2 : Int) ^ (k + 1) = 2 * 2 ^ k := by rw [Int.pow_succ]; omega
  have e2 : ((2 ^ k : Nat) : Int) = (2 : Int) ^ k := by simp
  rw [e1]
  generalize (2 : Int) ^ k = P at *
  by_cases hx : 0 ≤ x
  · rw [Int.emod_eq_of_lt hx (by omega)]
    have : (x.toNat : Int) = x := Int.toNat_of_nonneg hx
    split <;> omega
  · have hm : x % (2 * P) = x + 2 * P := by
      rw [← Int.add_mul_emod_self_left x (2 * P) 1, Int.mul_one]
      exact Int.emod_eq_of_lt (by omega) (by omega)
    rw [hm]
    have : ((x + 2 * P).toNat : Int) = x + 2 * P := Int.toNat_of_nonneg (by omega)
    split <;> omega

/-- `from_le_bytes(to_le_bytes(x)) = x` for every in-range `x`. -/
theorem fixOfBytesLE_fixBytesLE (w : IntW) (s : Bool) (x : Int) (h : fixInRange w s x = true) :
    fixOfBytesLE w s (fixBytesLE w x) = x := by
  have hlt : toBits w.bits x < 256 ^ (w.bits / 8) := by rw [IntW.pow256]; exact toBits_lt _ _
  unfold fixOfBytesLE fixBytesLE
  rw [ofLeBytes_leBytes hlt]
  cases s
  · simp [fixInRange] at h
    simpa using toBits_of_nonneg h.1 h.2
  · simp only [fixInRange, if_true] at h
    simpa using ofBits_toBits (IntW.bits_pos w) ((IntW.inRangeI_iff w x).1 h)

/-! ## 1. the bytes on the wire -/

/-- C13: the little-endian adapter emits exactly `x.to_le_bytes()`. -/
theorem fixint_le (w : IntW) (s : Bool) (x : Int) :
    enc (fixLE w s x) = leBytes (w.bits / 8) (toBits w.bits x) :=
  enc_byteArrayVal _

/-- C13: the big-endian adapter emits exactly the same bytes in reverse order
(`x.to_be_bytes()`). -/
theorem fixint_be (w : IntW) (s : Bool) (x : Int) :
    enc (fixBE w s x) = (leBytes (w.bits / 8) (toBits w.bits x)).reverse :=
  enc_byteArrayVal _

/-- C13: exactly `size_of::<T>()` bytes, whatever the magnitude of `x`
(no in-range hypothesis is needed). -/
theorem fixint_length (w : IntW) (s : Bool) (x : Int) :
    (enc (fixLE w s x)).length = w.bits / 8 ∧ (enc (fixBE w s x)).length = w.bits / 8 := by
  rw [fixint_le, fixint_be]; simp [leBytes_length]

/-- `size_of` for the eight types the macro is instantiated at. -/
theorem fixint_length_table (s : Bool) (x : Int) :
    (enc (fixLE .w16 s x)).length = 2 ∧ (enc (fixLE .w32 s x)).length = 4 ∧
    (enc (fixLE .w64 s x)).length = 8 ∧ (enc (fixLE .w128 s x)).length = 16 ∧
    (enc (fixBE .w16 s x)).length = 2 ∧ (enc (fixBE .w32 s x)).length = 4 ∧
    (enc (fixBE .w64 s x)).length = 8 ∧ (enc (fixBE .w128 s x)).length = 16 := by
  refine ⟨?_, ?_, ?_, ?_, ?_, ?_, ?_, ?_⟩ <;>
    first | exact (fixint_length _ s x).1 | exact (fixint_length _ s x).2

/-- for an in-range unsigned value the bytes are those of the number itself. -/
theorem fixint_le_unsigned (w : IntW) (n : Nat) (h : n < 2 ^ w.bits) :
    enc (fixLE w false (n : Int)) = leBytes (w.bits / 8) n := by
  rw [fixint_le]
  have : (toBits w.bits (n : Int) : Int) = (n : Int) :=
    toBits_of_nonneg (Int.natCast_nonneg n) (by exact_mod_cast h)
  rw [Int.natCast_inj.1 this]

/-! ## 2. typing and round trip -/

theorem fixint_hasTy (w : IntW) (s : Bool) (x : Int) :
    hasTy (fixLE w s x) (fixTy w) = true ∧ hasTy (fixBE w s x) (fixTy w) = true := by
  constructor
  · have := hasTys_byteVals (fixBytesLE w x)
    rw [fixBytesLE_length] at this
    simpa [fixLE, fixTy, byteArrayVal, hasTy] using this
  · have := hasTys_byteVals (fixBytesBE w x)
    rw [fixBytesBE_length] at this
    simpa [fixBE, fixTy, byteArrayVal, hasTy] using this

/-- C13: decoding (`<[u8; N]>::deserialize`, then `from_le_bytes`) returns the
original integer and consumes exactly the `N` bytes. -/
theorem fixint_roundtrip_le (w : IntW) (s : Bool) (x : Int) (h : fixInRange w s x = true)
    (rest : List Byte) :
    dec (fixTy w) (enc (fixLE w s x) ++ rest) = .ok (fixLE w s x, rest) ∧
    unfixLE w s (fixLE w s x) = some x := by
  refine ⟨roundtrip _ _ (fixint_hasTy w s x).1 rest, ?_⟩
  simp [unfixLE, fixLE, byteArrayVal, bytesOfVals_byteVals, fixBytesLE_length,
    fixOfBytesLE_fixBytesLE w s x h]

theorem fixint_roundtrip_be (w : IntW) (s : Bool) (x : Int) (h : fixInRange w s x = true)
    (rest : List Byte) :
    dec (fixTy w) (enc (fixBE w s x) ++ rest) = .ok (fixBE w s x, rest) ∧
    unfixBE w s (fixBE w s x) = some x := by
  refine ⟨roundtrip _ _ (fixint_hasTy w s x).2 rest, ?_⟩
  simp [unfixBE, fixBE, byteArrayVal, bytesOfVals_byteVals, fixBytesBE_length]
  simp [fixBytesBE, fixOfBytesLE_fixBytesLE w s x h]

/-! ## 3. never a varint -/

/-- the ordinary (varint / zig-zag varint) serialisation of the same integer:
`serialize_uN` / `serialize_iN`. -/
def plainInt (w : IntW) (signed : Bool) (x : Int) : Val :=
  if signed then .i w x else .u w x.toNat

theorem varintValue_le_ofLeBytes (p : List Byte) : varintValue p ≤ ofLeBytes p := by
  induction p with
  | nil => simp [varintValue, ofLeBytes]
  | cons b p ih => simp only [varintValue, ofLeBytes]; omega

theorem varintValue_lt_ofLeBytes (b : Byte) (p : List Byte) (hb : 128 ≤ b.toNat) :
    varintValue (b :: p) < ofLeBytes (b :: p) := by
  have := varintValue_le_ofLeBytes p
  simp only [varintValue, ofLeBytes]; omega

theorem ofLeBytes_concat (q : List Byte) (l : Byte) :
    ofLeBytes (q ++ [l]) = ofLeBytes q + 256 ^ q.length * l.toNat := by
  induction q with
  | nil => simp [ofLeBytes]
  | cons b q ih =>
    simp only [List.cons_append, ofLeBytes, ih, List.length_cons, Nat.pow_succ]
    generalize 256 ^ q.length = X
    simp [Nat.mul_add, Nat.mul_assoc, Nat.mul_left_comm, Nat.add_assoc]

theorem IntW.fix_ge_two {w : IntW} (hw : w ≠ .w8) : 2 ≤ w.bits / 8 := by
  cases w <;> simp [IntW.bits] at hw ⊢

theorem IntW.pow256_top {w : IntW} : 256 ^ (w.bits / 8 - 1) * 128 = 2 ^ (w.bits - 1) := by
  cases w <;> decide

/-- A canonical varint that happens to coincide with a little-endian byte
string of at least two bytes cannot carry the same number … -/
theorem leBytes_ne_varint_same {k n : Nat} (hk : 2 ≤ k) (hn : n < 256 ^ k) :
    leBytes k n ≠ Spec.varint n := by
  intro heq
  obtain ⟨q, l, hs, hq, hl, hv⟩ := spec_varint_shape n
  have hlen : (Spec.varint n).length = k := by rw [← heq, leBytes_length]
  have hval : ofLeBytes (Spec.varint n) = n := by rw [← heq]; exact ofLeBytes_leBytes hn
  rw [hs] at hlen hval
  cases q with
  | nil => simp at hlen; omega
  | cons b q =>
    have hb : 128 ≤ b.toNat := hq b (by simp)
    have := varintValue_lt_ofLeBytes b (q ++ [l]) hb
    rw [List.cons_append] at hv hval
    omega

/-- … nor twice that number (zig-zag of a non-negative value). -/
theorem leBytes_ne_varint_double {k n : Nat} (hk : 2 ≤ k) (hn : n < 256 ^ k) :
    leBytes k n ≠ Spec.varint (2 * n) := by
  intro heq
  obtain ⟨q, l, hs, _, _, hv⟩ := spec_varint_shape (2 * n)
  have hlen : (Spec.varint (2 * n)).length = k := by rw [← heq, leBytes_length]
  have hval : ofLeBytes (Spec.varint (2 * n)) = n := by rw [← heq]; exact ofLeBytes_leBytes hn
  have hle := varintValue_le_ofLeBytes (Spec.varint (2 * n))
  rw [hs, hv, ← hs, hval] at hle
  have h0 : n = 0 := by omega
  subst h0
  rw [Spec.varint, if_pos (by decide)] at hlen
  simp at hlen; omega

/-- a varint ends in a byte `< 128`, so read as little-endian its value is
below half of the range. -/
theorem varint_as_le_lt (z k : Nat) (hk : 1 ≤ k) (hlen : (Spec.varint z).length = k) :
    ofLeBytes (Spec.varint z) < 256 ^ (k - 1) * 128 := by
  obtain ⟨q, l, hs, _, hl, _⟩ := spec_varint_shape z
  rw [hs] at hlen ⊢
  rw [ofLeBytes_concat]
  have hq : q.length = k - 1 := by simp at hlen; omega
  have := ofLeBytes_lt q
  rw [hq] at this ⊢
  generalize 256 ^ (k - 1) = X at *
  have : X * l.toNat ≤ X * 127 := Nat.mul_le_mul_left _ (by omega)
  omega

/-- C13 ("never a varint"), unsigned: for `u16 … u128` and EVERY value, the
fixed little-endian encoding is different from the varint encoding
`serialize_uN` would produce (for `n < 128` already by length: `N ≥ 2` bytes
against one). -/
theorem fixint_never_varint_unsigned (w : IntW) (hw : w ≠ .w8) (n : Nat) (h : n < 2 ^ w.bits) :
    enc (fixLE w false (n : Int)) ≠ enc (.u w n) := by
  rw [fixint_le_unsigned w n h]
  have hv : enc (.u w n) = Spec.varint n := by
    cases w
    case w8 => exact absurd rfl hw
    all_goals simp only [enc]; exact encVarint_eq_spec (IntW.widthOk (by decide)) h
  rw [hv]
  exact leBytes_ne_varint_same (IntW.fix_ge_two hw) (by rw [IntW.pow256]; exact h)

/-- C13 ("never a varint"), signed: for `i16 … i128` and every in-range value,
the fixed little-endian encoding is different from the zig-zag varint encoding
`serialize_iN` would produce. -/
theorem fixint_never_varint_signed (w : IntW) (hw : w ≠ .w8) (x : Int)
    (h : w.inRangeI x = true) :
    enc (fixLE w true x) ≠ enc (.i w x) := by
  have hr := (IntW.inRangeI_iff w x).1 h
  have hpos := IntW.bits_pos w
  have hz := zigzag_lt hpos hr
  have hv : enc (.i w x) = Spec.varint (Spec.zigzag x) := by
    rw [← zigzag_eq_spec hpos hr]
    cases w
    case w8 => exact absurd rfl hw
    all_goals simp only [enc]; exact encVarint_eq_spec (IntW.widthOk (by decide)) hz
  rw [hv, fixint_le]
  have hk := IntW.fix_ge_two hw
  have hlt : toBits w.bits x < 256 ^ (w.bits / 8) := by rw [IntW.pow256]; exact toBits_lt _ _
  by_cases hx : 0 ≤ x
  · have hh : (2 : Int) ^ (w.bits - 1) ≤ 2 ^ w.bits := by
      obtain ⟨k, hk⟩ : ∃ k, w.bits = k + 1 := ⟨w.bits - 1, by omega⟩
      have hP : (0 : Int) < (2 : Int) ^ k := Int.pow_pos (by decide)
      rw [hk, Nat.add_sub_cancel, Int.pow_succ]; omega
    have ht : (toBits w.bits x : Int) = x := toBits_of_nonneg hx (by omega)
    have hzz : Spec.zigzag x = 2 * toBits w.bits x := by
      unfold Spec.zigzag; rw [if_pos hx]; omega
    rw [hzz]
    exact leBytes_ne_varint_double hk hlt
  · intro heq
    have hlen : (Spec.varint (Spec.zigzag x)).length = w.bits / 8 := by
      rw [← heq, leBytes_length]
    have hup := varint_as_le_lt _ _ (by omega) hlen
    rw [← heq, ofLeBytes_leBytes hlt, IntW.pow256_top] at hup
    -- but a negative value has the top bit set
    obtain ⟨k, hk⟩ : ∃ k, w.bits = k + 1 := ⟨w.bits - 1, by omega⟩
    rw [hk] at hup hr
    simp only [Nat.add_sub_cancel] at hup hr
    unfold toBits at hup
    have e1 : (2 : Int) ^ (k + 1) = 2 * 2 ^ k := by rw [Int.pow_succ]; omega
    have e2 : ((2 ^ k : Nat) : Int) = (2 : Int) ^ k := by simp
    rw [e1] at hup
    have hP : (0 : Int) < (2 : Int) ^ k := Int.pow_pos (by decide)
    generalize (2 : Int) ^ k = P at *
    have hm : x % (2 * P) = x + 2 * P := by
      rw [← Int.add_mul_emod_self_left x (2 * P) 1, Int.mul_one]
      exact Int.emod_eq_of_lt (by omega) (by omega)
    rw [hm] at hup
    omega

/-- C13 ("never a varint"), both signs in one statement. -/
theorem fixint_never_varint (w : IntW) (hw : w ≠ .w8) (s : Bool) (x : Int)
    (h : fixInRange w s x = true) :
    enc (fixLE w s x) ≠ enc (plainInt w s x) ∧ (enc (fixLE w s x)).length = w.bits / 8 := by
  refine ⟨?_, (fixint_length w s x).1⟩
  cases s
  · simp [fixInRange] at h
    have hn : x.toNat < 2 ^ w.bits := by
      have : ((2 ^ w.bits : Nat) : Int) = (2 : Int) ^ w.bits := by simp
      omega
    have hx : ((x.toNat : Nat) : Int) = x := Int.toNat_of_nonneg h.1
    have := fixint_never_varint_unsigned w hw x.toNat hn
    rw [hx] at this
    simpa [plainInt] using this
  · simp only [fixInRange, if_true] at h
    simpa [plainInt] using fixint_never_varint_signed w hw x h

/-- the big-endian adapter, unsigned: also never the varint of the same number. -/
theorem fixint_be_never_varint_unsigned (w : IntW) (hw : w ≠ .w8) (n : Nat)
    (h : n < 2 ^ w.bits) :
    enc (fixBE w false (n : Int)) ≠ enc (.u w n) := by
  have hle := fixint_le_unsigned w n h
  rw [fixint_le] at hle
  rw [fixint_be, hle]
  have hv : enc (.u w n) = Spec.varint n := by
    cases w
    case w8 => exact absurd rfl hw
    all_goals simp only [enc]; exact encVarint_eq_spec (IntW.widthOk (by decide)) h
  rw [hv]
  intro heq
  have hk := IntW.fix_ge_two hw
  obtain ⟨q, l, hs, hq, hl, hval⟩ := spec_varint_shape n
  have hlen : (Spec.varint n).length = w.bits / 8 := by
    rw [← heq, List.length_reverse, leBytes_length]
  -- the varint value is below 2^(7k) …
  have h1 := varintValue_lt (q ++ [l])
  rw [hval, ← hs, hlen] at h1
  -- … but the first varint byte (≥ 128) is the most significant byte of n
  have h2 : leBytes (w.bits / 8) n = (Spec.varint n).reverse := by rw [← heq, List.reverse_reverse]
  have h3 : ofLeBytes (Spec.varint n).reverse = n := by
    rw [← h2]; exact ofLeBytes_leBytes (by rw [IntW.pow256]; exact h)
  rw [hs] at h3 hlen
  cases q with
  | nil => simp at hlen; omega
  | cons b q =>
    have hb : 128 ≤ b.toNat := hq b (by simp)
    have hql : (l :: q.reverse).length = w.bits / 8 - 1 := by simp at hlen ⊢; omega
    have e : (b :: q ++ [l]).reverse = (l :: q.reverse) ++ [b] := by simp
    rw [e, ofLeBytes_concat, hql] at h3
    have h4 : 256 ^ (w.bits / 8 - 1) * 128 ≤ 256 ^ (w.bits / 8 - 1) * b.toNat :=
      Nat.mul_le_mul_left _ hb
    rw [IntW.pow256_top] at h4
    have h5 : 2 ^ (7 * (w.bits / 8)) ≤ 2 ^ (w.bits - 1) :=
      Nat.pow_le_pow_right (by decide) (by cases w <;> simp [IntW.bits] at hw ⊢)
    omega

/-! ## 4. non-vacuity: the crate's own tests and boundary values -/

-- `test_little_endian`: `DefinitelyLE { x: 0xABCD }` ↦ `[0xCD, 0xAB]`
example : enc (.struct [fixLE .w16 false 0xABCD]) = [0xCD, 0xAB] := by decide
-- `test_big_endian`: `DefinitelyBE { x: 0xABCD }` ↦ `[0xAB, 0xCD]`
example : enc (.struct [fixBE .w16 false 0xABCD]) = [0xAB, 0xCD] := by decide
example : dec (.struct [fixTy .w16]) [0xCD, 0xAB] = .ok (.struct [fixLE .w16 false 0xABCD], []) := by
  rfl
example : unfixLE .w16 false (fixLE .w16 false 0xABCD) = some 0xABCD := by decide
example : unfixBE .w16 false (fixBE .w16 false 0xABCD) = some 0xABCD := by decide
-- the varint of the same number is a different, 3-byte string
example : enc (.u .w16 0xABCD) = [0xCD, 0xD7, 0x02] := by decide
-- small values are NOT shortened; negative values are two's complement
example : enc (fixLE .w32 false 1) = [1, 0, 0, 0] ∧ enc (.u .w32 1) = [1] := by decide
example : enc (fixBE .w32 false 1) = [0, 0, 0, 1] := by decide
example : enc (fixLE .w16 true (-2)) = [0xFE, 0xFF] ∧ enc (.i .w16 (-2)) = [3] := by decide
example : unfixLE .w16 true (fixLE .w16 true (-2)) = some (-2) := by decide
example : unfixBE .w64 true (fixBE .w64 true (-0x8000000000000000)) = some (-0x8000000000000000) := by
  decide
example : enc (fixLE .w128 false (2 ^ 128 - 1)) = List.replicate 16 0xFF := by decide
example : fixInRange .w16 false 0xABCD = true ∧ fixInRange .w16 true 0xABCD = false
    ∧ fixInRange .w16 false (-1) = false ∧ fixInRange .w16 true (-32768) = true := by decide
-- the in-range hypothesis of the round trip is needed: 2^16 wraps to 0
example : unfixLE .w16 false (fixLE .w16 false 65536) = some 0 := by decide

end Postcard
