import Postcard.Lemmas.Crc
/-
  Postcard.Props.C10 — CRC framing (feature `use-crc`).

  * `crc_frame`      : CRC-framed output = plain bytes ++ little-endian checksum of
                       exactly those bytes.
  * `crc_roundtrip`  : the framed bytes are accepted and give the value back.
  * `crc_sound`      : whatever is accepted is "value bytes ++ their checksum".
  * `checksum_corruption_rejected`, `payload_burst_rejected` : error detection.
  * `burst_detected` : the bitwise Rocksoft register detects every burst of
                       length ≤ width (generator with non-zero constant term).
-/
namespace Postcard

/-! ### Framing -/

/-- C10 (framing): over the growable storage, for ANY sequence of
`try_push`/`try_extend` calls with flattened bytes `m`, the CRC flavour never
fails and `finalize` outputs `m` followed by the little-endian checksum of
exactly `m`. -/
theorem crc_frame {w : Nat} (alg : CrcAlg w) (nbytes : Nat) (cs : List Chunk) :
    ∃ s, (CrcSer alg nbytes AllocVec).feed ([], alg.init) cs = (s, none) ∧
      ((CrcSer alg nbytes AllocVec).finalize s).2
        = .ok (chunkBytesF cs ++ leBytes nbytes (crc alg (chunkBytesF cs)).toNat) := by
  refine ⟨_, crcSer_allocVec_feed alg nbytes [] alg.init cs, ?_⟩
  rw [crcSer_allocVec_finalize]
  simp [crc]

/-- the same through `serialize_with_flavor` (`to_allocvec_uN`): the output is
the serializer's byte stream followed by its checksum. -/
theorem crc_frame_serialize {w : Nat} (alg : CrcAlg w) (nbytes : Nat) (v : Val) :
    toAllocVecCrc alg nbytes v
      = .ok (chunkBytesF (emit v) ++ leBytes nbytes (crc alg (chunkBytesF (emit v))).toNat) := by
  simp [toAllocVecCrc, serializeWith, crcSer_allocVec_feed, crcSer_allocVec_finalize, crc]

/-- C10 (framing, any inner flavour): for an inner flavour described by an
output log (`Slice`, `HVec`, `AllocVec`: `loggedSlice`, `loggedHVec`,
`loggedAllocVec`), whenever the calls and `finalize` succeed, the output is
the previous log ++ the bytes ++ their checksum. -/
theorem crc_frame_logged {σ : Type} {w : Nat} {F : Flavor σ (List Byte)} {inv : σ → Prop}
    {log : σ → List Byte} (hL : Logged F inv log) (alg : CrcAlg w) (nbytes : Nat)
    (s0 : σ) (hi : inv s0) (cs : List Chunk) (t t' : σ × BitVec w) (out : List Byte)
    (hfeed : (CrcSer alg nbytes F).feed (s0, alg.init) cs = (t, none))
    (hfin : (CrcSer alg nbytes F).finalize t = (t', .ok out)) :
    out = log s0 ++ chunkBytesF cs ++ leBytes nbytes (crc alg (chunkBytesF cs)).toNat := by
  obtain ⟨hi1, hl, hd⟩ := crcSer_logged_feed hL alg nbytes hi hfeed
  obtain ⟨t1, t2⟩ := t
  simp only at hl hd hi1
  rw [crcSer_logged_finalize hL alg nbytes hi1 hfin, hl, hd]
  rfl

/-! ### Round trip -/

/-- C10 (round trip): if `decF` consumes exactly `m` (whatever follows), and
the checksum fits in `nbytes` bytes, the framed message followed by anything is
accepted, yields the value and leaves exactly what followed. -/
theorem crc_roundtrip {α : Type} {w : Nat} (alg : CrcAlg w) (nbytes : Nat)
    (decF : List Byte → R (α × List Byte)) (m rest : List Byte) (v : α)
    (hfit : w ≤ nbytes * 8)
    (hdec : ∀ rest', decF (m ++ rest') = .ok (v, rest')) :
    takeFromBytesCrc alg nbytes decF (m ++ leBytes nbytes (crc alg m).toNat ++ rest)
      = .ok (v, rest) := by
  have h1 := hdec (leBytes nbytes (crc alg m).toNat ++ rest)
  rw [← List.append_assoc] at h1
  have htake := takeN_append (leBytes nbytes (crc alg m).toNat) rest
  rw [leBytes_length] at htake
  have hcons : List.take ((m ++ leBytes nbytes (crc alg m).toNat ++ rest).length
      - (leBytes nbytes (crc alg m).toNat ++ rest).length)
      (m ++ leBytes nbytes (crc alg m).toNat ++ rest) = m := by
    simp [List.append_assoc]
  simp only [takeFromBytesCrc, h1, htake, hcons, ofLeBytes_leBytes_bv nbytes _ hfit, if_true]

theorem crc_roundtrip_fromBytes {α : Type} {w : Nat} (alg : CrcAlg w) (nbytes : Nat)
    (decF : List Byte → R (α × List Byte)) (m rest : List Byte) (v : α)
    (hfit : w ≤ nbytes * 8)
    (hdec : ∀ rest', decF (m ++ rest') = .ok (v, rest')) :
    fromBytesCrc alg nbytes decF (m ++ leBytes nbytes (crc alg m).toNat ++ rest) = .ok v := by
  simp only [fromBytesCrc, crc_roundtrip alg nbytes decF m rest v hfit hdec]

/-! ### Soundness of acceptance -/

/-- what an accepting run looks like (no hypothesis on `decF`). -/
theorem takeFromBytesCrc_ok {α : Type} {w : Nat} {alg : CrcAlg w} {nbytes : Nat}
    {decF : List Byte → R (α × List Byte)} {bs r : List Byte} {v : α}
    (h : takeFromBytesCrc alg nbytes decF bs = .ok (v, r)) :
    ∃ c, decF bs = .ok (v, c ++ r) ∧ c.length = nbytes ∧
      ofLeBytes c = (crc alg (bs.take (bs.length - (c ++ r).length))).toNat := by
  unfold takeFromBytesCrc at h
  split at h
  · cases h
  · rename_i v0 r0 hd
    simp only at h
    split at h
    · cases h
    · rename_i c r' ht
      split at h
      · rename_i hcrc
        simp only [Except.ok.injEq, Prod.mk.injEq] at h
        obtain ⟨rfl, rfl⟩ := h
        obtain ⟨rfl, hc⟩ := takeN_ok ht
        exact ⟨c, hd, hc, hcrc⟩
      · cases h

/-- C10 (soundness): if the framed deserializer accepts `bs` and `decF` only
ever returns a suffix of its input as remainder, then `bs` is `p ++ c ++ r`
where `p` are the bytes `decF` consumed and `c` is exactly the `nbytes`-byte
little-endian checksum of `p`. -/
theorem crc_sound {α : Type} {w : Nat} (alg : CrcAlg w) (nbytes : Nat)
    (decF : List Byte → R (α × List Byte))
    (hsuffix : ∀ bs v r, decF bs = .ok (v, r) → ∃ p, bs = p ++ r)
    (bs r : List Byte) (v : α)
    (h : takeFromBytesCrc alg nbytes decF bs = .ok (v, r)) :
    ∃ p c, bs = p ++ c ++ r ∧ c.length = nbytes ∧
      c = leBytes nbytes (crc alg p).toNat ∧ decF bs = .ok (v, c ++ r) := by
  obtain ⟨c, hd, hc, hcrc⟩ := takeFromBytesCrc_ok h
  obtain ⟨p, hp⟩ := hsuffix _ _ _ hd
  have htake : bs.take (bs.length - (c ++ r).length) = p := by
    rw [hp]; simp
  rw [htake] at hcrc
  refine ⟨p, c, by rw [hp, List.append_assoc], hc, ?_, hd⟩
  rw [← hcrc, ← hc, leBytes_ofLeBytes]

/-- evaluation of the framed deserializer once `decF`'s behaviour on the input
is known. -/
theorem takeFromBytesCrc_eval {α : Type} {w : Nat} (alg : CrcAlg w)
    (decF : List Byte → R (α × List Byte)) (p c r : List Byte) (v : α)
    (hd : decF (p ++ c ++ r) = .ok (v, c ++ r)) :
    takeFromBytesCrc alg c.length decF (p ++ c ++ r)
      = if ofLeBytes c = (crc alg p).toNat then .ok (v, r) else .error .badCrc := by
  have hcons : List.take ((p ++ c ++ r).length - (c ++ r).length) (p ++ c ++ r) = p := by
    simp [List.append_assoc]
  simp only [takeFromBytesCrc, hd, takeN_append, hcons]

/-- C10 (checksum corruption): take an accepted frame `p ++ c ++ r` (`p` the
value bytes, `c` its checksum).  Replace the checksum by ANY other `c'` of the
same length.  Provided `decF` still decodes the value bytes the same way
(hypothesis `hindep`: its result on `p` does not depend on what follows —
true of `dec ty` whenever it succeeded on `p ++ …`), the corrupted frame is
rejected with `DeserializeBadCrc`. -/
theorem checksum_corruption_rejected {α : Type} {w : Nat} (alg : CrcAlg w) (nbytes : Nat)
    (decF : List Byte → R (α × List Byte)) (p c c' r : List Byte) (v : α)
    (hok : takeFromBytesCrc alg nbytes decF (p ++ c ++ r) = .ok (v, r))
    (hd : decF (p ++ c ++ r) = .ok (v, c ++ r))
    (hc : c.length = nbytes) (hlen : c'.length = c.length) (hne : c' ≠ c)
    (hindep : decF (p ++ c' ++ r) = .ok (v, c' ++ r)) :
    takeFromBytesCrc alg nbytes decF (p ++ c' ++ r) = .error .badCrc := by
  subst hc
  rw [takeFromBytesCrc_eval alg decF p c r v hd] at hok
  have hcrc : ofLeBytes c = (crc alg p).toNat := by
    by_cases hh : ofLeBytes c = (crc alg p).toNat
    · exact hh
    · rw [if_neg hh] at hok; cases hok
  rw [← hlen, takeFromBytesCrc_eval alg decF p c' r v hindep]
  have : ofLeBytes c' ≠ (crc alg p).toNat := by
    intro h'
    exact hne (ofLeBytes_inj hlen (by rw [h', hcrc]))
  rw [if_neg this]

/-- the same with the independence hypothesis in its natural form:
`decF` decodes `p` to `v` whatever follows. -/
theorem checksum_corruption_rejected' {α : Type} {w : Nat} (alg : CrcAlg w) (nbytes : Nat)
    (decF : List Byte → R (α × List Byte)) (p c c' r : List Byte) (v : α)
    (hindep : ∀ t, decF (p ++ t) = .ok (v, t))
    (hok : takeFromBytesCrc alg nbytes decF (p ++ c ++ r) = .ok (v, r))
    (hc : c.length = nbytes) (hlen : c'.length = c.length) (hne : c' ≠ c) :
    takeFromBytesCrc alg nbytes decF (p ++ c' ++ r) = .error .badCrc :=
  checksum_corruption_rejected alg nbytes decF p c c' r v hok
    (by rw [List.append_assoc]; exact hindep _) hc hlen hne
    (by rw [List.append_assoc]; exact hindep _)

/-! ### Burst detection of the bitwise register

Generator with non-zero constant term (`poly.getLsbD 0 = true`; this forces
`w > 0`).  Everything is at the level of the Rocksoft register, for every
`init`, `refin`, `refout`, `xorout`. -/

/-- C10 (burst detection, bit level): two equal-length bit strings (in the
order in which the algorithm consumes bits) whose difference is
`zeros ++ burst ++ zeros`, `burst` of at most `w` bits and not all zero, leave
different registers from any common start state, hence different CRCs. -/
theorem burst_detected_bits {w : Nat} (alg : CrcAlg w) (hodd : alg.poly.getLsbD 0 = true)
    (s : BitVec w) (x y : List Bool) (hxy : x.length = y.length)
    (a c : Nat) (burst : List Bool)
    (hdiff : bitsXor x y = List.replicate a false ++ burst ++ List.replicate c false)
    (hlen : burst.length ≤ w) (hne : true ∈ burst) :
    crcFinal alg (feedBits alg s x) ≠ crcFinal alg (feedBits alg s y) :=
  fun h => feedBits_burst_ne alg hodd s x y hxy a c burst hdiff hlen hne (crcFinal_inj alg h)

/-- C10 (burst detection, byte level): equal-length messages that differ by a
burst of at most `w` bits (`BurstDiff`: bits taken MSB-first per byte when
`refin = false`, LSB-first when `refin = true`) have different CRCs. -/
theorem burst_detected {w : Nat} (alg : CrcAlg w) (hodd : alg.poly.getLsbD 0 = true)
    (m m' : List Byte) (hlen : m.length = m'.length) (hb : BurstDiff alg m m') :
    crc alg m ≠ crc alg m' := by
  obtain ⟨a, c, burst, hdiff, hbl, hne⟩ := hb
  unfold crc
  rw [crcState_eq_feedBits, crcState_eq_feedBits]
  exact burst_detected_bits alg hodd alg.init _ _ (by simp [msgBits_length, hlen])
    a c burst hdiff hbl hne

/-- corruption confined to `w / 8` consecutive bytes (4 bytes for a CRC-32)
changes the CRC. -/
theorem window_detected {w : Nat} (alg : CrcAlg w) (hodd : alg.poly.getLsbD 0 = true)
    (pre x y post : List Byte) (hxy : x.length = y.length) (hne : x ≠ y)
    (hfit : 8 * x.length ≤ w) :
    crc alg (pre ++ x ++ post) ≠ crc alg (pre ++ y ++ post) :=
  burst_detected alg hodd _ _ (by simp [hxy]) (window_burstDiff alg pre x y post hxy hne hfit)

/-- a single flipped bit changes the CRC (burst of length 1; any width). -/
theorem bitflip_detected {w : Nat} (alg : CrcAlg w) (hodd : alg.poly.getLsbD 0 = true)
    (pre post : List Byte) (b : Byte) (k : Nat) (hk : k < 8) :
    crc alg (pre ++ [b] ++ post) ≠ crc alg (pre ++ [flipBit b k] ++ post) := by
  have hw : 0 < w := by
    cases w with
    | zero => simp at hodd
    | succ n => omega
  exact burst_detected alg hodd _ _ (by simp) (bitflip_burstDiff alg hw pre post b k hk)

/-- C10 (payload corruption): take an accepted frame `p ++ c ++ r` (`p` the
bytes `decF` consumed, `c` the checksum).  Replace `p` by `p'` of the same
length that differs from it by a burst of at most `w` bits.  If `decF` still
stops at the same place on the corrupted frame (hypothesis `hsame`: "the
corruption leaves the decoded length unchanged"), the corrupted frame is not
accepted.  (If `decF` fails, the frame is rejected anyway; if it stops
elsewhere, the bytes compared with the digest are no longer `c` and nothing
can be said in general.) -/
theorem payload_burst_rejected {α : Type} {w : Nat} (alg : CrcAlg w)
    (hodd : alg.poly.getLsbD 0 = true) (nbytes : Nat)
    (decF : List Byte → R (α × List Byte)) (p p' c r : List Byte) (v : α)
    (hok : takeFromBytesCrc alg nbytes decF (p ++ c ++ r) = .ok (v, r))
    (hd : decF (p ++ c ++ r) = .ok (v, c ++ r))
    (hc : c.length = nbytes)
    (hlen : p'.length = p.length) (hburst : BurstDiff alg p p')
    (hsame : ∀ v' r', decF (p' ++ c ++ r) = .ok (v', r') → r' = c ++ r) :
    ∀ v' r', takeFromBytesCrc alg nbytes decF (p' ++ c ++ r) ≠ .ok (v', r') := by
  subst hc
  intro v' r' hacc
  rw [takeFromBytesCrc_eval alg decF p c r v hd] at hok
  have hcrc : ofLeBytes c = (crc alg p).toNat := by
    by_cases hh : ofLeBytes c = (crc alg p).toNat
    · exact hh
    · rw [if_neg hh] at hok; cases hok
  obtain ⟨c2, hd2, hc2, hcrc2⟩ := takeFromBytesCrc_ok hacc
  have hr := hsame _ _ hd2
  have hcc : c2 = c := (List.append_inj hr hc2).1
  subst hcc
  have hr' : r' = r := List.append_cancel_left hr
  subst hr'
  have htake : List.take ((p' ++ c2 ++ r').length - (c2 ++ r').length) (p' ++ c2 ++ r') = p' := by
    simp [List.append_assoc]
  rw [htake, hcrc] at hcrc2
  exact burst_detected alg hodd p p' hlen.symm hburst (BitVec.eq_of_toNat_eq hcrc2)

/-- single-bit flip in the payload of an accepted frame. -/
theorem payload_bitflip_rejected {α : Type} {w : Nat} (alg : CrcAlg w)
    (hodd : alg.poly.getLsbD 0 = true) (nbytes : Nat)
    (decF : List Byte → R (α × List Byte)) (pre post c r : List Byte) (b : Byte) (k : Nat)
    (hk : k < 8) (v : α)
    (hok : takeFromBytesCrc alg nbytes decF (pre ++ [b] ++ post ++ c ++ r) = .ok (v, r))
    (hd : decF (pre ++ [b] ++ post ++ c ++ r) = .ok (v, c ++ r))
    (hc : c.length = nbytes)
    (hsame : ∀ v' r', decF (pre ++ [flipBit b k] ++ post ++ c ++ r) = .ok (v', r') → r' = c ++ r) :
    ∀ v' r', takeFromBytesCrc alg nbytes decF (pre ++ [flipBit b k] ++ post ++ c ++ r)
      ≠ .ok (v', r') := by
  have hw : 0 < w := by
    cases w with
    | zero => simp at hodd
    | succ n => omega
  exact payload_burst_rejected alg hodd nbytes decF _ _ c r v hok hd hc (by simp)
    (bitflip_burstDiff alg hw pre post b k hk) hsame

/-! ### Non-vacuity -/

/-- the catalogue generators used by the harness all have constant term 1. -/
example : CRC_8_SMBUS.poly.getLsbD 0 = true ∧ CRC_8_MAXIM_DOW.poly.getLsbD 0 = true ∧
    CRC_16_IBM_SDLC.poly.getLsbD 0 = true ∧ CRC_16_XMODEM.poly.getLsbD 0 = true ∧
    CRC_32_ISO_HDLC.poly.getLsbD 0 = true ∧ CRC_32_BZIP2.poly.getLsbD 0 = true ∧
    CRC_64_ECMA_182.poly.getLsbD 0 = true ∧ CRC_64_XZ.poly.getLsbD 0 = true ∧
    CRC_82_DARC.poly.getLsbD 0 = true := by decide +kernel

/-- decidable equality of results, for the closed `decide` examples below
(private: not exported, so it cannot clash with other property files). -/
private instance decEqR {α : Type} [DecidableEq α] : DecidableEq (R α)
  | .ok a, .ok b => if h : a = b then isTrue (by rw [h]) else isFalse (by intro h'; cases h'; exact h rfl)
  | .error a, .error b =>
    if h : a = b then isTrue (by rw [h]) else isFalse (by intro h'; cases h'; exact h rfl)
  | .ok _, .error _ => isFalse (by intro h; cases h)
  | .error _, .ok _ => isFalse (by intro h; cases h)

/-- a one-byte decoder: consumes exactly one byte, whatever follows. -/
def decByte : List Byte → R (Byte × List Byte)
  | [] => .error .unexpectedEnd
  | b :: r => .ok (b, r)

/-- framing: `to_allocvec_u32(&0x31u8, CRC_32_ISO_HDLC)`. -/
example : toAllocVecCrc CRC_32_ISO_HDLC 4 (.u .w8 0x31) = .ok [0x31, 0xb7, 0xef, 0xdc, 0x83] := by
  decide +kernel

/-- the hypotheses of `crc_roundtrip` are satisfiable and its conclusion computes. -/
example : takeFromBytesCrc CRC_32_ISO_HDLC 4 decByte
    ([0x31] ++ leBytes 4 (crc CRC_32_ISO_HDLC [0x31]).toNat ++ [0xaa]) = .ok (0x31, [0xaa]) :=
  crc_roundtrip CRC_32_ISO_HDLC 4 decByte [0x31] [0xaa] 0x31 (by decide) (fun _ => rfl)
example : [0x31] ++ leBytes 4 (crc CRC_32_ISO_HDLC [0x31]).toNat ++ [0xaa]
    = [0x31, 0xb7, 0xef, 0xdc, 0x83, 0xaa] := by decide +kernel
example : takeFromBytesCrc CRC_32_ISO_HDLC 4 decByte [0x31, 0xb7, 0xef, 0xdc, 0x83, 0xaa]
    = .ok (0x31, [0xaa]) := by decide +kernel

/-- `crc_sound`'s suffix hypothesis holds for `decByte`. -/
example : ∀ bs v r, decByte bs = .ok (v, r) → ∃ p, bs = p ++ r := by
  intro bs v r h
  cases bs with
  | nil => cases h
  | cons b t =>
    simp only [decByte, Except.ok.injEq, Prod.mk.injEq] at h
    exact ⟨[b], by simp [h.2]⟩

/-- a corrupted checksum is rejected with `badCrc`; a flipped payload bit too;
a truncated frame gives `unexpectedEnd`. -/
example : takeFromBytesCrc CRC_32_ISO_HDLC 4 decByte [0x31, 0xb7, 0xef, 0xdc, 0x82, 0xaa]
    = .error .badCrc := by decide +kernel
example : takeFromBytesCrc CRC_32_ISO_HDLC 4 decByte [0x33, 0xb7, 0xef, 0xdc, 0x83, 0xaa]
    = .error .badCrc := by decide +kernel
example : takeFromBytesCrc CRC_32_ISO_HDLC 4 decByte [0x31, 0xb7, 0xef, 0xdc]
    = .error .unexpectedEnd := by decide +kernel

/-- `checksum_corruption_rejected'` instantiated. -/
example : takeFromBytesCrc CRC_32_ISO_HDLC 4 decByte ([0x31] ++ [0, 0, 0, 0] ++ [0xaa])
    = .error .badCrc :=
  checksum_corruption_rejected' CRC_32_ISO_HDLC 4 decByte [0x31] [0xb7, 0xef, 0xdc, 0x83]
    [0, 0, 0, 0] [0xaa] 0x31 (fun _ => rfl) (by decide +kernel) rfl rfl (by decide)

/-- `payload_bitflip_rejected` instantiated (0x31 with bit 1 flipped = 0x33). -/
example : ∀ v' r', takeFromBytesCrc CRC_32_ISO_HDLC 4 decByte
    ([] ++ [flipBit 0x31 1] ++ [] ++ [0xb7, 0xef, 0xdc, 0x83] ++ [0xaa]) ≠ .ok (v', r') :=
  payload_bitflip_rejected CRC_32_ISO_HDLC (by decide +kernel) 4 decByte [] []
    [0xb7, 0xef, 0xdc, 0x83] [0xaa] 0x31 1 (by decide) 0x31 (by decide +kernel) rfl rfl
    (by intro v' r' h; simp [decByte] at h; exact h.2.symm)

/-- a burst longer than the width CAN go undetected, so the bound `≤ w` in
`burst_detected` is sharp for CRC-8/SMBUS: XOR-ing the generator itself
(9 bits: 0x107) into two adjacent bytes leaves the CRC unchanged. -/
example : crc CRC_8_SMBUS [0x31, 0x32] = crc CRC_8_SMBUS [0x31 ^^^ 0x01, 0x32 ^^^ 0x07] := by
  decide +kernel

/-- an even "generator" (zero constant term) does NOT detect all single-bit
errors, so the hypothesis `poly.getLsbD 0 = true` is needed. -/
example : crc ({ poly := 0x00, init := 0, xorout := 0, refin := false, refout := false } : CrcAlg 8)
      [0x00] =
    crc ({ poly := 0x00, init := 0, xorout := 0, refin := false, refout := false } : CrcAlg 8)
      [0x01] := by decide +kernel

end Postcard
