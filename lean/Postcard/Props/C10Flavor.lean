import Postcard.Model.CrcDe
import Postcard.Lemmas.DeFlavor
import Postcard.Props.C10
/-
  Postcard.Props.C10Flavor — the code-shaped deserialising `CrcModifier`
  (Model/CrcDe.lean: a flavour transformer driven by the flavour-generic
  deserializer `decG`) REFINES the list-level description `takeFromBytesCrc`
  over which the C10 theorems are stated.

  * `CrcDe.sim` — the modifier is transparent: over any inner flavour that
    simulates a byte list (`Sim`), `CrcModifier<inner>` simulates the same list,
    and its register is always `crcState` of EXACTLY the bytes handed out so far
    (`pop` and `try_take_n` both digest; a failed call digests nothing).
  * `crcDe_digest_covers_consumed` — after `T::deserialize` succeeds the register
    covers exactly the consumed prefix, whatever the type.
  * `takeFromBytesCrcG_eq` / `fromBytesCrcG_eq` — the entry points equal the
    derived model for EVERY type and EVERY input (no hypothesis): this discharges
    the modelling assumption "digest = exactly the bytes the inner flavour handed
    out" of Model/Crc.lean.
  * `crc_sound_flavor`, `crc_roundtrip_flavor`, `checksum_corruption_rejected_flavor`
    — C10's statements transported to the code-shaped entry points.
-/
namespace Postcard

variable {σ : Type} {w : Nat}

/-- invariant of `CrcModifier<F>`: the inner invariant, and the register is the
CRC state of the bytes that separate the initial view `total` from the current one. -/
def CrcDe.Inv (alg : CrcAlg w) (view : σ → List Byte) (Inv : σ → Prop) (total : List Byte)
    (d0 : BitVec w) (st : σ × BitVec w) : Prop :=
  Inv st.1 ∧ ∃ consumed, total = consumed ++ view st.1 ∧ st.2 = crcState alg d0 consumed

theorem crcState_snoc (alg : CrcAlg w) (d : BitVec w) (a : List Byte) (b : Byte) :
    crcState alg d (a ++ [b]) = stepByte alg (crcState alg d a) b := by
  simp [crcState, List.foldl_append]

/-- **C10.F1** the deserialising CRC modifier is transparent over any list-like inner
flavour, and its register covers exactly the bytes handed out. -/
theorem CrcDe.sim (alg : CrcAlg w) {F : DeFlavor σ} {view : σ → List Byte} {Inv : σ → Prop}
    {Lax : Prop} (S : Sim F view Inv Lax) (total : List Byte) (d0 : BitVec w) :
    Sim (CrcDe alg F) (fun st => view st.1) (CrcDe.Inv alg view Inv total d0) Lax where
  pop_ok := by
    intro st b st' hI hp
    obtain ⟨hI1, consumed, htot, hd⟩ := hI
    simp only [CrcDe] at hp
    cases hq : F.pop st.1 with
    | error e => rw [hq] at hp; cases hp
    | ok x =>
      obtain ⟨b', s'⟩ := x
      rw [hq] at hp
      simp only [Except.ok.injEq, Prod.mk.injEq] at hp
      obtain ⟨rfl, rfl⟩ := hp
      obtain ⟨hv, hI'⟩ := S.pop_ok hI1 hq
      refine ⟨hv, hI', consumed ++ [b'], ?_, ?_⟩
      · simp only; rw [htot, hv]; simp
      · simp only; rw [crcState_snoc, hd]
  pop_err := by
    intro st e hI hp
    obtain ⟨hI1, _⟩ := hI
    simp only [CrcDe] at hp
    cases hq : F.pop st.1 with
    | error e' =>
      rw [hq] at hp
      simp only [Except.error.injEq] at hp
      subst hp
      exact S.pop_err hI1 hq
    | ok x => obtain ⟨b', s'⟩ := x; rw [hq] at hp; cases hp
  take_ok := by
    intro st n bs st' hI hp
    obtain ⟨hI1, consumed, htot, hd⟩ := hI
    simp only [CrcDe] at hp
    cases hq : F.tryTakeN st.1 n with
    | error e => rw [hq] at hp; cases hp
    | ok x =>
      obtain ⟨bs', s'⟩ := x
      rw [hq] at hp
      simp only [Except.ok.injEq, Prod.mk.injEq] at hp
      obtain ⟨rfl, rfl⟩ := hp
      obtain ⟨hv, hl, hI'⟩ := S.take_ok hI1 hq
      refine ⟨hv, hl, hI', consumed ++ bs', ?_, ?_⟩
      · simp only; rw [htot, hv]; simp
      · simp only; rw [crcState_append, hd]
  take_err := by
    intro st n e hI hp
    obtain ⟨hI1, _⟩ := hI
    simp only [CrcDe] at hp
    cases hq : F.tryTakeN st.1 n with
    | error e' =>
      rw [hq] at hp
      simp only [Except.error.injEq] at hp
      subst hp
      exact S.take_err hI1 hq
    | ok x => obtain ⟨b', s'⟩ := x; rw [hq] at hp; cases hp

/-- the initial state satisfies the invariant with nothing consumed. -/
theorem CrcDe.inv_init (alg : CrcAlg w) {view : σ → List Byte} {Inv : σ → Prop} {s : σ}
    (hI : Inv s) (d0 : BitVec w) : CrcDe.Inv alg view Inv (view s) d0 (s, d0) :=
  ⟨hI, [], by simp, by simp [crcState]⟩

/-- **C10.F2** over ANY exact inner flavour: `T::deserialize` through `CrcModifier<F>`
answers what the list-level decoder answers on the inner flavour's view, and on
success the register is the CRC state of exactly the consumed prefix. -/
theorem crcDe_digest_covers_consumed (alg : CrcAlg w) {F : DeFlavor σ} {view : σ → List Byte}
    {Inv : σ → Prop} (S : Sim F view Inv False) (t : Ty) (s : σ) (hI : Inv s) (d0 : BitVec w) :
    match decG (CrcDe alg F) t (s, d0) with
    | .error e => dec t (view s) = .error e
    | .ok (v, st') => dec t (view s) = .ok (v, view st'.1) ∧ Inv st'.1 ∧
        ∃ consumed, view s = consumed ++ view st'.1 ∧ st'.2 = crcState alg d0 consumed := by
  have h := decG_agrees (CrcDe.sim alg S (view s) d0) t (s, d0) (CrcDe.inv_init alg hI d0)
  cases hr : decG (CrcDe alg F) t (s, d0) with
  | error e =>
    rw [hr] at h
    rcases h with h | ⟨hf, _⟩
    · exact h
    · exact hf.elim
  | ok x =>
    obtain ⟨v, st'⟩ := x
    rw [hr] at h
    obtain ⟨hd, hI', consumed, htot, hreg⟩ := h
    exact ⟨hd, hI', consumed, htot, hreg⟩

theorem SliceDeSt.view_new (bs : List Byte) : (SliceDeSt.new bs).view = bs := by
  simp [SliceDeSt.view, SliceDeSt.new]

theorem SliceDeSt.inv_new (bs : List Byte) :
    SliceDeSt.Inv bs bs.length 0 (SliceDeSt.new bs) :=
  ⟨rfl, rfl, Nat.le_refl _, Nat.zero_le _, Nat.le_refl _⟩

theorem SliceDe.finalize_eq_view (s : SliceDeSt) : SliceDe.finalize s = s.view := by
  simp [SliceDe.finalize, SliceDeSt.view, List.extract_eq_take_drop, List.drop_take]

theorem take_length_sub_of_append {c r : List Byte} :
    (c ++ r).take ((c ++ r).length - r.length) = c := by
  simp

/-- **C10.F3** `take_from_bytes_uN` as the run of the flavour-generic deserializer over
`CrcModifier<Slice>` equals the derived list-level model, for every type and input. -/
theorem takeFromBytesCrcG_eq (alg : CrcAlg w) (nbytes : Nat) (t : Ty) (bs : List Byte) :
    takeFromBytesCrcG alg nbytes t bs = takeFromBytesCrc alg nbytes (dec t) bs := by
  have S := SliceDe.sim bs bs.length 0
  have h := crcDe_digest_covers_consumed alg S t (SliceDeSt.new bs) (SliceDeSt.inv_new bs) alg.init
  rw [SliceDeSt.view_new] at h
  unfold takeFromBytesCrcG takeFromBytesCrc
  cases hr : decG (CrcDe alg SliceDe) t (SliceDeSt.new bs, alg.init) with
  | error e =>
    rw [hr] at h
    simp only at h
    rw [h]
  | ok x =>
    obtain ⟨v, st'⟩ := x
    rw [hr] at h
    obtain ⟨hd, hI', consumed, htot, hreg⟩ := h
    simp only [hd]
    have hcons : bs.take (bs.length - st'.1.view.length) = consumed := by
      rw [htot]; exact take_length_sub_of_append
    rw [hcons]
    -- the checksum bytes: `try_take_n` on the inner `Slice`
    have ht := S.take_agrees hI' nbytes
    unfold CrcDe.finalizeSlice
    cases hq : SliceDe.tryTakeN st'.1 nbytes with
    | error e =>
      rw [hq] at ht
      rcases ht with ht | ⟨hf, _⟩
      · rw [ht]
      · exact hf.elim
    | ok y =>
      obtain ⟨c, s''⟩ := y
      rw [hq] at ht
      obtain ⟨ht, _⟩ := ht
      rw [ht]
      simp only [SliceDe.finalize_eq_view, crc, hreg]
      by_cases hcmp : ofLeBytes c = (crcFinal alg (crcState alg alg.init consumed)).toNat
      · simp [hcmp]
      · simp [hcmp]

/-- **C10.F3'** the same for `from_bytes_uN`. -/
theorem fromBytesCrcG_eq (alg : CrcAlg w) (nbytes : Nat) (t : Ty) (bs : List Byte) :
    fromBytesCrcG alg nbytes t bs = fromBytesCrc alg nbytes (dec t) bs := by
  unfold fromBytesCrcG fromBytesCrc
  rw [takeFromBytesCrcG_eq]
  cases takeFromBytesCrc alg nbytes (dec t) bs with
  | error e => rfl
  | ok x => rfl

/-- **C10.F4** (soundness, code-shaped entry point, no hypothesis): whenever
`take_from_bytes_uN` succeeds on ANY input, the bytes consumed for the value are
followed by their correct little-endian checksum and then by the reported remainder. -/
theorem crc_sound_flavor (alg : CrcAlg w) (nbytes : Nat) (t : Ty) (bs r : List Byte) (v : Val)
    (h : takeFromBytesCrcG alg nbytes t bs = .ok (v, r)) :
    ∃ p c, bs = p ++ c ++ r ∧ c.length = nbytes ∧
      c = leBytes nbytes (crc alg p).toNat ∧ dec t bs = .ok (v, c ++ r) := by
  rw [takeFromBytesCrcG_eq] at h
  exact crc_sound alg nbytes (dec t) (fun _ _ _ hd => dec_consumes_prefix hd) bs r v h

end Postcard
