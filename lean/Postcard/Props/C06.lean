import Postcard.Lemmas.Cobs
/-
  Property C06 — "COBS-framed output is one well-formed frame and decodes
  back, frame by frame".

  Model: `Postcard/Model/Cobs.lean` (mirrors cobs-0.2.3 enc.rs / dec.rs,
  postcard ser/flavors.rs `Cobs<B>`, de/mod.rs `take_from_bytes_cobs`).
  Reference: `Postcard/Spec/Cobs.lean` (COBS from its definition).
  Helper lemmas: `Postcard/Lemmas/Cobs.lean` (there also: the contract
  `LawfulIdx` on the inner flavour and its instances for `AllocVec`, `HVec`,
  `Slice`).
-/
namespace Postcard
open Spec

/-! ### the `u8` counters of `EncoderState` never overflow

`num_bt_sent += 1` / `offset_idx += 1` are unchecked `u8` additions (panic in a
debug build, wrap in release).  In every state reachable from `default` by
`push`es both counters are in `1..=254` before the increment. -/
theorem enc_u8_no_overflow (bs : List Byte) :
    let e := bs.foldl (fun e b => (e.push b).1) EncSt.default
    e.numBtSent + 1 < 256 ∧ e.offsetIdx + 1 < 256 ∧ 1 ≤ e.numBtSent ∧ e.offsetIdx = e.numBtSent := by
  obtain ⟨h1, h2, h3⟩ := EncSt.inv_reach bs
  exact ⟨by omega, by omega, h1, h3⟩

/-! ### the `Cobs` flavour computes the reference encoding -/

/-- General form: `F` is any inner flavour satisfying the contract `LawfulIdx`
(push appends to `log` while there is `room`, `IndexMut` inside the log
overwrites, `finalize` returns the log), started empty with room for the frame.
Any call sequence `cs` (pushes and extends) whose bytes flatten to `m`:
`try_new` succeeds, all calls succeed, `finalize` returns
`cobsEncode m ++ [0]`.  No error, no panic. -/
theorem cobs_flavor_eq_spec_lawful {σ : Type} {F : Flavor σ (List Byte)} (L : LawfulIdx F)
    (s0 : σ) (cs : List Chunk) (m : List Byte) (hm : cs.flatMap Chunk.bytes = m)
    (h0 : L.log s0 = []) (hroom : L.room s0 ((cobsEncode m).length + 1)) :
    ∃ st1 st2 st3, Cobs.tryNew F s0 = (st1, none) ∧ (Cobs F).feed st1 cs = (st2, none) ∧
      (Cobs F).finalize st2 = (st3, .ok (cobsEncode m ++ [0])) :=
  cobs_flavor_eq_spec_gen L s0 cs m hm h0 hroom

/-- `Cobs<AllocVec>` (growable storage): never fails. -/
theorem cobs_flavor_eq_spec (cs : List Chunk) (m : List Byte) (hm : cs.flatMap Chunk.bytes = m) :
    ∃ st1 st2 st3, Cobs.tryNew AllocVec [] = (st1, none) ∧
      (Cobs AllocVec).feed st1 cs = (st2, none) ∧
      (Cobs AllocVec).finalize st2 = (st3, .ok (cobsEncode m ++ [0])) :=
  cobs_flavor_eq_spec_gen LawfulIdx.allocVec [] cs m hm rfl trivial

/-- byte-by-byte version (`try_extend(m)` on the COBS flavour = the trait
default = one `try_push` per byte). -/
theorem cobs_flavor_eq_spec_bytes (m : List Byte) :
    ∃ st1 st2 st3, Cobs.tryNew AllocVec [] = (st1, none) ∧
      (Cobs AllocVec).tryExtend st1 m = (st2, none) ∧
      (Cobs AllocVec).finalize st2 = (st3, .ok (cobsEncode m ++ [0])) := by
  obtain ⟨st1, st2, st3, h1, h2, h3⟩ := cobs_flavor_eq_spec [.extend m] m (by simp [Chunk.bytes])
  refine ⟨st1, st2, st3, h1, ?_, h3⟩
  simp only [Flavor.feed, Flavor.step] at h2
  rcases hx : (Cobs AllocVec).tryExtend st1 m with ⟨s', _ | e⟩
  · rw [hx] at h2; simpa using h2
  · rw [hx] at h2; simp at h2

/-- `Cobs<HVec<B>>` with capacity for the frame. -/
theorem cobs_flavor_eq_spec_hvec (cap : Nat) (cs : List Chunk) (m : List Byte)
    (hm : cs.flatMap Chunk.bytes = m) (hcap : (cobsEncode m).length + 1 ≤ cap) :
    ∃ st1 st2 st3, Cobs.tryNew HVec ⟨cap, []⟩ = (st1, none) ∧
      (Cobs HVec).feed st1 cs = (st2, none) ∧
      (Cobs HVec).finalize st2 = (st3, .ok (cobsEncode m ++ [0])) :=
  cobs_flavor_eq_spec_gen LawfulIdx.hvec ⟨cap, []⟩ cs m hm rfl
    (by simpa [LawfulIdx.hvec] using hcap)

/-- `Cobs<Slice>` over a caller buffer `mem` long enough for the frame. -/
theorem cobs_flavor_eq_spec_slice (mem : List Byte) (cs : List Chunk) (m : List Byte)
    (hm : cs.flatMap Chunk.bytes = m) (hcap : (cobsEncode m).length + 1 ≤ mem.length) :
    ∃ st1 st2 st3, Cobs.tryNew Slice ⟨mem, 0⟩ = (st1, none) ∧
      (Cobs Slice).feed st1 cs = (st2, none) ∧
      (Cobs Slice).finalize st2 = (st3, .ok (cobsEncode m ++ [0])) :=
  cobs_flavor_eq_spec_gen LawfulIdx.slice ⟨mem, 0⟩ cs m hm (by simp [LawfulIdx.slice])
    (by simpa [LawfulIdx.slice] using hcap)

/-- through `serialize_with_flavor`: serializing any value `v` with
`Cobs::try_new(AllocVec)` yields the COBS frame of its call bytes. -/
theorem cobs_serializeWith (v : Val) :
    ∃ st1, Cobs.tryNew AllocVec [] = (st1, none) ∧
      (serializeWith (Cobs AllocVec) st1 v).2 =
        .ok (cobsEncode ((emit v).flatMap Chunk.bytes) ++ [0]) := by
  obtain ⟨st1, st2, st3, h1, h2, h3⟩ := cobs_flavor_eq_spec (emit v) _ rfl
  refine ⟨st1, h1, ?_⟩
  simp only [serializeWith, h2, h3]

/-! ### … and never panics, even when the storage runs full

`self.flav[idx] = mval` (`IndexMut`) is the only panic site of the flavour.
For an inner flavour satisfying the total contract `LawfulIdx.Total` (a push
either appends or fails with `SerializeBufferFull`), started empty: whatever the
capacity and whatever the call sequence, `try_new; calls…; finalize` (stopping
at the first error, as the serializer does) ends in `Ok(_)` or
`SerializeBufferFull`, never in a panic: `code_idx` always lies inside the bytes
already written. -/
theorem cobs_flavor_no_panic {σ : Type} {F : Flavor σ (List Byte)} (L : LawfulIdx F)
    (T : L.Total) (s0 : σ) (h0 : L.log s0 = []) (hv : T.valid s0) (cs : List Chunk) :
    (∃ st, Cobs.tryNew F s0 = (st, some .bufferFull)) ∨
    (∃ st1, Cobs.tryNew F s0 = (st1, none) ∧
      ((∃ st2, (Cobs F).feed st1 cs = (st2, some .bufferFull)) ∨
       (∃ st2, (Cobs F).feed st1 cs = (st2, none) ∧
         ((∃ out, ((Cobs F).finalize st2).2 = .ok out) ∨
          ((Cobs F).finalize st2).2 = .error .bufferFull)))) :=
  cobs_run_no_panic L T s0 h0 hv cs

/-- instance: `Cobs<Slice>` over ANY caller buffer (also a too-short one). -/
theorem cobs_flavor_no_panic_slice (mem : List Byte) (cs : List Chunk) :
    (∃ st, Cobs.tryNew Slice ⟨mem, 0⟩ = (st, some .bufferFull)) ∨
    (∃ st1, Cobs.tryNew Slice ⟨mem, 0⟩ = (st1, none) ∧
      ((∃ st2, (Cobs Slice).feed st1 cs = (st2, some .bufferFull)) ∨
       (∃ st2, (Cobs Slice).feed st1 cs = (st2, none) ∧
         ((∃ out, ((Cobs Slice).finalize st2).2 = .ok out) ∨
          ((Cobs Slice).finalize st2).2 = .error .bufferFull)))) :=
  cobs_run_no_panic LawfulIdx.slice LawfulIdx.sliceTotal ⟨mem, 0⟩ (by simp [LawfulIdx.slice])
    (Nat.zero_le _) cs

/-- instance: `Cobs<HVec<B>>` of ANY capacity. -/
theorem cobs_flavor_no_panic_hvec (cap : Nat) (cs : List Chunk) :
    (∃ st, Cobs.tryNew HVec ⟨cap, []⟩ = (st, some .bufferFull)) ∨
    (∃ st1, Cobs.tryNew HVec ⟨cap, []⟩ = (st1, none) ∧
      ((∃ st2, (Cobs HVec).feed st1 cs = (st2, some .bufferFull)) ∨
       (∃ st2, (Cobs HVec).feed st1 cs = (st2, none) ∧
         ((∃ out, ((Cobs HVec).finalize st2).2 = .ok out) ∨
          ((Cobs HVec).finalize st2).2 = .error .bufferFull)))) :=
  cobs_run_no_panic LawfulIdx.hvec LawfulIdx.hvecTotal ⟨cap, []⟩ rfl trivial cs

/-! ### shape of the frame -/

/-- the frame body contains no zero … -/
theorem frame_no_interior_zero (m : List Byte) : ∀ b ∈ cobsEncode m, b ≠ 0 :=
  cobsEncode_no_zero m

/-- … so the frame `cobsEncode m ++ [0]` contains exactly one zero, its last
byte: cutting any buffer that starts with the frame at the first zero gives back
exactly the body. -/
theorem frame_one_zero (m rest : List Byte) :
    (cobsEncode m ++ [0]).count 0 = 1 ∧
    (cobsEncode m ++ [0] ++ rest).takeWhile (· ≠ 0) = cobsEncode m := by
  constructor
  · rw [List.count_append, List.count_eq_zero.mpr (fun h => cobsEncode_no_zero m 0 h rfl)]
    simp
  · have := frameBody_append_zero (cobsEncode m) rest (cobsEncode_no_zero m)
    simpa [frameBody] using this

/-- length of the frame body: one byte per message byte, one leading code
byte, plus one code byte per full (254 data bytes, code 0xFF) block;
`Spec.fullBlocks` counts those blocks. -/
theorem frame_length (m : List Byte) :
    (cobsEncode m).length = m.length + 1 + fullBlocks m ∧
    (cobsEncode m).length ≤ m.length + m.length / 254 + 1 ∧
    ((∀ b ∈ m, b ≠ 0) → (cobsEncode m).length = m.length + m.length / 254 + 1) := by
  have hlen := cobsEncodeGo_length m []
  have hle := fullBlocksGo_le m 0 (by omega)
  simp only [List.length_nil, Nat.zero_add] at hlen hle
  refine ⟨by simpa [cobsEncode, fullBlocks] using hlen, ?_, ?_⟩
  · simp only [cobsEncode]; omega
  · intro hz
    have heq := fullBlocksGo_eq m 0 (by omega) hz
    simp only [Nat.zero_add] at heq
    simp only [cobsEncode]; omega

/-- with the sentinel: at most `n + n/254 + 2` bytes. -/
theorem frame_length_with_sentinel (m : List Byte) :
    (cobsEncode m ++ [0]).length ≤ m.length + m.length / 254 + 2 := by
  have := (frame_length m).2.1
  simp only [List.length_append, List.length_cons, List.length_nil]; omega

/-! ### decoding a frame -/

/-- the reference decoder inverts the reference encoder, and the crate's
in-place decoder agrees on any buffer that starts with the frame. -/
theorem decode_encode (m rest : List Byte) :
    cobsDecode (cobsEncode m) = some m ∧
    ∃ buf', decodeRaw (cobsEncode m ++ [0] ++ rest) =
        .ok (buf', m.length, (cobsEncode m).length) ∧
      buf'.take m.length = m ∧ buf'.drop (cobsEncode m).length = 0 :: rest ∧
      buf'.length = (cobsEncode m ++ [0] ++ rest).length := by
  refine ⟨cobsDecode_encode m, ?_⟩
  have hfb : frameBody (cobsEncode m ++ [0] ++ rest) = cobsEncode m := by
    simpa using frameBody_append_zero (cobsEncode m) rest (cobsEncode_no_zero m)
  obtain ⟨b1, hb, ht, hl, hd⟩ := decodeRawSt_some (cobsEncode m ++ [0] ++ rest) m
    (by rw [hfb]; exact cobsDecode_encode m)
  rw [hfb] at hb hd
  refine ⟨b1, by simp only [decodeRaw, hb], ht, ?_, hl⟩
  rw [hd]; simp

/-- same without the final sentinel (frame body only, nothing after it). -/
theorem decode_encode_no_sentinel (m : List Byte) :
    ∃ buf', decodeRaw (cobsEncode m) = .ok (buf', m.length, (cobsEncode m).length) ∧
      buf'.take m.length = m ∧ buf'.length = (cobsEncode m).length := by
  have hfb := frameBody_of_zero_free (cobsEncode m) (cobsEncode_no_zero m)
  obtain ⟨b1, hb, ht, hl, _⟩ := decodeRawSt_some (cobsEncode m) m
    (by rw [hfb]; exact cobsDecode_encode m)
  rw [hfb] at hb
  exact ⟨b1, by simp only [decodeRaw, hb], ht, hl⟩

/-- `take_from_bytes_cobs` on a buffer starting with the frame of `m`: the
payload handed to `from_bytes` is `m`, the returned remainder is exactly what
follows the frame; and if the final sentinel is absent (buffer = body only), the
payload is still `m` and the remainder is empty. -/
theorem take_frames {α : Type} (decF : List Byte → R α) (m rest : List Byte) :
    (takeFromBytesCobs decF (cobsEncode m ++ [0] ++ rest)).1 = (decF m).map (fun t => (t, rest)) ∧
    (takeFromBytesCobs decF (cobsEncode m)).1 = (decF m).map (fun t => (t, [])) := by
  constructor
  · have hfb : frameBody (cobsEncode m ++ [0] ++ rest) = cobsEncode m := by
      simpa using frameBody_append_zero (cobsEncode m) rest (cobsEncode_no_zero m)
    rw [takeFromBytesCobs_eq, hfb, cobsDecode_encode]
    simp
  · have hfb := frameBody_of_zero_free (cobsEncode m) (cobsEncode_no_zero m)
    have hd : (cobsEncode m).drop ((cobsEncode m).length + 1) = [] :=
      List.drop_eq_nil_iff.mpr (by omega)
    rw [takeFromBytesCobs_eq, hfb, cobsDecode_encode]
    simp only [hd]

/-- the caller's loop: take `k` frames off the front of a buffer. -/
def takeAllFrames {α : Type} (decF : List Byte → R α) : Nat → List Byte → R (List α × List Byte)
  | 0, buf => .ok ([], buf)
  | k + 1, buf =>
    match (takeFromBytesCobs decF buf).1 with
    | .error e => .error e
    | .ok (t, rest) =>
      match takeAllFrames decF k rest with
      | .error e => .error e
      | .ok (ts, r) => .ok (t :: ts, r)

/-- frame-by-frame decoding of a concatenation of frames
`frame m₁ ++ … ++ frame mₖ ++ rest`. -/
theorem take_frames_iter {α : Type} (decF : List Byte → R α) (g : List Byte → α)
    (ms : List (List Byte)) (rest : List Byte) (hdec : ∀ m ∈ ms, decF m = .ok (g m)) :
    takeAllFrames decF ms.length ((ms.map cobsFrame).flatten ++ rest) = .ok (ms.map g, rest) := by
  induction ms with
  | nil => simp [takeAllFrames]
  | cons m ms ih =>
    have h1 := (take_frames decF m ((ms.map cobsFrame).flatten ++ rest)).1
    have e : ((m :: ms).map cobsFrame).flatten ++ rest =
        cobsEncode m ++ [0] ++ ((ms.map cobsFrame).flatten ++ rest) := by
      simp [cobsFrame]
    rw [hdec m (by simp)] at h1
    simp only [List.length_cons, takeAllFrames, e, h1, Except.map,
      ih (fun x hx => hdec x (by simp [hx]))]
    simp

/-! ### non-vacuity: concrete frames through the model
(`Except` has no `DecidableEq` in core, hence `.toOption`) -/
example : (Cobs.tryNew AllocVec []).2 = none := by decide
example : ((Cobs AllocVec).finalize
    ((Cobs AllocVec).tryExtend (Cobs.tryNew AllocVec []).1 [0x11, 0x22, 0x00, 0x33]).1).2.toOption
    = some [3, 0x11, 0x22, 2, 0x33, 0] := by decide
example : ((Cobs Slice).finalize
    ((Cobs Slice).tryExtend (Cobs.tryNew Slice ⟨[9, 9, 9, 9, 9, 9], 0⟩).1 [0x11, 0, 0x33]).1).2.toOption
    = some [2, 0x11, 2, 0x33, 0] := by decide
-- a too-short slice reports `bufferFull`, it does not panic
example : ((Cobs Slice).tryExtend (Cobs.tryNew Slice ⟨[9, 9], 0⟩).1 [0x11, 0, 0x33]).2
    = some .bufferFull := by decide
example : (decodeRaw [3, 0x11, 0x22, 2, 0x33, 0, 9, 9]).toOption
    = some ([0x11, 0x22, 0, 0x33, 0x33, 0, 9, 9], 4, 5) := by decide
example : (takeFromBytesCobs (fun l => (.ok l : R (List Byte)))
    [3, 0x11, 0x22, 2, 0x33, 0, 9, 9]).1.toOption = some ([0x11, 0x22, 0, 0x33], [9, 9]) := by decide
example : (takeFromBytesCobs (fun l => (.ok l : R (List Byte)))
    [3, 0x11, 0x22, 2, 0x33]).1.toOption = some ([0x11, 0x22, 0, 0x33], []) := by decide
example : (takeAllFrames (fun l => (.ok l : R (List Byte))) 2 [1, 0, 2, 7, 0, 5]).toOption
    = some ([[], [7]], [5]) := by decide

end Postcard
