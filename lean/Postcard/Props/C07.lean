import Postcard.Lemmas.Cobs
/-
  Property C07 — "COBS decoding of arbitrary bytes is total and agrees with
  the COBS definition".

  Model: `Postcard/Model/Cobs.lean` — `decodeRawSt`/`decodeRaw` mirror
  `decode_raw!(buff, buff)` of cobs-0.2.3 dec.rs with EVERY slice index checked
  (`.panic` when out of range; also when the loop fuel runs out),
  `fromBytesCobs` / `takeFromBytesCobs` mirror postcard de/mod.rs with explicit
  `.panic` for `&s[..sz]`, both `split_at_mut`s and the `usize` subtraction.
  Reference: `Spec.cobsDecode` (`Postcard/Spec/Cobs.lean`).

  `frameBody buf = buf.takeWhile (· ≠ 0)` is the frame body: the bytes strictly
  before the first zero (all of `buf` when it contains no zero).
-/
namespace Postcard
open Spec

/-- master statement about `decode_in_place_report` on an ARBITRARY buffer:
the outcome is determined by the reference decoder on the frame body. -/
theorem decodeRaw_cases (buf : List Byte) :
    (cobsDecode (buf.takeWhile (· ≠ 0)) = none ∧ decodeRaw buf = .error .badEncoding) ∨
    (∃ p buf', cobsDecode (buf.takeWhile (· ≠ 0)) = some p ∧
      decodeRaw buf = .ok (buf', p.length, (buf.takeWhile (· ≠ 0)).length) ∧
      buf'.take p.length = p ∧ p.length ≤ (buf.takeWhile (· ≠ 0)).length ∧
      (buf.takeWhile (· ≠ 0)).length ≤ buf.length ∧ buf'.length = buf.length ∧
      buf'.drop (buf.takeWhile (· ≠ 0)).length = buf.drop (buf.takeWhile (· ≠ 0)).length) := by
  cases h : cobsDecode (frameBody buf) with
  | none =>
    obtain ⟨b1, hb, _, _⟩ := decodeRawSt_none buf h
    exact Or.inl ⟨rfl, by simp only [decodeRaw, hb]⟩
  | some p =>
    obtain ⟨b1, hb, ht, hl, hd⟩ := decodeRawSt_some buf p h
    exact Or.inr ⟨p, b1, rfl, by simp only [decodeRaw, hb], ht, cobsDecode_len_le h,
      frameBody_length_le buf, hl, hd⟩

/-! ### totality: no panic, on any input -/

/-- For EVERY buffer: the in-place decoder never panics (no slice index out of
range — invariant `dest_index ≤ source_index ≤ src_end ≤ len` — and the loop
terminates within `len + 1` iterations); on success
`dst_used ≤ src_used ≤ len`; and `from_bytes_cobs` / `take_from_bytes_cobs`
never panic (`&s[..sz]` and both `split_at_mut` indices are in range,
`src_used - dst_used` does not underflow) provided the inner `from_bytes` does
not. -/
theorem cobs_de_total (buf : List Byte) :
    decodeRaw buf ≠ .error .panic ∧
    (∀ buf' d s, decodeRaw buf = .ok (buf', d, s) → d ≤ s ∧ s ≤ buf.length ∧ buf'.length = buf.length) ∧
    (∀ {α : Type} (decF : List Byte → R α), (∀ l, decF l ≠ .error .panic) →
      (fromBytesCobs decF buf).1 ≠ .error .panic ∧
      (takeFromBytesCobs decF buf).1 ≠ .error .panic) := by
  refine ⟨?_, ?_, ?_⟩
  · rcases decodeRaw_cases buf with ⟨_, h⟩ | ⟨p, b1, _, h, _⟩ <;> rw [h] <;> simp
  · intro buf' d s hds
    rcases decodeRaw_cases buf with ⟨_, h⟩ | ⟨p, b1, _, h, _, h1, h2, h3, _⟩
    · rw [h] at hds; simp at hds
    · rw [h] at hds
      simp only [Except.ok.injEq, Prod.mk.injEq] at hds
      obtain ⟨rfl, rfl, rfl⟩ := hds
      exact ⟨h1, h2, h3⟩
  · intro α decF hdec
    rw [fromBytesCobs_eq, takeFromBytesCobs_eq]
    cases cobsDecode (frameBody buf) with
    | none => simp
    | some p =>
      refine ⟨hdec p, ?_⟩
      have := hdec p
      cases hp : decF p with
      | error e => rw [hp] at this; simpa [Except.map, hp] using this
      | ok t => simp [Except.map, hp]

/-! ### agreement with the COBS definition -/

/-- `none` of the reference decoder on a zero-free body means exactly: some
code byte points past the end of the body. -/
theorem malformed_iff (f : List Byte) (hz : ∀ b ∈ f, b ≠ 0) :
    cobsDecode f = none ↔ CodeOverrun f :=
  cobsDecode_none_iff (f.length + 1) f (by omega) hz

/-- Let `f` be the frame body of `buf`.  The crate decoder fails (with the
`Err(())` that postcard maps to `DeserializeBadEncoding`) exactly when the
reference decoder rejects `f`, i.e. exactly when some code byte of `f` points
past its end; otherwise it returns the reference payload `p` in the first
`p.length` bytes of the buffer, `dst_used = p.length`, `src_used = f.length`.
Hence `from_bytes_cobs` behaves as `from_bytes` on `p`, resp.
`DeserializeBadEncoding`. -/
theorem cobs_de_eq_spec (buf : List Byte) :
    let f := buf.takeWhile (· ≠ 0)
    (decodeRaw buf = .error .badEncoding ↔ cobsDecode f = none) ∧
    (decodeRaw buf = .error .badEncoding ↔ CodeOverrun f) ∧
    (∀ p, cobsDecode f = some p →
      ∃ buf', decodeRaw buf = .ok (buf', p.length, f.length) ∧ buf'.take p.length = p) ∧
    (∀ {α : Type} (decF : List Byte → R α),
      (fromBytesCobs decF buf).1 =
        match cobsDecode f with
        | none => .error .badEncoding
        | some p => decF p) := by
  intro f
  have hiff : decodeRaw buf = .error .badEncoding ↔ cobsDecode f = none := by
    rcases decodeRaw_cases buf with ⟨h0, h⟩ | ⟨p, b1, h0, h, _⟩
    · exact ⟨fun _ => h0, fun _ => h⟩
    · constructor
      · intro he; rw [h] at he; simp at he
      · intro hn; rw [h0] at hn; simp at hn
  refine ⟨hiff, ?_, ?_, ?_⟩
  · rw [hiff]
    exact malformed_iff f (frameBody_split buf).2.1
  · intro p hp
    obtain ⟨b1, hb, ht, _, _⟩ := decodeRawSt_some buf p hp
    exact ⟨b1, by simp only [decodeRaw, hb]; rfl, ht⟩
  · intro α decF
    exact fromBytesCobs_eq decF buf

/-- `take_from_bytes_cobs`: same payload, and the returned remainder is
`buf.drop (f.length + 1)` — all bytes after the first zero; empty when the
buffer contains no zero. -/
theorem remainder_after_sentinel {α : Type} (decF : List Byte → R α) (buf : List Byte) :
    let f := buf.takeWhile (· ≠ 0)
    (takeFromBytesCobs decF buf).1 =
      match cobsDecode f with
      | none => .error .badEncoding
      | some p => (decF p).map (fun t => (t, buf.drop (f.length + 1))) :=
  takeFromBytesCobs_eq decF buf

/-- the remainder spelled out: with a zero at position `f.length` it is what
follows that zero; without any zero it is empty. -/
theorem remainder_cases (buf : List Byte) :
    let f := buf.takeWhile (· ≠ 0)
    (buf = f ∧ buf.drop (f.length + 1) = []) ∨
    (buf = f ++ 0 :: buf.drop (f.length + 1)) := by
  show (buf = frameBody buf ∧ buf.drop ((frameBody buf).length + 1) = []) ∨
    (buf = frameBody buf ++ 0 :: buf.drop ((frameBody buf).length + 1))
  obtain ⟨_, _, h3, h4⟩ := frameBody_split buf
  rcases h4 with h | ⟨r, h⟩
  · left
    refine ⟨by rw [h, List.append_nil] at h3; exact h3, ?_⟩
    have := List.drop_eq_nil_iff.mp h
    exact List.drop_eq_nil_iff.mpr (by omega)
  · right
    have hr : buf.drop ((frameBody buf).length + 1) = r := by
      have : buf.drop ((frameBody buf).length + 1) = (buf.drop (frameBody buf).length).drop 1 := by
        rw [List.drop_drop]
      rw [this, h]; rfl
    rw [hr]
    rw [h] at h3
    exact h3

/-- In-place writes are confined to the frame: whatever the outcome, the
buffer keeps its length and every byte at or after the frame's end (the first
zero, `src_used` on success) is untouched.  The second components of
`fromBytesCobs` / `takeFromBytesCobs` (the caller's buffer after the call) are
that same buffer. -/
theorem writes_confined (buf : List Byte) :
    (∀ buf' d s, decodeRaw buf = .ok (buf', d, s) →
      buf'.drop s = buf.drop s ∧ buf'.length = buf.length) ∧
    ((decodeRawSt buf).1.length = buf.length ∧
      (decodeRawSt buf).1.drop (buf.takeWhile (· ≠ 0)).length
        = buf.drop (buf.takeWhile (· ≠ 0)).length) ∧
    (∀ {α : Type} (decF : List Byte → R α),
      (fromBytesCobs decF buf).2 = (decodeRawSt buf).1 ∧
      (takeFromBytesCobs decF buf).2 = (decodeRawSt buf).1) := by
  refine ⟨?_, ?_, ?_⟩
  · intro buf' d s hds
    rcases decodeRaw_cases buf with ⟨_, h⟩ | ⟨p, b1, _, h, _, _, _, h3, h4⟩
    · rw [h] at hds; simp at hds
    · rw [h] at hds
      simp only [Except.ok.injEq, Prod.mk.injEq] at hds
      obtain ⟨rfl, rfl, rfl⟩ := hds
      exact ⟨h4, h3⟩
  · obtain ⟨hl, hd, _, _⟩ := decodeRawSt_spec buf
    exact ⟨hl, hd⟩
  · intro α decF
    constructor
    · unfold fromBytesCobs
      rcases decodeRawSt buf with ⟨b1, (e | ⟨d, s⟩)⟩
      · cases e <;> rfl
      · simp only []; split <;> rfl
    · unfold takeFromBytesCobs
      rcases decodeRawSt buf with ⟨b1, (e | ⟨d, s⟩)⟩
      · cases e <;> rfl
      · simp only []
        repeat' split
        all_goals rfl

/-! ### non-vacuity -/
example : (decodeRaw [3, 0x11, 0, 2, 0x33]).toOption = none := by decide
example : (match decodeRaw [3, 0x11, 0, 2, 0x33] with
    | .error .badEncoding => true | _ => false) = true := by decide
example : CodeOverrun [3, 0x11] := .here (by decide)
example : (decodeRaw [0, 1, 2]).toOption = some ([0, 1, 2], 0, 0) := by decide
example : (decodeRaw []).toOption = some ([], 0, 0) := by decide
example : (decodeRaw [1, 1, 1, 0]).toOption = some ([0, 0, 1, 0], 2, 3) := by decide
example : (takeFromBytesCobs (fun l => (.ok l : R (List Byte))) [0, 1, 2]).1.toOption
    = some ([], [1, 2]) := by decide
example : (fromBytesCobs (fun l => (.ok l : R (List Byte))) [5, 0x11, 0x22, 2, 0x33, 0, 4]).1.toOption
    = some [0x11, 0x22, 2, 0x33] := by decide

end Postcard
