import Postcard.Props.C11
/-
  Postcard.Props.C11Sched — the `write_all` / `read_exact` LOOPS of std, over an
  arbitrary schedule of answers of the underlying `write` / `read`, refine the
  atomic transitions `WriterSt.writeAll` / `IOReaderSt.readExact` of
  Model/DeFlavor.lean.  Core Lean only.

  This turns the informal argument in the header of Model/DeFlavor.lean ("the
  number and sizes of the partial reads / writes, retried `Interrupted`s and a
  sink answering `Ok(0)` are not visible to postcard") into theorems.

  mirrors (external, std / embedded-io):
  * `std::io::Write::write_all`
      while !buf.is_empty() { match self.write(buf) {
          Ok(0) => return Err(WriteZero), Ok(n) => buf = &buf[n..],
          Err(e) if e.kind() == Interrupted => {}, Err(e) => return Err(e) } }
  * `std::io::Read::read_exact` (`default_read_exact`)
      while !buf.is_empty() { match this.read(buf) {
          Ok(0) => break, Ok(n) => buf = &mut buf[n..],
          Err(e) if e.is_interrupted() => {}, Err(e) => return Err(e) } }
      if !buf.is_empty() { Err(UnexpectedEof) } else { Ok(()) }
  (`embedded_io::{Write::write_all, Read::read_exact}` are the same loops without
  the `Interrupted` arm.)

  Modelling choices.
  * A SCHEDULE is the list of answers the sink / source gives to the successive
    `write` / `read` calls; each loop iteration consumes exactly one answer, so
    the loops are structurally recursive on the schedule (no fuel).
  * A real `write(buf)` answering `Ok(n)` has `1 ≤ n ≤ buf.len()` (`Ok(0)` is the
    separate answer `zero`); `accept n` therefore hands over
    `min (n+1) buf.len()` bytes, so every `accept` is a meaningful answer.
  * `deliver k` hands out `min (k+1) (min wanted available)` bytes when the
    stream is non-empty, and is `Ok(0)` (end of stream) when it is empty: the
    `stream` of `IOReaderSt` is by definition everything the reader will ever
    deliver, so `Ok(0)` happens exactly at its end.
  * An exhausted schedule counts as a hard error (`fail`): the theorems quantify
    over ALL schedules, so this only adds behaviours.

  1. `writeAllLoop_prefix`, `writeAllLoop_fail_strict`, `writeAllLoop_refines`,
     `writeAllLoop_interrupts_invisible` (+ `_cons`, `_of_filter_eq`).
  2. `readExactLoop_prefix`, `readExactLoop_refines`,
     `readExactLoop_interrupts_invisible` (+ `_cons`, `_of_filter_eq`).
     `IOReaderSt` also carries scratch-buffer bookkeeping (`scratchCap`,
     `scratchUsed`, `slots`); `readExact` does not touch it, and the refinement
     relates the stream side only (`stream`, `fault`, `delivered`).
  3. `WriteFlSched`, `to_io_any_schedule`, `to_io_sched_refines`: `to_io` through a
     writer whose `write_all` is the loop over an arbitrary schedule.
  3b. `IOReaderSched`, `IOReaderSched.sim`, `from_io_any_schedule`: `from_io` through a
     reader whose `read_exact` is the loop over an arbitrary schedule, via the
     generic simulation theorem `decG_agrees`.
  4. non-vacuity examples.
-/
namespace Postcard

/-! ## 0. answers and loops -/

/-- one answer of `Write::write(buf)`. -/
inductive WResp
  | accept (n : Nat)   -- `Ok(min (n+1) buf.len())`
  | zero               -- `Ok(0)`
  | interrupted        -- `Err(e)`, `e.kind() == Interrupted`
  | fail               -- any other `Err(e)`
  deriving DecidableEq, Repr

/-- one answer of `Read::read(buf)`. -/
inductive RResp
  | deliver (n : Nat)  -- `Ok(min (n+1) (min buf.len() available))`; `Ok(0)` at end of stream
  | interrupted
  | fail
  deriving DecidableEq, Repr

/-- `write_all(bs)` on a sink that has accepted `written` so far and answers
the successive `write` calls with `sched`.  Returns (everything the sink has
accepted, `Ok`?, the unused answers). -/
def writeAllLoop : List WResp → List Byte → List Byte → List Byte × Bool × List WResp
  | sched, w, [] => (w, true, sched)                       -- `while !buf.is_empty()`
  | [], w, _ :: _ => (w, false, [])                        -- exhausted schedule = hard error
  | r :: s, w, b :: bs =>
    match r with
    | .accept n => writeAllLoop s (w ++ (b :: bs).take (n + 1)) ((b :: bs).drop (n + 1))
    | .zero => (w, false, s)                               -- `Ok(0) => Err(WriteZero)`
    | .interrupted => writeAllLoop s w (b :: bs)           -- retry
    | .fail => (w, false, s)

/-- `read_exact(buf)`, `buf.len() = n`, on a reader whose undelivered future is
`stream` and which answers the successive `read` calls with `sched`.  Returns
(the filled buffer on `Ok`, the reader's remaining future, the unused answers). -/
def readExactLoop : List RResp → List Byte → Nat → Option (List Byte) × List Byte × List RResp
  | sched, stream, 0 => (some [], stream, sched)           -- `while !buf.is_empty()`
  | [], stream, _ + 1 => (none, stream, [])                -- exhausted schedule = hard error
  | r :: s, stream, n + 1 =>
    match r with
    | .interrupted => readExactLoop s stream (n + 1)       -- retry
    | .fail => (none, stream, s)
    | .deliver k =>
      match stream with
      | [] => (none, [], s)                                -- `Ok(0)` → `UnexpectedEof`
      | c :: cs =>
        let m := min (k + 1) (min (n + 1) (cs.length + 1))
        let r := readExactLoop s ((c :: cs).drop m) (n + 1 - m)
        (r.1.map ((c :: cs).take m ++ ·), r.2.1, r.2.2)

def WResp.isInterrupted : WResp → Bool
  | .interrupted => true
  | _ => false

def RResp.isInterrupted : RResp → Bool
  | .interrupted => true
  | _ => false

/-! ## 1. `write_all` -/

theorem writeAllLoop_nil_buf (s : List WResp) (w : List Byte) :
    writeAllLoop s w [] = (w, true, s) := by
  cases s <;> simp [writeAllLoop]

/-- the complete description of one `write_all` call: the sink has accepted
`written ++ p`, `p` a prefix of `bs`; `p = bs` on success; `p` is a STRICT
prefix on failure (the loop fails only while `buf` is non-empty). -/
theorem writeAllLoop_spec (s : List WResp) (w bs : List Byte) :
    ∃ p, (writeAllLoop s w bs).1 = w ++ p ∧ p <+: bs ∧
      ((writeAllLoop s w bs).2.1 = true → p = bs) ∧
      ((writeAllLoop s w bs).2.1 = false → p.length < bs.length) := by
  induction s generalizing w bs with
  | nil =>
    cases bs with
    | nil => exact ⟨[], by simp [writeAllLoop]⟩
    | cons b bs => exact ⟨[], by simp [writeAllLoop]⟩
  | cons r s ih =>
    cases bs with
    | nil => exact ⟨[], by simp [writeAllLoop_nil_buf]⟩
    | cons b bs =>
      cases r with
      | zero => exact ⟨[], by simp [writeAllLoop]⟩
      | fail => exact ⟨[], by simp [writeAllLoop]⟩
      | interrupted =>
        simp only [writeAllLoop]
        exact ih w (b :: bs)
      | accept n =>
        simp only [writeAllLoop]
        obtain ⟨p, h1, h2, h3, h4⟩ := ih (w ++ (b :: bs).take (n + 1)) ((b :: bs).drop (n + 1))
        have hsplit : (b :: bs).take (n + 1) ++ (b :: bs).drop (n + 1) = b :: bs :=
          List.take_append_drop _ _
        refine ⟨(b :: bs).take (n + 1) ++ p, ?_, ?_, ?_, ?_⟩
        · rw [h1, List.append_assoc]
        · have := (List.prefix_append_right_inj ((b :: bs).take (n + 1))).2 h2
          rwa [hsplit] at this
        · intro hs
          rw [h3 hs, hsplit]
        · intro hf
          have hl := h4 hf
          have : ((b :: bs).take (n + 1) ++ (b :: bs).drop (n + 1)).length = (b :: bs).length := by
            rw [hsplit]
          simp only [List.length_append] at this ⊢
          omega

/-- **C11.S1** for EVERY schedule the sink ends up with `written ++ p`, `p` a
prefix of `bs`, and `p = bs` when `write_all` returns `Ok`. -/
theorem writeAllLoop_prefix (s : List WResp) (w bs : List Byte) :
    ∃ p, (writeAllLoop s w bs).1 = w ++ p ∧ p <+: bs ∧
      ((writeAllLoop s w bs).2.1 = true → p = bs) := by
  obtain ⟨p, h1, h2, h3, _⟩ := writeAllLoop_spec s w bs
  exact ⟨p, h1, h2, h3⟩

/-- **C11.S2** `write_all` fails only while `buf` is non-empty: on failure strictly
fewer than `bs.length` bytes of this call were accepted. -/
theorem writeAllLoop_fail_strict (s : List WResp) (w bs : List Byte)
    (hf : (writeAllLoop s w bs).2.1 = false) :
    (writeAllLoop s w bs).1.length < w.length + bs.length := by
  obtain ⟨p, h1, _, _, h4⟩ := writeAllLoop_spec s w bs
  rw [h1, List.length_append]
  have := h4 hf
  omega

/-- **C11.S3** the atomic transition reproduces every schedule: there is a fault
index (`none` on success, the number of bytes accepted on failure — which lies
strictly inside this call's block by `writeAllLoop_fail_strict`) for which
`WriterSt.writeAll` leaves the sink with the same bytes and returns the same
`Ok` / `Err`. -/
theorem writeAllLoop_refines (s : List WResp) (w bs : List Byte) :
    ∃ failAt : Option Nat,
      WriterSt.writeAll ⟨w, failAt⟩ bs =
        (⟨(writeAllLoop s w bs).1, failAt⟩,
          if (writeAllLoop s w bs).2.1 then none else some .bufferFull) := by
  obtain ⟨p, h1, h2, h3, h4⟩ := writeAllLoop_spec s w bs
  cases hb : (writeAllLoop s w bs).2.1 with
  | true =>
    refine ⟨none, ?_⟩
    rw [h1, h3 hb]
    simp [WriterSt.writeAll]
  | false =>
    refine ⟨some (w.length + p.length), ?_⟩
    have hl := h4 hb
    obtain ⟨t, rfl⟩ := h2
    rw [h1]
    simp only [WriterSt.writeAll]
    rw [if_neg (by simp only [List.length_append] at hl ⊢; omega)]
    simp

/-- which fault index: exposed for the lift. -/
theorem writeAllLoop_refines_fail (s : List WResp) (w bs : List Byte)
    (hf : (writeAllLoop s w bs).2.1 = false) :
    WriterSt.writeAll ⟨w, some (writeAllLoop s w bs).1.length⟩ bs =
      (⟨(writeAllLoop s w bs).1, some (writeAllLoop s w bs).1.length⟩, some .bufferFull) := by
  obtain ⟨p, h1, h2, _, h4⟩ := writeAllLoop_spec s w bs
  have hl := h4 hf
  obtain ⟨t, rfl⟩ := h2
  rw [h1]
  simp only [WriterSt.writeAll]
  rw [if_neg (by simp only [List.length_append] at hl ⊢; omega)]
  simp

/-- **C11.S4a** a retried `Interrupted` changes neither what the sink accepts nor
the outcome.  (With an empty `bs` the loop does not call `write` at all, so the
unused `interrupted` stays in the schedule: the equation is for the first two
components.) -/
theorem writeAllLoop_interrupted_cons (s : List WResp) (w bs : List Byte) :
    (writeAllLoop (.interrupted :: s) w bs).1 = (writeAllLoop s w bs).1 ∧
    (writeAllLoop (.interrupted :: s) w bs).2.1 = (writeAllLoop s w bs).2.1 := by
  cases bs with
  | nil => simp [writeAllLoop_nil_buf]
  | cons b bs => simp [writeAllLoop]

theorem writeAllLoop_interrupted_cons_ne (s : List WResp) (w : List Byte) (b : Byte) (bs : List Byte) :
    writeAllLoop (.interrupted :: s) w (b :: bs) = writeAllLoop s w (b :: bs) := by
  simp [writeAllLoop]

/-- **C11.S4** `Interrupted` answers are invisible: deleting ALL of them from a
schedule gives the same accepted bytes, the same outcome, and the same unused
answers up to the same deletion.  No length side condition is needed. -/
theorem writeAllLoop_interrupts_invisible (s : List WResp) (w bs : List Byte) :
    writeAllLoop (s.filter (fun r => !r.isInterrupted)) w bs =
      ((writeAllLoop s w bs).1, (writeAllLoop s w bs).2.1,
        (writeAllLoop s w bs).2.2.filter (fun r => !r.isInterrupted)) := by
  induction s generalizing w bs with
  | nil => cases bs <;> simp [writeAllLoop]
  | cons r s ih =>
    cases bs with
    | nil => simp [writeAllLoop_nil_buf]
    | cons b bs =>
      cases r with
      | zero => simp [writeAllLoop, WResp.isInterrupted]
      | fail => simp [writeAllLoop, WResp.isInterrupted]
      | interrupted =>
        simp only [List.filter, WResp.isInterrupted, Bool.not_true, writeAllLoop]
        exact ih w (b :: bs)
      | accept n =>
        simp only [List.filter, WResp.isInterrupted, Bool.not_false, writeAllLoop]
        exact ih _ _

/-- inserting `Interrupted` answers anywhere: two schedules that differ only in
`Interrupted` answers give the same accepted bytes and the same outcome. -/
theorem writeAllLoop_of_filter_eq (s s' : List WResp) (w bs : List Byte)
    (h : s.filter (fun r => !r.isInterrupted) = s'.filter (fun r => !r.isInterrupted)) :
    (writeAllLoop s w bs).1 = (writeAllLoop s' w bs).1 ∧
    (writeAllLoop s w bs).2.1 = (writeAllLoop s' w bs).2.1 := by
  have h1 := writeAllLoop_interrupts_invisible s w bs
  have h2 := writeAllLoop_interrupts_invisible s' w bs
  rw [h] at h1
  rw [h1] at h2
  simp only [Prod.mk.injEq] at h2
  exact ⟨h2.1, h2.2.1⟩

/-! ## 2. `read_exact` -/

theorem readExactLoop_zero (s : List RResp) (st : List Byte) :
    readExactLoop s st 0 = (some [], st, s) := by
  cases s <;> simp [readExactLoop]

/-- the complete description of one `read_exact` call: the reader's future has
lost its first `c` bytes, `c ≤ n`; on success `c = n` and the buffer holds
exactly the next `n` bytes of the stream; on failure `c < n`. -/
theorem readExactLoop_spec (s : List RResp) (st : List Byte) (n : Nat) :
    ∃ c, c ≤ n ∧ c ≤ st.length ∧ (readExactLoop s st n).2.1 = st.drop c ∧
      (∀ bs, (readExactLoop s st n).1 = some bs → c = n ∧ bs = st.take n) ∧
      ((readExactLoop s st n).1 = none → c < n) := by
  induction s generalizing st n with
  | nil =>
    cases n with
    | zero => exact ⟨0, by simp [readExactLoop]⟩
    | succ n => exact ⟨0, by simp [readExactLoop]⟩
  | cons r s ih =>
    cases n with
    | zero => exact ⟨0, by simp [readExactLoop_zero]⟩
    | succ n =>
      cases r with
      | fail => exact ⟨0, by simp [readExactLoop]⟩
      | interrupted =>
        simp only [readExactLoop]
        exact ih st (n + 1)
      | deliver k =>
        cases st with
        | nil => exact ⟨0, by simp [readExactLoop]⟩
        | cons c cs =>
          simp only [readExactLoop]
          generalize hm : min (k + 1) (min (n + 1) (cs.length + 1)) = m
          have hm1 : 1 ≤ m := by omega
          have hm2 : m ≤ n + 1 := by omega
          have hm3 : m ≤ (c :: cs).length := by simp only [List.length_cons]; omega
          obtain ⟨c', h1, h2, h3, h4, h5⟩ := ih ((c :: cs).drop m) (n + 1 - m)
          have hdl : ((c :: cs).drop m).length = (c :: cs).length - m := List.length_drop
          refine ⟨m + c', by omega, by omega, ?_, ?_, ?_⟩
          · rw [h3, List.drop_drop]
          · intro bs hbs
            cases hr : (readExactLoop s ((c :: cs).drop m) (n + 1 - m)).1 with
            | none => rw [hr] at hbs; simp at hbs
            | some bs' =>
              rw [hr] at hbs
              simp only [Option.map_some, Option.some.injEq] at hbs
              obtain ⟨hc, hb⟩ := h4 bs' hr
              refine ⟨by omega, ?_⟩
              rw [← hbs, hb]
              have : n + 1 = m + (n + 1 - m) := by omega
              rw [this, List.take_add]
              congr 2
              omega
          · intro hn
            cases hr : (readExactLoop s ((c :: cs).drop m) (n + 1 - m)).1 with
            | none => have := h5 hr; omega
            | some bs' => rw [hr] at hn; simp at hn

/-- **C11.S5** for EVERY schedule: on success the buffer holds exactly the next `n`
bytes of the stream and the stream advanced by exactly `n`; on failure a prefix
of fewer than `n` bytes was consumed. -/
theorem readExactLoop_prefix (s : List RResp) (st : List Byte) (n : Nat) :
    (∀ bs, (readExactLoop s st n).1 = some bs →
      n ≤ st.length ∧ bs = st.take n ∧ (readExactLoop s st n).2.1 = st.drop n) ∧
    ((readExactLoop s st n).1 = none →
      ∃ c, c < n ∧ c ≤ st.length ∧ (readExactLoop s st n).2.1 = st.drop c) := by
  obtain ⟨c, h1, h2, h3, h4, h5⟩ := readExactLoop_spec s st n
  refine ⟨fun bs hbs => ?_, fun hn => ⟨c, h5 hn, h2, h3⟩⟩
  obtain ⟨hc, hb⟩ := h4 bs hbs
  subst hc
  exact ⟨h2, hb, h3⟩

/-- **C11.S6** the atomic transition reproduces every schedule.  Only the stream
side of `IOReaderSt` (`stream`, `fault`, `delivered`) is involved; `readExact`
leaves `scratchCap` / `scratchUsed` / `slots` alone and so does the statement.
There is a fault configuration (`none` on success; on failure the absolute
index `delivered + c` of the first byte that was not delivered, `c < n`) for
which `readExact` returns the same buffer and the same remaining stream, or the
same failure (every reader error is `DeserializeUnexpectedEnd`; the state after
a failed `read_exact` is dropped by the model, see `IOReader`). -/
theorem readExactLoop_refines (s : List RResp) (st : IOReaderSt) (n : Nat) :
    ∃ fault : Option Nat,
      ({ st with fault := fault }).readExact n =
        match (readExactLoop s st.stream n).1 with
        | some bs => .ok (bs, { st with fault := fault,
                                        stream := (readExactLoop s st.stream n).2.1,
                                        delivered := st.delivered + n })
        | none => .error .unexpectedEnd := by
  obtain ⟨c, h1, h2, h3, h4, h5⟩ := readExactLoop_spec s st.stream n
  cases hr : (readExactLoop s st.stream n).1 with
  | some bs =>
    obtain ⟨hc, hb⟩ := h4 bs hr
    subst hc
    refine ⟨none, ?_⟩
    simp only [IOReaderSt.readExact, faultOk, or_true, if_true]
    rw [if_neg (by omega), h3, hb]
  | none =>
    have hc := h5 hr
    refine ⟨some (st.delivered + c), ?_⟩
    have hno : ¬ (n = 0 ∨ faultOk (some (st.delivered + c)) (st.delivered + n) = true) := by
      simp only [faultOk, decide_eq_true_eq]; omega
    simp only [IOReaderSt.readExact, if_neg hno]
    split <;> rfl

/-- the success half needs no fault configuration at all: with the reader's own
`fault` (whatever it is, as long as it lies beyond the bytes read) the atomic
transition agrees. -/
theorem readExactLoop_refines_ok (s : List RResp) (st : IOReaderSt) (n : Nat) (bs : List Byte)
    (hok : (readExactLoop s st.stream n).1 = some bs)
    (hf : faultOk st.fault (st.delivered + n) = true) :
    st.readExact n =
      .ok (bs, { st with stream := (readExactLoop s st.stream n).2.1,
                         delivered := st.delivered + n }) := by
  obtain ⟨hl, hb, hrest⟩ := (readExactLoop_prefix s st.stream n).1 bs hok
  simp only [IOReaderSt.readExact, hf, or_true, if_true]
  rw [if_neg (by omega), hrest, hb]

/-- **C11.S7a** a retried `Interrupted` changes neither the buffer nor the stream. -/
theorem readExactLoop_interrupted_cons (s : List RResp) (st : List Byte) (n : Nat) :
    (readExactLoop (.interrupted :: s) st n).1 = (readExactLoop s st n).1 ∧
    (readExactLoop (.interrupted :: s) st n).2.1 = (readExactLoop s st n).2.1 := by
  cases n with
  | zero => simp [readExactLoop_zero]
  | succ n => simp [readExactLoop]

theorem readExactLoop_interrupted_cons_succ (s : List RResp) (st : List Byte) (n : Nat) :
    readExactLoop (.interrupted :: s) st (n + 1) = readExactLoop s st (n + 1) := by
  simp [readExactLoop]

/-- **C11.S7** `Interrupted` answers are invisible to `read_exact`. -/
theorem readExactLoop_interrupts_invisible (s : List RResp) (st : List Byte) (n : Nat) :
    readExactLoop (s.filter (fun r => !r.isInterrupted)) st n =
      ((readExactLoop s st n).1, (readExactLoop s st n).2.1,
        (readExactLoop s st n).2.2.filter (fun r => !r.isInterrupted)) := by
  induction s generalizing st n with
  | nil => cases n <;> simp [readExactLoop]
  | cons r s ih =>
    cases n with
    | zero => simp [readExactLoop_zero]
    | succ n =>
      cases r with
      | fail => simp [readExactLoop, RResp.isInterrupted]
      | interrupted =>
        simp only [List.filter, RResp.isInterrupted, Bool.not_true, readExactLoop]
        exact ih st (n + 1)
      | deliver k =>
        cases st with
        | nil => simp [readExactLoop, RResp.isInterrupted]
        | cons c cs =>
          show readExactLoop (RResp.deliver k :: s.filter (fun r => !r.isInterrupted)) _ _ = _
          simp only [readExactLoop]
          rw [ih]

theorem readExactLoop_of_filter_eq (s s' : List RResp) (st : List Byte) (n : Nat)
    (h : s.filter (fun r => !r.isInterrupted) = s'.filter (fun r => !r.isInterrupted)) :
    (readExactLoop s st n).1 = (readExactLoop s' st n).1 ∧
    (readExactLoop s st n).2.1 = (readExactLoop s' st n).2.1 := by
  have h1 := readExactLoop_interrupts_invisible s st n
  have h2 := readExactLoop_interrupts_invisible s' st n
  rw [h] at h1
  rw [h1] at h2
  simp only [Prod.mk.injEq] at h2
  exact ⟨h2.1, h2.2.1⟩

/-! ## 3. the lift: `to_io` over an arbitrary schedule -/

/-- `write_all(bs)` as a flavour call: the flavour state is (what the sink has
accepted, the answers it has not given yet). -/
def schedWriteAll (s : List Byte × List WResp) (bs : List Byte) :
    (List Byte × List WResp) × Option Err :=
  let r := writeAllLoop s.2 s.1 bs
  ((r.1, r.2.2), if r.2.1 then none else some .bufferFull)

/-- `WriteFlavor` (cf. `WriteFl`) with `write_all` implemented by the std loop
over the sink's schedule of answers; `flush` succeeds. -/
def WriteFlSched : Flavor (List Byte × List WResp) (List Byte) where
  tryPush s b := schedWriteAll s [b]
  tryExtend s bs := schedWriteAll s bs
  finalize s := (s, .ok s.1)
  setAt _ _ _ := none

theorem WriteFlSched.step_eq (s : List Byte × List WResp) (c : Chunk) :
    WriteFlSched.step s c = schedWriteAll s c.bytes := by
  cases c <;> rfl

/-- feeding a call sequence: the sink ends with `w ++ p`, `p` a prefix of the
payload; either every call succeeded and `p` is the whole payload, or one
failed with `SerializeBufferFull` and `p` is a strict prefix. -/
theorem WriteFlSched.feed_spec (cs : List Chunk) (w : List Byte) (sched : List WResp) :
    ∃ p, (WriteFlSched.feed (w, sched) cs).1.1 = w ++ p ∧ p <+: chunkBytes cs ∧
      (((WriteFlSched.feed (w, sched) cs).2 = none ∧ p = chunkBytes cs) ∨
       ((WriteFlSched.feed (w, sched) cs).2 = some .bufferFull ∧
          p.length < (chunkBytes cs).length)) := by
  induction cs generalizing w sched with
  | nil => exact ⟨[], by simp [Flavor.feed]⟩
  | cons c cs ih =>
    obtain ⟨q, h1, h2, h3, h4⟩ := writeAllLoop_spec sched w c.bytes
    simp only [Flavor.feed, WriteFlSched.step_eq, schedWriteAll, chunkBytes_cons]
    cases hL : writeAllLoop sched w c.bytes with
    | mk a r =>
      cases r with
      | mk ok rest =>
        rw [hL] at h1 h3 h4
        simp only at h1 h3 h4
        cases ok with
        | true =>
          have hq := h3 rfl
          subst hq
          subst h1
          simp only [if_true]
          obtain ⟨p, g1, g2, g3⟩ := ih (w ++ c.bytes) rest
          refine ⟨c.bytes ++ p, ?_, (List.prefix_append_right_inj _).2 g2, ?_⟩
          · rw [g1, List.append_assoc]
          · rcases g3 with ⟨g3, g4⟩ | ⟨g3, g4⟩
            · exact Or.inl ⟨g3, by rw [g4]⟩
            · exact Or.inr ⟨g3, by simp only [List.length_append]; omega⟩
        | false =>
          have hq := h4 rfl
          subst h1
          refine ⟨q, rfl, ?_, Or.inr ⟨by simp, ?_⟩⟩
          · exact List.IsPrefix.trans h2 (List.prefix_append _ _)
          · simp only [List.length_append]; omega

/-- `serialize_with_flavor` over the scheduled writer, from a sink that already
holds `w`. -/
theorem serializeWith_sched (v : Val) (w : List Byte) (sched : List WResp) :
    ∃ p, (serializeWith WriteFlSched (w, sched) v).1.1 = w ++ p ∧ p <+: enc v ∧
      (((serializeWith WriteFlSched (w, sched) v).2 = .ok (w ++ p) ∧ p = enc v) ∨
       ((serializeWith WriteFlSched (w, sched) v).2 = .error .bufferFull ∧
          p.length < (enc v).length)) := by
  obtain ⟨p, h1, h2, h3⟩ := WriteFlSched.feed_spec (emit v) w sched
  rw [chunkBytes_emit] at h2 h3
  cases hF : WriteFlSched.feed (w, sched) (emit v) with
  | mk st e =>
    rw [hF] at h1 h3
    simp only at h1 h3
    have hfin : WriteFlSched.finalize st = (st, .ok st.1) := rfl
    rcases h3 with ⟨he, hp⟩ | ⟨he, hp⟩
    · subst he
      refine ⟨p, ?_, h2, Or.inl ⟨?_, hp⟩⟩
      · simp only [serializeWith, hF, hfin]; exact h1
      · simp only [serializeWith, hF, hfin]; rw [h1]
    · subst he
      refine ⟨p, ?_, h2, Or.inr ⟨?_, hp⟩⟩
      · simp only [serializeWith, hF]; exact h1
      · simp only [serializeWith, hF]

/-- **C11.S8** `to_io` through a writer whose `write_all` is the std loop over an
ARBITRARY schedule of partial writes, `Interrupted`s, `Ok(0)`s and errors:
either `Ok` and the sink holds exactly `enc v`, or `SerializeBufferFull` and the
sink holds a strict prefix of `enc v`. -/
theorem to_io_any_schedule (v : Val) (sched : List WResp) :
    ((serializeWith WriteFlSched ([], sched) v).2 = .ok (enc v) ∧
      (serializeWith WriteFlSched ([], sched) v).1.1 = enc v) ∨
    ((serializeWith WriteFlSched ([], sched) v).2 = .error .bufferFull ∧
      (serializeWith WriteFlSched ([], sched) v).1.1 <+: enc v ∧
      (serializeWith WriteFlSched ([], sched) v).1.1.length < (enc v).length) := by
  obtain ⟨p, h1, h2, h3⟩ := serializeWith_sched v [] sched
  simp only [List.nil_append] at h1 h3
  rcases h3 with ⟨hr, hp⟩ | ⟨hr, hp⟩
  · subst hp
    exact Or.inl ⟨hr, h1⟩
  · exact Or.inr ⟨hr, by rw [h1]; exact h2, by rw [h1]; exact hp⟩

/-- **C11.S9** the atomic `to_io` of Model/DeFlavor.lean reproduces every schedule:
there is a fault index for which `toIo` leaves the sink with the same bytes and
returns the same result.  Hence every theorem of Props/C11 §4, which quantifies
over `failAt`, speaks about every schedule. -/
theorem to_io_sched_refines (v : Val) (w : List Byte) (sched : List WResp) :
    ∃ failAt : Option Nat,
      toIo v ⟨w, failAt⟩ =
        (⟨(serializeWith WriteFlSched (w, sched) v).1.1, failAt⟩,
          (serializeWith WriteFlSched (w, sched) v).2) := by
  obtain ⟨p, h1, h2, h3⟩ := serializeWith_sched v w sched
  rcases h3 with ⟨hr, hp⟩ | ⟨hr, hp⟩
  · subst hp
    exact ⟨none, by rw [h1, hr, writer_bytes_gen]⟩
  · refine ⟨some (w.length + p.length), ?_⟩
    have hf := WriteFlF.feed_fault true (emit v) w (w.length + p.length) (by omega)
      (by rw [chunkBytes_emit]; omega)
    obtain ⟨t, ht⟩ := h2
    have htake : (enc v).take (w.length + p.length - w.length) = p := by
      rw [← ht, Nat.add_sub_cancel_left, List.take_left']
      rfl
    rw [chunkBytes_emit, htake] at hf
    rw [h1, hr]
    simp only [toIo, serializeWith, WriteFl, hf]

/-! ## 3b. the lift on the reader side: `from_io` over an arbitrary schedule -/

/-- the reader flavour's state with the reader's schedule of answers in place of
the fault index (`slots` / `delivered` bookkeeping is not repeated here). -/
structure SchedReaderSt where
  stream : List Byte
  sched : List RResp
  scratchCap : Nat
  scratchUsed : Nat

/-- `IOReader` / `EIOReader` (cf. `IOReader`) with `read_exact` implemented by the
std loop over the reader's schedule.  `pop` is `let mut val = [0; 1];
read_exact(&mut val)?; Ok(val[0])`. -/
def IOReaderSched : DeFlavor SchedReaderSt where
  pop st :=
    match readExactLoop st.sched st.stream 1 with
    | (some bs, rest, s') => .ok (bs.headD 0, { st with stream := rest, sched := s' })
    | (none, _, _) => .error .unexpectedEnd
  tryTakeN st ct :=
    if st.scratchCap - st.scratchUsed < ct then .error .unexpectedEnd     -- SlidingBuffer::take_n
    else match readExactLoop st.sched st.stream ct with
      | (some bs, rest, s') =>
        .ok (bs, { st with stream := rest, sched := s', scratchUsed := st.scratchUsed + ct })
      | (none, _, _) => .error .unexpectedEnd
  sizeHint st := some (st.scratchCap - st.scratchUsed)

/-- the scheduled reader flavour behaves like list operations on `stream`, up
to extra `DeserializeUnexpectedEnd` failures — the hypothesis of the generic
simulation theorem `decG_agrees` (Lemmas/DeFlavor.lean), exactly as for
`IOReader` (`IOReader.sim_true`). -/
theorem IOReaderSched.sim : Sim IOReaderSched SchedReaderSt.stream (fun _ => True) True where
  pop_ok := by
    intro st b st' _ hp
    simp only [IOReaderSched] at hp
    split at hp
    · rename_i bs rest s' hr
      have h1 : (readExactLoop st.sched st.stream 1).1 = some bs := by rw [hr]
      have h2 : (readExactLoop st.sched st.stream 1).2.1 = rest := by rw [hr]
      obtain ⟨hl, hb, hrest⟩ := (readExactLoop_prefix st.sched st.stream 1).1 bs h1
      simp only [Except.ok.injEq, Prod.mk.injEq] at hp
      obtain ⟨rfl, rfl⟩ := hp
      refine ⟨?_, trivial⟩
      simp only
      rw [← h2, hrest, hb]
      cases hs : st.stream with
      | nil => rw [hs] at hl; simp at hl
      | cons c cs => simp
    · cases hp
  pop_err := by
    intro st e _ hp
    simp only [IOReaderSched] at hp
    split at hp
    · cases hp
    · cases hp; exact ⟨rfl, .inr trivial⟩
  take_ok := by
    intro st n bs st' _ hp
    simp only [IOReaderSched] at hp
    split at hp
    · cases hp
    · split at hp
      · rename_i bs' rest s' hr
        have h1 : (readExactLoop st.sched st.stream n).1 = some bs' := by rw [hr]
        have h2 : (readExactLoop st.sched st.stream n).2.1 = rest := by rw [hr]
        obtain ⟨hl, hb, hrest⟩ := (readExactLoop_prefix st.sched st.stream n).1 bs' h1
        simp only [Except.ok.injEq, Prod.mk.injEq] at hp
        obtain ⟨rfl, rfl⟩ := hp
        refine ⟨?_, ?_, trivial⟩
        · simp only
          rw [← h2, hrest, hb, List.take_append_drop]
        · rw [hb, List.length_take]; omega
      · cases hp
  take_err := by
    intro st n e _ hp
    simp only [IOReaderSched] at hp
    split at hp
    · cases hp; exact ⟨rfl, .inr trivial⟩
    · split at hp
      · cases hp
      · cases hp; exact ⟨rfl, .inr trivial⟩

/-- **C11.S10** `from_io` through a reader whose `read_exact` is the std loop over
an ARBITRARY schedule of short reads, `Interrupted`s and errors, with any
scratch buffer: on success the value is the slice decoder's value on the
reader's bytes and the reader is left exactly at the slice decoder's remainder
(never over-reads); on failure the error is the slice decoder's error or
`DeserializeUnexpectedEnd` — never a panic. -/
theorem from_io_any_schedule (t : Ty) (st : SchedReaderSt) :
    match decG IOReaderSched t st with
    | .ok (v, st') => dec t st.stream = .ok (v, st'.stream)
    | .error e => (dec t st.stream = .error e ∨ e = .unexpectedEnd) ∧ e ≠ .panic := by
  have hs := decG_agrees IOReaderSched.sim t st trivial
  cases hr : decG IOReaderSched t st with
  | ok p =>
    obtain ⟨v, st'⟩ := p
    rw [hr] at hs
    exact hs.1
  | error e =>
    rw [hr] at hs
    rcases hs with hd | ⟨_, rfl⟩
    · refine ⟨.inl hd, ?_⟩
      have := dec_error_kinds _ _ _ hd
      intro he; subst he; simp [DecErr] at this
    · exact ⟨.inr rfl, by simp⟩

/-! ## 4. non-vacuity -/

namespace C11Sched

-- `accept 0` takes 1 byte, the `Interrupted` is retried, `accept 2` takes 3, then `Ok(0)`:
-- `write_all` fails with 4 of the 5 bytes accepted
example : writeAllLoop [.accept 0, .interrupted, .accept 2, .zero] [9] [1, 2, 3, 4, 5]
    = ([9, 1, 2, 3, 4], false, []) := by decide
-- … which the atomic model reproduces with the fault index 1 + 4
example : WriterSt.writeAll ⟨[9], some 5⟩ [1, 2, 3, 4, 5]
    = (⟨[9, 1, 2, 3, 4], some 5⟩, some .bufferFull) := by rfl
-- all-accept schedules succeed; an over-long `accept` is clipped to the buffer; unused answers remain
example : writeAllLoop [.accept 1, .accept 0, .accept 7, .fail] [] [1, 2, 3, 4, 5]
    = ([1, 2, 3, 4, 5], true, [.fail]) := by decide
-- an interrupted-only prefix
example : writeAllLoop [.interrupted, .interrupted, .interrupted, .accept 4] [] [1, 2, 3, 4, 5]
    = ([1, 2, 3, 4, 5], true, []) := by decide
-- only `Interrupted`s: the schedule runs out (= hard error), nothing accepted
example : writeAllLoop [.interrupted, .interrupted] [] [1, 2] = ([], false, []) := by decide
-- an empty block never calls `write`
example : writeAllLoop [.fail] [7] [] = ([7], true, [.fail]) := by decide
-- an error at the block boundary is NOT seen by this call (it has returned already)
example : writeAllLoop [.accept 1, .fail] [] [1, 2] = ([1, 2], true, [.fail]) := by decide

-- reader: short reads, a retried `Interrupted`, clipped to what is wanted
example : readExactLoop [.deliver 0, .interrupted, .deliver 9, .fail] [1, 2, 3, 4, 5] 3
    = (some [1, 2, 3], [4, 5], [.fail]) := by decide
-- end of stream inside the block: `Ok(0)` → `UnexpectedEof`, the 2 bytes are consumed
example : readExactLoop [.deliver 5, .deliver 0] [1, 2] 3 = (none, [], []) := by decide
-- … the atomic model fails too (end of stream), with or without a fault index
example : IOReaderSt.readExact ⟨[1, 2], none, 0, 9, 0, []⟩ 3 = .error .unexpectedEnd := by rfl
-- an I/O error after one byte; the atomic model reproduces it with `fault = some (0 + 1)`
example : readExactLoop [.deliver 0, .fail] [1, 2, 3, 4] 3 = (none, [2, 3, 4], []) := by decide
example : IOReaderSt.readExact ⟨[1, 2, 3, 4], some 1, 0, 9, 0, []⟩ 3 = .error .unexpectedEnd := by
  rfl
-- `read_exact(&mut [])` never calls `read`
example : readExactLoop [.fail] [1] 0 = (some [], [1], [.fail]) := by decide

-- `to_io` one byte at a time, with an `Interrupted` before every write
example : serializeWith WriteFlSched
    ([], (List.replicate 11 [WResp.interrupted, WResp.accept 0]).flatten) C11.exV
    = ((C11.exMsg, []), .ok C11.exMsg) := by rfl
-- `to_io` with a sink that answers `Ok(0)` after 5 bytes: cf. `toIo exV ⟨[], some 5⟩` in Props/C11
example : serializeWith WriteFlSched ([], [.accept 9, .accept 0, .interrupted, .accept 0, .accept 1, .zero]) C11.exV
    = (([2, 0x68, 0x69, 0, 0], []), .error .bufferFull) := by rfl

-- `from_io` with one-byte reads and an `Interrupted` before each; two trailing bytes stay on the reader
example : (decG IOReaderSched C11.exT
      ⟨C11.exMsg ++ [9, 9], (List.replicate 11 [RResp.interrupted, RResp.deliver 0]).flatten, 9, 0⟩).map
        (fun r => (r.1, r.2.stream, r.2.sched, r.2.scratchUsed))
    = .ok (C11.exV, [9, 9], [], 9) := by rfl
-- an I/O error inside the message
example : (decG IOReaderSched C11.exT ⟨C11.exMsg ++ [9, 9], [.deliver 0, .deliver 9, .fail], 9, 0⟩).map
        (fun r => r.1) = .error .unexpectedEnd := by rfl

end C11Sched

end Postcard
