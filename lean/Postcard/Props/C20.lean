import Postcard.Lemmas.Stack
import Postcard.Props.C01
import Postcard.Props.C05
import Postcard.Props.C06
import Postcard.Props.C07
import Postcard.Props.C10
/-
  Property C20 — "Stacked flavours compose as byte-stream transformers."

  Rust: `serialize_with_flavor(value, CrcModifier::new(Cobs::try_new(storage)?, digest))`
  (source/postcard/src/ser/flavors.rs, tests/crc.rs).  The serializer calls
  `CrcModifier`, which digests each byte and forwards it to `Cobs<B>`, which
  COBS-encodes into the storage `B`; `CrcModifier::finalize` pushes the
  little-endian checksum into `Cobs<B>`, then `Cobs::finalize`.

  Model: `CrcSer alg n (Cobs F)` started at `((Cobs.tryNew F s0).1, alg.init)`.

  The byte-stream transformer computed by a flavour `G` is `G.runBytes`
  (Lemmas/Stack.lean): push the bytes one by one, then `finalize`.

    1. `crcSer_over_any`, `stack_composes` : the CRC modifier over ANY inner
       flavour `G` is `G.runBytes` on `enc v ++ checksum`.
    2. `crc_over`      : CRC modifier over `AllocVec` / `HVec` / `Slice`.
    3. `cobs_over`     : COBS modifier over the same three storages.
    4. `crc_then_cobs` : the stack, over any lawful storage (+ three instances).
    5. `unstack`, `stack_roundtrip` : undoing the layers in reverse order.
    6. `user_flavor_sees_plain_stack` : what a user flavour receives.
    7. non-vacuity examples.
-/
namespace Postcard
open Spec

/-- `m` followed by the `n`-byte little-endian checksum of `m`: the byte-stream
transformation of the CRC modifier (`abbrev`: unfolds on sight). -/
abbrev crcFramed {w : Nat} (alg : CrcAlg w) (n : Nat) (m : List Byte) : List Byte :=
  m ++ leBytes n (crc alg m).toNat

theorem crcFramed_length {w : Nat} (alg : CrcAlg w) (n : Nat) (m : List Byte) :
    (crcFramed alg n m).length = m.length + n := by
  simp [crcFramed, leBytes_length]

/-! ## 1. the CRC modifier over ANY inner flavour -/

/-- For ANY inner flavour `G : Flavor σ ω` (a storage, another modifier, a user
flavour) and any state `(g, d)`:

* (bytes) `CrcModifier::try_extend(bs)` is determined by pushing `bs` byte by
  byte into `G`: same final `G`-state, same outcome; on success the digest has
  absorbed `bs`, on failure a prefix `p` of `bs` (the bytes handed to `G`);
* (calls) a whole call sequence `cs` is the same as its bytes pushed one by one:
  the CRC layer turns every call into byte-wise pushes of the same bytes in the
  same order;
* (finalize) the checksum bytes `leBytes n (crcFinal alg d)` are pushed
  byte-wise into `G`, then `G.finalize`. -/
theorem crcSer_over_any {σ ω : Type} {w : Nat} (alg : CrcAlg w) (n : Nat) (G : Flavor σ ω)
    (g : σ) (d : BitVec w) :
    (∀ (bs : List Byte) (g' : σ),
      (defaultExtend G.tryPush g bs = (g', none) →
        defaultExtend (CrcSer alg n G).tryPush (g, d) bs = ((g', crcState alg d bs), none)) ∧
      (∀ e, defaultExtend G.tryPush g bs = (g', some e) →
        ∃ p, p <+: bs ∧
          defaultExtend (CrcSer alg n G).tryPush (g, d) bs = ((g', crcState alg d p), some e))) ∧
    (∀ (cs : List Chunk),
      (CrcSer alg n G).feed (g, d) cs
        = defaultExtend (CrcSer alg n G).tryPush (g, d) (chunkBytes cs)) ∧
    (∀ (cs : List Chunk) (g' : σ),
      (defaultExtend G.tryPush g (chunkBytes cs) = (g', none) →
        (CrcSer alg n G).feed (g, d) cs = ((g', crcState alg d (chunkBytes cs)), none)) ∧
      (∀ e, defaultExtend G.tryPush g (chunkBytes cs) = (g', some e) →
        ∃ p, p <+: chunkBytes cs ∧
          (CrcSer alg n G).feed (g, d) cs = ((g', crcState alg d p), some e))) ∧
    (CrcSer alg n G).finalize (g, d) =
      (match defaultExtend G.tryPush g (leBytes n (crcFinal alg d).toNat) with
       | (g', some e) => ((g', d), .error e)
       | (g', none) => (((G.finalize g').1, d), (G.finalize g').2)) := by
  have key : ∀ (bs : List Byte) (g' : σ),
      (defaultExtend G.tryPush g bs = (g', none) →
        defaultExtend (CrcSer alg n G).tryPush (g, d) bs = ((g', crcState alg d bs), none)) ∧
      (∀ e, defaultExtend G.tryPush g bs = (g', some e) →
        ∃ p, p <+: bs ∧
          defaultExtend (CrcSer alg n G).tryPush (g, d) bs
            = ((g', crcState alg d p), some e)) := by
    intro bs g'
    constructor
    · intro h
      rw [crcSer_defaultExtend, pushed_of_ok _ _ _ (by rw [h]), h]
    · intro e h
      exact ⟨pushed G.tryPush g bs, pushed_prefix _ _ _, by rw [crcSer_defaultExtend, h]⟩
  have hfeed : ∀ cs : List Chunk, (CrcSer alg n G).feed (g, d) cs
      = defaultExtend (CrcSer alg n G).tryPush (g, d) (chunkBytes cs) :=
    fun cs => Flavor.feed_defaultExtend _ (crcSer_tryExtend alg n G) _ cs
  refine ⟨key, hfeed, ?_, crcSer_finalize_eq alg n G g d⟩
  intro cs g'
  rw [hfeed]
  exact key (chunkBytes cs) g'

/-- The CRC modifier composes as a byte-stream transformer over ANY inner
flavour `G`: `serialize_with_flavor(v, CrcModifier::new(G, digest))` leaves `G`
in the state, and returns the result (success or error alike), of driving `G`
byte-wise with `enc v ++ checksum(enc v)` and finalizing it. -/
theorem stack_composes {σ ω : Type} {w : Nat} (alg : CrcAlg w) (n : Nat) (G : Flavor σ ω)
    (g : σ) (v : Val) :
    (serializeWith (CrcSer alg n G) (g, alg.init) v).1.1
        = (G.runBytes g (crcFramed alg n (enc v))).1 ∧
    (serializeWith (CrcSer alg n G) (g, alg.init) v).2
        = (G.runBytes g (crcFramed alg n (enc v))).2 :=
  crcSer_serializeWith alg n G g v

/-- … and a modifier-free flavour that keeps the default `try_extend` is driven
with `enc v`. -/
theorem plain_composes {σ ω : Type} (F : Flavor σ ω)
    (hF : F.tryExtend = defaultExtend F.tryPush) (s : σ) (v : Val) :
    serializeWith F s v = F.runBytes s (enc v) :=
  serializeWith_eq_runBytes F hF s v

/-! ## 2. CRC modifier over the three storages -/

/-- any lawful storage (contract `LawfulIdx`: `AllocVec`, `HVec`, `Slice`) with
room for the encoding and the checksum: the output is what the storage already
held, the plain encoding, the checksum. -/
theorem crc_over_lawful {σ : Type} {w : Nat} {F : Flavor σ (List Byte)} (L : LawfulIdx F)
    (alg : CrcAlg w) (n : Nat) (s0 : σ) (v : Val) (hroom : L.room s0 ((enc v).length + n)) :
    (serializeWith (CrcSer alg n F) (s0, alg.init) v).2
      = .ok (L.log s0 ++ crcFramed alg n (enc v)) := by
  rw [(crcSer_serializeWith alg n F s0 v).2]
  exact L.runBytes_ok s0 _ (by rw [crcFramed_length]; exact hroom)

/-- C20 (one layer, CRC): over `AllocVec`, over `HVec` with enough capacity,
over `Slice` with a large enough buffer, the CRC-framed output is
`enc v ++ checksum(enc v)`. -/
theorem crc_over {w : Nat} (alg : CrcAlg w) (n : Nat) (v : Val) :
    (serializeWith (CrcSer alg n AllocVec) ([], alg.init) v).2
      = .ok (enc v ++ leBytes n (crc alg (enc v)).toNat) ∧
    (∀ cap, (enc v).length + n ≤ cap →
      (serializeWith (CrcSer alg n HVec) (⟨cap, []⟩, alg.init) v).2
        = .ok (enc v ++ leBytes n (crc alg (enc v)).toNat)) ∧
    (∀ buf : List Byte, (enc v).length + n ≤ buf.length →
      (serializeWith (CrcSer alg n Slice) (⟨buf, 0⟩, alg.init) v).2
        = .ok (enc v ++ leBytes n (crc alg (enc v)).toNat)) := by
  refine ⟨?_, ?_, ?_⟩
  · simpa [LawfulIdx.allocVec] using crc_over_lawful LawfulIdx.allocVec alg n [] v trivial
  · intro cap h
    simpa [LawfulIdx.hvec] using
      crc_over_lawful LawfulIdx.hvec alg n ⟨cap, []⟩ v (by simpa [LawfulIdx.hvec] using h)
  · intro buf h
    simpa [LawfulIdx.slice] using
      crc_over_lawful LawfulIdx.slice alg n ⟨buf, 0⟩ v (by simpa [LawfulIdx.slice] using h)

/-- the same for the crate's entry points `to_allocvec_uN` / `to_vec_uN` /
`to_slice_uN`. -/
theorem crc_over_entry {w : Nat} (alg : CrcAlg w) (n : Nat) (v : Val) :
    toAllocVecCrc alg n v = .ok (enc v ++ leBytes n (crc alg (enc v)).toNat) ∧
    (∀ cap, (enc v).length + n ≤ cap →
      toHVecCrc alg n cap v = .ok (enc v ++ leBytes n (crc alg (enc v)).toNat)) ∧
    (∀ buf : List Byte, (enc v).length + n ≤ buf.length →
      (toSliceCrc alg n buf v).2 = .ok (enc v ++ leBytes n (crc alg (enc v)).toNat)) :=
  crc_over alg n v

/-! ## 3. COBS modifier over the three storages -/

theorem cobs_over_lawful {σ : Type} {F : Flavor σ (List Byte)} (L : LawfulIdx F) (s0 : σ)
    (v : Val) (h0 : L.log s0 = []) (hroom : L.room s0 ((cobsEncode (enc v)).length + 1)) :
    ∃ st1, Cobs.tryNew F s0 = (st1, none) ∧
      (serializeWith (Cobs F) st1 v).2 = .ok (cobsEncode (enc v) ++ [0]) := by
  obtain ⟨st1, h1, h2⟩ := cobs_runBytes L s0 (enc v) h0 hroom
  exact ⟨st1, h1, by rw [serializeWith_eq_runBytes (Cobs F) (cobs_tryExtend F), h2]⟩

/-- C20 (one layer, COBS): `Cobs::try_new(storage)` succeeds and the output is
the COBS frame of the plain encoding, for the three storages. -/
theorem cobs_over (v : Val) :
    (∃ st1, Cobs.tryNew AllocVec [] = (st1, none) ∧
      (serializeWith (Cobs AllocVec) st1 v).2 = .ok (cobsEncode (enc v) ++ [0])) ∧
    (∀ cap, (cobsEncode (enc v)).length + 1 ≤ cap →
      ∃ st1, Cobs.tryNew HVec ⟨cap, []⟩ = (st1, none) ∧
        (serializeWith (Cobs HVec) st1 v).2 = .ok (cobsEncode (enc v) ++ [0])) ∧
    (∀ buf : List Byte, (cobsEncode (enc v)).length + 1 ≤ buf.length →
      ∃ st1, Cobs.tryNew Slice ⟨buf, 0⟩ = (st1, none) ∧
        (serializeWith (Cobs Slice) st1 v).2 = .ok (cobsEncode (enc v) ++ [0])) := by
  refine ⟨cobs_over_lawful LawfulIdx.allocVec [] v rfl trivial, ?_, ?_⟩
  · intro cap h
    exact cobs_over_lawful LawfulIdx.hvec ⟨cap, []⟩ v rfl (by simpa [LawfulIdx.hvec] using h)
  · intro buf h
    exact cobs_over_lawful LawfulIdx.slice ⟨buf, 0⟩ v (by simp [LawfulIdx.slice])
      (by simpa [LawfulIdx.slice] using h)

/-! ## 4. the stack: checksum, then COBS, over any storage -/

/-- C20 (headline).  `F` any storage satisfying the contract `LawfulIdx`,
started empty with room for the frame.  If `Cobs::try_new(storage)` returned
`Ok(cobs)`, then
`serialize_with_flavor(v, CrcModifier::new(cobs, digest))` returns the COBS
frame of (plain bytes followed by their checksum) — whatever the innermost
storage is. -/
theorem crc_then_cobs {σ : Type} {w : Nat} {F : Flavor σ (List Byte)} (L : LawfulIdx F)
    (alg : CrcAlg w) (n : Nat) (s0 : σ) (v : Val) (h0 : L.log s0 = [])
    (hroom : L.room s0
      ((cobsEncode (enc v ++ leBytes n (crc alg (enc v)).toNat)).length + 1))
    (st1 : σ × EncSt) (hnew : Cobs.tryNew F s0 = (st1, none)) :
    (serializeWith (CrcSer alg n (Cobs F)) (st1, alg.init) v).2
      = .ok (cobsEncode (enc v ++ leBytes n (crc alg (enc v)).toNat) ++ [0]) := by
  obtain ⟨st1', h1, h2⟩ := cobs_runBytes L s0 (crcFramed alg n (enc v)) h0 hroom
  rw [hnew] at h1
  simp only [Prod.mk.injEq, and_true] at h1
  subst h1
  rw [(crcSer_serializeWith alg n (Cobs F) st1 v).2]
  exact h2

/-- … and under the same hypotheses `Cobs::try_new` does succeed. -/
theorem crc_then_cobs_run {σ : Type} {w : Nat} {F : Flavor σ (List Byte)} (L : LawfulIdx F)
    (alg : CrcAlg w) (n : Nat) (s0 : σ) (v : Val) (h0 : L.log s0 = [])
    (hroom : L.room s0
      ((cobsEncode (enc v ++ leBytes n (crc alg (enc v)).toNat)).length + 1)) :
    ∃ st1, Cobs.tryNew F s0 = (st1, none) ∧
      (serializeWith (CrcSer alg n (Cobs F)) (st1, alg.init) v).2
        = .ok (cobsEncode (enc v ++ leBytes n (crc alg (enc v)).toNat) ++ [0]) := by
  obtain ⟨st1, h1, _⟩ := cobs_runBytes L s0 (crcFramed alg n (enc v)) h0 hroom
  exact ⟨st1, h1, crc_then_cobs L alg n s0 v h0 hroom st1 h1⟩

/-- the two layers are the two one-layer transformers composed: the stack's
output is the COBS transformer (`cobs_over`) applied to the CRC transformer's
output (`crc_over`). -/
theorem crc_then_cobs_eq_composition {w : Nat} (alg : CrcAlg w) (n : Nat) (v : Val) :
    ∀ out, (serializeWith (CrcSer alg n AllocVec) ([], alg.init) v).2 = .ok out →
      (serializeWith (CrcSer alg n (Cobs AllocVec)) ((Cobs.tryNew AllocVec []).1, alg.init) v).2
        = .ok (cobsEncode out ++ [0]) := by
  intro out h
  rw [(crc_over alg n v).1] at h
  injection h with h
  subst h
  exact crc_then_cobs LawfulIdx.allocVec alg n [] v rfl trivial _ rfl

/-- innermost storage `AllocVec` (`to_allocvec_cobs`-style): never fails. -/
theorem crc_then_cobs_alloc {w : Nat} (alg : CrcAlg w) (n : Nat) (v : Val) :
    (Cobs.tryNew AllocVec []).2 = none ∧
    (serializeWith (CrcSer alg n (Cobs AllocVec)) ((Cobs.tryNew AllocVec []).1, alg.init) v).2
      = .ok (cobsEncode (enc v ++ leBytes n (crc alg (enc v)).toNat) ++ [0]) :=
  ⟨rfl, crc_then_cobs LawfulIdx.allocVec alg n [] v rfl trivial _ rfl⟩

/-- innermost storage `HVec<B>` with capacity for the frame. -/
theorem crc_then_cobs_hvec {w : Nat} (alg : CrcAlg w) (n : Nat) (cap : Nat) (v : Val)
    (hcap : (cobsEncode (enc v ++ leBytes n (crc alg (enc v)).toNat)).length + 1 ≤ cap) :
    ∃ st1, Cobs.tryNew HVec ⟨cap, []⟩ = (st1, none) ∧
      (serializeWith (CrcSer alg n (Cobs HVec)) (st1, alg.init) v).2
        = .ok (cobsEncode (enc v ++ leBytes n (crc alg (enc v)).toNat) ++ [0]) :=
  crc_then_cobs_run LawfulIdx.hvec alg n ⟨cap, []⟩ v rfl (by simpa [LawfulIdx.hvec] using hcap)

/-- innermost storage `Slice` over a caller buffer long enough for the frame. -/
theorem crc_then_cobs_slice {w : Nat} (alg : CrcAlg w) (n : Nat) (buf : List Byte) (v : Val)
    (hcap : (cobsEncode (enc v ++ leBytes n (crc alg (enc v)).toNat)).length + 1 ≤ buf.length) :
    ∃ st1, Cobs.tryNew Slice ⟨buf, 0⟩ = (st1, none) ∧
      (serializeWith (CrcSer alg n (Cobs Slice)) (st1, alg.init) v).2
        = .ok (cobsEncode (enc v ++ leBytes n (crc alg (enc v)).toNat) ++ [0]) :=
  crc_then_cobs_run LawfulIdx.slice alg n ⟨buf, 0⟩ v (by simp [LawfulIdx.slice])
    (by simpa [LawfulIdx.slice] using hcap)

/-- a sufficient buffer size in terms of the plain length `k = |enc v|`:
`k + n + (k + n) / 254 + 2` bytes always suffice (COBS worst-case overhead on
top of the checksum). -/
theorem crc_then_cobs_slice_bound {w : Nat} (alg : CrcAlg w) (n : Nat) (buf : List Byte) (v : Val)
    (hcap : (enc v).length + n + ((enc v).length + n) / 254 + 2 ≤ buf.length) :
    ∃ st1, Cobs.tryNew Slice ⟨buf, 0⟩ = (st1, none) ∧
      (serializeWith (CrcSer alg n (Cobs Slice)) (st1, alg.init) v).2
        = .ok (cobsEncode (enc v ++ leBytes n (crc alg (enc v)).toNat) ++ [0]) := by
  apply crc_then_cobs_slice
  have h := (frame_length (crcFramed alg n (enc v))).2.1
  rw [crcFramed_length] at h
  show (cobsEncode (crcFramed alg n (enc v))).length + 1 ≤ buf.length
  omega

/-! ## 5. undoing the layers in reverse order -/

/-- C20 (unstack).  A well-typed `v`, a checksum that fits its `n` bytes, the
stack's output `frame = cobsEncode (enc v ++ checksum) ++ [0]` followed by
anything: `from_bytes_cobs` (outer layer: cut at the first zero, COBS-decode)
composed with `from_bytes_uN` (inner layer: decode, check the checksum) returns
`v`; `take_from_bytes_cobs` additionally returns exactly what followed the
frame.  Layer by layer: COBS decoding of the body gives back
`enc v ++ checksum`, and CRC-checked decoding of that gives back `v`. -/
theorem unstack {w : Nat} (alg : CrcAlg w) (n : Nat) (v : Val) (t : Ty)
    (hty : hasTy v t = true) (hfit : w ≤ n * 8) (rest : List Byte) :
    (fromBytesCobs (fun p => fromBytesCrc alg n (dec t) p)
        (cobsEncode (enc v ++ leBytes n (crc alg (enc v)).toNat) ++ [0] ++ rest)).1 = .ok v ∧
    (takeFromBytesCobs (fun p => fromBytesCrc alg n (dec t) p)
        (cobsEncode (enc v ++ leBytes n (crc alg (enc v)).toNat) ++ [0] ++ rest)).1
      = .ok (v, rest) ∧
    cobsDecode (cobsEncode (enc v ++ leBytes n (crc alg (enc v)).toNat))
      = some (enc v ++ leBytes n (crc alg (enc v)).toNat) ∧
    takeFromBytesCrc alg n (dec t) (enc v ++ leBytes n (crc alg (enc v)).toNat) = .ok (v, []) := by
  have hinner : fromBytesCrc alg n (dec t) (enc v ++ leBytes n (crc alg (enc v)).toNat) = .ok v := by
    simpa using crc_roundtrip_fromBytes alg n (dec t) (enc v) [] v hfit
      (fun r => roundtrip v t hty r)
  have htake : takeFromBytesCrc alg n (dec t) (enc v ++ leBytes n (crc alg (enc v)).toNat)
      = .ok (v, []) := by
    simpa using crc_roundtrip alg n (dec t) (enc v) [] v hfit (fun r => roundtrip v t hty r)
  refine ⟨?_, ?_, (decode_encode _ rest).1, htake⟩
  · have hspec := (cobs_de_eq_spec
      (cobsEncode (crcFramed alg n (enc v)) ++ [0] ++ rest)).2.2.2
      (fun p => fromBytesCrc alg n (dec t) p)
    have hfb : (cobsEncode (crcFramed alg n (enc v)) ++ [0] ++ rest).takeWhile (· ≠ 0)
        = cobsEncode (crcFramed alg n (enc v)) := (frame_one_zero _ rest).2
    rw [hfb, (decode_encode _ rest).1] at hspec
    rw [hspec]
    exact hinner
  · rw [(take_frames (fun p => fromBytesCrc alg n (dec t) p) (crcFramed alg n (enc v)) rest).1,
      hinner]
    rfl

/-- C20 (end to end): whatever the stack returned over a lawful storage,
followed by anything, is undone layer by layer to the value. -/
theorem stack_roundtrip {σ : Type} {w : Nat} {F : Flavor σ (List Byte)} (L : LawfulIdx F)
    (alg : CrcAlg w) (n : Nat) (s0 : σ) (v : Val) (t : Ty) (hty : hasTy v t = true)
    (hfit : w ≤ n * 8) (h0 : L.log s0 = [])
    (hroom : L.room s0
      ((cobsEncode (enc v ++ leBytes n (crc alg (enc v)).toNat)).length + 1))
    (st1 : σ × EncSt) (hnew : Cobs.tryNew F s0 = (st1, none)) (rest : List Byte) :
    ∃ out, (serializeWith (CrcSer alg n (Cobs F)) (st1, alg.init) v).2 = .ok out ∧
      (fromBytesCobs (fun p => fromBytesCrc alg n (dec t) p) (out ++ rest)).1 = .ok v ∧
      (takeFromBytesCobs (fun p => fromBytesCrc alg n (dec t) p) (out ++ rest)).1
        = .ok (v, rest) :=
  ⟨_, crc_then_cobs L alg n s0 v h0 hroom st1 hnew,
    (unstack alg n v t hty hfit rest).1, (unstack alg n v t hty hfit rest).2.1⟩

/-! ## 6. what a user-supplied flavour receives -/

/-- a recording user flavour WITHOUT a block-write override: `try_extend` is the
trait default (byte-wise `try_push`), every push is logged. -/
def RecNoOverride : Flavor (List Chunk) (List Chunk) where
  tryPush s b := (s ++ [.push b], none)
  tryExtend := defaultExtend fun s b => (s ++ [.push b], none)
  finalize s := (s, .ok s)
  setAt _ _ _ := none

/-- C20 (user flavours).

* outermost, WITH a block-write override (`Rec` logs `try_push` and
  `try_extend` calls separately): it receives exactly the serializer's call
  sequence `emit v`, whose bytes are `enc v`;
* outermost, WITHOUT an override (`RecNoOverride`): it receives `enc v` as
  single-byte pushes;
* UNDER the CRC modifier (with or without override — the modifier never calls
  `try_extend`): it receives `enc v ++ checksum` as single-byte pushes;
* ANY user flavour `G` under the CRC modifier ends in the state, and returns
  the result, of being pushed `enc v ++ checksum` byte by byte;
* ANY user flavour outermost is issued a prefix of `emit v`, all of it when no
  call fails (`user_flavor_sees_plain`, C05). -/
theorem user_flavor_sees_plain_stack {w : Nat} (alg : CrcAlg w) (n : Nat) (v : Val) :
    serializeWith Rec [] v = (emit v, .ok (emit v)) ∧
    (emit v).flatMap Chunk.bytes = enc v ∧
    serializeWith RecNoOverride [] v = ((enc v).map Chunk.push, .ok ((enc v).map Chunk.push)) ∧
    (serializeWith (CrcSer alg n Rec) ([], alg.init) v).1.1
      = (enc v ++ leBytes n (crc alg (enc v)).toNat).map Chunk.push ∧
    (serializeWith (CrcSer alg n Rec) ([], alg.init) v).2
      = .ok ((enc v ++ leBytes n (crc alg (enc v)).toNat).map Chunk.push) ∧
    (serializeWith (CrcSer alg n RecNoOverride) ([], alg.init) v).2
      = .ok ((enc v ++ leBytes n (crc alg (enc v)).toNat).map Chunk.push) ∧
    (∀ {σ ω : Type} (G : Flavor σ ω) (g : σ),
      (serializeWith (CrcSer alg n G) (g, alg.init) v).1.1
          = (G.runBytes g (enc v ++ leBytes n (crc alg (enc v)).toNat)).1 ∧
      (serializeWith (CrcSer alg n G) (g, alg.init) v).2
          = (G.runBytes g (enc v ++ leBytes n (crc alg (enc v)).toNat)).2) ∧
    (∀ {σ ω : Type} (F : Flavor σ ω) (s : σ),
      F.issued s (emit v) <+: emit v ∧
      ((F.feed s (emit v)).2 = none → F.issued s (emit v) = emit v) ∧
      (F.tryExtend = defaultExtend F.tryPush →
        F.feed s (emit v) = defaultExtend F.tryPush s (enc v))) := by
  have hrec := crcSer_serializeWith alg n Rec [] v
  rw [Rec.runBytes_eq] at hrec
  have hrno : ∀ bs : List Byte, RecNoOverride.runBytes [] bs = Rec.runBytes [] bs := fun _ => rfl
  refine ⟨?_, emit_flatten v, ?_, ?_, ?_, ?_, ?_, ?_⟩
  · simp only [serializeWith, Rec.feed_eq, List.nil_append]
    rfl
  · rw [serializeWith_eq_runBytes RecNoOverride rfl, hrno, Rec.runBytes_eq]
    rfl
  · simpa using hrec.1
  · simpa using hrec.2
  · rw [(crcSer_serializeWith alg n RecNoOverride [] v).2, hrno, Rec.runBytes_eq]
    rfl
  · intro σ ω G g
    exact crcSer_serializeWith alg n G g v
  · intro σ ω F s
    have h := user_flavor_sees_plain F s v
    exact ⟨h.1, fun hok => (h.2.2.1 hok).1, h.2.2.2.2.1⟩

/-! ## 7. non-vacuity -/

/-- `(300u16, "hi")` -/
def C20.exV : Val := .tuple [.u .w16 300, .str [0x68, 0x69]]
def C20.exT : Ty := .tuple [.u .w16, .str]

example : hasTy C20.exV C20.exT = true := by decide
example : enc C20.exV = [0xAC, 0x02, 2, 0x68, 0x69] := by decide
example : leBytes 4 (crc CRC_32_ISO_HDLC (enc C20.exV)).toNat = [60, 161, 50, 67] := by
  decide +kernel
example : cobsEncode (enc C20.exV ++ leBytes 4 (crc CRC_32_ISO_HDLC (enc C20.exV)).toNat) ++ [0]
    = [10, 0xAC, 0x02, 2, 0x68, 0x69, 60, 161, 50, 67, 0] := by decide +kernel

/-- the stack, evaluated: over `AllocVec`, over a 16-byte `HVec`, over an
11-byte `Slice` (exactly the frame length). -/
example : (serializeWith (CrcSer CRC_32_ISO_HDLC 4 (Cobs AllocVec))
    ((Cobs.tryNew AllocVec []).1, CRC_32_ISO_HDLC.init) C20.exV).2.toOption
    = some [10, 0xAC, 0x02, 2, 0x68, 0x69, 60, 161, 50, 67, 0] := by decide +kernel
example : (serializeWith (CrcSer CRC_32_ISO_HDLC 4 (Cobs HVec))
    ((Cobs.tryNew HVec ⟨16, []⟩).1, CRC_32_ISO_HDLC.init) C20.exV).2.toOption
    = some [10, 0xAC, 0x02, 2, 0x68, 0x69, 60, 161, 50, 67, 0] := by decide +kernel
example : (serializeWith (CrcSer CRC_32_ISO_HDLC 4 (Cobs Slice))
    ((Cobs.tryNew Slice ⟨List.replicate 11 0xFF, 0⟩).1, CRC_32_ISO_HDLC.init) C20.exV).2.toOption
    = some [10, 0xAC, 0x02, 2, 0x68, 0x69, 60, 161, 50, 67, 0] := by decide +kernel
/-- one byte short: `SerializeBufferFull` from `CrcModifier::finalize`'s last
push (the sentinel), not a panic. -/
example : (serializeWith (CrcSer CRC_32_ISO_HDLC 4 (Cobs Slice))
    ((Cobs.tryNew Slice ⟨List.replicate 10 0xFF, 0⟩).1, CRC_32_ISO_HDLC.init) C20.exV).2.toOption
    = none := by decide +kernel

/-- zero bytes of the plain encoding AND of the checksum are stuffed alike:
the 82-bit CRC-82/DARC is written as 16 bytes whose top five are zero. -/
example : (serializeWith (CrcSer CRC_82_DARC 16 (Cobs AllocVec))
    ((Cobs.tryNew AllocVec []).1, CRC_82_DARC.init) C20.exV).2.toOption
    = some [17, 0xAC, 0x02, 2, 0x68, 0x69, 215, 126, 12, 112, 19, 186, 80, 227, 149, 33, 2,
            1, 1, 1, 1, 1, 0] := by decide +kernel
/-- empty plain encoding, checksum `0x00`: the frame is `[1, 1, 0]`. -/
example : (serializeWith (CrcSer CRC_8_SMBUS 1 (Cobs AllocVec))
    ((Cobs.tryNew AllocVec []).1, CRC_8_SMBUS.init) .unit).2.toOption = some [1, 1, 0] := by
  decide +kernel

/-- the hypotheses of `crc_then_cobs_slice` are satisfiable. -/
example : ∃ st1, Cobs.tryNew Slice ⟨List.replicate 11 0xFF, 0⟩ = (st1, none) ∧
    (serializeWith (CrcSer CRC_32_ISO_HDLC 4 (Cobs Slice)) (st1, CRC_32_ISO_HDLC.init) C20.exV).2
      = .ok (cobsEncode (enc C20.exV ++ leBytes 4 (crc CRC_32_ISO_HDLC (enc C20.exV)).toNat) ++ [0]) :=
  crc_then_cobs_slice CRC_32_ISO_HDLC 4 (List.replicate 11 0xFF) C20.exV (by decide +kernel)

/-- `unstack` instantiated, and evaluated on the literal frame followed by two
more bytes. -/
example : (fromBytesCobs (fun p => fromBytesCrc CRC_32_ISO_HDLC 4 (dec C20.exT) p)
    (cobsEncode (enc C20.exV ++ leBytes 4 (crc CRC_32_ISO_HDLC (enc C20.exV)).toNat) ++ [0]
      ++ [9, 9])).1 = .ok C20.exV :=
  (unstack CRC_32_ISO_HDLC 4 C20.exV C20.exT (by decide) (by decide) [9, 9]).1
example : ((fromBytesCobs (fun p => fromBytesCrc CRC_32_ISO_HDLC 4 (dec C20.exT) p)
    [10, 0xAC, 0x02, 2, 0x68, 0x69, 60, 161, 50, 67, 0, 9, 9]).1.toOption.map enc)
    = some [0xAC, 0x02, 2, 0x68, 0x69] := by decide +kernel
/-- a corrupted frame is rejected by the inner (CRC) layer … -/
example : ((fromBytesCobs (fun p => fromBytesCrc CRC_32_ISO_HDLC 4 (dec C20.exT) p)
    [10, 0xAC, 0x02, 2, 0x68, 0x6A, 60, 161, 50, 67, 0, 9, 9]).1.toOption.map enc) = none := by
  decide +kernel
/-- … and the undoing order matters: CRC-decoding the still COBS-framed bytes fails. -/
example : (fromBytesCrc CRC_32_ISO_HDLC 4 (dec C20.exT)
    [10, 0xAC, 0x02, 2, 0x68, 0x69, 60, 161, 50, 67, 0]).toOption.map enc = none := by
  decide +kernel

/-- what the recording user flavours log, evaluated. -/
example : (serializeWith Rec [] C20.exV).1
    = [.extend [0xAC, 0x02], .extend [2], .extend [0x68, 0x69]] := by rfl
example : (serializeWith RecNoOverride [] C20.exV).1
    = [.push 0xAC, .push 0x02, .push 2, .push 0x68, .push 0x69] := by rfl
example : (serializeWith (CrcSer CRC_32_ISO_HDLC 4 Rec) ([], CRC_32_ISO_HDLC.init) C20.exV).1.1
    = [.push 0xAC, .push 0x02, .push 2, .push 0x68, .push 0x69,
       .push 60, .push 161, .push 50, .push 67] := by
  rw [(user_flavor_sees_plain_stack CRC_32_ISO_HDLC 4 C20.exV).2.2.2.1]
  exact congrArg (List.map Chunk.push)
    (by decide +kernel : enc C20.exV ++ leBytes 4 (crc CRC_32_ISO_HDLC (enc C20.exV)).toNat
      = [0xAC, 0x02, 2, 0x68, 0x69, 60, 161, 50, 67])

end Postcard
