import Postcard.Lemmas.Decode
/-
  Postcard.Props.C03 — "Decoder accepts exactly the encodings the
  specification allows".

  Specification side: `Permitted` (Spec/Permitted.lean, written from
  wire-format.md).  Decoder side: `dec` (Model/De.lean, mirrors
  de/deserializer.rs over the `Slice` flavour; `decChar` is the decoder with the
  "exactly one scalar" repair).

  1. `dec_ok_iff` (+ `decTuple_ok_iff`, `decN_ok_iff`, `decKV_ok_iff`,
     `decVariant_ok_iff`): accepted = permitted prefix ++ untouched remainder.
  2. `permitted_hasTy` / `dec_hasTy`, `permitted_enc` / `dec_enc`.
  3. `rest_irrelevant`, `permitted_prefix_free`.
  4. `strict_prefix_unexpected_end`.
  5. `dec_error_kinds` and the "first violated rule" characterisations
     `dec_bool_badBool_iff`, `dec_option_badOption(_iff)`, `dec_str_badUtf8_iff`,
     `dec_char_badChar_iff`, `decVarint_badVarint_iff`, `dec_uN_badVarint_iff`, …
  6. non-vacuity examples (rows of the specification's Canonicalization table).
  (`Val` has no `DecidableEq`, so the closed examples are by `rfl`, not `decide`.)
-/
namespace Postcard

/-! ## 1a. soundness: whatever the decoder accepts is permitted -/

theorem decN_sound {t : Ty}
    (ht : ∀ bs v r, dec t bs = .ok (v, r) → ∃ p, bs = p ++ r ∧ Permitted t v p) :
    ∀ (n : Nat) (bs : List Byte) (vs : List Val) (r : List Byte),
      decN (dec t) n bs = .ok (vs, r) →
      ∃ p, bs = p ++ r ∧ vs.length = n ∧ PermittedAll t vs p
  | 0, bs, vs, r, h => by
    simp only [decN, Except.ok.injEq, Prod.mk.injEq] at h
    obtain ⟨rfl, rfl⟩ := h
    exact ⟨[], rfl, rfl, .nil t⟩
  | n+1, bs, vs, r, h => by
    simp only [decN] at h
    split at h
    · cases h
    · rename_i v r1 hd
      split at h
      · cases h
      · rename_i vs' r2 hd2
        simp only [Except.ok.injEq, Prod.mk.injEq] at h
        obtain ⟨rfl, rfl⟩ := h
        obtain ⟨p1, rfl, h1⟩ := ht _ _ _ hd
        obtain ⟨p2, rfl, hl, h2⟩ := decN_sound ht n _ _ _ hd2
        exact ⟨p1 ++ p2, by simp, by simp [hl], .cons _ _ _ _ _ h1 h2⟩

theorem decKV_sound {k v : Ty}
    (hk : ∀ bs x r, dec k bs = .ok (x, r) → ∃ p, bs = p ++ r ∧ Permitted k x p)
    (hv : ∀ bs x r, dec v bs = .ok (x, r) → ∃ p, bs = p ++ r ∧ Permitted v x p) :
    ∀ (n : Nat) (bs : List Byte) (kvs : List Val) (r : List Byte),
      decKV (dec k) (dec v) n bs = .ok (kvs, r) →
      ∃ p, bs = p ++ r ∧ kvs.length = 2 * n ∧ PermittedKV k v kvs p
  | 0, bs, vs, r, h => by
    simp only [decKV, Except.ok.injEq, Prod.mk.injEq] at h
    obtain ⟨rfl, rfl⟩ := h
    exact ⟨[], rfl, rfl, .nil k v⟩
  | n+1, bs, vs, r, h => by
    simp only [decKV] at h
    split at h
    · cases h
    · rename_i x r1 hd
      split at h
      · cases h
      · rename_i y r2 hd2
        split at h
        · cases h
        · rename_i kvs' r3 hd3
          simp only [Except.ok.injEq, Prod.mk.injEq] at h
          obtain ⟨rfl, rfl⟩ := h
          obtain ⟨p1, rfl, h1⟩ := hk _ _ _ hd
          obtain ⟨p2, rfl, h2⟩ := hv _ _ _ hd2
          obtain ⟨p3, rfl, hl, h3⟩ := decKV_sound hk hv n _ _ _ hd3
          exact ⟨p1 ++ p2 ++ p3, by simp, by simp [hl]; omega, .cons _ _ _ _ _ _ _ _ h1 h2 h3⟩

-- soundness, following the decoder clause by clause
mutual
theorem dec_sound : ∀ (t : Ty) (bs : List Byte) (v : Val) (r : List Byte),
    dec t bs = .ok (v, r) → ∃ p, bs = p ++ r ∧ Permitted t v p
  | .bool, bs, v, r, h => by
    match bs, h with
    | [], h => simp [dec] at h
    | b :: bs', h =>
      simp only [dec] at h
      split at h
      · next hb =>
        simp only [Except.ok.injEq, Prod.mk.injEq] at h
        obtain ⟨rfl, rfl⟩ := h; subst hb; exact ⟨[0], rfl, .boolFalse⟩
      · split at h
        · next hb =>
          simp only [Except.ok.injEq, Prod.mk.injEq] at h
          obtain ⟨rfl, rfl⟩ := h; subst hb; exact ⟨[1], rfl, .boolTrue⟩
        · cases h
  | .u w, bs, v, r, h => by
    by_cases hw : w = .w8
    · subst hw
      match bs, h with
      | [], h => simp [dec] at h
      | b :: bs', h =>
        simp only [dec, Except.ok.injEq, Prod.mk.injEq] at h
        obtain ⟨rfl, rfl⟩ := h
        exact ⟨[b], rfl, .u8 b⟩
    · rw [dec_uN hw] at h
      split at h
      · cases h
      · rename_i n r1 hd
        simp only [Except.ok.injEq, Prod.mk.injEq] at h
        obtain ⟨rfl, rfl⟩ := h
        obtain ⟨p, rfl, hp⟩ := (decVarint_ok_iff (IntW.widthOk hw)).1 hd
        exact ⟨p, rfl, .uN _ _ _ hw hp⟩
  | .i w, bs, v, r, h => by
    by_cases hw : w = .w8
    · subst hw
      match bs, h with
      | [], h => simp [dec] at h
      | b :: bs', h =>
        simp only [dec, Except.ok.injEq, Prod.mk.injEq] at h
        obtain ⟨rfl, rfl⟩ := h
        exact ⟨[b], rfl, .i8 b⟩
    · rw [dec_iN hw] at h
      split at h
      · cases h
      · rename_i n r1 hd
        simp only [Except.ok.injEq, Prod.mk.injEq] at h
        obtain ⟨rfl, rfl⟩ := h
        obtain ⟨p, rfl, hp⟩ := (decVarint_ok_iff (IntW.widthOk hw)).1 hd
        exact ⟨p, rfl, .iN _ _ _ hw hp⟩
  | .f32, bs, v, r, h => by
    simp only [dec] at h
    split at h
    · cases h
    · rename_i b r1 hd
      simp only [Except.ok.injEq, Prod.mk.injEq] at h
      obtain ⟨rfl, rfl⟩ := h
      obtain ⟨rfl, hl⟩ := takeN_ok_iff.1 hd
      exact ⟨b, rfl, .f32 b hl⟩
  | .f64, bs, v, r, h => by
    simp only [dec] at h
    split at h
    · cases h
    · rename_i b r1 hd
      simp only [Except.ok.injEq, Prod.mk.injEq] at h
      obtain ⟨rfl, rfl⟩ := h
      obtain ⟨rfl, hl⟩ := takeN_ok_iff.1 hd
      exact ⟨b, rfl, .f64 b hl⟩
  | .char, bs, v, r, h => by
    simp only [dec, decChar] at h
    split at h
    · cases h
    · rename_i sz r1 hd
      split at h
      · cases h
      · split at h
        · cases h
        · rename_i s r2 ht
          split at h
          · split at h
            · rename_i c hn
              simp only [Except.ok.injEq, Prod.mk.injEq] at h
              obtain ⟨rfl, rfl⟩ := h
              obtain ⟨p, rfl, hp⟩ := (decVarint_ok_iff widthOk64).1 hd
              obtain ⟨rfl, hl⟩ := takeN_ok_iff.1 ht
              obtain ⟨hs, he⟩ := utf8Next_sound hn
              rw [List.append_nil] at he
              subst he
              subst hl
              exact ⟨p ++ utf8Encode c, by simp, .char c p hs hp⟩
            · cases h
          · cases h
  | .str, bs, v, r, h => by
    simp only [dec] at h
    split at h
    · cases h
    · rename_i sz r1 hd
      split at h
      · cases h
      · rename_i s r2 ht
        split at h
        · rename_i hu
          simp only [Except.ok.injEq, Prod.mk.injEq] at h
          obtain ⟨rfl, rfl⟩ := h
          obtain ⟨p, rfl, hp⟩ := (decVarint_ok_iff widthOk64).1 hd
          obtain ⟨rfl, hl⟩ := takeN_ok_iff.1 ht
          subst hl
          exact ⟨p ++ s, by simp, .str s p hp hu⟩
        · cases h
  | .bytes, bs, v, r, h => by
    simp only [dec] at h
    split at h
    · cases h
    · rename_i sz r1 hd
      split at h
      · cases h
      · rename_i s r2 ht
        simp only [Except.ok.injEq, Prod.mk.injEq] at h
        obtain ⟨rfl, rfl⟩ := h
        obtain ⟨p, rfl, hp⟩ := (decVarint_ok_iff widthOk64).1 hd
        obtain ⟨rfl, hl⟩ := takeN_ok_iff.1 ht
        subst hl
        exact ⟨p ++ s, by simp, .bytes s p hp⟩
  | .option t, bs, v, r, h => by
    match bs, h with
    | [], h => simp [dec] at h
    | b :: bs', h =>
      simp only [dec] at h
      split at h
      · next hb =>
        simp only [Except.ok.injEq, Prod.mk.injEq] at h
        obtain ⟨rfl, rfl⟩ := h; subst hb; exact ⟨[0], rfl, .none t⟩
      · split at h
        · next hb =>
          subst hb
          split at h
          · cases h
          · rename_i v' r1 hd
            simp only [Except.ok.injEq, Prod.mk.injEq] at h
            obtain ⟨rfl, rfl⟩ := h
            obtain ⟨p, rfl, hp⟩ := dec_sound t _ _ _ hd
            exact ⟨1 :: p, rfl, .some t _ p hp⟩
        · cases h
  | .unit, bs, v, r, h => by
    simp only [dec, Except.ok.injEq, Prod.mk.injEq] at h
    obtain ⟨rfl, rfl⟩ := h
    exact ⟨[], rfl, .unit⟩
  | .unitStruct, bs, v, r, h => by
    simp only [dec, Except.ok.injEq, Prod.mk.injEq] at h
    obtain ⟨rfl, rfl⟩ := h
    exact ⟨[], rfl, .unitStruct⟩
  | .newtypeStruct t, bs, v, r, h => by
    simp only [dec] at h
    split at h
    · cases h
    · rename_i v' r1 hd
      simp only [Except.ok.injEq, Prod.mk.injEq] at h
      obtain ⟨rfl, rfl⟩ := h
      obtain ⟨p, rfl, hp⟩ := dec_sound t _ _ _ hd
      exact ⟨p, rfl, .newtypeStruct t _ p hp⟩
  | .seq t, bs, v, r, h => by
    simp only [dec] at h
    split at h
    · cases h
    · rename_i n r1 hd
      split at h
      · cases h
      · rename_i vs r2 hd2
        simp only [Except.ok.injEq, Prod.mk.injEq] at h
        obtain ⟨rfl, rfl⟩ := h
        obtain ⟨p, rfl, hp⟩ := (decVarint_ok_iff widthOk64).1 hd
        obtain ⟨q, rfl, hl, hq⟩ := decN_sound (dec_sound t) _ _ _ _ hd2
        subst hl
        exact ⟨p ++ q, by simp, .seq t vs p q hp hq⟩
  | .tuple ts, bs, v, r, h => by
    simp only [dec] at h
    split at h
    · cases h
    · rename_i vs r1 hd
      simp only [Except.ok.injEq, Prod.mk.injEq] at h
      obtain ⟨rfl, rfl⟩ := h
      obtain ⟨p, rfl, hp⟩ := decTuple_sound ts _ _ _ hd
      exact ⟨p, rfl, .tuple ts vs p hp⟩
  | .tupleStruct ts, bs, v, r, h => by
    simp only [dec] at h
    split at h
    · cases h
    · rename_i vs r1 hd
      simp only [Except.ok.injEq, Prod.mk.injEq] at h
      obtain ⟨rfl, rfl⟩ := h
      obtain ⟨p, rfl, hp⟩ := decTuple_sound ts _ _ _ hd
      exact ⟨p, rfl, .tupleStruct ts vs p hp⟩
  | .struct ts, bs, v, r, h => by
    simp only [dec] at h
    split at h
    · cases h
    · rename_i vs r1 hd
      simp only [Except.ok.injEq, Prod.mk.injEq] at h
      obtain ⟨rfl, rfl⟩ := h
      obtain ⟨p, rfl, hp⟩ := decTuple_sound ts _ _ _ hd
      exact ⟨p, rfl, .struct ts vs p hp⟩
  | .map k v', bs, v, r, h => by
    simp only [dec] at h
    split at h
    · cases h
    · rename_i n r1 hd
      split at h
      · cases h
      · rename_i kvs r2 hd2
        simp only [Except.ok.injEq, Prod.mk.injEq] at h
        obtain ⟨rfl, rfl⟩ := h
        obtain ⟨p, rfl, hp⟩ := (decVarint_ok_iff widthOk64).1 hd
        obtain ⟨q, rfl, hl, hq⟩ := decKV_sound (dec_sound k) (dec_sound v') _ _ _ _ hd2
        have hn : n = kvs.length / 2 := by omega
        subst hn
        exact ⟨p ++ q, by simp, .map k v' kvs p q hp hq⟩
  | .enum vts, bs, v, r, h => by
    simp only [dec] at h
    split at h
    · cases h
    · rename_i idx r1 hd
      obtain ⟨p, rfl, hp⟩ := (decVarint_ok_iff widthOk32).1 hd
      obtain ⟨vt, q, hvt, rfl, hq⟩ := decVariant_sound vts _ _ _ _ _ h
      exact ⟨p ++ q, by simp, .enum vts idx vt v p q hp hvt hq⟩
  | .any, bs, v, r, h => by simp [dec] at h
  | .identifier, bs, v, r, h => by simp [dec] at h
  | .ignoredAny, bs, v, r, h => by simp [dec] at h
theorem decTuple_sound : ∀ (ts : List Ty) (bs : List Byte) (vs : List Val) (r : List Byte),
    decTuple ts bs = .ok (vs, r) → ∃ p, bs = p ++ r ∧ PermittedTuple ts vs p
  | [], bs, vs, r, h => by
    simp only [decTuple, Except.ok.injEq, Prod.mk.injEq] at h
    obtain ⟨rfl, rfl⟩ := h
    exact ⟨[], rfl, .nil⟩
  | t :: ts, bs, vs, r, h => by
    simp only [decTuple] at h
    split at h
    · cases h
    · rename_i v r1 hd
      split at h
      · cases h
      · rename_i vs' r2 hd2
        simp only [Except.ok.injEq, Prod.mk.injEq] at h
        obtain ⟨rfl, rfl⟩ := h
        obtain ⟨p1, rfl, h1⟩ := dec_sound t _ _ _ hd
        obtain ⟨p2, rfl, h2⟩ := decTuple_sound ts _ _ _ hd2
        exact ⟨p1 ++ p2, by simp, .cons _ _ _ _ _ _ h1 h2⟩
theorem decVariant_sound : ∀ (vts : List Ty) (k idx : Nat) (bs : List Byte) (v : Val) (r : List Byte),
    decVariant vts k idx bs = .ok (v, r) →
    ∃ vt p, vts[k]? = some vt ∧ bs = p ++ r ∧ PermittedVariant vt idx v p
  | [], k, idx, bs, v, r, h => by simp [decVariant] at h
  | vt :: rest, 0, idx, bs, v, r, h => by
    match vt, h with
    | .unit, h =>
      simp only [decVariant, Except.ok.injEq, Prod.mk.injEq] at h
      obtain ⟨rfl, rfl⟩ := h
      exact ⟨.unit, [], rfl, rfl, .unit idx⟩
    | .newtypeStruct t, h =>
      simp only [decVariant] at h
      split at h
      · cases h
      · rename_i v' r1 hd
        simp only [Except.ok.injEq, Prod.mk.injEq] at h
        obtain ⟨rfl, rfl⟩ := h
        obtain ⟨p, rfl, hp⟩ := dec_sound t _ _ _ hd
        exact ⟨_, p, rfl, rfl, .newtype t idx _ p hp⟩
    | .tuple ts, h =>
      simp only [decVariant] at h
      split at h
      · cases h
      · rename_i vs r1 hd
        simp only [Except.ok.injEq, Prod.mk.injEq] at h
        obtain ⟨rfl, rfl⟩ := h
        obtain ⟨p, rfl, hp⟩ := decTuple_sound ts _ _ _ hd
        exact ⟨_, p, rfl, rfl, .tuple ts idx _ p hp⟩
    | .struct ts, h =>
      simp only [decVariant] at h
      split at h
      · cases h
      · rename_i vs r1 hd
        simp only [Except.ok.injEq, Prod.mk.injEq] at h
        obtain ⟨rfl, rfl⟩ := h
        obtain ⟨p, rfl, hp⟩ := decTuple_sound ts _ _ _ hd
        exact ⟨_, p, rfl, rfl, .struct ts idx _ p hp⟩
    | .bool, h | .u _, h | .i _, h | .f32, h | .f64, h | .char, h | .str, h | .bytes, h
    | .option _, h | .unitStruct, h | .seq _, h | .tupleStruct _, h | .map _ _, h | .enum _, h
    | .any, h | .identifier, h | .ignoredAny, h => simp [decVariant] at h
  | _ :: rest, k+1, idx, bs, v, r, h => by
    simp only [decVariant] at h
    obtain ⟨vt, p, h1, h2, h3⟩ := decVariant_sound rest k idx bs v r h
    exact ⟨vt, p, by simpa using h1, h2, h3⟩
end

/-! ## 1b. completeness: whatever is permitted is accepted, with any remainder -/

theorem decVarint_permitted {bits n : Nat} {p : List Byte} (hb : WidthOk bits)
    (hp : PermittedVarint bits n p) (r : List Byte) : decVarint bits (p ++ r) = .ok (n, r) :=
  (decVarint_ok_iff hb).2 ⟨p, rfl, hp⟩

theorem utf8Next_encode_nil {c : Nat} (h : isScalar c = true) :
    utf8Next (utf8Encode c) = some (c, []) := by
  have := utf8Next_encode h []
  rwa [List.append_nil] at this

-- by recursion on the derivation
mutual
theorem dec_complete : ∀ {t : Ty} {v : Val} {p : List Byte}, Permitted t v p →
    ∀ r, dec t (p ++ r) = .ok (v, r)
  | _, _, _, .boolFalse, r => by simp [dec]
  | _, _, _, .boolTrue, r => by simp [dec]
  | _, _, _, .u8 b, r => by simp [dec]
  | _, _, _, .uN w n p hw hp, r => by
    rw [dec_uN hw, decVarint_permitted (IntW.widthOk hw) hp]
  | _, _, _, .i8 b, r => by simp [dec]
  | _, _, _, .iN w n p hw hp, r => by
    rw [dec_iN hw, decVarint_permitted (IntW.widthOk hw) hp]
  | _, _, _, .f32 bs hl, r => by
    simp only [dec]; rw [← hl, takeN_append]
  | _, _, _, .f64 bs hl, r => by
    simp only [dec]; rw [← hl, takeN_append]
  | _, _, _, .char c p hs hp, r => by
    have hle := utf8Encode_length_le c
    simp only [dec, decChar, List.append_assoc]
    rw [decVarint_permitted widthOk64 hp]
    simp only [Nat.not_lt.2 hle, if_false, takeN_append, utf8Valid_encode hs, if_true,
      utf8Next_encode_nil hs]
  | _, _, _, .str s p hp hu, r => by
    simp only [dec, List.append_assoc]
    rw [decVarint_permitted widthOk64 hp]
    simp only [takeN_append, hu, if_true]
  | _, _, _, .bytes s p hp, r => by
    simp only [dec, List.append_assoc]
    rw [decVarint_permitted widthOk64 hp]
    simp only [takeN_append]
  | _, _, _, .none t, r => by simp [dec]
  | _, _, _, .some t v p h, r => by
    simp [dec, dec_complete h r]
  | _, _, _, .unit, r => by simp [dec]
  | _, _, _, .unitStruct, r => by simp [dec]
  | _, _, _, .newtypeStruct t v p h, r => by
    simp only [dec, dec_complete h r]
  | _, _, _, .seq t vs p q hp hq, r => by
    simp only [dec, List.append_assoc]
    rw [decVarint_permitted widthOk64 hp]
    simp only [decN_complete hq r]
  | _, _, _, .tuple ts vs p h, r => by
    simp only [dec, decTuple_complete h r]
  | _, _, _, .tupleStruct ts vs p h, r => by
    simp only [dec, decTuple_complete h r]
  | _, _, _, .struct ts vs p h, r => by
    simp only [dec, decTuple_complete h r]
  | _, _, _, .map k v kvs p q hp hq, r => by
    simp only [dec, List.append_assoc]
    rw [decVarint_permitted widthOk64 hp]
    simp only [decKV_complete hq r]
  | _, _, _, .enum vts idx vt v p q hp hvt hq, r => by
    simp only [dec, List.append_assoc]
    rw [decVarint_permitted widthOk32 hp]
    simp only []
    rw [decVariant_some vts idx idx _ vt hvt]
    exact decVariant_complete hq r
theorem decVariant_complete : ∀ {vt : Ty} {idx : Nat} {v : Val} {p : List Byte},
    PermittedVariant vt idx v p → ∀ r, decVariant [vt] 0 idx (p ++ r) = .ok (v, r)
  | _, _, _, _, .unit idx, r => by simp [decVariant]
  | _, _, _, _, .newtype t idx v p h, r => by simp only [decVariant, dec_complete h r]
  | _, _, _, _, .tuple ts idx vs p h, r => by simp only [decVariant, decTuple_complete h r]
  | _, _, _, _, .struct ts idx vs p h, r => by simp only [decVariant, decTuple_complete h r]
theorem decTuple_complete : ∀ {ts : List Ty} {vs : List Val} {p : List Byte},
    PermittedTuple ts vs p → ∀ r, decTuple ts (p ++ r) = .ok (vs, r)
  | _, _, _, .nil, r => by simp [decTuple]
  | _, _, _, .cons t ts v vs p q h1 h2, r => by
    simp only [decTuple, List.append_assoc, dec_complete h1 (q ++ r), decTuple_complete h2 r]
theorem decN_complete : ∀ {t : Ty} {vs : List Val} {p : List Byte},
    PermittedAll t vs p → ∀ r, decN (dec t) vs.length (p ++ r) = .ok (vs, r)
  | _, _, _, .nil t, r => by simp [decN]
  | _, _, _, .cons t v vs p q h1 h2, r => by
    simp only [List.length_cons, decN, List.append_assoc, dec_complete h1 (q ++ r),
      decN_complete h2 r]
theorem decKV_complete : ∀ {k v : Ty} {kvs : List Val} {p : List Byte},
    PermittedKV k v kvs p → ∀ r, decKV (dec k) (dec v) (kvs.length / 2) (p ++ r) = .ok (kvs, r)
  | _, _, _, _, .nil k v, r => by simp [decKV]
  | _, _, _, _, .cons k v x y kvs p q s h1 h2 h3, r => by
    have hl : (x :: y :: kvs).length / 2 = kvs.length / 2 + 1 := by
      simp only [List.length_cons]; omega
    rw [hl]
    simp only [decKV, List.append_assoc, dec_complete h1 (q ++ (s ++ r)),
      dec_complete h2 (s ++ r), decKV_complete h3 r]
end

/-- **C03.1** the decoder accepts exactly the permitted byte strings (followed
by an arbitrary remainder, which it hands back untouched). -/
theorem dec_ok_iff (t : Ty) (bs : List Byte) (v : Val) (r : List Byte) :
    dec t bs = .ok (v, r) ↔ ∃ p, bs = p ++ r ∧ Permitted t v p :=
  ⟨dec_sound t bs v r, fun ⟨_, hb, hp⟩ => hb ▸ dec_complete hp r⟩

theorem decTuple_ok_iff (ts : List Ty) (bs : List Byte) (vs : List Val) (r : List Byte) :
    decTuple ts bs = .ok (vs, r) ↔ ∃ p, bs = p ++ r ∧ PermittedTuple ts vs p :=
  ⟨decTuple_sound ts bs vs r, fun ⟨_, hb, hp⟩ => hb ▸ decTuple_complete hp r⟩

theorem decN_ok_iff (t : Ty) (n : Nat) (bs : List Byte) (vs : List Val) (r : List Byte) :
    decN (dec t) n bs = .ok (vs, r) ↔ ∃ p, bs = p ++ r ∧ vs.length = n ∧ PermittedAll t vs p :=
  ⟨decN_sound (dec_sound t) n bs vs r, fun ⟨_, hb, hl, hp⟩ => hb ▸ hl ▸ decN_complete hp r⟩

theorem decKV_ok_iff (k v : Ty) (n : Nat) (bs : List Byte) (kvs : List Val) (r : List Byte) :
    decKV (dec k) (dec v) n bs = .ok (kvs, r) ↔
      ∃ p, bs = p ++ r ∧ kvs.length = 2 * n ∧ PermittedKV k v kvs p := by
  refine ⟨decKV_sound (dec_sound k) (dec_sound v) n bs kvs r, ?_⟩
  rintro ⟨p, rfl, hl, hp⟩
  have : n = kvs.length / 2 := by omega
  subst this
  exact decKV_complete hp r

theorem decVariant_ok_iff (vts : List Ty) (k idx : Nat) (bs : List Byte) (v : Val) (r : List Byte) :
    decVariant vts k idx bs = .ok (v, r) ↔
      ∃ vt p, vts[k]? = some vt ∧ bs = p ++ r ∧ PermittedVariant vt idx v p := by
  refine ⟨decVariant_sound vts k idx bs v r, ?_⟩
  rintro ⟨vt, p, hvt, rfl, hp⟩
  rw [decVariant_some vts k idx _ vt hvt]
  exact decVariant_complete hp r

/-! ## 2. permitted values are well-typed; the canonical encoding is permitted -/

private theorem pow256_4 : 256 ^ 4 = 2 ^ 32 := by decide
private theorem pow256_8 : 256 ^ 8 = 2 ^ 64 := by decide

mutual
theorem permitted_hasTy : ∀ {t : Ty} {v : Val} {p : List Byte}, Permitted t v p → hasTy v t = true
  | _, _, _, .boolFalse => by simp [hasTy]
  | _, _, _, .boolTrue => by simp [hasTy]
  | _, _, _, .u8 b => by
    have := b.toNat_lt
    simp [hasTy, IntW.bits, this]
  | _, _, _, .uN w n p hw hp => by
    have := hp.2.2.2.2.2
    simp [hasTy, this]
  | _, _, _, .i8 b => by
    have := ofBits8_range b
    simp only [hasTy, decide_true, Bool.true_and]
    rw [IntW.inRangeI_iff]
    simpa [IntW.bits] using this
  | _, _, _, .iN w n p hw hp => by
    have := unzigzag_range (IntW.bits_pos w) hp.2.2.2.2.2
    simp only [hasTy, decide_true, Bool.true_and]
    rw [IntW.inRangeI_iff]
    exact this
  | _, _, _, .f32 bs hl => by
    have := ofLeBytes_lt bs
    rw [hl, pow256_4] at this
    simp [hasTy, this]
  | _, _, _, .f64 bs hl => by
    have := ofLeBytes_lt bs
    rw [hl, pow256_8] at this
    simp [hasTy, this]
  | _, _, _, .char c p hs hp => by simp [hasTy, hs]
  | _, _, _, .str s p hp hu => by
    have := hp.2.2.2.2.2
    simp [hasTy, hu, this]
  | _, _, _, .bytes s p hp => by
    have := hp.2.2.2.2.2
    simp [hasTy, this]
  | _, _, _, .none t => by simp [hasTy]
  | _, _, _, .some t v p h => by simp [hasTy, permitted_hasTy h]
  | _, _, _, .unit => by simp [hasTy]
  | _, _, _, .unitStruct => by simp [hasTy]
  | _, _, _, .newtypeStruct t v p h => by simp [hasTy, permitted_hasTy h]
  | _, _, _, .seq t vs p q hp hq => by
    have := hp.2.2.2.2.2
    simp [hasTy, permittedAll_hasTy hq, this]
  | _, _, _, .tuple ts vs p h => by simp [hasTy, permittedTuple_hasTy h]
  | _, _, _, .tupleStruct ts vs p h => by simp [hasTy, permittedTuple_hasTy h]
  | _, _, _, .struct ts vs p h => by simp [hasTy, permittedTuple_hasTy h]
  | _, _, _, .map k v kvs p q hp hq => by
    have := hp.2.2.2.2.2
    simp [hasTy, permittedKV_hasTy hq, this]
  | _, _, _, .enum vts idx vt v p q hp hvt hq => permittedVariant_hasTy hq hp.2.2.2.2.2 hvt
theorem permittedVariant_hasTy : ∀ {vt : Ty} {idx : Nat} {v : Val} {p : List Byte} {vts : List Ty},
    PermittedVariant vt idx v p → idx < 2 ^ 32 → vts[idx]? = some vt → hasTy v (.enum vts) = true
  | _, _, _, _, _, .unit idx, hi, hvt => by simp [hasTy, hi, hvt]
  | _, _, _, _, _, .newtype t idx v p h, hi, hvt => by simp [hasTy, hi, hvt, permitted_hasTy h]
  | _, _, _, _, _, .tuple ts idx vs p h, hi, hvt => by simp [hasTy, hi, hvt, permittedTuple_hasTy h]
  | _, _, _, _, _, .struct ts idx vs p h, hi, hvt => by simp [hasTy, hi, hvt, permittedTuple_hasTy h]
theorem permittedTuple_hasTy : ∀ {ts : List Ty} {vs : List Val} {p : List Byte},
    PermittedTuple ts vs p → hasTys vs ts = true
  | _, _, _, .nil => by simp [hasTys]
  | _, _, _, .cons t ts v vs p q h1 h2 => by
    simp [hasTys, permitted_hasTy h1, permittedTuple_hasTy h2]
theorem permittedAll_hasTy : ∀ {t : Ty} {vs : List Val} {p : List Byte},
    PermittedAll t vs p → hasTyAll vs t = true
  | _, _, _, .nil t => by simp [hasTyAll]
  | _, _, _, .cons t v vs p q h1 h2 => by
    simp [hasTyAll, permitted_hasTy h1, permittedAll_hasTy h2]
theorem permittedKV_hasTy : ∀ {k v : Ty} {kvs : List Val} {p : List Byte},
    PermittedKV k v kvs p → hasTyKV true kvs k v = true
  | _, _, _, _, .nil k v => by simp [hasTyKV]
  | _, _, _, _, .cons k v x y kvs p q s h1 h2 h3 => by
    simp [hasTyKV, permitted_hasTy h1, permitted_hasTy h2, permittedKV_hasTy h3]
end

/-- decoded values are well-typed. -/
theorem dec_hasTy {t : Ty} {bs : List Byte} {v : Val} {r : List Byte}
    (h : dec t bs = .ok (v, r)) : hasTy v t = true := by
  obtain ⟨p, _, hp⟩ := dec_sound t bs v r h
  exact permitted_hasTy hp

theorem permitted_encVarint {bits n : Nat} (hb : WidthOk bits) (h : n < 2 ^ bits) :
    PermittedVarint bits n (encVarint bits n) := by
  rw [encVarint_eq_spec hb h]; exact permitted_canonical hb h

theorem enc_uN {w : IntW} (hw : w ≠ .w8) (n : Nat) : enc (.u w n) = encVarint w.bits n := by
  cases w
  · exact absurd rfl hw
  all_goals rfl

theorem enc_iN {w : IntW} (hw : w ≠ .w8) (x : Int) :
    enc (.i w x) = encVarint w.bits (zigzag w.bits x) := by
  cases w
  · exact absurd rfl hw
  all_goals rfl

-- by recursion on the value
mutual
theorem permitted_enc : ∀ (v : Val) (t : Ty), hasTy v t = true → Permitted t v (enc v)
  | .bool b, t, h => by
    cases t <;> simp [hasTy] at h
    cases b
    · exact .boolFalse
    · exact .boolTrue
  | .u w n, t, h => by
    cases t <;> simp [hasTy] at h
    obtain ⟨rfl, hn⟩ := h
    by_cases hw : w = .w8
    · subst hw
      have h1 : (UInt8.ofNat n).toNat = n := by
        rw [UInt8.toNat_ofNat']; exact Nat.mod_eq_of_lt hn
      have := Permitted.u8 (UInt8.ofNat n)
      rw [h1] at this
      exact this
    · rw [enc_uN hw]
      exact .uN w n _ hw (permitted_encVarint (IntW.widthOk hw) hn)
  | .i w x, t, h => by
    cases t <;> simp [hasTy] at h
    obtain ⟨rfl, hx⟩ := h
    rw [IntW.inRangeI_iff] at hx
    by_cases hw : w = .w8
    · subst hw
      have h1 := ofBits_toBits8 (x := x) (by simpa [IntW.bits] using hx)
      have := Permitted.i8 (UInt8.ofNat (toBits 8 x))
      rw [h1] at this
      exact this
    · rw [enc_iN hw]
      have := Permitted.iN w (zigzag w.bits x) _ hw
        (permitted_encVarint (IntW.widthOk hw) (zigzag_lt (IntW.bits_pos w) hx))
      rw [unzigzag_zigzag (IntW.bits_pos w) hx] at this
      exact this
  | .f32 b, t, h => by
    cases t <;> simp [hasTy] at h
    have := Permitted.f32 (leBytes 4 b) (leBytes_length 4 b)
    rw [ofLeBytes_leBytes (by rw [pow256_4]; exact h)] at this
    exact this
  | .f64 b, t, h => by
    cases t <;> simp [hasTy] at h
    have := Permitted.f64 (leBytes 8 b) (leBytes_length 8 b)
    rw [ofLeBytes_leBytes (by rw [pow256_8]; exact h)] at this
    exact this
  | .char c, t, h => by
    cases t <;> simp [hasTy] at h
    have hle := utf8Encode_length_le c
    exact .char c _ h (permitted_encVarint widthOk64
      (Nat.lt_of_le_of_lt hle (by decide)))
  | .str s, t, h => by
    cases t <;> simp [hasTy] at h
    exact .str s _ (permitted_encVarint widthOk64 h.2) h.1
  | .bytes s, t, h => by
    cases t <;> simp [hasTy] at h
    exact .bytes s _ (permitted_encVarint widthOk64 h)
  | .none, t, h => by
    cases t <;> simp [hasTy] at h
    exact .none _
  | .some v, t, h => by
    cases t <;> simp [hasTy] at h
    exact .some _ v _ (permitted_enc v _ h)
  | .unit, t, h => by
    cases t <;> simp [hasTy] at h
    exact .unit
  | .unitStruct, t, h => by
    cases t <;> simp [hasTy] at h
    exact .unitStruct
  | .newtypeStruct v, t, h => by
    cases t <;> simp [hasTy] at h
    exact .newtypeStruct _ v _ (permitted_enc v _ h)
  | .seq vs, t, h => by
    cases t <;> simp [hasTy] at h
    exact .seq _ vs _ _ (permitted_encVarint widthOk64 h.2) (permittedAll_encList vs _ h.1)
  | .tuple vs, t, h => by
    cases t <;> simp [hasTy] at h
    exact .tuple _ vs _ (permittedTuple_encList vs _ h)
  | .tupleStruct vs, t, h => by
    cases t <;> simp [hasTy] at h
    exact .tupleStruct _ vs _ (permittedTuple_encList vs _ h)
  | .struct vs, t, h => by
    cases t <;> simp [hasTy] at h
    exact .struct _ vs _ (permittedTuple_encList vs _ h)
  | .map kvs, t, h => by
    cases t <;> simp [hasTy] at h
    exact .map _ _ kvs _ _ (permitted_encVarint widthOk64 h.2) (permittedKV_encList kvs _ _ h.1)
  | .unitVariant idx, t, h => by
    cases t <;> simp [hasTy] at h
    rename_i vts
    obtain ⟨hi, hm⟩ := h
    cases hv : vts[idx]? with
    | none => simp [hv] at hm
    | some vt =>
      cases vt <;> simp [hv] at hm
      have := Permitted.enum vts idx .unit _ _ [] (permitted_encVarint widthOk32 hi) hv (.unit idx)
      simpa [enc] using this
  | .newtypeVariant idx v, t, h => by
    cases t <;> simp [hasTy] at h
    rename_i vts
    obtain ⟨hi, hm⟩ := h
    cases hv : vts[idx]? with
    | none => simp [hv] at hm
    | some vt =>
      cases vt <;> simp [hv] at hm
      exact .enum vts idx _ _ _ _ (permitted_encVarint widthOk32 hi) hv
        (.newtype _ idx v _ (permitted_enc v _ hm))
  | .tupleVariant idx vs, t, h => by
    cases t <;> simp [hasTy] at h
    rename_i vts
    obtain ⟨hi, hm⟩ := h
    cases hv : vts[idx]? with
    | none => simp [hv] at hm
    | some vt =>
      cases vt <;> simp [hv] at hm
      exact .enum vts idx _ _ _ _ (permitted_encVarint widthOk32 hi) hv
        (.tuple _ idx vs _ (permittedTuple_encList vs _ hm))
  | .structVariant idx vs, t, h => by
    cases t <;> simp [hasTy] at h
    rename_i vts
    obtain ⟨hi, hm⟩ := h
    cases hv : vts[idx]? with
    | none => simp [hv] at hm
    | some vt =>
      cases vt <;> simp [hv] at hm
      exact .enum vts idx _ _ _ _ (permitted_encVarint widthOk32 hi) hv
        (.struct _ idx vs _ (permittedTuple_encList vs _ hm))
theorem permittedTuple_encList : ∀ (vs : List Val) (ts : List Ty), hasTys vs ts = true →
    PermittedTuple ts vs (encList vs)
  | [], [], _ => .nil
  | [], _ :: _, h => by simp [hasTys] at h
  | _ :: _, [], h => by simp [hasTys] at h
  | v :: vs, t :: ts, h => by
    simp [hasTys] at h
    exact .cons t ts v vs _ _ (permitted_enc v t h.1) (permittedTuple_encList vs ts h.2)
theorem permittedAll_encList : ∀ (vs : List Val) (t : Ty), hasTyAll vs t = true →
    PermittedAll t vs (encList vs)
  | [], t, _ => .nil t
  | v :: vs, t, h => by
    simp [hasTyAll] at h
    exact .cons t v vs _ _ (permitted_enc v t h.1) (permittedAll_encList vs t h.2)
theorem permittedKV_encList : ∀ (kvs : List Val) (k v : Ty), hasTyKV true kvs k v = true →
    PermittedKV k v kvs (encList kvs)
  | [], k, v, _ => .nil k v
  | [x], k, v, h => by simp [hasTyKV] at h
  | x :: y :: kvs, k, v, h => by
    simp [hasTyKV] at h
    have := PermittedKV.cons k v x y kvs _ _ _ (permitted_enc x k h.1) (permitted_enc y v h.2.1)
      (permittedKV_encList kvs k v h.2.2)
    simpa [encList] using this
end

/-- the serializer's output is always among the permitted encodings, hence
(C03.1) always accepted by the decoder. -/
theorem dec_enc {v : Val} {t : Ty} (h : hasTy v t = true) (r : List Byte) :
    dec t (enc v ++ r) = .ok (v, r) :=
  dec_complete (permitted_enc v t h) r

/-! ## 3. the remainder never influences the result; unique decoding -/

theorem permitted_of_dec {t : Ty} {p r : List Byte} {v : Val}
    (h : dec t (p ++ r) = .ok (v, r)) : Permitted t v p := by
  obtain ⟨p', hb, hp⟩ := dec_sound t _ v r h
  rw [List.append_cancel_right hb]
  exact hp

/-- **C03.3** the bytes after the consumed prefix never influence the result. -/
theorem rest_irrelevant {t : Ty} {p r : List Byte} {v : Val}
    (h : dec t (p ++ r) = .ok (v, r)) : ∀ r', dec t (p ++ r') = .ok (v, r') :=
  dec_complete (permitted_of_dec h)

/-- the permitted byte strings of a type are prefix-free, and a byte string is
permitted for at most one value (unique decoding). -/
theorem permitted_prefix_free {t : Ty} {v v' : Val} {p p' : List Byte}
    (h : Permitted t v p) (h' : Permitted t v' p') (hpre : p <+: p') : p = p' ∧ v = v' := by
  obtain ⟨x, rfl⟩ := hpre
  have h1 := dec_complete h x
  have h2 := dec_complete h' []
  rw [List.append_nil, h1] at h2
  simp only [Except.ok.injEq, Prod.mk.injEq] at h2
  obtain ⟨rfl, rfl⟩ := h2
  simp

/-! ## 4. every strict prefix of a valid message fails with unexpected-end -/

theorem decVarint_trunc {bits n : Nat} {p : List Byte} (hb : WidthOk bits)
    (hp : PermittedVarint bits n p) {q : List Byte} (hq : q <+: p) (hne : q ≠ p) :
    decVarint bits q = .error .unexpectedEnd :=
  (decVarint_rest_irrelevant (decVarint_permitted hb hp [])).2 q hq hne

-- by recursion on the derivation
mutual
theorem permitted_trunc : ∀ {t : Ty} {v : Val} {p : List Byte}, Permitted t v p →
    ∀ q, q <+: p → q ≠ p → dec t q = .error .unexpectedEnd
  | _, _, _, .boolFalse, q, hq, hne => by rw [prefix_singleton hq hne]; simp [dec]
  | _, _, _, .boolTrue, q, hq, hne => by rw [prefix_singleton hq hne]; simp [dec]
  | _, _, _, .u8 b, q, hq, hne => by rw [prefix_singleton hq hne]; simp [dec]
  | _, _, _, .uN w n p hw hp, q, hq, hne => by
    rw [dec_uN hw, decVarint_trunc (IntW.widthOk hw) hp hq hne]
  | _, _, _, .i8 b, q, hq, hne => by rw [prefix_singleton hq hne]; simp [dec]
  | _, _, _, .iN w n p hw hp, q, hq, hne => by
    rw [dec_iN hw, decVarint_trunc (IntW.widthOk hw) hp hq hne]
  | _, _, _, .f32 bs hl, q, hq, hne => by
    have := prefix_length_lt hq hne
    simp only [dec]; rw [takeN_short (by omega)]
  | _, _, _, .f64 bs hl, q, hq, hne => by
    have := prefix_length_lt hq hne
    simp only [dec]; rw [takeN_short (by omega)]
  | _, _, _, .char c p hs hp, q, hq, hne => by
    have hle := utf8Encode_length_le c
    simp only [dec, decChar]
    rcases prefix_append_cases hq hne with ⟨h1, h2⟩ | ⟨q2, rfl, h1, h2⟩
    · rw [decVarint_trunc widthOk64 hp h1 h2]
    · rw [decVarint_permitted widthOk64 hp]
      simp only [Nat.not_lt.2 hle, if_false, takeN_short (prefix_length_lt h1 h2)]
  | _, _, _, .str s p hp hu, q, hq, hne => by
    simp only [dec]
    rcases prefix_append_cases hq hne with ⟨h1, h2⟩ | ⟨q2, rfl, h1, h2⟩
    · rw [decVarint_trunc widthOk64 hp h1 h2]
    · rw [decVarint_permitted widthOk64 hp]
      simp only [takeN_short (prefix_length_lt h1 h2)]
  | _, _, _, .bytes s p hp, q, hq, hne => by
    simp only [dec]
    rcases prefix_append_cases hq hne with ⟨h1, h2⟩ | ⟨q2, rfl, h1, h2⟩
    · rw [decVarint_trunc widthOk64 hp h1 h2]
    · rw [decVarint_permitted widthOk64 hp]
      simp only [takeN_short (prefix_length_lt h1 h2)]
  | _, _, _, .none t, q, hq, hne => by rw [prefix_singleton hq hne]; simp [dec]
  | _, _, _, .some t v p h, q, hq, hne => by
    rcases prefix_cons_cases hq hne with rfl | ⟨q2, rfl, h1, h2⟩
    · simp [dec]
    · simp [dec, permitted_trunc h q2 h1 h2]
  | _, _, _, .unit, q, hq, hne => absurd (List.prefix_nil.1 hq) hne
  | _, _, _, .unitStruct, q, hq, hne => absurd (List.prefix_nil.1 hq) hne
  | _, _, _, .newtypeStruct t v p h, q, hq, hne => by
    simp only [dec, permitted_trunc h q hq hne]
  | _, _, _, .seq t vs p p' hp hq', q, hq, hne => by
    simp only [dec]
    rcases prefix_append_cases hq hne with ⟨h1, h2⟩ | ⟨q2, rfl, h1, h2⟩
    · rw [decVarint_trunc widthOk64 hp h1 h2]
    · rw [decVarint_permitted widthOk64 hp]
      simp only [permittedAll_trunc hq' q2 h1 h2]
  | _, _, _, .tuple ts vs p h, q, hq, hne => by
    simp only [dec, permittedTuple_trunc h q hq hne]
  | _, _, _, .tupleStruct ts vs p h, q, hq, hne => by
    simp only [dec, permittedTuple_trunc h q hq hne]
  | _, _, _, .struct ts vs p h, q, hq, hne => by
    simp only [dec, permittedTuple_trunc h q hq hne]
  | _, _, _, .map k v kvs p p' hp hq', q, hq, hne => by
    simp only [dec]
    rcases prefix_append_cases hq hne with ⟨h1, h2⟩ | ⟨q2, rfl, h1, h2⟩
    · rw [decVarint_trunc widthOk64 hp h1 h2]
    · rw [decVarint_permitted widthOk64 hp]
      simp only [permittedKV_trunc hq' q2 h1 h2]
  | _, _, _, .enum vts idx vt v p p' hp hvt hq', q, hq, hne => by
    simp only [dec]
    rcases prefix_append_cases hq hne with ⟨h1, h2⟩ | ⟨q2, rfl, h1, h2⟩
    · rw [decVarint_trunc widthOk32 hp h1 h2]
    · rw [decVarint_permitted widthOk32 hp]
      simp only []
      rw [decVariant_some vts idx idx _ vt hvt]
      exact permittedVariant_trunc hq' q2 h1 h2
theorem permittedVariant_trunc : ∀ {vt : Ty} {idx : Nat} {v : Val} {p : List Byte},
    PermittedVariant vt idx v p →
    ∀ q, q <+: p → q ≠ p → decVariant [vt] 0 idx q = .error .unexpectedEnd
  | _, _, _, _, .unit idx, q, hq, hne => absurd (List.prefix_nil.1 hq) hne
  | _, _, _, _, .newtype t idx v p h, q, hq, hne => by
    simp only [decVariant, permitted_trunc h q hq hne]
  | _, _, _, _, .tuple ts idx vs p h, q, hq, hne => by
    simp only [decVariant, permittedTuple_trunc h q hq hne]
  | _, _, _, _, .struct ts idx vs p h, q, hq, hne => by
    simp only [decVariant, permittedTuple_trunc h q hq hne]
theorem permittedTuple_trunc : ∀ {ts : List Ty} {vs : List Val} {p : List Byte},
    PermittedTuple ts vs p → ∀ q, q <+: p → q ≠ p → decTuple ts q = .error .unexpectedEnd
  | _, _, _, .nil, q, hq, hne => absurd (List.prefix_nil.1 hq) hne
  | _, _, _, .cons t ts v vs p p' h1 h2, q, hq, hne => by
    simp only [decTuple]
    rcases prefix_append_cases hq hne with ⟨h3, h4⟩ | ⟨q2, rfl, h3, h4⟩
    · rw [permitted_trunc h1 q h3 h4]
    · rw [dec_complete h1 q2]
      simp only [permittedTuple_trunc h2 q2 h3 h4]
theorem permittedAll_trunc : ∀ {t : Ty} {vs : List Val} {p : List Byte},
    PermittedAll t vs p →
    ∀ q, q <+: p → q ≠ p → decN (dec t) vs.length q = .error .unexpectedEnd
  | _, _, _, .nil t, q, hq, hne => absurd (List.prefix_nil.1 hq) hne
  | _, _, _, .cons t v vs p p' h1 h2, q, hq, hne => by
    simp only [List.length_cons, decN]
    rcases prefix_append_cases hq hne with ⟨h3, h4⟩ | ⟨q2, rfl, h3, h4⟩
    · rw [permitted_trunc h1 q h3 h4]
    · rw [dec_complete h1 q2]
      simp only [permittedAll_trunc h2 q2 h3 h4]
theorem permittedKV_trunc : ∀ {k v : Ty} {kvs : List Val} {p : List Byte},
    PermittedKV k v kvs p →
    ∀ q, q <+: p → q ≠ p → decKV (dec k) (dec v) (kvs.length / 2) q = .error .unexpectedEnd
  | _, _, _, _, .nil k v, q, hq, hne => absurd (List.prefix_nil.1 hq) hne
  | _, _, _, _, .cons k v x y kvs p p' s h1 h2 h3, q, hq, hne => by
    have hl : (x :: y :: kvs).length / 2 = kvs.length / 2 + 1 := by
      simp only [List.length_cons]; omega
    rw [hl]
    simp only [decKV]
    rw [List.append_assoc] at hq hne
    rcases prefix_append_cases hq hne with ⟨h4, h5⟩ | ⟨q2, rfl, h4, h5⟩
    · rw [permitted_trunc h1 q h4 h5]
    · rw [dec_complete h1 q2]
      simp only []
      rcases prefix_append_cases h4 h5 with ⟨h6, h7⟩ | ⟨q3, rfl, h6, h7⟩
      · rw [permitted_trunc h2 q2 h6 h7]
      · rw [dec_complete h2 q3]
        simp only [permittedKV_trunc h3 q3 h6 h7]
end

/-- **C03.4** every strict prefix of a valid message fails with unexpected-end
(never with another error, never with a different value). -/
theorem strict_prefix_unexpected_end {t : Ty} {p r : List Byte} {v : Val}
    (h : dec t (p ++ r) = .ok (v, r)) :
    ∀ q, q <+: p → q ≠ p → dec t q = .error .unexpectedEnd :=
  permitted_trunc (permitted_of_dec h)

/-! ## 5. error kinds -/

/-- the errors the decoder can report. -/
def DecErr (e : Err) : Prop :=
  e = .unexpectedEnd ∨ e = .badVarint ∨ e = .badBool ∨ e = .badOption ∨ e = .badUtf8 ∨
  e = .badChar ∨ e = .wontImplement ∨ e = .custom

theorem DecErr.ofVarint {bits : Nat} {bs : List Byte} {e : Err}
    (h : decVarint bits bs = .error e) : DecErr e := by
  rcases decVarint_error_kinds h with rfl | rfl <;> simp [DecErr]

theorem DecErr.ofTakeN {n : Nat} {bs : List Byte} {e : Err}
    (h : takeN n bs = .error e) : DecErr e := by
  obtain ⟨rfl, _⟩ := takeN_error_iff.1 h; simp [DecErr]

theorem decN_error_kinds {f : List Byte → R (Val × List Byte)}
    (hf : ∀ bs e, f bs = .error e → DecErr e) :
    ∀ (n : Nat) (bs : List Byte) (e : Err), decN f n bs = .error e → DecErr e
  | 0, bs, e, h => by simp [decN] at h
  | n+1, bs, e, h => by
    simp only [decN] at h
    split at h
    · rename_i e' hd; cases h; exact hf _ _ hd
    · split at h
      · rename_i e' hd; cases h; exact decN_error_kinds hf n _ _ hd
      · cases h

theorem decKV_error_kinds {fk fv : List Byte → R (Val × List Byte)}
    (hk : ∀ bs e, fk bs = .error e → DecErr e) (hv : ∀ bs e, fv bs = .error e → DecErr e) :
    ∀ (n : Nat) (bs : List Byte) (e : Err), decKV fk fv n bs = .error e → DecErr e
  | 0, bs, e, h => by simp [decKV] at h
  | n+1, bs, e, h => by
    simp only [decKV] at h
    split at h
    · rename_i e' hd; cases h; exact hk _ _ hd
    · split at h
      · rename_i e' hd; cases h; exact hv _ _ hd
      · split at h
        · rename_i e' hd; cases h; exact decKV_error_kinds hk hv n _ _ hd
        · cases h

mutual
theorem dec_error_kinds : ∀ (t : Ty) (bs : List Byte) (e : Err), dec t bs = .error e → DecErr e
  | .bool, bs, e, h => by
    match bs, h with
    | [], h => simp only [dec] at h; cases h; simp [DecErr]
    | b :: bs', h =>
      simp only [dec] at h
      split at h
      · cases h
      · split at h
        · cases h
        · cases h; simp [DecErr]
  | .u w, bs, e, h => by
    by_cases hw : w = .w8
    · subst hw
      match bs, h with
      | [], h => simp only [dec] at h; cases h; simp [DecErr]
      | b :: bs', h => simp [dec] at h
    · rw [dec_uN hw] at h
      split at h
      · rename_i e' hd; cases h; exact .ofVarint hd
      · cases h
  | .i w, bs, e, h => by
    by_cases hw : w = .w8
    · subst hw
      match bs, h with
      | [], h => simp only [dec] at h; cases h; simp [DecErr]
      | b :: bs', h => simp [dec] at h
    · rw [dec_iN hw] at h
      split at h
      · rename_i e' hd; cases h; exact .ofVarint hd
      · cases h
  | .f32, bs, e, h => by
    simp only [dec] at h
    split at h
    · rename_i e' hd; cases h; exact .ofTakeN hd
    · cases h
  | .f64, bs, e, h => by
    simp only [dec] at h
    split at h
    · rename_i e' hd; cases h; exact .ofTakeN hd
    · cases h
  | .char, bs, e, h => by
    simp only [dec, decChar] at h
    split at h
    · rename_i e' hd; cases h; exact .ofVarint hd
    · split at h
      · cases h; simp [DecErr]
      · split at h
        · rename_i e' hd; cases h; exact .ofTakeN hd
        · split at h
          · split at h
            · cases h
            · cases h; simp [DecErr]
          · cases h; simp [DecErr]
  | .str, bs, e, h => by
    simp only [dec] at h
    split at h
    · rename_i e' hd; cases h; exact .ofVarint hd
    · split at h
      · rename_i e' hd; cases h; exact .ofTakeN hd
      · split at h
        · cases h
        · cases h; simp [DecErr]
  | .bytes, bs, e, h => by
    simp only [dec] at h
    split at h
    · rename_i e' hd; cases h; exact .ofVarint hd
    · split at h
      · rename_i e' hd; cases h; exact .ofTakeN hd
      · cases h
  | .option t, bs, e, h => by
    match bs, h with
    | [], h => simp only [dec] at h; cases h; simp [DecErr]
    | b :: bs', h =>
      simp only [dec] at h
      split at h
      · cases h
      · split at h
        · split at h
          · rename_i e' hd; cases h; exact dec_error_kinds t _ _ hd
          · cases h
        · cases h; simp [DecErr]
  | .unit, bs, e, h => by simp [dec] at h
  | .unitStruct, bs, e, h => by simp [dec] at h
  | .newtypeStruct t, bs, e, h => by
    simp only [dec] at h
    split at h
    · rename_i e' hd; cases h; exact dec_error_kinds t _ _ hd
    · cases h
  | .seq t, bs, e, h => by
    simp only [dec] at h
    split at h
    · rename_i e' hd; cases h; exact .ofVarint hd
    · split at h
      · rename_i e' hd; cases h; exact decN_error_kinds (dec_error_kinds t) _ _ _ hd
      · cases h
  | .tuple ts, bs, e, h => by
    simp only [dec] at h
    split at h
    · rename_i e' hd; cases h; exact decTuple_error_kinds ts _ _ hd
    · cases h
  | .tupleStruct ts, bs, e, h => by
    simp only [dec] at h
    split at h
    · rename_i e' hd; cases h; exact decTuple_error_kinds ts _ _ hd
    · cases h
  | .struct ts, bs, e, h => by
    simp only [dec] at h
    split at h
    · rename_i e' hd; cases h; exact decTuple_error_kinds ts _ _ hd
    · cases h
  | .map k v, bs, e, h => by
    simp only [dec] at h
    split at h
    · rename_i e' hd; cases h; exact .ofVarint hd
    · split at h
      · rename_i e' hd; cases h
        exact decKV_error_kinds (dec_error_kinds k) (dec_error_kinds v) _ _ _ hd
      · cases h
  | .enum vts, bs, e, h => by
    simp only [dec] at h
    split at h
    · rename_i e' hd; cases h; exact .ofVarint hd
    · exact decVariant_error_kinds vts _ _ _ _ h
  | .any, bs, e, h => by simp only [dec] at h; cases h; simp [DecErr]
  | .identifier, bs, e, h => by simp only [dec] at h; cases h; simp [DecErr]
  | .ignoredAny, bs, e, h => by simp only [dec] at h; cases h; simp [DecErr]
theorem decTuple_error_kinds : ∀ (ts : List Ty) (bs : List Byte) (e : Err),
    decTuple ts bs = .error e → DecErr e
  | [], bs, e, h => by simp [decTuple] at h
  | t :: ts, bs, e, h => by
    simp only [decTuple] at h
    split at h
    · rename_i e' hd; cases h; exact dec_error_kinds t _ _ hd
    · split at h
      · rename_i e' hd; cases h; exact decTuple_error_kinds ts _ _ hd
      · cases h
theorem decVariant_error_kinds : ∀ (vts : List Ty) (k idx : Nat) (bs : List Byte) (e : Err),
    decVariant vts k idx bs = .error e → DecErr e
  | [], k, idx, bs, e, h => by simp only [decVariant] at h; cases h; simp [DecErr]
  | vt :: rest, 0, idx, bs, e, h => by
    match vt, h with
    | .unit, h => simp [decVariant] at h
    | .newtypeStruct t, h =>
      simp only [decVariant] at h
      split at h
      · rename_i e' hd; cases h; exact dec_error_kinds t _ _ hd
      · cases h
    | .tuple ts, h =>
      simp only [decVariant] at h
      split at h
      · rename_i e' hd; cases h; exact decTuple_error_kinds ts _ _ hd
      · cases h
    | .struct ts, h =>
      simp only [decVariant] at h
      split at h
      · rename_i e' hd; cases h; exact decTuple_error_kinds ts _ _ hd
      · cases h
    | .bool, h | .u _, h | .i _, h | .f32, h | .f64, h | .char, h | .str, h | .bytes, h
    | .option _, h | .unitStruct, h | .seq _, h | .tupleStruct _, h | .map _ _, h | .enum _, h
    | .any, h | .identifier, h | .ignoredAny, h =>
      simp only [decVariant] at h; cases h; simp [DecErr]
  | _ :: rest, k+1, idx, bs, e, h => by
    simp only [decVariant] at h
    exact decVariant_error_kinds rest k idx bs e h
end

/-! ### first violated rule -/

theorem dec_bool_badBool_iff (b : Byte) (r : List Byte) :
    dec .bool (b :: r) = .error .badBool ↔ b ≠ 0 ∧ b ≠ 1 := by
  simp only [dec]
  by_cases h0 : b = 0 <;> by_cases h1 : b = 1 <;> simp [h0, h1]

/-- a tag byte other than 0/1 is always reported as `badOption` … -/
theorem dec_option_badOption (t : Ty) (b : Byte) (r : List Byte) (h0 : b ≠ 0) (h1 : b ≠ 1) :
    dec (.option t) (b :: r) = .error .badOption := by
  simp [dec, h0, h1]

/-- … and `badOption` is reported only for such a tag byte, here or in a nested
option.  (The unconditional `↔ b ≠ 0 ∧ b ≠ 1` is false: see the `example`.) -/
theorem dec_option_badOption_iff (t : Ty) (b : Byte) (r : List Byte) :
    dec (.option t) (b :: r) = .error .badOption ↔
      (b ≠ 0 ∧ b ≠ 1) ∨ (b = 1 ∧ dec t r = .error .badOption) := by
  simp only [dec]
  by_cases h0 : b = 0
  · subst h0; simp
  · by_cases h1 : b = 1
    · subst h1
      simp only [if_neg h0, if_true]
      cases hd : dec t r with
      | error e => simp
      | ok x => simp
    · simp [h0, h1]

example : dec (.option (.option .bool)) [1, 2] = .error .badOption := by rfl

/-- when the inner type cannot itself report `badOption` the simple form holds. -/
theorem dec_option_badOption_iff' (t : Ty) (b : Byte) (r : List Byte)
    (ht : dec t r ≠ .error .badOption) :
    dec (.option t) (b :: r) = .error .badOption ↔ b ≠ 0 ∧ b ≠ 1 := by
  rw [dec_option_badOption_iff]
  constructor
  · rintro (h | ⟨_, h⟩)
    · exact h
    · exact absurd h ht
  · exact .inl

/-- `badUtf8` ⇔ the length prefix is fine, enough bytes follow, and those bytes
are not valid UTF-8. -/
theorem dec_str_badUtf8_iff (bs : List Byte) :
    dec .str bs = .error .badUtf8 ↔
      ∃ sz r, decVarint 64 bs = .ok (sz, r) ∧ sz ≤ r.length ∧ utf8Valid (r.take sz) = false := by
  simp only [dec]
  cases hd : decVarint 64 bs with
  | error e =>
    have := decVarint_error_kinds hd
    constructor
    · intro h; simp only [Except.error.injEq] at h; subst h; rcases this with h | h <;> cases h
    · rintro ⟨_, _, h, _⟩; cases h
  | ok x =>
    obtain ⟨sz, r⟩ := x
    simp only [takeN]
    by_cases hl : r.length < sz
    · simp only [hl, if_true]
      constructor
      · intro h; cases h
      · rintro ⟨sz', r', h, h1, _⟩
        simp only [Except.ok.injEq, Prod.mk.injEq] at h
        obtain ⟨rfl, rfl⟩ := h
        omega
    · simp only [hl, if_false]
      cases hu : utf8Valid (List.take sz r) with
      | true =>
        constructor
        · intro h; simp at h
        · rintro ⟨sz', r', h, _, h2⟩
          simp only [Except.ok.injEq, Prod.mk.injEq] at h
          obtain ⟨rfl, rfl⟩ := h
          rw [hu] at h2; cases h2
      | false =>
        constructor
        · intro _; exact ⟨sz, r, rfl, by omega, hu⟩
        · intro _; simp

theorem exists_ok_pair {ε α β : Type} {a : α} {b : β} {Q : α → β → Prop} :
    (∃ a' b', (Except.ok (a, b) : Except ε (α × β)) = .ok (a', b') ∧ Q a' b') ↔ Q a b :=
  ⟨fun ⟨_, _, h, q⟩ => by cases h; exact q, fun q => ⟨a, b, rfl, q⟩⟩

/-- a byte string that is the UTF-8 encoding of exactly one scalar value. -/
def OneScalar (s : List Byte) : Prop := ∃ c, isScalar c = true ∧ s = utf8Encode c

theorem oneScalar_iff (s : List Byte) :
    OneScalar s ↔ utf8Valid s = true ∧ ∃ c, utf8Next s = some (c, []) := by
  constructor
  · rintro ⟨c, hs, rfl⟩
    exact ⟨utf8Valid_encode hs, c, utf8Next_encode_nil hs⟩
  · rintro ⟨_, c, hn⟩
    obtain ⟨hs, he⟩ := utf8Next_sound hn
    exact ⟨c, hs, by simpa using he⟩

/-- `badChar` ⇔ the length prefix is fine and either it exceeds 4, or enough
bytes follow and they are not the UTF-8 encoding of exactly one scalar. -/
theorem dec_char_badChar_iff (bs : List Byte) :
    dec .char bs = .error .badChar ↔
      ∃ sz r, decVarint 64 bs = .ok (sz, r) ∧
        (sz > 4 ∨ (sz ≤ r.length ∧ ¬ OneScalar (r.take sz))) := by
  simp only [dec, decChar]
  cases hd : decVarint 64 bs with
  | error e =>
    have := decVarint_error_kinds hd
    constructor
    · intro h; simp only [Except.error.injEq] at h; subst h; rcases this with h | h <;> cases h
    · rintro ⟨_, _, h, _⟩; cases h
  | ok x =>
    obtain ⟨sz, r⟩ := x
    refine Iff.trans ?_ exists_ok_pair.symm
    simp only []
    by_cases h4 : sz > 4
    · simp [h4]
    · simp only [h4, if_false, takeN, false_or]
      by_cases hl : r.length < sz
      · simp only [hl, if_true]
        constructor
        · intro h; cases h
        · rintro ⟨h, _⟩; omega
      · simp only [hl, if_false]
        rw [oneScalar_iff]
        have hle : sz ≤ r.length := by omega
        cases hu : utf8Valid (List.take sz r) with
        | false => simp [hle]
        | true =>
          simp only [if_true, hle, true_and]
          constructor
          · rintro h ⟨c, hc⟩; rw [hc] at h; cases h
          · intro h
            split
            · rename_i c hc; exact absurd ⟨c, hc⟩ h
            · rfl

/-- `badVarint` ⇔ over-long (the maximum number of bytes all carry the
continuation flag) or over-range (terminated in time but the value does not fit
the width). -/
theorem decVarint_badVarint_iff {bits : Nat} (hb : WidthOk bits) (bs : List Byte) :
    decVarint bits bs = .error .badVarint ↔
      (∃ q x, bs = q ++ x ∧ AllCont q ∧ q.length = varintMax bits) ∨
      (∃ q l r, bs = q ++ l :: r ∧ AllCont q ∧ l.toNat < 128 ∧ q.length < varintMax bits ∧
        2 ^ bits ≤ varintValue (q ++ [l])) := by
  constructor
  · intro h
    have overlong : ∀ q x : List Byte, bs = q ++ x → AllCont q → varintMax bits ≤ q.length →
        ∃ q x, bs = q ++ x ∧ AllCont q ∧ q.length = varintMax bits := by
      intro q x hbs hq hlen
      refine ⟨q.take (varintMax bits), q.drop (varintMax bits) ++ x, ?_, ?_, ?_⟩
      · rw [← List.append_assoc, List.take_append_drop]; exact hbs
      · intro b hb'; exact hq b (List.mem_of_mem_take hb')
      · simp; omega
    rcases cont_split bs with hc | ⟨q, l, r, rfl, hq, hl⟩
    · by_cases hlen : bs.length < varintMax bits
      · rw [decVarint_truncated hc hlen] at h; cases h
      · exact .inl (overlong bs [] (by simp) hc (by omega))
    · by_cases hlen : q.length < varintMax bits
      · rw [decVarint_terminated r hq hl hlen] at h
        split at h
        · rename_i hbad
          have : ¬ varintValue (q ++ [l]) < 2 ^ bits :=
            fun hlt => (value_lt_iff hb hl hlen).1 hlt hbad
          exact .inr ⟨q, l, r, rfl, hq, hl, hlen, by omega⟩
        · cases h
      · exact .inl (overlong q (l :: r) rfl hq (by omega))
  · rintro (⟨q, x, rfl, hq, hlen⟩ | ⟨q, l, r, rfl, hq, hl, hlen, hv⟩)
    · exact decVarint_overlong x hq (by omega)
    · rw [decVarint_terminated r hq hl hlen, if_pos]
      exact Decidable.byContradiction fun hnb =>
        absurd ((value_lt_iff hb hl hlen).2 hnb) (by omega)

theorem dec_uN_badVarint_iff {w : IntW} (hw : w ≠ .w8) (bs : List Byte) :
    dec (.u w) bs = .error .badVarint ↔ decVarint w.bits bs = .error .badVarint := by
  rw [dec_uN hw]
  cases decVarint w.bits bs with
  | error e => simp
  | ok x => simp

theorem dec_iN_badVarint_iff {w : IntW} (hw : w ≠ .w8) (bs : List Byte) :
    dec (.i w) bs = .error .badVarint ↔ decVarint w.bits bs = .error .badVarint := by
  rw [dec_iN hw]
  cases decVarint w.bits bs with
  | error e => simp
  | ok x => simp

/-- `unexpectedEnd` for a varint-encoded integer ⇔ the input ends inside the
continuation bytes. -/
theorem dec_uN_unexpectedEnd_iff {w : IntW} (hw : w ≠ .w8) (bs : List Byte) :
    dec (.u w) bs = .error .unexpectedEnd ↔
      (∀ b ∈ bs, 128 ≤ b.toNat) ∧ bs.length < varintMax w.bits := by
  rw [← decVarint_unexpectedEnd_iff, dec_uN hw]
  cases decVarint w.bits bs with
  | error e => simp
  | ok x => simp

/-! ## 6. non-vacuity: rows of the specification's Canonicalization table -/

example : dec (.u .w16) [0x00] = .ok (.u .w16 0, []) := by rfl
example : dec (.u .w16) [0x80, 0x00] = .ok (.u .w16 0, []) := by rfl
example : dec (.u .w16) [0x80, 0x80, 0x00] = .ok (.u .w16 0, []) := by rfl
example : dec (.u .w16) [0x80, 0x80, 0x80, 0x00] = .error .badVarint := by rfl
example : dec (.u .w16) [0xFF, 0xFF, 0x03] = .ok (.u .w16 65535, []) := by rfl
example : dec (.u .w16) [0xFF, 0xFF, 0x07] = .error .badVarint := by rfl
example : dec (.u .w16) [0xFF, 0xFF, 0x83, 0x00] = .error .badVarint := by rfl
-- a char must be exactly one scalar
example : dec .char [1, 0x61] = .ok (.char 0x61, []) := by rfl
example : dec .char [2, 0x61, 0x62] = .error .badChar := by rfl
example : dec .char [5, 0x61, 0x62, 0x63, 0x64, 0x65] = .error .badChar := by rfl
example : dec .char [0] = .error .badChar := by rfl
-- strict prefixes of a valid message
example : dec (.tuple [.str, .u .w16]) [2, 0x68, 0x69, 0x80, 0x01] =
    .ok (.tuple [.str [0x68, 0x69], .u .w16 128], []) := by rfl
example : dec (.tuple [.str, .u .w16]) [2, 0x68, 0x69, 0x80] = .error .unexpectedEnd := by rfl
example : dec (.tuple [.str, .u .w16]) [2, 0x68] = .error .unexpectedEnd := by rfl
example : dec (.tuple [.str, .u .w16]) [] = .error .unexpectedEnd := by rfl
-- the remainder is handed back untouched
example : dec (.option .bool) [1, 1, 0xAA, 0xBB] = .ok (.some (.bool true), [0xAA, 0xBB]) := by rfl
-- the general theorems instantiated
example : Permitted (.u .w16) (.u .w16 0) [0x80, 0x00] :=
  permitted_of_dec (r := []) (by rfl)
example : dec .bool [2] = .error .badBool := (dec_bool_badBool_iff 2 []).2 (by decide)

-- TODO: nothing left open in this file.
-- Deviation from the statement as first written: `dec (.option t) (b :: r) = .error .badOption
-- ↔ b ≠ 0 ∧ b ≠ 1` is false for nested options (`dec (.option (.option .bool)) [1, 2]`);
-- the true forms are `dec_option_badOption`, `dec_option_badOption_iff`, `dec_option_badOption_iff'`.

end Postcard
