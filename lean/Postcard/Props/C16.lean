import Postcard.Lemmas.Fnv
/-
  Postcard.Props.C16 — schema dispatch keys
  (source/postcard-schema/src/key/hash.rs, key/mod.rs).

  PROPERTY TEXT (C16).  "The key of (path, schema) is the 8 little-endian bytes
  of the 64-bit FNV-1a hash of the path bytes followed by the documented
  tag-and-name stream of the schema tree.  The const (borrowed) hasher and the
  owned-schema hasher produce the same key for corresponding schemas.  Struct /
  enum type names do not influence the key.  Keys change when the path, a field
  or variant name, the order of fields or variants, or any element kind
  changes."

  WHAT IS PROVED HERE (all for arbitrary paths / schema trees, no sampling):
  * `hash_eq_spec`, `hash_eq_spec_owned`, `hashers_agree`  — sentences 1, 2.
  * `type_name_irrelevant*`                                — sentence 3.
  * Sentence 4 is FALSE as a universal statement, for two independent reasons:
      (i)  pigeonhole: 2^64 keys, infinitely many (path, schema) pairs;
      (ii) already the *stream* is not injective, because names and child
           lists are emitted without framing: see `stream_collision_*` below
           for concrete pairs of different schemas (one pair with different
           wire formats) that get the same key under EVERY path.
    What is proved instead (`key_sensitive_partial` and the corollaries of
    `single_byte_sensitive`): the key is an injective rendering (`u64le`) of
    the FNV-1a state of the stream; the FNV-1a round is a bijection on states
    and injective in the byte; hence any change that alters exactly ONE byte of
    `path ++ stream` at a fixed position (one path byte, one byte of a field or
    variant name, one leaf kind replaced by another leaf kind, anywhere in the
    tree) changes the key — with certainty, not just with probability
    1 - 2^-64.  Changes that alter two or more bytes, or the length (reordering
    fields, inserting / deleting a field, composite kinds), are only shown to
    change the STREAM under stated side conditions (`swap_*_stream_ne`,
    `path_change_stream_ne`); that the KEY then changes is NOT proved (and is
    not true in general) — those cases are sampled by the differential harness
    against the Rust crate only.
-/
namespace Postcard
open Spec

/-! ## 1. model hashers = specification; the two copies agree -/

/-- State-level form: each tree hasher folds FNV-1a over the spec stream. -/
theorem hashSdmType_eq_stream (st : UInt64) (s : Schema) :
    hashSdmType st s = hashUpdate st (Spec.stream s) ∧
    hashSdmTypeOwned st s = hashUpdate st (Spec.stream s) :=
  ⟨hashSdmType_eq st s, hashSdmTypeOwned_eq st s⟩

/-- `hash_update` is a left fold: absorbing `xs ++ ys` = absorbing `xs` then `ys`. -/
theorem hashUpdate_append' (st : UInt64) (xs ys : List Byte) :
    hashUpdate st (xs ++ ys) = hashUpdate (hashUpdate st xs) ys :=
  hashUpdate_append st xs ys

/-- `Key::for_path` computes the specified key. -/
theorem hash_eq_spec (path : List Byte) (s : Schema) :
    hashTyPath path s = Spec.key path s := by
  simp [hashTyPath, hashUpdateStr, Spec.key, Spec.fnv1a, hashSdmType_eq,
    hashUpdate_eq_fnv1aFrom, FNV_BASIS_eq, u64le_eq_le64, fnv1aFrom_append]

/-- `Key::for_owned_schema_path` computes the specified key. -/
theorem hash_eq_spec_owned (path : List Byte) (s : Schema) :
    hashTyPathOwned path s = Spec.key path s := by
  simp [hashTyPathOwned, hashUpdateStr, Spec.key, Spec.fnv1a, hashSdmTypeOwned_eq,
    hashUpdate_eq_fnv1aFrom, FNV_BASIS_eq, u64le_eq_le64, fnv1aFrom_append]

/-- The two hand-duplicated Rust hashers agree on every path and every schema
tree (`OwnedDataModelType::from(&DataModelType)` is the identity on the shared
tree type of the model). -/
theorem hashers_agree (path : List Byte) (s : Schema) :
    hashTyPath path s = hashTyPathOwned path s := by
  rw [hash_eq_spec, hash_eq_spec_owned]

/-! ## 2. type names are irrelevant -/

theorem type_name_irrelevant_struct (n n' : Name) (d : SData) :
    Spec.stream (.struct n d) = Spec.stream (.struct n' d) := by
  simp [Spec.stream]

theorem type_name_irrelevant_enum (n n' : Name) (vs : List SVariant) :
    Spec.stream (.enum n vs) = Spec.stream (.enum n' vs) := by
  simp [Spec.stream]

/-- … at any depth: the stream does not see `eraseTypeNames`. -/
theorem type_name_irrelevant_stream (s : Schema) :
    Spec.stream (eraseTypeNames s) = Spec.stream s :=
  stream_eraseTypeNames s

/-- Changing struct / enum type names anywhere in the tree does not change the
key (either hasher). -/
theorem type_name_irrelevant (p : List Byte) (s : Schema) :
    hashTyPath p s = hashTyPath p (eraseTypeNames s) ∧
    hashTyPathOwned p s = hashTyPathOwned p (eraseTypeNames s) := by
  simp [hash_eq_spec, hash_eq_spec_owned, Spec.key, stream_eraseTypeNames]

/-- Two trees that differ only in type names have the same key. -/
theorem type_name_irrelevant' (p : List Byte) (s s' : Schema)
    (h : eraseTypeNames s = eraseTypeNames s') : hashTyPath p s = hashTyPath p s' := by
  rw [(type_name_irrelevant p s).1, (type_name_irrelevant p s').1, h]

/-- … and in any one-hole context, directly. -/
theorem type_name_irrelevant_in_context (p : List Byte) (c : Ctx) (n n' : Name) (d : SData)
    (vs : List SVariant) :
    hashTyPath p (plug c (.struct n d)) = hashTyPath p (plug c (.struct n' d)) ∧
    hashTyPath p (plug c (.enum n vs)) = hashTyPath p (plug c (.enum n' vs)) := by
  simp [hash_eq_spec, Spec.key, stream_plug, Spec.stream]

/-! ## 3. the FNV-1a round -/

/-- `step h b := (h ^^^ b) * prime` is injective in the state for a fixed byte
and injective in the byte for a fixed state. -/
theorem fnv_step_injective :
    (∀ (b : Byte) (h h' : UInt64), Spec.fnvStep h b = Spec.fnvStep h' b → h = h') ∧
    (∀ (h : UInt64) (b b' : Byte), Spec.fnvStep h b = Spec.fnvStep h b' → b = b') :=
  ⟨fun _ _ _ e => fnvStep_inj_state e, fun _ _ _ e => fnvStep_inj_byte e⟩

/-- `hashUpdate` (= Rust `hash_update`) has the same two properties. -/
theorem hashUpdate_step_injective :
    (∀ (b : Byte) (h h' : UInt64), hashUpdate h [b] = hashUpdate h' [b] → h = h') ∧
    (∀ (h : UInt64) (b b' : Byte), hashUpdate h [b] = hashUpdate h [b'] → b = b') := by
  simp only [hashUpdate_single]
  exact fnv_step_injective

/-! ## 4. single-byte sensitivity -/

/-- Two byte streams that differ in exactly one position have different
FNV-1a hashes (`pre ++ [a] ++ post` formulation, any start state). -/
theorem single_byte_sensitive_from (h : UInt64) (pre post : List Byte) (a b : Byte)
    (hab : a ≠ b) :
    Spec.fnv1aFrom h (pre ++ [a] ++ post) ≠ Spec.fnv1aFrom h (pre ++ [b] ++ post) :=
  fnv1aFrom_ne_of_diff1 h ⟨pre, a, b, post, hab, by simp, by simp⟩

/-- Index formulation. -/
theorem single_byte_sensitive (xs ys : List Byte) (hlen : xs.length = ys.length)
    (hd : ∃ i : Nat, xs[i]? ≠ ys[i]? ∧ ∀ j : Nat, j ≠ i → xs[j]? = ys[j]?) :
    Spec.fnv1a xs ≠ Spec.fnv1a ys :=
  fnv1aFrom_ne_of_diff1 _ (diff1_of_index xs ys hlen hd)

/-- … hence different 8-byte digests. -/
theorem single_byte_sensitive_digest (xs ys : List Byte) (hlen : xs.length = ys.length)
    (hd : ∃ i : Nat, xs[i]? ≠ ys[i]? ∧ ∀ j : Nat, j ≠ i → xs[j]? = ys[j]?) :
    u64le (Spec.fnv1a xs) ≠ u64le (Spec.fnv1a ys) :=
  fun e => single_byte_sensitive xs ys hlen hd (u64le_inj e)

/-- Key form used by all corollaries: if the streams of `s` and `s'` differ in
exactly one byte then `s` and `s'` get different keys under every path — and so
do `c[s]`, `c[s']` for every one-hole context `c`. -/
theorem key_ne_of_stream_diff1 (p : List Byte) (c : Ctx) {s s' : Schema}
    (h : Diff1 (Spec.stream s) (Spec.stream s')) :
    hashTyPath p (plug c s) ≠ hashTyPath p (plug c s') := by
  rw [hash_eq_spec, hash_eq_spec]
  intro e
  have d : Diff1 (p ++ Spec.stream (plug c s)) (p ++ Spec.stream (plug c s')) := by
    simpa using (diff1_plug c h).wrap p []
  exact fnv1aFrom_ne_of_diff1 _ d (le64_inj e)

/-! ### corollaries -/

/-- Changing one byte of the path changes the key. -/
theorem path_byte_sensitive (pre post : List Byte) (a b : Byte) (hab : a ≠ b) (s : Schema) :
    hashTyPath (pre ++ [a] ++ post) s ≠ hashTyPath (pre ++ [b] ++ post) s := by
  rw [hash_eq_spec, hash_eq_spec]
  intro e
  have d : Diff1 (pre ++ [a] ++ post ++ Spec.stream s) (pre ++ [b] ++ post ++ Spec.stream s) :=
    ⟨pre, a, b, post ++ Spec.stream s, hab, by simp, by simp⟩
  exact fnv1aFrom_ne_of_diff1 _ d (le64_inj e)

/-- The 33 tags are pairwise distinct. -/
theorem tags_pairwise_distinct : (Spec.Kind.all.map Spec.tag).Nodup := by decide

/-- `Kind.all` really lists every kind. -/
theorem kind_all_complete (k : Spec.Kind) : k ∈ Spec.Kind.all := by
  cases k <;> decide

/-- The 20 leaf tags are pairwise distinct. -/
theorem leaf_tags_pairwise_distinct :
    (LeafKind.all.map (fun l => Spec.tag l.kind)).Nodup := by decide

theorem leaf_all_complete (l : LeafKind) : l ∈ LeafKind.all := by
  cases l <;> decide

theorem leaf_tag_injective {l l' : LeafKind} (h : Spec.tag l.kind = Spec.tag l'.kind) :
    l = l' :=
  LeafKind.kind_injective (tag_injective h)

/-- Replacing one leaf element kind by a different leaf element kind, at any
position in the tree, changes the key. -/
theorem leaf_kind_sensitive (p : List Byte) (c : Ctx) (l l' : LeafKind) (hne : l ≠ l') :
    hashTyPath p (plug c l.toSchema) ≠ hashTyPath p (plug c l'.toSchema) := by
  apply key_ne_of_stream_diff1
  rw [LeafKind.stream_toSchema, LeafKind.stream_toSchema]
  exact ⟨[], _, _, [], fun e => hne (leaf_tag_injective e), rfl, rfl⟩

/-- Changing one byte of the name of one field of a struct (at any position in
the tree) changes the key. -/
theorem field_name_byte_sensitive (p : List Byte) (c : Ctx) (n : Name)
    (fpre fpost : List SField) (npre npost : List Byte) (a b : Byte) (hab : a ≠ b)
    (ty : Schema) :
    hashTyPath p (plug c (.struct n (.struct (fpre ++ [.mk (npre ++ [a] ++ npost) ty] ++ fpost))))
    ≠ hashTyPath p (plug c (.struct n (.struct (fpre ++ [.mk (npre ++ [b] ++ npost) ty] ++ fpost))))
    := by
  apply key_ne_of_stream_diff1
  refine ⟨Spec.tag .structStruct :: (Spec.streamFields fpre ++ npre), a, b,
    npost ++ Spec.stream ty ++ Spec.streamFields fpost, hab, ?_, ?_⟩ <;>
  simp [Spec.stream, Spec.streamStructData, streamFields_append, Spec.streamFields,
    Spec.streamField]

/-- Changing one byte of the name of one variant of an enum changes the key. -/
theorem variant_name_byte_sensitive (p : List Byte) (c : Ctx) (n : Name)
    (vpre vpost : List SVariant) (npre npost : List Byte) (a b : Byte) (hab : a ≠ b)
    (d : SData) :
    hashTyPath p (plug c (.enum n (vpre ++ [.mk (npre ++ [a] ++ npost) d] ++ vpost)))
    ≠ hashTyPath p (plug c (.enum n (vpre ++ [.mk (npre ++ [b] ++ npost) d] ++ vpost))) := by
  apply key_ne_of_stream_diff1
  refine ⟨Spec.tag .enum :: (Spec.streamVariants vpre ++ npre), a, b,
    npost ++ Spec.streamVariantData d ++ Spec.streamVariants vpost, hab, ?_, ?_⟩ <;>
  simp [Spec.stream, streamVariants_append, Spec.streamVariants, Spec.streamVariant]

/-- Changing one byte of the name of one field of a struct-like variant changes
the key. -/
theorem variant_field_name_byte_sensitive (p : List Byte) (c : Ctx) (n vn : Name)
    (vpre vpost : List SVariant) (fpre fpost : List SField) (npre npost : List Byte)
    (a b : Byte) (hab : a ≠ b) (ty : Schema) :
    hashTyPath p (plug c (.enum n (vpre ++
      [.mk vn (.struct (fpre ++ [.mk (npre ++ [a] ++ npost) ty] ++ fpost))] ++ vpost)))
    ≠ hashTyPath p (plug c (.enum n (vpre ++
      [.mk vn (.struct (fpre ++ [.mk (npre ++ [b] ++ npost) ty] ++ fpost))] ++ vpost))) := by
  apply key_ne_of_stream_diff1
  refine ⟨Spec.tag .enum :: (Spec.streamVariants vpre ++ vn ++
      Spec.tag .variantStruct :: (Spec.streamFields fpre ++ npre)), a, b,
    npost ++ Spec.stream ty ++ Spec.streamFields fpost ++ Spec.streamVariants vpost,
    hab, ?_, ?_⟩ <;>
  simp [Spec.stream, streamVariants_append, Spec.streamVariants, Spec.streamVariant,
    Spec.streamVariantData, streamFields_append, Spec.streamFields, Spec.streamField]

/-! ## 5. the sensitivity claim: what holds, what does not

FULL CLAIM (property text, NOT a theorem — false by pigeonhole and by the
`stream_collision_*` counterexamples below):

    ∀ p p' s s', (p, s) and (p', s') differ in the path, in a field or variant
    name, in the order of fields or variants, or in an element kind
      → hashTyPath p s ≠ hashTyPath p' s'.
-/

theorem append_swap_ne {A B : List Byte} {i : Nat} {a b : Byte}
    (hA : A[i]? = some a) (hB : B[i]? = some b) (hab : a ≠ b) : A ++ B ≠ B ++ A := by
  intro e
  obtain ⟨hiA, _⟩ := List.getElem?_eq_some_iff.mp hA
  obtain ⟨hiB, _⟩ := List.getElem?_eq_some_iff.mp hB
  have h1 : (A ++ B)[i]? = some a := by rw [List.getElem?_append_left hiA]; exact hA
  have h2 : (B ++ A)[i]? = some b := by rw [List.getElem?_append_left hiB]; exact hB
  rw [e, h2] at h1
  exact hab (Option.some.inj h1).symm

theorem append_swap_ne_of_length_eq {A B : List Byte} (hl : A.length = B.length)
    (hne : A ≠ B) : A ++ B ≠ B ++ A :=
  fun e => hne (List.append_inj e hl).1

/-- Plugging into a context is injective on streams (same prefix, same suffix). -/
theorem stream_plug_inj (p : List Byte) (c : Ctx) {s s' : Schema}
    (h : p ++ Spec.stream (plug c s) = p ++ Spec.stream (plug c s')) :
    Spec.stream s = Spec.stream s' := by
  rw [stream_plug, stream_plug] at h
  have h1 := List.append_cancel_left h
  have h2 := List.append_cancel_right h1
  exact List.append_cancel_left h2

/-- (a) Swapping two adjacent fields `f`, `g` of a struct changes the hashed
STREAM whenever the streams of `f` and `g` disagree at some common position
(e.g. their names start with different bytes), or have equal length and are
different.  (That the KEY changes is not claimed.) -/
theorem swap_fields_stream_ne (p : List Byte) (c : Ctx) (n : Name) (fpre fpost : List SField)
    (f g : SField)
    (h : (∃ (i : Nat) (a b : Byte), (Spec.streamField f)[i]? = some a ∧
            (Spec.streamField g)[i]? = some b ∧ a ≠ b) ∨
         ((Spec.streamField f).length = (Spec.streamField g).length ∧
            Spec.streamField f ≠ Spec.streamField g)) :
    p ++ Spec.stream (plug c (.struct n (.struct (fpre ++ [f, g] ++ fpost)))) ≠
    p ++ Spec.stream (plug c (.struct n (.struct (fpre ++ [g, f] ++ fpost)))) := by
  intro e
  have e' := stream_plug_inj p c e
  simp [Spec.stream, Spec.streamStructData, streamFields_append, Spec.streamFields] at e'
  have e'' := List.append_cancel_right (by simpa [List.append_assoc] using e' :
    (Spec.streamField f ++ Spec.streamField g) ++ Spec.streamFields fpost =
    (Spec.streamField g ++ Spec.streamField f) ++ Spec.streamFields fpost)
  rcases h with ⟨i, a, b, hA, hB, hab⟩ | ⟨hl, hne⟩
  · exact append_swap_ne hA hB hab e''
  · exact append_swap_ne_of_length_eq hl hne e''

/-- (a') the same for two adjacent variants of an enum. -/
theorem swap_variants_stream_ne (p : List Byte) (c : Ctx) (n : Name)
    (vpre vpost : List SVariant) (v w : SVariant)
    (h : (∃ (i : Nat) (a b : Byte), (Spec.streamVariant v)[i]? = some a ∧
            (Spec.streamVariant w)[i]? = some b ∧ a ≠ b) ∨
         ((Spec.streamVariant v).length = (Spec.streamVariant w).length ∧
            Spec.streamVariant v ≠ Spec.streamVariant w)) :
    p ++ Spec.stream (plug c (.enum n (vpre ++ [v, w] ++ vpost))) ≠
    p ++ Spec.stream (plug c (.enum n (vpre ++ [w, v] ++ vpost))) := by
  intro e
  have e' := stream_plug_inj p c e
  simp [Spec.stream, streamVariants_append, Spec.streamVariants] at e'
  have e'' := List.append_cancel_right (by simpa [List.append_assoc] using e' :
    (Spec.streamVariant v ++ Spec.streamVariant w) ++ Spec.streamVariants vpost =
    (Spec.streamVariant w ++ Spec.streamVariant v) ++ Spec.streamVariants vpost)
  rcases h with ⟨i, a, b, hA, hB, hab⟩ | ⟨hl, hne⟩
  · exact append_swap_ne hA hB hab e''
  · exact append_swap_ne_of_length_eq hl hne e''

/-- (b) Changing the path (in any way) while keeping the schema changes the
hashed stream. -/
theorem path_change_stream_ne (p p' : List Byte) (s : Schema) (h : p ≠ p') :
    p ++ Spec.stream s ≠ p' ++ Spec.stream s :=
  fun e => h (List.append_cancel_right e)

/-- PARTIAL form of the sensitivity claim.
 1. the key is a function of the stream `path ++ Spec.stream s` only;
 2. the 8-byte rendering is injective, so keys differ iff FNV-1a states differ;
 3. keys differ whenever the two streams have equal length and differ in
    exactly one byte. -/
theorem key_sensitive_partial :
    (∀ p s p' s', p ++ Spec.stream s = p' ++ Spec.stream s' →
        hashTyPath p s = hashTyPath p' s') ∧
    (∀ x y : UInt64, u64le x = u64le y → x = y) ∧
    (∀ p s p' s', hashTyPath p s = hashTyPath p' s' ↔
        Spec.fnv1a (p ++ Spec.stream s) = Spec.fnv1a (p' ++ Spec.stream s')) ∧
    (∀ p s p' s',
        (p ++ Spec.stream s).length = (p' ++ Spec.stream s').length →
        (∃ i : Nat, (p ++ Spec.stream s)[i]? ≠ (p' ++ Spec.stream s')[i]? ∧
            ∀ j : Nat, j ≠ i → (p ++ Spec.stream s)[j]? = (p' ++ Spec.stream s')[j]?) →
        hashTyPath p s ≠ hashTyPath p' s') := by
  refine ⟨?_, fun _ _ => u64le_inj, ?_, ?_⟩
  · intro p s p' s' h
    simp [hash_eq_spec, Spec.key, h]
  · intro p s p' s'
    simp only [hash_eq_spec, Spec.key]
    exact ⟨le64_inj, fun h => by rw [h]⟩
  · intro p s p' s' hl hd e
    simp only [hash_eq_spec, Spec.key] at e
    exact single_byte_sensitive _ _ hl hd (le64_inj e)

/-! ### counterexamples to the full claim (stream collisions, independent of FNV) -/

/-- Names are not framed: `struct A { a: Option<u8> }` and `struct B { am: u8 }`
(`'m'` = 0x6D = the `Option` tag) have the same stream, hence the same key under
every path — although their postcard wire formats differ. -/
theorem stream_collision_name_framing :
    Spec.stream (.struct [0x41] (.struct [.mk [0x61] (.option .u8)])) =
    Spec.stream (.struct [0x42] (.struct [.mk [0x61, 0x6D] .u8])) := by decide

theorem key_collision_name_framing (p : List Byte) :
    hashTyPath p (.struct [0x41] (.struct [.mk [0x61] (.option .u8)])) =
    hashTyPath p (.struct [0x42] (.struct [.mk [0x61, 0x6D] .u8])) :=
  key_sensitive_partial.1 _ _ _ _ (by rw [stream_collision_name_framing])

/-- Child lists are not framed: `((bool,), bool)` and `((bool, bool),)`. -/
theorem stream_collision_tuple_framing :
    Spec.stream (.tuple [.tuple [.bool], .bool]) = Spec.stream (.tuple [.tuple [.bool, .bool]]) := by
  decide

/-- Field order: `struct { x: usize, xkx: usize }` vs `struct { xkx: usize, x: usize }`
(`'k'` = 0x6B = the `Usize` tag): swapping the two fields leaves the stream, hence
the key, unchanged.  So the side condition of `swap_fields_stream_ne` cannot be
dropped. -/
theorem stream_collision_field_order :
    Spec.stream (.struct [] (.struct [.mk [0x78] .usize, .mk [0x78, 0x6B, 0x78] .usize])) =
    Spec.stream (.struct [] (.struct [.mk [0x78, 0x6B, 0x78] .usize, .mk [0x78] .usize])) := by
  decide

/-! ## 6. tag tables -/

/-- Both model hashers use the spec tag in every arm: 20 leaf kinds, 5 composite
`DataModelType` kinds with a tag of their own (`Struct` delegates to
`hash_struct`), 4 struct-data kinds, 4 variant-data kinds. -/
theorem tags_agree (st : UInt64) :
    -- leaves
    (∀ l : LeafKind,
      hashSdmType st l.toSchema = hashUpdate st [Spec.tag l.kind] ∧
      hashSdmTypeOwned st l.toSchema = hashUpdate st [Spec.tag l.kind]) ∧
    -- Option, Seq, Tuple, Map, Enum
    (∀ t, hashSdmType st (.option t) = hashSdmType (hashUpdate st [Spec.tag .option]) t ∧
      hashSdmTypeOwned st (.option t) = hashSdmTypeOwned (hashUpdate st [Spec.tag .option]) t) ∧
    (∀ t, hashSdmType st (.seq t) = hashSdmType (hashUpdate st [Spec.tag .seq]) t ∧
      hashSdmTypeOwned st (.seq t) = hashSdmTypeOwned (hashUpdate st [Spec.tag .seq]) t) ∧
    (∀ ts, hashSdmType st (.tuple ts) = hashSdmTypeList (hashUpdate st [Spec.tag .tuple]) ts ∧
      hashSdmTypeOwned st (.tuple ts) =
        hashSdmTypeOwnedList (hashUpdate st [Spec.tag .tuple]) ts) ∧
    (∀ k v, hashSdmType st (.map k v) =
        hashSdmType (hashSdmType (hashUpdate st [Spec.tag .map]) k) v ∧
      hashSdmTypeOwned st (.map k v) =
        hashSdmTypeOwned (hashSdmTypeOwned (hashUpdate st [Spec.tag .map]) k) v) ∧
    (∀ n vs, hashSdmType st (.enum n vs) = hashVariantList (hashUpdate st [Spec.tag .enum]) vs ∧
      hashSdmTypeOwned st (.enum n vs) =
        hashVariantOwnedList (hashUpdate st [Spec.tag .enum]) vs) ∧
    -- Struct delegates
    (∀ n d, hashSdmType st (.struct n d) = hashStruct st n d ∧
      hashSdmTypeOwned st (.struct n d) = hashStructOwned st n d) ∧
    -- struct data
    (∀ n, hashStruct st n .unit = hashUpdate st [Spec.tag .structUnit] ∧
      hashStructOwned st n .unit = hashUpdate st [Spec.tag .structUnit]) ∧
    (∀ n t, hashStruct st n (.newtype t) =
        hashSdmType (hashUpdate st [Spec.tag .structNewtype]) t ∧
      hashStructOwned st n (.newtype t) =
        hashSdmTypeOwned (hashUpdate st [Spec.tag .structNewtype]) t) ∧
    (∀ n ts, hashStruct st n (.tuple ts) =
        hashSdmTypeList (hashUpdate st [Spec.tag .structTuple]) ts ∧
      hashStructOwned st n (.tuple ts) =
        hashSdmTypeOwnedList (hashUpdate st [Spec.tag .structTuple]) ts) ∧
    (∀ n fs, hashStruct st n (.struct fs) =
        hashNamedFieldList (hashUpdate st [Spec.tag .structStruct]) fs ∧
      hashStructOwned st n (.struct fs) =
        hashNamedFieldOwnedList (hashUpdate st [Spec.tag .structStruct]) fs) ∧
    -- variant data
    (∀ n, hashVariant st (.mk n .unit) =
        hashUpdate (hashUpdate st n) [Spec.tag .variantUnit] ∧
      hashVariantOwned st (.mk n .unit) =
        hashUpdate (hashUpdate st n) [Spec.tag .variantUnit]) ∧
    (∀ n t, hashVariant st (.mk n (.newtype t)) =
        hashSdmType (hashUpdate (hashUpdate st n) [Spec.tag .variantNewtype]) t ∧
      hashVariantOwned st (.mk n (.newtype t)) =
        hashSdmTypeOwned (hashUpdate (hashUpdate st n) [Spec.tag .variantNewtype]) t) ∧
    (∀ n ts, hashVariant st (.mk n (.tuple ts)) =
        hashSdmTypeList (hashUpdate (hashUpdate st n) [Spec.tag .variantTuple]) ts ∧
      hashVariantOwned st (.mk n (.tuple ts)) =
        hashSdmTypeOwnedList (hashUpdate (hashUpdate st n) [Spec.tag .variantTuple]) ts) ∧
    (∀ n fs, hashVariant st (.mk n (.struct fs)) =
        hashNamedFieldList (hashUpdate (hashUpdate st n) [Spec.tag .variantStruct]) fs ∧
      hashVariantOwned st (.mk n (.struct fs)) =
        hashNamedFieldOwnedList (hashUpdate (hashUpdate st n) [Spec.tag .variantStruct]) fs) ∧
    -- named field
    (∀ n t, hashNamedField st (.mk n t) = hashSdmType (hashUpdate st n) t ∧
      hashNamedFieldOwned st (.mk n t) = hashSdmTypeOwned (hashUpdate st n) t) := by
  refine ⟨?_, ?_, ?_, ?_, ?_, ?_, ?_, ?_, ?_, ?_, ?_, ?_, ?_, ?_, ?_, ?_⟩
  · intro l
    cases l <;> exact ⟨rfl, rfl⟩
  all_goals
    intros
    simp [hashSdmType, hashSdmTypeOwned, hashStruct, hashStructOwned, hashVariant,
      hashVariantOwned, hashNamedField, hashNamedFieldOwned, Spec.tag]

/-! ## 7. non-vacuity: concrete keys -/

section Examples

/-- "test_path" -/
def exPath : List Byte := [0x74, 0x65, 0x73, 0x74, 0x5F, 0x70, 0x61, 0x74, 0x68]

/-- hash.rs test `hash_stability`: `struct Foo { a: u32, b: String }` -/
def exFoo : Schema :=
  .struct [0x46, 0x6F, 0x6F] (.struct [.mk [0x61] .u32, .mk [0x62] .string])

/-- hash.rs test `hash_stability`: `enum Bar { A, B(Foo) }` -/
def exBar : Schema :=
  .enum [0x42, 0x61, 0x72] [.mk [0x41] .unit, .mk [0x42] (.newtype exFoo)]

/-- the documented stream of `Bar` -/
example : Spec.stream exBar =
    [0xE9, 0x41, 0xB5, 0x42, 0xDF, 0x7F, 0x61, 0xD3, 0x62, 0x25] := by decide

/-- The crate's own stability vector (hash.rs `hash_stability`):
`hash_ty_path::<Bar>("test_path") == [139, 128, 52, 27, 107, 8, 218, 98]`,
reproduced by both model hashers and by the spec. -/
example : hashTyPath exPath exBar = [139, 128, 52, 27, 107, 8, 218, 98] := by rfl
example : hashTyPathOwned exPath exBar = [139, 128, 52, 27, 107, 8, 218, 98] := by rfl
example : Spec.key exPath exBar = [139, 128, 52, 27, 107, 8, 218, 98] := by rfl

/-- hash.rs `type_punning_good`: `Vec<u8>` / `&[u8]` are both `Seq(U8)`, so
trivially equal; `Vec<u16>` differs (leaf kind), and path "test_patt" differs
(one path byte) — instances of `leaf_kind_sensitive` / `path_byte_sensitive`. -/
example : hashTyPath exPath (.seq .u8) ≠ hashTyPath exPath (.seq .u16) :=
  leaf_kind_sensitive exPath [.seq] .u8 .u16 (by decide)
example : hashTyPath exPath (.seq .u8) ≠
    hashTyPath [0x74, 0x65, 0x73, 0x74, 0x5F, 0x70, 0x61, 0x74, 0x74] (.seq .u8) :=
  path_byte_sensitive [0x74, 0x65, 0x73, 0x74, 0x5F, 0x70, 0x61, 0x74] [] 0x68 0x74
    (by decide) (.seq .u8)

/-- the empty path and the smallest schema: FNV-1a of the single byte 0x47 -/
example : hashTyPath [] .unit = u64le ((0xcbf29ce484222325 ^^^ 0x47) * 0x100000001b3) := by rfl

/-- type names do not matter, concretely -/
example : hashTyPath exPath (.struct [0x58] (.struct [.mk [0x61] .u32, .mk [0x62] .string])) =
    hashTyPath exPath exFoo := by rfl

/-- … field names do -/
example : hashTyPath exPath (.struct [0x46, 0x6F, 0x6F] (.struct [.mk [0x63] .u32, .mk [0x62] .string]))
    ≠ hashTyPath exPath exFoo :=
  field_name_byte_sensitive exPath [] _ [] [.mk [0x62] .string] [] [] 0x63 0x61 (by decide) .u32

end Examples

end Postcard
