import Postcard.Props.C18
/-
  Postcard.Props.C18Alloc — the allocation bound of postcard-dyn's `deserialize` on ALL schema
  kinds (`Enum`, `Map`, `Schema` included), under the only necessary restriction that every `Seq`
  element type has positive minimum encoded width.

  * `minWidthPos`, `allocW'` (definitions, namespace `Postcard`);
  * `DynA.decOwnedBytes_cost`: the `Value` built for an embedded schema costs ≤ 14 per consumed byte;
  * `DynA.ab_val'` …: the invariant `Dyn.ABG` (Props/C18) for every kind, weight `allocW'`;
  * `dyn_alloc_bound` (FULL; closes the TODO at the end of Props/C18), `dyn_alloc_bound_consumed`,
    `frag_sub` (`allocFrag ⊆ minWidthPos`, same weight);
  * `alloc_map_seq_unit`, `alloc_enum_seq_unit`: the `Seq` condition is also necessary below
    `Map` values and `Enum` variants; non-vacuity examples.
  No `sorry`, no new axiom; nothing left open.
-/
namespace Postcard

/-! ## definitions -/

-- `minWidthPos`, `allocW'` (and siblings) are defined in Model/DynCost.lean

end Postcard

namespace Postcard.DynA
open Postcard.Dyn

/-! ## the `Schema` kind: `(jsonOfSchema s).cost ≤ 14 * consumed bytes` -/

def costL {α : Type} (c : α → Nat) : List α → Nat
  | [] => 0
  | x :: xs => c x + costL c xs

def cS (s : Schema) : Nat := (jsonOfSchema s).cost
def cD (d : SData) : Nat := (jsonOfData d).cost
def cF : SField → Nat
  | .mk n t => 10 + n.length + cS t
def cV : SVariant → Nat
  | .mk n d => 12 + n.length + cD d

theorem costList_schemas : ∀ ts : List Schema, Json.costList (jsonOfSchemaList ts) = costL cS ts
  | [] => by simp [jsonOfSchemaList, Json.costList, costL]
  | t :: ts => by simp [jsonOfSchemaList, Json.costList, costL, costList_schemas ts, cS]

theorem costList_fields : ∀ fs : List SField, Json.costList (jsonOfFields fs) = costL cF fs
  | [] => by simp [jsonOfFields, Json.costList, costL]
  | .mk n t :: fs => by
    simp only [jsonOfFields, Json.costList, costL, costList_fields fs, cF, cS, Json.cost, Json.costKvs]
    have h1 : (ascii "name").length = 4 := by decide
    have h2 : (ascii "ty").length = 2 := by decide
    omega

theorem costList_variants : ∀ vs : List SVariant, Json.costList (jsonOfVariants vs) = costL cV vs
  | [] => by simp [jsonOfVariants, Json.costList, costL]
  | .mk n d :: vs => by
    simp only [jsonOfVariants, Json.costList, costL, costList_variants vs, cV, cD, Json.cost, Json.costKvs]
    have h1 : (ascii "name").length = 4 := by decide
    have h2 : (ascii "data").length = 4 := by decide
    omega

theorem cS_option (t : Schema) : cS (.option t) = 8 + cS t := by
  simp only [cS, jsonOfSchema, Json.cost, Json.costKvs]
  have : (kindName .option).length = 6 := by decide
  omega
theorem cS_seq (t : Schema) : cS (.seq t) = 5 + cS t := by
  simp only [cS, jsonOfSchema, Json.cost, Json.costKvs]
  have : (kindName .seq).length = 3 := by decide
  omega
theorem cS_tuple (ts : List Schema) : cS (.tuple ts) = 8 + costL cS ts := by
  simp only [cS, jsonOfSchema, Json.cost, Json.costKvs, costList_schemas]
  have : (kindName .tuple).length = 5 := by decide
  omega
theorem cS_map (k v : Schema) : cS (.map k v) = 14 + cS k + cS v := by
  simp only [cS, jsonOfSchema, Json.cost, Json.costKvs]
  have h0 : (kindName .map).length = 3 := by decide
  have h1 : (ascii "key").length = 3 := by decide
  have h2 : (ascii "val").length = 3 := by decide
  omega
theorem cS_struct (n : Name) (d : SData) : cS (.struct n d) = 20 + n.length + cD d := by
  simp only [cS, cD, jsonOfSchema, Json.cost, Json.costKvs]
  have h1 : (kindName .struct).length = 6 := by decide
  have h2 : (ascii "data").length = 4 := by decide
  have h3 : (ascii "name").length = 4 := by decide
  omega
theorem cS_enum (n : Name) (vs : List SVariant) : cS (.enum n vs) = 23 + n.length + costL cV vs := by
  simp only [cS, jsonOfSchema, Json.cost, Json.costKvs, costList_variants]
  have h1 : (kindName .enum).length = 4 := by decide
  have h2 : (ascii "variants").length = 8 := by decide
  have h3 : (ascii "name").length = 4 := by decide
  omega
theorem cD_unit : cD .unit = 5 := by decide
theorem cD_newtype (t : Schema) : cD (.newtype t) = 9 + cS t := by
  simp only [cS, cD, jsonOfData, Json.cost, Json.costKvs]
  have h1 : (dataKindName .newtype).length = 7 := by decide
  omega
theorem cD_tuple (ts : List Schema) : cD (.tuple ts) = 8 + costL cS ts := by
  simp only [cD, jsonOfData, Json.cost, Json.costKvs, costList_schemas]
  have h1 : (dataKindName .tuple).length = 5 := by decide
  omega
theorem cD_struct (fs : List SField) : cD (.struct fs) = 9 + costL cF fs := by
  simp only [cD, jsonOfData, Json.cost, Json.costKvs, costList_fields]
  have h1 : (dataKindName .struct).length = 6 := by decide
  omega

/-- a successful run consumed at least one byte and the cost of its result is at most 14 per
consumed byte. -/
def SC {α : Type} (c : α → Nat) (res : R (α × List Byte)) (len : Nat) : Prop :=
  match res with
  | .ok (a, r) => r.length + 1 ≤ len ∧ c a ≤ 14 * (len - r.length)
  | .error _ => True

theorem SC_err {α : Type} {c : α → Nat} {e : Err} {len : Nat} :
    SC c (.error e : R (α × List Byte)) len := trivial

theorem decName_len {bs r : List Byte} {n : Name} (h : decName bs = .ok (n, r)) :
    r.length + 1 + n.length ≤ bs.length := by
  unfold decName at h
  split at h
  · cases h
  · next sz r0 hv =>
    have h0 := decVarint_pos hv
    split at h
    · cases h
    · next s r1 ht =>
      obtain ⟨rfl, rfl⟩ := takeN_ok_iff.1 ht
      split at h
      · simp at h; obtain ⟨rfl, rfl⟩ := h
        simp at h0 ⊢; omega
      · cases h

theorem decElems_sc {α : Type} (c : α → Nat) (f : List Byte → R (α × List Byte))
    (hf : ∀ bs, SC c (f bs) bs.length) :
    ∀ (n : Nat) (bs : List Byte) (xs : List α) (r : List Byte), decElems f n bs = .ok (xs, r) →
      r.length ≤ bs.length ∧ costL c xs ≤ 14 * (bs.length - r.length)
  | 0, bs, xs, r, h => by
    simp [decElems] at h; obtain ⟨rfl, rfl⟩ := h; simp [costL]
  | n + 1, bs, xs, r, h => by
    unfold decElems at h
    have h1 := hf bs
    split at h
    · cases h
    · next v r0 hv =>
      rw [hv] at h1; simp only [SC] at h1
      split at h
      · cases h
      · next vs r1 hvs =>
        have h2 := decElems_sc c f hf n r0 vs r1 hvs
        simp at h; obtain ⟨rfl, rfl⟩ := h
        simp only [costL]
        omega

theorem decBoxSlice_sc {α : Type} (c : α → Nat) (f : List Byte → R (α × List Byte))
    (hf : ∀ bs, SC c (f bs) bs.length) (bs : List Byte) (xs : List α) (r : List Byte)
    (h : decBoxSlice f bs = .ok (xs, r)) :
    r.length + 1 ≤ bs.length ∧ costL c xs + 14 ≤ 14 * (bs.length - r.length) := by
  unfold decBoxSlice at h
  split at h
  · cases h
  · next n r0 hv =>
    have h0 := decVarint_pos hv
    have h1 := decElems_sc c f hf n r0 xs r h
    omega

theorem decField_sc (f : List Byte → R (Schema × List Byte)) (hf : ∀ bs, SC cS (f bs) bs.length)
    (bs : List Byte) : SC cF (decField f bs) bs.length := by
  unfold decField
  split
  · exact SC_err
  · next n r hn =>
    have h0 := decName_len hn
    have h1 := hf r
    split
    · exact SC_err
    · next t r' ht =>
      rw [ht] at h1; simp only [SC, cF] at h1 ⊢
      omega

theorem decVariantEntry_sc (f : List Byte → R (SData × List Byte)) (hf : ∀ bs, SC cD (f bs) bs.length)
    (bs : List Byte) : SC cV (decVariantEntry f bs) bs.length := by
  unfold decVariantEntry
  split
  · exact SC_err
  · next n r hn =>
    have h0 := decName_len hn
    have h1 := hf r
    split
    · exact SC_err
    · next t r' ht =>
      rw [ht] at h1; simp only [SC, cV] at h1 ⊢
      omega

theorem sc_leaf {s : Schema} {r bs : List Byte} (hr : r.length < bs.length) (hc : cS s ≤ 14) :
    SC cS (.ok (s, r)) bs.length := by
  simp only [SC]; omega

theorem sc_leafD {d : SData} {r bs : List Byte} (hr : r.length < bs.length) (hc : cD d ≤ 14) :
    SC cD (.ok (d, r)) bs.length := by
  simp only [SC]; omega

theorem decOwned_sc_step (fuel : Nat) (ih1 : ∀ bs, SC cS (decOwned fuel bs) bs.length)
    (ih2 : ∀ bs, SC cD (decOwnedData fuel bs) bs.length) :
    ∀ bs, SC cS (decOwned (fuel + 1) bs) bs.length := fun bs => by
  rw [decOwned]
  split
  · exact SC_err
  · next idx r heq =>
    have hr := decVarint_pos heq
    split
    all_goals first
      | exact SC_err
      | exact sc_leaf hr (by decide)
      | skip
    · -- option
      have hh := ih1 r
      split
      · exact SC_err
      · next t r' ht =>
        rw [ht] at hh; simp only [SC, cS_option] at hh ⊢
        omega
    · -- seq
      have hh := ih1 r
      split
      · exact SC_err
      · next t r' ht =>
        rw [ht] at hh; simp only [SC, cS_seq] at hh ⊢
        omega
    · -- tuple
      split
      · exact SC_err
      · next ts r' ht =>
        have hh := decBoxSlice_sc cS _ ih1 r ts r' ht
        simp only [SC, cS_tuple]
        omega
    · -- map
      have h1 := ih1 r
      split
      · exact SC_err
      · next k r' hk =>
        rw [hk] at h1; simp only [SC] at h1
        have h2 := ih1 r'
        split
        · exact SC_err
        · next v r'' hv =>
          rw [hv] at h2; simp only [SC, cS_map] at h2 ⊢
          omega
    · -- struct
      split
      · exact SC_err
      · next n r' hn =>
        have h1 := decName_len hn
        have h2 := ih2 r'
        split
        · exact SC_err
        · next d r'' hd =>
          rw [hd] at h2; simp only [SC, cS_struct] at h2 ⊢
          omega
    · -- enum
      split
      · exact SC_err
      · next n r' hn =>
        have h1 := decName_len hn
        split
        · exact SC_err
        · next vs r'' hvs =>
          have h2 := decBoxSlice_sc cV _ (decVariantEntry_sc _ ih2) r' vs r'' hvs
          simp only [SC, cS_enum]
          omega

theorem decOwnedData_sc_step (fuel : Nat) (ih1 : ∀ bs, SC cS (decOwned fuel bs) bs.length) :
    ∀ bs, SC cD (decOwnedData (fuel + 1) bs) bs.length := fun bs => by
  rw [decOwnedData]
  split
  · exact SC_err
  · next idx r heq =>
    have hr := decVarint_pos heq
    split
    all_goals first
      | exact SC_err
      | exact sc_leafD hr (by decide)
      | skip
    · -- newtype
      have hh := ih1 r
      split
      · exact SC_err
      · next t r' ht =>
        rw [ht] at hh; simp only [SC, cD_newtype] at hh ⊢
        omega
    · -- tuple
      split
      · exact SC_err
      · next ts r' ht =>
        have hh := decBoxSlice_sc cS _ ih1 r ts r' ht
        simp only [SC, cD_tuple]
        omega
    · -- struct
      split
      · exact SC_err
      · next fs r' ht =>
        have hh := decBoxSlice_sc cF _ (decField_sc _ ih1) r fs r' ht
        simp only [SC, cD_struct]
        omega

theorem decOwned_sc : ∀ fuel, (∀ bs, SC cS (decOwned fuel bs) bs.length) ∧
    (∀ bs, SC cD (decOwnedData fuel bs) bs.length)
  | 0 => ⟨fun bs => by rw [decOwned]; exact SC_err, fun bs => by rw [decOwnedData]; exact SC_err⟩
  | fuel + 1 =>
    have ih := decOwned_sc fuel
    ⟨decOwned_sc_step fuel ih.1 ih.2, decOwnedData_sc_step fuel ih.1⟩

/-- `postcard::take_from_bytes::<OwnedDataModelType>` then `serde_json::to_value`: the `Value`
built costs at most 14 per consumed byte, and at least one byte is consumed. -/
theorem decOwnedBytes_cost {bs r : List Byte} {s : Schema} (h : decOwnedBytes bs = .ok (s, r)) :
    r.length + 1 ≤ bs.length ∧ (jsonOfSchema s).cost ≤ 14 * (bs.length - r.length) := by
  have := (decOwned_sc (bs.length + 1)).1 bs
  unfold decOwnedBytes at h
  rw [h] at this
  exact this

end Postcard.DynA

namespace Postcard.DynA
open Postcard.Dyn

/-! ## the invariant `ABG` (Props/C18) with the weight `allocW'` -/

theorem allocW'_pos : ∀ s : Schema, 1 ≤ allocW' s
  | .option t => by simp only [allocW']; exact allocW'_pos t
  | .seq t => by simp [allocW']
  | .tuple ts => by simp [allocW']
  | .map _ _ => by simp [allocW']
  | .enum _ _ => by simp [allocW']
  | .schema => by simp [allocW']
  | .struct _ .unit => by simp [allocW', allocW'Data]
  | .struct _ (.newtype t) => by simp only [allocW', allocW'Data]; exact allocW'_pos t
  | .struct _ (.tuple ts) => by simp [allocW', allocW'Data]
  | .struct _ (.struct fs) => by simp [allocW', allocW'Data]
  | .bool | .i8 | .u8 | .i16 | .i32 | .i64 | .i128 | .u16 | .u32 | .u64 | .u128 | .usize | .isize
  | .f32 | .f64 | .char | .string | .byteArray | .unit => by
    simp [allocW']

theorem ABG_mono {α : Type} {res : DR (α × List Byte)} {cost w mw len w' mw' len' : Nat}
    (h : ABG res cost w mw len) (hw : w ≤ w') (hl : len ≤ len') (hm : mw' + len ≤ len' + mw) :
    ABG res cost w' mw' len' := by
  unfold ABG at h ⊢
  split
  · simp only at h
    exact ⟨by omega, Nat.le_trans h.2 (Nat.mul_le_mul hw (by omega))⟩
  · simp only at h
    exact Nat.le_trans h (Nat.mul_le_mul hw (by omega))

theorem le_mul_mono {a w w' x x' : Nat} (h : a ≤ w * x) (hw : w ≤ w') (hx : x ≤ x') : a ≤ w' * x' :=
  Nat.le_trans h (Nat.mul_le_mul hw hx)

/-- `a` = cost of the payload, `k` = cost of the wrapper. -/
theorem wrap_step {a w k x M : Nat} (ha : a ≤ w * x) (hx : 1 ≤ x) (hM : k + w ≤ M) : a + k ≤ M * x := by
  have h1 : k ≤ k * x := Nat.le_mul_of_pos_right _ hx
  have h2 : (k + w) * x ≤ M * x := Nat.mul_le_mul_right _ hM
  rw [Nat.add_mul] at h2
  omega

/-! ### `Seq` -/

theorem abN' (fo : FloatOps) (t : Schema) (w : Nat) (hpos : 0 < minWidth t)
    (ih : ∀ bs, ABG (dynDe fo t bs) (allocDyn fo t bs) w (minWidth t) bs.length) :
    ∀ (n : Nat) (bs : List Byte),
      ABG (deN (dynDe fo t) n bs) (allocN (allocDyn fo t) (dynDe fo t) n bs) (2 * w) 0 bs.length
  | 0, bs => by simp [deN, allocN, ABG]
  | n + 1, bs => by
    have h1 := ih bs
    simp only [deN, allocN]
    cases hd : dynDe fo t bs with
    | error e =>
      rw [hd] at h1; simp only [ABG] at h1 ⊢
      rw [Nat.mul_assoc, Nat.two_mul]; omega
    | ok p =>
      obtain ⟨v, r⟩ := p
      rw [hd] at h1; simp only [ABG] at h1
      have h2 := abN' fo t w hpos ih n r
      dsimp only
      cases hd2 : deN (dynDe fo t) n r with
      | error e =>
        rw [hd2] at h2; simp only [ABG] at h2 ⊢
        exact seq_step (c := bs.length - r.length) (y := r.length) (by omega) h1.2 h2 (by omega)
      | ok q =>
        obtain ⟨vs, r'⟩ := q
        rw [hd2] at h2; simp only [ABG] at h2 ⊢
        refine ⟨by omega, ?_⟩
        exact seq_step (c := bs.length - r.length) (y := r.length - r'.length) (by omega) h1.2 h2.2 (by omega)

theorem ab_seq (fo : FloatOps) (t : Schema) (w : Nat) (hpos : 0 < minWidth t)
    (ih : ∀ bs, ABG (dynDe fo t bs) (allocDyn fo t bs) w (minWidth t) bs.length) (bs : List Byte) :
    ABG (dynDe fo (.seq t) bs) (allocDyn fo (.seq t) bs) (2 * w + 1) 1 bs.length := by
  rw [allocDyn]
  cases hv : dynTakeVarint 64 bs with
  | error e => simp [dynDe, hv, ABG]
  | ok p =>
    obtain ⟨n, rest⟩ := p
    have hl := dynTakeVarint_len hv
    have hN := abN' fo t w hpos ih n rest
    simp only [dynDe, hv]
    cases hd : deN (dynDe fo t) n rest with
    | error e =>
      rw [hd] at hN; simp only [ABG, allocLeaf] at hN ⊢
      have : 2 * w * (rest.length + 1) ≤ 2 * w * (bs.length + 1) :=
        Nat.mul_le_mul_left _ (by omega)
      rw [Nat.add_mul]; omega
    | ok q =>
      obtain ⟨vs, r'⟩ := q
      rw [hd] at hN; simp only [ABG, allocLeaf] at hN ⊢
      refine ⟨by omega, ?_⟩
      have : 2 * w * (rest.length - r'.length + 1) ≤ 2 * w * (bs.length - r'.length + 1) :=
        Nat.mul_le_mul_left _ (by omega)
      rw [Nat.add_mul]; omega

/-! ### `Map`: every entry consumes at least the byte of its key length -/

theorem kvs_step {a b w cv kl len y z : Nat} (hk : 1 ≤ kl) (ha : a ≤ w * (cv + 1))
    (hb : b ≤ (w + 1) * (y + 1)) (hz : z = kl + len + cv + y) :
    a + (len + 1 + b) ≤ (w + 1) * (z + 1) := by
  subst hz
  have h1 : w * (cv + 1) ≤ w * (kl + len + cv) := Nat.mul_le_mul_left _ (by omega)
  have e : (w + 1) * (kl + len + cv + y + 1) = w * (kl + len + cv) + (kl + len + cv) + (w + 1) * (y + 1) := by
    rw [show kl + len + cv + y + 1 = (kl + len + cv) + (y + 1) by omega, Nat.mul_add, Nat.add_mul,
      Nat.one_mul]
  omega

theorem abKvs (fo : FloatOps) (val : Schema) (w : Nat)
    (ih : ∀ bs, ABG (dynDe fo val bs) (allocDyn fo val bs) w (minWidth val) bs.length) :
    ∀ (n : Nat) (acc : List (List Byte × Json)) (bs : List Byte),
      ABG (deKvs (dynDe fo val) n acc bs) (allocKvs (allocDyn fo val) (dynDe fo val) n bs) (w + 1) 0
        bs.length
  | 0, acc, bs => by simp [deKvs, allocKvs, ABG]
  | n + 1, acc, bs => by
    simp only [deKvs, allocKvs]
    cases hv : dynTakeVarint 64 bs with
    | error e => simp [ABG]
    | ok p =>
      obtain ⟨len, r⟩ := p
      have hl := dynTakeVarint_len hv
      dsimp only
      cases hn : dynTakeN len r with
      | error e => simp [ABG]
      | ok q =>
        obtain ⟨s, r'⟩ := q
        have hl2 := dynTakeN_len hn
        dsimp only
        by_cases hu : utf8Valid s = true
        · simp only [hu, ↓reduceIte]
          have h1 := ih r'
          cases hd : dynDe fo val r' with
          | error e =>
            rw [hd] at h1; simp only [ABG] at h1 ⊢
            exact le_mul_mono h1 (by omega) (by omega)
          | ok p2 =>
            obtain ⟨v, r''⟩ := p2
            rw [hd] at h1; simp only [ABG] at h1
            have h2 := abKvs fo val w ih n (objInsert s v acc) r''
            dsimp only
            cases hd2 : deKvs (dynDe fo val) n (objInsert s v acc) r'' with
            | error e =>
              rw [hd2] at h2; simp only [ABG] at h2 ⊢
              exact kvs_step (kl := bs.length - r.length) (cv := r'.length - r''.length) (y := r''.length)
                (by omega) h1.2 h2 (by omega)
            | ok q2 =>
              obtain ⟨kvs, r3⟩ := q2
              rw [hd2] at h2; simp only [ABG] at h2 ⊢
              refine ⟨by omega, ?_⟩
              exact kvs_step (kl := bs.length - r.length) (cv := r'.length - r''.length)
                (y := r''.length - r3.length) (by omega) h1.2 h2.2 (by omega)
        · simp [hu, ABG]

end Postcard.DynA

namespace Postcard.DynA
open Postcard.Dyn

theorem ab_map_string (fo : FloatOps) (val : Schema) (w : Nat)
    (ih : ∀ bs, ABG (dynDe fo val bs) (allocDyn fo val bs) w (minWidth val) bs.length) (bs : List Byte) :
    ABG (dynDe fo (.map .string val) bs) (allocDyn fo (.map .string val) bs) (w + 2) 1 bs.length := by
  rw [allocDyn]
  cases hv : dynTakeVarint 64 bs with
  | error e => simp [dynDe, hv, ABG]
  | ok p =>
    obtain ⟨n, rest⟩ := p
    have hl := dynTakeVarint_len hv
    have hN := abKvs fo val w ih n [] rest
    simp only [dynDe, hv]
    cases hd : deKvs (dynDe fo val) n [] rest with
    | error e =>
      rw [hd] at hN; simp only [ABG, allocLeaf] at hN ⊢
      have : (w + 1) * (rest.length + 1) ≤ (w + 1) * (bs.length + 1) :=
        Nat.mul_le_mul_left _ (by omega)
      rw [show w + 2 = (w + 1) + 1 by omega, Nat.add_mul]; omega
    | ok q =>
      obtain ⟨vs, r'⟩ := q
      rw [hd] at hN; simp only [ABG, allocLeaf] at hN ⊢
      refine ⟨by omega, ?_⟩
      have : (w + 1) * (rest.length - r'.length + 1) ≤ (w + 1) * (bs.length - r'.length + 1) :=
        Nat.mul_le_mul_left _ (by omega)
      rw [show w + 2 = (w + 1) + 1 by omega, Nat.add_mul]; omega

/-- a `Map` whose key schema is not `String` is rejected at once and allocates nothing. -/
theorem ab_map (fo : FloatOps) (key val : Schema) (w : Nat)
    (ih : key = .string → ∀ bs, ABG (dynDe fo val bs) (allocDyn fo val bs) w (minWidth val) bs.length)
    (bs : List Byte) :
    ABG (dynDe fo (.map key val) bs) (allocDyn fo (.map key val) bs) (w + 2) 1 bs.length := by
  cases key
  case string => exact ab_map_string fo val w (ih rfl) bs
  all_goals (rw [allocDyn, dynDe] <;> first | (intro h; cases h; done) | simp [ABG])

theorem ab_enum (fo : FloatOps) (nm : Name) (vs : List SVariant) (W : Nat)
    (ih : ∀ k bs, ABG (dynDeVariant fo vs k bs) (allocVariant fo vs k bs) W 0 bs.length)
    (bs : List Byte) :
    ABG (dynDe fo (.enum nm vs) bs) (allocDyn fo (.enum nm vs) bs) (W + 1) 1 bs.length := by
  rw [allocDyn, dynDe]
  cases hv : dynTakeVarint 64 bs with
  | error e => simp [ABG]
  | ok p =>
    obtain ⟨k, rest⟩ := p
    have hl := dynTakeVarint_len hv
    dsimp only
    exact ABG_mono (ih k rest) (by omega) (by omega) (by omega)

theorem ab_schema (fo : FloatOps) (bs : List Byte) :
    ABG (dynDe fo .schema bs) (allocDyn fo .schema bs) 14 1 bs.length := by
  rw [allocDyn]
  cases hd : dynDe fo .schema bs with
  | error e => simp [ABG]
  | ok p =>
    obtain ⟨j, r⟩ := p
    rw [dynDe] at hd
    split at hd
    · cases hd
    · cases hd
    · next s rest hs =>
      simp at hd; obtain ⟨rfl, rfl⟩ := hd
      have := decOwnedBytes_cost hs
      exact ABG_ok (by omega) (by simp only; omega)

end Postcard.DynA

namespace Postcard.DynA
open Postcard.Dyn

/-! ### all kinds -/

mutual
theorem ab_val' (fo : FloatOps) : (s : Schema) → minWidthPos s = true → ∀ bs : List Byte,
    ABG (dynDe fo s bs) (allocDyn fo s bs) (allocW' s) (minWidth s) bs.length
  | .bool, _, bs => by alloc_unfold; exact ABG_leaf (by leaf_len)
  | .i8, _, bs => by alloc_unfold; exact ABG_leaf (by leaf_len)
  | .u8, _, bs => by alloc_unfold; exact ABG_leaf (by leaf_len)
  | .i16, _, bs => by alloc_unfold; exact ABG_leaf (by leaf_len)
  | .i32, _, bs => by alloc_unfold; exact ABG_leaf (by leaf_len)
  | .i64, _, bs => by alloc_unfold; exact ABG_leaf (by leaf_len)
  | .i128, _, bs => by alloc_unfold; exact ABG_leaf (by leaf_len)
  | .u16, _, bs => by alloc_unfold; exact ABG_leaf (by leaf_len)
  | .u32, _, bs => by alloc_unfold; exact ABG_leaf (by leaf_len)
  | .u64, _, bs => by alloc_unfold; exact ABG_leaf (by leaf_len)
  | .u128, _, bs => by alloc_unfold; exact ABG_leaf (by leaf_len)
  | .usize, _, bs => by alloc_unfold; exact ABG_leaf (by leaf_len)
  | .isize, _, bs => by alloc_unfold; exact ABG_leaf (by leaf_len)
  | .f32, _, bs => by alloc_unfold; exact ABG_leaf (by leaf_len)
  | .f64, _, bs => by alloc_unfold; exact ABG_leaf (by leaf_len)
  | .unit, _, bs => by
    alloc_unfold; exact ABG_leaf (by intro j r h; rw [dynDe] at h; simp at h; obtain ⟨_, rfl⟩ := h; simp [minWidth])
  | .struct _ .unit, _, bs => by
    alloc_unfold
    exact ABG_leaf (by intro j r h; rw [dynDe] at h; simp at h; obtain ⟨_, rfl⟩ := h; simp [minWidth, minWidthData])
  | .char, _, bs => ab_str fo .char bs (de_char_len fo bs) (by rw [allocDyn]; rfl)
  | .string, _, bs => ab_str fo .string bs (de_string_len fo bs) (by rw [allocDyn]; rfl)
  | .byteArray, _, bs => ab_byteArray fo bs
  | .option t, h, bs => by
    simp only [minWidthPos] at h
    have ih := ab_val' fo t h
    simp only [allocW', minWidth]
    match bs with
    | [] => simp [allocDyn, dynDe, dynTakeOne, ABG]
    | b :: rest =>
      rw [allocDyn, dynDe]; simp only [dynTakeOne]
      by_cases hb0 : b = 0
      · have := allocW'_pos t
        simp only [hb0, if_true, ABG]
        refine ⟨by simp, ?_⟩
        exact Nat.le_trans this (Nat.le_mul_of_pos_right _ (by omega))
      · by_cases hb1 : b = 1
        · simp only [hb1, if_true]
          exact ABG_shift (ih rest)
        · simp [hb0, hb1, ABG]
  | .struct _ (.newtype t), h, bs => by
    simp only [minWidthPos, minWidthPosData] at h
    rw [allocDyn, dynDe]
    simp only [allocW', allocW'Data, minWidth, minWidthData]
    exact ab_val' fo t h bs
  | .seq t, h, bs => by
    simp [minWidthPos] at h
    simp only [allocW', minWidth]
    exact ab_seq fo t (allocW' t) h.1 (ab_val' fo t h.2) bs
  | .tuple ts, h, bs => by
    simp only [minWidthPos] at h
    have ihl := ab_list' fo ts h bs
    rw [allocDyn, dynDe]
    simp only [allocW', minWidth]
    cases hd : dynDeList fo ts bs with
    | error e =>
      rw [hd] at ihl; simp only [ABG, allocLeaf] at ihl ⊢
      rw [Nat.add_mul]; omega
    | ok q =>
      obtain ⟨vs, r'⟩ := q
      rw [hd] at ihl; simp only [ABG, allocLeaf] at ihl ⊢
      refine ⟨ihl.1, ?_⟩
      rw [Nat.add_mul]; omega
  | .struct _ (.tuple ts), h, bs => by
    simp only [minWidthPos, minWidthPosData] at h
    have ihl := ab_list' fo ts h bs
    rw [allocDyn, dynDe]
    simp only [allocW', allocW'Data, minWidth, minWidthData]
    cases hd : dynDeList fo ts bs with
    | error e =>
      rw [hd] at ihl; simp only [ABG, allocLeaf] at ihl ⊢
      rw [Nat.add_mul]; omega
    | ok q =>
      obtain ⟨vs, r'⟩ := q
      rw [hd] at ihl; simp only [ABG, allocLeaf] at ihl ⊢
      refine ⟨ihl.1, ?_⟩
      rw [Nat.add_mul]; omega
  | .struct _ (.struct fs), h, bs => by
    simp only [minWidthPos, minWidthPosData] at h
    have ihl := ab_fields' fo fs h [] bs
    rw [allocDyn, dynDe]
    simp only [allocW', allocW'Data, minWidth, minWidthData]
    cases hd : dynDeFields fo fs [] bs with
    | error e =>
      rw [hd] at ihl; simp only [ABG, allocLeaf] at ihl ⊢
      rw [Nat.add_mul]; omega
    | ok q =>
      obtain ⟨vs, r'⟩ := q
      rw [hd] at ihl; simp only [ABG, allocLeaf] at ihl ⊢
      refine ⟨ihl.1, ?_⟩
      rw [Nat.add_mul]; omega
  | .map key val, h, bs => by
    simp only [allocW', minWidth]
    exact ab_map fo key val (allocW' val)
      (fun hk => ab_val' fo val (by subst hk; simpa only [minWidthPos] using h)) bs
  | .enum nm vs, h, bs => by
    simp only [minWidthPos] at h
    simp only [allocW', minWidth]
    exact ab_enum fo nm vs (allocW'Variants vs) (ab_variants' fo vs h) bs
  | .schema, _, bs => by
    simp only [allocW', minWidth]
    exact ab_schema fo bs
theorem ab_list' (fo : FloatOps) : (ts : List Schema) → minWidthPosList ts = true → ∀ bs : List Byte,
    ABG (dynDeList fo ts bs) (allocList fo ts bs) (allocW'List ts) (minWidthList ts) bs.length
  | [], _, bs => by simp [dynDeList, allocList, ABG, minWidthList]
  | t :: ts, h, bs => by
    simp [minWidthPosList] at h
    have h1 := ab_val' fo t h.1 bs
    simp only [dynDeList, allocList, allocW'List, minWidthList]
    cases hd : dynDe fo t bs with
    | error e =>
      rw [hd] at h1; simp only [ABG] at h1 ⊢
      rw [Nat.add_mul]; omega
    | ok p =>
      obtain ⟨v, r⟩ := p
      rw [hd] at h1; simp only [ABG] at h1
      have h2 := ab_list' fo ts h.2 r
      dsimp only
      cases hd2 : dynDeList fo ts r with
      | error e =>
        rw [hd2] at h2; simp only [ABG] at h2 ⊢
        exact list_step (c := bs.length - r.length) (y := r.length) h1.2 h2 (by omega)
      | ok q =>
        obtain ⟨vs, r'⟩ := q
        rw [hd2] at h2; simp only [ABG] at h2 ⊢
        refine ⟨by omega, ?_⟩
        exact list_step (c := bs.length - r.length) (y := r.length - r'.length) h1.2 h2.2 (by omega)
theorem ab_fields' (fo : FloatOps) : (fs : List SField) → minWidthPosFields fs = true →
    ∀ (acc : List (List Byte × Json)) (bs : List Byte),
    ABG (dynDeFields fo fs acc bs) (allocFields fo fs bs) (allocW'Fields fs) (minWidthFields fs) bs.length
  | [], _, acc, bs => by simp [dynDeFields, allocFields, ABG, minWidthFields]
  | .mk name t :: fs, h, acc, bs => by
    simp [minWidthPosFields] at h
    have h1 := ab_val' fo t h.1 bs
    simp only [dynDeFields, allocFields, allocW'Fields, minWidthFields]
    cases hd : dynDe fo t bs with
    | error e =>
      rw [hd] at h1; simp only [ABG] at h1 ⊢
      have : allocW' t * (bs.length + 1) ≤ (allocW' t + name.length + 1 + allocW'Fields fs) * (bs.length + 1) :=
        Nat.mul_le_mul_right _ (by omega)
      omega
    | ok p =>
      obtain ⟨v, r⟩ := p
      rw [hd] at h1; simp only [ABG] at h1
      have h2 := ab_fields' fo fs h.2 (objInsert name v acc) r
      dsimp only
      cases hd2 : dynDeFields fo fs (objInsert name v acc) r with
      | error e =>
        rw [hd2] at h2; simp only [ABG] at h2 ⊢
        exact fields_step (c := bs.length - r.length) (y := r.length) h1.2 h2 (by omega)
      | ok q =>
        obtain ⟨vs, r'⟩ := q
        rw [hd2] at h2; simp only [ABG] at h2 ⊢
        refine ⟨by omega, ?_⟩
        exact fields_step (c := bs.length - r.length) (y := r.length - r'.length) h1.2 h2.2 (by omega)
theorem ab_variants' (fo : FloatOps) : (vs : List SVariant) → minWidthPosVariants vs = true →
    ∀ (k : Nat) (bs : List Byte),
    ABG (dynDeVariant fo vs k bs) (allocVariant fo vs k bs) (allocW'Variants vs) 0 bs.length
  | [], _, k, bs => by simp [dynDeVariant, allocVariant, ABG]
  | .mk name .unit :: vs, _, 0, bs => by
    simp only [dynDeVariant, allocVariant, allocW'Variants, allocW'Data, ABG]
    refine ⟨by omega, ?_⟩
    simp only [Nat.sub_self, Nat.zero_add, Nat.mul_one]
    omega
  | .mk name (.newtype t) :: vs, h, 0, bs => by
    simp [minWidthPosVariants, minWidthPosData] at h
    have h1 := ab_val' fo t h.1 bs
    simp only [dynDeVariant, allocVariant, allocW'Variants, allocW'Data]
    cases hd : dynDe fo t bs with
    | error e =>
      rw [hd] at h1; simp only [ABG] at h1 ⊢
      exact le_mul_mono h1 (by omega) (Nat.le_refl _)
    | ok p =>
      obtain ⟨v, r⟩ := p
      rw [hd] at h1; simp only [ABG] at h1 ⊢
      exact ⟨by omega, wrap_step h1.2 (by omega) (by omega)⟩
  | .mk name (.tuple ts) :: vs, h, 0, bs => by
    simp [minWidthPosVariants, minWidthPosData] at h
    have h1 := ab_list' fo ts h.1 bs
    simp only [dynDeVariant, allocVariant, allocW'Variants, allocW'Data]
    cases hd : dynDeList fo ts bs with
    | error e =>
      rw [hd] at h1; simp only [ABG] at h1 ⊢
      exact le_mul_mono h1 (by omega) (Nat.le_refl _)
    | ok p =>
      obtain ⟨v, r⟩ := p
      rw [hd] at h1; simp only [ABG] at h1 ⊢
      exact ⟨by omega, wrap_step h1.2 (by omega) (by omega)⟩
  | .mk name (.struct fs) :: vs, h, 0, bs => by
    simp [minWidthPosVariants, minWidthPosData] at h
    have h1 := ab_fields' fo fs h.1 [] bs
    simp only [dynDeVariant, allocVariant, allocW'Variants, allocW'Data]
    cases hd : dynDeFields fo fs [] bs with
    | error e =>
      rw [hd] at h1; simp only [ABG] at h1 ⊢
      exact le_mul_mono h1 (by omega) (Nat.le_refl _)
    | ok p =>
      obtain ⟨v, r⟩ := p
      rw [hd] at h1; simp only [ABG] at h1 ⊢
      exact ⟨by omega, wrap_step h1.2 (by omega) (by omega)⟩
  | .mk name data :: vs, h, k + 1, bs => by
    simp [minWidthPosVariants] at h
    have h1 := ab_variants' fo vs h.2 k bs
    simp only [dynDeVariant, allocVariant, allocW'Variants]
    exact ABG_mono h1 (by omega) (Nat.le_refl _) (by omega)
end

end Postcard.DynA

namespace Postcard
open Dyn DynA

/-! ## C18 — the allocation bound on all kinds -/

/-- C18 allocation bound, for EVERY schema kind (`Enum`, `Map`, `Schema` included), under the only
restriction that every reachable `Seq` element type has positive minimum encoded width
(`minWidthPos`; necessary: `alloc_seq_unit`, `dyn_alloc_bound_false`, and below
`alloc_map_seq_unit`, `alloc_enum_seq_unit`).  What `deserialize(s, bs)` allocates (as `allocDyn`
counts: `Value`s, `String` bytes, map entries), whether it succeeds or fails, is at most
`K * bs.length + C` with the explicit constants `K = C = allocW' s`. -/
theorem dyn_alloc_bound (fo : FloatOps) (s : Schema) (hs : minWidthPos s = true) (bs : List Byte) :
    allocDyn fo s bs ≤ allocW' s * bs.length + allocW' s := by
  have := ABG_le (ab_val' fo s hs bs)
  rw [Nat.mul_add, Nat.mul_one] at this
  exact this

/-- under the same hypothesis a successful decode consumes at least `minWidth s` bytes, and the
allocation is bounded by the bytes CONSUMED (not just by those offered). -/
theorem dyn_alloc_bound_consumed (fo : FloatOps) (s : Schema) (hs : minWidthPos s = true)
    (bs : List Byte) (j : Json) (r : List Byte) (h : dynDe fo s bs = .ok (j, r)) :
    r.length + minWidth s ≤ bs.length ∧
    allocDyn fo s bs ≤ allocW' s * (bs.length - r.length) + allocW' s := by
  have := ab_val' fo s hs bs
  rw [h] at this
  simp only [ABG] at this
  rw [Nat.mul_add, Nat.mul_one] at this
  exact this

/-- the `Schema` kind alone: decoding an embedded schema value allocates at most 14 per consumed
byte. -/
theorem dyn_alloc_schema_kind (fo : FloatOps) (bs : List Byte) :
    allocDyn fo .schema bs ≤ 14 * bs.length + 14 :=
  dyn_alloc_bound fo .schema rfl bs

/- `allocFrag` (Props/C18) is a sub-fragment of `minWidthPos`, with the same weight: the theorem
above subsumes `dyn_alloc_bound_partial_frag`. -/
mutual
theorem frag_sub : (s : Schema) → allocFrag s = true → minWidthPos s = true ∧ allocW' s = allocW s
  | .option t, h => by
    simp only [allocFrag] at h; simp only [minWidthPos, allocW', allocW]; exact frag_sub t h
  | .seq t, h => by
    simp [allocFrag] at h
    have := frag_sub t h.2
    simp [minWidthPos, allocW', allocW, h.1, this.1, this.2]
  | .tuple ts, h => by
    simp only [allocFrag] at h
    have := frag_sub_list ts h
    simp [minWidthPos, allocW', allocW, this.1, this.2]
  | .struct _ d, h => by
    simp only [allocFrag] at h
    have := frag_sub_data d h
    simp [minWidthPos, allocW', allocW, this.1, this.2]
  | .map _ _, h => by simp [allocFrag] at h
  | .enum _ _, h => by simp [allocFrag] at h
  | .schema, h => by simp [allocFrag] at h
  | .bool, _ | .i8, _ | .u8, _ | .i16, _ | .i32, _ | .i64, _ | .i128, _ | .u16, _ | .u32, _
  | .u64, _ | .u128, _ | .usize, _ | .isize, _ | .f32, _ | .f64, _ | .char, _ | .string, _
  | .byteArray, _ | .unit, _ => by simp [minWidthPos, allocW', allocW]
theorem frag_sub_list : (ts : List Schema) → allocFragList ts = true →
    minWidthPosList ts = true ∧ allocW'List ts = allocWList ts
  | [], _ => by simp [minWidthPosList, allocW'List, allocWList]
  | t :: ts, h => by
    simp [allocFragList] at h
    have h1 := frag_sub t h.1
    have h2 := frag_sub_list ts h.2
    simp [minWidthPosList, allocW'List, allocWList, h1.1, h1.2, h2.1, h2.2]
theorem frag_sub_data : (d : SData) → allocFragData d = true →
    minWidthPosData d = true ∧ allocW'Data d = allocWData d
  | .unit, _ => by simp [minWidthPosData, allocW'Data, allocWData]
  | .newtype t, h => by
    simp only [allocFragData] at h
    simp only [minWidthPosData, allocW'Data, allocWData]; exact frag_sub t h
  | .tuple ts, h => by
    simp only [allocFragData] at h
    have := frag_sub_list ts h
    simp [minWidthPosData, allocW'Data, allocWData, this.1, this.2]
  | .struct fs, h => by
    simp only [allocFragData] at h
    have := frag_sub_fields fs h
    simp [minWidthPosData, allocW'Data, allocWData, this.1, this.2]
theorem frag_sub_fields : (fs : List SField) → allocFragFields fs = true →
    minWidthPosFields fs = true ∧ allocW'Fields fs = allocWFields fs
  | [], _ => by simp [minWidthPosFields, allocW'Fields, allocWFields]
  | .mk n t :: fs, h => by
    simp [allocFragFields] at h
    have h1 := frag_sub t h.1
    have h2 := frag_sub_fields fs h.2
    simp [minWidthPosFields, allocW'Fields, allocWFields, h1.1, h1.2, h2.1, h2.2]
end

end Postcard

namespace Postcard
open Dyn DynA

/-! ## necessity of `minWidthPos` below `Map` and `Enum`; non-vacuity -/

/-- UNREPAIRED (same finding as `alloc_seq_unit`, reached through a `Map` value): the condition on
`Seq` elements cannot be dropped below a `Map` with `String` keys — `n + 1` `Value`s from at most
12 bytes. -/
theorem alloc_map_seq_unit (fo : FloatOps) {n : Nat} (h : n < 2 ^ 64) :
    n + 1 ≤ allocDyn fo (.map .string (.seq .unit)) (1 :: 0 :: encVarint 64 n) ∧
    (1 :: 0 :: encVarint 64 n).length ≤ 12 := by
  obtain ⟨ha, hd, hl⟩ := alloc_seq_unit fo h
  have hv1 : dynTakeVarint 64 (1 :: 0 :: encVarint 64 n) = .ok (1, 0 :: encVarint 64 n) := rfl
  have hv0 : dynTakeVarint 64 (0 :: encVarint 64 n) = .ok (0, encVarint 64 n) := rfl
  have hn : dynTakeN 0 (encVarint 64 n) = .ok ([], encVarint 64 n) := by simp [dynTakeN]
  have hu : utf8Valid [] = true := by decide
  refine ⟨?_, by simp only [List.length_cons]; omega⟩
  rw [allocDyn, hv1]
  simp only [allocKvs, hv0, hn, ha, hd, hu, if_true]
  omega

/-- the same through an `Enum` variant. -/
theorem alloc_enum_seq_unit (fo : FloatOps) {n : Nat} (h : n < 2 ^ 64) :
    n + 1 ≤ allocDyn fo (.enum [69] [.mk [65] (.newtype (.seq .unit))]) (0 :: encVarint 64 n) ∧
    (0 :: encVarint 64 n).length ≤ 11 := by
  obtain ⟨ha, hd, hl⟩ := alloc_seq_unit fo h
  have hv0 : dynTakeVarint 64 (0 :: encVarint 64 n) = .ok (0, encVarint 64 n) := rfl
  refine ⟨?_, by simp only [List.length_cons]; omega⟩
  rw [allocDyn, hv0]
  simp only [allocVariant, ha, hd]
  omega

/-- `minWidthPos` excludes exactly these shapes … -/
example : minWidthPos (.map .string (.seq .unit)) = false ∧
    minWidthPos (.enum [69] [.mk [65] (.newtype (.seq .unit))]) = false ∧
    minWidthPos (.seq (.tuple [])) = false ∧ minWidthPos (.option (.seq (.struct [83] .unit))) = false := by
  decide

/-- … and nothing else about `Map`/`Enum`/`Schema`: a `Map` VALUE type and an `Enum` variant may
have zero width (each map entry consumes the byte of its key length, the enum its tag); a `Seq`
of enums, maps or schemas is fine; a `Map` with a non-`String` key is rejected before anything
is allocated. -/
example : minWidthPos (.map .string .unit) = true ∧
    minWidthPos (.seq (.enum [69] [.mk [65] .unit, .mk [66] (.tuple [])])) = true ∧
    minWidthPos (.seq (.map .string (.tuple []))) = true ∧
    minWidthPos (.seq .schema) = true ∧
    minWidthPos (.map .u8 (.seq .unit)) = true := by decide

/-- a schema with `Enum`, `Map` and `Schema`-kind nodes (and a `Seq` inside the map). -/
def exSchema : Schema :=
  .enum [69] [.mk [65] .unit,
              .mk [66, 66] (.newtype (.map .string (.seq .u8))),
              .mk [67] (.struct [.mk [120] .schema, .mk [121] (.option .bool)]),
              .mk [68] (.tuple [.string, .map .string .unit])]

example : minWidthPos exSchema = true := by decide
example : allocW' exSchema = 24 := by decide
example : allocW' (.map .string (.seq .u8)) = 5 ∧ allocW' .schema = 14 ∧
    allocW' (.seq (.enum [69] [.mk [65] .unit, .mk [66, 66] (.newtype .u8)])) = 13 ∧
    allocW' (.map .string (.map .string .schema)) = 18 := by decide

/-- variant 1 (`BB`), a map with the one entry `"k" ↦ [7, 8]`: 10 units allocated from 7 bytes
(2 numbers + the array, the key byte + the entry + the map, the 2 bytes of the variant name + the
wrapper object and its entry); the bound gives `24 * 7 + 24`. -/
example : dynDe foTrivial exSchema [1, 1, 1, 107, 2, 7, 8] =
    .ok (.obj [([66, 66], .obj [([107], .arr [.posInt 7, .posInt 8])])], []) := rfl
example : allocDyn foTrivial exSchema [1, 1, 1, 107, 2, 7, 8] = 10 := by decide
example : allocDyn foTrivial exSchema [1, 1, 1, 107, 2, 7, 8] ≤
    allocW' exSchema * [1, 1, 1, 107, 2, 7, 8].length + allocW' exSchema :=
  dyn_alloc_bound foTrivial exSchema (by decide) _

/-- variant 2 (`C`): an embedded schema value `Option(Map{key: String, val: U8})` (bytes
`18 22 16 2`) and `Some(true)`: the `Value` tree of the schema costs 32 from 4 bytes (≤ 14 * 4). -/
example : allocDyn foTrivial .schema [18, 22, 16, 2] = 32 := by decide
example : allocDyn foTrivial exSchema [2, 18, 22, 16, 2, 1, 1] = 41 := by decide

/-- a failing decode is covered too (the claimed map length 200 is never pre-allocated). -/
example : dynDe foTrivial exSchema [1, 200, 1, 1, 107, 2, 7, 8] = .error .unexpectedEnd := rfl
example : allocDyn foTrivial exSchema [1, 200, 1, 1, 107, 2, 7, 8] = 5 := by decide

end Postcard

