import Postcard.Model.Varint
import Postcard.Model.Utf8
import Postcard.Model.Ser
import Postcard.Model.De
import Postcard.Spec.Wire
/-
  Postcard.Lemmas.Codec — leaf codec facts: zig-zag, fixed-width little-endian,
  i8 two's complement, UTF-8 encode/decode.
-/
namespace Postcard

/-! ## A. zig-zag -/

private theorem int_two_pow_split {bits : Nat} (hb : 0 < bits) :
    (2 : Int) ^ bits = 2 * 2 ^ (bits - 1) := by
  have h : bits = (bits - 1) + 1 := by omega
  conv => lhs; rw [h]
  rw [Int.pow_succ]; omega

private theorem nat_two_pow_split {bits : Nat} (hb : 0 < bits) :
    (2 : Nat) ^ bits = 2 * 2 ^ (bits - 1) := by
  have h : bits = (bits - 1) + 1 := by omega
  conv => lhs; rw [h]
  rw [Nat.pow_succ]; omega

private theorem int_two_pow_cast (k : Nat) : ((2 ^ k : Nat) : Int) = (2 : Int) ^ k := by
  simp

private theorem zigzag_aux {bits : Nat} {x : Int} (hb : 0 < bits)
    (hx : -(2^(bits-1) : Int) ≤ x ∧ x < (2^(bits-1) : Int)) :
    (zigzag bits x : Int) = if 0 ≤ x then 2 * x else -2 * x - 1 := by
  unfold zigzag
  have hp := int_two_pow_split hb
  have hn := nat_two_pow_split hb
  have hc : ((2 ^ (bits - 1) : Nat) : Int) = (2 : Int) ^ (bits - 1) := int_two_pow_cast _
  have hpos : (0 : Int) < 2 ^ (bits - 1) := Int.pow_pos (by decide)
  simp only [hp, hn]
  generalize (2 : Int) ^ (bits - 1) = P at *
  generalize (2 : Nat) ^ (bits - 1) = Q at *
  subst hc
  obtain ⟨h1, h2⟩ := hx
  by_cases hneg : x < 0
  · have hm : (2 * x) % (2 * (Q : Int)) = 2 * x + 2 * Q := by
      rw [← Int.add_emod_right (2 * x) (2 * (Q:Int))]
      apply Int.emod_eq_of_lt <;> omega
    rw [hm]
    simp only [hneg, if_true]
    split <;> omega
  · have hm : (2 * x) % (2 * (Q : Int)) = 2 * x := by
      apply Int.emod_eq_of_lt <;> omega
    rw [hm]
    simp only [hneg, if_false]
    split <;> omega

theorem zigzag_eq_spec {bits : Nat} {x : Int} (hb : 0 < bits)
    (hx : -(2^(bits-1) : Int) ≤ x ∧ x < (2^(bits-1) : Int)) :
    zigzag bits x = Spec.zigzag x := by
  have h := zigzag_aux hb hx
  unfold Spec.zigzag
  split <;> rename_i h0 <;> simp only [h0, if_true, if_false] at h <;> omega

theorem zigzag_lt {bits : Nat} {x : Int} (hb : 0 < bits)
    (hx : -(2^(bits-1) : Int) ≤ x ∧ x < (2^(bits-1) : Int)) :
    zigzag bits x < 2 ^ bits := by
  have h := zigzag_aux hb hx
  have hn := nat_two_pow_split hb
  have hc : ((2 ^ (bits - 1) : Nat) : Int) = (2 : Int) ^ (bits - 1) := int_two_pow_cast _
  rw [hn]
  generalize (2 : Int) ^ (bits - 1) = P at *
  generalize (2 : Nat) ^ (bits - 1) = Q at *
  subst hc
  split at h <;> omega

theorem unzigzag_zigzag {bits : Nat} {x : Int} (hb : 0 < bits)
    (hx : -(2^(bits-1) : Int) ≤ x ∧ x < (2^(bits-1) : Int)) :
    unzigzag (zigzag bits x) = x := by
  have h := zigzag_aux hb hx
  generalize zigzag bits x = z at h
  unfold unzigzag
  split at h <;> split <;> omega

theorem unzigzag_range {bits n : Nat} (hb : 0 < bits) (hn : n < 2 ^ bits) :
    -(2^(bits-1) : Int) ≤ unzigzag n ∧ unzigzag n < (2^(bits-1) : Int) := by
  have hs := nat_two_pow_split hb
  have hc : ((2 ^ (bits - 1) : Nat) : Int) = (2 : Int) ^ (bits - 1) := int_two_pow_cast _
  rw [hs] at hn
  generalize (2 : Int) ^ (bits - 1) = P at *
  generalize (2 : Nat) ^ (bits - 1) = Q at *
  subst hc
  unfold unzigzag
  split <;> omega

theorem zigzag_unzigzag {bits n : Nat} (hb : 0 < bits) (hn : n < 2 ^ bits) :
    zigzag bits (unzigzag n) = n := by
  have hr := unzigzag_range hb hn
  have h := zigzag_aux hb hr
  generalize zigzag bits (unzigzag n) = z at h
  revert h
  unfold unzigzag
  split <;> split <;> omega

/-! ### convenience wrappers for `IntW` -/

theorem IntW.bits_pos (w : IntW) : 0 < w.bits := by cases w <;> decide

theorem IntW.inRangeI_iff (w : IntW) (x : Int) :
    w.inRangeI x = true ↔ (-(2^(w.bits-1) : Int) ≤ x ∧ x < (2^(w.bits-1) : Int)) := by
  simp [IntW.inRangeI]

/-! ## B. fixed-width little-endian -/

theorem leBytes_length (k n : Nat) : (leBytes k n).length = k := by
  induction k generalizing n with
  | zero => rfl
  | succ k ih => simp [leBytes, ih]

theorem ofLeBytes_leBytes {k n : Nat} (h : n < 256 ^ k) : ofLeBytes (leBytes k n) = n := by
  induction k generalizing n with
  | zero => simp [leBytes, ofLeBytes] at h ⊢; omega
  | succ k ih =>
    have h' : n / 256 < 256 ^ k := by
      rw [Nat.pow_succ] at h
      exact Nat.div_lt_of_lt_mul (by rw [Nat.mul_comm]; exact h)
    simp only [leBytes, ofLeBytes, ih h', UInt8.toNat_ofNat']
    omega

theorem ofLeBytes_lt (bs : List Byte) : ofLeBytes bs < 256 ^ bs.length := by
  induction bs with
  | nil => simp [ofLeBytes]
  | cons b bs ih =>
    have hb := UInt8.toNat_lt b
    simp only [ofLeBytes, List.length_cons, Nat.pow_succ]
    generalize 256 ^ bs.length = P at *
    omega

theorem leBytes_ofLeBytes (bs : List Byte) : leBytes bs.length (ofLeBytes bs) = bs := by
  induction bs with
  | nil => rfl
  | cons b bs ih =>
    have hb := UInt8.toNat_lt b
    simp only [ofLeBytes, List.length_cons, leBytes]
    have h1 : (b.toNat + 256 * ofLeBytes bs) % 256 = b.toNat := by omega
    have h2 : (b.toNat + 256 * ofLeBytes bs) / 256 = ofLeBytes bs := by omega
    rw [h1, h2, ih, UInt8.ofNat_toNat]

theorem leBytes_eq_spec (k n : Nat) : leBytes k n = Spec.le k n := by
  induction k generalizing n with
  | zero => rfl
  | succ k ih => simp [leBytes, Spec.le, ih]

/-! ### i8 two's complement -/

theorem toBits8_eq_spec {x : Int} (h : -128 ≤ x ∧ x < 128) : toBits 8 x = Spec.twos8 x := by
  unfold toBits Spec.twos8
  have : ((2 : Int) ^ 8) = 256 := by decide
  rw [this]
  split <;> omega

private theorem toBits8_lt (x : Int) : toBits 8 x < 256 := by
  unfold toBits
  have : ((2 : Int) ^ 8) = 256 := by decide
  rw [this]
  omega

theorem ofBits_toBits8 {x : Int} (h : -128 ≤ x ∧ x < 128) :
    ofBits 8 ((UInt8.ofNat (toBits 8 x)).toNat) = x := by
  have hlt := toBits8_lt x
  rw [UInt8.toNat_ofNat']
  have hm : toBits 8 x % 2 ^ 8 = toBits 8 x := Nat.mod_eq_of_lt hlt
  rw [hm]
  unfold ofBits toBits
  have h1 : ((2 : Int) ^ 8) = 256 := by decide
  have h2 : ((2 : Nat) ^ (8 - 1)) = 128 := by decide
  rw [h1, h2]
  split <;> omega

theorem ofBits8_range (b : UInt8) : -128 ≤ ofBits 8 b.toNat ∧ ofBits 8 b.toNat < 128 := by
  have hb := UInt8.toNat_lt b
  unfold ofBits
  have h1 : ((2 : Int) ^ 8) = 256 := by decide
  have h2 : ((2 : Nat) ^ (8 - 1)) = 128 := by decide
  rw [h1, h2]
  split <;> omega

theorem toBits_ofBits8 (b : UInt8) : UInt8.ofNat (toBits 8 (ofBits 8 b.toNat)) = b := by
  have hb := UInt8.toNat_lt b
  have : toBits 8 (ofBits 8 b.toNat) = b.toNat := by
    unfold ofBits toBits
    have h1 : ((2 : Int) ^ 8) = 256 := by decide
    have h2 : ((2 : Nat) ^ (8 - 1)) = 128 := by decide
    rw [h1, h2]
    split <;> omega
  rw [this, UInt8.ofNat_toNat]

/-! ## C. UTF-8 -/

theorem utf8Encode_length_le (c : Nat) : (utf8Encode c).length ≤ 4 := by
  unfold utf8Encode
  split
  · simp
  · split
    · simp
    · split <;> simp

theorem utf8Encode_length_pos (c : Nat) : 0 < (utf8Encode c).length := by
  unfold utf8Encode
  split
  · simp
  · split
    · simp
    · split <;> simp

private theorem next1 {c : Nat} (h : c < 0x80) (rest : List Byte) :
    utf8Next (UInt8.ofNat c :: rest) = some (c, rest) := by
  have h0 : (UInt8.ofNat c).toNat = c := by rw [UInt8.toNat_ofNat']; omega
  simp only [utf8Next, h0, h, if_true]

theorem isCont_iff (b : Byte) : isCont b = true ↔ 0x80 ≤ b.toNat ∧ b.toNat ≤ 0xBF := by
  simp [isCont]

private theorem some_pair_eq {α β} {a a' : α} {b : β} (h : a = a') : some (a, b) = some (a', b) := by
  rw [h]

private theorem next2 {c : Nat} (hl : ¬ c < 0x80) (h : c < 0x800) (rest : List Byte) :
    utf8Next (UInt8.ofNat (0xC0 + c / 64) :: UInt8.ofNat (0x80 + c % 64) :: rest) = some (c, rest) := by
  have h0 : (UInt8.ofNat (0xC0 + c / 64)).toNat = 0xC0 + c / 64 := by rw [UInt8.toNat_ofNat']; omega
  have h1 : (UInt8.ofNat (0x80 + c % 64)).toNat = 0x80 + c % 64 := by rw [UInt8.toNat_ofNat']; omega
  simp only [utf8Next, isCont_iff, h0, h1]
  rw [if_neg (by omega), if_pos (by omega), if_pos (by omega)]
  exact some_pair_eq (by omega)

private theorem next3 {c : Nat} (hl : ¬ c < 0x800) (h : c < 0x10000) (hs : isScalar c = true) (rest : List Byte) :
    utf8Next (UInt8.ofNat (0xE0 + c / 4096) :: UInt8.ofNat (0x80 + c / 64 % 64) :: UInt8.ofNat (0x80 + c % 64) :: rest) = some (c, rest) := by
  have h0 : (UInt8.ofNat (0xE0 + c / 4096)).toNat = 0xE0 + c / 4096 := by rw [UInt8.toNat_ofNat']; omega
  have h1 : (UInt8.ofNat (0x80 + c / 64 % 64)).toNat = 0x80 + c / 64 % 64 := by rw [UInt8.toNat_ofNat']; omega
  have h2 : (UInt8.ofNat (0x80 + c % 64)).toNat = 0x80 + c % 64 := by rw [UInt8.toNat_ofNat']; omega
  simp [isScalar] at hs
  simp only [utf8Next, isCont_iff, h0, h1, h2]
  rw [if_neg (by omega), if_neg (by omega), if_pos (by omega), if_pos (by split <;> split <;> omega)]
  exact some_pair_eq (by omega)

private theorem next4 {c : Nat} (hl : ¬ c < 0x10000) (hs : isScalar c = true) (rest : List Byte) :
    utf8Next (UInt8.ofNat (0xF0 + c / 262144) :: UInt8.ofNat (0x80 + c / 4096 % 64) :: UInt8.ofNat (0x80 + c / 64 % 64) :: UInt8.ofNat (0x80 + c % 64) :: rest) = some (c, rest) := by
  simp [isScalar] at hs
  have h0 : (UInt8.ofNat (0xF0 + c / 262144)).toNat = 0xF0 + c / 262144 := by rw [UInt8.toNat_ofNat']; omega
  have h1 : (UInt8.ofNat (0x80 + c / 4096 % 64)).toNat = 0x80 + c / 4096 % 64 := by rw [UInt8.toNat_ofNat']; omega
  have h2 : (UInt8.ofNat (0x80 + c / 64 % 64)).toNat = 0x80 + c / 64 % 64 := by rw [UInt8.toNat_ofNat']; omega
  have h3 : (UInt8.ofNat (0x80 + c % 64)).toNat = 0x80 + c % 64 := by rw [UInt8.toNat_ofNat']; omega
  simp only [utf8Next, isCont_iff, h0, h1, h2, h3]
  rw [if_neg (by omega), if_neg (by omega), if_neg (by omega), if_pos (by omega), if_pos (by split <;> split <;> omega)]
  exact some_pair_eq (by omega)

theorem utf8Next_encode {c : Nat} (h : isScalar c = true) (rest : List Byte) :
    utf8Next (utf8Encode c ++ rest) = some (c, rest) := by
  unfold utf8Encode
  split
  · next h1 => exact next1 h1 rest
  · split
    · next h1 h2 => exact next2 h1 h2 rest
    · split
      · next h1 h2 h3 => exact next3 h2 h3 h rest
      · next h1 h2 h3 => exact next4 h3 h rest

private theorem ofNat_eq_of_toNat {b : Byte} {n : Nat} (h : n = b.toNat) : UInt8.ofNat n = b := by
  subst h; exact UInt8.ofNat_toNat

private theorem isScalar_iff (c : Nat) : isScalar c = true ↔ (c < 0xD800 ∨ (0xE000 ≤ c ∧ c < 0x110000)) := by
  simp [isScalar]

private theorem enc1 (b0 : Byte) (h0 : b0.toNat < 128) :
    isScalar b0.toNat = true ∧ utf8Encode b0.toNat = [b0] := by
  refine ⟨(isScalar_iff _).2 (by omega), ?_⟩
  unfold utf8Encode
  rw [if_pos h0, UInt8.ofNat_toNat]

private theorem enc2 (b0 b1 : Byte) {c : Nat} (h0 : 194 ≤ b0.toNat ∧ b0.toNat ≤ 223)
    (h1 : 128 ≤ b1.toNat ∧ b1.toNat ≤ 191)
    (hc : (b0.toNat - 192) * 64 + (b1.toNat - 128) = c) :
    isScalar c = true ∧ utf8Encode c = [b0, b1] := by
  refine ⟨(isScalar_iff _).2 (by omega), ?_⟩
  unfold utf8Encode
  rw [if_neg (by omega), if_pos (by omega),
    ofNat_eq_of_toNat (b := b0) (by omega), ofNat_eq_of_toNat (b := b1) (by omega)]

private theorem enc3 (b0 b1 b2 : Byte) {c : Nat} (h0 : 224 ≤ b0.toNat ∧ b0.toNat ≤ 239)
    (h1 : (if b0.toNat = 224 then 160 else 128) ≤ b1.toNat ∧
          b1.toNat ≤ (if b0.toNat = 237 then 159 else 191))
    (h2 : 128 ≤ b2.toNat ∧ b2.toNat ≤ 191)
    (hc : (b0.toNat - 224) * 4096 + (b1.toNat - 128) * 64 + (b2.toNat - 128) = c) :
    isScalar c = true ∧ utf8Encode c = [b0, b1, b2] := by
  have h1' : 128 ≤ b1.toNat ∧ b1.toNat ≤ 191 ∧ (b0.toNat = 224 → 160 ≤ b1.toNat)
      ∧ (b0.toNat = 237 → b1.toNat ≤ 159) := by
    revert h1; split <;> split <;> omega
  clear h1
  refine ⟨(isScalar_iff _).2 (by omega), ?_⟩
  unfold utf8Encode
  rw [if_neg (by omega), if_neg (by omega), if_pos (by omega),
    ofNat_eq_of_toNat (b := b0) (by omega), ofNat_eq_of_toNat (b := b1) (by omega),
    ofNat_eq_of_toNat (b := b2) (by omega)]

private theorem enc4 (b0 b1 b2 b3 : Byte) {c : Nat} (h0 : 240 ≤ b0.toNat ∧ b0.toNat ≤ 244)
    (h1 : (if b0.toNat = 240 then 144 else 128) ≤ b1.toNat ∧
          b1.toNat ≤ (if b0.toNat = 244 then 143 else 191))
    (h2 : 128 ≤ b2.toNat ∧ b2.toNat ≤ 191) (h3 : 128 ≤ b3.toNat ∧ b3.toNat ≤ 191)
    (hc : (b0.toNat - 240) * 262144 + (b1.toNat - 128) * 4096 + (b2.toNat - 128) * 64
          + (b3.toNat - 128) = c) :
    isScalar c = true ∧ utf8Encode c = [b0, b1, b2, b3] := by
  have h1' : 128 ≤ b1.toNat ∧ b1.toNat ≤ 191 ∧ (b0.toNat = 240 → 144 ≤ b1.toNat)
      ∧ (b0.toNat = 244 → b1.toNat ≤ 143) := by
    revert h1; split <;> split <;> omega
  clear h1
  refine ⟨(isScalar_iff _).2 (by omega), ?_⟩
  unfold utf8Encode
  rw [if_neg (by omega), if_neg (by omega), if_neg (by omega),
    ofNat_eq_of_toNat (b := b0) (by omega), ofNat_eq_of_toNat (b := b1) (by omega),
    ofNat_eq_of_toNat (b := b2) (by omega), ofNat_eq_of_toNat (b := b3) (by omega)]

theorem utf8Next_sound {bs rest : List Byte} {c : Nat} (h : utf8Next bs = some (c, rest)) :
    isScalar c = true ∧ bs = utf8Encode c ++ rest := by
  match bs, h with
  | [], h => simp [utf8Next] at h
  | b0 :: t, h =>
    simp only [utf8Next, isCont_iff] at h
    split at h
    · next h0 =>
      simp only [Option.some.injEq, Prod.mk.injEq] at h
      obtain ⟨rfl, rfl⟩ := h
      have := enc1 b0 h0
      simp [this]
    · split at h
      · next h0 =>
        split at h
        · next b1 r =>
          simp only [Option.ite_none_right_eq_some, Option.some.injEq, Prod.mk.injEq] at h
          obtain ⟨h1, hc, rfl⟩ := h
          have := enc2 b0 b1 h0 h1 hc
          simp [this]
        · simp at h
      · split at h
        · next h0 =>
          split at h
          · next b1 b2 r =>
            simp only [Option.ite_none_right_eq_some, Option.some.injEq, Prod.mk.injEq] at h
            obtain ⟨h1, hc, rfl⟩ := h
            have := enc3 b0 b1 b2 h0 ⟨h1.1, h1.2.1⟩ h1.2.2 hc
            simp [this]
          · simp at h
        · split at h
          · next h0 =>
            split at h
            · next b1 b2 b3 r =>
              simp only [Option.ite_none_right_eq_some, Option.some.injEq, Prod.mk.injEq] at h
              obtain ⟨h1, hc, rfl⟩ := h
              have := enc4 b0 b1 b2 b3 h0 ⟨h1.1, h1.2.1⟩ h1.2.2.1 h1.2.2.2 hc
              simp [this]
            · simp at h
          · simp at h

theorem utf8Next_length {bs rest : List Byte} {c : Nat} (h : utf8Next bs = some (c, rest)) :
    rest.length < bs.length := by
  obtain ⟨_, rfl⟩ := utf8Next_sound h
  have := utf8Encode_length_pos c
  simp only [List.length_append]
  omega

theorem utf8Next_append {bs rest : List Byte} {c : Nat} (h : utf8Next bs = some (c, rest))
    (tl : List Byte) : utf8Next (bs ++ tl) = some (c, rest ++ tl) := by
  obtain ⟨hs, rfl⟩ := utf8Next_sound h
  rw [List.append_assoc]
  exact utf8Next_encode hs _

theorem utf8ValidFuel_eq {fuel : Nat} {bs : List Byte} (h : bs.length ≤ fuel) :
    utf8ValidFuel fuel bs = utf8Valid bs := by
  suffices H : ∀ (n f1 f2 : Nat) (bs : List Byte), bs.length ≤ n → bs.length ≤ f1 → bs.length ≤ f2 →
      utf8ValidFuel f1 bs = utf8ValidFuel f2 bs from
    H bs.length fuel bs.length bs (Nat.le_refl _) h (Nat.le_refl _)
  intro n
  induction n with
  | zero =>
    intro f1 f2 bs h0 _ _
    have : bs = [] := List.eq_nil_of_length_eq_zero (by omega)
    subst this
    cases f1 <;> cases f2 <;> rfl
  | succ n ih =>
    intro f1 f2 bs h0 h1 h2
    match bs, f1, f2, h0, h1, h2 with
    | [], f1, f2, _, _, _ => cases f1 <;> cases f2 <;> rfl
    | b :: t, 0, _, _, h1, _ => simp at h1
    | b :: t, _, 0, _, _, h2 => simp at h2
    | b :: t, f1+1, f2+1, h0, h1, h2 =>
      simp only [utf8ValidFuel]
      cases hn : utf8Next (b :: t) with
      | none => rfl
      | some p =>
        obtain ⟨c, r⟩ := p
        have hl := utf8Next_length hn
        simp only [List.length_cons] at hl h0 h1 h2
        exact ih f1 f2 r (by omega) (by omega) (by omega)

theorem utf8Valid_nil : utf8Valid [] = true := rfl

theorem utf8Valid_of_next {bs rest : List Byte} {c : Nat} (h : utf8Next bs = some (c, rest)) :
    utf8Valid bs = utf8Valid rest := by
  have hl := utf8Next_length h
  match bs, h, hl with
  | b :: t, h, hl =>
    simp only [List.length_cons] at hl
    show utf8ValidFuel (t.length + 1) (b :: t) = _
    simp only [utf8ValidFuel, h]
    exact utf8ValidFuel_eq (by omega)

theorem utf8Valid_of_next_none {bs : List Byte} (hne : bs ≠ []) (h : utf8Next bs = none) :
    utf8Valid bs = false := by
  match bs, hne, h with
  | b :: t, _, h =>
    show utf8ValidFuel (t.length + 1) (b :: t) = _
    simp only [utf8ValidFuel, h]

theorem utf8Valid_encode_append {c : Nat} (h : isScalar c = true) (rest : List Byte) :
    utf8Valid (utf8Encode c ++ rest) = utf8Valid rest :=
  utf8Valid_of_next (utf8Next_encode h rest)

theorem utf8Valid_encode {c : Nat} (h : isScalar c = true) : utf8Valid (utf8Encode c) = true := by
  have := utf8Valid_encode_append h []
  rwa [List.append_nil] at this

theorem utf8Valid_append {a b : List Byte} (ha : utf8Valid a = true) :
    utf8Valid (a ++ b) = utf8Valid b := by
  suffices H : ∀ (n : Nat) (a : List Byte), a.length ≤ n → utf8Valid a = true →
      utf8Valid (a ++ b) = utf8Valid b from H a.length a (Nat.le_refl _) ha
  intro n
  induction n with
  | zero =>
    intro a h0 _
    have : a = [] := List.eq_nil_of_length_eq_zero (by omega)
    subst this; rfl
  | succ n ih =>
    intro a h0 hv
    match a, h0, hv with
    | [], _, _ => rfl
    | x :: t, h0, hv =>
      cases hn : utf8Next (x :: t) with
      | none => rw [utf8Valid_of_next_none (by simp) hn] at hv; cases hv
      | some p =>
        obtain ⟨c, r⟩ := p
        have hl := utf8Next_length hn
        simp only [List.length_cons] at hl h0
        rw [utf8Valid_of_next hn] at hv
        rw [utf8Valid_of_next (utf8Next_append hn b)]
        exact ih r (by omega) hv

end Postcard
