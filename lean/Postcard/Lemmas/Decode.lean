import Postcard.Model.De
import Postcard.Model.Ser
import Postcard.Spec.Permitted
import Postcard.Lemmas.Varint
import Postcard.Lemmas.Codec
/-
  Postcard.Lemmas.Decode — helper lemmas about the decoder model used by
  Props/C03 and Props/C04: list prefixes, `takeN`, the widths, the shape of
  the `Except` matches the decoder is written with.
-/
namespace Postcard

/-! ## list prefixes -/

/-- a strict prefix of `a ++ b` is a strict prefix of `a`, or `a` followed by a
strict prefix of `b`. -/
theorem prefix_append_cases {α : Type} {q a b : List α} (h : q <+: a ++ b) (hne : q ≠ a ++ b) :
    (q <+: a ∧ q ≠ a) ∨ ∃ q2, q = a ++ q2 ∧ q2 <+: b ∧ q2 ≠ b := by
  induction a generalizing q with
  | nil => exact .inr ⟨q, rfl, by simpa using h, by simpa using hne⟩
  | cons x a ih =>
    cases q with
    | nil => exact .inl ⟨List.nil_prefix, by simp⟩
    | cons y q =>
      rw [List.cons_append, List.cons_prefix_cons] at h
      obtain ⟨rfl, h⟩ := h
      have hne' : q ≠ a ++ b := fun e => hne (by rw [e]; rfl)
      rcases ih h hne' with ⟨h1, h2⟩ | ⟨q2, rfl, h1, h2⟩
      · exact .inl ⟨by rw [List.cons_prefix_cons]; exact ⟨rfl, h1⟩, fun e => h2 (by injection e)⟩
      · exact .inr ⟨q2, rfl, h1, h2⟩

theorem prefix_length_lt {α : Type} {q p : List α} (h : q <+: p) (hne : q ≠ p) :
    q.length < p.length := by
  obtain ⟨t, rfl⟩ := h
  cases t with
  | nil => simp at hne
  | cons x t => simp

theorem prefix_nil_of_ne {α : Type} {q : List α} (h : q <+: []) (hne : q ≠ []) : False :=
  hne (List.prefix_nil.1 h)

theorem prefix_singleton {α : Type} {q : List α} {a : α} (h : q <+: [a]) (hne : q ≠ [a]) :
    q = [] := by
  cases q with
  | nil => rfl
  | cons y q =>
    rw [List.cons_prefix_cons] at h
    obtain ⟨rfl, h⟩ := h
    rw [List.prefix_nil] at h
    subst h
    exact absurd rfl hne

theorem prefix_cons_cases {α : Type} {q p : List α} {a : α} (h : q <+: a :: p) (hne : q ≠ a :: p) :
    q = [] ∨ ∃ q2, q = a :: q2 ∧ q2 <+: p ∧ q2 ≠ p := by
  cases q with
  | nil => exact .inl rfl
  | cons y q =>
    rw [List.cons_prefix_cons] at h
    obtain ⟨rfl, h⟩ := h
    exact .inr ⟨q, rfl, h, fun e => hne (by rw [e])⟩

/-! ## widths -/

theorem widthOk16 : WidthOk 16 := .inl rfl
theorem widthOk32 : WidthOk 32 := .inr (.inl rfl)
theorem widthOk64 : WidthOk 64 := .inr (.inr (.inl rfl))
theorem widthOk128 : WidthOk 128 := .inr (.inr (.inr rfl))

theorem IntW.widthOk {w : IntW} (h : w ≠ .w8) : WidthOk w.bits := by
  cases w
  · exact absurd rfl h
  · exact widthOk16
  · exact widthOk32
  · exact widthOk64
  · exact widthOk128

/-! ## `takeN` -/

theorem takeN_ok_iff {n : Nat} {bs s r : List Byte} :
    takeN n bs = .ok (s, r) ↔ bs = s ++ r ∧ s.length = n := by
  unfold takeN
  split
  · next h =>
    constructor
    · intro h'; cases h'
    · rintro ⟨rfl, rfl⟩; simp at h; omega
  · next h =>
    simp only [Except.ok.injEq, Prod.mk.injEq]
    constructor
    · rintro ⟨rfl, rfl⟩
      exact ⟨(List.take_append_drop n bs).symm, by simp; omega⟩
    · rintro ⟨rfl, rfl⟩
      simp

theorem takeN_append (s r : List Byte) : takeN s.length (s ++ r) = .ok (s, r) :=
  takeN_ok_iff.2 ⟨rfl, rfl⟩

theorem takeN_error_iff {n : Nat} {bs : List Byte} {e : Err} :
    takeN n bs = .error e ↔ e = .unexpectedEnd ∧ bs.length < n := by
  unfold takeN
  split
  · next h => simp [h, eq_comm]
  · next h => simp [h]

theorem takeN_short {n : Nat} {bs : List Byte} (h : bs.length < n) :
    takeN n bs = .error .unexpectedEnd :=
  takeN_error_iff.2 ⟨rfl, h⟩

/-! ## unfolding the integer cases of `dec` at a symbolic width -/

theorem dec_uN {w : IntW} (hw : w ≠ .w8) (bs : List Byte) :
    dec (.u w) bs = match decVarint w.bits bs with
      | .error e => .error e
      | .ok (n, r) => .ok (.u w n, r) := by
  cases w
  · exact absurd rfl hw
  all_goals rfl

theorem dec_iN {w : IntW} (hw : w ≠ .w8) (bs : List Byte) :
    dec (.i w) bs = match decVarint w.bits bs with
      | .error e => .error e
      | .ok (n, r) => .ok (.i w (unzigzag n), r) := by
  cases w
  · exact absurd rfl hw
  all_goals rfl

/-- `decVariant` walks to element `k` of the variant list. -/
theorem decVariant_none : ∀ (vts : List Ty) (k idx : Nat) (bs : List Byte),
    vts[k]? = none → decVariant vts k idx bs = .error .custom
  | [], _, _, _, _ => by simp only [decVariant]
  | _ :: _, 0, _, _, h => by simp at h
  | _ :: rest, k+1, idx, bs, h => by
    simp only [decVariant]
    exact decVariant_none rest k idx bs (by simpa using h)

theorem decVariant_some : ∀ (vts : List Ty) (k idx : Nat) (bs : List Byte) (vt : Ty),
    vts[k]? = some vt → decVariant vts k idx bs = decVariant [vt] 0 idx bs
  | [], _, _, _, _, h => by simp at h
  | v :: rest, 0, idx, bs, vt, h => by
    simp at h; subst h
    cases v <;> simp only [decVariant]
  | _ :: rest, k+1, idx, bs, vt, h => by
    simp only [decVariant]
    exact decVariant_some rest k idx bs vt (by simpa using h)

end Postcard
