import Postcard.Lemmas.Flavor
import Postcard.Lemmas.Cobs
import Postcard.Lemmas.Crc
/-
  Postcard.Lemmas.Stack — helper lemmas for Props/C20 (stacked flavours).

  The unifying notion is `Flavor.runBytes F s bs`: drive `F` BYTE-WISE
  (`try_push` only, stopping at the first error) with `bs`, then `finalize`,
  with `serialize_with_flavor`'s error mapping.  It is "the byte-stream
  transformer computed by `F`".

    * `serializeWith_eq_runBytes` : a flavour that keeps the default
      `try_extend` (every modifier of the crate: `Cobs`, `CrcModifier`) is
      driven by the serializer exactly like `runBytes` on `enc v`.
    * `crcSer_defaultExtend`, `crcSer_feed`, `crcSer_finalize_eq`,
      `crcSer_serializeWith` : the CRC modifier over ANY inner flavour `G` is
      `G.runBytes` on `enc v ++ checksum`.
    * `LawfulIdx.runBytes_ok` : a lawful storage with room returns its log.
    * `cobs_runBytes` : the COBS modifier over a lawful storage is
      `cobsEncode · ++ [0]`.
-/
namespace Postcard
open Spec

/-! ## the two spellings of "all bytes of a call sequence" -/

theorem chunkBytes_eq_chunkBytesF (cs : List Chunk) : chunkBytes cs = chunkBytesF cs := by
  induction cs with
  | nil => rfl
  | cons c cs ih => simp [chunkBytesF] at ih ⊢; rw [ih]

/-! ## `defaultExtend` (the trait's default `try_extend`) -/

theorem defaultExtend_nil {σ} (push : σ → Byte → σ × Option Err) (s : σ) :
    defaultExtend push s [] = (s, none) := rfl

theorem defaultExtend_singleton {σ} (push : σ → Byte → σ × Option Err) (s : σ) (b : Byte) :
    defaultExtend push s [b] = push s b := by
  simp only [defaultExtend]
  rcases push s b with ⟨s', _ | e⟩ <;> rfl

/-- a successful byte-wise write of `a ++ b` is a successful write of `a`
followed by a successful write of `b`. -/
theorem defaultExtend_append_ok {σ} {push : σ → Byte → σ × Option Err} {s s2 : σ}
    {a b : List Byte} (h : defaultExtend push s (a ++ b) = (s2, none)) :
    ∃ s1, defaultExtend push s a = (s1, none) ∧ defaultExtend push s1 b = (s2, none) := by
  rw [defaultExtend_append] at h
  rcases h1 : defaultExtend push s a with ⟨s1, _ | e⟩
  · rw [h1] at h; exact ⟨s1, rfl, h⟩
  · rw [h1] at h; simp at h

/-- the bytes actually handed to `push` by the default `try_extend`: everything
up to and INCLUDING the first failing push. -/
def pushed {σ} (push : σ → Byte → σ × Option Err) : σ → List Byte → List Byte
  | _, [] => []
  | s, b :: bs =>
    match push s b with
    | (s', none) => b :: pushed push s' bs
    | (_, some _) => [b]

theorem pushed_prefix {σ} (push : σ → Byte → σ × Option Err) (s : σ) (bs : List Byte) :
    pushed push s bs <+: bs := by
  induction bs generalizing s with
  | nil => simp [pushed]
  | cons b bs ih =>
    simp only [pushed]
    rcases push s b with ⟨s1, _ | e⟩
    · exact (List.prefix_cons_inj b).2 (ih s1)
    · exact ⟨bs, rfl⟩

theorem pushed_of_ok {σ} (push : σ → Byte → σ × Option Err) (s : σ) (bs : List Byte)
    (h : (defaultExtend push s bs).2 = none) : pushed push s bs = bs := by
  induction bs generalizing s with
  | nil => simp [pushed]
  | cons b bs ih =>
    simp only [pushed, defaultExtend] at h ⊢
    rcases hp : push s b with ⟨s1, _ | e⟩
    · rw [hp] at h; simp only at h ⊢; rw [ih s1 h]
    · rw [hp] at h; simp at h

/-! ## `runBytes`: a flavour as a byte-stream transformer -/

/-- drive `F` byte by byte (`try_push` only, stop at the first error), then
`finalize`; errors are mapped as in `serialize_with_flavor`. -/
def Flavor.runBytes {σ ω} (F : Flavor σ ω) (s : σ) (bs : List Byte) : σ × R ω :=
  match defaultExtend F.tryPush s bs with
  | (s', some .panic) => (s', .error .panic)
  | (s', some _) => (s', .error .bufferFull)
  | (s', none) =>
    match F.finalize s' with
    | (s'', .ok out) => (s'', .ok out)
    | (s'', .error .panic) => (s'', .error .panic)
    | (s'', .error _) => (s'', .error .bufferFull)

/-- a flavour that keeps the trait's default `try_extend` cannot tell how the
serializer groups the bytes: `serialize_with_flavor` = `runBytes` on `enc v`. -/
theorem serializeWith_eq_runBytes {σ ω} (F : Flavor σ ω)
    (hF : F.tryExtend = defaultExtend F.tryPush) (s : σ) (v : Val) :
    serializeWith F s v = F.runBytes s (enc v) := by
  simp only [serializeWith, Flavor.runBytes, Flavor.feed_defaultExtend F hF, chunkBytes_emit]
  rcases defaultExtend F.tryPush s (enc v) with ⟨s1, _ | e⟩
  · simp only []
    rcases F.finalize s1 with ⟨s2, e | out⟩
    · cases e <;> rfl
    · rfl
  · cases e <;> rfl

theorem Flavor.runBytes_ok {σ ω} (F : Flavor σ ω) {s s1 s2 : σ} {bs : List Byte} {out : ω}
    (h1 : defaultExtend F.tryPush s bs = (s1, none)) (h2 : F.finalize s1 = (s2, .ok out)) :
    F.runBytes s bs = (s2, .ok out) := by
  simp only [Flavor.runBytes, h1, h2]

/-! ## the CRC modifier over ANY inner flavour -/

section crc
variable {σ ω : Type} {w : Nat}

theorem crcSer_tryPush (alg : CrcAlg w) (n : Nat) (G : Flavor σ ω) (g : σ) (d : BitVec w)
    (b : Byte) :
    (CrcSer alg n G).tryPush (g, d) b
      = (((G.tryPush g b).1, stepByte alg d b), (G.tryPush g b).2) := rfl

theorem crcSer_tryExtend (alg : CrcAlg w) (n : Nat) (G : Flavor σ ω) :
    (CrcSer alg n G).tryExtend = defaultExtend (CrcSer alg n G).tryPush := rfl

/-- `CrcModifier::try_extend` (= the default) over any `G`: the inner flavour is
pushed the same bytes in the same order and stops at the same place with the
same error; the digest has absorbed exactly the bytes handed to `G` (including
the one whose push failed: `digest.update` comes first). -/
theorem crcSer_defaultExtend (alg : CrcAlg w) (n : Nat) (G : Flavor σ ω) (g : σ) (d : BitVec w)
    (bs : List Byte) :
    defaultExtend (CrcSer alg n G).tryPush (g, d) bs =
      (((defaultExtend G.tryPush g bs).1, crcState alg d (pushed G.tryPush g bs)),
        (defaultExtend G.tryPush g bs).2) := by
  induction bs generalizing g d with
  | nil => rfl
  | cons b bs ih =>
    simp only [defaultExtend, pushed, crcSer_tryPush]
    rcases hq : G.tryPush g b with ⟨g1, _ | e⟩
    · simp only [ih, crcState_cons]
    · simp only [crcState, List.foldl_cons, List.foldl_nil]

/-- every call (`try_push` or `try_extend`) becomes byte-wise pushes. -/
theorem crcSer_feed (alg : CrcAlg w) (n : Nat) (G : Flavor σ ω) (g : σ) (d : BitVec w)
    (cs : List Chunk) :
    (CrcSer alg n G).feed (g, d) cs =
      (((defaultExtend G.tryPush g (chunkBytes cs)).1,
          crcState alg d (pushed G.tryPush g (chunkBytes cs))),
        (defaultExtend G.tryPush g (chunkBytes cs)).2) := by
  rw [Flavor.feed_defaultExtend _ (crcSer_tryExtend alg n G), crcSer_defaultExtend]

/-- `CrcModifier::finalize`: the checksum's little-endian bytes are pushed
byte-wise into `G`, then `G.finalize`. -/
theorem crcSer_finalize_eq (alg : CrcAlg w) (n : Nat) (G : Flavor σ ω) (g : σ) (d : BitVec w) :
    (CrcSer alg n G).finalize (g, d) =
      match defaultExtend G.tryPush g (leBytes n (crcFinal alg d).toNat) with
      | (g', some e) => ((g', d), .error e)
      | (g', none) => (((G.finalize g').1, d), (G.finalize g').2) := rfl

/-- The CRC modifier composes as a byte-stream transformer over ANY inner
flavour `G` (whatever `G`'s own `try_extend` does — it is never called):
serializing `v` through `CrcModifier<G>` leaves `G` in the state, and returns
the result, of driving `G` byte-wise with `enc v ++ checksum(enc v)`.  Total:
covers every error outcome as well. -/
theorem crcSer_serializeWith (alg : CrcAlg w) (n : Nat) (G : Flavor σ ω) (g : σ) (v : Val) :
    (serializeWith (CrcSer alg n G) (g, alg.init) v).1.1
        = (G.runBytes g (enc v ++ leBytes n (crc alg (enc v)).toNat)).1 ∧
    (serializeWith (CrcSer alg n G) (g, alg.init) v).2
        = (G.runBytes g (enc v ++ leBytes n (crc alg (enc v)).toNat)).2 := by
  simp only [serializeWith, Flavor.runBytes, crcSer_feed, chunkBytes_emit, defaultExtend_append]
  rcases h1 : defaultExtend G.tryPush g (enc v) with ⟨g1, _ | e⟩
  · have hp : pushed G.tryPush g (enc v) = enc v := pushed_of_ok _ _ _ (by rw [h1])
    have hc : crcFinal alg (crcState alg alg.init (enc v)) = crc alg (enc v) := rfl
    simp only [hp, crcSer_finalize_eq, hc]
    rcases h2 : defaultExtend G.tryPush g1 (leBytes n (crc alg (enc v)).toNat) with ⟨g2, _ | e⟩
    · simp only []
      rcases h3 : G.finalize g2 with ⟨g3, e | out⟩
      · cases e <;> exact ⟨rfl, rfl⟩
      · exact ⟨rfl, rfl⟩
    · cases e <;> exact ⟨rfl, rfl⟩
  · cases e <;> exact ⟨rfl, rfl⟩

end crc

/-! ## lawful storages (`AllocVec`, `HVec`, `Slice`) -/

section lawful
variable {σ : Type} {F : Flavor σ (List Byte)}

/-- with room for `bs`, byte-wise pushing succeeds and appends `bs` to the log. -/
theorem LawfulIdx.extend_ok (L : LawfulIdx F) (bs : List Byte) : ∀ (s : σ) (k : Nat),
    L.room s (bs.length + k) →
    ∃ s', defaultExtend F.tryPush s bs = (s', none) ∧ L.log s' = L.log s ++ bs ∧ L.room s' k := by
  induction bs with
  | nil => intro s k h; exact ⟨s, rfl, by simp, by simpa using h⟩
  | cons b bs ih =>
    intro s k h
    have e : (b :: bs).length + k = (bs.length + k) + 1 := by simp only [List.length_cons]; omega
    rw [e] at h
    obtain ⟨s1, h1, hl1, hr1⟩ := L.push_ok s _ b h
    obtain ⟨s2, h2, hl2, hr2⟩ := ih s1 k hr1
    refine ⟨s2, by simp only [defaultExtend, h1, h2], ?_, hr2⟩
    rw [hl2, hl1]; simp

theorem LawfulIdx.runBytes_ok (L : LawfulIdx F) (s : σ) (bs : List Byte)
    (hroom : L.room s bs.length) : (F.runBytes s bs).2 = .ok (L.log s ++ bs) := by
  obtain ⟨s1, h1, hl1, _⟩ := L.extend_ok bs s 0 (by simpa using hroom)
  have hf := L.finalize_ok s1
  rcases hfin : F.finalize s1 with ⟨s2, r⟩
  rw [hfin] at hf
  simp only at hf
  subst hf
  simp only [Flavor.runBytes, h1, hfin, hl1]

/-- The COBS modifier as a byte-stream transformer: over a lawful storage that
is empty and has room for the frame, `Cobs::try_new` succeeds and driving the
modifier with `m` returns `cobsEncode m ++ [0]`. -/
theorem cobs_runBytes (L : LawfulIdx F) (s0 : σ) (m : List Byte) (h0 : L.log s0 = [])
    (hroom : L.room s0 ((cobsEncode m).length + 1)) :
    ∃ st1, Cobs.tryNew F s0 = (st1, none) ∧
      ((Cobs F).runBytes st1 m).2 = .ok (cobsEncode m ++ [0]) := by
  obtain ⟨st1, st2, st3, h1, h2, h3⟩ :=
    cobs_flavor_eq_spec_gen L s0 [.extend m] m (by simp [Chunk.bytes]) h0 hroom
  refine ⟨st1, h1, ?_⟩
  rw [cobs_feed_eq] at h2
  have hb : [Chunk.extend m].flatMap Chunk.bytes = m := by simp [Chunk.bytes]
  rw [hb] at h2
  have hpush : (Cobs F).tryPush = Cobs.push F := rfl
  rw [Flavor.runBytes_ok (Cobs F) (by rw [hpush]; exact h2) h3]

theorem cobs_tryExtend {σ ω : Type} (G : Flavor σ ω) :
    (Cobs G).tryExtend = defaultExtend (Cobs G).tryPush := rfl

end lawful

/-! ## recording flavours -/

theorem Rec.defaultExtend_eq (s : List Chunk) (bs : List Byte) :
    defaultExtend Rec.tryPush s bs = (s ++ bs.map Chunk.push, none) := by
  induction bs generalizing s with
  | nil => simp [defaultExtend]
  | cons b bs ih =>
    have : Rec.tryPush s b = (s ++ [.push b], none) := rfl
    simp [defaultExtend, this, ih]

theorem Rec.runBytes_eq (s : List Chunk) (bs : List Byte) :
    Rec.runBytes s bs = (s ++ bs.map Chunk.push, .ok (s ++ bs.map Chunk.push)) := by
  simp only [Flavor.runBytes, Rec.defaultExtend_eq]
  rfl

end Postcard
