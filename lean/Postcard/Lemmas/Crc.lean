import Postcard.Model.Crc
/-
  Postcard.Lemmas.Crc — helper lemmas for Props/C10 (CRC framing).
  Sections: little-endian bytes; the ser-side `CrcSer` over `AllocVec` and over
  any "logged" inner flavour; GF(2) linear algebra of the bitwise CRC register
  (`Z`, `stepBit`, `feedBits`); burst detection.
-/
namespace Postcard

/-! ### little-endian bytes -/

theorem leBytes_length (k n : Nat) : (leBytes k n).length = k := by
  induction k generalizing n with
  | zero => rfl
  | succ k ih => simp [leBytes, ih]

theorem ofLeBytes_leBytes_modk (k n : Nat) : ofLeBytes (leBytes k n) = n % 256 ^ k := by
  induction k generalizing n with
  | zero => simp [leBytes, ofLeBytes, Nat.mod_one]
  | succ k ih =>
    simp only [leBytes, ofLeBytes, ih]
    have h1 : (UInt8.ofNat (n % 256)).toNat = n % 256 := by
      simp [UInt8.toNat_ofNat']
    rw [h1, Nat.pow_succ, Nat.mul_comm (256 ^ k) 256, Nat.mod_mul]

theorem leBytes_ofLeBytes (c : List Byte) : leBytes c.length (ofLeBytes c) = c := by
  induction c with
  | nil => rfl
  | cons b c ih =>
    have hb := b.toNat_lt
    simp only [List.length_cons, leBytes, ofLeBytes]
    have h1 : (b.toNat + 256 * ofLeBytes c) % 256 = b.toNat := by omega
    have h2 : (b.toNat + 256 * ofLeBytes c) / 256 = ofLeBytes c := by omega
    rw [h1, h2, ih]
    simp

theorem ofLeBytes_inj {a b : List Byte} (hl : a.length = b.length)
    (h : ofLeBytes a = ofLeBytes b) : a = b := by
  rw [← leBytes_ofLeBytes a, ← leBytes_ofLeBytes b, hl, h]

/-- a `w`-bit checksum fits in `nbytes` bytes when `w ≤ 8 * nbytes`. -/
theorem ofLeBytes_leBytes_bv {w : Nat} (nbytes : Nat) (x : BitVec w) (hfit : w ≤ nbytes * 8) :
    ofLeBytes (leBytes nbytes x.toNat) = x.toNat := by
  rw [ofLeBytes_leBytes_modk]
  apply Nat.mod_eq_of_lt
  have h1 : x.toNat < 2 ^ w := x.isLt
  have h2 : 2 ^ w ≤ 2 ^ (nbytes * 8) := Nat.pow_le_pow_right (by decide) hfit
  have h3 : (256 : Nat) ^ nbytes = 2 ^ (nbytes * 8) := by
    rw [Nat.mul_comm, Nat.pow_mul]
  omega

/-! ### `takeN` -/

theorem takeN_append (c r : List Byte) : takeN c.length (c ++ r) = .ok (c, r) := by
  simp [takeN]

theorem takeN_ok {n : Nat} {bs c r : List Byte} (h : takeN n bs = .ok (c, r)) :
    bs = c ++ r ∧ c.length = n := by
  unfold takeN at h
  split at h
  · cases h
  · rename_i hlt
    simp only [Except.ok.injEq, Prod.mk.injEq] at h
    obtain ⟨rfl, rfl⟩ := h
    refine ⟨(List.take_append_drop n bs).symm, ?_⟩
    simp [List.length_take]; omega

/-! ### the call sequence of a serialization -/

/-- all bytes of a call sequence, in order -/
def chunkBytesF (cs : List Chunk) : List Byte := (cs.map Chunk.bytes).flatten

theorem crcState_append {w : Nat} (alg : CrcAlg w) (s : BitVec w) (a b : List Byte) :
    crcState alg s (a ++ b) = crcState alg (crcState alg s a) b := by
  simp [crcState, List.foldl_append]

theorem crcState_cons {w : Nat} (alg : CrcAlg w) (s : BitVec w) (a : Byte) (b : List Byte) :
    crcState alg s (a :: b) = crcState alg (stepByte alg s a) b := rfl

/-! ### `CrcSer` over `AllocVec` (never fails) -/

theorem defaultExtend_allocVec (s bs : List Byte) :
    defaultExtend AllocVec.tryPush s bs = (s ++ bs, none) := by
  induction bs generalizing s with
  | nil => simp [defaultExtend]
  | cons b bs ih =>
    have : AllocVec.tryPush s b = (s ++ [b], none) := rfl
    simp [defaultExtend, this, ih]

theorem crcSer_allocVec_extend {w : Nat} (alg : CrcAlg w) (nbytes : Nat) (s : List Byte)
    (d : BitVec w) (bs : List Byte) :
    defaultExtend (CrcSer alg nbytes AllocVec).tryPush (s, d) bs
      = ((s ++ bs, crcState alg d bs), none) := by
  induction bs generalizing s d with
  | nil => simp [defaultExtend, crcState]
  | cons b bs ih =>
    have : (CrcSer alg nbytes AllocVec).tryPush (s, d) b
        = ((s ++ [b], stepByte alg d b), none) := rfl
    simp [defaultExtend, this, ih, crcState_cons]

theorem crcSer_allocVec_feed {w : Nat} (alg : CrcAlg w) (nbytes : Nat) (s : List Byte)
    (d : BitVec w) (cs : List Chunk) :
    (CrcSer alg nbytes AllocVec).feed (s, d) cs
      = ((s ++ chunkBytesF cs, crcState alg d (chunkBytesF cs)), none) := by
  induction cs generalizing s d with
  | nil => simp [Flavor.feed, chunkBytesF, crcState]
  | cons c cs ih =>
    have hstep : (CrcSer alg nbytes AllocVec).step (s, d) c
        = ((s ++ c.bytes, crcState alg d c.bytes), none) := by
      cases c with
      | push b => rfl
      | extend bs => exact crcSer_allocVec_extend alg nbytes s d bs
    simp only [Flavor.feed, hstep, ih]
    simp [chunkBytesF, crcState_append]

theorem crcSer_allocVec_finalize {w : Nat} (alg : CrcAlg w) (nbytes : Nat) (s : List Byte)
    (d : BitVec w) :
    (CrcSer alg nbytes AllocVec).finalize (s, d)
      = ((s ++ leBytes nbytes (crcFinal alg d).toNat, d),
          .ok (s ++ leBytes nbytes (crcFinal alg d).toNat)) := by
  simp [CrcSer, defaultExtend_allocVec]
  exact ⟨rfl, rfl⟩

/-! ### `CrcSer` over any inner flavour with an output log -/

/-- An inner flavour whose observable output is described by a `log` of its
state (under a state invariant `inv`): a successful `try_push` appends the byte,
a successful `finalize` returns the log.  (`CrcSer` only uses these two methods
of its inner flavour.) -/
structure Logged {σ : Type} (F : Flavor σ (List Byte)) (inv : σ → Prop)
    (log : σ → List Byte) : Prop where
  push_ok : ∀ s b s', inv s → F.tryPush s b = (s', none) → inv s' ∧ log s' = log s ++ [b]
  fin_ok  : ∀ s s' out, inv s → F.finalize s = (s', .ok out) → out = log s

theorem Logged.extend_ok {σ : Type} {F : Flavor σ (List Byte)} {inv : σ → Prop}
    {log : σ → List Byte} (hL : Logged F inv log) {s s' : σ} {bs : List Byte} (hi : inv s)
    (h : defaultExtend F.tryPush s bs = (s', none)) : inv s' ∧ log s' = log s ++ bs := by
  induction bs generalizing s with
  | nil => simp [defaultExtend] at h; subst h; simp [hi]
  | cons b bs ih =>
    simp only [defaultExtend] at h
    split at h
    · rename_i s1 hp
      obtain ⟨hi1, hl1⟩ := hL.push_ok _ _ _ hi hp
      obtain ⟨hi2, hl2⟩ := ih hi1 h
      refine ⟨hi2, ?_⟩
      rw [hl2, hl1]; simp
    · cases h

theorem crcSer_logged_extend {σ : Type} {w : Nat} {F : Flavor σ (List Byte)} {inv : σ → Prop}
    {log : σ → List Byte} (hL : Logged F inv log) (alg : CrcAlg w) (nbytes : Nat)
    {s : σ} {d : BitVec w} {bs : List Byte} {t : σ × BitVec w} (hi : inv s)
    (h : defaultExtend (CrcSer alg nbytes F).tryPush (s, d) bs = (t, none)) :
    inv t.1 ∧ log t.1 = log s ++ bs ∧ t.2 = crcState alg d bs := by
  induction bs generalizing s d with
  | nil => simp [defaultExtend] at h; subst h; simp [crcState, hi]
  | cons b bs ih =>
    simp only [defaultExtend] at h
    split at h
    · rename_i t1 hp
      have hp' : (CrcSer alg nbytes F).tryPush (s, d) b
          = (((F.tryPush s b).1, stepByte alg d b), (F.tryPush s b).2) := rfl
      rw [hp'] at hp
      simp only [Prod.mk.injEq] at hp
      obtain ⟨rfl, hnone⟩ := hp
      have hpush : F.tryPush s b = ((F.tryPush s b).1, none) := by
        rw [← hnone]
      obtain ⟨hi1, hl1⟩ := hL.push_ok _ _ _ hi hpush
      obtain ⟨hi2, h1, h2⟩ := ih hi1 h
      refine ⟨hi2, ?_, ?_⟩
      · rw [h1, hl1]; simp
      · rw [h2]; simp [crcState_cons]
    · cases h

theorem crcSer_logged_feed {σ : Type} {w : Nat} {F : Flavor σ (List Byte)} {inv : σ → Prop}
    {log : σ → List Byte} (hL : Logged F inv log) (alg : CrcAlg w) (nbytes : Nat)
    {s : σ} {d : BitVec w} {cs : List Chunk} {t : σ × BitVec w} (hi : inv s)
    (h : (CrcSer alg nbytes F).feed (s, d) cs = (t, none)) :
    inv t.1 ∧ log t.1 = log s ++ chunkBytesF cs ∧ t.2 = crcState alg d (chunkBytesF cs) := by
  induction cs generalizing s d with
  | nil => simp [Flavor.feed] at h; subst h; simp [chunkBytesF, crcState, hi]
  | cons c cs ih =>
    simp only [Flavor.feed] at h
    split at h
    · rename_i t1 hp
      have hstep : inv t1.1 ∧ log t1.1 = log s ++ c.bytes ∧ t1.2 = crcState alg d c.bytes := by
        cases c with
        | push b => exact crcSer_logged_extend hL alg nbytes (bs := [b]) hi (by
            simp only [defaultExtend]
            simp only [Flavor.step] at hp
            rw [hp])
        | extend bs => exact crcSer_logged_extend hL alg nbytes hi hp
      obtain ⟨t1a, t1b⟩ := t1
      obtain ⟨hi1, hl1, hd1⟩ := hstep
      obtain ⟨hi2, h1, h2⟩ := ih hi1 h
      simp only at hl1 hd1
      refine ⟨hi2, ?_, ?_⟩
      · rw [h1, hl1]; simp [chunkBytesF]
      · rw [h2, hd1]; simp [chunkBytesF, crcState_append]
    · cases h

/-- what `CrcSer.finalize` returns when it succeeds. -/
theorem crcSer_logged_finalize {σ : Type} {w : Nat} {F : Flavor σ (List Byte)} {inv : σ → Prop}
    {log : σ → List Byte} (hL : Logged F inv log) (alg : CrcAlg w) (nbytes : Nat)
    {s : σ} {d : BitVec w} {t : σ × BitVec w} {out : List Byte} (hi : inv s)
    (h : (CrcSer alg nbytes F).finalize (s, d) = (t, .ok out)) :
    out = log s ++ leBytes nbytes (crcFinal alg d).toNat := by
  have hf : (CrcSer alg nbytes F).finalize (s, d) =
      (match defaultExtend F.tryPush s (leBytes nbytes (crcFinal alg d).toNat) with
       | (s', some e) => ((s', d), .error e)
       | (s', none) => (((F.finalize s').1, d), (F.finalize s').2)) := rfl
  rw [hf] at h
  split at h
  · simp at h
  · rename_i s' hext
    obtain ⟨hi1, hl1⟩ := hL.extend_ok hi hext
    simp only [Prod.mk.injEq] at h
    have hfin : F.finalize s' = ((F.finalize s').1, .ok out) := by
      rw [← h.2]
    rw [hL.fin_ok _ _ _ hi1 hfin, hl1]

theorem loggedAllocVec : Logged AllocVec (fun _ => True) (fun s => s) := by
  constructor
  · intro s b s' _ h
    have : AllocVec.tryPush s b = (s ++ [b], none) := rfl
    rw [this] at h; simp at h; simp [h]
  · intro s s' out _ h
    have : AllocVec.finalize s = (s, .ok s) := rfl
    rw [this] at h; simp at h; exact h.2.symm

theorem loggedHVec : Logged HVec (fun _ => True) (fun s => s.vec) := by
  constructor
  · intro s b s' _ h
    simp only [HVec] at h
    split at h
    · simp at h; simp [← h]
    · simp at h
  · intro s s' out _ h
    simp only [HVec] at h
    simp at h; exact h.2.symm

theorem loggedSlice : Logged Slice (fun s => s.cursor ≤ s.mem.length)
    (fun s => s.mem.take s.cursor) := by
  constructor
  · intro s b s' hi h
    simp only [Slice] at h
    split at h
    · simp at h
    · rename_i hne
      simp at h
      subst h
      simp only
      have hlt : s.cursor < s.mem.length := by omega
      refine ⟨by simp; omega, ?_⟩
      rw [List.take_add_one]
      simp [hlt, List.take_set_of_le]
  · intro s s' out _ h
    simp only [Slice] at h
    simp at h; exact h.2.symm

/-! ### GF(2) linear algebra of the register -/

theorem stepBit_eq {w : Nat} (alg : CrcAlg w) (s : BitVec w) (b : Bool) :
    stepBit alg s b = Z alg.poly s ^^^ (if b then alg.poly else 0#w) := by
  cases b <;> cases h : s.msb <;> simp [stepBit, Z, h, BitVec.xor_assoc]

theorem Z_zero {w : Nat} (p : BitVec w) : Z p 0#w = 0#w := by
  simp [Z]

theorem Z_xor {w : Nat} (p a b : BitVec w) : Z p (a ^^^ b) = Z p a ^^^ Z p b := by
  unfold Z
  rw [BitVec.shiftLeft_xor_distrib, BitVec.msb_xor]
  cases a.msb <;> cases b.msb <;> simp
  · ac_rfl
  · ac_rfl
  · have : a <<< 1 ^^^ p ^^^ (b <<< 1 ^^^ p) = (a <<< 1 ^^^ b <<< 1) ^^^ (p ^^^ p) := by ac_rfl
    rw [this, BitVec.xor_self, BitVec.xor_zero]

theorem Z_eq_zero {w : Nat} {p a : BitVec w} (hodd : p.getLsbD 0 = true) (h : Z p a = 0#w) :
    a = 0#w := by
  have hw : 0 < w := by
    cases w with
    | zero => simp at hodd
    | succ n => omega
  -- bit 0 of Z p a is a.msb (since p is odd)
  have h0 : (Z p a).getLsbD 0 = a.msb := by
    unfold Z
    cases a.msb <;> simp [hodd]
  rw [h] at h0
  have hmsb : a.msb = false := by simpa using h0.symm
  have hsh : a <<< 1 = 0#w := by
    have := h
    unfold Z at this
    simpa [hmsb] using this
  apply BitVec.eq_of_getLsbD_eq
  intro i hi
  by_cases hlast : i = w - 1
  · rw [hlast, ← BitVec.msb_eq_getLsbD_last]; simpa using hmsb
  · have h2 : (a <<< 1).getLsbD (i + 1) = false := by rw [hsh]; simp
    rw [BitVec.getLsbD_shiftLeft] at h2
    have : i + 1 < w := by omega
    simpa [this] using h2

theorem Z_inj {w : Nat} {p a b : BitVec w} (hodd : p.getLsbD 0 = true) (h : Z p a = Z p b) :
    a = b := by
  have : Z p (a ^^^ b) = 0#w := by rw [Z_xor, h]; simp
  have := Z_eq_zero hodd this
  have h2 : (a ^^^ b) ^^^ b = 0#w ^^^ b := by rw [this]
  simpa [BitVec.xor_assoc] using h2


/-- `Z` iterated `k` times (multiplication by `x^k` modulo the generator). -/
def Zn {w : Nat} (p : BitVec w) : Nat → BitVec w → BitVec w
  | 0, s => s
  | k + 1, s => Z p (Zn p k s)

theorem Zn_succ' {w : Nat} (p : BitVec w) (k : Nat) (s : BitVec w) :
    Zn p (k + 1) s = Zn p k (Z p s) := by
  induction k with
  | zero => rfl
  | succ k ih => rw [Zn, ih]; rfl

theorem Zn_zero {w : Nat} (p : BitVec w) (k : Nat) : Zn p k 0#w = 0#w := by
  induction k with
  | zero => rfl
  | succ k ih => rw [Zn, ih, Z_zero]

theorem Zn_xor {w : Nat} (p : BitVec w) (k : Nat) (a b : BitVec w) :
    Zn p k (a ^^^ b) = Zn p k a ^^^ Zn p k b := by
  induction k with
  | zero => rfl
  | succ k ih => rw [Zn, ih, Z_xor]; rfl

theorem Zn_eq_zero {w : Nat} {p : BitVec w} (hodd : p.getLsbD 0 = true) (k : Nat) {a : BitVec w}
    (h : Zn p k a = 0#w) : a = 0#w := by
  induction k with
  | zero => exact h
  | succ k ih => exact ih (Z_eq_zero hodd h)

theorem feedBits_nil {w : Nat} (alg : CrcAlg w) (s : BitVec w) : feedBits alg s [] = s := rfl

theorem feedBits_cons {w : Nat} (alg : CrcAlg w) (s : BitVec w) (b : Bool) (bs : List Bool) :
    feedBits alg s (b :: bs) = feedBits alg (stepBit alg s b) bs := rfl

theorem feedBits_append {w : Nat} (alg : CrcAlg w) (s : BitVec w) (x y : List Bool) :
    feedBits alg s (x ++ y) = feedBits alg (feedBits alg s x) y := by
  simp [feedBits, List.foldl_append]

/-- the register is an affine function of (state, message): differences
propagate through the linear part only. -/
theorem feedBits_xor {w : Nat} (alg : CrcAlg w) (s t : BitVec w) (x y : List Bool)
    (hlen : x.length = y.length) :
    feedBits alg s x ^^^ feedBits alg t y
      = feedBits alg (s ^^^ t) (List.zipWith (fun a b => a ^^ b) x y) := by
  induction x generalizing s t y with
  | nil =>
    cases y with
    | nil => rfl
    | cons _ _ => simp at hlen
  | cons a x ih =>
    cases y with
    | nil => simp at hlen
    | cons b y =>
      simp only [List.length_cons, Nat.add_right_cancel_iff] at hlen
      simp only [List.zipWith_cons_cons, feedBits_cons]
      rw [ih _ _ _ hlen]
      congr 1
      rw [stepBit_eq, stepBit_eq, stepBit_eq, Z_xor]
      cases a <;> cases b <;> simp
      · ac_rfl
      · ac_rfl
      · have : Z alg.poly s ^^^ alg.poly ^^^ (Z alg.poly t ^^^ alg.poly)
            = (Z alg.poly s ^^^ Z alg.poly t) ^^^ (alg.poly ^^^ alg.poly) := by ac_rfl
        rw [this, BitVec.xor_self, BitVec.xor_zero]

/-- feeding zero bits multiplies the register by `x`. -/
theorem feedBits_zeros {w : Nat} (alg : CrcAlg w) (s : BitVec w) (n : Nat) :
    feedBits alg s (List.replicate n false) = Zn alg.poly n s := by
  induction n generalizing s with
  | zero => rfl
  | succ n ih =>
    rw [List.replicate_succ, feedBits_cons, ih, Zn_succ', stepBit_eq]
    simp

theorem snoc_induction {α : Type} {P : List α → Prop} (hnil : P [])
    (hsnoc : ∀ l a, P l → P (l ++ [a])) : ∀ l, P l := by
  have h : ∀ l : List α, P l.reverse := by
    intro l
    induction l with
    | nil => simpa using hnil
    | cons a l ih => rw [List.reverse_cons]; exact hsnoc _ _ ih
  intro l
  simpa using h l.reverse

/-- the number (as a `w`-bit vector) whose binary digits, most significant first, are `bits`. -/
def bitsVal (w : Nat) (bits : List Bool) : BitVec w :=
  bits.foldl (fun v c => (v <<< 1) ^^^ (if c then 1#w else 0#w)) 0#w

theorem bitsVal_snoc (w : Nat) (bits : List Bool) (c : Bool) :
    bitsVal w (bits ++ [c]) = (bitsVal w bits <<< 1) ^^^ (if c then 1#w else 0#w) := by
  simp [bitsVal, List.foldl_append]

/-- `bitsVal bits < 2 ^ bits.length`. -/
theorem bitsVal_high (w : Nat) (bits : List Bool) :
    ∀ i, bits.length ≤ i → (bitsVal w bits).getLsbD i = false := by
  induction bits using snoc_induction with
  | hnil => intro i _; simp [bitsVal]
  | hsnoc bits c ih =>
    intro i hi
    simp only [List.length_append, List.length_singleton] at hi
    rw [bitsVal_snoc, BitVec.getLsbD_xor, BitVec.getLsbD_shiftLeft]
    have h1 : (bitsVal w bits).getLsbD (i - 1) = false := ih _ (by omega)
    have h2 : (if c then 1#w else 0#w).getLsbD i = false := by
      cases c <;> simp
      intro _; omega
    simp [h1, h2]


theorem Zn_one_lt {w : Nat} (p : BitVec w) (k : Nat) (hk : k < w) :
    Zn p k 1#w = BitVec.twoPow w k := by
  induction k with
  | zero => simp [Zn, BitVec.twoPow_eq]
  | succ k ih =>
    rw [Zn, ih (by omega)]
    unfold Z
    have hm : (BitVec.twoPow w k).msb = false := by
      rw [BitVec.msb_twoPow]; simp; intro _; omega
    rw [hm]
    simp [BitVec.twoPow_eq, BitVec.shiftLeft_add]

/-- `x^w mod G = G - x^w`, i.e. the stored polynomial. -/
theorem Zn_one_w {w : Nat} (p : BitVec w) (hw : 0 < w) : Zn p w 1#w = p := by
  cases w with
  | zero => omega
  | succ n =>
    rw [Zn, Zn_one_lt p n (by omega)]
    unfold Z
    have hm : (BitVec.twoPow (n + 1) n).msb = true := by
      rw [BitVec.msb_twoPow]; simp
    rw [hm, BitVec.twoPow_eq, ← BitVec.shiftLeft_add, BitVec.shiftLeft_eq_zero (by omega)]
    simp

/-- key invariant: from the zero register, a message of at most `w` bits leaves
`x^w · M(x) mod G` where `M` is (already reduced) the message itself. -/
theorem feedBits_zero_short {w : Nat} (alg : CrcAlg w) (bits : List Bool) :
    bits.length ≤ w → feedBits alg 0#w bits = Zn alg.poly w (bitsVal w bits) := by
  induction bits using snoc_induction with
  | hnil => intro _; simp [feedBits, bitsVal, Zn_zero]
  | hsnoc bits c ih =>
    intro hlen
    simp only [List.length_append, List.length_singleton] at hlen
    have hw : 0 < w := by omega
    rw [feedBits_append, feedBits_cons, feedBits_nil, ih (by omega), stepBit_eq, bitsVal_snoc,
      Zn_xor]
    have hmsb : (bitsVal w bits).msb = false := by
      rw [BitVec.msb_eq_getLsbD_last]
      exact bitsVal_high w bits _ (by omega)
    have hZ : Z alg.poly (bitsVal w bits) = bitsVal w bits <<< 1 := by
      unfold Z; rw [hmsb]; simp
    have h1 : Z alg.poly (Zn alg.poly w (bitsVal w bits))
        = Zn alg.poly w (bitsVal w bits <<< 1) := by
      rw [← hZ, ← Zn_succ']; rfl
    rw [h1]
    congr 1
    cases c
    · simp [Zn_zero]
    · simp [Zn_one_w alg.poly hw]

theorem bitsVal_eq_zero {w : Nat} {p : BitVec w} (hodd : p.getLsbD 0 = true) (bits : List Bool) :
    bits.length ≤ w → bitsVal w bits = 0#w → ∀ b ∈ bits, b = false := by
  induction bits using snoc_induction with
  | hnil => intro _ _ b hb; simp at hb
  | hsnoc bits c ih =>
    intro hlen h0
    simp only [List.length_append, List.length_singleton] at hlen
    have hw : 0 < w := by omega
    rw [bitsVal_snoc] at h0
    have hbit0 := congrArg (fun v => v.getLsbD 0) h0
    simp only [BitVec.getLsbD_xor, BitVec.getLsbD_shiftLeft, BitVec.getLsbD_zero] at hbit0
    have hc : c = false := by
      cases c
      · rfl
      · simp [hw] at hbit0
    subst hc
    have hsh : bitsVal w bits <<< 1 = 0#w := by simpa using h0
    have hmsb : (bitsVal w bits).msb = false := by
      rw [BitVec.msb_eq_getLsbD_last]
      exact bitsVal_high w bits _ (by omega)
    have hZ : Z p (bitsVal w bits) = 0#w := by
      unfold Z; rw [hmsb, hsh]; simp
    have hv := Z_eq_zero hodd hZ
    intro b hb
    simp only [List.mem_append, List.mem_singleton] at hb
    rcases hb with hb | hb
    · exact ih (by omega) hv b hb
    · exact hb

/-- core of burst detection: from the zero register, `zeros ++ burst ++ zeros`
with a non-zero burst of at most `w` bits leaves a non-zero register. -/
theorem feedBits_burst_ne_zero {w : Nat} (alg : CrcAlg w) (hodd : alg.poly.getLsbD 0 = true)
    (a c : Nat) (burst : List Bool) (hlen : burst.length ≤ w) (hne : true ∈ burst) :
    feedBits alg 0#w (List.replicate a false ++ burst ++ List.replicate c false) ≠ 0#w := by
  intro h
  rw [feedBits_append, feedBits_append, feedBits_zeros, feedBits_zeros, Zn_zero,
    feedBits_zero_short alg burst hlen] at h
  have h1 := Zn_eq_zero hodd _ (Zn_eq_zero hodd _ h)
  have := bitsVal_eq_zero hodd burst hlen h1 true hne
  cases this

theorem xor_eq_zero_iff {w : Nat} (a b : BitVec w) : a ^^^ b = 0#w ↔ a = b := by
  constructor
  · intro h
    have h2 : (a ^^^ b) ^^^ b = 0#w ^^^ b := by rw [h]
    simpa [BitVec.xor_assoc] using h2
  · intro h; simp [h]

/-- burst detection on the register, in the algorithm's own bit order. -/
theorem feedBits_burst_ne {w : Nat} (alg : CrcAlg w) (hodd : alg.poly.getLsbD 0 = true)
    (s : BitVec w) (x y : List Bool) (hxy : x.length = y.length)
    (a c : Nat) (burst : List Bool)
    (hdiff : List.zipWith (fun p q => p ^^ q) x y
      = List.replicate a false ++ burst ++ List.replicate c false)
    (hlen : burst.length ≤ w) (hne : true ∈ burst) :
    feedBits alg s x ≠ feedBits alg s y := by
  intro h
  have h1 := feedBits_xor alg s s x y hxy
  rw [h, BitVec.xor_self, BitVec.xor_self, hdiff] at h1
  exact feedBits_burst_ne_zero alg hodd a c burst hlen hne h1.symm

theorem reverse_inj {w : Nat} {a b : BitVec w} (h : a.reverse = b.reverse) : a = b := by
  apply BitVec.eq_of_getMsbD_eq
  intro i _
  rw [← BitVec.getLsbD_reverse, ← BitVec.getLsbD_reverse, h]

theorem crcFinal_inj {w : Nat} (alg : CrcAlg w) {a b : BitVec w}
    (h : crcFinal alg a = crcFinal alg b) : a = b := by
  unfold crcFinal at h
  have h2 := congrArg (· ^^^ alg.xorout) h
  simp only [BitVec.xor_assoc, BitVec.xor_self, BitVec.xor_zero] at h2
  cases hr : alg.refout
  · simpa [hr] using h2
  · rw [hr] at h2; exact reverse_inj (by simpa using h2)

theorem crcState_eq_feedBits {w : Nat} (alg : CrcAlg w) (s : BitVec w) (m : List Byte) :
    crcState alg s m = feedBits alg s (msgBits alg m) := by
  induction m generalizing s with
  | nil => rfl
  | cons b m ih =>
    rw [crcState_cons, ih]
    simp [msgBits, stepByte, feedBits_append]

theorem byteBits_length (r : Bool) (b : Byte) : (byteBits r b).length = 8 := by
  cases r <;> rfl

theorem msgBits_length {w : Nat} (alg : CrcAlg w) (m : List Byte) :
    (msgBits alg m).length = 8 * m.length := by
  induction m with
  | nil => rfl
  | cons b m ih =>
    have : msgBits alg (b :: m) = byteBits alg.refin b ++ msgBits alg m := rfl
    rw [this, List.length_append, ih, byteBits_length]; simp; omega


/-! ### lifting to bytes -/

/-- bitwise difference of two bit strings -/
def bitsXor (x y : List Bool) : List Bool := List.zipWith (fun p q => p ^^ q) x y

/-- `m` and `m'` (as bit strings in the algorithm's own bit order: MSB-first per
byte when `refin = false`, LSB-first when `refin = true`) differ by a burst:
`zeros ++ burst ++ zeros` with `burst` of at most `w` bits, not all zero. -/
def BurstDiff {w : Nat} (alg : CrcAlg w) (m m' : List Byte) : Prop :=
  ∃ (a c : Nat) (burst : List Bool),
    bitsXor (msgBits alg m) (msgBits alg m')
      = List.replicate a false ++ burst ++ List.replicate c false ∧
    burst.length ≤ w ∧ true ∈ burst

theorem msgBits_append {w : Nat} (alg : CrcAlg w) (a b : List Byte) :
    msgBits alg (a ++ b) = msgBits alg a ++ msgBits alg b := by
  simp [msgBits]

theorem bitsXor_append (a a' b b' : List Bool) (h : a.length = a'.length) :
    bitsXor (a ++ b) (a' ++ b') = bitsXor a a' ++ bitsXor b b' := by
  simp [bitsXor, List.zipWith_append h]

theorem bitsXor_self (a : List Bool) : bitsXor a a = List.replicate a.length false := by
  induction a with
  | nil => rfl
  | cons x a ih =>
    have : bitsXor (x :: a) (x :: a) = (x ^^ x) :: bitsXor a a := rfl
    rw [this, ih]; simp [List.replicate_succ]

theorem bitsXor_length (a b : List Bool) (h : a.length = b.length) :
    (bitsXor a b).length = a.length := by
  simp [bitsXor, h]

theorem bitsXor_all_false {a b : List Bool} (h : a.length = b.length)
    (hf : ¬ true ∈ bitsXor a b) : a = b := by
  induction a generalizing b with
  | nil => cases b with
    | nil => rfl
    | cons _ _ => simp at h
  | cons x a ih =>
    cases b with
    | nil => simp at h
    | cons y b =>
      simp only [List.length_cons, Nat.add_right_cancel_iff] at h
      have hx : bitsXor (x :: a) (y :: b) = (x ^^ y) :: bitsXor a b := rfl
      rw [hx] at hf
      simp only [List.mem_cons, not_or] at hf
      have hxy : x = y := by
        cases x <;> cases y <;> simp at hf ⊢
      rw [hxy, ih h hf.2]

/-- rebuild a byte from its 8 bits (inverse of `byteBits`) -/
def bitsByte (refin : Bool) (l : List Bool) : Byte :=
  let l' := if refin then l.reverse else l
  UInt8.ofNat (l'.foldl (fun n c => 2 * n + c.toNat) 0)

theorem bitsByte_byteBits_fin :
    ∀ (r : Bool) (n : Fin 256), bitsByte r (byteBits r (UInt8.ofNat n.val)) = UInt8.ofNat n.val := by
  decide +kernel

theorem bitsByte_byteBits (r : Bool) (b : Byte) : bitsByte r (byteBits r b) = b := by
  have := bitsByte_byteBits_fin r ⟨b.toNat, b.toNat_lt⟩
  simpa using this

theorem byteBits_inj {r : Bool} {a b : Byte} (h : byteBits r a = byteBits r b) : a = b := by
  rw [← bitsByte_byteBits r a, h, bitsByte_byteBits]

theorem msgBits_inj {w : Nat} (alg : CrcAlg w) {x y : List Byte} (hlen : x.length = y.length)
    (h : msgBits alg x = msgBits alg y) : x = y := by
  induction x generalizing y with
  | nil => cases y with
    | nil => rfl
    | cons _ _ => simp at hlen
  | cons a x ih =>
    cases y with
    | nil => simp at hlen
    | cons b y =>
      simp only [List.length_cons, Nat.add_right_cancel_iff] at hlen
      have e1 : msgBits alg (a :: x) = byteBits alg.refin a ++ msgBits alg x := rfl
      have e2 : msgBits alg (b :: y) = byteBits alg.refin b ++ msgBits alg y := rfl
      rw [e1, e2] at h
      have h' := List.append_inj h (by rw [byteBits_length, byteBits_length])
      rw [byteBits_inj h'.1, ih hlen h'.2]

/-- any corruption confined to a window of at most `w / 8` consecutive bytes is
a burst. -/
theorem window_burstDiff {w : Nat} (alg : CrcAlg w) (pre x y post : List Byte)
    (hxy : x.length = y.length) (hne : x ≠ y) (hfit : 8 * x.length ≤ w) :
    BurstDiff alg (pre ++ x ++ post) (pre ++ y ++ post) := by
  refine ⟨8 * pre.length, 8 * post.length, bitsXor (msgBits alg x) (msgBits alg y), ?_, ?_, ?_⟩
  · rw [msgBits_append, msgBits_append, msgBits_append, msgBits_append,
      bitsXor_append _ _ _ _ (by simp [msgBits_length, hxy]),
      bitsXor_append _ _ _ _ rfl, bitsXor_self, bitsXor_self, msgBits_length, msgBits_length]
  · rw [bitsXor_length _ _ (by simp [msgBits_length, hxy]), msgBits_length]; exact hfit
  · apply Classical.byContradiction
    intro hf
    exact hne (msgBits_inj alg hxy (bitsXor_all_false (by simp [msgBits_length, hxy]) hf))

/-- flipping bit `k` of a byte -/
def flipBit (b : Byte) (k : Nat) : Byte := b ^^^ (1 <<< UInt8.ofNat k)

theorem byteBits_xor (r : Bool) (a b : Byte) :
    bitsXor (byteBits r a) (byteBits r b) = byteBits r (a ^^^ b) := by
  cases r <;> simp [byteBits, bitsXor, UInt8.toNat_xor, Nat.testBit_xor] <;>
    cases decide (a.toNat % 2 = 1) <;> cases decide (b.toNat % 2 = 1) <;> rfl

theorem byteBits_onehot_fin : ∀ (r : Bool) (k : Fin 8),
    byteBits r (1 <<< UInt8.ofNat k.val)
      = List.replicate (if r then k.val else 7 - k.val) false ++ [true]
          ++ List.replicate (7 - (if r then k.val else 7 - k.val)) false := by
  decide +kernel

theorem byteBits_flip (r : Bool) (b : Byte) (k : Nat) (hk : k < 8) :
    ∃ i, i ≤ 7 ∧ bitsXor (byteBits r b) (byteBits r (flipBit b k))
      = List.replicate i false ++ [true] ++ List.replicate (7 - i) false := by
  refine ⟨if r then k else 7 - k, by split <;> omega, ?_⟩
  rw [byteBits_xor, flipBit, ← UInt8.xor_assoc, UInt8.xor_self, UInt8.zero_xor]
  exact byteBits_onehot_fin r ⟨k, hk⟩

/-- a single flipped bit is a burst of length 1 (any width `w > 0`). -/
theorem bitflip_burstDiff {w : Nat} (alg : CrcAlg w) (hw : 0 < w) (pre post : List Byte)
    (b : Byte) (k : Nat) (hk : k < 8) :
    BurstDiff alg (pre ++ [b] ++ post) (pre ++ [flipBit b k] ++ post) := by
  obtain ⟨i, _, hi⟩ := byteBits_flip alg.refin b k hk
  refine ⟨8 * pre.length + i, (7 - i) + 8 * post.length, [true], ?_, by simp; omega, by simp⟩
  rw [msgBits_append, msgBits_append, msgBits_append, msgBits_append,
      bitsXor_append _ _ _ _ (by simp [msgBits_length]),
      bitsXor_append _ _ _ _ rfl, bitsXor_self, bitsXor_self, msgBits_length, msgBits_length]
  have e1 : msgBits alg [b] = byteBits alg.refin b := by simp [msgBits]
  have e2 : msgBits alg [flipBit b k] = byteBits alg.refin (flipBit b k) := by simp [msgBits]
  rw [e1, e2, hi]
  simp [← List.replicate_append_replicate, List.append_assoc]

end Postcard
