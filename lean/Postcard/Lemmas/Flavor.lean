import Postcard.Model.Entry
/-
  Postcard.Lemmas.Flavor — what the storage flavours do with the call sequence
  `emit v`: `emit` flattens to `enc`; `AllocVec` / `Size` never fail; `Slice`
  and `HVec` succeed exactly when everything fits and never write out of
  bounds; an arbitrary (user) flavour is handed `emit v` in order.
-/
namespace Postcard

/-- all payload bytes of a call sequence, in order -/
def chunkBytes (cs : List Chunk) : List Byte := cs.flatMap Chunk.bytes

@[simp] theorem chunkBytes_nil : chunkBytes [] = [] := rfl
@[simp] theorem chunkBytes_cons (c : Chunk) (cs : List Chunk) :
    chunkBytes (c :: cs) = c.bytes ++ chunkBytes cs := by simp [chunkBytes]
@[simp] theorem chunkBytes_append (a b : List Chunk) :
    chunkBytes (a ++ b) = chunkBytes a ++ chunkBytes b := by simp [chunkBytes]

/-! ## A. `emit` refines `enc` -/

mutual
theorem emit_flatten : (v : Val) → (emit v).flatMap Chunk.bytes = enc v
  | .bool b => by simp [emit, enc, Chunk.bytes]
  | .u w n => by cases w <;> simp [emit, enc, Chunk.bytes]
  | .i w x => by cases w <;> simp [emit, enc, Chunk.bytes]
  | .f32 b => by simp [emit, enc, Chunk.bytes]
  | .f64 b => by simp [emit, enc, Chunk.bytes]
  | .char c => by simp [emit, enc, Chunk.bytes]
  | .str s => by simp [emit, enc, Chunk.bytes]
  | .bytes s => by simp [emit, enc, Chunk.bytes]
  | .none => by simp [emit, enc, Chunk.bytes]
  | .some v => by simp [emit, enc, Chunk.bytes, emit_flatten v]
  | .unit => by simp [emit, enc]
  | .unitStruct => by simp [emit, enc]
  | .unitVariant idx => by simp [emit, enc, Chunk.bytes]
  | .newtypeStruct v => by simp [emit, enc, emit_flatten v]
  | .newtypeVariant idx v => by simp [emit, enc, Chunk.bytes, emit_flatten v]
  | .seq vs => by simp [emit, enc, Chunk.bytes, emitList_flatten vs]
  | .tuple vs => by simp [emit, enc, emitList_flatten vs]
  | .tupleStruct vs => by simp [emit, enc, emitList_flatten vs]
  | .tupleVariant idx vs => by simp [emit, enc, Chunk.bytes, emitList_flatten vs]
  | .map kvs => by simp [emit, enc, Chunk.bytes, emitList_flatten kvs]
  | .struct vs => by simp [emit, enc, emitList_flatten vs]
  | .structVariant idx vs => by simp [emit, enc, Chunk.bytes, emitList_flatten vs]
theorem emitList_flatten : (vs : List Val) → (emitList vs).flatMap Chunk.bytes = encList vs
  | [] => by simp [emitList, encList]
  | v :: vs => by simp [emitList, encList, emit_flatten v, emitList_flatten vs]
end

theorem chunkBytes_emit (v : Val) : chunkBytes (emit v) = enc v := emit_flatten v

/-! ## B. generic facts about `feed` -/

theorem Flavor.feed_append {σ ω} (F : Flavor σ ω) (s : σ) (a b : List Chunk) :
    F.feed s (a ++ b) =
      match F.feed s a with
      | (s', none) => F.feed s' b
      | (s', some e) => (s', some e) := by
  induction a generalizing s with
  | nil => simp [Flavor.feed]
  | cons c a ih =>
    simp only [List.cons_append, Flavor.feed]
    cases hst : F.step s c with
    | mk s1 r =>
      cases r with
      | none => simp only [ih]
      | some e => rfl

theorem defaultExtend_append {σ} (push : σ → Byte → σ × Option Err) (s : σ) (a b : List Byte) :
    defaultExtend push s (a ++ b) =
      match defaultExtend push s a with
      | (s', none) => defaultExtend push s' b
      | (s', some e) => (s', some e) := by
  induction a generalizing s with
  | nil => simp [defaultExtend]
  | cons x a ih =>
    simp only [List.cons_append, defaultExtend]
    cases hst : push s x with
    | mk s1 r =>
      cases r with
      | none => simp only [ih]
      | some e => rfl

/-- A flavour that keeps the trait's default `try_extend` is driven byte by
byte: feeding a call sequence is pushing its payload bytes one at a time,
stopping at the first failing push. -/
theorem Flavor.feed_defaultExtend {σ ω} (F : Flavor σ ω)
    (hF : F.tryExtend = defaultExtend F.tryPush) (s : σ) (cs : List Chunk) :
    F.feed s cs = defaultExtend F.tryPush s (chunkBytes cs) := by
  induction cs generalizing s with
  | nil => simp [Flavor.feed, defaultExtend]
  | cons c cs ih =>
    rw [chunkBytes_cons, defaultExtend_append]
    simp only [Flavor.feed]
    have hstep : F.step s c = defaultExtend F.tryPush s c.bytes := by
      cases c with
      | push b =>
        simp only [Flavor.step, Chunk.bytes, defaultExtend]
        cases hp : F.tryPush s b with
        | mk s1 r => cases r <;> rfl
      | extend bs => simp only [Flavor.step, Chunk.bytes, hF]
    rw [hstep]
    cases hd : defaultExtend F.tryPush s c.bytes with
    | mk s1 r =>
      cases r with
      | none => simp only [ih]
      | some e => rfl

/-! ## C. flavours that never fail -/

theorem AllocVec.step_eq (s : List Byte) (c : Chunk) : AllocVec.step s c = (s ++ c.bytes, none) := by
  cases c <;> rfl

theorem AllocVec.feed_eq (s : List Byte) (cs : List Chunk) :
    AllocVec.feed s cs = (s ++ chunkBytes cs, none) := by
  induction cs generalizing s with
  | nil => simp [Flavor.feed]
  | cons c cs ih =>
    simp only [Flavor.feed, AllocVec.step_eq, ih, chunkBytes_cons, List.append_assoc]

theorem SizeFl.step_eq (s : Nat) (c : Chunk) : SizeFl.step s c = (s + c.bytes.length, none) := by
  cases c <;> rfl

theorem SizeFl.feed_eq (s : Nat) (cs : List Chunk) :
    SizeFl.feed s cs = (s + (chunkBytes cs).length, none) := by
  induction cs generalizing s with
  | nil => simp [Flavor.feed]
  | cons c cs ih =>
    simp only [Flavor.feed, SizeFl.step_eq, ih, chunkBytes_cons, List.length_append, Nat.add_assoc]

/-! ## D. `writeAt` -/

theorem writeAt_nil {mem : List Byte} {pos : Nat} : writeAt mem pos [] = mem := by
  simp [writeAt]

theorem writeAt_length {mem : List Byte} {pos : Nat} {bs : List Byte}
    (h : pos + bs.length ≤ mem.length) : (writeAt mem pos bs).length = mem.length := by
  simp [writeAt]; omega

theorem writeAt_zero (mem bs : List Byte) : writeAt mem 0 bs = bs ++ mem.drop bs.length := by
  simp [writeAt]

theorem writeAt_writeAt {mem : List Byte} {pos : Nat} (a b : List Byte) (hp : pos ≤ mem.length) :
    writeAt (writeAt mem pos a) (pos + a.length) b = writeAt mem pos (a ++ b) := by
  have hL : (mem.take pos ++ a).length = pos + a.length := by simp; omega
  unfold writeAt
  rw [List.take_left' hL]
  have : List.drop (pos + a.length + b.length) (List.take pos mem ++ a ++ List.drop (pos + a.length) mem)
      = List.drop (pos + (a ++ b).length) mem := by
    rw [← List.drop_drop, List.drop_left' hL, List.drop_drop]
    simp [Nat.add_assoc]
  rw [this]
  simp

theorem set_eq_writeAt {mem : List Byte} {pos : Nat} (b : Byte) (h : pos < mem.length) :
    mem.set pos b = writeAt mem pos [b] := by
  rw [List.set_eq_take_append_cons_drop, if_pos h]
  simp [writeAt]

/-- positions before the write are untouched -/
theorem writeAt_getElem?_lt {mem bs : List Byte} {pos i : Nat} (hp : pos ≤ mem.length)
    (hi : i < pos) : (writeAt mem pos bs)[i]? = mem[i]? := by
  unfold writeAt
  have : i < (mem.take pos).length := by simp; omega
  rw [List.append_assoc, List.getElem?_append, if_pos this, List.getElem?_take, if_pos hi]

/-- positions inside the write hold the written bytes -/
theorem writeAt_getElem?_mid {mem bs : List Byte} {pos j : Nat} (hp : pos ≤ mem.length)
    (hj : j < bs.length) : (writeAt mem pos bs)[pos + j]? = bs[j]? := by
  unfold writeAt
  have hl : (mem.take pos).length = pos := by simp; omega
  rw [List.append_assoc, List.getElem?_append, hl, if_neg (by omega), List.getElem?_append,
    if_pos (by omega)]
  congr 1; omega

/-- positions after the write are untouched -/
theorem writeAt_getElem?_ge {mem bs : List Byte} {pos i : Nat} (hp : pos ≤ mem.length)
    (hi : pos + bs.length ≤ i) : (writeAt mem pos bs)[i]? = mem[i]? := by
  unfold writeAt
  have hl : (mem.take pos).length = pos := by simp; omega
  rw [List.append_assoc, List.getElem?_append, hl, if_neg (by omega), List.getElem?_append,
    if_neg (by omega), List.getElem?_drop]
  congr 1; omega

/-! ## E. `Slice` -/

/-- one call: all-or-nothing, for `try_push` and `try_extend` alike. -/
theorem Slice.step_eq (s : SliceSt) (c : Chunk) (hc : s.cursor ≤ s.mem.length) :
    Slice.step s c =
      if s.cursor + c.bytes.length ≤ s.mem.length then
        (⟨writeAt s.mem s.cursor c.bytes, s.cursor + c.bytes.length⟩, none)
      else (s, some .bufferFull) := by
  cases c with
  | push b =>
    have hl : (Chunk.push b).bytes.length = 1 := rfl
    simp only [Flavor.step, Slice, hl]
    by_cases h : s.cursor = s.mem.length
    · simp [h]
    · have h1 : s.cursor + 1 ≤ s.mem.length := by omega
      simp [h, h1, set_eq_writeAt b (show s.cursor < s.mem.length by omega), Chunk.bytes]
  | extend bs =>
    have hl : (Chunk.extend bs).bytes = bs := rfl
    simp only [Flavor.step, Slice, hl]
    by_cases h : bs.length > s.mem.length - s.cursor
    · have h1 : ¬ s.cursor + bs.length ≤ s.mem.length := by omega
      simp [h, h1]
    · have h1 : s.cursor + bs.length ≤ s.mem.length := by omega
      simp [h, h1]

/-- Item 6, success half: everything fits ⇒ every call succeeds and the
buffer holds the payload at `[cursor, cursor + len)`. -/
theorem Slice.feed_fits (cs : List Chunk) (s : SliceSt) (hc : s.cursor ≤ s.mem.length)
    (h : s.cursor + (chunkBytes cs).length ≤ s.mem.length) :
    Slice.feed s cs =
      (⟨writeAt s.mem s.cursor (chunkBytes cs), s.cursor + (chunkBytes cs).length⟩, none) := by
  induction cs generalizing s with
  | nil => simp [Flavor.feed, writeAt_nil]
  | cons c cs ih =>
    simp only [chunkBytes_cons, List.length_append] at h ⊢
    simp only [Flavor.feed]
    rw [Slice.step_eq s c hc, if_pos (by omega)]
    simp only
    rw [ih]
    · simp only [writeAt_writeAt _ _ hc, Nat.add_assoc]
    · simp only [writeAt_length (show s.cursor + c.bytes.length ≤ s.mem.length by omega)]
      omega
    · simp only [writeAt_length (show s.cursor + c.bytes.length ≤ s.mem.length by omega)]
      omega

/-- Item 6, failure half: something does not fit ⇒ `SerializeBufferFull`, and
the final state is the initial one with a prefix `p` of the payload written at
`[cursor, cursor + p.length)`, entirely inside the buffer. -/
theorem Slice.feed_overflow (cs : List Chunk) (s : SliceSt) (hc : s.cursor ≤ s.mem.length)
    (h : ¬ s.cursor + (chunkBytes cs).length ≤ s.mem.length) :
    ∃ p, p <+: chunkBytes cs ∧ s.cursor + p.length ≤ s.mem.length ∧
      Slice.feed s cs = (⟨writeAt s.mem s.cursor p, s.cursor + p.length⟩, some .bufferFull) := by
  induction cs generalizing s with
  | nil => simp at h; omega
  | cons c cs ih =>
    simp only [chunkBytes_cons, List.length_append] at h ⊢
    simp only [Flavor.feed]
    rw [Slice.step_eq s c hc]
    by_cases hfit : s.cursor + c.bytes.length ≤ s.mem.length
    · rw [if_pos hfit]
      simp only
      have hlen := writeAt_length hfit
      obtain ⟨p, hp, hb, he⟩ := ih ⟨writeAt s.mem s.cursor c.bytes, s.cursor + c.bytes.length⟩
        (by simp only [hlen]; omega) (by simp only [hlen]; omega)
      refine ⟨c.bytes ++ p, ?_, ?_, ?_⟩
      · exact (List.prefix_append_right_inj _).2 hp
      · simp only [hlen] at hb; simp only [List.length_append]; omega
      · rw [he]
        simp only [writeAt_writeAt _ _ hc, List.length_append, Nat.add_assoc]
    · rw [if_neg hfit]
      exact ⟨[], List.nil_prefix, by simpa using hc, by simp [writeAt_nil]⟩

/-- Item 6 in the observational form: after a failed run the buffer has its
original length, the cursor moved forward and stayed in bounds, cells outside
`[s.cursor, s'.cursor)` are unchanged and cells inside hold the payload. -/
theorem Slice.feed_overflow_obs (cs : List Chunk) (s : SliceSt) (hc : s.cursor ≤ s.mem.length)
    (h : ¬ s.cursor + (chunkBytes cs).length ≤ s.mem.length) :
    ∃ s', Slice.feed s cs = (s', some .bufferFull) ∧
      s'.mem.length = s.mem.length ∧ s.cursor ≤ s'.cursor ∧ s'.cursor ≤ s'.mem.length ∧
      (∀ i, i < s.cursor → s'.mem[i]? = s.mem[i]?) ∧
      (∀ i, s'.cursor ≤ i → s'.mem[i]? = s.mem[i]?) ∧
      (∀ j, s.cursor + j < s'.cursor → s'.mem[s.cursor + j]? = (chunkBytes cs)[j]?) := by
  obtain ⟨p, hp, hb, he⟩ := Slice.feed_overflow cs s hc h
  refine ⟨_, he, writeAt_length hb, by simp, ?_, ?_, ?_, ?_⟩
  · simp only [writeAt_length hb]; exact hb
  · intro i hi; exact writeAt_getElem?_lt hc hi
  · intro i hi; exact writeAt_getElem?_ge hc hi
  · intro j hj
    have hj' : j < p.length := by simp only at hj; omega
    rw [writeAt_getElem?_mid hc hj']
    obtain ⟨t, ht⟩ := hp
    rw [← ht, List.getElem?_append, if_pos hj']

/-! ## F. `HVec` -/

theorem HVec.step_eq (s : HVecSt) (c : Chunk) :
    HVec.step s c =
      if s.vec.length + c.bytes.length ≤ s.cap then (⟨s.cap, s.vec ++ c.bytes⟩, none)
      else (s, some .bufferFull) := by
  cases c with
  | push b =>
    have hl : (Chunk.push b).bytes = [b] := rfl
    simp only [Flavor.step, HVec, hl, List.length_singleton]
    by_cases h : s.vec.length < s.cap
    · have h1 : s.vec.length + 1 ≤ s.cap := by omega
      simp [h, h1]
    · have h1 : ¬ s.vec.length + 1 ≤ s.cap := by omega
      simp [h, h1]
  | extend bs =>
    have hl : (Chunk.extend bs).bytes = bs := rfl
    simp only [Flavor.step, HVec, hl]
    by_cases h : s.vec.length + bs.length > s.cap
    · have h1 : ¬ s.vec.length + bs.length ≤ s.cap := by omega
      simp [h, h1]
    · have h1 : s.vec.length + bs.length ≤ s.cap := by omega
      simp [h, h1]

theorem HVec.feed_fits (cs : List Chunk) (s : HVecSt)
    (h : s.vec.length + (chunkBytes cs).length ≤ s.cap) :
    HVec.feed s cs = (⟨s.cap, s.vec ++ chunkBytes cs⟩, none) := by
  induction cs generalizing s with
  | nil => simp [Flavor.feed]
  | cons c cs ih =>
    simp only [chunkBytes_cons, List.length_append] at h ⊢
    simp only [Flavor.feed]
    rw [HVec.step_eq, if_pos (by omega)]
    simp only
    rw [ih]
    · simp
    · simp only [List.length_append]; omega

theorem HVec.feed_overflow (cs : List Chunk) (s : HVecSt) (hc : s.vec.length ≤ s.cap)
    (h : ¬ s.vec.length + (chunkBytes cs).length ≤ s.cap) :
    ∃ p, p <+: chunkBytes cs ∧ s.vec.length + p.length ≤ s.cap ∧
      HVec.feed s cs = (⟨s.cap, s.vec ++ p⟩, some .bufferFull) := by
  induction cs generalizing s with
  | nil => simp at h; omega
  | cons c cs ih =>
    simp only [chunkBytes_cons, List.length_append] at h ⊢
    simp only [Flavor.feed]
    rw [HVec.step_eq]
    by_cases hfit : s.vec.length + c.bytes.length ≤ s.cap
    · rw [if_pos hfit]
      simp only
      obtain ⟨p, hp, hb, he⟩ := ih ⟨s.cap, s.vec ++ c.bytes⟩
        (by simp only [List.length_append]; omega) (by simp only [List.length_append]; omega)
      refine ⟨c.bytes ++ p, (List.prefix_append_right_inj _).2 hp, ?_, ?_⟩
      · simp only [List.length_append] at hb ⊢; omega
      · rw [he]; simp
    · rw [if_neg hfit]
      refine ⟨[], List.nil_prefix, ?_, by simp⟩
      simp only [List.length_nil, Nat.add_zero]
      omega

/-! ## G. an arbitrary flavour sees `emit v`, in order (for property C20) -/

/-- the calls actually issued to `F` when the serializer runs the call
sequence `cs` from state `s`: everything up to and including the first
failing call. -/
def Flavor.issued {σ ω} (F : Flavor σ ω) : σ → List Chunk → List Chunk
  | _, [] => []
  | s, c :: cs =>
    match F.step s c with
    | (s', none) => c :: F.issued s' cs
    | (_, some _) => [c]

theorem Flavor.issued_prefix {σ ω} (F : Flavor σ ω) (s : σ) (cs : List Chunk) :
    F.issued s cs <+: cs := by
  induction cs generalizing s with
  | nil => simp [Flavor.issued]
  | cons c cs ih =>
    simp only [Flavor.issued]
    cases hst : F.step s c with
    | mk s1 r =>
      cases r with
      | none => exact (List.prefix_cons_inj c).2 (ih s1)
      | some e => exact ⟨cs, rfl⟩

theorem Flavor.issued_of_ok {σ ω} (F : Flavor σ ω) (s : σ) (cs : List Chunk)
    (h : (F.feed s cs).2 = none) : F.issued s cs = cs := by
  induction cs generalizing s with
  | nil => simp [Flavor.issued]
  | cons c cs ih =>
    simp only [Flavor.issued, Flavor.feed] at h ⊢
    cases hst : F.step s c with
    | mk s1 r =>
      rw [hst] at h
      cases r with
      | none => simp only at h ⊢; rw [ih s1 h]
      | some e => simp at h

theorem chunkBytes_prefix {a b : List Chunk} (h : a <+: b) : chunkBytes a <+: chunkBytes b := by
  obtain ⟨t, rfl⟩ := h
  rw [chunkBytes_append]
  exact List.prefix_append _ _

/-- The recording flavour: logs every call, never fails. -/
def Rec : Flavor (List Chunk) (List Chunk) where
  tryPush s b := (s ++ [.push b], none)
  tryExtend s bs := (s ++ [.extend bs], none)
  finalize s := (s, .ok s)
  setAt _ _ _ := none

theorem Rec.step_eq (s : List Chunk) (c : Chunk) : Rec.step s c = (s ++ [c], none) := by
  cases c <;> rfl

theorem Rec.feed_eq (s cs : List Chunk) : Rec.feed s cs = (s ++ cs, none) := by
  induction cs generalizing s with
  | nil => simp [Flavor.feed]
  | cons c cs ih => simp only [Flavor.feed, Rec.step_eq, ih, List.append_assoc, List.singleton_append]

/-- The byte-recording flavour with the trait's DEFAULT `try_extend`: logs every
pushed byte. -/
def RecBytes : Flavor (List Byte) (List Byte) where
  tryPush s b := (s ++ [b], none)
  tryExtend := defaultExtend fun s b => (s ++ [b], none)
  finalize s := (s, .ok s)
  setAt _ _ _ := none

theorem RecBytes.extend_eq (s bs : List Byte) :
    defaultExtend (fun (s : List Byte) b => (s ++ [b], (none : Option Err))) s bs = (s ++ bs, none) := by
  induction bs generalizing s with
  | nil => simp [defaultExtend]
  | cons b bs ih => simp [defaultExtend, ih]

theorem RecBytes.feed_eq (s : List Byte) (cs : List Chunk) :
    RecBytes.feed s cs = (s ++ chunkBytes cs, none) := by
  rw [Flavor.feed_defaultExtend RecBytes rfl]
  exact RecBytes.extend_eq s _

theorem Flavor.feed_issued {σ ω} (F : Flavor σ ω) (s : σ) (cs : List Chunk) :
    F.feed s (F.issued s cs) = F.feed s cs := by
  induction cs generalizing s with
  | nil => simp [Flavor.issued]
  | cons c cs ih =>
    simp only [Flavor.issued]
    cases hst : F.step s c with
    | mk s1 r =>
      cases r with
      | none => simp only [Flavor.feed, hst, ih]
      | some e => simp only [Flavor.feed, hst]

/-! ## H. the entry points -/

theorem toAllocVec_ok (v : Val) : toAllocVec v = .ok (enc v) := by
  simp only [toAllocVec, serializeWith, AllocVec.feed_eq, chunkBytes_emit, List.nil_append]
  rfl

theorem serializedSize_ok (v : Val) : serializedSize v = .ok (enc v).length := by
  simp only [serializedSize, serializeWith, SizeFl.feed_eq, chunkBytes_emit, Nat.zero_add]
  rfl

theorem toSlice_fits (v : Val) (buf : List Byte) (h : (enc v).length ≤ buf.length) :
    toSlice v buf = (⟨enc v ++ buf.drop (enc v).length, (enc v).length⟩, .ok (enc v)) := by
  have hf := Slice.feed_fits (emit v) ⟨buf, 0⟩ (Nat.zero_le _)
    (by simpa [chunkBytes_emit] using h)
  simp only [chunkBytes_emit, writeAt_zero, Nat.zero_add] at hf
  simp only [toSlice, serializeWith, hf]
  simp [Slice]

theorem toSlice_overflow (v : Val) (buf : List Byte) (h : ¬ (enc v).length ≤ buf.length) :
    ∃ p, p <+: enc v ∧ p.length ≤ buf.length ∧
      toSlice v buf = (⟨p ++ buf.drop p.length, p.length⟩, .error .bufferFull) := by
  obtain ⟨p, hp, hb, he⟩ := Slice.feed_overflow (emit v) ⟨buf, 0⟩ (Nat.zero_le _)
    (by simpa [chunkBytes_emit] using h)
  simp only [chunkBytes_emit, writeAt_zero, Nat.zero_add] at hp hb he
  exact ⟨p, hp, hb, by simp only [toSlice, serializeWith, he]⟩

theorem toHVec_fits (cap : Nat) (v : Val) (h : (enc v).length ≤ cap) :
    toHVec cap v = (⟨cap, enc v⟩, .ok (enc v)) := by
  have hf := HVec.feed_fits (emit v) ⟨cap, []⟩ (by simpa [chunkBytes_emit] using h)
  simp only [chunkBytes_emit, List.nil_append] at hf
  simp only [toHVec, serializeWith, hf]
  rfl

theorem toHVec_overflow (cap : Nat) (v : Val) (h : ¬ (enc v).length ≤ cap) :
    ∃ p, p <+: enc v ∧ p.length ≤ cap ∧ toHVec cap v = (⟨cap, p⟩, .error .bufferFull) := by
  obtain ⟨p, hp, hb, he⟩ := HVec.feed_overflow (emit v) ⟨cap, []⟩ (Nat.zero_le _)
    (by simpa [chunkBytes_emit] using h)
  simp only [chunkBytes_emit, List.nil_append, List.length_nil, Nat.zero_add] at hp hb he
  exact ⟨p, hp, hb, by simp only [toHVec, serializeWith, he]⟩

end Postcard
