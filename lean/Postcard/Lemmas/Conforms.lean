import Postcard.Spec.Conforms
import Postcard.Model.SchemaImpls
import Postcard.Lemmas.Varint
import Postcard.Lemmas.RoundTrip
import Postcard.Lemmas.SchemaSer
/-
  Postcard.Lemmas.Conforms — helper lemmas for property C14.

  A. the `.schema` kind: call trees of schema values (`ctSchema`), equality up
     to type names, `isSchemaTree`;
  B. the schema-driven reader consumes every conforming encoding (`sr_*`);
  C. what `callTree` emits conforms to `schemaOf` (`sc_*`);
  D. what `callTree` emits is a well-formed value (`cw_*`).
-/
namespace Postcard

/-! ## A. schema values as call trees -/

theorem idxOf_eq (o : Bool) (k : SchemaKind) : idxOf o k = idxOwned k := by
  cases o
  · cases k <;> rfl
  · rfl

theorem dataIdxOf_eq (o : Bool) (k : DataKind) : dataIdxOf o k = dataIdxOwned k := by
  cases o
  · cases k <;> rfl
  · rfl

-- A1. equality up to type names implies equal erasure
mutual
theorem eqModTy_erase : ∀ (a b : CT), CT.eqModTy a b = true → a.erase = b.erase
  | .bool x, b, h => by cases b <;> simp [CT.eqModTy] at h; simp [CT.erase, h]
  | .u w n, b, h => by cases b <;> simp [CT.eqModTy] at h; simp [CT.erase, h]
  | .i w n, b, h => by cases b <;> simp [CT.eqModTy] at h; simp [CT.erase, h]
  | .f32 x, b, h => by cases b <;> simp [CT.eqModTy] at h; simp [CT.erase, h]
  | .f64 x, b, h => by cases b <;> simp [CT.eqModTy] at h; simp [CT.erase, h]
  | .char x, b, h => by cases b <;> simp [CT.eqModTy] at h; simp [CT.erase, h]
  | .str x, b, h => by cases b <;> simp [CT.eqModTy] at h; simp [CT.erase, h]
  | .bytes x, b, h => by cases b <;> simp [CT.eqModTy] at h; simp [CT.erase, h]
  | .none, b, h => by cases b <;> simp [CT.eqModTy] at h; simp [CT.erase]
  | .some x, b, h => by
    cases b <;> simp [CT.eqModTy] at h; simp [CT.erase, eqModTy_erase x _ h]
  | .unit, b, h => by cases b <;> simp [CT.eqModTy] at h; simp [CT.erase]
  | .unitStruct _, b, h => by cases b <;> simp [CT.eqModTy] at h; simp [CT.erase]
  | .unitVariant _ p vn, b, h => by cases b <;> simp [CT.eqModTy] at h; simp [CT.erase, h]
  | .newtypeStruct _ x, b, h => by
    cases b <;> simp [CT.eqModTy] at h; simp [CT.erase, eqModTy_erase x _ h]
  | .newtypeVariant _ p vn x, b, h => by
    cases b <;> simp [CT.eqModTy] at h; simp [CT.erase, h, eqModTy_erase x _ h.2]
  | .seq xs, b, h => by
    cases b <;> simp [CT.eqModTy] at h; simp [CT.erase, eqModTyList_erase xs _ h]
  | .tuple xs, b, h => by
    cases b <;> simp [CT.eqModTy] at h; simp [CT.erase, eqModTyList_erase xs _ h]
  | .tupleStruct _ xs, b, h => by
    cases b <;> simp [CT.eqModTy] at h; simp [CT.erase, eqModTyList_erase xs _ h]
  | .tupleVariant _ p vn xs, b, h => by
    cases b <;> simp [CT.eqModTy] at h; simp [CT.erase, h, eqModTyList_erase xs _ h.2]
  | .map xs, b, h => by
    cases b <;> simp [CT.eqModTy] at h; simp [CT.erase, eqModTyList_erase xs _ h]
  | .struct _ ns xs, b, h => by
    cases b <;> simp [CT.eqModTy] at h; simp [CT.erase, eqModTyList_erase xs _ h.2]
  | .structVariant _ p vn ns xs, b, h => by
    cases b <;> simp [CT.eqModTy] at h; simp [CT.erase, h, eqModTyList_erase xs _ h.2]
theorem eqModTyList_erase : ∀ (as bs : List CT), CT.eqModTyList as bs = true →
    CT.eraseList as = CT.eraseList bs
  | [], bs, h => by cases bs <;> simp [CT.eqModTyList] at h; rfl
  | a :: as, bs, h => by
    cases bs <;> simp [CT.eqModTyList] at h
    simp [CT.eraseList, eqModTy_erase a _ h.1, eqModTyList_erase as _ h.2]
end

-- A2. erasing the names of `ctSchema` gives `serOwned` (both families: C15 `tables_equal`)
mutual
theorem erase_ctSchema (o : Bool) : ∀ s : Schema, (ctSchema o s).erase = serOwned s
  | .option t => by simp [ctSchema, CT.erase, serOwned, idxOf_eq, erase_ctSchema o t]
  | .seq t => by simp [ctSchema, CT.erase, serOwned, idxOf_eq, erase_ctSchema o t]
  | .tuple ts => by simp [ctSchema, CT.erase, serOwned, idxOf_eq, erase_ctSchemaList o ts]
  | .map k v => by
    simp [ctSchema, CT.erase, CT.eraseList, serOwned, idxOf_eq, erase_ctSchema o k,
      erase_ctSchema o v]
  | .struct n d => by
    simp [ctSchema, CT.erase, CT.eraseList, serOwned, idxOf_eq, erase_ctSchemaData o d]
  | .enum n vs => by
    simp [ctSchema, CT.erase, CT.eraseList, serOwned, idxOf_eq, erase_ctSchemaVariants o vs]
  | .bool | .i8 | .u8 | .i16 | .i32 | .i64 | .i128 | .u16 | .u32 | .u64 | .u128
  | .usize | .isize | .f32 | .f64 | .char | .string | .byteArray | .unit | .schema => by
    simp [ctSchema, CT.erase, serOwned, idxOf_eq]
theorem erase_ctSchemaList (o : Bool) : ∀ ts : List Schema,
    CT.eraseList (ctSchemaList o ts) = serOwnedList ts
  | [] => by simp [ctSchemaList, CT.eraseList, serOwnedList]
  | t :: ts => by
    simp [ctSchemaList, CT.eraseList, serOwnedList, erase_ctSchema o t, erase_ctSchemaList o ts]
theorem erase_ctSchemaData (o : Bool) : ∀ d : SData, (ctSchemaData o d).erase = serOwnedData d
  | .unit => by simp [ctSchemaData, CT.erase, serOwnedData, dataIdxOf_eq]
  | .newtype t => by
    simp [ctSchemaData, CT.erase, serOwnedData, dataIdxOf_eq, erase_ctSchema o t]
  | .tuple ts => by
    simp [ctSchemaData, CT.erase, serOwnedData, dataIdxOf_eq, erase_ctSchemaList o ts]
  | .struct fs => by
    simp [ctSchemaData, CT.erase, serOwnedData, dataIdxOf_eq, erase_ctSchemaFields o fs]
theorem erase_ctSchemaFields (o : Bool) : ∀ fs : List SField,
    CT.eraseList (ctSchemaFields o fs) = serOwnedFields fs
  | [] => by simp [ctSchemaFields, CT.eraseList, serOwnedFields]
  | .mk n t :: fs => by
    simp [ctSchemaFields, CT.eraseList, CT.erase, serOwnedFields, erase_ctSchema o t,
      erase_ctSchemaFields o fs]
theorem erase_ctSchemaVariants (o : Bool) : ∀ vs : List SVariant,
    CT.eraseList (ctSchemaVariants o vs) = serOwnedVariants vs
  | [] => by simp [ctSchemaVariants, CT.eraseList, serOwnedVariants]
  | .mk n d :: vs => by
    simp [ctSchemaVariants, CT.eraseList, CT.erase, serOwnedVariants, erase_ctSchemaData o d,
      erase_ctSchemaVariants o vs]
end

-- A3. a schema value's serialisation is a well-formed value iff the schema is well-formed
mutual
theorem wfVal_serOwned : ∀ s : Schema, (serOwned s).wfVal = s.wf
  | .option t => by
    simp [serOwned, Val.wfVal, Schema.wf, wfVal_serOwned t, idxOwned]
  | .seq t => by simp [serOwned, Val.wfVal, Schema.wf, wfVal_serOwned t, idxOwned]
  | .tuple ts => by
    simp [serOwned, Val.wfVal, Schema.wf, wfVal_serOwnedList ts, idxOwned, serOwnedList_length]
  | .map k v => by
    simp [serOwned, Val.wfVal, Val.wfValList, Schema.wf, wfVal_serOwned k, wfVal_serOwned v,
      idxOwned]
  | .struct n d => by
    simp [serOwned, Val.wfVal, Val.wfValList, Schema.wf, wfVal_serOwnedData d, idxOwned, nameOk]
  | .enum n vs => by
    simp [serOwned, Val.wfVal, Val.wfValList, Schema.wf, wfVal_serOwnedVariants vs, idxOwned,
      nameOk, serOwnedVariants_length, Bool.and_assoc]
  | .bool | .i8 | .u8 | .i16 | .i32 | .i64 | .i128 | .u16 | .u32 | .u64 | .u128
  | .usize | .isize | .f32 | .f64 | .char | .string | .byteArray | .unit | .schema => by
    simp [serOwned, Val.wfVal, Schema.wf, idxOwned]
theorem wfVal_serOwnedList : ∀ ts : List Schema,
    Val.wfValList (serOwnedList ts) = Schema.wfList ts
  | [] => by simp [serOwnedList, Val.wfValList, Schema.wfList]
  | t :: ts => by
    simp [serOwnedList, Val.wfValList, Schema.wfList, wfVal_serOwned t, wfVal_serOwnedList ts]
theorem wfVal_serOwnedData : ∀ d : SData, (serOwnedData d).wfVal = d.wf
  | .unit => by simp [serOwnedData, Val.wfVal, SData.wf, dataIdxOwned]
  | .newtype t => by simp [serOwnedData, Val.wfVal, SData.wf, dataIdxOwned, wfVal_serOwned t]
  | .tuple ts => by
    simp [serOwnedData, Val.wfVal, SData.wf, dataIdxOwned, wfVal_serOwnedList ts,
      serOwnedList_length]
  | .struct fs => by
    simp [serOwnedData, Val.wfVal, SData.wf, dataIdxOwned, wfVal_serOwnedFields fs,
      serOwnedFields_length]
theorem wfVal_serOwnedFields : ∀ fs : List SField,
    Val.wfValList (serOwnedFields fs) = SField.wfList fs
  | [] => by simp [serOwnedFields, Val.wfValList, SField.wfList]
  | .mk n t :: fs => by
    simp [serOwnedFields, Val.wfValList, Val.wfVal, SField.wfList, wfVal_serOwned t,
      wfVal_serOwnedFields fs, nameOk]
theorem wfVal_serOwnedVariants : ∀ vs : List SVariant,
    Val.wfValList (serOwnedVariants vs) = SVariant.wfList vs
  | [] => by simp [serOwnedVariants, Val.wfValList, SVariant.wfList]
  | .mk n d :: vs => by
    simp [serOwnedVariants, Val.wfValList, Val.wfVal, SVariant.wfList, wfVal_serOwnedData d,
      wfVal_serOwnedVariants vs, nameOk]
end

-- A4. the witness finder finds the schema a call tree was made from
theorem kindOfIdx_idxOf (o : Bool) (k : SchemaKind) : kindOfIdxOwned (idxOf o k) = some k := by
  rw [idxOf_eq]; exact kindOfIdxOwned_idxOwned k

theorem dataKindOfIdx_dataIdxOf (o : Bool) (k : DataKind) :
    dataKindOfIdxOwned (dataIdxOf o k) = some k := by
  rw [dataIdxOf_eq]; exact dataKindOfIdxOwned_dataIdxOwned k

mutual
theorem toSchema_ctSchema (o : Bool) : ∀ s : Schema, toSchema (ctSchema o s) = some s
  | .option t => by simp [ctSchema, toSchema, kindOfIdx_idxOf, toSchema_ctSchema o t]
  | .seq t => by simp [ctSchema, toSchema, kindOfIdx_idxOf, toSchema_ctSchema o t]
  | .tuple ts => by
    simp [ctSchema, toSchema, toSchemaSeq, kindOfIdx_idxOf, toSchemaList_ctSchema o ts]
  | .map k v => by
    simp [ctSchema, toSchema, toSchemaList, kindOfIdx_idxOf, toSchema_ctSchema o k,
      toSchema_ctSchema o v]
  | .struct n d => by
    simp [ctSchema, toSchema, toNameData, kindOfIdx_idxOf, toData_ctSchema o d]
  | .enum n vs => by
    simp [ctSchema, toSchema, toNameVariants, kindOfIdx_idxOf, toVariants_ctSchema o vs]
  | .bool | .i8 | .u8 | .i16 | .i32 | .i64 | .i128 | .u16 | .u32 | .u64 | .u128
  | .usize | .isize | .f32 | .f64 | .char | .string | .byteArray | .unit | .schema => by
    simp [ctSchema, toSchema, kindOfIdx_idxOf, leafOfKind]
theorem toSchemaList_ctSchema (o : Bool) : ∀ ts : List Schema,
    toSchemaList (ctSchemaList o ts) = some ts
  | [] => by simp [ctSchemaList, toSchemaList]
  | t :: ts => by
    simp [ctSchemaList, toSchemaList, toSchema_ctSchema o t, toSchemaList_ctSchema o ts]
theorem toData_ctSchema (o : Bool) : ∀ d : SData, toData (ctSchemaData o d) = some d
  | .unit => by simp [ctSchemaData, toData, dataKindOfIdx_dataIdxOf]
  | .newtype t => by simp [ctSchemaData, toData, dataKindOfIdx_dataIdxOf, toSchema_ctSchema o t]
  | .tuple ts => by
    simp [ctSchemaData, toData, toSchemaSeq, dataKindOfIdx_dataIdxOf, toSchemaList_ctSchema o ts]
  | .struct fs => by
    simp [ctSchemaData, toData, toFieldsSeq, dataKindOfIdx_dataIdxOf, toFields_ctSchema o fs]
theorem toFields_ctSchema (o : Bool) : ∀ fs : List SField,
    toFields (ctSchemaFields o fs) = some fs
  | [] => by simp [ctSchemaFields, toFields]
  | .mk n t :: fs => by
    simp [ctSchemaFields, toFields, toField, toNameTy, toSchema_ctSchema o t,
      toFields_ctSchema o fs]
theorem toVariants_ctSchema (o : Bool) : ∀ vs : List SVariant,
    toVariants (ctSchemaVariants o vs) = some vs
  | [] => by simp [ctSchemaVariants, toVariants]
  | .mk n d :: vs => by
    simp [ctSchemaVariants, toVariants, toVariant, toNameDataV, toData_ctSchema o d,
      toVariants_ctSchema o vs]
end

-- A5. the two families differ in type names only
mutual
theorem eqModTy_ctSchema (o : Bool) : ∀ s : Schema,
    CT.eqModTy (ctSchema o s) (ctSchema true s) = true
  | .option t => by simp [ctSchema, CT.eqModTy, idxOf_eq, eqModTy_ctSchema o t]
  | .seq t => by simp [ctSchema, CT.eqModTy, idxOf_eq, eqModTy_ctSchema o t]
  | .tuple ts => by simp [ctSchema, CT.eqModTy, idxOf_eq, eqModTy_ctSchemaList o ts]
  | .map k v => by
    simp [ctSchema, CT.eqModTy, CT.eqModTyList, idxOf_eq, eqModTy_ctSchema o k,
      eqModTy_ctSchema o v]
  | .struct n d => by
    simp [ctSchema, CT.eqModTy, CT.eqModTyList, idxOf_eq, eqModTy_ctSchemaData o d]
  | .enum n vs => by
    simp [ctSchema, CT.eqModTy, CT.eqModTyList, idxOf_eq, eqModTy_ctSchemaVariants o vs]
  | .bool | .i8 | .u8 | .i16 | .i32 | .i64 | .i128 | .u16 | .u32 | .u64 | .u128
  | .usize | .isize | .f32 | .f64 | .char | .string | .byteArray | .unit | .schema => by
    simp [ctSchema, CT.eqModTy, idxOf_eq]
theorem eqModTy_ctSchemaList (o : Bool) : ∀ ts : List Schema,
    CT.eqModTyList (ctSchemaList o ts) (ctSchemaList true ts) = true
  | [] => by simp [ctSchemaList, CT.eqModTyList]
  | t :: ts => by
    simp [ctSchemaList, CT.eqModTyList, eqModTy_ctSchema o t, eqModTy_ctSchemaList o ts]
theorem eqModTy_ctSchemaData (o : Bool) : ∀ d : SData,
    CT.eqModTy (ctSchemaData o d) (ctSchemaData true d) = true
  | .unit => by simp [ctSchemaData, CT.eqModTy, dataIdxOf_eq]
  | .newtype t => by simp [ctSchemaData, CT.eqModTy, dataIdxOf_eq, eqModTy_ctSchema o t]
  | .tuple ts => by simp [ctSchemaData, CT.eqModTy, dataIdxOf_eq, eqModTy_ctSchemaList o ts]
  | .struct fs => by simp [ctSchemaData, CT.eqModTy, dataIdxOf_eq, eqModTy_ctSchemaFields o fs]
theorem eqModTy_ctSchemaFields (o : Bool) : ∀ fs : List SField,
    CT.eqModTyList (ctSchemaFields o fs) (ctSchemaFields true fs) = true
  | [] => by simp [ctSchemaFields, CT.eqModTyList]
  | .mk n t :: fs => by
    simp [ctSchemaFields, CT.eqModTyList, CT.eqModTy, eqModTy_ctSchema o t,
      eqModTy_ctSchemaFields o fs]
theorem eqModTy_ctSchemaVariants (o : Bool) : ∀ vs : List SVariant,
    CT.eqModTyList (ctSchemaVariants o vs) (ctSchemaVariants true vs) = true
  | [] => by simp [ctSchemaVariants, CT.eqModTyList]
  | .mk n d :: vs => by
    simp [ctSchemaVariants, CT.eqModTyList, CT.eqModTy, eqModTy_ctSchemaData o d,
      eqModTy_ctSchemaVariants o vs]
end

/-- the call tree of every schema value (either family) is a schema tree -/
theorem isSchemaTree_ctSchema (o : Bool) (s : Schema) : isSchemaTree (ctSchema o s) = true := by
  simp [isSchemaTree, toSchema_ctSchema, eqModTy_ctSchema]

/-- a schema tree is, after erasing names, the serialisation of a schema value -/
theorem isSchemaTree_erase {c : CT} (h : isSchemaTree c = true) :
    ∃ s', c.erase = serOwned s' := by
  unfold isSchemaTree at h
  split at h
  · rename_i s' _
    exact ⟨s', by rw [eqModTy_erase _ _ h, erase_ctSchema]⟩
  · simp at h

/-- `conforms _ .schema` is `isSchemaTree` -/
theorem conforms_schema (c : CT) : conforms c .schema = isSchemaTree c := by
  cases c <;> simp [conforms, isSchemaTree, toSchema, uKindOf, iKindOf]

/-! ## B. the schema-driven reader -/

theorem C14.varint_rt : ∀ bits n rest, (bits = 32 ∨ bits = 64) → n < 2 ^ bits →
    decVarint bits (encVarint bits n ++ rest) = .ok (n, rest) := by
  intro bits n rest hb hn
  exact decVarint_encVarint (by rcases hb with h | h <;> simp [WidthOk, h]) hn rest

/-- the `.schema` kind: an embedded schema value is read by `decOwned` -/
theorem sr_schema (c : CT) (h : isSchemaTree c = true) (hw : c.wfVal = true) (fuel : Nat)
    (hf : (enc c.erase).length < fuel) (rest : List Byte) :
    schemaParse fuel .schema (enc c.erase ++ rest) = .ok (c.erase, rest) := by
  obtain ⟨s', hs⟩ := isSchemaTree_erase h
  have hwf : s'.wf = true := by rw [← wfVal_serOwned, ← hs]; exact hw
  have hsz := size_le_enc s'
  rw [hs] at hf ⊢
  simp only [schemaParse]
  rw [rt_schema C14.varint_rt s' fuel rest (by omega) hwf]

theorem schemaParseVariant_getElem (fuel : Nat) (v : SVariant) (idx : Nat) (bs : List Byte) :
    ∀ (vs : List SVariant) (k : Nat), vs[k]? = some v →
      schemaParseVariant fuel vs k idx bs = schemaParseVariant fuel [v] 0 idx bs := by
  intro vs
  induction vs with
  | nil => intro k h; simp at h
  | cons a as ih =>
    intro k h
    cases k with
    | zero =>
      simp at h; subst h
      cases a; simp [schemaParseVariant]
    | succ k =>
      simp at h
      cases a
      simp only [schemaParseVariant]
      exact ih k h

-- C14: a reader that knows only the schema consumes every conforming encoding exactly
mutual
theorem sr_val : (c : CT) → (s : Schema) → conforms c s = true → c.wfVal = true →
    (fuel : Nat) → (enc c.erase).length < fuel → (rest : List Byte) →
    schemaParse fuel s (enc c.erase ++ rest) = .ok (c.erase, rest)
  | .bool b, s, h, _, fuel, _, rest => by
    cases s <;> simp [conforms] at h
    simp only [CT.erase, schemaParse]; exact rt_bool b rest
  | .u w n, s, h, hw, fuel, _, rest => by
    simp [CT.wfVal, CT.erase, Val.wfVal] at hw
    cases s <;> simp [conforms, uKindOf] at h <;> subst h <;>
      simp only [CT.erase, schemaParse] <;> exact rt_u _ n hw rest
  | .i w x, s, h, hw, fuel, _, rest => by
    simp [CT.wfVal, CT.erase, Val.wfVal] at hw
    cases s <;> simp [conforms, iKindOf] at h <;> subst h <;>
      simp only [CT.erase, schemaParse] <;> exact rt_i _ x hw rest
  | .f32 b, s, h, hw, fuel, _, rest => by
    simp [CT.wfVal, CT.erase, Val.wfVal] at hw
    cases s <;> simp [conforms] at h
    simp only [CT.erase, schemaParse]; exact rt_f32 b hw rest
  | .f64 b, s, h, hw, fuel, _, rest => by
    simp [CT.wfVal, CT.erase, Val.wfVal] at hw
    cases s <;> simp [conforms] at h
    simp only [CT.erase, schemaParse]; exact rt_f64 b hw rest
  | .char c, s, h, hw, fuel, _, rest => by
    simp [CT.wfVal, CT.erase, Val.wfVal] at hw
    cases s <;> simp [conforms] at h
    simp only [CT.erase, schemaParse]; exact rt_char c hw rest
  | .str b, s, h, hw, fuel, _, rest => by
    simp [CT.wfVal, CT.erase, Val.wfVal] at hw
    cases s <;> simp [conforms] at h
    simp only [CT.erase, schemaParse]; exact rt_str b hw.1 hw.2 rest
  | .bytes b, s, h, hw, fuel, _, rest => by
    simp [CT.wfVal, CT.erase, Val.wfVal] at hw
    cases s <;> simp [conforms] at h
    simp only [CT.erase, schemaParse]; exact rt_bytes b hw rest
  | .none, s, h, _, fuel, _, rest => by
    cases s <;> simp [conforms] at h
    simp [CT.erase, enc, schemaParse]
  | .some c, s, h, hw, fuel, hf, rest => by
    cases s <;> simp [conforms] at h
    simp only [CT.wfVal, CT.erase, Val.wfVal] at hw
    have hf' : (enc c.erase).length < fuel := by simp [CT.erase, enc] at hf; omega
    simp [CT.erase, enc, schemaParse, sr_val c _ h hw fuel hf' rest]
  | .unit, s, h, _, fuel, _, rest => by
    cases s <;> simp [conforms] at h
    simp [CT.erase, enc, schemaParse]
  | .unitStruct _, s, h, _, fuel, _, rest => by
    cases s with
    | struct n d =>
      cases d <;> simp [conforms] at h
      simp [CT.erase, enc, schemaParse, schemaParseData, mkUnit]
    | _ => simp [conforms] at h
  | .newtypeStruct _ c, s, h, hw, fuel, hf, rest => by
    cases s with
    | struct n d =>
      cases d <;> simp [conforms] at h
      simp only [CT.wfVal, CT.erase, Val.wfVal] at hw
      have hf' : (enc c.erase).length < fuel := by simpa [CT.erase, enc] using hf
      simp [CT.erase, enc, schemaParse, schemaParseData, mkNewtype,
        sr_val c _ h hw fuel hf' rest]
    | _ => simp [conforms] at h
  | .seq cs, s, h, hw, fuel, hf, rest => by
    cases s <;> simp [conforms] at h
    simp [CT.wfVal, CT.erase, Val.wfVal] at hw
    have hf' : (encList (CT.eraseList cs)).length < fuel := by
      simp [CT.erase, enc] at hf; omega
    simp only [CT.erase, enc, schemaParse, List.append_assoc,
      decVarint_encVarint widthOk64 hw.1, sr_all cs _ h hw.2 fuel hf' rest]
  | .tuple cs, s, h, hw, fuel, hf, rest => by
    cases s <;> simp [conforms] at h
    simp only [CT.wfVal, CT.erase, Val.wfVal] at hw
    have hf' : (encList (CT.eraseList cs)).length < fuel := by simpa [CT.erase, enc] using hf
    simp only [CT.erase, enc, schemaParse, sr_list cs _ h hw fuel hf' rest]
  | .tupleStruct _ cs, s, h, hw, fuel, hf, rest => by
    cases s with
    | struct n d =>
      cases d <;> simp [conforms] at h
      simp only [CT.wfVal, CT.erase, Val.wfVal] at hw
      have hf' : (encList (CT.eraseList cs)).length < fuel := by simpa [CT.erase, enc] using hf
      simp only [CT.erase, enc, schemaParse, schemaParseData, mkTuple,
        sr_list cs _ h hw fuel hf' rest]
    | _ => simp [conforms] at h
  | .struct _ ns cs, s, h, hw, fuel, hf, rest => by
    cases s with
    | struct n d =>
      cases d <;> simp [conforms] at h
      simp only [CT.wfVal, CT.erase, Val.wfVal] at hw
      have hf' : (encList (CT.eraseList cs)).length < fuel := by simpa [CT.erase, enc] using hf
      simp only [CT.erase, enc, schemaParse, schemaParseData, mkStruct,
        sr_fields ns cs _ h hw fuel hf' rest]
    | _ => simp [conforms] at h
  | .map kvs, s, h, hw, fuel, hf, rest => by
    cases s <;> simp [conforms] at h
    simp [CT.wfVal, CT.erase, Val.wfVal] at hw
    have hf' : (encList (CT.eraseList kvs)).length < fuel := by
      simp [CT.erase, enc] at hf; omega
    simp only [CT.erase, enc, schemaParse, List.append_assoc,
      decVarint_encVarint widthOk64 hw.1, sr_kv kvs _ _ h hw.2 fuel hf' rest]
  | .unitVariant en idx vn, s, h, hw, fuel, hf, rest => by
    cases s with
    | schema => exact sr_schema _ (by simpa [conforms] using h) hw fuel hf rest
    | «enum» n vs =>
      simp only [conforms] at h
      simp [CT.wfVal, CT.erase, Val.wfVal] at hw
      split at h
      · rename_i vn' hg
        simp only [CT.erase, enc, schemaParse, decVarint_encVarint widthOk32 hw,
          schemaParseVariant_getElem fuel _ idx _ vs idx hg, schemaParseVariant,
          schemaParseData, mkUnit]
      · simp at h
    | _ => simp [conforms] at h
  | .newtypeVariant en idx vn c, s, h, hw, fuel, hf, rest => by
    cases s with
    | schema => exact sr_schema _ (by simpa [conforms] using h) hw fuel hf rest
    | «enum» n vs =>
      simp only [conforms] at h
      simp [CT.wfVal, CT.erase, Val.wfVal] at hw
      have hf' : (enc c.erase).length < fuel := by simp [CT.erase, enc] at hf; omega
      split at h
      · rename_i vn' t hg
        simp at h
        simp only [CT.erase, enc, schemaParse, List.append_assoc,
          decVarint_encVarint widthOk32 hw.1,
          schemaParseVariant_getElem fuel _ idx _ vs idx hg, schemaParseVariant,
          schemaParseData, mkNewtype, sr_val c _ h.2 hw.2 fuel hf' rest]
      · simp at h
    | _ => simp [conforms] at h
  | .tupleVariant en idx vn cs, s, h, hw, fuel, hf, rest => by
    cases s with
    | «enum» n vs =>
      simp only [conforms] at h
      simp [CT.wfVal, CT.erase, Val.wfVal] at hw
      have hf' : (encList (CT.eraseList cs)).length < fuel := by
        simp [CT.erase, enc] at hf; omega
      split at h
      · rename_i vn' ts hg
        simp at h
        simp only [CT.erase, enc, schemaParse, List.append_assoc,
          decVarint_encVarint widthOk32 hw.1,
          schemaParseVariant_getElem fuel _ idx _ vs idx hg, schemaParseVariant,
          schemaParseData, mkTuple, sr_list cs _ h.2 hw.2 fuel hf' rest]
      · simp at h
    | _ => simp [conforms] at h
  | .structVariant en idx vn ns cs, s, h, hw, fuel, hf, rest => by
    cases s with
    | schema => exact sr_schema _ (by simpa [conforms] using h) hw fuel hf rest
    | «enum» n vs =>
      simp only [conforms] at h
      simp [CT.wfVal, CT.erase, Val.wfVal] at hw
      have hf' : (encList (CT.eraseList cs)).length < fuel := by
        simp [CT.erase, enc] at hf; omega
      split at h
      · rename_i vn' fs hg
        simp at h
        simp only [CT.erase, enc, schemaParse, List.append_assoc,
          decVarint_encVarint widthOk32 hw.1,
          schemaParseVariant_getElem fuel _ idx _ vs idx hg, schemaParseVariant,
          schemaParseData, mkStruct, sr_fields ns cs _ h.2 hw.2 fuel hf' rest]
      · simp at h
    | _ => simp [conforms] at h
theorem sr_list : (cs : List CT) → (ts : List Schema) → conformsList cs ts = true →
    Val.wfValList (CT.eraseList cs) = true → (fuel : Nat) →
    (encList (CT.eraseList cs)).length < fuel → (rest : List Byte) →
    schemaParseList fuel ts (encList (CT.eraseList cs) ++ rest) = .ok (CT.eraseList cs, rest)
  | [], ts, h, _, fuel, _, rest => by
    cases ts <;> simp [conformsList] at h
    simp [CT.eraseList, encList, schemaParseList]
  | c :: cs, ts, h, hw, fuel, hf, rest => by
    cases ts <;> simp [conformsList] at h
    simp [CT.eraseList, Val.wfValList] at hw
    simp only [CT.eraseList, encList, List.length_append] at hf
    simp only [CT.eraseList, encList, schemaParseList, List.append_assoc,
      sr_val c _ h.1 hw.1 fuel (by omega), sr_list cs _ h.2 hw.2 fuel (by omega) rest]
theorem sr_all : (cs : List CT) → (t : Schema) → conformsAll cs t = true →
    Val.wfValList (CT.eraseList cs) = true → (fuel : Nat) →
    (encList (CT.eraseList cs)).length < fuel → (rest : List Byte) →
    decN (schemaParse fuel t) (CT.eraseList cs).length (encList (CT.eraseList cs) ++ rest)
      = .ok (CT.eraseList cs, rest)
  | [], t, _, _, fuel, _, rest => by simp [CT.eraseList, encList, decN]
  | c :: cs, t, h, hw, fuel, hf, rest => by
    simp [conformsAll] at h
    simp [CT.eraseList, Val.wfValList] at hw
    simp only [CT.eraseList, encList, List.length_append] at hf
    simp only [CT.eraseList, encList, decN, List.append_assoc, List.length_cons,
      sr_val c _ h.1 hw.1 fuel (by omega), sr_all cs _ h.2 hw.2 fuel (by omega) rest]
theorem sr_kv : (kvs : List CT) → (k v : Schema) → conformsKV true kvs k v = true →
    Val.wfValList (CT.eraseList kvs) = true → (fuel : Nat) →
    (encList (CT.eraseList kvs)).length < fuel → (rest : List Byte) →
    decKV (schemaParse fuel k) (schemaParse fuel v) ((CT.eraseList kvs).length / 2)
      (encList (CT.eraseList kvs) ++ rest) = .ok (CT.eraseList kvs, rest)
  | [], k, v, _, _, fuel, _, rest => by simp [CT.eraseList, encList, decKV]
  | [x], k, v, h, _, fuel, _, rest => by simp [conformsKV] at h
  | x :: y :: xs, k, v, h, hw, fuel, hf, rest => by
    simp [conformsKV] at h
    simp [CT.eraseList, Val.wfValList] at hw
    simp only [CT.eraseList, encList, List.length_append] at hf
    have : (x.erase :: y.erase :: CT.eraseList xs).length / 2
        = (CT.eraseList xs).length / 2 + 1 := by simp; omega
    simp only [CT.eraseList, this, encList, decKV, List.append_assoc,
      sr_val x _ h.1 hw.1 fuel (by omega), sr_val y _ h.2.1 hw.2.1 fuel (by omega),
      sr_kv xs _ _ h.2.2 hw.2.2 fuel (by omega) rest]
theorem sr_fields : (ns : List Name) → (cs : List CT) → (fs : List SField) →
    conformsFields ns cs fs = true → Val.wfValList (CT.eraseList cs) = true → (fuel : Nat) →
    (encList (CT.eraseList cs)).length < fuel → (rest : List Byte) →
    schemaParseFields fuel fs (encList (CT.eraseList cs) ++ rest) = .ok (CT.eraseList cs, rest)
  | ns, [], fs, h, _, fuel, _, rest => by
    cases ns <;> cases fs <;> simp [conformsFields] at h
    simp [CT.eraseList, encList, schemaParseFields]
  | ns, c :: cs, fs, h, hw, fuel, hf, rest => by
    cases ns with
    | nil => simp [conformsFields] at h
    | cons n ns =>
      cases fs with
      | nil => simp [conformsFields] at h
      | cons f fs =>
        cases f
        simp [conformsFields] at h
        simp [CT.eraseList, Val.wfValList] at hw
        simp only [CT.eraseList, encList, List.length_append] at hf
        simp only [CT.eraseList, encList, schemaParseFields, List.append_assoc,
          sr_val c _ h.1.2 hw.1 fuel (by omega), sr_fields _ cs _ h.2 hw.2 fuel (by omega) rest]
end

/-! ## C. what `callTree` emits conforms to `schemaOf` -/

theorem Ident.schemaName_of_sameAsSerde {rep : Bool} {i : Ident} (h : i.sameAsSerde rep = true) :
    i.schemaName rep = i.serdeName := by
  cases i with
  | mk raw name =>
    cases rep
    · simp [Ident.sameAsSerde, Ident.plain] at h
      simp [Ident.schemaName, Ident.serdeName, Ident.rawName, Ident.unrawName, h]
    · simp [Ident.schemaName, Ident.serdeName]

/-- the repaired derive: field and variant names are serde_derive's, raw or not -/
theorem Ident.schemaName_repaired (i : Ident) : i.schemaName true = i.serdeName := by
  simp [Ident.schemaName, Ident.serdeName]

theorem Ident.schemaName_of_plain {i : Ident} (h : i.plain = true) (rep : Bool) :
    i.schemaName rep = i.serdeName :=
  Ident.schemaName_of_sameAsSerde (by simp [Ident.sameAsSerde, h])

-- for the repaired derive the name condition is vacuous
mutual
theorem RTy.namesOk_true : ∀ r : RTy, r.namesOk true = true
  | .tuple ts => by simp [RTy.namesOk, RTy.namesOkList_true ts]
  | .option t => by simp [RTy.namesOk, RTy.namesOk_true t]
  | .result t e => by simp [RTy.namesOk, RTy.namesOk_true t, RTy.namesOk_true e]
  | .ref t => by simp [RTy.namesOk, RTy.namesOk_true t]
  | .slice t => by simp [RTy.namesOk, RTy.namesOk_true t]
  | .array t _ => by simp [RTy.namesOk, RTy.namesOk_true t]
  | .range t => by simp [RTy.namesOk, RTy.namesOk_true t]
  | .rangeInclusive t => by simp [RTy.namesOk, RTy.namesOk_true t]
  | .rangeFrom t => by simp [RTy.namesOk, RTy.namesOk_true t]
  | .rangeTo t => by simp [RTy.namesOk, RTy.namesOk_true t]
  | .vec t => by simp [RTy.namesOk, RTy.namesOk_true t]
  | .hashMap k v => by simp [RTy.namesOk, RTy.namesOk_true k, RTy.namesOk_true v]
  | .btreeMap k v => by simp [RTy.namesOk, RTy.namesOk_true k, RTy.namesOk_true v]
  | .hashSet t => by simp [RTy.namesOk, RTy.namesOk_true t]
  | .btreeSet t => by simp [RTy.namesOk, RTy.namesOk_true t]
  | .hVec07 t _ => by simp [RTy.namesOk, RTy.namesOk_true t]
  | .hVec08 t _ => by simp [RTy.namesOk, RTy.namesOk_true t]
  | .matrix t _ _ => by simp [RTy.namesOk, RTy.namesOk_true t]
  | .dstruct _ fields => by simp [RTy.namesOk, DeriveFields.namesOk_true fields]
  | .denum _ variants => by simp [RTy.namesOk, DeriveVariant.namesOkList_true variants]
  | .uint _ | .sint _ | .nonZeroU _ | .nonZeroI _ | .bool | .f32 | .f64 | .char | .str | .unit
  | .string | .pathBuf | .hString07 _ | .hString08 _ | .uuid | .dateTime | .key
  | .dataModelType | .ownedDataModelType => by simp [RTy.namesOk]
theorem RTy.namesOkList_true : ∀ ts : List RTy, RTy.namesOkList true ts = true
  | [] => by simp [RTy.namesOkList]
  | t :: ts => by simp [RTy.namesOkList, RTy.namesOk_true t, RTy.namesOkList_true ts]
theorem DeriveFields.namesOk_true : ∀ d : DeriveFields, d.namesOk true = true
  | .unit => by simp [DeriveFields.namesOk]
  | .unnamed ts => by simp [DeriveFields.namesOk, RTy.namesOkList_true ts]
  | .named fs => by simp [DeriveFields.namesOk, DeriveField.namesOkList_true fs]
theorem DeriveField.namesOkList_true : ∀ fs : List DeriveField,
    DeriveField.namesOkList true fs = true
  | [] => by simp [DeriveField.namesOkList]
  | .mk id t :: fs => by
    simp [DeriveField.namesOkList, Ident.sameAsSerde, RTy.namesOk_true t,
      DeriveField.namesOkList_true fs]
theorem DeriveVariant.namesOkList_true : ∀ vs : List DeriveVariant,
    DeriveVariant.namesOkList true vs = true
  | [] => by simp [DeriveVariant.namesOkList]
  | .mk id d :: vs => by
    simp [DeriveVariant.namesOkList, Ident.sameAsSerde, DeriveFields.namesOk_true d,
      DeriveVariant.namesOkList_true vs]
end

theorem optMap_conformsAll {f : RV → Option CT} {t : Schema}
    (hf : ∀ v c, f v = some c → conforms c t = true) :
    ∀ (vs : List RV) (cs : List CT), optMap f vs = some cs → conformsAll cs t = true
  | [], cs, h => by simp [optMap] at h; subst h; simp [conformsAll]
  | v :: vs, cs, h => by
    simp only [optMap] at h
    split at h
    · rename_i c cs' h1 h2
      simp at h; subst h
      simp [conformsAll, hf v c h1, optMap_conformsAll hf vs cs' h2]
    · simp at h

theorem optMap_conformsRepl {f : RV → Option CT} {t : Schema}
    (hf : ∀ v c, f v = some c → conforms c t = true) :
    ∀ (vs : List RV) (cs : List CT), optMap f vs = some cs →
      conformsList cs (List.replicate vs.length t) = true
  | [], cs, h => by simp [optMap] at h; subst h; simp [conformsList]
  | v :: vs, cs, h => by
    simp only [optMap] at h
    split at h
    · rename_i c cs' h1 h2
      simp at h; subst h
      simp [conformsList, List.replicate_succ, hf v c h1, optMap_conformsRepl hf vs cs' h2]
    · simp at h

theorem optMapKV_conformsKV {fk fv : RV → Option CT} {k v : Schema}
    (hk : ∀ x c, fk x = some c → conforms c k = true)
    (hv : ∀ x c, fv x = some c → conforms c v = true) :
    ∀ (kvs : List RV) (cs : List CT), optMapKV fk fv kvs = some cs →
      conformsKV true cs k v = true
  | [], cs, h => by simp [optMapKV] at h; subst h; simp [conformsKV]
  | [_], cs, h => by simp [optMapKV] at h
  | x :: y :: rest, cs, h => by
    simp only [optMapKV] at h
    split at h
    · rename_i ck cv cs' h1 h2 h3
      simp at h; subst h
      simp [conformsKV, hk x ck h1, hv y cv h2, optMapKV_conformsKV hk hv rest cs' h3]
    · simp at h

theorem seqCall_some {n : Nat} {o : Option (List CT)} {c : CT} (h : seqCall n o = some c) :
    ∃ cs, o = some cs ∧ c = .seq cs ∧ n < 2 ^ 64 := by
  unfold seqCall at h
  split at h
  · cases o with
    | none => simp at h
    | some cs => simp at h; exact ⟨cs, rfl, h.symm, by assumption⟩
  · simp at h

theorem strCall_some {s : List Byte} {c : CT} (h : strCall s = some c) :
    c = .str s ∧ utf8Valid s = true ∧ s.length < 2 ^ 64 := by
  unfold strCall at h
  split at h
  · rename_i hc; simp at h; exact ⟨h.symm, hc⟩
  · simp at h

theorem keyBytes_conforms : ∀ bs : List Byte,
    conformsList (bs.map (fun b => CT.u .w8 b.toNat)) (List.replicate bs.length .u8) = true
  | [] => by simp [conformsList]
  | b :: bs => by
    simp [conformsList, List.replicate_succ, conforms, uKindOf, keyBytes_conforms bs]

/-- what a struct head / variant head built from data `d` conforms to -/
def Head.Conf (hd : Head) (c : CT) (d : SData) : Prop :=
  match hd with
  | .s _ => ∀ n, conforms c (.struct n d) = true
  | .v _ idx vn => ∀ n svs, svs[idx]? = some (.mk vn d) → conforms c (.enum n svs) = true

theorem Head.conf_unit (hd : Head) : hd.Conf hd.unit .unit := by
  cases hd with
  | s name => intro n; simp [Head.unit, conforms]
  | v e i vn => intro n svs hg; simp [Head.unit, conforms, hg]

theorem Head.conf_newtype (hd : Head) {c : CT} {t : Schema} (h : conforms c t = true) :
    hd.Conf (hd.newtype c) (.newtype t) := by
  cases hd with
  | s name => intro n; simp [Head.newtype, conforms, h]
  | v e i vn => intro n svs hg; simp [Head.newtype, conforms, hg, h]

theorem Head.conf_tuple (hd : Head) {cs : List CT} {ts : List Schema}
    (h : conformsList cs ts = true) : hd.Conf (hd.tuple cs) (.tuple ts) := by
  cases hd with
  | s name => intro n; simp [Head.tuple, conforms, h]
  | v e i vn => intro n svs hg; simp [Head.tuple, conforms, hg, h]

theorem Head.conf_struct (hd : Head) {ns : List Name} {cs : List CT} {fs : List SField}
    (h : conformsFields ns cs fs = true) : hd.Conf (hd.struct ns cs) (.struct fs) := by
  cases hd with
  | s name => intro n; simp [Head.struct, conforms, h]
  | v e i vn => intro n svs hg; simp [Head.struct, conforms, hg, h]

theorem resultCall_conforms {ft fe : RV → Option CT} {t e : Schema} {n : Name}
    (ht : ∀ v c, ft v = some c → conforms c t = true)
    (he : ∀ v c, fe v = some c → conforms c e = true)
    {idx : Nat} {fs : List RV} {c : CT} (h : resultCall ft fe idx fs = some c) :
    conforms c (.enum n [.mk (ascii "Ok") (.newtype t), .mk (ascii "Err") (.newtype e)]) = true := by
  unfold resultCall at h
  split at h
  · rename_i v
    cases hv : ft v with
    | none => simp [hv] at h
    | some c' => simp [hv] at h; subst h; simp [conforms, ht v c' hv]
  · rename_i v
    cases hv : fe v with
    | none => simp [hv] at h
    | some c' => simp [hv] at h; subst h; simp [conforms, he v c' hv]
  · simp at h

theorem structCall2_conforms {f : RV → Option CT} {t : Schema} {name n1 n2 sn : Name}
    (hf : ∀ v c, f v = some c → conforms c t = true)
    {vs : List RV} {c : CT} (h : structCall2 name n1 n2 f vs = some c) :
    conforms c (.struct sn (.struct [.mk n1 t, .mk n2 t])) = true := by
  unfold structCall2 at h
  split at h
  · rename_i a b
    split at h
    · rename_i ca cb ha hb
      simp at h; subst h
      simp [conforms, conformsFields, hf a ca ha, hf b cb hb]
    · simp at h
  · simp at h

theorem structCall1_conforms {f : RV → Option CT} {t : Schema} {name n1 sn : Name}
    (hf : ∀ v c, f v = some c → conforms c t = true)
    {vs : List RV} {c : CT} (h : structCall1 name n1 f vs = some c) :
    conforms c (.struct sn (.struct [.mk n1 t])) = true := by
  unfold structCall1 at h
  split at h
  · rename_i a
    cases ha : f a with
    | none => simp [ha] at h
    | some ca => simp [ha] at h; subst h; simp [conforms, conformsFields, hf a ca ha]
  · simp at h

-- C14: what the impls serialise conforms to the schema they declare
mutual
theorem sc_val (rep : Bool) : (r : RTy) → r.wf = true → r.namesOk rep = true → (v : RV) →
    (c : CT) → callTree r v = some c → conforms c (schemaOf rep r) = true
  | .uint w, _, _, v, c, h => by
    cases v <;> simp [callTree] at h
    obtain ⟨_, rfl⟩ := h
    cases w <;> simp [schemaOf, uSchema, conforms, uKindOf]
  | .sint w, _, _, v, c, h => by
    cases v <;> simp [callTree] at h
    obtain ⟨_, rfl⟩ := h
    cases w <;> simp [schemaOf, iSchema, conforms, iKindOf]
  | .nonZeroU w, _, _, v, c, h => by
    cases v <;> simp [callTree] at h
    obtain ⟨_, rfl⟩ := h
    cases w <;> simp [schemaOf, uSchema, conforms, uKindOf]
  | .nonZeroI w, _, _, v, c, h => by
    cases v <;> simp [callTree] at h
    obtain ⟨_, rfl⟩ := h
    cases w <;> simp [schemaOf, iSchema, conforms, iKindOf]
  | .bool, _, _, v, c, h => by
    cases v <;> simp [callTree] at h
    subst h; simp [schemaOf, conforms]
  | .f32, _, _, v, c, h => by
    cases v <;> simp [callTree] at h
    obtain ⟨_, rfl⟩ := h; simp [schemaOf, conforms]
  | .f64, _, _, v, c, h => by
    cases v <;> simp [callTree] at h
    obtain ⟨_, rfl⟩ := h; simp [schemaOf, conforms]
  | .char, _, _, v, c, h => by
    cases v <;> simp [callTree] at h
    obtain ⟨_, rfl⟩ := h; simp [schemaOf, conforms]
  | .str, _, _, v, c, h => by
    cases v <;> simp [callTree] at h
    obtain ⟨rfl, _⟩ := strCall_some h; simp [schemaOf, conforms]
  | .string, _, _, v, c, h => by
    cases v <;> simp [callTree] at h
    obtain ⟨rfl, _⟩ := strCall_some h; simp [schemaOf, conforms]
  | .pathBuf, _, _, v, c, h => by
    cases v <;> simp [callTree] at h
    obtain ⟨rfl, _⟩ := strCall_some h; simp [schemaOf, conforms]
  | .dateTime, _, _, v, c, h => by
    cases v <;> simp [callTree] at h
    obtain ⟨rfl, _⟩ := strCall_some h; simp [schemaOf, conforms]
  | .hString07 n, _, _, v, c, h => by
    cases v <;> simp [callTree] at h
    obtain ⟨rfl, _⟩ := strCall_some h.2; simp [schemaOf, conforms]
  | .hString08 n, _, _, v, c, h => by
    cases v <;> simp [callTree] at h
    obtain ⟨rfl, _⟩ := strCall_some h.2; simp [schemaOf, conforms]
  | .unit, _, _, v, c, h => by
    cases v <;> simp [callTree] at h
    subst h; simp [schemaOf, conforms]
  | .uuid, _, _, v, c, h => by
    cases v <;> simp [callTree] at h
    obtain ⟨_, rfl⟩ := h; simp [schemaOf, conforms]
  | .key, _, _, v, c, h => by
    cases v <;> simp [callTree] at h
    obtain ⟨hl, rfl⟩ := h
    have := keyBytes_conforms ‹List Byte›
    rw [hl] at this
    simp only [schemaOf, conforms]; exact this
  | .dataModelType, _, _, v, c, h => by
    cases v <;> simp [callTree] at h
    obtain ⟨_, rfl⟩ := h
    simp [schemaOf, conforms_schema, isSchemaTree_ctSchema]
  | .ownedDataModelType, _, _, v, c, h => by
    cases v <;> simp [callTree] at h
    obtain ⟨_, rfl⟩ := h
    simp [schemaOf, conforms_schema, isSchemaTree_ctSchema]
  | .tuple ts, hw, hn, v, c, h => by
    simp [RTy.wf] at hw
    simp [RTy.namesOk] at hn
    cases v <;> simp [callTree] at h
    obtain ⟨cs, hcs, rfl⟩ := h
    simp [schemaOf, conforms, sc_list rep ts hw.2 hn _ cs hcs]
  | .option t, hw, hn, v, c, h => by
    simp [RTy.wf] at hw
    simp [RTy.namesOk] at hn
    cases v <;> simp [callTree] at h
    · subst h; simp [schemaOf, conforms]
    · obtain ⟨c', hc, rfl⟩ := h
      simp [schemaOf, conforms, sc_val rep t hw hn _ c' hc]
  | .result t e, hw, hn, v, c, h => by
    simp [RTy.wf] at hw
    simp [RTy.namesOk] at hn
    cases v <;> simp [callTree] at h
    simp only [schemaOf]
    exact resultCall_conforms (fun v c h => sc_val rep t hw.1 hn.1 v c h) (fun v c h => sc_val rep e hw.2 hn.2 v c h) h
  | .ref t, hw, hn, v, c, h => by
    simp [RTy.wf] at hw
    simp [RTy.namesOk] at hn
    simp only [callTree] at h
    simp only [schemaOf]; exact sc_val rep t hw hn v c h
  | .slice t, hw, hn, v, c, h => by
    simp [RTy.wf] at hw
    simp [RTy.namesOk] at hn
    cases v <;> simp [callTree] at h
    obtain ⟨cs, hcs, rfl, _⟩ := seqCall_some h
    simp [schemaOf, conforms, optMap_conformsAll (fun v c h => sc_val rep t hw hn v c h) _ cs hcs]
  | .vec t, hw, hn, v, c, h => by
    simp [RTy.wf] at hw
    simp [RTy.namesOk] at hn
    cases v <;> simp [callTree] at h
    obtain ⟨cs, hcs, rfl, _⟩ := seqCall_some h
    simp [schemaOf, conforms, optMap_conformsAll (fun v c h => sc_val rep t hw hn v c h) _ cs hcs]
  | .hashSet t, hw, hn, v, c, h => by
    simp [RTy.wf] at hw
    simp [RTy.namesOk] at hn
    cases v <;> simp [callTree] at h
    obtain ⟨cs, hcs, rfl, _⟩ := seqCall_some h
    simp [schemaOf, conforms, optMap_conformsAll (fun v c h => sc_val rep t hw hn v c h) _ cs hcs]
  | .btreeSet t, hw, hn, v, c, h => by
    simp [RTy.wf] at hw
    simp [RTy.namesOk] at hn
    cases v <;> simp [callTree] at h
    obtain ⟨cs, hcs, rfl, _⟩ := seqCall_some h
    simp [schemaOf, conforms, optMap_conformsAll (fun v c h => sc_val rep t hw hn v c h) _ cs hcs]
  | .hVec07 t n, hw, hn, v, c, h => by
    simp [RTy.wf] at hw
    simp [RTy.namesOk] at hn
    cases v <;> simp [callTree] at h
    obtain ⟨cs, hcs, rfl, _⟩ := seqCall_some h.2
    simp [schemaOf, conforms, optMap_conformsAll (fun v c h => sc_val rep t hw hn v c h) _ cs hcs]
  | .hVec08 t n, hw, hn, v, c, h => by
    simp [RTy.wf] at hw
    simp [RTy.namesOk] at hn
    cases v <;> simp [callTree] at h
    obtain ⟨cs, hcs, rfl, _⟩ := seqCall_some h.2
    simp [schemaOf, conforms, optMap_conformsAll (fun v c h => sc_val rep t hw hn v c h) _ cs hcs]
  | .array t n, hw, hn, v, c, h => by
    simp [RTy.wf] at hw
    simp [RTy.namesOk] at hn
    cases v <;> simp [callTree] at h
    obtain ⟨hl, cs, hcs, rfl⟩ := h
    have := optMap_conformsRepl (fun v c h => sc_val rep t hw.2 hn v c h) _ cs hcs
    rw [hl] at this
    simp [schemaOf, conforms, this]
  | .matrix t r k, hw, hn, v, c, h => by
    simp [RTy.wf] at hw
    simp [RTy.namesOk] at hn
    cases v <;> simp [callTree] at h
    obtain ⟨hl, cs, hcs, rfl⟩ := h
    have := optMap_conformsRepl (fun v c h => sc_val rep t hw hn v c h) _ cs hcs
    rw [hl] at this
    simp [schemaOf, conforms, this]
  | .hashMap k v', hw, hn, v, c, h => by
    simp [RTy.wf] at hw
    simp [RTy.namesOk] at hn
    cases v <;> simp [callTree] at h
    obtain ⟨_, cs, hcs, rfl⟩ := h
    simp [schemaOf, conforms, optMapKV_conformsKV (fun v c h => sc_val rep k hw.1 hn.1 v c h)
      (fun v c h => sc_val rep v' hw.2 hn.2 v c h) _ cs hcs]
  | .btreeMap k v', hw, hn, v, c, h => by
    simp [RTy.wf] at hw
    simp [RTy.namesOk] at hn
    cases v <;> simp [callTree] at h
    obtain ⟨_, cs, hcs, rfl⟩ := h
    simp [schemaOf, conforms, optMapKV_conformsKV (fun v c h => sc_val rep k hw.1 hn.1 v c h)
      (fun v c h => sc_val rep v' hw.2 hn.2 v c h) _ cs hcs]
  | .range t, hw, hn, v, c, h => by
    simp [RTy.wf] at hw
    simp [RTy.namesOk] at hn
    cases v <;> simp [callTree] at h
    simp only [schemaOf]
    exact structCall2_conforms (fun v c h => sc_val rep t hw hn v c h) h
  | .rangeInclusive t, hw, hn, v, c, h => by
    simp [RTy.wf] at hw
    simp [RTy.namesOk] at hn
    cases v <;> simp [callTree] at h
    simp only [schemaOf]
    exact structCall2_conforms (fun v c h => sc_val rep t hw hn v c h) h
  | .rangeFrom t, hw, hn, v, c, h => by
    simp [RTy.wf] at hw
    simp [RTy.namesOk] at hn
    cases v <;> simp [callTree] at h
    simp only [schemaOf]
    exact structCall1_conforms (fun v c h => sc_val rep t hw hn v c h) h
  | .rangeTo t, hw, hn, v, c, h => by
    simp [RTy.wf] at hw
    simp [RTy.namesOk] at hn
    cases v <;> simp [callTree] at h
    simp only [schemaOf]
    exact structCall1_conforms (fun v c h => sc_val rep t hw hn v c h) h
  | .dstruct id fields, hw, hn, v, c, h => by
    simp [RTy.wf] at hw
    simp [RTy.namesOk] at hn
    cases v <;> simp [callTree] at h
    simp only [schemaOf]
    exact sc_data rep fields hw hn (.s id.serdeName) _ c h _
  | .denum id variants, hw, hn, v, c, h => by
    simp [RTy.wf] at hw
    simp [RTy.namesOk] at hn
    cases v <;> simp [callTree] at h
    simp only [schemaOf]
    obtain ⟨vn, d, hg, hc⟩ := sc_variant rep variants hw hn id.serdeName _ _ _ c h.2
    exact hc _ _ hg
theorem sc_list (rep : Bool) : (ts : List RTy) → RTy.wfList ts = true →
    RTy.namesOkList rep ts = true → (vs : List RV) → (cs : List CT) →
    callTrees ts vs = some cs → conformsList cs (schemaOfList rep ts) = true
  | [], _, _, vs, cs, h => by
    cases vs <;> simp [callTrees] at h
    subst h; simp [schemaOfList, conformsList]
  | t :: ts, hw, hn, vs, cs, h => by
    simp [RTy.wfList] at hw
    simp [RTy.namesOkList] at hn
    cases vs with
    | nil => simp [callTrees] at h
    | cons v vs =>
      simp only [callTrees] at h
      split at h
      · rename_i c cs' h1 h2
        simp at h; subst h
        simp [schemaOfList, conformsList, sc_val rep t hw.1 hn.1 v c h1,
          sc_list rep ts hw.2 hn.2 vs cs' h2]
      · simp at h
theorem sc_data (rep : Bool) : (d : DeriveFields) → d.wf = true → d.namesOk rep = true →
    (hd : Head) → (vs : List RV) → (c : CT) →
    callData hd d vs = some c → hd.Conf c (schemaOfFields rep d)
  | .unit, _, _, hd, vs, c, h => by
    cases vs <;> simp [callData] at h
    subst h; simp only [schemaOfFields]; exact hd.conf_unit
  | .unnamed [], hw, hn, hd, vs, c, h => by
    simp [callData] at h
    obtain ⟨cs, hcs, rfl⟩ := h
    simp only [schemaOfFields]
    exact hd.conf_tuple (sc_list rep [] (by simp [RTy.wfList]) (by simp [RTy.namesOkList]) vs cs hcs)
  | .unnamed [t], hw, hn, hd, vs, c, h => by
    simp [DeriveFields.wf, RTy.wfList] at hw
    simp [DeriveFields.namesOk, RTy.namesOkList] at hn
    match vs, h with
    | [], h => simp [callData] at h
    | [v], h =>
      simp [callData] at h
      obtain ⟨c', hc, rfl⟩ := h
      simp only [schemaOfFields]
      exact hd.conf_newtype (sc_val rep t hw hn v c' hc)
    | _ :: _ :: _, h => simp [callData] at h
  | .unnamed (t :: t' :: ts), hw, hn, hd, vs, c, h => by
    simp only [DeriveFields.wf] at hw
    simp only [DeriveFields.namesOk] at hn
    simp [callData] at h
    obtain ⟨cs, hcs, rfl⟩ := h
    simp only [schemaOfFields]
    exact hd.conf_tuple (sc_list rep (t :: t' :: ts) hw hn vs cs hcs)
  | .named fs, hw, hn, hd, vs, c, h => by
    simp only [DeriveFields.wf] at hw
    simp only [DeriveFields.namesOk] at hn
    simp [callData] at h
    obtain ⟨cs, hcs, rfl⟩ := h
    simp only [schemaOfFields]
    exact hd.conf_struct (sc_named rep fs hw hn vs cs hcs)
theorem sc_named (rep : Bool) : (fs : List DeriveField) → DeriveField.wfList fs = true →
    DeriveField.namesOkList rep fs = true → (vs : List RV) →
    (cs : List CT) → callNamed fs vs = some cs →
    conformsFields (serdeFieldNames fs) cs (schemaOfNamed rep fs) = true
  | [], _, _, vs, cs, h => by
    cases vs <;> simp [callNamed] at h
    subst h; simp [schemaOfNamed, serdeFieldNames, conformsFields]
  | .mk id t :: fs, hw, hn, vs, cs, h => by
    simp [DeriveField.wfList] at hw
    simp [DeriveField.namesOkList] at hn
    cases vs with
    | nil => simp [callNamed] at h
    | cons v vs =>
      simp only [callNamed] at h
      split at h
      · rename_i c cs' h1 h2
        simp at h; subst h
        simp [schemaOfNamed, serdeFieldNames, conformsFields, Ident.schemaName_of_sameAsSerde hn.1.1,
          sc_val rep t hw.1 hn.1.2 v c h1, sc_named rep fs hw.2 hn.2 vs cs' h2]
      · simp at h
theorem sc_variant (rep : Bool) : (vars : List DeriveVariant) →
    DeriveVariant.wfList vars = true → DeriveVariant.namesOkList rep vars = true →
    (ename : Name) → (idx k : Nat) → (vs : List RV) → (c : CT) →
    callVariant ename idx vars k vs = some c →
    ∃ vn d, (schemaOfVariants rep vars)[k]? = some (.mk vn d) ∧ (Head.v ename idx vn).Conf c d
  | [], _, _, ename, idx, k, vs, c, h => by simp [callVariant] at h
  | .mk id d :: rest, hw, hn, ename, idx, 0, vs, c, h => by
    simp [DeriveVariant.wfList] at hw
    simp [DeriveVariant.namesOkList] at hn
    simp only [callVariant] at h
    refine ⟨id.serdeName, schemaOfFields rep d, ?_, sc_data rep d hw.1 hn.1.2 _ vs c h⟩
    simp [schemaOfVariants, Ident.schemaName_of_sameAsSerde hn.1.1]
  | .mk id d :: rest, hw, hn, ename, idx, k+1, vs, c, h => by
    simp [DeriveVariant.wfList] at hw
    simp [DeriveVariant.namesOkList] at hn
    simp only [callVariant] at h
    obtain ⟨vn, d', hg, hc⟩ := sc_variant rep rest hw.2 hn.2 ename idx k vs c h
    exact ⟨vn, d', by simpa [schemaOfVariants] using hg, hc⟩
end

/-! ## D. what `callTree` emits is a well-formed value -/

theorem optMap_wf {f : RV → Option CT} (hf : ∀ v c, f v = some c → c.wfVal = true) :
    ∀ (vs : List RV) (cs : List CT), optMap f vs = some cs →
      Val.wfValList (CT.eraseList cs) = true ∧ (CT.eraseList cs).length = vs.length
  | [], cs, h => by simp [optMap] at h; subst h; simp [CT.eraseList, Val.wfValList]
  | v :: vs, cs, h => by
    simp only [optMap] at h
    split at h
    · rename_i c cs' h1 h2
      simp at h; subst h
      have := optMap_wf hf vs cs' h2
      have hc := hf v c h1
      simp only [CT.wfVal] at hc
      simp [CT.eraseList, Val.wfValList, hc, this.1, this.2]
    · simp at h

theorem optMapKV_wf {fk fv : RV → Option CT} (hk : ∀ v c, fk v = some c → c.wfVal = true)
    (hv : ∀ v c, fv v = some c → c.wfVal = true) :
    ∀ (kvs : List RV) (cs : List CT), optMapKV fk fv kvs = some cs →
      Val.wfValList (CT.eraseList cs) = true ∧ (CT.eraseList cs).length = kvs.length
  | [], cs, h => by simp [optMapKV] at h; subst h; simp [CT.eraseList, Val.wfValList]
  | [_], cs, h => by simp [optMapKV] at h
  | x :: y :: rest, cs, h => by
    simp only [optMapKV] at h
    split at h
    · rename_i ck cv cs' h1 h2 h3
      simp at h; subst h
      have := optMapKV_wf hk hv rest cs' h3
      have hck := hk x ck h1
      have hcv := hv y cv h2
      simp only [CT.wfVal] at hck hcv
      simp [CT.eraseList, Val.wfValList, hck, hcv, this.1, this.2]
    · simp at h

theorem keyBytes_wf : ∀ bs : List Byte,
    Val.wfValList (CT.eraseList (bs.map (fun b => CT.u .w8 b.toNat))) = true
  | [] => by simp [CT.eraseList, Val.wfValList]
  | b :: bs => by
    have : b.toNat < 256 := b.toNat_lt
    simp [CT.eraseList, CT.erase, Val.wfValList, Val.wfVal, IntW.bits, keyBytes_wf bs, this]

/-- a variant head carries a `u32` index -/
def Head.Ok : Head → Prop
  | .s _ => True
  | .v _ idx _ => idx < 2 ^ 32

theorem Head.wf_unit (hd : Head) (h : hd.Ok) : hd.unit.wfVal = true := by
  cases hd <;> simp_all [Head.Ok, Head.unit, CT.wfVal, CT.erase, Val.wfVal]

theorem Head.wf_newtype (hd : Head) (h : hd.Ok) {c : CT} (hc : c.wfVal = true) :
    (hd.newtype c).wfVal = true := by
  cases hd <;> simp_all [Head.Ok, Head.newtype, CT.wfVal, CT.erase, Val.wfVal]

theorem Head.wf_tuple (hd : Head) (h : hd.Ok) {cs : List CT}
    (hc : Val.wfValList (CT.eraseList cs) = true) : (hd.tuple cs).wfVal = true := by
  cases hd <;> simp_all [Head.Ok, Head.tuple, CT.wfVal, CT.erase, Val.wfVal]

theorem Head.wf_struct (hd : Head) (h : hd.Ok) {ns : List Name} {cs : List CT}
    (hc : Val.wfValList (CT.eraseList cs) = true) : (hd.struct ns cs).wfVal = true := by
  cases hd <;> simp_all [Head.Ok, Head.struct, CT.wfVal, CT.erase, Val.wfVal]

theorem resultCall_wf {ft fe : RV → Option CT}
    (ht : ∀ v c, ft v = some c → c.wfVal = true) (he : ∀ v c, fe v = some c → c.wfVal = true)
    {idx : Nat} {fs : List RV} {c : CT} (h : resultCall ft fe idx fs = some c) :
    c.wfVal = true := by
  unfold resultCall at h
  split at h
  · rename_i v
    cases hv : ft v with
    | none => simp [hv] at h
    | some c' =>
      simp [hv] at h; subst h
      have := ht v c' hv
      simp only [CT.wfVal] at this
      simp [CT.wfVal, CT.erase, Val.wfVal, this]
  · rename_i v
    cases hv : fe v with
    | none => simp [hv] at h
    | some c' =>
      simp [hv] at h; subst h
      have := he v c' hv
      simp only [CT.wfVal] at this
      simp [CT.wfVal, CT.erase, Val.wfVal, this]
  · simp at h

theorem structCall2_wf {f : RV → Option CT} {name n1 n2 : Name}
    (hf : ∀ v c, f v = some c → c.wfVal = true)
    {vs : List RV} {c : CT} (h : structCall2 name n1 n2 f vs = some c) : c.wfVal = true := by
  unfold structCall2 at h
  split at h
  · rename_i a b
    split at h
    · rename_i ca cb ha hb
      simp at h; subst h
      have h1 := hf a ca ha
      have h2 := hf b cb hb
      simp only [CT.wfVal] at h1 h2
      simp [CT.wfVal, CT.erase, CT.eraseList, Val.wfVal, Val.wfValList, h1, h2]
    · simp at h
  · simp at h

theorem structCall1_wf {f : RV → Option CT} {name n1 : Name}
    (hf : ∀ v c, f v = some c → c.wfVal = true)
    {vs : List RV} {c : CT} (h : structCall1 name n1 f vs = some c) : c.wfVal = true := by
  unfold structCall1 at h
  split at h
  · rename_i a
    cases ha : f a with
    | none => simp [ha] at h
    | some ca =>
      simp [ha] at h; subst h
      have h1 := hf a ca ha
      simp only [CT.wfVal] at h1
      simp [CT.wfVal, CT.erase, CT.eraseList, Val.wfVal, Val.wfValList, h1]
  · simp at h

theorem seq_wf {f : RV → Option CT} (hf : ∀ v c, f v = some c → c.wfVal = true)
    {vs : List RV} {c : CT} (h : seqCall vs.length (optMap f vs) = some c) : c.wfVal = true := by
  obtain ⟨cs, hcs, rfl, hl⟩ := seqCall_some h
  have := optMap_wf hf vs cs hcs
  simp [CT.wfVal, CT.erase, Val.wfVal, this.1, this.2, hl]

theorem str_wf {s : List Byte} {c : CT} (h : strCall s = some c) : c.wfVal = true := by
  obtain ⟨rfl, h1, h2⟩ := strCall_some h
  simp [CT.wfVal, CT.erase, Val.wfVal, h1, h2]

mutual
theorem cw_val : (r : RTy) → (v : RV) → (c : CT) → callTree r v = some c → c.wfVal = true
  | .uint w, v, c, h => by
    cases v <;> simp [callTree] at h
    obtain ⟨hr, rfl⟩ := h; simp [CT.wfVal, CT.erase, Val.wfVal, hr]
  | .sint w, v, c, h => by
    cases v <;> simp [callTree] at h
    obtain ⟨hr, rfl⟩ := h; simp [CT.wfVal, CT.erase, Val.wfVal, hr]
  | .nonZeroU w, v, c, h => by
    cases v <;> simp [callTree] at h
    obtain ⟨⟨_, hr⟩, rfl⟩ := h; simp [CT.wfVal, CT.erase, Val.wfVal, hr]
  | .nonZeroI w, v, c, h => by
    cases v <;> simp [callTree] at h
    obtain ⟨⟨_, hr⟩, rfl⟩ := h; simp [CT.wfVal, CT.erase, Val.wfVal, hr]
  | .bool, v, c, h => by
    cases v <;> simp [callTree] at h
    subst h; simp [CT.wfVal, CT.erase, Val.wfVal]
  | .f32, v, c, h => by
    cases v <;> simp [callTree] at h
    obtain ⟨hr, rfl⟩ := h; simp [CT.wfVal, CT.erase, Val.wfVal, hr]
  | .f64, v, c, h => by
    cases v <;> simp [callTree] at h
    obtain ⟨hr, rfl⟩ := h; simp [CT.wfVal, CT.erase, Val.wfVal, hr]
  | .char, v, c, h => by
    cases v <;> simp [callTree] at h
    obtain ⟨hr, rfl⟩ := h; simp [CT.wfVal, CT.erase, Val.wfVal, hr]
  | .str, v, c, h => by cases v <;> simp [callTree] at h; exact str_wf h
  | .string, v, c, h => by cases v <;> simp [callTree] at h; exact str_wf h
  | .pathBuf, v, c, h => by cases v <;> simp [callTree] at h; exact str_wf h
  | .dateTime, v, c, h => by cases v <;> simp [callTree] at h; exact str_wf h
  | .hString07 n, v, c, h => by cases v <;> simp [callTree] at h; exact str_wf h.2
  | .hString08 n, v, c, h => by cases v <;> simp [callTree] at h; exact str_wf h.2
  | .unit, v, c, h => by
    cases v <;> simp [callTree] at h
    subst h; simp [CT.wfVal, CT.erase, Val.wfVal]
  | .uuid, v, c, h => by
    cases v <;> simp [callTree] at h
    obtain ⟨hl, rfl⟩ := h; simp [CT.wfVal, CT.erase, Val.wfVal, hl]
  | .key, v, c, h => by
    cases v <;> simp [callTree] at h
    obtain ⟨hl, rfl⟩ := h
    simp only [CT.wfVal, CT.erase, Val.wfVal]; exact keyBytes_wf _
  | .dataModelType, v, c, h => by
    cases v <;> simp [callTree] at h
    obtain ⟨hs, rfl⟩ := h
    simp [CT.wfVal, erase_ctSchema, wfVal_serOwned, hs]
  | .ownedDataModelType, v, c, h => by
    cases v <;> simp [callTree] at h
    obtain ⟨hs, rfl⟩ := h
    simp [CT.wfVal, erase_ctSchema, wfVal_serOwned, hs]
  | .tuple ts, v, c, h => by
    cases v <;> simp [callTree] at h
    obtain ⟨cs, hcs, rfl⟩ := h
    simp only [CT.wfVal, CT.erase, Val.wfVal]; exact cw_list ts _ cs hcs
  | .option t, v, c, h => by
    cases v <;> simp [callTree] at h
    · subst h; simp [CT.wfVal, CT.erase, Val.wfVal]
    · obtain ⟨c', hc, rfl⟩ := h
      have := cw_val t _ c' hc
      simp only [CT.wfVal] at this
      simp [CT.wfVal, CT.erase, Val.wfVal, this]
  | .result t e, v, c, h => by
    cases v <;> simp [callTree] at h
    exact resultCall_wf (fun v c h => cw_val t v c h) (fun v c h => cw_val e v c h) h
  | .ref t, v, c, h => by
    simp only [callTree] at h
    exact cw_val t v c h
  | .slice t, v, c, h => by
    cases v <;> simp [callTree] at h
    exact seq_wf (fun v c h => cw_val t v c h) h
  | .vec t, v, c, h => by
    cases v <;> simp [callTree] at h
    exact seq_wf (fun v c h => cw_val t v c h) h
  | .hashSet t, v, c, h => by
    cases v <;> simp [callTree] at h
    exact seq_wf (fun v c h => cw_val t v c h) h
  | .btreeSet t, v, c, h => by
    cases v <;> simp [callTree] at h
    exact seq_wf (fun v c h => cw_val t v c h) h
  | .hVec07 t n, v, c, h => by
    cases v <;> simp [callTree] at h
    exact seq_wf (fun v c h => cw_val t v c h) h.2
  | .hVec08 t n, v, c, h => by
    cases v <;> simp [callTree] at h
    exact seq_wf (fun v c h => cw_val t v c h) h.2
  | .array t n, v, c, h => by
    cases v <;> simp [callTree] at h
    obtain ⟨_, cs, hcs, rfl⟩ := h
    simp only [CT.wfVal, CT.erase, Val.wfVal]
    exact (optMap_wf (fun v c h => cw_val t v c h) _ cs hcs).1
  | .matrix t r k, v, c, h => by
    cases v <;> simp [callTree] at h
    obtain ⟨_, cs, hcs, rfl⟩ := h
    simp only [CT.wfVal, CT.erase, Val.wfVal]
    exact (optMap_wf (fun v c h => cw_val t v c h) _ cs hcs).1
  | .hashMap k v', v, c, h => by
    cases v <;> simp [callTree] at h
    obtain ⟨hl, cs, hcs, rfl⟩ := h
    have := optMapKV_wf (fun v c h => cw_val k v c h) (fun v c h => cw_val v' v c h) _ cs hcs
    simp [CT.wfVal, CT.erase, Val.wfVal, this.1, this.2, hl]
  | .btreeMap k v', v, c, h => by
    cases v <;> simp [callTree] at h
    obtain ⟨hl, cs, hcs, rfl⟩ := h
    have := optMapKV_wf (fun v c h => cw_val k v c h) (fun v c h => cw_val v' v c h) _ cs hcs
    simp [CT.wfVal, CT.erase, Val.wfVal, this.1, this.2, hl]
  | .range t, v, c, h => by
    cases v <;> simp [callTree] at h
    exact structCall2_wf (fun v c h => cw_val t v c h) h
  | .rangeInclusive t, v, c, h => by
    cases v <;> simp [callTree] at h
    exact structCall2_wf (fun v c h => cw_val t v c h) h
  | .rangeFrom t, v, c, h => by
    cases v <;> simp [callTree] at h
    exact structCall1_wf (fun v c h => cw_val t v c h) h
  | .rangeTo t, v, c, h => by
    cases v <;> simp [callTree] at h
    exact structCall1_wf (fun v c h => cw_val t v c h) h
  | .dstruct id fields, v, c, h => by
    cases v <;> simp [callTree] at h
    exact cw_data fields (.s id.serdeName) trivial _ c h
  | .denum id variants, v, c, h => by
    cases v <;> simp [callTree] at h
    exact cw_variant variants id.serdeName _ h.1 _ _ c h.2
theorem cw_list : (ts : List RTy) → (vs : List RV) → (cs : List CT) →
    callTrees ts vs = some cs → Val.wfValList (CT.eraseList cs) = true
  | [], vs, cs, h => by
    cases vs <;> simp [callTrees] at h
    subst h; simp [CT.eraseList, Val.wfValList]
  | t :: ts, vs, cs, h => by
    cases vs with
    | nil => simp [callTrees] at h
    | cons v vs =>
      simp only [callTrees] at h
      split at h
      · rename_i c cs' h1 h2
        simp at h; subst h
        have := cw_val t v c h1
        simp only [CT.wfVal] at this
        simp [CT.eraseList, Val.wfValList, this, cw_list ts vs cs' h2]
      · simp at h
theorem cw_data : (d : DeriveFields) → (hd : Head) → hd.Ok → (vs : List RV) → (c : CT) →
    callData hd d vs = some c → c.wfVal = true
  | .unit, hd, hok, vs, c, h => by
    cases vs <;> simp [callData] at h
    subst h; exact hd.wf_unit hok
  | .unnamed [], hd, hok, vs, c, h => by
    simp [callData] at h
    obtain ⟨cs, hcs, rfl⟩ := h
    exact hd.wf_tuple hok (cw_list [] vs cs hcs)
  | .unnamed [t], hd, hok, vs, c, h => by
    match vs, h with
    | [], h => simp [callData] at h
    | [v], h =>
      simp [callData] at h
      obtain ⟨c', hc, rfl⟩ := h
      exact hd.wf_newtype hok (cw_val t v c' hc)
    | _ :: _ :: _, h => simp [callData] at h
  | .unnamed (t :: t' :: ts), hd, hok, vs, c, h => by
    simp [callData] at h
    obtain ⟨cs, hcs, rfl⟩ := h
    exact hd.wf_tuple hok (cw_list (t :: t' :: ts) vs cs hcs)
  | .named fs, hd, hok, vs, c, h => by
    simp [callData] at h
    obtain ⟨cs, hcs, rfl⟩ := h
    exact hd.wf_struct hok (cw_named fs vs cs hcs)
theorem cw_named : (fs : List DeriveField) → (vs : List RV) → (cs : List CT) →
    callNamed fs vs = some cs → Val.wfValList (CT.eraseList cs) = true
  | [], vs, cs, h => by
    cases vs <;> simp [callNamed] at h
    subst h; simp [CT.eraseList, Val.wfValList]
  | .mk id t :: fs, vs, cs, h => by
    cases vs with
    | nil => simp [callNamed] at h
    | cons v vs =>
      simp only [callNamed] at h
      split at h
      · rename_i c cs' h1 h2
        simp at h; subst h
        have := cw_val t v c h1
        simp only [CT.wfVal] at this
        simp [CT.eraseList, Val.wfValList, this, cw_named fs vs cs' h2]
      · simp at h
theorem cw_variant : (vars : List DeriveVariant) → (ename : Name) → (idx : Nat) → idx < 2 ^ 32 →
    (k : Nat) → (vs : List RV) → (c : CT) → callVariant ename idx vars k vs = some c →
    c.wfVal = true
  | [], ename, idx, _, k, vs, c, h => by simp [callVariant] at h
  | .mk id d :: rest, ename, idx, hi, 0, vs, c, h => by
    simp only [callVariant] at h
    exact cw_data d (.v ename idx id.serdeName) hi vs c h
  | .mk id d :: rest, ename, idx, hi, k+1, vs, c, h => by
    simp only [callVariant] at h
    exact cw_variant rest ename idx hi k vs c h
end

end Postcard
