import Postcard.Model.Varint
import Postcard.Spec.Wire
/-
  Postcard.Lemmas.Varint — the varint writer equals the specification, the
  reader inverts it, and the reader accepts exactly the byte strings the
  specification permits (possibly non-canonical, never over-long, never
  over-wide).
-/
namespace Postcard

/-- the four widths the Rust code is instantiated at. -/
def WidthOk (bits : Nat) : Prop := bits = 16 ∨ bits = 32 ∨ bits = 64 ∨ bits = 128

/-- value of a varint byte string: little-endian groups of seven bits. -/
def varintValue : List Byte → Nat
  | [] => 0
  | b :: bs => (b.toNat % 128) + 128 * varintValue bs

/-- `p` is a varint byte string the specification permits for the value `n` at
width `bits` (not necessarily the canonical one). -/
def PermittedVarint (bits n : Nat) (p : List Byte) : Prop :=
  p ≠ [] ∧ p.length ≤ varintMax bits ∧ (∀ b ∈ p.dropLast, 128 ≤ b.toNat) ∧
  (∀ b, p.getLast? = some b → b.toNat < 128) ∧ varintValue p = n ∧ n < 2 ^ bits

/-! ### width facts -/

theorem WidthOk.max_pos {bits : Nat} (hb : WidthOk bits) : 1 ≤ varintMax bits := by
  rcases hb with rfl | rfl | rfl | rfl <;> decide

theorem WidthOk.split {bits : Nat} (hb : WidthOk bits) :
    7 * (varintMax bits - 1) + bits % 7 = bits := by
  rcases hb with rfl | rfl | rfl | rfl <;> decide

theorem WidthOk.le_max {bits : Nat} (hb : WidthOk bits) : bits ≤ 7 * varintMax bits := by
  rcases hb with rfl | rfl | rfl | rfl <;> decide

theorem maxOfLastByte_eq (bits : Nat) : maxOfLastByte bits = 2 ^ (bits % 7) - 1 := by
  simp [maxOfLastByte, Nat.one_shiftLeft]

/-! ### byte-mask facts -/

private theorem fin_and80 : ∀ x : Fin 256, (x.val &&& 0x80 = 0 ↔ x.val < 128) := by
  decide +kernel

private theorem fin_or80 : ∀ x : Fin 256, x.val ||| 0x80 = 128 + x.val % 128 := by
  decide +kernel

theorem byte_and7F (b : Byte) : b.toNat &&& 0x7F = b.toNat % 128 :=
  Nat.and_two_pow_sub_one_eq_mod b.toNat 7

theorem byte_and80 (b : Byte) : (b.toNat &&& 0x80 = 0) ↔ b.toNat < 128 :=
  fin_and80 ⟨b.toNat, b.toNat_lt⟩

theorem nat_or80 (v : Nat) : (v % 256) ||| 0x80 = 128 + v % 128 := by
  have h := fin_or80 ⟨v % 256, Nat.mod_lt _ (by decide)⟩
  have h2 : v % 256 % 128 = v % 128 := Nat.mod_mod_of_dvd v (by decide)
  simpa [h2] using h

theorem or_shift_eq_add {out i : Nat} (c : Nat) (h : out < 2 ^ i) :
    out ||| (c <<< i) = out + c * 2 ^ i := by
  rw [Nat.or_comm, ← Nat.shiftLeft_add_eq_or_of_lt h, Nat.shiftLeft_eq, Nat.add_comm]

theorem pow7_succ (i : Nat) : 2 ^ (7 * (i + 1)) = 128 * 2 ^ (7 * i) := by
  rw [Nat.mul_add, Nat.pow_add]; simp [Nat.mul_comm]

/-! ### positional value -/

/-- value of a byte string whose first byte sits at group index `i`. -/
def varintValueAt : Nat → List Byte → Nat
  | _, [] => 0
  | i, b :: t => (b.toNat % 128) * 2 ^ (7 * i) + varintValueAt (i + 1) t

theorem varintValueAt_eq (i : Nat) (p : List Byte) :
    varintValueAt i p = varintValue p * 2 ^ (7 * i) := by
  induction p generalizing i with
  | nil => simp [varintValueAt, varintValue]
  | cons b t ih =>
    simp only [varintValueAt, varintValue, ih, pow7_succ]
    generalize 2 ^ (7 * i) = X
    simp [Nat.mul_add, Nat.mul_assoc, Nat.mul_comm]

theorem varintValueAt_zero (p : List Byte) : varintValueAt 0 p = varintValue p := by
  simp [varintValueAt_eq]

theorem varintValue_lt (p : List Byte) : varintValue p < 2 ^ (7 * p.length) := by
  induction p with
  | nil => simp [varintValue]
  | cons b t ih =>
    simp only [varintValue, List.length_cons, pow7_succ]
    omega

theorem varintValue_append (q s : List Byte) :
    varintValue (q ++ s) = varintValue q + varintValue s * 2 ^ (7 * q.length) := by
  induction q with
  | nil => simp [varintValue]
  | cons b t ih =>
    simp only [List.cons_append, varintValue, ih, List.length_cons, pow7_succ]
    generalize 2 ^ (7 * t.length) = X
    simp [Nat.mul_add, Nat.mul_assoc, Nat.mul_comm, Nat.mul_left_comm, Nat.add_assoc]

theorem varintValue_concat (q : List Byte) (l : Byte) (hl : l.toNat < 128) :
    varintValue (q ++ [l]) = varintValue q + l.toNat * 2 ^ (7 * q.length) := by
  rw [varintValue_append]
  simp [varintValue, Nat.mod_eq_of_lt hl]

/-- all bytes carry the continuation flag. -/
def AllCont (q : List Byte) : Prop := ∀ b ∈ q, 128 ≤ b.toNat

/-! ### one step of the reader -/

theorem decVarintLoop_cons (bits f i out : Nat) (b : Byte) (rest : List Byte)
    (ho : out < 2 ^ (7 * i)) :
    decVarintLoop bits (f + 1) i out (b :: rest) =
      if b.toNat < 128 then
        (if i = varintMax bits - 1 ∧ b.toNat > maxOfLastByte bits then .error .badVarint
         else .ok (out + b.toNat % 128 * 2 ^ (7 * i), rest))
      else decVarintLoop bits f (i + 1) (out + b.toNat % 128 * 2 ^ (7 * i)) rest := by
  simp only [decVarintLoop, byte_and7F, byte_and80, or_shift_eq_add _ ho]

theorem step_bound {out i : Nat} (b : Byte) (ho : out < 2 ^ (7 * i)) :
    out + b.toNat % 128 * 2 ^ (7 * i) < 2 ^ (7 * (i + 1)) := by
  rw [pow7_succ]
  have : b.toNat % 128 < 128 := Nat.mod_lt _ (by decide)
  have : b.toNat % 128 * 2 ^ (7 * i) ≤ 127 * 2 ^ (7 * i) := Nat.mul_le_mul_right _ (by omega)
  omega

/-! ### complete description of the reader -/

/-- too many continuation bytes: `badVarint`. -/
theorem decVarintLoop_overlong (bits : Nat) :
    ∀ (f i out : Nat) (q x : List Byte), AllCont q → f ≤ q.length → out < 2 ^ (7 * i) →
      decVarintLoop bits f i out (q ++ x) = .error .badVarint := by
  intro f
  induction f with
  | zero => intro i out q x _ _ _; simp [decVarintLoop]
  | succ f ih =>
    intro i out q x hq hl ho
    cases q with
    | nil => simp at hl
    | cons b t =>
      have hb : ¬ b.toNat < 128 := by have := hq b (by simp); omega
      rw [List.cons_append, decVarintLoop_cons _ _ _ _ _ _ ho, if_neg hb]
      exact ih _ _ t x (fun c hc => hq c (by simp [hc])) (by simpa using hl) (step_bound b ho)

/-- input ends inside the continuation bytes: `unexpectedEnd`. -/
theorem decVarintLoop_truncated (bits : Nat) :
    ∀ (f i out : Nat) (q : List Byte), AllCont q → q.length < f → out < 2 ^ (7 * i) →
      decVarintLoop bits f i out q = .error .unexpectedEnd := by
  intro f
  induction f with
  | zero => intro i out q _ hl _; simp at hl
  | succ f ih =>
    intro i out q hq hl ho
    cases q with
    | nil => simp [decVarintLoop]
    | cons b t =>
      have hb : ¬ b.toNat < 128 := by have := hq b (by simp); omega
      rw [decVarintLoop_cons _ _ _ _ _ _ ho, if_neg hb]
      exact ih _ _ t (fun c hc => hq c (by simp [hc])) (by simpa using hl) (step_bound b ho)

/-- a terminator byte within the fuel: accepted unless it is the last permitted
byte and too large. -/
theorem decVarintLoop_terminated (bits : Nat) (l : Byte) (r : List Byte) (hl : l.toNat < 128) :
    ∀ (f i out : Nat) (q : List Byte), AllCont q → q.length < f → out < 2 ^ (7 * i) →
      decVarintLoop bits f i out (q ++ l :: r) =
        if i + q.length = varintMax bits - 1 ∧ l.toNat > maxOfLastByte bits then .error .badVarint
        else .ok (out + varintValueAt i (q ++ [l]), r) := by
  intro f
  induction f with
  | zero => intro i out q _ hl _; simp at hl
  | succ f ih =>
    intro i out q hq hlen ho
    cases q with
    | nil =>
      rw [List.nil_append, decVarintLoop_cons _ _ _ _ _ _ ho, if_pos hl]
      simp [varintValueAt]
    | cons b t =>
      have hb : ¬ b.toNat < 128 := by have := hq b (by simp); omega
      rw [List.cons_append, decVarintLoop_cons _ _ _ _ _ _ ho, if_neg hb,
        ih _ _ t (fun c hc => hq c (by simp [hc])) (by simpa using hlen) (step_bound b ho)]
      simp [varintValueAt, Nat.add_comm, Nat.add_left_comm]

/-- every byte string is all-continuation or has a first terminator. -/
theorem cont_split (bs : List Byte) :
    AllCont bs ∨ ∃ q l r, bs = q ++ l :: r ∧ AllCont q ∧ l.toNat < 128 := by
  induction bs with
  | nil => left; intro b hb; simp at hb
  | cons b t ih =>
    by_cases hb : b.toNat < 128
    · right; exact ⟨[], b, t, rfl, (fun c hc => by simp at hc), hb⟩
    · rcases ih with h | ⟨q, l, r, rfl, hq, hl⟩
      · left; intro c hc
        rcases List.mem_cons.1 hc with rfl | hc
        · omega
        · exact h c hc
      · right
        refine ⟨b :: q, l, r, rfl, ?_, hl⟩
        intro c hc
        rcases List.mem_cons.1 hc with rfl | hc
        · omega
        · exact hq c hc

/-! ### the reader at top level -/

/-- the last-byte rejection test of the reader. -/
def LastBad (bits : Nat) (q : List Byte) (l : Byte) : Prop :=
  q.length = varintMax bits - 1 ∧ l.toNat > maxOfLastByte bits

instance (bits : Nat) (q : List Byte) (l : Byte) : Decidable (LastBad bits q l) := by
  unfold LastBad; infer_instance

theorem decVarint_terminated {bits : Nat} {q : List Byte} {l : Byte} (r : List Byte)
    (hq : AllCont q) (hl : l.toNat < 128) (hlen : q.length < varintMax bits) :
    decVarint bits (q ++ l :: r) =
      if LastBad bits q l then .error .badVarint else .ok (varintValue (q ++ [l]), r) := by
  unfold decVarint LastBad
  rw [decVarintLoop_terminated bits l r hl _ 0 0 q hq hlen (by simp)]
  simp [varintValueAt_zero]

theorem decVarint_overlong {bits : Nat} {q : List Byte} (x : List Byte)
    (hq : AllCont q) (hlen : varintMax bits ≤ q.length) :
    decVarint bits (q ++ x) = .error .badVarint :=
  decVarintLoop_overlong bits _ 0 0 q x hq hlen (by simp)

theorem decVarint_truncated {bits : Nat} {q : List Byte}
    (hq : AllCont q) (hlen : q.length < varintMax bits) :
    decVarint bits q = .error .unexpectedEnd :=
  decVarintLoop_truncated bits _ 0 0 q hq hlen (by simp)

/-- complete case analysis of the reader. -/
theorem decVarint_cases (bits : Nat) (bs : List Byte) :
    (AllCont bs ∧ bs.length < varintMax bits ∧ decVarint bits bs = .error .unexpectedEnd) ∨
    (decVarint bits bs = .error .badVarint) ∨
    (∃ q l r, bs = q ++ l :: r ∧ AllCont q ∧ l.toNat < 128 ∧ q.length < varintMax bits ∧
      ¬ LastBad bits q l ∧ decVarint bits bs = .ok (varintValue (q ++ [l]), r)) := by
  rcases cont_split bs with h | ⟨q, l, r, rfl, hq, hl⟩
  · by_cases hlen : bs.length < varintMax bits
    · exact .inl ⟨h, hlen, decVarint_truncated h hlen⟩
    · have := decVarint_overlong (bits := bits) [] h (by omega)
      rw [List.append_nil] at this
      exact .inr (.inl this)
  · by_cases hlen : q.length < varintMax bits
    · by_cases hbad : LastBad bits q l
      · refine .inr (.inl ?_)
        rw [decVarint_terminated r hq hl hlen, if_pos hbad]
      · refine .inr (.inr ⟨q, l, r, rfl, hq, hl, hlen, hbad, ?_⟩)
        rw [decVarint_terminated r hq hl hlen, if_neg hbad]
    · exact .inr (.inl (decVarint_overlong _ hq (by omega)))

theorem decVarint_ok_shape {bits n : Nat} {bs r : List Byte}
    (h : decVarint bits bs = .ok (n, r)) :
    ∃ q l, bs = q ++ l :: r ∧ AllCont q ∧ l.toNat < 128 ∧ q.length < varintMax bits ∧
      ¬ LastBad bits q l ∧ n = varintValue (q ++ [l]) := by
  rcases decVarint_cases bits bs with ⟨_, _, he⟩ | he | ⟨q, l, r', rfl, hq, hl, hlen, hbad, he⟩
  · rw [he] at h; cases h
  · rw [he] at h; cases h
  · rw [he] at h
    injection h with h
    injection h with h1 h2
    subst h1 h2
    exact ⟨q, l, rfl, hq, hl, hlen, hbad, rfl⟩

theorem decVarint_of_shape {bits : Nat} {q : List Byte} {l : Byte} (r : List Byte)
    (hq : AllCont q) (hl : l.toNat < 128) (hlen : q.length < varintMax bits)
    (hbad : ¬ LastBad bits q l) :
    decVarint bits (q ++ l :: r) = .ok (varintValue (q ++ [l]), r) := by
  rw [decVarint_terminated r hq hl hlen, if_neg hbad]

/-! ### the width bound -/

theorem lt_mul_iff {v l X K : Nat} (h : v < X) : v + l * X < K * X ↔ l < K := by
  constructor
  · intro h1
    apply Classical.byContradiction
    intro h2
    have : K * X ≤ l * X := Nat.mul_le_mul_right _ (by omega)
    omega
  · intro h1
    have : (l + 1) * X ≤ K * X := Nat.mul_le_mul_right _ (by omega)
    rw [Nat.add_mul] at this
    omega

theorem value_lt_iff {bits : Nat} (hb : WidthOk bits) {q : List Byte} {l : Byte}
    (hl : l.toNat < 128) (hlen : q.length < varintMax bits) :
    varintValue (q ++ [l]) < 2 ^ bits ↔ ¬ LastBad bits q l := by
  rw [varintValue_concat q l hl]
  have hv := varintValue_lt q
  unfold LastBad
  rw [maxOfLastByte_eq]
  have hK : 0 < 2 ^ (bits % 7) := Nat.two_pow_pos _
  by_cases hlast : q.length = varintMax bits - 1
  · have hp : 2 ^ bits = 2 ^ (bits % 7) * 2 ^ (7 * q.length) := by
      rw [hlast, ← Nat.pow_add, Nat.add_comm, hb.split]
    rw [hp, lt_mul_iff hv]
    omega
  · have hsplit := hb.split
    have h1 : 7 * (q.length + 1) ≤ bits := by omega
    have h2 : 2 ^ (7 * (q.length + 1)) ≤ 2 ^ bits := Nat.pow_le_pow_right (by decide) h1
    rw [pow7_succ] at h2
    have h3 : l.toNat * 2 ^ (7 * q.length) ≤ 127 * 2 ^ (7 * q.length) :=
      Nat.mul_le_mul_right _ (by omega)
    constructor
    · intro _ h; exact hlast h.1
    · intro _; omega

/-! ### the permitted byte strings -/

theorem permitted_iff {bits n : Nat} {p : List Byte} :
    PermittedVarint bits n p ↔
      ∃ q l, p = q ++ [l] ∧ AllCont q ∧ l.toNat < 128 ∧ q.length < varintMax bits ∧
        varintValue (q ++ [l]) = n ∧ n < 2 ^ bits := by
  constructor
  · rintro ⟨hne, hlen, hc, ht, hv, hn⟩
    have hp := List.dropLast_concat_getLast hne
    refine ⟨p.dropLast, p.getLast hne, hp.symm, hc, ht _ (List.getLast?_eq_some_getLast hne), ?_, ?_, hn⟩
    · have : p.length = p.dropLast.length + 1 := by
        conv => lhs; rw [← hp]
        simp
      omega
    · rw [hp]; exact hv
  · rintro ⟨q, l, rfl, hq, hl, hlen, hv, hn⟩
    refine ⟨by simp, by simp; omega, ?_, ?_, hv, hn⟩
    · simpa [AllCont] using hq
    · intro b hb
      simp at hb
      subst hb
      exact hl

theorem decVarint_ok_iff {bits n : Nat} {bs r : List Byte} (hb : WidthOk bits) :
    decVarint bits bs = .ok (n, r) ↔ ∃ p, bs = p ++ r ∧ PermittedVarint bits n p := by
  constructor
  · intro h
    obtain ⟨q, l, rfl, hq, hl, hlen, hbad, rfl⟩ := decVarint_ok_shape h
    refine ⟨q ++ [l], by simp, permitted_iff.2 ⟨q, l, rfl, hq, hl, hlen, rfl, ?_⟩⟩
    exact (value_lt_iff hb hl hlen).2 hbad
  · rintro ⟨p, rfl, hp⟩
    obtain ⟨q, l, rfl, hq, hl, hlen, rfl, hn⟩ := permitted_iff.1 hp
    have hbad := (value_lt_iff hb hl hlen).1 hn
    have := decVarint_of_shape r hq hl hlen hbad
    simpa using this

theorem decVarint_lt {bits n : Nat} {bs r : List Byte} (hb : WidthOk bits)
    (h : decVarint bits bs = .ok (n, r)) : n < 2 ^ bits := by
  obtain ⟨p, _, hp⟩ := (decVarint_ok_iff hb).1 h
  exact hp.2.2.2.2.2

theorem decVarint_consumed {bits n : Nat} {bs r : List Byte}
    (h : decVarint bits bs = .ok (n, r)) :
    ∃ p, bs = p ++ r ∧ 0 < p.length ∧ p.length ≤ varintMax bits := by
  obtain ⟨q, l, rfl, _, _, hlen, _, _⟩ := decVarint_ok_shape h
  exact ⟨q ++ [l], by simp, by simp, by simp; omega⟩

theorem decVarint_rest_irrelevant {bits n : Nat} {p r : List Byte}
    (h : decVarint bits (p ++ r) = .ok (n, r)) :
    (∀ r', decVarint bits (p ++ r') = .ok (n, r')) ∧
    (∀ q, q <+: p → q ≠ p → decVarint bits q = .error .unexpectedEnd) := by
  obtain ⟨q, l, hpr, hq, hl, hlen, hbad, rfl⟩ := decVarint_ok_shape h
  have hp : p = q ++ [l] := by
    have : p ++ r = (q ++ [l]) ++ r := by simpa using hpr
    exact List.append_cancel_right this
  subst hp
  constructor
  · intro r'
    have := decVarint_of_shape r' hq hl hlen hbad
    simpa using this
  · intro q' hpre hne
    rcases List.prefix_concat_iff.1 hpre with h1 | h1
    · exact absurd h1 hne
    · obtain ⟨t, rfl⟩ := h1
      refine decVarint_truncated (fun b hb => hq b (by simp [hb])) ?_
      simp at hlen
      omega

theorem decVarint_error_kinds {bits : Nat} {bs : List Byte} {e : Err}
    (h : decVarint bits bs = .error e) : e = .unexpectedEnd ∨ e = .badVarint := by
  rcases decVarint_cases bits bs with ⟨_, _, he⟩ | he | ⟨q, l, r', _, _, _, _, _, he⟩
  · rw [he] at h; injection h with h; exact .inl h.symm
  · rw [he] at h; injection h with h; exact .inr h.symm
  · rw [he] at h; cases h

theorem decVarint_unexpectedEnd_iff {bits : Nat} {bs : List Byte} :
    decVarint bits bs = .error .unexpectedEnd ↔
      (∀ b ∈ bs, 128 ≤ b.toNat) ∧ bs.length < varintMax bits := by
  constructor
  · intro h
    rcases decVarint_cases bits bs with ⟨hc, hl, _⟩ | he | ⟨q, l, r', _, _, _, _, _, he⟩
    · exact ⟨hc, hl⟩
    · rw [he] at h; cases h
    · rw [he] at h; cases h
  · rintro ⟨hc, hl⟩
    exact decVarint_truncated hc hl

/-! ### the writer -/

theorem encVarintLoop_eq_spec :
    ∀ (f v : Nat), v < 2 ^ (7 * (f + 1)) → encVarintLoop (f + 1) v = Spec.varint v := by
  intro f
  induction f with
  | zero =>
    intro v hv
    have hv : v < 128 := by simpa using hv
    rw [Spec.varint, encVarintLoop, if_pos hv, if_pos hv]
    congr 2; omega
  | succ f ih =>
    intro v hv
    rw [Spec.varint, encVarintLoop]
    by_cases h : v < 128
    · rw [if_pos h, if_pos h]; congr 2; omega
    · rw [if_neg h, if_neg h, nat_or80, Nat.shiftRight_eq_div_pow]
      rw [pow7_succ] at hv
      rw [ih (v / 2 ^ 7) (by rw [Nat.div_lt_iff_lt_mul (by decide)]; omega)]

theorem encVarintLoop_length_le : ∀ (f v : Nat), (encVarintLoop f v).length ≤ f := by
  intro f
  induction f with
  | zero => intro v; simp [encVarintLoop]
  | succ f ih =>
    intro v
    rw [encVarintLoop]
    split
    · simp
    · have := ih (v >>> 7); simp; omega

theorem spec_varint_length_le_of_lt {k n : Nat} (h : n < 2 ^ (7 * (k + 1))) :
    (Spec.varint n).length ≤ k + 1 := by
  rw [← encVarintLoop_eq_spec k n h]
  exact encVarintLoop_length_le _ _

theorem encVarint_eq_spec {bits n : Nat} (hb : WidthOk bits) (h : n < 2 ^ bits) :
    encVarint bits n = Spec.varint n := by
  unfold encVarint
  have hpos := hb.max_pos
  obtain ⟨k, hk⟩ : ∃ k, varintMax bits = k + 1 := ⟨varintMax bits - 1, by omega⟩
  rw [hk]
  apply encVarintLoop_eq_spec
  have : 2 ^ bits ≤ 2 ^ (7 * (k + 1)) :=
    Nat.pow_le_pow_right (by decide) (by rw [← hk]; exact hb.le_max)
  omega

theorem spec_varint_length_le {bits n : Nat} (hb : WidthOk bits) (h : n < 2 ^ bits) :
    (Spec.varint n).length ≤ varintMax bits := by
  rw [← encVarint_eq_spec hb h]
  exact encVarintLoop_length_le _ _

theorem spec_varint_length_pos (n : Nat) : 0 < (Spec.varint n).length := by
  rw [Spec.varint]; split <;> simp

/-- the canonical encoding is continuation bytes followed by one terminator,
and has the right value. -/
theorem spec_varint_shape (n : Nat) :
    ∃ q l, Spec.varint n = q ++ [l] ∧ AllCont q ∧ l.toNat < 128 ∧
      varintValue (q ++ [l]) = n := by
  induction n using Spec.varint.induct with
  | case1 n h =>
    refine ⟨[], UInt8.ofNat n, ?_, (fun b hb => by simp at hb), ?_, ?_⟩
    · rw [Spec.varint, if_pos h]; rfl
    · rw [UInt8.toNat_ofNat']; omega
    · simp [varintValue, UInt8.toNat_ofNat']; omega
  | case2 n h ih =>
    obtain ⟨q, l, hs, hq, hl, hv⟩ := ih
    refine ⟨UInt8.ofNat (128 + n % 128) :: q, l, ?_, ?_, hl, ?_⟩
    · rw [Spec.varint, if_neg h, hs]; rfl
    · intro b hb
      rcases List.mem_cons.1 hb with rfl | hb
      · rw [UInt8.toNat_ofNat']; omega
      · exact hq b hb
    · rw [List.cons_append, varintValue, hv, UInt8.toNat_ofNat']; omega

theorem permitted_canonical {bits n : Nat} (hb : WidthOk bits) (h : n < 2 ^ bits) :
    PermittedVarint bits n (Spec.varint n) := by
  obtain ⟨q, l, hs, hq, hl, hv⟩ := spec_varint_shape n
  have hlen := spec_varint_length_le hb h
  rw [hs] at hlen ⊢
  exact permitted_iff.2 ⟨q, l, rfl, hq, hl, by simp at hlen; omega, hv, h⟩

theorem varint_minimal {bits n : Nat} {p : List Byte} (h : PermittedVarint bits n p) :
    (Spec.varint n).length ≤ p.length := by
  obtain ⟨hne, _, _, _, hv, _⟩ := h
  have hlt := varintValue_lt p
  rw [hv] at hlt
  cases p with
  | nil => exact absurd rfl hne
  | cons b t => exact spec_varint_length_le_of_lt hlt

theorem decVarint_encVarint {bits n : Nat} (hb : WidthOk bits) (h : n < 2 ^ bits)
    (rest : List Byte) :
    decVarint bits (encVarint bits n ++ rest) = .ok (n, rest) := by
  rw [encVarint_eq_spec hb h]
  exact (decVarint_ok_iff hb).2 ⟨_, rfl, permitted_canonical hb h⟩

end Postcard
