import Postcard.Model.Ser
import Postcard.Model.De
import Postcard.Lemmas.Varint
import Postcard.Lemmas.Codec
/-
  Postcard.Lemmas.RoundTrip — per-kind round-trip lemmas and the mutual
  structural induction `dec t (enc v ++ rest) = .ok (v, rest)` (property C01),
  plus `enc = Spec.encode` on well-typed values (property C02).
-/
namespace Postcard

/-! ## A. leaf facts -/

theorem IntW.widthOk {w : IntW} (h : w ≠ .w8) : WidthOk w.bits := by
  cases w <;> simp [IntW.bits, WidthOk] at h ⊢

theorem widthOk32 : WidthOk 32 := by simp [WidthOk]
theorem widthOk64 : WidthOk 64 := by simp [WidthOk]

theorem takeN_append (a rest : List Byte) : takeN a.length (a ++ rest) = .ok (a, rest) := by
  simp [takeN]

theorem takeN_append' {n : Nat} (a rest : List Byte) (h : a.length = n) :
    takeN n (a ++ rest) = .ok (a, rest) := by
  subst h; exact takeN_append a rest

/-- length-prefixed payload: what `str`, `bytes`, `char` share. -/
theorem decVarint_len_takeN (s rest : List Byte) (h : s.length < 2 ^ 64) :
    decVarint 64 (encVarint 64 s.length ++ (s ++ rest)) = .ok (s.length, s ++ rest) :=
  decVarint_encVarint widthOk64 h _

theorem rt_bool (b : Bool) (rest : List Byte) :
    dec .bool (enc (.bool b) ++ rest) = .ok (.bool b, rest) := by
  cases b <;> simp [enc, dec]

theorem rt_u (w : IntW) (n : Nat) (h : n < 2 ^ w.bits) (rest : List Byte) :
    dec (.u w) (enc (.u w n) ++ rest) = .ok (.u w n, rest) := by
  cases w
  case w8 =>
    have : n < 256 := by simpa [IntW.bits] using h
    simp [enc, dec, UInt8.toNat_ofNat']
    omega
  all_goals
    simp only [enc, dec]
    rw [decVarint_encVarint (IntW.widthOk (by decide)) h]

theorem rt_i (w : IntW) (x : Int) (h : w.inRangeI x = true) (rest : List Byte) :
    dec (.i w) (enc (.i w x) ++ rest) = .ok (.i w x, rest) := by
  have hr := (IntW.inRangeI_iff w x).1 h
  cases w
  case w8 =>
    have hr' : -128 ≤ x ∧ x < 128 := by simpa [IntW.bits] using hr
    simp only [enc, dec, List.cons_append, List.nil_append]
    rw [ofBits_toBits8 hr']
  all_goals
    simp only [enc, dec]
    rw [decVarint_encVarint (IntW.widthOk (by decide)) (zigzag_lt (IntW.bits_pos _) hr)]
    simp only [unzigzag_zigzag (IntW.bits_pos _) hr]

theorem rt_f32 (b : Nat) (h : b < 2 ^ 32) (rest : List Byte) :
    dec .f32 (enc (.f32 b) ++ rest) = .ok (.f32 b, rest) := by
  simp only [enc, dec]
  rw [takeN_append' _ _ (leBytes_length 4 b)]
  simp only [ofLeBytes_leBytes (k := 4) (by simpa using h)]

theorem rt_f64 (b : Nat) (h : b < 2 ^ 64) (rest : List Byte) :
    dec .f64 (enc (.f64 b) ++ rest) = .ok (.f64 b, rest) := by
  simp only [enc, dec]
  rw [takeN_append' _ _ (leBytes_length 8 b)]
  simp only [ofLeBytes_leBytes (k := 8) (by simpa using h)]

theorem rt_str (s : List Byte) (hv : utf8Valid s = true) (hl : s.length < 2 ^ 64)
    (rest : List Byte) : dec .str (enc (.str s) ++ rest) = .ok (.str s, rest) := by
  simp only [enc, dec, List.append_assoc]
  rw [decVarint_len_takeN s rest hl]
  simp only [takeN_append, hv, if_true]

theorem rt_bytes (s : List Byte) (hl : s.length < 2 ^ 64)
    (rest : List Byte) : dec .bytes (enc (.bytes s) ++ rest) = .ok (.bytes s, rest) := by
  simp only [enc, dec, List.append_assoc]
  rw [decVarint_len_takeN s rest hl]
  simp only [takeN_append]

theorem rt_char (c : Nat) (hc : isScalar c = true) (rest : List Byte) :
    dec .char (enc (.char c) ++ rest) = .ok (.char c, rest) := by
  have hle := utf8Encode_length_le c
  have hl : (utf8Encode c).length < 2 ^ 64 := Nat.lt_of_le_of_lt hle (by decide)
  have hn := utf8Next_encode hc []
  rw [List.append_nil] at hn
  simp only [enc, dec, decChar, List.append_assoc]
  rw [decVarint_len_takeN _ rest hl]
  have : ¬ (utf8Encode c).length > 4 := by omega
  simp only [this, if_false, takeN_append, utf8Valid_encode hc, if_true, hn]

/-! ## B. the round trip -/

theorem decVariant_getElem (vt : Ty) (idx : Nat) (bs : List Byte) :
    ∀ (vts : List Ty) (k : Nat), vts[k]? = some vt →
      decVariant vts k idx bs = decVariant [vt] 0 idx bs := by
  intro vts
  induction vts with
  | nil => intro k h; simp at h
  | cons a as ih =>
    intro k h
    cases k with
    | zero =>
      simp at h; subst h
      cases a <;> simp [decVariant]
    | succ k =>
      simp at h
      simp only [decVariant]
      exact ih k h

-- C01: encode/decode round trip, by mutual structural recursion on the value.
mutual
theorem rt_val : (v : Val) → (t : Ty) → hasTy v t = true → (rest : List Byte) →
    dec t (enc v ++ rest) = .ok (v, rest)
  | .bool b, t, h, rest => by
    cases t <;> simp [hasTy] at h
    exact rt_bool b rest
  | .u w n, t, h, rest => by
    cases t <;> simp [hasTy] at h
    obtain ⟨rfl, h⟩ := h
    exact rt_u w n h rest
  | .i w n, t, h, rest => by
    cases t <;> simp [hasTy] at h
    obtain ⟨rfl, h⟩ := h
    exact rt_i w n h rest
  | .f32 b, t, h, rest => by
    cases t <;> simp [hasTy] at h
    exact rt_f32 b h rest
  | .f64 b, t, h, rest => by
    cases t <;> simp [hasTy] at h
    exact rt_f64 b h rest
  | .char c, t, h, rest => by
    cases t <;> simp [hasTy] at h
    exact rt_char c h rest
  | .str s, t, h, rest => by
    cases t <;> simp [hasTy] at h
    exact rt_str s h.1 h.2 rest
  | .bytes s, t, h, rest => by
    cases t <;> simp [hasTy] at h
    exact rt_bytes s h rest
  | .none, t, h, rest => by
    cases t <;> simp [hasTy] at h
    simp [enc, dec]
  | .some v, t, h, rest => by
    cases t <;> simp [hasTy] at h
    simp [enc, dec, rt_val v _ h rest]
  | .unit, t, h, rest => by
    cases t <;> simp [hasTy] at h
    simp [enc, dec]
  | .unitStruct, t, h, rest => by
    cases t <;> simp [hasTy] at h
    simp [enc, dec]
  | .newtypeStruct v, t, h, rest => by
    cases t <;> simp [hasTy] at h
    simp [enc, dec, rt_val v _ h rest]
  | .seq vs, t, h, rest => by
    cases t <;> simp [hasTy] at h
    simp only [enc, dec, List.append_assoc, decVarint_encVarint widthOk64 h.2,
      rt_all vs _ h.1 rest]
  | .tuple vs, t, h, rest => by
    cases t <;> simp [hasTy] at h
    simp only [enc, dec, rt_tuple vs _ h rest]
  | .tupleStruct vs, t, h, rest => by
    cases t <;> simp [hasTy] at h
    simp only [enc, dec, rt_tuple vs _ h rest]
  | .struct vs, t, h, rest => by
    cases t <;> simp [hasTy] at h
    simp only [enc, dec, rt_tuple vs _ h rest]
  | .map kvs, t, h, rest => by
    cases t <;> simp [hasTy] at h
    simp only [enc, dec, List.append_assoc, decVarint_encVarint widthOk64 h.2,
      rt_kv kvs _ _ h.1 rest]
  | .unitVariant idx, t, h, rest => by
    cases t <;> simp [hasTy] at h
    obtain ⟨hi, h⟩ := h
    split at h
    · rename_i hg
      simp only [enc, dec, decVarint_encVarint widthOk32 hi,
        decVariant_getElem _ _ _ _ _ hg, decVariant]
    · simp at h
  | .newtypeVariant idx v, t, h, rest => by
    cases t <;> simp [hasTy] at h
    obtain ⟨hi, h⟩ := h
    split at h
    · rename_i hg
      simp only [enc, dec, List.append_assoc, decVarint_encVarint widthOk32 hi,
        decVariant_getElem _ _ _ _ _ hg, decVariant, rt_val v _ h rest]
    · simp at h
  | .tupleVariant idx vs, t, h, rest => by
    cases t <;> simp [hasTy] at h
    obtain ⟨hi, h⟩ := h
    split at h
    · rename_i hg
      simp only [enc, dec, List.append_assoc, decVarint_encVarint widthOk32 hi,
        decVariant_getElem _ _ _ _ _ hg, decVariant, rt_tuple vs _ h rest]
    · simp at h
  | .structVariant idx vs, t, h, rest => by
    cases t <;> simp [hasTy] at h
    obtain ⟨hi, h⟩ := h
    split at h
    · rename_i hg
      simp only [enc, dec, List.append_assoc, decVarint_encVarint widthOk32 hi,
        decVariant_getElem _ _ _ _ _ hg, decVariant, rt_tuple vs _ h rest]
    · simp at h
theorem rt_tuple : (vs : List Val) → (ts : List Ty) → hasTys vs ts = true →
    (rest : List Byte) → decTuple ts (encList vs ++ rest) = .ok (vs, rest)
  | [], ts, h, rest => by
    cases ts <;> simp [hasTys] at h
    simp [encList, decTuple]
  | v :: vs, ts, h, rest => by
    cases ts <;> simp [hasTys] at h
    simp only [encList, decTuple, List.append_assoc, rt_val v _ h.1, rt_tuple vs _ h.2 rest]
theorem rt_all : (vs : List Val) → (t : Ty) → hasTyAll vs t = true →
    (rest : List Byte) → decN (dec t) vs.length (encList vs ++ rest) = .ok (vs, rest)
  | [], t, h, rest => by simp [encList, decN]
  | v :: vs, t, h, rest => by
    simp [hasTyAll] at h
    simp only [encList, decN, List.append_assoc, List.length_cons, rt_val v _ h.1,
      rt_all vs _ h.2 rest]
theorem rt_kv : (kvs : List Val) → (k v : Ty) → hasTyKV true kvs k v = true →
    (rest : List Byte) →
    decKV (dec k) (dec v) (kvs.length / 2) (encList kvs ++ rest) = .ok (kvs, rest)
  | [], k, v, h, rest => by simp [encList, decKV]
  | [x], k, v, h, rest => by simp [hasTyKV] at h
  | x :: y :: xs, k, v, h, rest => by
    simp [hasTyKV] at h
    have : (x :: y :: xs).length / 2 = xs.length / 2 + 1 := by simp; omega
    simp only [this, encList, decKV, List.append_assoc, rt_val x _ h.1, rt_val y _ h.2.1,
      rt_kv xs _ _ h.2.2 rest]
end


/-! ## C. encoder = specification -/

theorem spec_u (w : IntW) (n : Nat) (h : n < 2 ^ w.bits) : enc (.u w n) = Spec.encode (.u w n) := by
  cases w
  case w8 => simp [enc, Spec.encode]
  all_goals
    simp only [enc, Spec.encode]
    exact encVarint_eq_spec (IntW.widthOk (by decide)) h

theorem spec_i (w : IntW) (x : Int) (h : w.inRangeI x = true) :
    enc (.i w x) = Spec.encode (.i w x) := by
  have hr := (IntW.inRangeI_iff w x).1 h
  cases w
  case w8 =>
    have hr' : -128 ≤ x ∧ x < 128 := by simpa [IntW.bits] using hr
    simp only [enc, Spec.encode, toBits8_eq_spec hr']
  all_goals
    simp only [enc, Spec.encode]
    rw [encVarint_eq_spec (IntW.widthOk (by decide)) (zigzag_lt (IntW.bits_pos _) hr),
      zigzag_eq_spec (IntW.bits_pos _) hr]

theorem spec_len {n : Nat} (h : n < 2 ^ 64) : encVarint 64 n = Spec.varint n :=
  encVarint_eq_spec widthOk64 h
theorem spec_idx {n : Nat} (h : n < 2 ^ 32) : encVarint 32 n = Spec.varint n :=
  encVarint_eq_spec widthOk32 h

-- C02: the encoder equals the transcription of the wire-format document.
mutual
theorem enc_spec : (v : Val) → (t : Ty) → hasTy v t = true → enc v = Spec.encode v
  | .bool b, t, h => by simp [enc, Spec.encode]
  | .u w n, t, h => by
    cases t <;> simp [hasTy] at h
    exact spec_u w n h.2
  | .i w n, t, h => by
    cases t <;> simp [hasTy] at h
    exact spec_i w n h.2
  | .f32 b, t, h => by simp only [enc, Spec.encode, leBytes_eq_spec]
  | .f64 b, t, h => by simp only [enc, Spec.encode, leBytes_eq_spec]
  | .char c, t, h => by
    have hl : (utf8Encode c).length < 2 ^ 64 :=
      Nat.lt_of_le_of_lt (utf8Encode_length_le c) (by decide)
    simp only [enc, Spec.encode, spec_len hl]
  | .str s, t, h => by
    cases t <;> simp [hasTy] at h
    simp only [enc, Spec.encode, spec_len h.2]
  | .bytes s, t, h => by
    cases t <;> simp [hasTy] at h
    simp only [enc, Spec.encode, spec_len h]
  | .none, t, h => by simp [enc, Spec.encode]
  | .some v, t, h => by
    cases t <;> simp [hasTy] at h
    simp only [enc, Spec.encode, enc_spec v _ h]
  | .unit, t, h => by simp [enc, Spec.encode]
  | .unitStruct, t, h => by simp [enc, Spec.encode]
  | .newtypeStruct v, t, h => by
    cases t <;> simp [hasTy] at h
    simp only [enc, Spec.encode, enc_spec v _ h]
  | .seq vs, t, h => by
    cases t <;> simp [hasTy] at h
    simp only [enc, Spec.encode, spec_len h.2, encList_spec_all vs _ h.1]
  | .tuple vs, t, h => by
    cases t <;> simp [hasTy] at h
    simp only [enc, Spec.encode, encList_spec_tys vs _ h]
  | .tupleStruct vs, t, h => by
    cases t <;> simp [hasTy] at h
    simp only [enc, Spec.encode, encList_spec_tys vs _ h]
  | .struct vs, t, h => by
    cases t <;> simp [hasTy] at h
    simp only [enc, Spec.encode, encList_spec_tys vs _ h]
  | .map kvs, t, h => by
    cases t <;> simp [hasTy] at h
    simp only [enc, Spec.encode, spec_len h.2, encList_spec_kv kvs _ _ _ h.1]
  | .unitVariant idx, t, h => by
    cases t <;> simp [hasTy] at h
    simp only [enc, Spec.encode, spec_idx h.1]
  | .newtypeVariant idx v, t, h => by
    cases t <;> simp [hasTy] at h
    obtain ⟨hi, h⟩ := h
    split at h
    · simp only [enc, Spec.encode, spec_idx hi, enc_spec v _ h]
    · simp at h
  | .tupleVariant idx vs, t, h => by
    cases t <;> simp [hasTy] at h
    obtain ⟨hi, h⟩ := h
    split at h
    · simp only [enc, Spec.encode, spec_idx hi, encList_spec_tys vs _ h]
    · simp at h
  | .structVariant idx vs, t, h => by
    cases t <;> simp [hasTy] at h
    obtain ⟨hi, h⟩ := h
    split at h
    · simp only [enc, Spec.encode, spec_idx hi, encList_spec_tys vs _ h]
    · simp at h
theorem encList_spec_tys : (vs : List Val) → (ts : List Ty) → hasTys vs ts = true →
    encList vs = Spec.encodeAll vs
  | [], ts, h => by simp [encList, Spec.encodeAll]
  | v :: vs, ts, h => by
    cases ts <;> simp [hasTys] at h
    simp only [encList, Spec.encodeAll, enc_spec v _ h.1, encList_spec_tys vs _ h.2]
theorem encList_spec_all : (vs : List Val) → (t : Ty) → hasTyAll vs t = true →
    encList vs = Spec.encodeAll vs
  | [], t, h => by simp [encList, Spec.encodeAll]
  | v :: vs, t, h => by
    simp [hasTyAll] at h
    simp only [encList, Spec.encodeAll, enc_spec v _ h.1, encList_spec_all vs _ h.2]
theorem encList_spec_kv : (kvs : List Val) → (isKey : Bool) → (k v : Ty) →
    hasTyKV isKey kvs k v = true → encList kvs = Spec.encodeAll kvs
  | [], _, k, v, h => by simp [encList, Spec.encodeAll]
  | x :: xs, isKey, k, v, h => by
    simp [hasTyKV] at h
    simp only [encList, Spec.encodeAll, enc_spec x _ h.1, encList_spec_kv xs _ _ _ h.2]
end


end Postcard
