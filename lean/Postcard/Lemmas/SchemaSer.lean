import Postcard.Model.SchemaSer
/-
  Postcard.Lemmas.SchemaSer — helper lemmas for property C15: the two variant
  index tables, `conv = id`, `serBorrowed = serOwned`, and the pieces of the
  owned round trip.
-/
namespace Postcard

/-! ## Tables -/

theorem kindOfIdxOwned_idxOwned (k : SchemaKind) : kindOfIdxOwned (idxOwned k) = some k := by
  cases k <;> rfl

theorem dataKindOfIdxOwned_dataIdxOwned (k : DataKind) :
    dataKindOfIdxOwned (dataIdxOwned k) = some k := by
  cases k <;> rfl

theorem idxOwned_lt (k : SchemaKind) : idxOwned k < 26 := by
  cases k <;> decide

theorem dataIdxOwned_lt (k : DataKind) : dataIdxOwned k < 4 := by
  cases k <;> decide

/-! ## `conv` is the identity -/

mutual
theorem conv_eq : ∀ s : Schema, conv s = s
  | .option t => by rw [conv, conv_eq t]
  | .seq t => by rw [conv, conv_eq t]
  | .tuple ts => by rw [conv, convList_eq ts]
  | .map k v => by rw [conv, conv_eq k, conv_eq v]
  | .struct n d => by rw [conv, convData_eq d]
  | .enum n vs => by rw [conv, convVariants_eq vs]
  | .bool | .i8 | .u8 | .i16 | .i32 | .i64 | .i128 | .u16 | .u32 | .u64 | .u128
  | .usize | .isize | .f32 | .f64 | .char | .string | .byteArray | .unit | .schema => by
    rw [conv]
theorem convList_eq : ∀ ts : List Schema, convList ts = ts
  | [] => by rw [convList]
  | t :: ts => by rw [convList, conv_eq t, convList_eq ts]
theorem convData_eq : ∀ d : SData, convData d = d
  | .unit => by rw [convData]
  | .newtype t => by rw [convData, conv_eq t]
  | .tuple ts => by rw [convData, convList_eq ts]
  | .struct fs => by rw [convData, convFields_eq fs]
theorem convFields_eq : ∀ fs : List SField, convFields fs = fs
  | [] => by rw [convFields]
  | .mk n t :: fs => by rw [convFields, conv_eq t, convFields_eq fs]
theorem convVariants_eq : ∀ vs : List SVariant, convVariants vs = vs
  | [] => by rw [convVariants]
  | .mk n d :: vs => by rw [convVariants, convData_eq d, convVariants_eq vs]
end

/-! ## The two serialisers agree, given that the tables agree -/

section Punning
set_option linter.unusedSectionVars false
variable (ht : ∀ k, idxBorrowed k = idxOwned k) (hd : ∀ k, dataIdxBorrowed k = dataIdxOwned k)
include ht hd

mutual
theorem serBorrowed_eq : ∀ s : Schema, serBorrowed s = serOwned s
  | .option t => by rw [serBorrowed, serOwned, serBorrowed_eq t, ht]
  | .seq t => by rw [serBorrowed, serOwned, serBorrowed_eq t, ht]
  | .tuple ts => by rw [serBorrowed, serOwned, serBorrowedList_eq ts, ht]
  | .map k v => by rw [serBorrowed, serOwned, serBorrowed_eq k, serBorrowed_eq v, ht]
  | .struct n d => by rw [serBorrowed, serOwned, serBorrowedData_eq d, ht]
  | .enum n vs => by rw [serBorrowed, serOwned, serBorrowedVariants_eq vs, ht]
  | .bool | .i8 | .u8 | .i16 | .i32 | .i64 | .i128 | .u16 | .u32 | .u64 | .u128
  | .usize | .isize | .f32 | .f64 | .char | .string | .byteArray | .unit | .schema => by
    rw [serBorrowed, serOwned, ht]
theorem serBorrowedList_eq : ∀ ts : List Schema, serBorrowedList ts = serOwnedList ts
  | [] => by rw [serBorrowedList, serOwnedList]
  | t :: ts => by rw [serBorrowedList, serOwnedList, serBorrowed_eq t, serBorrowedList_eq ts]
theorem serBorrowedData_eq : ∀ d : SData, serBorrowedData d = serOwnedData d
  | .unit => by rw [serBorrowedData, serOwnedData, hd]
  | .newtype t => by rw [serBorrowedData, serOwnedData, serBorrowed_eq t, hd]
  | .tuple ts => by rw [serBorrowedData, serOwnedData, serBorrowedList_eq ts, hd]
  | .struct fs => by rw [serBorrowedData, serOwnedData, serBorrowedFields_eq fs, hd]
theorem serBorrowedFields_eq : ∀ fs : List SField, serBorrowedFields fs = serOwnedFields fs
  | [] => by rw [serBorrowedFields, serOwnedFields]
  | .mk n t :: fs => by
    rw [serBorrowedFields, serOwnedFields, serBorrowed_eq t, serBorrowedFields_eq fs]
theorem serBorrowedVariants_eq : ∀ vs : List SVariant,
    serBorrowedVariants vs = serOwnedVariants vs
  | [] => by rw [serBorrowedVariants, serOwnedVariants]
  | .mk n d :: vs => by
    rw [serBorrowedVariants, serOwnedVariants, serBorrowedData_eq d, serBorrowedVariants_eq vs]
end

end Punning

/-! ## Pieces of the round trip -/

theorem takeN_append (s rest : List Byte) : takeN s.length (s ++ rest) = .ok (s, rest) := by
  simp [takeN]

theorem Schema.size_pos (s : Schema) : 0 < s.size := by
  cases s <;> simp [Schema.size] <;> omega

theorem SData.size_pos (d : SData) : 0 < d.size := by
  cases d <;> simp [SData.size] <;> omega

theorem serOwnedList_length (ts : List Schema) : (serOwnedList ts).length = ts.length := by
  induction ts with
  | nil => simp [serOwnedList]
  | cons t ts ih => simp [serOwnedList, ih]

theorem serOwnedFields_length (fs : List SField) : (serOwnedFields fs).length = fs.length := by
  induction fs with
  | nil => simp [serOwnedFields]
  | cons f fs ih => cases f; simp [serOwnedFields, ih]

theorem serOwnedVariants_length (vs : List SVariant) :
    (serOwnedVariants vs).length = vs.length := by
  induction vs with
  | nil => simp [serOwnedVariants]
  | cons v vs ih => cases v; simp [serOwnedVariants, ih]

/-! ## The owned round trip, relative to the varint round trip `hv` -/

section RT
variable (hv : ∀ bits n rest, (bits = 32 ∨ bits = 64) → n < 2 ^ bits →
    decVarint bits (encVarint bits n ++ rest) = .ok (n, rest))
include hv
set_option linter.unusedSectionVars false

theorem decName_enc (n : Name) (h : nameOk n = true) (rest : List Byte) :
    decName (enc (.str n) ++ rest) = .ok (n, rest) := by
  simp only [nameOk, Bool.and_eq_true, decide_eq_true_eq] at h
  rw [enc, List.append_assoc, decName, hv 64 _ _ (.inr rfl) h.2]
  simp [takeN_append, h.1]

theorem decBoxSlice_enc {α : Type} (g : List Byte → R (α × List Byte)) (xs : List α)
    (vals : List Val) (hl : vals.length = xs.length) (hlen : xs.length < 2 ^ 64) (rest : List Byte)
    (h : decElems g xs.length (encList vals ++ rest) = .ok (xs, rest)) :
    decBoxSlice g (enc (.seq vals) ++ rest) = .ok (xs, rest) := by
  rw [enc, List.append_assoc, decBoxSlice, hl, hv 64 _ _ (.inr rfl) hlen]
  exact h

mutual
theorem rt_schema : ∀ (s : Schema) (fuel : Nat) (rest : List Byte), s.size ≤ fuel → s.wf = true →
    decOwned fuel (enc (serOwned s) ++ rest) = .ok (s, rest)
  | .option t, fuel, rest, hs, hw => by
    obtain ⟨f, rfl⟩ : ∃ f, fuel = f + 1 := ⟨fuel - 1, by have := Schema.size_pos (.option t); omega⟩
    simp only [Schema.size, Schema.wf] at hs hw
    rw [serOwned, enc, List.append_assoc, decOwned, hv 32 _ _ (.inl rfl) (by decide)]
    simp only [idxOwned, kindOfIdxOwned]
    rw [rt_schema t f rest (by omega) hw]
  | .seq t, fuel, rest, hs, hw => by
    obtain ⟨f, rfl⟩ : ∃ f, fuel = f + 1 := ⟨fuel - 1, by have := Schema.size_pos (.seq t); omega⟩
    simp only [Schema.size, Schema.wf] at hs hw
    rw [serOwned, enc, List.append_assoc, decOwned, hv 32 _ _ (.inl rfl) (by decide)]
    simp only [idxOwned, kindOfIdxOwned]
    rw [rt_schema t f rest (by omega) hw]
  | .tuple ts, fuel, rest, hs, hw => by
    obtain ⟨f, rfl⟩ : ∃ f, fuel = f + 1 := ⟨fuel - 1, by have := Schema.size_pos (.tuple ts); omega⟩
    simp only [Schema.size, Schema.wf, Bool.and_eq_true, decide_eq_true_eq] at hs hw
    rw [serOwned, enc, List.append_assoc, decOwned, hv 32 _ _ (.inl rfl) (by decide)]
    simp only [idxOwned, kindOfIdxOwned]
    rw [decBoxSlice_enc hv _ ts _ (serOwnedList_length ts) hw.1 rest
      (rt_list ts f rest (by omega) hw.2)]
  | .map k v, fuel, rest, hs, hw => by
    obtain ⟨f, rfl⟩ : ∃ f, fuel = f + 1 := ⟨fuel - 1, by have := Schema.size_pos (.map k v); omega⟩
    simp only [Schema.size, Schema.wf, Bool.and_eq_true] at hs hw
    rw [serOwned, enc, List.append_assoc, decOwned, hv 32 _ _ (.inl rfl) (by decide)]
    simp only [idxOwned, kindOfIdxOwned, encList, List.append_nil, List.append_assoc]
    rw [rt_schema k f _ (by omega) hw.1]
    simp only []
    rw [rt_schema v f _ (by omega) hw.2]
  | .struct n d, fuel, rest, hs, hw => by
    obtain ⟨f, rfl⟩ : ∃ f, fuel = f + 1 := ⟨fuel - 1, by have := Schema.size_pos (.struct n d); omega⟩
    simp only [Schema.size, Schema.wf, Bool.and_eq_true] at hs hw
    rw [serOwned, enc, List.append_assoc, decOwned, hv 32 _ _ (.inl rfl) (by decide)]
    simp only [idxOwned, kindOfIdxOwned, encList, List.append_nil, List.append_assoc]
    rw [decName_enc hv n hw.1]
    simp only []
    rw [rt_data d f _ (by omega) hw.2]
  | .enum n vs, fuel, rest, hs, hw => by
    obtain ⟨f, rfl⟩ : ∃ f, fuel = f + 1 := ⟨fuel - 1, by have := Schema.size_pos (.enum n vs); omega⟩
    simp only [Schema.size, Schema.wf, Bool.and_eq_true, decide_eq_true_eq] at hs hw
    rw [serOwned, enc, List.append_assoc, decOwned, hv 32 _ _ (.inl rfl) (by decide)]
    simp only [idxOwned, kindOfIdxOwned, encList, List.append_nil, List.append_assoc]
    rw [decName_enc hv n hw.1.1]
    simp only []
    rw [decBoxSlice_enc hv _ vs _ (serOwnedVariants_length vs) hw.1.2 rest
      (rt_variants vs f rest (by omega) hw.2)]
  | .bool, fuel, rest, hs, _ | .i8, fuel, rest, hs, _ | .u8, fuel, rest, hs, _
  | .i16, fuel, rest, hs, _ | .i32, fuel, rest, hs, _ | .i64, fuel, rest, hs, _
  | .i128, fuel, rest, hs, _ | .u16, fuel, rest, hs, _ | .u32, fuel, rest, hs, _
  | .u64, fuel, rest, hs, _ | .u128, fuel, rest, hs, _ | .usize, fuel, rest, hs, _
  | .isize, fuel, rest, hs, _ | .f32, fuel, rest, hs, _ | .f64, fuel, rest, hs, _
  | .char, fuel, rest, hs, _ | .string, fuel, rest, hs, _ | .byteArray, fuel, rest, hs, _
  | .unit, fuel, rest, hs, _ | .schema, fuel, rest, hs, _ => by
    obtain ⟨f, rfl⟩ : ∃ f, fuel = f + 1 := ⟨fuel - 1, by simp only [Schema.size] at hs; omega⟩
    rw [serOwned, enc, decOwned, hv 32 _ _ (.inl rfl) (by decide)]
    simp only [idxOwned, kindOfIdxOwned]
theorem rt_list : ∀ (ts : List Schema) (fuel : Nat) (rest : List Byte),
    Schema.sizeList ts ≤ fuel → Schema.wfList ts = true →
    decElems (decOwned fuel) ts.length (encList (serOwnedList ts) ++ rest) = .ok (ts, rest)
  | [], _, _, _, _ => by simp [serOwnedList, encList, decElems]
  | t :: ts, fuel, rest, hs, hw => by
    simp only [Schema.sizeList, Schema.wfList, Bool.and_eq_true] at hs hw
    simp only [serOwnedList, encList, List.length_cons, decElems, List.append_assoc]
    rw [rt_schema t fuel _ (by omega) hw.1]
    simp only []
    rw [rt_list ts fuel rest (by omega) hw.2]
theorem rt_data : ∀ (d : SData) (fuel : Nat) (rest : List Byte), d.size ≤ fuel → d.wf = true →
    decOwnedData fuel (enc (serOwnedData d) ++ rest) = .ok (d, rest)
  | .unit, fuel, rest, hs, _ => by
    obtain ⟨f, rfl⟩ : ∃ f, fuel = f + 1 := ⟨fuel - 1, by simp only [SData.size] at hs; omega⟩
    rw [serOwnedData, enc, decOwnedData, hv 32 _ _ (.inl rfl) (by decide)]
    simp only [dataIdxOwned, dataKindOfIdxOwned]
  | .newtype t, fuel, rest, hs, hw => by
    obtain ⟨f, rfl⟩ : ∃ f, fuel = f + 1 := ⟨fuel - 1, by simp only [SData.size] at hs; omega⟩
    simp only [SData.size, SData.wf] at hs hw
    rw [serOwnedData, enc, List.append_assoc, decOwnedData, hv 32 _ _ (.inl rfl) (by decide)]
    simp only [dataIdxOwned, dataKindOfIdxOwned]
    rw [rt_schema t f rest (by omega) hw]
  | .tuple ts, fuel, rest, hs, hw => by
    obtain ⟨f, rfl⟩ : ∃ f, fuel = f + 1 := ⟨fuel - 1, by simp only [SData.size] at hs; omega⟩
    simp only [SData.size, SData.wf, Bool.and_eq_true, decide_eq_true_eq] at hs hw
    rw [serOwnedData, enc, List.append_assoc, decOwnedData, hv 32 _ _ (.inl rfl) (by decide)]
    simp only [dataIdxOwned, dataKindOfIdxOwned]
    rw [decBoxSlice_enc hv _ ts _ (serOwnedList_length ts) hw.1 rest
      (rt_list ts f rest (by omega) hw.2)]
  | .struct fs, fuel, rest, hs, hw => by
    obtain ⟨f, rfl⟩ : ∃ f, fuel = f + 1 := ⟨fuel - 1, by simp only [SData.size] at hs; omega⟩
    simp only [SData.size, SData.wf, Bool.and_eq_true, decide_eq_true_eq] at hs hw
    rw [serOwnedData, enc, List.append_assoc, decOwnedData, hv 32 _ _ (.inl rfl) (by decide)]
    simp only [dataIdxOwned, dataKindOfIdxOwned]
    rw [decBoxSlice_enc hv _ fs _ (serOwnedFields_length fs) hw.1 rest
      (rt_fields fs f rest (by omega) hw.2)]
theorem rt_fields : ∀ (fs : List SField) (fuel : Nat) (rest : List Byte),
    SField.sizeList fs ≤ fuel → SField.wfList fs = true →
    decElems (decField (decOwned fuel)) fs.length (encList (serOwnedFields fs) ++ rest)
      = .ok (fs, rest)
  | [], _, _, _, _ => by simp [serOwnedFields, encList, decElems]
  | .mk n t :: fs, fuel, rest, hs, hw => by
    simp only [SField.sizeList, SField.wfList, Bool.and_eq_true] at hs hw
    simp only [serOwnedFields, encList, List.length_cons, decElems, List.append_assoc, decField]
    rw [enc]
    simp only [encList, List.append_nil, List.append_assoc]
    rw [decName_enc hv n hw.1.1]
    simp only []
    rw [rt_schema t fuel _ (by omega) hw.1.2]
    simp only []
    rw [rt_fields fs fuel rest (by omega) hw.2]
theorem rt_variants : ∀ (vs : List SVariant) (fuel : Nat) (rest : List Byte),
    SVariant.sizeList vs ≤ fuel → SVariant.wfList vs = true →
    decElems (decVariantEntry (decOwnedData fuel)) vs.length
      (encList (serOwnedVariants vs) ++ rest) = .ok (vs, rest)
  | [], _, _, _, _ => by simp [serOwnedVariants, encList, decElems]
  | .mk n d :: vs, fuel, rest, hs, hw => by
    simp only [SVariant.sizeList, SVariant.wfList, Bool.and_eq_true] at hs hw
    simp only [serOwnedVariants, encList, List.length_cons, decElems, List.append_assoc,
      decVariantEntry]
    rw [enc]
    simp only [encList, List.append_nil, List.append_assoc]
    rw [decName_enc hv n hw.1.1]
    simp only []
    rw [rt_data d fuel _ (by omega) hw.1.2]
    simp only []
    rw [rt_variants vs fuel rest (by omega) hw.2]
end
end RT

/-! ## Every node occupies at least one byte: `bs.length + 1` is enough fuel -/

theorem encVarint_length_pos (n : Nat) : 1 ≤ (encVarint 32 n).length := by
  simp only [encVarint, varintMax]
  rw [show (32 + (7 - 1)) / 7 = 4 + 1 from rfl, encVarintLoop]
  split <;> simp

mutual
theorem size_le_enc : ∀ s : Schema, s.size ≤ (enc (serOwned s)).length
  | .option t => by
    have := size_le_enc t; have := encVarint_length_pos (idxOwned .option)
    simp only [Schema.size, serOwned, enc, List.length_append]; omega
  | .seq t => by
    have := size_le_enc t; have := encVarint_length_pos (idxOwned .seq)
    simp only [Schema.size, serOwned, enc, List.length_append]; omega
  | .tuple ts => by
    have := sizeList_le_enc ts; have := encVarint_length_pos (idxOwned .tuple)
    simp only [Schema.size, serOwned, enc, List.length_append]; omega
  | .map k v => by
    have := size_le_enc k; have := size_le_enc v; have := encVarint_length_pos (idxOwned .map)
    simp only [Schema.size, serOwned, enc, encList, List.length_append, List.length_nil]; omega
  | .struct n d => by
    have := dataSize_le_enc d; have := encVarint_length_pos (idxOwned .struct)
    simp only [Schema.size, serOwned, enc, encList, List.length_append, List.length_nil]; omega
  | .enum n vs => by
    have := variantsSize_le_enc vs; have := encVarint_length_pos (idxOwned .enum)
    simp only [Schema.size, serOwned, enc, encList, List.length_append, List.length_nil]; omega
  | .bool | .i8 | .u8 | .i16 | .i32 | .i64 | .i128 | .u16 | .u32 | .u64 | .u128
  | .usize | .isize | .f32 | .f64 | .char | .string | .byteArray | .unit | .schema => by
    simp only [Schema.size, serOwned, enc]; exact encVarint_length_pos _
theorem sizeList_le_enc : ∀ ts : List Schema,
    Schema.sizeList ts ≤ (encList (serOwnedList ts)).length
  | [] => by simp [Schema.sizeList]
  | t :: ts => by
    have := size_le_enc t; have := sizeList_le_enc ts
    simp only [Schema.sizeList, serOwnedList, encList, List.length_append]; omega
theorem dataSize_le_enc : ∀ d : SData, d.size ≤ (enc (serOwnedData d)).length
  | .unit => by simp only [SData.size, serOwnedData, enc]; exact encVarint_length_pos _
  | .newtype t => by
    have := size_le_enc t; have := encVarint_length_pos (dataIdxOwned .newtype)
    simp only [SData.size, serOwnedData, enc, List.length_append]; omega
  | .tuple ts => by
    have := sizeList_le_enc ts; have := encVarint_length_pos (dataIdxOwned .tuple)
    simp only [SData.size, serOwnedData, enc, List.length_append]; omega
  | .struct fs => by
    have := fieldsSize_le_enc fs; have := encVarint_length_pos (dataIdxOwned .struct)
    simp only [SData.size, serOwnedData, enc, List.length_append]; omega
theorem fieldsSize_le_enc : ∀ fs : List SField,
    SField.sizeList fs ≤ (encList (serOwnedFields fs)).length
  | [] => by simp [SField.sizeList]
  | .mk n t :: fs => by
    have := size_le_enc t; have := fieldsSize_le_enc fs
    simp only [SField.sizeList, serOwnedFields, encList, enc, List.length_append,
      List.length_nil]; omega
theorem variantsSize_le_enc : ∀ vs : List SVariant,
    SVariant.sizeList vs ≤ (encList (serOwnedVariants vs)).length
  | [] => by simp [SVariant.sizeList]
  | .mk n d :: vs => by
    have := dataSize_le_enc d; have := variantsSize_le_enc vs
    simp only [SVariant.sizeList, serOwnedVariants, encList, enc, List.length_append,
      List.length_nil]; omega
end

end Postcard
