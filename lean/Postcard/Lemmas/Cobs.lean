import Postcard.Model.Cobs
import Postcard.Spec.Cobs
/-
  Postcard.Lemmas.Cobs — helper lemmas for properties C06 and C07
  (COBS framing).  Core Lean only.

  Contents
    1. reference codec (`Spec.cobsEncode` / `Spec.cobsDecode`): fuel
       irrelevance, unfolding equations, no interior zero, length, decode∘encode,
       `none` ↔ `CodeOverrun`.
    2. `LawfulIdx` — the contract the `Cobs` modifier needs from its inner
       flavour — with instances for `AllocVec`, `HVec`, `Slice`; the main
       induction `cobs_extend_fin` (flavour = reference encoder).
    3. the in-place decoder: `copyLoop_spec`, `decodeLoop_spec` (loop invariant
       against the reference decoder), `decodeRawSt_spec`, and the derived
       descriptions of `fromBytesCobs` / `takeFromBytesCobs`.
    4. `EncSt.Inv` (no `u8` overflow) and `LawfulIdx.Total` / `CobsInv`
       (no `IndexMut` panic when the storage runs full).
-/
namespace Postcard
open Spec

/-! ## Spec-level lemmas -/

theorem cobsDecodeAux_fuel : ∀ (n k : Nat) (f : List Byte), f.length < n → f.length < k →
    cobsDecodeAux n f = cobsDecodeAux k f := by
  intro n
  induction n with
  | zero => intro k f h; omega
  | succ n ih =>
    intro k f hn hk
    cases k with
    | zero => omega
    | succ k =>
      cases f with
      | nil => simp [cobsDecodeAux]
      | cons c rest =>
        simp only [cobsDecodeAux]
        have hl : (rest.drop (c.toNat - 1)).length ≤ rest.length := by simp
        simp only [List.length_cons] at hn hk
        rw [ih k (rest.drop (c.toNat - 1)) (by omega) (by omega)]

theorem cobsDecode_nil : cobsDecode [] = some [] := by simp [cobsDecode, cobsDecodeAux]

theorem cobsDecode_cons (c : Byte) (rest : List Byte) :
    cobsDecode (c :: rest) =
      if c = 0 then none
      else if rest.length < c.toNat - 1 then none
      else
        match cobsDecode (rest.drop (c.toNat - 1)) with
        | none => none
        | some out => some (rest.take (c.toNat - 1) ++
            (if c ≠ 0xFF ∧ rest.drop (c.toNat - 1) ≠ [] then [0] else []) ++ out) := by
  have hl : (rest.drop (c.toNat - 1)).length ≤ rest.length := by simp
  simp only [cobsDecode, cobsDecodeAux, List.length_cons]
  rw [cobsDecodeAux_fuel (rest.length + 1) ((rest.drop (c.toNat - 1)).length + 1) _ (by omega) (by omega)]
  rfl

/-! ### code bytes -/
private theorem code_toNat {n : Nat} (h : n < 256) : (UInt8.ofNat n).toNat = n := by
  rw [UInt8.toNat_ofNat']; omega

private theorem code_ne_zero {n : Nat} (h : n + 1 < 256) : UInt8.ofNat (n + 1) ≠ 0 := by
  intro hc
  have := congrArg UInt8.toNat hc
  rw [code_toNat h] at this
  simp at this

private theorem code_ne_ff {n : Nat} (h : n + 1 < 255) : UInt8.ofNat (n + 1) ≠ 0xFF := by
  intro hc
  have := congrArg UInt8.toNat hc
  rw [code_toNat (by omega)] at this
  simp at this
  omega

/-! ### encoder: shape, no interior zero, length -/
theorem cobsEncodeGo_ne_nil (run m : List Byte) : cobsEncodeGo run m ≠ [] := by
  induction m generalizing run with
  | nil => simp [cobsEncodeGo]
  | cons b m ih =>
    simp only [cobsEncodeGo]
    split
    · simp
    · split
      · simp
      · exact ih _

theorem cobsEncode_ne_nil (m : List Byte) : cobsEncode m ≠ [] := cobsEncodeGo_ne_nil [] m

theorem cobsEncodeGo_no_zero (m : List Byte) : ∀ (run : List Byte), run.length ≤ 253 →
    (∀ b ∈ run, b ≠ 0) → ∀ b ∈ cobsEncodeGo run m, b ≠ 0 := by
  induction m with
  | nil =>
    intro run hl hz b hb
    simp only [cobsEncodeGo, List.mem_cons] at hb
    rcases hb with rfl | hb
    · exact code_ne_zero (by omega)
    · exact hz b hb
  | cons a m ih =>
    intro run hl hz b hb
    simp only [cobsEncodeGo] at hb
    split at hb
    · simp only [List.cons_append, List.mem_cons, List.mem_append] at hb
      rcases hb with rfl | hb | hb
      · exact code_ne_zero (by omega)
      · exact hz b hb
      · exact ih [] (by simp) (by simp) b hb
    · rename_i ha
      split at hb
      · simp only [List.cons_append, List.mem_cons, List.mem_append,
          List.mem_nil_iff, or_false] at hb
        rcases hb with rfl | (hb | rfl) | hb
        · decide
        · exact hz b hb
        · exact ha
        · exact ih [] (by simp) (by simp) b hb
      · rename_i hne
        refine ih (run ++ [a]) (by simp; omega) ?_ b hb
        intro x hx
        simp only [List.mem_append, List.mem_singleton] at hx
        rcases hx with hx | rfl
        · exact hz x hx
        · exact ha

theorem cobsEncodeGo_length (m : List Byte) : ∀ (run : List Byte),
    (cobsEncodeGo run m).length = run.length + m.length + 1 + fullBlocksGo run.length m := by
  induction m with
  | nil => intro run; simp [cobsEncodeGo, fullBlocksGo]
  | cons a m ih =>
    intro run
    simp only [cobsEncodeGo, fullBlocksGo]
    split
    · simp [ih]; omega
    · split
      · simp [ih]; omega
      · rw [ih]; simp; omega

theorem fullBlocksGo_le (m : List Byte) : ∀ k, k ≤ 253 →
    fullBlocksGo k m ≤ (k + m.length) / 254 := by
  induction m with
  | nil => intro k _; simp [fullBlocksGo]
  | cons a m ih =>
    intro k hk
    simp only [fullBlocksGo, List.length_cons]
    split
    · have := ih 0 (by omega); omega
    · split
      · have := ih 0 (by omega); omega
      · have := ih (k + 1) (by omega); omega

theorem fullBlocksGo_eq (m : List Byte) : ∀ k, k ≤ 253 → (∀ b ∈ m, b ≠ 0) →
    fullBlocksGo k m = (k + m.length) / 254 := by
  induction m with
  | nil => intro k hk _; simp [fullBlocksGo]; omega
  | cons a m ih =>
    intro k hk hz
    have ha : a ≠ 0 := hz a (by simp)
    have hz' : ∀ b ∈ m, b ≠ 0 := fun b hb => hz b (by simp [hb])
    simp only [fullBlocksGo, List.length_cons, if_neg ha]
    split
    · have := ih 0 (by omega) hz'; omega
    · have := ih (k + 1) (by omega) hz'; omega

/-! ### spec decoder inverts spec encoder -/
theorem cobsDecode_block (c : Byte) (data tl : List Byte) (hc : c ≠ 0)
    (hlen : c.toNat - 1 = data.length) :
    cobsDecode (c :: (data ++ tl)) =
      match cobsDecode tl with
      | none => none
      | some out => some (data ++ (if c ≠ 0xFF ∧ tl ≠ [] then [0] else []) ++ out) := by
  rw [cobsDecode_cons, if_neg hc, hlen, if_neg (by simp), List.drop_left' rfl, List.take_left' rfl]

theorem cobsDecode_encodeGo (m : List Byte) : ∀ (run : List Byte), run.length ≤ 253 →
    cobsDecode (cobsEncodeGo run m) = some (run ++ m) := by
  induction m with
  | nil =>
    intro run hl
    have h := cobsDecode_block (UInt8.ofNat (run.length + 1)) run [] (code_ne_zero (by omega))
      (by rw [code_toNat (by omega)]; omega)
    simp only [List.append_nil, cobsDecode_nil] at h
    simp only [cobsEncodeGo, h]
    simp
  | cons a m ih =>
    intro run hl
    simp only [cobsEncodeGo]
    split
    · rename_i ha
      subst ha
      rw [List.cons_append, cobsDecode_block _ run _ (code_ne_zero (by omega))
        (by rw [code_toNat (by omega)]; omega), ih [] (by simp)]
      have hff := code_ne_ff (n := run.length) (by omega)
      simp only [ne_eq, hff, not_false_eq_true, cobsEncodeGo_ne_nil, and_self, if_true]
      simp
    · split
      · rename_i h253
        rw [List.cons_append, cobsDecode_block _ (run ++ [a]) _ (by decide)
          (by simp [h253]), ih [] (by simp)]
        simp
      · rw [ih (run ++ [a]) (by simp; omega)]
        simp

theorem cobsDecode_length_le : ∀ (n : Nat) (f p : List Byte), f.length < n →
    cobsDecode f = some p → p.length ≤ f.length := by
  intro n
  induction n with
  | zero => intro f p h; omega
  | succ n ih =>
    intro f p hn h
    cases f with
    | nil => simp [cobsDecode_nil] at h; simp [← h]
    | cons c rest =>
      rw [cobsDecode_cons] at h
      split at h
      · simp at h
      · split at h
        · simp at h
        · rename_i hk
          have hl : (rest.drop (c.toNat - 1)).length = rest.length - (c.toNat - 1) := by simp
          split at h
          · simp at h
          · rename_i out hout
            have := ih _ _ (by simp only [List.length_cons] at hn; omega) hout
            simp only [Option.some.injEq] at h
            subst h
            simp only [List.length_append, List.length_take, List.length_cons]
            have : (if c ≠ 0xFF ∧ rest.drop (c.toNat - 1) ≠ [] then [(0 : Byte)] else []).length ≤ 1 := by
              split <;> simp
            omega

theorem cobsDecode_none_iff : ∀ (n : Nat) (f : List Byte), f.length < n → (∀ b ∈ f, b ≠ 0) →
    (cobsDecode f = none ↔ CodeOverrun f) := by
  intro n
  induction n with
  | zero => intro f h; omega
  | succ n ih =>
    intro f hn hz
    cases f with
    | nil =>
      simp only [cobsDecode_nil, reduceCtorEq, false_iff]
      intro h; cases h
    | cons c rest =>
      have hc : c ≠ 0 := hz c (by simp)
      rw [cobsDecode_cons, if_neg hc]
      split
      · rename_i hk
        simp only [true_iff]
        exact CodeOverrun.here hk
      · rename_i hk
        have hl : (rest.drop (c.toNat - 1)).length = rest.length - (c.toNat - 1) := by simp
        have hih := ih (rest.drop (c.toNat - 1)) (by simp only [List.length_cons] at hn; omega)
          (fun b hb => hz b (List.mem_cons_of_mem _ (List.mem_of_mem_drop hb)))
        constructor
        · intro h
          refine CodeOverrun.later (by omega) (hih.mp ?_)
          split at h
          · assumption
          · simp at h
        · intro h
          cases h with
          | here h' => omega
          | later _ h' => rw [hih.mpr h']


/-! ## list helpers -/
private theorem take_set_succ {α} (l : List α) (i : Nat) (x : α) (h : i < l.length) :
    (l.set i x).take (i + 1) = l.take i ++ [x] := by
  induction l generalizing i with
  | nil => simp at h
  | cons a l ih =>
    cases i with
    | zero => simp
    | succ i => simp at h; simp [ih i h]

private theorem set_append_cons {α} (done : List α) (ph x : α) (run : List α) :
    (done ++ ph :: run).set done.length x = done ++ x :: run := by
  induction done with
  | nil => simp
  | cons a l ih => simp [ih]

/-! ## `LawfulIdx`: the contract the COBS modifier needs from its inner flavour -/
structure LawfulIdx {σ : Type} (F : Flavor σ (List Byte)) where
  /-- the bytes accepted so far (= what `finalize` will hand out) -/
  log : σ → List Byte
  /-- `room s n`: at least `n` more bytes can be pushed -/
  room : σ → Nat → Prop
  push_ok : ∀ s n b, room s (n + 1) →
    ∃ s', F.tryPush s b = (s', none) ∧ log s' = log s ++ [b] ∧ room s' n
  setAt_ok : ∀ s i b, i < (log s).length →
    ∃ s', F.setAt s i b = some s' ∧ log s' = (log s).set i b ∧ ∀ n, room s n → room s' n
  finalize_ok : ∀ s, (F.finalize s).2 = .ok (log s)

def LawfulIdx.allocVec : LawfulIdx AllocVec where
  log s := s
  room _ _ := True
  push_ok s n b _ := ⟨s ++ [b], rfl, rfl, trivial⟩
  setAt_ok s i b h := ⟨s.set i b, by simp [AllocVec, h], rfl, fun _ _ => trivial⟩
  finalize_ok _ := rfl

def LawfulIdx.hvec : LawfulIdx HVec where
  log s := s.vec
  room s n := s.vec.length + n ≤ s.cap
  push_ok s n b h := by
    refine ⟨{ s with vec := s.vec ++ [b] }, ?_, rfl, ?_⟩
    · have : s.vec.length < s.cap := by omega
      simp [HVec, this]
    · simp; omega
  setAt_ok s i b h := by
    refine ⟨{ s with vec := s.vec.set i b }, ?_, rfl, ?_⟩
    · simp [HVec, h]
    · intro n hn; simpa using hn
  finalize_ok _ := rfl

def LawfulIdx.slice : LawfulIdx Slice where
  log s := s.mem.take s.cursor
  room s n := s.cursor + n ≤ s.mem.length
  push_ok s n b h := by
    refine ⟨{ mem := s.mem.set s.cursor b, cursor := s.cursor + 1 }, ?_, ?_, ?_⟩
    · have : s.cursor ≠ s.mem.length := by omega
      simp [Slice, this]
    · exact take_set_succ _ _ _ (by omega)
    · simp; omega
  setAt_ok s i b h := by
    have hi : i < s.mem.length := by simp at h; omega
    refine ⟨{ s with mem := s.mem.set i b }, ?_, ?_, ?_⟩
    · simp [Slice, hi]
    · simp [List.take_set]
    · intro n hn; simpa using hn
  finalize_ok _ := rfl

/-! ## the flavour computes the reference encoding -/
section flavour
variable {σ : Type} {F : Flavor σ (List Byte)}

/-- arm `ModifyFromStartAndSkip` / finalize: patch the code byte, push one byte. -/
theorem LawfulIdx.patch_push (L : LawfulIdx F) (s : σ) (done run : List Byte) (ph code b : Byte) (n : Nat)
    (hlog : L.log s = done ++ ph :: run) (hroom : L.room s (n + 1)) :
    ∃ s1 s2, F.setAt s done.length code = some s1 ∧ F.tryPush s1 b = (s2, none) ∧
      L.log s2 = done ++ code :: run ++ [b] ∧ L.room s2 n := by
  obtain ⟨s1, h1, hl1, hr1⟩ := L.setAt_ok s done.length code (by rw [hlog]; simp)
  obtain ⟨s2, h2, hl2, hr2⟩ := L.push_ok s1 n b (hr1 _ hroom)
  refine ⟨s1, s2, h1, h2, ?_, hr2⟩
  rw [hl2, hl1, hlog, set_append_cons]

theorem cobs_extend_fin (L : LawfulIdx F) (m : List Byte) :
    ∀ (s : σ) (e : EncSt) (done run : List Byte) (ph : Byte) (n : Nat),
      L.log s = done ++ ph :: run → run.length ≤ 253 →
      e.codeIdx = done.length → e.numBtSent = run.length + 1 → e.offsetIdx = run.length + 1 →
      (cobsEncodeGo run m).length = n + run.length → L.room s n →
      ∃ st st', defaultExtend (Cobs.push F) (s, e) m = (st, none) ∧
        Cobs.fin F st = (st', .ok (done ++ cobsEncodeGo run m ++ [0])) := by
  induction m with
  | nil =>
    intro s e done run ph n hlog hl hci hnb hoi hn hroom
    simp only [cobsEncodeGo, List.length_cons] at hn
    have hn' : n = 0 + 1 := by omega
    subst hn'
    obtain ⟨s1, s2, h1, h2, hl2, _⟩ :=
      L.patch_push s done run ph (UInt8.ofNat (run.length + 1)) 0 0 hlog hroom
    refine ⟨(s, e), ((F.finalize s2).1, e), rfl, ?_⟩
    have hf := L.finalize_ok s2
    simp only [Cobs.fin, EncSt.finalize, hci, hnb, h1, h2, cobsEncodeGo]
    rw [Prod.mk.injEq]
    refine ⟨rfl, ?_⟩
    rw [hf, hl2]
  | cons a m ih =>
    intro s e done run ph n hlog hl hci hnb hoi hn hroom
    simp only [defaultExtend]
    by_cases ha : a = 0
    · -- a zero byte closes the block
      subst ha
      simp only [cobsEncodeGo, if_true, List.length_cons, List.length_append] at hn
      have hn' : n = (cobsEncodeGo [] m).length + 1 := by omega
      subst hn'
      obtain ⟨s1, s2, h1, h2, hl2, hr2⟩ :=
        L.patch_push s done run ph (UInt8.ofNat (run.length + 1)) 0 _ hlog hroom
      have hstep : Cobs.push F (s, e) 0 =
          ((s2, { codeIdx := e.codeIdx + e.offsetIdx, numBtSent := 1, offsetIdx := 1 }), none) := by
        simp only [Cobs.push, EncSt.push, if_true, hci, hnb, h1, h2]
      rw [hstep]
      dsimp only
      obtain ⟨st, st', hx, hfin⟩ := ih s2
        { codeIdx := e.codeIdx + e.offsetIdx, numBtSent := 1, offsetIdx := 1 }
        (done ++ UInt8.ofNat (run.length + 1) :: run) [] 0 _
        (by rw [hl2]; try simp) (by simp) (by simp [hci, hoi] <;> omega) rfl rfl (by simp) hr2
      refine ⟨st, st', hx, ?_⟩
      rw [hfin]
      simp [cobsEncodeGo]
    · by_cases h253 : run.length = 253
      · -- the 254th non-zero byte closes a 0xFF block
        simp only [cobsEncodeGo, if_neg ha, if_pos h253, List.length_cons, List.length_append,
          List.length_nil] at hn
        have hn' : n = ((cobsEncodeGo [] m).length + 1) + 1 := by omega
        subst hn'
        obtain ⟨s1, s2, h1, h2, hl2, hr2⟩ :=
          L.patch_push s done run ph (UInt8.ofNat 255) a _ hlog hroom
        obtain ⟨s3, h3, hl3, hr3⟩ := L.push_ok s2 _ 0 hr2
        have hnbs : (e.numBtSent + 1) % 256 = 255 := by omega
        have hstep : Cobs.push F (s, e) a =
            ((s3, { codeIdx := e.codeIdx + (e.offsetIdx + 1) % 256, numBtSent := 1, offsetIdx := 1 }),
              none) := by
          simp only [Cobs.push, EncSt.push, if_neg ha, hnbs, if_true, hci, h1, h2, h3]
        rw [hstep]
        dsimp only
        have hff : UInt8.ofNat 255 = (0xFF : Byte) := rfl
        obtain ⟨st, st', hx, hfin⟩ := ih s3
          { codeIdx := e.codeIdx + (e.offsetIdx + 1) % 256, numBtSent := 1, offsetIdx := 1 }
          (done ++ 0xFF :: (run ++ [a])) [] 0 _
          (by rw [hl3, hl2, hff]; simp) (by simp) (by simp [hci, hoi, h253]) rfl rfl (by simp) hr3
        refine ⟨st, st', hx, ?_⟩
        rw [hfin]
        simp [cobsEncodeGo, ha, h253]
      · -- an ordinary data byte
        simp only [cobsEncodeGo, if_neg ha, if_neg h253] at hn
        have hlen := cobsEncodeGo_length m (run ++ [a])
        simp only [List.length_append, List.length_cons, List.length_nil] at hn hlen
        have hn' : n = (n - 1) + 1 := by omega
        rw [hn'] at hroom
        obtain ⟨s1, h1, hl1, hr1⟩ := L.push_ok s _ a hroom
        have hnbs : (e.numBtSent + 1) % 256 = run.length + 2 := by omega
        have hoff : (e.offsetIdx + 1) % 256 = run.length + 2 := by omega
        have hne : ¬ (255 = run.length + 2) := by omega
        have hstep : Cobs.push F (s, e) a =
            ((s1, { codeIdx := e.codeIdx, numBtSent := run.length + 2, offsetIdx := run.length + 2 }),
              none) := by
          simp only [Cobs.push, EncSt.push, if_neg ha, hnbs, hoff, hne, if_false, h1]
        rw [hstep]
        dsimp only
        obtain ⟨st, st', hx, hfin⟩ := ih s1
          { codeIdx := e.codeIdx, numBtSent := run.length + 2, offsetIdx := run.length + 2 }
          done (run ++ [a]) ph (n - 1)
          (by rw [hl1, hlog]; simp) (by simp; omega) hci (by simp) (by simp)
          (by simp only [List.length_append, List.length_cons, List.length_nil]; omega) hr1
        refine ⟨st, st', hx, ?_⟩
        rw [hfin]
        simp [cobsEncodeGo, ha, h253]
end flavour

/-! ### call sequences (`Chunk`s) reduce to byte-wise pushes -/
private theorem defaultExtend_append {σ : Type} (push : σ → Byte → σ × Option Err) (a b : List Byte) :
    ∀ s, defaultExtend push s (a ++ b) =
      match defaultExtend push s a with
      | (s', none) => defaultExtend push s' b
      | (s', some e) => (s', some e) := by
  induction a with
  | nil => intro s; simp [defaultExtend]
  | cons x a ih =>
    intro s
    simp only [List.cons_append, defaultExtend]
    rcases hp : push s x with ⟨s', _ | e⟩
    · simp only [ih]
    · simp

/-- feeding a call sequence to the COBS modifier = pushing its bytes one by one
(`Cobs` inherits the byte-wise default `try_extend`). -/
theorem cobs_feed_eq {σ ω : Type} (F : Flavor σ ω) (cs : List Chunk) : ∀ st,
    (Cobs F).feed st cs = defaultExtend (Cobs.push F) st (cs.flatMap Chunk.bytes) := by
  induction cs with
  | nil => intro st; simp [Flavor.feed, defaultExtend]
  | cons c cs ih =>
    intro st
    simp only [Flavor.feed, List.flatMap_cons, defaultExtend_append]
    cases c with
    | push b =>
      simp only [Flavor.step, Chunk.bytes, Cobs, defaultExtend]
      rcases hp : Cobs.push F st b with ⟨s', _ | e⟩
      · simp only []; exact ih s'
      · simp
    | extend bs =>
      simp only [Flavor.step, Chunk.bytes, Cobs]
      rcases hp : defaultExtend (Cobs.push F) st bs with ⟨s', _ | e⟩
      · simp only []; exact ih s'
      · simp

theorem cobs_flavor_eq_spec_gen {σ : Type} {F : Flavor σ (List Byte)} (L : LawfulIdx F) (s0 : σ)
    (cs : List Chunk) (m : List Byte) (hm : cs.flatMap Chunk.bytes = m)
    (h0 : L.log s0 = []) (hroom : L.room s0 ((cobsEncode m).length + 1)) :
    ∃ st1 st2 st3, Cobs.tryNew F s0 = (st1, none) ∧ (Cobs F).feed st1 cs = (st2, none) ∧
      (Cobs F).finalize st2 = (st3, .ok (cobsEncode m ++ [0])) := by
  obtain ⟨s1, h1, hl1, hr1⟩ := L.push_ok s0 _ 0 hroom
  obtain ⟨st, st', hx, hfin⟩ := cobs_extend_fin L m s1 EncSt.default [] [] 0 (cobsEncode m).length
    (by rw [hl1, h0]) (by simp) rfl rfl rfl (by simp [cobsEncode]) hr1
  refine ⟨(s1, EncSt.default), st, st', ?_, ?_, ?_⟩
  · simp [Cobs.tryNew, h1]
  · rw [cobs_feed_eq, hm, hx]
  · simpa [Cobs, cobsEncode] using hfin

/-! ## the in-place decoder -/

private theorem getElem?_of_drop_eq_cons {α} {l : List α} {i : Nat} {x : α} {t : List α}
    (h : l.drop i = x :: t) : l[i]? = some x ∧ i < l.length ∧ l.drop (i + 1) = t := by
  have h0 : (l.drop i)[0]? = some x := by rw [h]; rfl
  rw [List.getElem?_drop] at h0
  have hlt : i < l.length := by
    have := (List.getElem?_eq_some_iff.mp h0).1
    omega
  refine ⟨by simpa using h0, hlt, ?_⟩
  have : l.drop (i + 1) = (l.drop i).drop 1 := by rw [List.drop_drop]
  rw [this, h]; rfl

theorem copyLoop_spec : ∀ (n : Nat) (cur : List Byte) (si di : Nat) (data post : List Byte),
    cur.drop si = data ++ post → data.length = n → di < si →
    ∃ cur', copyLoop n cur si di = (cur', .ok (si + n, di + n)) ∧
      cur'.take (di + n) = cur.take di ++ data ∧ cur'.drop (si + n) = post ∧
      cur'.length = cur.length := by
  intro n
  induction n with
  | zero =>
    intro cur si di data post h hn hd
    have : data = [] := List.eq_nil_of_length_eq_zero hn
    subst this
    exact ⟨cur, rfl, by simp, by simpa using h, rfl⟩
  | succ n ih =>
    intro cur si di data post h hn hd
    cases data with
    | nil => simp at hn
    | cons d data =>
      obtain ⟨hget, hlt, hdrop⟩ := getElem?_of_drop_eq_cons (by simpa using h)
      have hdl : di < cur.length := by omega
      obtain ⟨cur', hc, ht, hdr, hlen⟩ := ih (cur.set di d) (si + 1) (di + 1) data post
        (by rw [List.drop_set_of_lt (by omega), hdrop]) (by simpa using hn) (by omega)
      refine ⟨cur', ?_, ?_, ?_, ?_⟩
      · simp only [copyLoop, hget, if_pos hdl, hc]
        congr 3 <;> omega
      · have e1 : di + (n + 1) = di + 1 + n := by omega
        rw [e1, ht, take_set_succ _ _ _ hdl]; simp
      · have e1 : si + (n + 1) = si + 1 + n := by omega
        rw [e1, hdr]
      · rw [hlen]; simp

theorem cobsDecode_cons_ok (c : Byte) (rest : List Byte) (hc : c ≠ 0)
    (hk : ¬ rest.length < c.toNat - 1) :
    cobsDecode (c :: rest) = (cobsDecode (rest.drop (c.toNat - 1))).map (fun out =>
      rest.take (c.toNat - 1) ++
        (if c ≠ 0xFF ∧ rest.drop (c.toNat - 1) ≠ [] then [0] else []) ++ out) := by
  rw [cobsDecode_cons, if_neg hc, if_neg hk]
  cases cobsDecode (rest.drop (c.toNat - 1)) <;> rfl

theorem cobsDecode_cons_over (c : Byte) (rest : List Byte)
    (hk : rest.length < c.toNat - 1) : cobsDecode (c :: rest) = none := by
  rw [cobsDecode_cons, if_pos hk]; simp

private theorem drop_add_of_drop_eq {α} {l a b : List α} {i : Nat} (h : l.drop i = a ++ b) :
    l.drop (i + a.length) = b := by
  rw [← List.drop_drop, h, List.drop_left' rfl]

/-- result shape of the decode loop, relative to the reference decoder on the
unread part `frem` of the frame body. -/
def LoopPost (cur : List Byte) (di srcEnd : Nat) (frem tail : List Byte)
    (res : List Byte × R (Nat × Nat)) : Prop :=
  res.1.length = cur.length ∧ res.1.drop srcEnd = tail ∧
  (cobsDecode frem = none → res.2 = .error .badEncoding) ∧
  (∀ p, cobsDecode frem = some p →
    res.2 = .ok (di + p.length, srcEnd) ∧ res.1.take (di + p.length) = cur.take di ++ p)

theorem decodeLoop_spec : ∀ (fuel : Nat) (cur : List Byte) (si di srcEnd : Nat)
    (frem tail : List Byte),
    cur.drop si = frem ++ tail → srcEnd = si + frem.length → di ≤ si →
    (∀ b ∈ frem, b ≠ 0) → frem.length < fuel →
    LoopPost cur di srcEnd frem tail (decodeLoop srcEnd fuel cur si di) := by
  intro fuel
  induction fuel with
  | zero => intro cur si di srcEnd frem tail _ _ _ _ h; omega
  | succ fuel ih =>
    intro cur si di srcEnd frem tail hdrop hend hdi hz hfuel
    cases frem with
    | nil =>
      have hlt : ¬ si < srcEnd := by simp at hend; omega
      simp only [decodeLoop, if_neg hlt]
      refine ⟨rfl, by simp at hend; simpa [hend] using hdrop, by simp [cobsDecode_nil], ?_⟩
      intro p hp
      simp only [cobsDecode_nil, Option.some.injEq] at hp
      subst hp
      simp at hend
      simp [hend]
    | cons c rest =>
      have hc : c ≠ 0 := hz c (by simp)
      have hcn : c.toNat ≠ 0 := by
        intro h0; apply hc; exact UInt8.toNat_inj.mp (by simpa using h0)
      obtain ⟨hget, hsilt, hdrop1⟩ := getElem?_of_drop_eq_cons (by simpa using hdrop)
      simp only [List.length_cons] at hend hfuel
      have hlt : si < srcEnd := by omega
      simp only [decodeLoop, if_pos hlt, hget]
      by_cases hover : rest.length < c.toNat - 1
      · -- the code byte points past the end of the body
        have hc1 : c ≠ 1 := by
          intro h1; rw [h1] at hover; simp at hover
        have hcond : si + c.toNat > srcEnd ∧ c ≠ 1 := ⟨by omega, hc1⟩
        simp only [if_pos hcond]
        refine ⟨rfl, ?_, fun _ => rfl, ?_⟩
        · have := drop_add_of_drop_eq hdrop1
          have e : srcEnd = si + 1 + rest.length := by omega
          rw [e]; exact this
        · intro p hp; rw [cobsDecode_cons_over c rest hover] at hp; simp at hp
      · have hcond : ¬ (si + c.toNat > srcEnd ∧ c ≠ 1) := by
          intro h; omega
        simp only [if_neg hcond]
        have hspec := cobsDecode_cons_ok c rest hc hover
        have htl : (rest.drop (c.toNat - 1)).length = rest.length - (c.toNat - 1) := by simp
        have hdata : (rest.take (c.toNat - 1)).length = c.toNat - 1 := by simp; omega
        obtain ⟨buf1, hcopy, htake1, hdrop2, hlen1⟩ := copyLoop_spec (c.toNat - 1) cur (si + 1) di
          (rest.take (c.toNat - 1)) (rest.drop (c.toNat - 1) ++ tail)
          (by rw [hdrop1, ← List.append_assoc, List.take_append_drop]) hdata (by omega)
        simp only [hcopy]
        have hzf : ∀ b ∈ rest.drop (c.toNat - 1), b ≠ 0 :=
          fun b hb => hz b (List.mem_cons_of_mem _ (List.mem_of_mem_drop hb))
        by_cases hzero : 0xFF ≠ c ∧ si + 1 + (c.toNat - 1) < srcEnd
        · -- an implied zero follows the block
          have hdl : di + (c.toNat - 1) < buf1.length := by
            have : si + 1 + (c.toNat - 1) < buf1.length := by
              have h1 : (buf1.drop (si + 1 + (c.toNat - 1))).length ≠ 0 := by
                rw [hdrop2]; simp; omega
              simp at h1; omega
            omega
          simp only [if_pos hzero, if_pos hdl]
          have hne : rest.drop (c.toNat - 1) ≠ [] := by
            intro h; rw [h] at htl; simp at htl; omega
          have hzs : (c ≠ 0xFF ∧ rest.drop (c.toNat - 1) ≠ []) := ⟨fun h => hzero.1 h.symm, hne⟩
          rw [if_pos hzs] at hspec
          obtain ⟨hl, hd, hnone, hsome⟩ := ih (buf1.set (di + (c.toNat - 1)) 0)
            (si + 1 + (c.toNat - 1)) (di + (c.toNat - 1) + 1) srcEnd (rest.drop (c.toNat - 1)) tail
            (by rw [List.drop_set_of_lt (by omega), hdrop2]) (by omega) (by omega) hzf (by omega)
          refine ⟨by rw [hl]; simp [hlen1], hd, ?_, ?_⟩
          · intro h; rw [hspec] at h
            exact hnone (by simpa using h)
          · intro p hp
            rw [hspec] at hp
            obtain ⟨out, hout, rfl⟩ := Option.map_eq_some_iff.mp hp
            obtain ⟨h1, h2⟩ := hsome out hout
            have elen : di + (rest.take (c.toNat - 1) ++ [0] ++ out).length
                = di + (c.toNat - 1) + 1 + out.length := by
              simp only [List.length_append, hdata, List.length_cons, List.length_nil]; omega
            rw [elen]
            refine ⟨h1, ?_⟩
            rw [h2, take_set_succ _ _ _ hdl, htake1]
            simp
        · -- no implied zero: 0xFF block, or end of the body
          simp only [if_neg hzero]
          have hzs : ¬ (c ≠ 0xFF ∧ rest.drop (c.toNat - 1) ≠ []) := by
            intro ⟨h1, h2⟩
            apply hzero
            refine ⟨fun h => h1 h.symm, ?_⟩
            have : (rest.drop (c.toNat - 1)).length ≠ 0 := by
              intro h0; exact h2 (List.eq_nil_of_length_eq_zero h0)
            omega
          rw [if_neg hzs] at hspec
          obtain ⟨hl, hd, hnone, hsome⟩ := ih buf1
            (si + 1 + (c.toNat - 1)) (di + (c.toNat - 1)) srcEnd (rest.drop (c.toNat - 1)) tail
            hdrop2 (by omega) (by omega) hzf (by omega)
          refine ⟨by rw [hl, hlen1], hd, ?_, ?_⟩
          · intro h; rw [hspec] at h
            exact hnone (by simpa using h)
          · intro p hp
            rw [hspec] at hp
            obtain ⟨out, hout, rfl⟩ := Option.map_eq_some_iff.mp hp
            obtain ⟨h1, h2⟩ := hsome out hout
            have elen : di + (rest.take (c.toNat - 1) ++ [] ++ out).length
                = di + (c.toNat - 1) + out.length := by
              simp only [List.length_append, hdata, List.length_nil]; omega
            rw [elen]
            refine ⟨h1, ?_⟩
            rw [h2, htake1]
            simp

/-! ## whole-buffer statements: `decodeRawSt`, `fromBytesCobs`, `takeFromBytesCobs` -/

/-- the frame body of a buffer: everything strictly before the first zero. -/
abbrev frameBody (buf : List Byte) : List Byte := buf.takeWhile (· ≠ 0)

theorem frameBody_split (buf : List Byte) :
    buf.findIdx (· == 0) = (frameBody buf).length ∧ (∀ b ∈ frameBody buf, b ≠ 0) ∧
    buf = frameBody buf ++ buf.drop (frameBody buf).length ∧
    (buf.drop (frameBody buf).length = [] ∨ ∃ r, buf.drop (frameBody buf).length = 0 :: r) := by
  induction buf with
  | nil => simp [frameBody]
  | cons a buf ih =>
    by_cases ha : a = 0
    · subst ha; simp [frameBody, List.findIdx_cons]
    · obtain ⟨h1, h2, h3, h4⟩ := ih
      have hd : decide (a ≠ 0) = true := by simpa using ha
      have hb : (a == 0) = false := by simpa using ha
      simp only [frameBody, List.takeWhile_cons, hd, if_true, List.findIdx_cons, hb, cond_false,
        List.length_cons, List.drop_succ_cons, List.cons_append]
      refine ⟨by simpa [frameBody] using h1, ?_, ?_, h4⟩
      · intro b hb'
        rcases List.mem_cons.mp hb' with rfl | hb'
        · exact ha
        · exact h2 b hb'
      · exact congrArg (a :: ·) h3

theorem frameBody_length_le (buf : List Byte) : (frameBody buf).length ≤ buf.length := by
  have := (frameBody_split buf).2.2.1
  have h := congrArg List.length this
  simp only [List.length_append] at h
  omega

theorem decodeRawSt_spec (buf : List Byte) :
    LoopPost buf 0 (frameBody buf).length (frameBody buf) (buf.drop (frameBody buf).length)
      (decodeRawSt buf) := by
  obtain ⟨h1, h2, h3, _⟩ := frameBody_split buf
  have hle := frameBody_length_le buf
  unfold decodeRawSt
  rw [h1]
  exact decodeLoop_spec (buf.length + 1) buf 0 0 _ (frameBody buf) _ (by simpa using h3) (by simp)
    (by omega) h2 (by omega)

theorem decodeRawSt_none (buf : List Byte) (h : cobsDecode (frameBody buf) = none) :
    ∃ b1, decodeRawSt buf = (b1, .error .badEncoding) ∧ b1.length = buf.length ∧
      b1.drop (frameBody buf).length = buf.drop (frameBody buf).length := by
  obtain ⟨hl, hd, hn, _⟩ := decodeRawSt_spec buf
  exact ⟨(decodeRawSt buf).1, by rw [← hn h], hl, hd⟩

theorem decodeRawSt_some (buf p : List Byte) (h : cobsDecode (frameBody buf) = some p) :
    ∃ b1, decodeRawSt buf = (b1, .ok (p.length, (frameBody buf).length)) ∧ b1.take p.length = p ∧
      b1.length = buf.length ∧ b1.drop (frameBody buf).length = buf.drop (frameBody buf).length := by
  obtain ⟨hl, hd, _, hs⟩ := decodeRawSt_spec buf
  obtain ⟨h1, h2⟩ := hs p h
  refine ⟨(decodeRawSt buf).1, ?_, by simpa using h2, hl, hd⟩
  rw [← (by simpa using h1 : (decodeRawSt buf).2 = .ok (p.length, (frameBody buf).length))]

theorem cobsDecode_len_le {f p : List Byte} (h : cobsDecode f = some p) : p.length ≤ f.length :=
  cobsDecode_length_le (f.length + 1) f p (by omega) h

theorem fromBytesCobs_eq {α} (decF : List Byte → R α) (buf : List Byte) :
    (fromBytesCobs decF buf).1 =
      match cobsDecode (frameBody buf) with
      | none => .error .badEncoding
      | some p => decF p := by
  cases h : cobsDecode (frameBody buf) with
  | none =>
    obtain ⟨b1, hb, _, _⟩ := decodeRawSt_none buf h
    simp [fromBytesCobs, hb]
  | some p =>
    obtain ⟨b1, hb, ht, hl, _⟩ := decodeRawSt_some buf p h
    have := cobsDecode_len_le h
    have := frameBody_length_le buf
    have hle : p.length ≤ b1.length := by omega
    simp [fromBytesCobs, hb, hle, ht]

theorem takeFromBytesCobs_eq {α} (decF : List Byte → R α) (buf : List Byte) :
    (takeFromBytesCobs decF buf).1 =
      match cobsDecode (frameBody buf) with
      | none => .error .badEncoding
      | some p => (decF p).map (fun t => (t, buf.drop ((frameBody buf).length + 1))) := by
  cases h : cobsDecode (frameBody buf) with
  | none =>
    obtain ⟨b1, hb, _, _⟩ := decodeRawSt_none buf h
    simp [takeFromBytesCobs, hb]
  | some p =>
    obtain ⟨b1, hb, ht, hl, hd⟩ := decodeRawSt_some buf p h
    have hpf := cobsDecode_len_le h
    have hfb := frameBody_length_le buf
    have hget : b1[(frameBody buf).length]? = (buf.drop (frameBody buf).length)[0]? := by
      rw [← hd, List.getElem?_drop]; simp
    have hrem : ∀ k, b1.drop ((frameBody buf).length + k) = buf.drop ((frameBody buf).length + k) := by
      intro k; rw [← List.drop_drop, hd, List.drop_drop]
    simp only [takeFromBytesCobs, hb, hget]
    rcases (frameBody_split buf).2.2.2 with htl | ⟨r, htl⟩
    · -- no sentinel after the body
      have hlen : buf.length = (frameBody buf).length := by
        have := List.drop_eq_nil_iff.mp htl; omega
      have hnl : ¬ b1.length < p.length := by omega
      have hns : ¬ (frameBody buf).length < p.length := by omega
      have hnd : ¬ (b1.drop p.length).length < (frameBody buf).length - p.length := by
        simp only [List.length_drop]; omega
      have hrem0 := hrem 0
      have hrem1 := hrem 1
      simp only [Nat.add_zero] at hrem0
      have hd1 : buf.drop ((frameBody buf).length + 1) = [] := by
        apply List.drop_eq_nil_iff.mpr; omega
      simp only [htl, List.getElem?_nil, reduceCtorEq, if_false, if_neg hnl, if_neg hns, if_neg hnd,
        ht, List.drop_drop, hd1]
      have e : p.length + ((frameBody buf).length - p.length) = (frameBody buf).length := by omega
      rw [e, hrem0, htl]
      cases decF p <;> rfl
    · -- sentinel present: swallow it
      have hlen : (frameBody buf).length + 1 ≤ buf.length := by
        have h1 : (buf.drop (frameBody buf).length).length = r.length + 1 := by rw [htl]; simp
        simp only [List.length_drop] at h1; omega
      have hnl : ¬ b1.length < p.length := by omega
      have hns : ¬ (frameBody buf).length + 1 < p.length := by omega
      have hnd : ¬ (b1.drop p.length).length < (frameBody buf).length + 1 - p.length := by
        simp only [List.length_drop]; omega
      simp only [htl, List.getElem?_cons_zero, if_true, if_neg hnl, if_neg hns, if_neg hnd, ht,
        List.drop_drop]
      have e : p.length + ((frameBody buf).length + 1 - p.length) = (frameBody buf).length + 1 := by
        omega
      rw [e, hrem 1]
      cases decF p <;> rfl

/-! ### buffers that start with a reference frame -/
theorem frameBody_append_zero (e rest : List Byte) (hz : ∀ b ∈ e, b ≠ 0) :
    frameBody (e ++ 0 :: rest) = e := by
  induction e with
  | nil => simp [frameBody]
  | cons a e ih =>
    have ha : a ≠ 0 := hz a (by simp)
    have hd : decide (a ≠ 0) = true := by simpa using ha
    have := ih (fun b hb => hz b (by simp [hb]))
    simp only [frameBody, List.cons_append, List.takeWhile_cons, hd, if_true]
    exact congrArg (a :: ·) this

theorem frameBody_of_zero_free (e : List Byte) (hz : ∀ b ∈ e, b ≠ 0) : frameBody e = e := by
  induction e with
  | nil => simp [frameBody]
  | cons a e ih =>
    have ha : a ≠ 0 := hz a (by simp)
    have hd : decide (a ≠ 0) = true := by simpa using ha
    have := ih (fun b hb => hz b (by simp [hb]))
    simp only [frameBody, List.takeWhile_cons, hd, if_true]
    exact congrArg (a :: ·) this

theorem cobsEncode_no_zero (m : List Byte) : ∀ b ∈ cobsEncode m, b ≠ 0 :=
  cobsEncodeGo_no_zero m [] (by simp) (by simp)

theorem cobsDecode_encode (m : List Byte) : cobsDecode (cobsEncode m) = some m := by
  simpa [cobsEncode] using cobsDecode_encodeGo m [] (by simp)

/-! ### `EncoderState`: the `u8` counters never overflow -/
def EncSt.Inv (e : EncSt) : Prop := 1 ≤ e.numBtSent ∧ e.numBtSent ≤ 254 ∧ e.offsetIdx = e.numBtSent

theorem EncSt.inv_default : EncSt.default.Inv := by simp [EncSt.Inv, EncSt.default]

theorem EncSt.inv_push (e : EncSt) (b : Byte) (h : e.Inv) : (e.push b).1.Inv := by
  obtain ⟨h1, h2, h3⟩ := h
  unfold EncSt.push
  split
  · simp [EncSt.Inv]
  · simp only []
    split
    · simp [EncSt.Inv]
    · rename_i hne
      refine ⟨?_, ?_, ?_⟩ <;> simp only [] <;> omega

theorem EncSt.inv_reach (bs : List Byte) :
    (bs.foldl (fun e b => (e.push b).1) EncSt.default).Inv := by
  suffices ∀ e : EncSt, e.Inv → (bs.foldl (fun e b => (e.push b).1) e).Inv from
    this _ EncSt.inv_default
  induction bs with
  | nil => intro e h; exact h
  | cons b bs ih => intro e h; exact ih _ (EncSt.inv_push e b h)

/-! ## no `IndexMut` panic even when the inner flavour runs full -/

/-- total version of the push contract: in a `valid` state a push either
appends to the log or fails with `SerializeBufferFull` (never panics). -/
structure LawfulIdx.Total {σ : Type} {F : Flavor σ (List Byte)} (L : LawfulIdx F) where
  valid : σ → Prop
  push_total : ∀ s b, valid s →
    (∃ s', F.tryPush s b = (s', none) ∧ L.log s' = L.log s ++ [b] ∧ valid s') ∨
    (∃ s', F.tryPush s b = (s', some .bufferFull))
  setAt_valid : ∀ s i b s', valid s → F.setAt s i b = some s' → valid s'

def LawfulIdx.allocVecTotal : LawfulIdx.allocVec.Total where
  valid _ := True
  push_total s b _ := Or.inl ⟨s ++ [b], rfl, rfl, trivial⟩
  setAt_valid _ _ _ _ _ _ := trivial

def LawfulIdx.hvecTotal : LawfulIdx.hvec.Total where
  valid _ := True
  push_total s b _ := by
    by_cases h : s.vec.length < s.cap
    · exact Or.inl ⟨{ s with vec := s.vec ++ [b] }, by simp [HVec, h], rfl, trivial⟩
    · exact Or.inr ⟨s, by simp [HVec, h]⟩
  setAt_valid _ _ _ _ _ _ := trivial

def LawfulIdx.sliceTotal : LawfulIdx.slice.Total where
  valid s := s.cursor ≤ s.mem.length
  push_total s b hv := by
    by_cases h : s.cursor = s.mem.length
    · exact Or.inr ⟨s, by simp [Slice, h]⟩
    · refine Or.inl ⟨{ mem := s.mem.set s.cursor b, cursor := s.cursor + 1 }, by simp [Slice, h],
        ?_, ?_⟩
      · exact (LawfulIdx.slice.push_ok s 0 b (by show s.cursor + 1 ≤ s.mem.length; omega)).elim
          (fun s' hs => by
            have h1 : Slice.tryPush s b = ({ mem := s.mem.set s.cursor b, cursor := s.cursor + 1 }, none) := by
              simp [Slice, h]
            rw [h1] at hs
            have := hs.1
            simp only [Prod.mk.injEq, and_true] at this
            rw [this]; exact hs.2.1)
      · show s.cursor + 1 ≤ (s.mem.set s.cursor b).length
        simp; omega
  setAt_valid s i b s' hv h := by
    simp only [Slice] at h
    split at h
    · simp only [Option.some.injEq] at h
      subst h
      show s.cursor ≤ (s.mem.set i b).length
      simpa using hv
    · simp at h

section nopanic
variable {σ : Type} {F : Flavor σ (List Byte)}

/-- invariant of the COBS flavour state: the current code byte's slot is
inside the log (it is the log position `offset_idx` from the end). -/
def CobsInv (L : LawfulIdx F) (T : L.Total) (st : σ × EncSt) : Prop :=
  T.valid st.1 ∧ st.2.Inv ∧ st.2.codeIdx + st.2.offsetIdx = (L.log st.1).length

theorem cobs_push_no_panic (L : LawfulIdx F) (T : L.Total) (st : σ × EncSt) (b : Byte)
    (h : CobsInv L T st) :
    (∃ st', Cobs.push F st b = (st', none) ∧ CobsInv L T st') ∨
    (∃ st', Cobs.push F st b = (st', some .bufferFull)) := by
  obtain ⟨s, e⟩ := st
  obtain ⟨hv, ⟨hi1, hi2, hi3⟩, hlen⟩ := h
  simp only [] at hv hi1 hi2 hi3 hlen
  by_cases hb : b = 0
  · subst hb
    obtain ⟨s1, h1, hl1, _⟩ := L.setAt_ok s e.codeIdx (UInt8.ofNat e.numBtSent) (by omega)
    have hv1 := T.setAt_valid _ _ _ _ hv h1
    rcases T.push_total s1 0 hv1 with ⟨s2, h2, hl2, hv2⟩ | ⟨s2, h2⟩
    · left
      refine ⟨(s2, _), by simp only [Cobs.push, EncSt.push, if_true, h1, h2]; rfl, hv2, ?_, ?_⟩
      · simp [EncSt.Inv]
      · simp only [hl2, hl1, List.length_append, List.length_set, List.length_cons, List.length_nil]
        omega
    · right
      exact ⟨(s2, _), by simp only [Cobs.push, EncSt.push, if_true, h1, h2]; rfl⟩
  · by_cases hff : 0xFF = (e.numBtSent + 1) % 256
    · obtain ⟨s1, h1, hl1, _⟩ := L.setAt_ok s e.codeIdx (UInt8.ofNat ((e.numBtSent + 1) % 256))
        (by omega)
      have hv1 := T.setAt_valid _ _ _ _ hv h1
      rcases T.push_total s1 b hv1 with ⟨s2, h2, hl2, hv2⟩ | ⟨s2, h2⟩
      · rcases T.push_total s2 0 hv2 with ⟨s3, h3, hl3, hv3⟩ | ⟨s3, h3⟩
        · left
          refine ⟨(s3, _), by simp only [Cobs.push, EncSt.push, if_neg hb, if_pos hff, h1, h2, h3]; rfl,
            hv3, ?_, ?_⟩
          · simp [EncSt.Inv]
          · simp only [hl3, hl2, hl1, List.length_append, List.length_set, List.length_cons,
              List.length_nil]
            omega
        · right
          exact ⟨(s3, _), by simp only [Cobs.push, EncSt.push, if_neg hb, if_pos hff, h1, h2, h3]; rfl⟩
      · right
        exact ⟨(s2, _), by simp only [Cobs.push, EncSt.push, if_neg hb, if_pos hff, h1, h2]; rfl⟩
    · rcases T.push_total s b hv with ⟨s1, h1, hl1, hv1⟩ | ⟨s1, h1⟩
      · left
        refine ⟨(s1, _), by simp only [Cobs.push, EncSt.push, if_neg hb, if_neg hff, h1]; rfl, hv1, ?_, ?_⟩
        · refine ⟨?_, ?_, ?_⟩ <;> simp only [] <;> omega
        · simp only [hl1, List.length_append, List.length_cons, List.length_nil]
          omega
      · right
        exact ⟨(s1, _), by simp only [Cobs.push, EncSt.push, if_neg hb, if_neg hff, h1]; rfl⟩

theorem cobs_extend_no_panic (L : LawfulIdx F) (T : L.Total) (m : List Byte) :
    ∀ st, CobsInv L T st →
    (∃ st', defaultExtend (Cobs.push F) st m = (st', none) ∧ CobsInv L T st') ∨
    (∃ st', defaultExtend (Cobs.push F) st m = (st', some .bufferFull)) := by
  induction m with
  | nil => intro st h; exact Or.inl ⟨st, rfl, h⟩
  | cons b m ih =>
    intro st h
    rcases cobs_push_no_panic L T st b h with ⟨st1, h1, hi1⟩ | ⟨st1, h1⟩
    · rcases ih st1 hi1 with ⟨st2, h2, hi2⟩ | ⟨st2, h2⟩
      · exact Or.inl ⟨st2, by simp only [defaultExtend, h1, h2], hi2⟩
      · exact Or.inr ⟨st2, by simp only [defaultExtend, h1, h2]⟩
    · exact Or.inr ⟨st1, by simp only [defaultExtend, h1]⟩

theorem cobs_fin_no_panic (L : LawfulIdx F) (T : L.Total) (st : σ × EncSt) (h : CobsInv L T st) :
    (∃ out, (Cobs.fin F st).2 = .ok out) ∨ (Cobs.fin F st).2 = .error .bufferFull := by
  obtain ⟨s, e⟩ := st
  obtain ⟨hv, ⟨hi1, hi2, hi3⟩, hlen⟩ := h
  simp only [] at hv hi1 hi2 hi3 hlen
  obtain ⟨s1, h1, hl1, _⟩ := L.setAt_ok s e.codeIdx (UInt8.ofNat e.numBtSent) (by omega)
  have hv1 := T.setAt_valid _ _ _ _ hv h1
  rcases T.push_total s1 0 hv1 with ⟨s2, h2, hl2, hv2⟩ | ⟨s2, h2⟩
  · left
    exact ⟨L.log s2, by simp only [Cobs.fin, EncSt.finalize, h1, h2]; exact L.finalize_ok s2⟩
  · right
    simp only [Cobs.fin, EncSt.finalize, h1, h2]

/-- the whole run `try_new; calls; finalize` on an initially empty, valid
inner flavour ends in `Ok(frame)` or `SerializeBufferFull` — never in a panic. -/
theorem cobs_run_no_panic (L : LawfulIdx F) (T : L.Total) (s0 : σ) (h0 : L.log s0 = [])
    (hv : T.valid s0) (cs : List Chunk) :
    (∃ st, Cobs.tryNew F s0 = (st, some .bufferFull)) ∨
    (∃ st1, Cobs.tryNew F s0 = (st1, none) ∧
      ((∃ st2, (Cobs F).feed st1 cs = (st2, some .bufferFull)) ∨
       (∃ st2, (Cobs F).feed st1 cs = (st2, none) ∧
         ((∃ out, ((Cobs F).finalize st2).2 = .ok out) ∨
          ((Cobs F).finalize st2).2 = .error .bufferFull)))) := by
  rcases T.push_total s0 0 hv with ⟨s1, h1, hl1, hv1⟩ | ⟨s1, h1⟩
  · right
    refine ⟨(s1, EncSt.default), by simp [Cobs.tryNew, h1], ?_⟩
    have hinv : CobsInv L T (s1, EncSt.default) :=
      ⟨hv1, EncSt.inv_default, by simp [hl1, h0, EncSt.default]⟩
    rw [cobs_feed_eq]
    rcases cobs_extend_no_panic L T _ _ hinv with ⟨st2, h2, hi2⟩ | ⟨st2, h2⟩
    · exact Or.inr ⟨st2, h2, cobs_fin_no_panic L T st2 hi2⟩
    · exact Or.inl ⟨st2, h2⟩
  · left
    exact ⟨(s1, EncSt.default), by simp [Cobs.tryNew, h1]⟩
end nopanic
end Postcard
