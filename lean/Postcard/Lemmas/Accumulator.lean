import Postcard.Model.Accumulator
/-
  Postcard.Lemmas.Accumulator — helper lemmas for Props/C08.lean and
  Props/C09.lean (accumulator state machine).
-/
namespace Postcard

variable {α : Type}

/-! ### `zeroPos` / `splitZero` -/

theorem splitZero_nil : splitZero [] = none := rfl

theorem splitZero_cons_zero (bs : List Byte) : splitZero (0 :: bs) = some ([0], bs) := by
  simp [splitZero, zeroPos]

theorem splitZero_cons_ne {b : Byte} (hb : b ≠ 0) (bs : List Byte) :
    splitZero (b :: bs) =
      match splitZero bs with
      | none => none
      | some (t, r) => some (b :: t, r) := by
  simp only [splitZero, zeroPos, if_neg hb]
  cases zeroPos bs <;> simp

/-- Every byte list either has no zero or splits at its first zero. -/
theorem zero_cases (w : List Byte) :
    (0 : Byte) ∉ w ∨ ∃ pre r, w = pre ++ 0 :: r ∧ (0 : Byte) ∉ pre := by
  induction w with
  | nil => left; simp
  | cons b bs ih =>
    by_cases hb : b = 0
    · right; exact ⟨[], bs, by simp [hb], by simp⟩
    · rcases ih with h | ⟨pre, r, h1, h2⟩
      · left
        simp only [List.mem_cons, not_or]
        exact ⟨fun h => hb h.symm, h⟩
      · right
        refine ⟨b :: pre, r, by simp [h1], ?_⟩
        simp only [List.mem_cons, not_or]
        exact ⟨fun h => hb h.symm, h2⟩

theorem splitZero_of_not_mem {w : List Byte} (h : (0 : Byte) ∉ w) : splitZero w = none := by
  induction w with
  | nil => rfl
  | cons b bs ih =>
    simp only [List.mem_cons, not_or] at h
    have hb : b ≠ 0 := fun e => h.1 e.symm
    rw [splitZero_cons_ne hb, ih h.2]

theorem splitZero_append_zero {pre : List Byte} (h : (0 : Byte) ∉ pre) (r : List Byte) :
    splitZero (pre ++ 0 :: r) = some (pre ++ [0], r) := by
  induction pre with
  | nil => simp [splitZero_cons_zero]
  | cons b bs ih =>
    simp only [List.mem_cons, not_or] at h
    have hb : b ≠ 0 := fun e => h.1 e.symm
    rw [List.cons_append, splitZero_cons_ne hb, ih h.2]
    rfl

theorem splitZero_none_iff {w : List Byte} : splitZero w = none ↔ (0 : Byte) ∉ w := by
  constructor
  · intro h
    rcases zero_cases w with h0 | ⟨pre, r, rfl, hp⟩
    · exact h0
    · rw [splitZero_append_zero hp] at h; cases h
  · exact splitZero_of_not_mem

theorem splitZero_some {w t r : List Byte} (h : splitZero w = some (t, r)) :
    ∃ pre, t = pre ++ [0] ∧ w = pre ++ 0 :: r ∧ (0 : Byte) ∉ pre := by
  rcases zero_cases w with h0 | ⟨pre, r', rfl, hp⟩
  · rw [splitZero_of_not_mem h0] at h; cases h
  · rw [splitZero_append_zero hp] at h
    simp only [Option.some.injEq, Prod.mk.injEq] at h
    obtain ⟨rfl, rfl⟩ := h
    exact ⟨pre, rfl, rfl, hp⟩

/-! ### `segs` -/

theorem segs_of_not_mem {c : List Byte} (h : (0 : Byte) ∉ c) (cur : List Byte) :
    segs cur c = ([], cur ++ c) := by
  induction c generalizing cur with
  | nil => simp [segs]
  | cons b bs ih =>
    simp only [List.mem_cons, not_or] at h
    have hb : b ≠ 0 := fun e => h.1 e.symm
    simp [segs, hb, ih h.2]

theorem segs_append_zero {pre : List Byte} (h : (0 : Byte) ∉ pre) (cur r : List Byte) :
    segs cur (pre ++ 0 :: r) = ((cur ++ pre) :: (segs [] r).1, (segs [] r).2) := by
  induction pre generalizing cur with
  | nil => simp [segs]
  | cons b bs ih =>
    simp only [List.mem_cons, not_or] at h
    have hb : b ≠ 0 := fun e => h.1 e.symm
    simp [segs, hb, ih h.2]

theorem segs_append (cur x y : List Byte) :
    segs cur (x ++ y) =
      ((segs cur x).1 ++ (segs (segs cur x).2 y).1, (segs (segs cur x).2 y).2) := by
  induction x generalizing cur with
  | nil => simp [segs]
  | cons b bs ih =>
    by_cases hb : b = 0
    · simp [segs, hb, ih]
    · simp [segs, hb, ih]

theorem tail_le {n : Nat} {t y : List Byte} (h : Fits n (segs t y)) : t.length ≤ n := by
  rcases zero_cases y with h0 | ⟨pre, r, rfl, hp⟩
  · rw [segs_of_not_mem h0] at h
    have := h.2
    simp only [List.length_append] at this
    omega
  · rw [segs_append_zero hp] at h
    have := h.1 (t ++ pre) (by simp)
    simp only [List.length_append] at this
    omega

theorem Fits_append {n : Nat} {cur x y : List Byte} (h : Fits n (segs cur (x ++ y))) :
    (∀ s ∈ (segs cur x).1, s.length + 1 ≤ n) ∧ Fits n (segs (segs cur x).2 y) := by
  rw [segs_append] at h
  refine ⟨fun s hs => h.1 s (by simp [hs]), fun s hs => h.1 s (by simp [hs]), h.2⟩

theorem Fits_prefix {n : Nat} {cur x y : List Byte} (h : Fits n (segs cur (x ++ y))) :
    Fits n (segs cur x) :=
  ⟨(Fits_append h).1, tail_le (Fits_append h).2⟩

/-! ### `feed`, one equation per branch -/

theorem feed_nil (decF : List Byte → Option α) (a : Acc) : a.feed decF [] = (.consumed, a) := by
  simp [Acc.feed]

theorem feed_noZero_fit (decF : List Byte → Option α) {a : Acc} {w : List Byte}
    (hz : (0 : Byte) ∉ w) (hfit : a.buf.length + w.length ≤ a.n) :
    a.feed decF w = (.consumed, ⟨a.n, a.buf ++ w⟩) := by
  cases w with
  | nil => cases a; simp [Acc.feed]
  | cons b bs =>
    have hfit' : ¬ (a.buf.length + (b :: bs).length > a.n) := by omega
    simp only [Acc.feed, List.isEmpty_cons, splitZero_of_not_mem hz, Acc.extendUnchecked,
      if_neg hfit', if_pos hfit]
    simp

theorem feed_noZero_over (decF : List Byte → Option α) {a : Acc} {w : List Byte}
    (hz : (0 : Byte) ∉ w) (hinv : a.buf.length ≤ a.n) (hov : a.n < a.buf.length + w.length) :
    a.feed decF w = (.overFull (w.drop (a.n - a.buf.length)), ⟨a.n, []⟩) := by
  cases w with
  | nil => simp at hov; omega
  | cons b bs =>
    have h1 : a.buf.length + (b :: bs).length > a.n := hov
    have h2 : ¬ (a.n < a.buf.length) := by omega
    have h3 : a.n - a.buf.length ≤ (b :: bs).length := by omega
    simp only [Acc.feed, List.isEmpty_cons, splitZero_of_not_mem hz, if_pos h1, if_neg h2,
      if_pos h3]
    simp

/-- The result of the "zero found and it fits" branch. -/
def decRes (decF : List Byte → Option α) (frame r : List Byte) : FeedRes α :=
  match decF frame with
  | some d => .success d r
  | none => .deserError r

theorem decRes_next (decF : List Byte → Option α) (x r : List Byte) :
    (decRes decF x r).next = some r := by
  unfold decRes; cases decF x <;> rfl

theorem decRes_ne_panic (decF : List Byte → Option α) (x r : List Byte) :
    decRes decF x r ≠ .panic := by
  unfold decRes; cases decF x <;> simp

theorem frameResults_decRes (decF : List Byte → Option α) (s r : List Byte)
    (rs : List (FeedRes α)) :
    frameResults (decRes decF (s ++ [0]) r :: rs) = isolated decF s :: frameResults rs := by
  unfold decRes isolated; cases decF (s ++ [0]) <;> rfl

theorem feed_zero_fit (decF : List Byte → Option α) {a : Acc} {pre : List Byte}
    (hz : (0 : Byte) ∉ pre) (r : List Byte) (hfit : a.buf.length + pre.length + 1 ≤ a.n) :
    a.feed decF (pre ++ 0 :: r) = (decRes decF (a.buf ++ pre ++ [0]) r, ⟨a.n, []⟩) := by
  have hne : (pre ++ 0 :: r).isEmpty = false := by cases pre <;> rfl
  have h1 : a.buf.length + (pre ++ [0]).length ≤ a.n := by
    simp only [List.length_append, List.length_cons, List.length_nil]; omega
  have h2 : (a.buf ++ (pre ++ [0])).length ≤ a.n := by
    simp only [List.length_append, List.length_cons, List.length_nil]; omega
  simp only [Acc.feed, hne, splitZero_append_zero hz, Acc.extendUnchecked, if_pos h1, if_pos h2]
  simp only [Bool.false_eq_true, if_false, List.append_assoc, decRes]
  cases decF (a.buf ++ (pre ++ [0])) <;> rfl

theorem feed_zero_over (decF : List Byte → Option α) {a : Acc} {pre : List Byte}
    (hz : (0 : Byte) ∉ pre) (r : List Byte) (hov : a.n < a.buf.length + pre.length + 1) :
    a.feed decF (pre ++ 0 :: r) = (.overFull r, ⟨a.n, []⟩) := by
  have hne : (pre ++ 0 :: r).isEmpty = false := by cases pre <;> rfl
  have h1 : ¬ (a.buf.length + (pre ++ [0]).length ≤ a.n) := by
    simp only [List.length_append, List.length_cons, List.length_nil]; omega
  simp only [Acc.feed, hne, splitZero_append_zero hz, if_neg h1]
  simp

/-- Master case analysis of one `feed` call under the invariant `idx ≤ N`:
exactly the four non-panicking branches of `feed_ref`. -/
theorem feed_cases (decF : List Byte → Option α) (a : Acc) (w : List Byte)
    (hinv : a.buf.length ≤ a.n) :
    ((0 : Byte) ∉ w ∧ a.buf.length + w.length ≤ a.n ∧
        a.feed decF w = (.consumed, ⟨a.n, a.buf ++ w⟩))
    ∨ ((0 : Byte) ∉ w ∧ a.n < a.buf.length + w.length ∧
        a.feed decF w = (.overFull (w.drop (a.n - a.buf.length)), ⟨a.n, []⟩))
    ∨ (∃ pre r, w = pre ++ 0 :: r ∧ (0 : Byte) ∉ pre ∧ a.buf.length + pre.length + 1 ≤ a.n ∧
        a.feed decF w = (decRes decF (a.buf ++ pre ++ [0]) r, ⟨a.n, []⟩))
    ∨ (∃ pre r, w = pre ++ 0 :: r ∧ (0 : Byte) ∉ pre ∧ a.n < a.buf.length + pre.length + 1 ∧
        a.feed decF w = (.overFull r, ⟨a.n, []⟩)) := by
  rcases zero_cases w with h0 | ⟨pre, r, rfl, hp⟩
  · by_cases hfit : a.buf.length + w.length ≤ a.n
    · exact Or.inl ⟨h0, hfit, feed_noZero_fit decF h0 hfit⟩
    · exact Or.inr (Or.inl ⟨h0, by omega, feed_noZero_over decF h0 hinv (by omega)⟩)
  · by_cases hfit : a.buf.length + pre.length + 1 ≤ a.n
    · exact Or.inr (Or.inr (Or.inl ⟨pre, r, rfl, hp, hfit, feed_zero_fit decF hp r hfit⟩))
    · exact Or.inr (Or.inr (Or.inr ⟨pre, r, rfl, hp, by omega,
        feed_zero_over decF hp r (by omega)⟩))

/-- `feed` never changes the capacity. -/
theorem feed_n (decF : List Byte → Option α) (a : Acc) (w : List Byte) :
    (a.feed decF w).2.n = a.n := by
  unfold Acc.feed Acc.extendUnchecked
  repeat' split
  all_goals first | rfl | (simp_all; done) | skip
  all_goals simp_all
  all_goals first | (subst_vars; rfl) | (split <;> rfl)

/-! ### `frameResults` -/

theorem frameResults_append (xs ys : List (FeedRes α)) :
    frameResults (xs ++ ys) = frameResults xs ++ frameResults ys := by
  induction xs with
  | nil => rfl
  | cons r rs ih => cases r <;> simp [frameResults, ih]

/-! ### `drainX` unfolding -/

theorem drainX_nil (decF : List Byte → Option α) (fuel : Nat) (a : Acc) :
    a.drainX decF fuel [] = (([], a), false) := by
  cases fuel <;> simp [Acc.drainX]

theorem drainX_stop (decF : List Byte → Option α) {a a' : Acc} {w : List Byte} {r : FeedRes α}
    (hw : w ≠ []) (hf : a.feed decF w = (r, a')) (hn : r.next = none) (fuel : Nat) :
    a.drainX decF (fuel + 1) w = (([r], a'), false) := by
  have he : w.isEmpty = false := by cases w <;> simp_all
  cases r <;> simp [Acc.drainX, he, hf, FeedRes.next] at hn ⊢

theorem drainX_step (decF : List Byte → Option α) {a a' : Acc} {w w' : List Byte}
    {r : FeedRes α} (hw : w ≠ []) (hf : a.feed decF w = (r, a')) (hn : r.next = some w')
    (fuel : Nat) :
    a.drainX decF (fuel + 1) w =
      ((r :: (a'.drainX decF fuel w').1.1, (a'.drainX decF fuel w').1.2),
        (a'.drainX decF fuel w').2) := by
  have he : w.isEmpty = false := by cases w <;> simp_all
  cases r <;> simp only [FeedRes.next, Option.some.injEq, reduceCtorEq] at hn <;> subst hn <;>
    simp [Acc.drainX, he, hf]

/-! ### `drainX`: capacity, invariant, no panic -/

theorem drainX_n (decF : List Byte → Option α) (fuel : Nat) (a : Acc) (w : List Byte) :
    (a.drainX decF fuel w).1.2.n = a.n := by
  induction fuel generalizing a w with
  | zero => rfl
  | succ fuel ih =>
    by_cases hw : w = []
    · subst hw; rw [drainX_nil]
    · cases hf : a.feed decF w with
      | mk r a' =>
        have hn' : a'.n = a.n := by have := feed_n decF a w; rw [hf] at this; exact this
        cases hn : r.next with
        | none => rw [drainX_stop decF hw hf hn]; exact hn'
        | some w' => rw [drainX_step decF hw hf hn]; simp only [ih, hn']

/-- One `feed` call under the invariant: capacity kept, invariant kept, no panic. -/
theorem feed_inv (decF : List Byte → Option α) (a : Acc) (w : List Byte)
    (hinv : a.buf.length ≤ a.n) :
    (a.feed decF w).2.buf.length ≤ (a.feed decF w).2.n ∧ (a.feed decF w).1 ≠ .panic := by
  rcases feed_cases decF a w hinv with ⟨_, hfit, h⟩ | ⟨_, _, h⟩ | ⟨pre, r, _, _, _, h⟩ |
      ⟨pre, r, _, _, _, h⟩
  · rw [h]; simp only [List.length_append]; exact ⟨hfit, by simp⟩
  · rw [h]; simp
  · rw [h]; exact ⟨by simp, decRes_ne_panic _ _ _⟩
  · rw [h]; simp

theorem drainX_inv (decF : List Byte → Option α) (fuel : Nat) (a : Acc) (w : List Byte)
    (hinv : a.buf.length ≤ a.n) :
    (a.drainX decF fuel w).1.2.buf.length ≤ (a.drainX decF fuel w).1.2.n ∧
      FeedRes.panic ∉ (a.drainX decF fuel w).1.1 := by
  induction fuel generalizing a w with
  | zero => exact ⟨hinv, by simp [Acc.drainX]⟩
  | succ fuel ih =>
    by_cases hw : w = []
    · subst hw; rw [drainX_nil]; exact ⟨hinv, by simp⟩
    · cases hf : a.feed decF w with
      | mk r a' =>
        have h1 := feed_inv decF a w hinv
        rw [hf] at h1
        cases hn : r.next with
        | none =>
          rw [drainX_stop decF hw hf hn]
          refine ⟨h1.1, ?_⟩
          simp only [List.mem_cons, List.not_mem_nil, or_false]
          exact fun e => h1.2 e.symm
        | some w' =>
          rw [drainX_step decF hw hf hn]
          have h2 := ih a' w' h1.1
          refine ⟨h2.1, ?_⟩
          simp only [List.mem_cons, not_or]
          exact ⟨fun e => h1.2 e.symm, h2.2⟩

/-! ### `drainX` on a window all of whose segments fit (C08) -/

theorem drainX_fits (decF : List Byte → Option α) {n : Nat} (fuel : Nat) (b c : List Byte)
    (hfuel : c.length < fuel) (hfit : Fits n (segs b c)) :
    frameResults ((⟨n, b⟩ : Acc).drainX decF fuel c).1.1 = (segs b c).1.map (isolated decF) ∧
      ((⟨n, b⟩ : Acc).drainX decF fuel c).1.2 = ⟨n, (segs b c).2⟩ ∧
      FeedRes.panic ∉ ((⟨n, b⟩ : Acc).drainX decF fuel c).1.1 ∧
      ((⟨n, b⟩ : Acc).drainX decF fuel c).2 = false := by
  induction fuel generalizing b c with
  | zero => omega
  | succ fuel ih =>
    rcases zero_cases c with h0 | ⟨pre, r, rfl, hp⟩
    · rw [segs_of_not_mem h0] at hfit ⊢
      by_cases hw : c = []
      · subst hw; rw [drainX_nil]; simp [frameResults]
      · have h2 := hfit.2
        simp only [List.length_append] at h2
        have hf := feed_noZero_fit decF (a := ⟨n, b⟩) h0 h2
        rw [drainX_stop decF hw hf rfl]
        simp [frameResults]
    · rw [segs_append_zero hp] at hfit ⊢
      have h1 := hfit.1 (b ++ pre) (by simp)
      simp only [List.length_append] at h1
      have hf := feed_zero_fit decF (a := ⟨n, b⟩) hp r h1
      have hw : pre ++ 0 :: r ≠ [] := by simp
      rw [drainX_step decF hw hf (decRes_next _ _ _)]
      have hlen : r.length < fuel := by
        simp only [List.length_append, List.length_cons] at hfuel; omega
      have hfit' : Fits n (segs [] r) := ⟨fun s hs => hfit.1 s (by simp [hs]), hfit.2⟩
      obtain ⟨i1, i2, i3, i4⟩ := ih [] r hlen hfit'
      refine ⟨?_, i2, ?_, i4⟩
      · rw [frameResults_decRes, i1]; simp
      · simp only [List.mem_cons, not_or]
        exact ⟨fun e => decRes_ne_panic _ _ _ e.symm, i3⟩

/-! ### `drainX` terminates for `1 ≤ n` (C09) -/

theorem drainX_terminates (decF : List Byte → Option α) (fuel : Nat) (a : Acc) (w : List Byte)
    (hn : 1 ≤ a.n) (hinv : a.buf.length ≤ a.n)
    (hfuel : 2 * w.length + min a.buf.length 1 ≤ fuel) :
    (a.drainX decF fuel w).2 = false ∧
      (a.drainX decF fuel w).1.1.length ≤ 2 * w.length + min a.buf.length 1 := by
  induction fuel generalizing a w with
  | zero =>
    have : w = [] := by cases w with
      | nil => rfl
      | cons _ _ => simp only [List.length_cons] at hfuel; omega
    subst this; simp [Acc.drainX]
  | succ fuel ih =>
    by_cases hw : w = []
    · subst hw; rw [drainX_nil]; simp
    · have hpos : 1 ≤ w.length := by
        cases w with
        | nil => exact absurd rfl hw
        | cons _ _ => simp
      rcases feed_cases decF a w hinv with ⟨_, _, h⟩ | ⟨_, hov, h⟩ | ⟨pre, r, rfl, _, _, h⟩ |
          ⟨pre, r, rfl, _, _, h⟩
      · rw [drainX_stop decF hw h rfl]
        refine ⟨rfl, ?_⟩
        simp only [List.length_cons, List.length_nil]; omega
      · rw [drainX_step decF hw h rfl]
        have hl : (w.drop (a.n - a.buf.length)).length = w.length - (a.n - a.buf.length) :=
          List.length_drop
        have := ih ⟨a.n, []⟩ (w.drop (a.n - a.buf.length)) hn (by simp)
          (by simp only [List.length_nil]; omega)
        refine ⟨this.1, ?_⟩
        have h2 := this.2
        simp only [List.length_cons, List.length_nil] at h2 ⊢
        omega
      · rw [drainX_step decF hw h (decRes_next _ _ _)]
        simp only [List.length_append, List.length_cons] at hfuel ⊢
        have := ih ⟨a.n, []⟩ r hn (by simp) (by simp only [List.length_nil]; omega)
        refine ⟨this.1, ?_⟩
        have h2 := this.2
        simp only [List.length_nil] at h2
        omega
      · rw [drainX_step decF hw h rfl]
        simp only [List.length_append, List.length_cons] at hfuel ⊢
        have := ih ⟨a.n, []⟩ r hn (by simp) (by simp only [List.length_nil]; omega)
        refine ⟨this.1, ?_⟩
        have h2 := this.2
        simp only [List.length_nil] at h2
        omega

/-! ### `drainX` resynchronises at a zero (C09) -/

theorem drainX_resync (decF : List Byte → Option α) (fuel : Nat) (a : Acc) (g y : List Byte)
    (hfuel : (g ++ 0 :: y).length < fuel) (hfit : Fits a.n (segs [] y)) :
    ∃ pre, frameResults (a.drainX decF fuel (g ++ 0 :: y)).1.1
        = pre ++ (segs [] y).1.map (isolated decF) ∧
      (a.drainX decF fuel (g ++ 0 :: y)).1.2 = ⟨a.n, (segs [] y).2⟩ ∧
      (a.drainX decF fuel (g ++ 0 :: y)).2 = false := by
  induction fuel generalizing a g with
  | zero => omega
  | succ fuel ih =>
    simp only [List.length_append, List.length_cons] at hfuel
    rcases zero_cases g with h0 | ⟨p, r, rfl, hp⟩
    · have hw : g ++ 0 :: y ≠ [] := by simp
      obtain ⟨i1, i2, _, i4⟩ := drainX_fits decF (n := a.n) fuel [] y (by omega) hfit
      by_cases hfit1 : a.buf.length + g.length + 1 ≤ a.n
      · rw [drainX_step decF hw (feed_zero_fit decF h0 y hfit1) (decRes_next _ _ _)]
        refine ⟨[isolated decF (a.buf ++ g)], ?_, i2, i4⟩
        rw [frameResults_decRes, i1]; rfl
      · rw [drainX_step decF hw (feed_zero_over decF h0 y (by omega)) rfl]
        refine ⟨[.overFull], ?_, i2, i4⟩
        simp only [frameResults, i1]; rfl
    · have hw : (p ++ 0 :: r) ++ 0 :: y ≠ [] := by simp
      have he : (p ++ 0 :: r) ++ 0 :: y = p ++ 0 :: (r ++ 0 :: y) := by simp
      simp only [List.length_append, List.length_cons] at hfuel
      obtain ⟨pre, j1, j2, j3⟩ := ih ⟨a.n, []⟩ r
        (by simp only [List.length_append, List.length_cons]; omega) hfit
      rw [he] at hw ⊢
      by_cases hfit1 : a.buf.length + p.length + 1 ≤ a.n
      · rw [drainX_step decF hw (feed_zero_fit decF hp _ hfit1) (decRes_next _ _ _)]
        refine ⟨isolated decF (a.buf ++ p) :: pre, ?_, j2, j3⟩
        rw [frameResults_decRes, j1]; rfl
      · rw [drainX_step decF hw (feed_zero_over decF hp _ (by omega)) rfl]
        refine ⟨.overFull :: pre, ?_, j2, j3⟩
        simp only [frameResults, j1]; rfl

/-! ### `run` -/

theorem run_nil (decF : List Byte → Option α) (a : Acc) : Acc.run decF a [] = ([], a) := rfl

theorem run_cons (decF : List Byte → Option α) (a : Acc) (c : List Byte)
    (cs : List (List Byte)) :
    Acc.run decF a (c :: cs) =
      ((a.drainChunk decF c).1 ++ (Acc.run decF (a.drainChunk decF c).2 cs).1,
        (Acc.run decF (a.drainChunk decF c).2 cs).2) := rfl

theorem drainChunk_nil (decF : List Byte → Option α) (a : Acc) :
    a.drainChunk decF [] = ([], a) := by
  simp [Acc.drainChunk, Acc.drain, drainX_nil]

theorem drainChunk_n (decF : List Byte → Option α) (a : Acc) (c : List Byte) :
    (a.drainChunk decF c).2.n = a.n := drainX_n decF _ a c

theorem run_n (decF : List Byte → Option α) (a : Acc) (chunks : List (List Byte)) :
    (Acc.run decF a chunks).2.n = a.n := by
  induction chunks generalizing a with
  | nil => rfl
  | cons c cs ih => rw [run_cons]; simp only [ih, drainChunk_n]

/-- Chunks that carry no bytes cause no `feed` call at all. -/
theorem run_of_flatten_nil (decF : List Byte → Option α) (a : Acc) (chunks : List (List Byte))
    (h : chunks.flatten = []) : Acc.run decF a chunks = ([], a) := by
  induction chunks with
  | nil => rfl
  | cons c cs ih =>
    simp only [List.flatten_cons, List.append_eq_nil_iff] at h
    obtain ⟨rfl, h2⟩ := h
    rw [run_cons, drainChunk_nil, ih h2]
    rfl

/-- Where the first chunk ends relative to a distinguished zero of the stream. -/
theorem chunk_split {c X g y : List Byte} (h : c ++ X = g ++ 0 :: y) :
    (∃ g', g = c ++ g' ∧ X = g' ++ 0 :: y) ∨ (∃ c', c = g ++ 0 :: c' ∧ y = c' ++ X) := by
  rcases List.append_eq_append_iff.mp h with ⟨a', h1, h2⟩ | ⟨c', h1, h2⟩
  · exact Or.inl ⟨a', h1, h2⟩
  · cases c' with
    | nil =>
      left
      refine ⟨[], by simpa using h1.symm, by simpa using h2.symm⟩
    | cons z c'' =>
      right
      simp only [List.cons_append, List.cons.injEq] at h2
      obtain ⟨rfl, h3⟩ := h2
      exact ⟨c'', h1, h3⟩

end Postcard
