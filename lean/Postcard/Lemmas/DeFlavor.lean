import Postcard.Model.DeFlavor
import Postcard.Lemmas.Flavor
import Postcard.Props.C04
/-
  Postcard.Lemmas.DeFlavor — helpers for property C11.

  A. `Sim` / `Agrees` / `decG_agrees`: ONE simulation theorem between the
     flavour-generic deserializer `decG F` and the list-level `dec`, for any
     flavour whose `pop` / `try_take_n` behave like list operations on an
     abstract "remaining bytes" view, possibly failing early with
     `DeserializeUnexpectedEnd` (`Lax`).  Instantiated with `Lax = False` for the
     index-level `Slice` (exact refinement) and `Lax = True` for the readers
     (scratch exhaustion and I/O faults are extra failures).
  B. `SliceDe` instance.
  C. `IOReader` instance + the exact characterisation `io_permitted` of what
     the reader flavour does on a permitted message.
  D. `WriteFl`.
-/
namespace Postcard

variable {σ : Type}

/-! ## A. generic simulation -/

/-- `F` behaves like a list of remaining bytes `view s`, as long as the
invariant `Inv` holds; when `Lax` it may additionally fail with
`unexpectedEnd` at any call. -/
structure Sim (F : DeFlavor σ) (view : σ → List Byte) (Inv : σ → Prop) (Lax : Prop) : Prop where
  pop_ok : ∀ {s b s'}, Inv s → F.pop s = .ok (b, s') → view s = b :: view s' ∧ Inv s'
  pop_err : ∀ {s e}, Inv s → F.pop s = .error e → e = .unexpectedEnd ∧ (view s = [] ∨ Lax)
  take_ok : ∀ {s n bs s'}, Inv s → F.tryTakeN s n = .ok (bs, s') →
    view s = bs ++ view s' ∧ bs.length = n ∧ Inv s'
  take_err : ∀ {s n e}, Inv s → F.tryTakeN s n = .error e →
    e = .unexpectedEnd ∧ ((view s).length < n ∨ Lax)

/-- outcome of a flavour-level computation vs. the list-level reference. -/
def Agrees {α : Type} (view : σ → List Byte) (Inv : σ → Prop) (Lax : Prop)
    (res : R (α × σ)) (ref : R (α × List Byte)) : Prop :=
  match res with
  | .ok (a, s') => ref = .ok (a, view s') ∧ Inv s'
  | .error e => ref = .error e ∨ (Lax ∧ e = .unexpectedEnd)

section generic
variable {view : σ → List Byte} {Inv : σ → Prop} {Lax : Prop}

theorem Agrees.elim {α : Type} {res : R (α × σ)} {ref : R (α × List Byte)}
    (h : Agrees view Inv Lax res ref) :
    (∃ e, res = .error e ∧ ref = .error e) ∨
    (res = .error .unexpectedEnd ∧ Lax) ∨
    (∃ a s', res = .ok (a, s') ∧ ref = .ok (a, view s') ∧ Inv s') := by
  cases res with
  | error e =>
    rcases h with h | ⟨hl, rfl⟩
    · exact .inl ⟨e, rfl, h⟩
    · exact .inr (.inl ⟨rfl, hl⟩)
  | ok x =>
    obtain ⟨a, s'⟩ := x
    exact .inr (.inr ⟨a, s', rfl, h.1, h.2⟩)

@[simp] theorem thenG_ok {α β τ : Type} (a : α) (s : τ) (k : α → τ → R (β × τ)) :
    thenG (.ok (a, s)) k = k a s := rfl
@[simp] theorem thenG_error {α β τ : Type} (e : Err) (k : α → τ → R (β × τ)) :
    thenG (.error e) k = .error e := rfl

theorem Agrees.err_refl {α : Type} (e : Err) :
    Agrees (α := α) view Inv Lax (.error e) (.error e) := .inl rfl

theorem Agrees.lax {α : Type} (hl : Lax) (ref : R (α × List Byte)) :
    Agrees view Inv Lax (.error .unexpectedEnd) ref := .inr ⟨hl, rfl⟩

theorem Agrees.ok {α : Type} {a : α} {s' : σ} (hI : Inv s') :
    Agrees view Inv Lax (.ok (a, s')) (.ok (a, view s')) := ⟨rfl, hI⟩

/-- one `Agrees` step: case on the three outcomes, reduce both `match`es; leaves the success case. -/
syntax "agrees_step " term " with " ident ident ident : tactic
macro_rules
  | `(tactic| agrees_step $H with $a $s $hI) => `(tactic|
      (rcases Agrees.elim $H with ⟨e, h1, h2⟩ | ⟨h1, hl⟩ | h
       · simp only [h1, h2, thenG_error]; exact Agrees.err_refl _
       · simp only [h1, thenG_error]; exact Agrees.lax hl _
       have ⟨$a, $s, h1, h2, $hI⟩ := h
       clear h
       simp only [h1, h2, thenG_ok]))

variable {F : DeFlavor σ}

theorem Sim.pop_elim (S : Sim F view Inv Lax) {s : σ} (hI : Inv s) :
    (F.pop s = .error .unexpectedEnd ∧ Lax) ∨
    (F.pop s = .error .unexpectedEnd ∧ view s = []) ∨
    (∃ b s', F.pop s = .ok (b, s') ∧ view s = b :: view s' ∧ Inv s') := by
  cases hp : F.pop s with
  | error e =>
    obtain ⟨rfl, h | h⟩ := S.pop_err hI hp
    · exact .inr (.inl ⟨rfl, h⟩)
    · exact .inl ⟨rfl, h⟩
  | ok x =>
    obtain ⟨b, s'⟩ := x
    obtain ⟨hv, hI'⟩ := S.pop_ok hI hp
    exact .inr (.inr ⟨b, s', rfl, hv, hI'⟩)

/-- one `pop`: case on its three outcomes; leaves the success case. -/
syntax "pop_step " term:max term:max " with " ident ident ident : tactic
macro_rules
  | `(tactic| pop_step $S $hI0 with $b $s $hI) => `(tactic|
      (rcases Sim.pop_elim $S $hI0 with ⟨h1, hl⟩ | ⟨h1, h2⟩ | h
       · simp only [h1, thenG_error]; exact Agrees.lax hl _
       · simp only [h1, h2, thenG_error, dec, decVarintLoop]; exact Agrees.err_refl _
       have ⟨$b, $s, h1, h2, $hI⟩ := h
       clear h
       simp only [h1, h2, thenG_ok]))

theorem Sim.take_agrees (S : Sim F view Inv Lax) {s : σ} (hI : Inv s) (n : Nat) :
    Agrees view Inv Lax (F.tryTakeN s n) (takeN n (view s)) := by
  cases hp : F.tryTakeN s n with
  | error e =>
    obtain ⟨rfl, h | h⟩ := S.take_err hI hp
    · exact .inl (takeN_short h)
    · exact .inr ⟨h, rfl⟩
  | ok x =>
    obtain ⟨bs, s'⟩ := x
    obtain ⟨hv, hl, hI'⟩ := S.take_ok hI hp
    refine ⟨?_, hI'⟩
    rw [hv, ← hl]
    exact takeN_append bs (view s')

theorem decVarintLoopG_agrees (S : Sim F view Inv Lax) (bits : Nat) :
    ∀ (fuel i out : Nat) (s : σ), Inv s →
      Agrees view Inv Lax (decVarintLoopG F bits fuel i out s)
        (decVarintLoop bits fuel i out (view s))
  | 0, i, out, s, hI => by
    simp only [decVarintLoopG, decVarintLoop]; exact Agrees.err_refl _
  | fuel+1, i, out, s, hI => by
    simp only [decVarintLoopG]
    pop_step S hI with b s1 hI1
    simp only [decVarintLoop]
    split
    · split
      · exact Agrees.err_refl _
      · exact Agrees.ok hI1
    · exact decVarintLoopG_agrees S bits fuel (i+1) _ s1 hI1

theorem decVarintG_agrees (S : Sim F view Inv Lax) (bits : Nat) {s : σ} (hI : Inv s) :
    Agrees view Inv Lax (decVarintG F bits s) (decVarint bits (view s)) :=
  decVarintLoopG_agrees S bits _ _ _ s hI

theorem decNG_agrees {f : σ → R (Val × σ)} {g : List Byte → R (Val × List Byte)}
    (h : ∀ s, Inv s → Agrees view Inv Lax (f s) (g (view s))) :
    ∀ (n : Nat) (s : σ), Inv s → Agrees view Inv Lax (decNG f n s) (decN g n (view s))
  | 0, s, hI => by simp only [decNG, decN]; exact Agrees.ok hI
  | n+1, s, hI => by
    simp only [decNG, decN]
    agrees_step (h s hI) with v s1 hI1
    agrees_step (decNG_agrees h n s1 hI1) with vs s2 hI2
    exact Agrees.ok hI2

theorem decKVG_agrees {fk fv : σ → R (Val × σ)} {gk gv : List Byte → R (Val × List Byte)}
    (hk : ∀ s, Inv s → Agrees view Inv Lax (fk s) (gk (view s)))
    (hv : ∀ s, Inv s → Agrees view Inv Lax (fv s) (gv (view s))) :
    ∀ (n : Nat) (s : σ), Inv s →
      Agrees view Inv Lax (decKVG fk fv n s) (decKV gk gv n (view s))
  | 0, s, hI => by simp only [decKVG, decKV]; exact Agrees.ok hI
  | n+1, s, hI => by
    simp only [decKVG, decKV]
    agrees_step (hk s hI) with k s1 hI1
    agrees_step (hv s1 hI1) with v s2 hI2
    agrees_step (decKVG_agrees hk hv n s2 hI2) with kvs s3 hI3
    exact Agrees.ok hI3

theorem decCharG_agrees (S : Sim F view Inv Lax) {s : σ} (hI : Inv s) :
    Agrees view Inv Lax (decCharG F s) (decChar (view s)) := by
  simp only [decCharG, decChar]
  agrees_step (decVarintG_agrees S 64 hI) with sz s1 hI1
  split
  · exact Agrees.err_refl _
  · agrees_step (S.take_agrees hI1 sz) with b s2 hI2
    split
    · cases hu : utf8Next b with
      | none => exact Agrees.err_refl _
      | some x =>
        obtain ⟨c, rest⟩ := x
        cases rest with
        | nil => exact Agrees.ok hI2
        | cons _ _ => exact Agrees.err_refl _
    · exact Agrees.err_refl _

macro "varint_leaf " S:term:max hI:term:max w:term:max : tactic => `(tactic|
  (simp only [decG, dec]
   agrees_step (decVarintG_agrees $S (IntW.bits $w) $hI) with n s1 hI1
   exact Agrees.ok hI1))

-- the simulation theorem, clause by clause
mutual
theorem decG_agrees (S : Sim F view Inv Lax) : ∀ (t : Ty) (s : σ), Inv s →
    Agrees view Inv Lax (decG F t s) (dec t (view s))
  | .bool, s, hI => by
    simp only [decG]
    pop_step S hI with b s1 hI1
    simp only [dec]
    split
    · exact Agrees.ok hI1
    · split
      · exact Agrees.ok hI1
      · exact Agrees.err_refl _
  | .u .w8, s, hI => by
    simp only [decG]
    pop_step S hI with b s1 hI1
    simp only [dec]; exact Agrees.ok hI1
  | .u .w16, s, hI => by varint_leaf S hI IntW.w16
  | .u .w32, s, hI => by varint_leaf S hI IntW.w32
  | .u .w64, s, hI => by varint_leaf S hI IntW.w64
  | .u .w128, s, hI => by varint_leaf S hI IntW.w128
  | .i .w8, s, hI => by
    simp only [decG]
    pop_step S hI with b s1 hI1
    simp only [dec]; exact Agrees.ok hI1
  | .i .w16, s, hI => by varint_leaf S hI IntW.w16
  | .i .w32, s, hI => by varint_leaf S hI IntW.w32
  | .i .w64, s, hI => by varint_leaf S hI IntW.w64
  | .i .w128, s, hI => by varint_leaf S hI IntW.w128
  | .f32, s, hI => by
    simp only [decG, dec]
    agrees_step (S.take_agrees hI 4) with b s1 hI1
    exact Agrees.ok hI1
  | .f64, s, hI => by
    simp only [decG, dec]
    agrees_step (S.take_agrees hI 8) with b s1 hI1
    exact Agrees.ok hI1
  | .char, s, hI => by
    simp only [decG, dec]; exact decCharG_agrees S hI
  | .str, s, hI => by
    simp only [decG, dec]
    agrees_step (decVarintG_agrees S 64 hI) with sz s1 hI1
    agrees_step (S.take_agrees hI1 sz) with b s2 hI2
    split
    · exact Agrees.ok hI2
    · exact Agrees.err_refl _
  | .bytes, s, hI => by
    simp only [decG, dec]
    agrees_step (decVarintG_agrees S 64 hI) with sz s1 hI1
    agrees_step (S.take_agrees hI1 sz) with b s2 hI2
    exact Agrees.ok hI2
  | .option t, s, hI => by
    simp only [decG]
    pop_step S hI with b s1 hI1
    simp only [dec]
    split
    · exact Agrees.ok hI1
    · split
      · agrees_step (decG_agrees S t s1 hI1) with v s2 hI2
        exact Agrees.ok hI2
      · exact Agrees.err_refl _
  | .unit, s, hI => by simp only [decG, dec]; exact Agrees.ok hI
  | .unitStruct, s, hI => by simp only [decG, dec]; exact Agrees.ok hI
  | .newtypeStruct t, s, hI => by
    simp only [decG, dec]
    agrees_step (decG_agrees S t s hI) with v s1 hI1
    exact Agrees.ok hI1
  | .seq t, s, hI => by
    simp only [decG, dec]
    agrees_step (decVarintG_agrees S 64 hI) with n s1 hI1
    agrees_step (decNG_agrees (decG_agrees S t) n s1 hI1) with vs s2 hI2
    exact Agrees.ok hI2
  | .tuple ts, s, hI => by
    simp only [decG, dec]
    agrees_step (decTupleG_agrees S ts s hI) with vs s1 hI1
    exact Agrees.ok hI1
  | .tupleStruct ts, s, hI => by
    simp only [decG, dec]
    agrees_step (decTupleG_agrees S ts s hI) with vs s1 hI1
    exact Agrees.ok hI1
  | .struct ts, s, hI => by
    simp only [decG, dec]
    agrees_step (decTupleG_agrees S ts s hI) with vs s1 hI1
    exact Agrees.ok hI1
  | .map k v, s, hI => by
    simp only [decG, dec]
    agrees_step (decVarintG_agrees S 64 hI) with n s1 hI1
    agrees_step (decKVG_agrees (decG_agrees S k) (decG_agrees S v) n s1 hI1) with kvs s2 hI2
    exact Agrees.ok hI2
  | .enum vts, s, hI => by
    simp only [decG, dec]
    agrees_step (decVarintG_agrees S 32 hI) with idx s1 hI1
    exact decVariantG_agrees S vts idx idx s1 hI1
  | .any, s, hI => by simp only [decG, dec]; exact Agrees.err_refl _
  | .identifier, s, hI => by simp only [decG, dec]; exact Agrees.err_refl _
  | .ignoredAny, s, hI => by simp only [decG, dec]; exact Agrees.err_refl _
theorem decTupleG_agrees (S : Sim F view Inv Lax) : ∀ (ts : List Ty) (s : σ), Inv s →
    Agrees view Inv Lax (decTupleG F ts s) (decTuple ts (view s))
  | [], s, hI => by simp only [decTupleG, decTuple]; exact Agrees.ok hI
  | t :: ts, s, hI => by
    simp only [decTupleG, decTuple]
    agrees_step (decG_agrees S t s hI) with v s1 hI1
    agrees_step (decTupleG_agrees S ts s1 hI1) with vs s2 hI2
    exact Agrees.ok hI2
theorem decVariantG_agrees (S : Sim F view Inv Lax) : ∀ (vts : List Ty) (k idx : Nat) (s : σ),
    Inv s → Agrees view Inv Lax (decVariantG F vts k idx s) (decVariant vts k idx (view s))
  | [], k, idx, s, hI => by simp only [decVariantG, decVariant]; exact Agrees.err_refl _
  | vt :: rest, 0, idx, s, hI => by
    cases vt
    case unit => simp only [decVariantG, decVariant]; exact Agrees.ok hI
    case newtypeStruct t =>
      simp only [decVariantG, decVariant]
      agrees_step (decG_agrees S t s hI) with v s1 hI1
      exact Agrees.ok hI1
    case tuple ts =>
      simp only [decVariantG, decVariant]
      agrees_step (decTupleG_agrees S ts s hI) with vs s1 hI1
      exact Agrees.ok hI1
    case struct ts =>
      simp only [decVariantG, decVariant]
      agrees_step (decTupleG_agrees S ts s hI) with vs s1 hI1
      exact Agrees.ok hI1
    all_goals (simp only [decVariantG, decVariant]; exact Agrees.err_refl _)
  | vt :: rest, k+1, idx, s, hI => by
    simp only [decVariantG, decVariant]
    exact decVariantG_agrees S rest k idx s hI
end

end generic

/-! ## B. the index-level `Slice` flavour is an exact instance -/

/-- the bytes between the two pointers. -/
def SliceDeSt.view (s : SliceDeSt) : List Byte := (s.mem.take s.end_).drop s.cursor

/-- the flavour never changes `mem` / `end_`; the cursor only moves forward
from `c0` and stays inside `[c0, end_]`, which lies inside the allocation. -/
def SliceDeSt.Inv (mem : List Byte) (e c0 : Nat) (s : SliceDeSt) : Prop :=
  s.mem = mem ∧ s.end_ = e ∧ c0 ≤ s.cursor ∧ s.cursor ≤ e ∧ e ≤ mem.length

theorem SliceDeSt.view_length {mem : List Byte} {e c0 : Nat} {s : SliceDeSt}
    (h : SliceDeSt.Inv mem e c0 s) : s.view.length = s.end_ - s.cursor := by
  obtain ⟨hm, he, _, _, hl⟩ := h
  simp only [SliceDeSt.view, List.length_drop, List.length_take, hm, he]
  omega

theorem SliceDe.sim (mem : List Byte) (e c0 : Nat) :
    Sim SliceDe SliceDeSt.view (SliceDeSt.Inv mem e c0) False where
  pop_ok := by
    intro s b s' hI hp
    obtain ⟨hm, he, hc0, hce, hl⟩ := hI
    simp only [SliceDe] at hp
    split at hp
    · cases hp
    · rename_i hne
      split at hp
      · cases hp
      · rename_i b' hb
        simp only [Except.ok.injEq, Prod.mk.injEq] at hp
        obtain ⟨rfl, rfl⟩ := hp
        have hlt : s.cursor < s.mem.length := by rw [hm]; omega
        have hlt' : s.cursor < (s.mem.take s.end_).length := by
          simp only [List.length_take]; omega
        refine ⟨?_, hm, he, by simp only; omega, by simp only; omega, hl⟩
        simp only [SliceDeSt.view]
        rw [List.drop_eq_getElem_cons hlt']
        congr 1
        rw [List.getElem_take]
        have := List.getElem?_eq_getElem hlt
        rw [hb] at this
        exact (Option.some.inj this).symm
  pop_err := by
    intro s e' hI hp
    have hlen := SliceDeSt.view_length hI
    obtain ⟨hm, he, hc0, hce, hl⟩ := hI
    simp only [SliceDe] at hp
    split at hp
    · rename_i heq
      cases hp
      refine ⟨rfl, .inl ?_⟩
      apply List.eq_nil_of_length_eq_zero
      rw [hlen]; omega
    · rename_i hne
      split at hp
      · rename_i hb
        have hlt : s.cursor < s.mem.length := by rw [hm]; omega
        rw [List.getElem?_eq_getElem hlt] at hb
        cases hb
      · cases hp
  take_ok := by
    intro s n bs s' hI hp
    obtain ⟨hm, he, hc0, hce, hl⟩ := hI
    simp only [SliceDe] at hp
    split at hp
    · cases hp
    · rename_i h1
      split at hp
      · cases hp
      · rename_i h2
        simp only [Except.ok.injEq, Prod.mk.injEq] at hp
        obtain ⟨rfl, rfl⟩ := hp
        refine ⟨?_, ?_, hm, he, by simp only; omega, by simp only; omega, hl⟩
        · simp only [SliceDeSt.view, List.extract_eq_take_drop, Nat.add_sub_cancel_left]
          rw [← List.drop_drop, List.drop_take]
          have : List.take n (List.drop s.cursor s.mem)
              = List.take n (List.take (s.end_ - s.cursor) (List.drop s.cursor s.mem)) := by
            rw [List.take_take, Nat.min_eq_left (by omega)]
          rw [this, List.take_append_drop]
        · simp only [List.extract_eq_take_drop, List.length_take, List.length_drop]
          omega
  take_err := by
    intro s n e' hI hp
    have hlen := SliceDeSt.view_length hI
    obtain ⟨hm, he, hc0, hce, hl⟩ := hI
    simp only [SliceDe] at hp
    split at hp
    · rename_i h1
      cases hp
      exact ⟨rfl, .inl (by rw [hlen]; exact h1)⟩
    · rename_i h1
      split at hp
      · rename_i h2
        rw [hm] at h2; omega
      · cases hp

/-! ## C. the reader flavour -/

theorem faultOk_mono {f : Option Nat} {m n : Nat} (h : faultOk f n = true) (hmn : m ≤ n) :
    faultOk f m = true := by
  cases f with
  | none => rfl
  | some k => simp only [faultOk, decide_eq_true_eq] at h ⊢; omega

theorem faultOk_zero (f : Option Nat) : faultOk f 0 = true := by
  cases f <;> simp [faultOk]

theorem mkSlots_append : ∀ (a b : List Nat) (off : Nat),
    mkSlots off (a ++ b) = mkSlots off a ++ mkSlots (off + a.sum) b
  | [], b, off => by simp [mkSlots]
  | x :: a, b, off => by
    simp only [List.cons_append, mkSlots, List.sum_cons, mkSlots_append a b, Nat.add_assoc]

theorem needList_eq_sum : ∀ (vs : List Val), needList vs = (vs.map need).sum
  | [] => by simp [needList]
  | v :: vs => by simp [needList, needList_eq_sum vs]

mutual
theorem need_eq_sum_leaves : ∀ (v : Val), need v = (leaves v).sum
  | .bool _ | .u _ _ | .i _ _ | .none | .unit | .unitStruct | .unitVariant _ => by
    simp [need, leaves]
  | .f32 _ | .f64 _ | .char _ | .str _ | .bytes _ => by simp [need, leaves]
  | .some v | .newtypeStruct v | .newtypeVariant _ v => by
    simp only [need, leaves]; exact need_eq_sum_leaves v
  | .seq vs | .tuple vs | .tupleStruct vs | .tupleVariant _ vs | .map vs | .struct vs
  | .structVariant _ vs => by
    simp only [need, leaves]; exact needList_eq_sum_leaves vs
theorem needList_eq_sum_leaves : ∀ (vs : List Val), needList vs = (leavesList vs).sum
  | [] => by simp [needList, leavesList]
  | v :: vs => by
    simp only [needList, leavesList, List.sum_append, need_eq_sum_leaves v,
      needList_eq_sum_leaves vs]
end

/-- state-independent resources of a run that reads `len` bytes and takes
slots of total size `nd`: enough scratch left, and no fault before the last
byte read. -/
def IOReaderSt.fits (st : IOReaderSt) (nd len : Nat) : Prop :=
  nd ≤ st.scratchCap - st.scratchUsed ∧
  (len = 0 ∨ faultOk st.fault (st.delivered + len) = true)

instance (st : IOReaderSt) (nd len : Nat) : Decidable (st.fits nd len) := by
  unfold IOReaderSt.fits; infer_instance

/-- the state after a successful run that read `len` bytes and took slots of
lengths `lens`. -/
def IOReaderSt.adv (st : IOReaderSt) (len : Nat) (lens : List Nat) : IOReaderSt :=
  { st with stream := st.stream.drop len, delivered := st.delivered + len,
            scratchUsed := st.scratchUsed + lens.sum,
            slots := st.slots ++ mkSlots st.scratchUsed lens }

/-- "succeeds with `a`, having read `len` bytes into slots `lens`, iff the
resources suffice; otherwise `DeserializeUnexpectedEnd`". -/
def ioRes {α : Type} (st : IOReaderSt) (a : α) (len : Nat) (lens : List Nat) :
    R (α × IOReaderSt) :=
  if st.fits lens.sum len then .ok (a, st.adv len lens) else .error .unexpectedEnd

theorem IOReaderSt.adv_zero (st : IOReaderSt) : st.adv 0 [] = st := by
  simp [IOReaderSt.adv, mkSlots]

theorem IOReaderSt.adv_adv (st : IOReaderSt) (l1 l2 : Nat) (ls1 ls2 : List Nat) :
    (st.adv l1 ls1).adv l2 ls2 = st.adv (l1 + l2) (ls1 ++ ls2) := by
  simp only [IOReaderSt.adv, List.drop_drop, List.sum_append, mkSlots_append, Nat.add_assoc,
    List.append_assoc]

theorem IOReaderSt.adv_stream {st : IOReaderSt} {p r : List Byte} (h : st.stream = p ++ r)
    (lens : List Nat) : (st.adv p.length lens).stream = r := by
  simp [IOReaderSt.adv, h]

theorem IOReaderSt.fits_add (st : IOReaderSt) (l1 l2 : Nat) (ls1 ls2 : List Nat) :
    st.fits (ls1 ++ ls2).sum (l1 + l2) ↔
      st.fits ls1.sum l1 ∧ (st.adv l1 ls1).fits ls2.sum l2 := by
  simp only [IOReaderSt.fits, IOReaderSt.adv, List.sum_append]
  constructor
  · rintro ⟨h1, h2⟩
    refine ⟨⟨by omega, ?_⟩, by omega, ?_⟩
    · rcases h2 with h2 | h2
      · exact .inl (by omega)
      · exact .inr (faultOk_mono h2 (by omega))
    · rcases h2 with h2 | h2
      · exact .inl (by omega)
      · exact .inr (by rw [Nat.add_assoc]; exact h2)
  · rintro ⟨⟨h1, h2⟩, h3, h4⟩
    refine ⟨by omega, ?_⟩
    rcases h4 with h4 | h4
    · subst h4
      rcases h2 with h2 | h2
      · exact .inl (by omega)
      · exact .inr (by simpa using h2)
    · exact .inr (by rw [← Nat.add_assoc]; exact h4)

theorem ioRes_pure {α : Type} (st : IOReaderSt) (a : α) : ioRes st a 0 [] = .ok (a, st) := by
  simp [ioRes, IOReaderSt.fits, IOReaderSt.adv_zero]

/-- sequential composition of two runs. -/
theorem ioRes_bind {α β : Type} {X : R (α × IOReaderSt)} {k : α → IOReaderSt → R (β × IOReaderSt)}
    {st : IOReaderSt} {a : α} {l1 : Nat} {ls1 : List Nat} {b : β} {L : Nat} {LS : List Nat}
    (l2 : Nat) (ls2 : List Nat)
    (H : X = ioRes st a l1 ls1) (hL : L = l1 + l2) (hLS : LS = ls1 ++ ls2)
    (hk : k a (st.adv l1 ls1) = ioRes (st.adv l1 ls1) b l2 ls2) :
    thenG X k = ioRes st b L LS := by
  subst H hL hLS
  unfold ioRes at hk ⊢
  by_cases h1 : st.fits ls1.sum l1
  · rw [if_pos h1, thenG_ok, hk]
    by_cases h2 : (st.adv l1 ls1).fits ls2.sum l2
    · rw [if_pos h2, if_pos ((st.fits_add l1 l2 ls1 ls2).2 ⟨h1, h2⟩), IOReaderSt.adv_adv]
    · rw [if_neg h2, if_neg (fun h => h2 ((st.fits_add l1 l2 ls1 ls2).1 h).2)]
  · rw [if_neg h1, thenG_error, if_neg (fun h => h1 ((st.fits_add l1 l2 ls1 ls2).1 h).1)]

theorem ioRes_map {α β : Type} {X : R (α × IOReaderSt)} {st : IOReaderSt} {a : α} {l : Nat}
    {ls : List Nat} (f : α → β) (H : X = ioRes st a l ls) :
    thenG X (fun v s' => .ok (f v, s')) = ioRes st (f a) l ls :=
  ioRes_bind 0 [] H rfl (by simp) (by simp [ioRes_pure])

/-! ### the two flavour calls -/

theorem io_pop {st : IOReaderSt} {b : Byte} {r : List Byte} (hs : st.stream = b :: r) :
    IOReader.pop st = ioRes st b 1 [] := by
  simp only [IOReader, hs, ioRes, IOReaderSt.fits, IOReaderSt.adv, mkSlots, List.sum_nil,
    Nat.zero_le, true_and, List.drop_succ_cons, List.drop_zero, Nat.add_zero, List.append_nil]
  simp

theorem io_pop_stream {st : IOReaderSt} {b : Byte} {r : List Byte} (hs : st.stream = b :: r)
    (lens : List Nat) : (st.adv 1 lens).stream = r := by
  simp [IOReaderSt.adv, hs]

theorem io_take {st : IOReaderSt} {bs r : List Byte} (hs : st.stream = bs ++ r) :
    IOReader.tryTakeN st bs.length = ioRes st bs bs.length [bs.length] := by
  simp only [IOReader, IOReaderSt.readExact, hs, ioRes, IOReaderSt.fits, IOReaderSt.adv, mkSlots,
    List.sum_cons, List.sum_nil, Nat.add_zero]
  by_cases h1 : st.scratchCap - st.scratchUsed < bs.length
  · simp [h1, Nat.not_le.2 h1]
  · simp only [h1, if_false, Nat.not_lt.1 h1, true_and, List.length_append]
    have : ¬ (bs.length + r.length < bs.length) := by omega
    simp only [this, if_false]
    by_cases h2 : bs = [] ∨ faultOk st.fault (st.delivered + bs.length) = true
    · simp [h2]
    · simp [h2]

/-! ### varints through the reader -/

theorem io_varintLoop (bits : Nat) : ∀ (fuel i out : Nat) (st : IOReaderSt) (n : Nat) (r : List Byte),
    decVarintLoop bits fuel i out st.stream = .ok (n, r) →
    ∃ l, l + r.length = st.stream.length ∧
      decVarintLoopG IOReader bits fuel i out st = ioRes st n l []
  | 0, i, out, st, n, r, h => by simp [decVarintLoop] at h
  | fuel+1, i, out, st, n, r, h => by
    cases hs : st.stream with
    | nil => rw [hs] at h; simp [decVarintLoop] at h
    | cons b rest =>
      rw [hs] at h
      simp only [decVarintLoop] at h
      simp only [decVarintLoopG]
      have hp := io_pop hs
      split at h
      · rename_i hterm
        split at h
        · cases h
        · rename_i hbad
          simp only [Except.ok.injEq, Prod.mk.injEq] at h
          obtain ⟨rfl, rfl⟩ := h
          refine ⟨1, by simp [Nat.add_comm], ?_⟩
          refine ioRes_bind 0 [] hp rfl rfl ?_
          simp only [hterm, if_true, hbad, if_false, ioRes_pure]
      · rename_i hterm
        have hst1 : (st.adv 1 []).stream = rest := io_pop_stream hs []
        obtain ⟨l', hl', he⟩ := io_varintLoop bits fuel (i+1) _ (st.adv 1 []) n r
          (by rw [hst1]; exact h)
        refine ⟨1 + l', by rw [hst1] at hl'; simp only [List.length_cons]; omega, ?_⟩
        refine ioRes_bind l' [] hp rfl rfl ?_
        simp only [hterm, if_false]
        exact he

theorem io_varint {bits n : Nat} {p : List Byte} (hb : WidthOk bits) (hp : PermittedVarint bits n p)
    {st : IOReaderSt} {r : List Byte} (hs : st.stream = p ++ r) :
    decVarintG IOReader bits st = ioRes st n p.length [] := by
  have hd := decVarint_permitted hb hp r
  rw [← hs] at hd
  obtain ⟨l, hl, he⟩ := io_varintLoop bits _ 0 0 st n r hd
  have : l = p.length := by rw [hs, List.length_append] at hl; omega
  subst this
  exact he

/-! ### the exact behaviour of the reader flavour on a permitted message -/

theorem decG_uN {σ : Type} (F : DeFlavor σ) {w : IntW} (hw : w ≠ .w8) (s : σ) :
    decG F (.u w) s = thenG (decVarintG F w.bits s) fun n s' => .ok (.u w n, s') := by
  cases w
  · exact absurd rfl hw
  all_goals simp only [decG]

theorem decG_iN {σ : Type} (F : DeFlavor σ) {w : IntW} (hw : w ≠ .w8) (s : σ) :
    decG F (.i w) s = thenG (decVarintG F w.bits s) fun n s' => .ok (.i w (unzigzag n), s') := by
  cases w
  · exact absurd rfl hw
  all_goals simp only [decG]

theorem decVariantG_some {σ : Type} (F : DeFlavor σ) : ∀ (vts : List Ty) (k idx : Nat) (s : σ)
    (vt : Ty), vts[k]? = some vt → decVariantG F vts k idx s = decVariantG F [vt] 0 idx s
  | [], _, _, _, _, h => by simp at h
  | v :: rest, 0, idx, s, vt, h => by
    simp at h; subst h
    cases v <;> simp only [decVariantG]
  | _ :: rest, k+1, idx, s, vt, h => by
    simp only [decVariantG]
    exact decVariantG_some F rest k idx s vt (by simpa using h)

-- by recursion on the derivation, like `dec_complete`
mutual
theorem io_permitted : ∀ {t : Ty} {v : Val} {p : List Byte}, Permitted t v p →
    ∀ (st : IOReaderSt) (r : List Byte), st.stream = p ++ r →
    decG IOReader t st = ioRes st v p.length (leaves v)
  | _, _, _, .boolFalse, st, r, hs => by
    simp only [decG]
    refine ioRes_bind 0 [] (io_pop hs) rfl (by simp [leaves]) ?_
    simp [ioRes_pure]
  | _, _, _, .boolTrue, st, r, hs => by
    simp only [decG]
    refine ioRes_bind 0 [] (io_pop hs) rfl (by simp [leaves]) ?_
    simp [ioRes_pure]
  | _, _, _, .u8 b, st, r, hs => by
    simp only [decG, leaves]
    exact ioRes_map _ (io_pop hs)
  | _, _, _, .uN w n p hw hp, st, r, hs => by
    rw [decG_uN _ hw]
    simp only [leaves]
    exact ioRes_map _ (io_varint (IntW.widthOk hw) hp hs)
  | _, _, _, .i8 b, st, r, hs => by
    simp only [decG, leaves]
    exact ioRes_map _ (io_pop hs)
  | _, _, _, .iN w n p hw hp, st, r, hs => by
    rw [decG_iN _ hw]
    simp only [leaves]
    exact ioRes_map _ (io_varint (IntW.widthOk hw) hp hs)
  | _, _, _, .f32 bs hl, st, r, hs => by
    simp only [decG, leaves]
    rw [← hl]
    exact ioRes_map _ (io_take hs)
  | _, _, _, .f64 bs hl, st, r, hs => by
    simp only [decG, leaves]
    rw [← hl]
    exact ioRes_map _ (io_take hs)
  | _, _, _, .char c p hs' hp, st, r, hs => by
    have hle := utf8Encode_length_le c
    rw [List.append_assoc] at hs
    simp only [decG, decCharG, leaves, List.length_append]
    refine ioRes_bind (utf8Encode c).length [(utf8Encode c).length] (io_varint widthOk64 hp hs)
      rfl rfl ?_
    simp only [Nat.not_lt.2 hle, if_false]
    refine ioRes_bind 0 [] (io_take (IOReaderSt.adv_stream hs [])) rfl rfl ?_
    simp only [utf8Valid_encode hs', if_true, utf8Next_encode_nil hs', ioRes_pure]
  | _, _, _, .str s p hp hu, st, r, hs => by
    rw [List.append_assoc] at hs
    simp only [decG, leaves, List.length_append]
    refine ioRes_bind s.length [s.length] (io_varint widthOk64 hp hs) rfl rfl ?_
    refine ioRes_bind 0 [] (io_take (IOReaderSt.adv_stream hs [])) rfl rfl ?_
    simp only [hu, if_true, ioRes_pure]
  | _, _, _, .bytes s p hp, st, r, hs => by
    rw [List.append_assoc] at hs
    simp only [decG, leaves, List.length_append]
    refine ioRes_bind s.length [s.length] (io_varint widthOk64 hp hs) rfl rfl ?_
    exact ioRes_map _ (io_take (IOReaderSt.adv_stream hs []))
  | _, _, _, .none t, st, r, hs => by
    simp only [decG]
    refine ioRes_bind 0 [] (io_pop hs) rfl (by simp [leaves]) ?_
    simp [ioRes_pure]
  | _, _, _, .some t v p h, st, r, hs => by
    simp only [decG, leaves]
    refine ioRes_bind p.length (leaves v) (io_pop hs) (by simp [Nat.add_comm]) rfl ?_
    have h10 : ¬ ((1 : Byte) = 0) := by decide
    simp only [h10, if_false, if_true]
    exact ioRes_map _ (io_permitted h _ r (io_pop_stream hs []))
  | _, _, _, .unit, st, r, hs => by simp [decG, leaves, ioRes_pure]
  | _, _, _, .unitStruct, st, r, hs => by simp [decG, leaves, ioRes_pure]
  | _, _, _, .newtypeStruct t v p h, st, r, hs => by
    simp only [decG, leaves]
    exact ioRes_map _ (io_permitted h st r hs)
  | _, _, _, .seq t vs p q hp hq, st, r, hs => by
    rw [List.append_assoc] at hs
    simp only [decG, leaves, List.length_append]
    refine ioRes_bind q.length (leavesList vs) (io_varint widthOk64 hp hs) rfl (by simp) ?_
    exact ioRes_map _ (io_permittedAll hq _ r (IOReaderSt.adv_stream hs []))
  | _, _, _, .tuple ts vs p h, st, r, hs => by
    simp only [decG, leaves]
    exact ioRes_map _ (io_permittedTuple h st r hs)
  | _, _, _, .tupleStruct ts vs p h, st, r, hs => by
    simp only [decG, leaves]
    exact ioRes_map _ (io_permittedTuple h st r hs)
  | _, _, _, .struct ts vs p h, st, r, hs => by
    simp only [decG, leaves]
    exact ioRes_map _ (io_permittedTuple h st r hs)
  | _, _, _, .map k v kvs p q hp hq, st, r, hs => by
    rw [List.append_assoc] at hs
    simp only [decG, leaves, List.length_append]
    refine ioRes_bind q.length (leavesList kvs) (io_varint widthOk64 hp hs) rfl (by simp) ?_
    exact ioRes_map _ (io_permittedKV hq _ r (IOReaderSt.adv_stream hs []))
  | _, _, _, .enum vts idx vt v p q hp hvt hq, st, r, hs => by
    rw [List.append_assoc] at hs
    simp only [decG, List.length_append]
    refine ioRes_bind q.length (leaves v) (io_varint widthOk32 hp hs) rfl (by simp) ?_
    rw [decVariantG_some _ vts idx idx _ vt hvt]
    exact io_permittedVariant hq _ r (IOReaderSt.adv_stream hs [])
theorem io_permittedVariant : ∀ {vt : Ty} {idx : Nat} {v : Val} {p : List Byte},
    PermittedVariant vt idx v p → ∀ (st : IOReaderSt) (r : List Byte), st.stream = p ++ r →
    decVariantG IOReader [vt] 0 idx st = ioRes st v p.length (leaves v)
  | _, _, _, _, .unit idx, st, r, hs => by simp [decVariantG, leaves, ioRes_pure]
  | _, _, _, _, .newtype t idx v p h, st, r, hs => by
    simp only [decVariantG, leaves]
    exact ioRes_map _ (io_permitted h st r hs)
  | _, _, _, _, .tuple ts idx vs p h, st, r, hs => by
    simp only [decVariantG, leaves]
    exact ioRes_map _ (io_permittedTuple h st r hs)
  | _, _, _, _, .struct ts idx vs p h, st, r, hs => by
    simp only [decVariantG, leaves]
    exact ioRes_map _ (io_permittedTuple h st r hs)
theorem io_permittedTuple : ∀ {ts : List Ty} {vs : List Val} {p : List Byte},
    PermittedTuple ts vs p → ∀ (st : IOReaderSt) (r : List Byte), st.stream = p ++ r →
    decTupleG IOReader ts st = ioRes st vs p.length (leavesList vs)
  | _, _, _, .nil, st, r, hs => by simp [decTupleG, leavesList, ioRes_pure]
  | _, _, _, .cons t ts v vs p q h1 h2, st, r, hs => by
    rw [List.append_assoc] at hs
    simp only [decTupleG, leavesList, List.length_append]
    refine ioRes_bind q.length (leavesList vs) (io_permitted h1 st _ hs) rfl rfl ?_
    exact ioRes_map _ (io_permittedTuple h2 _ r (IOReaderSt.adv_stream hs _))
theorem io_permittedAll : ∀ {t : Ty} {vs : List Val} {p : List Byte},
    PermittedAll t vs p → ∀ (st : IOReaderSt) (r : List Byte), st.stream = p ++ r →
    decNG (decG IOReader t) vs.length st = ioRes st vs p.length (leavesList vs)
  | _, _, _, .nil t, st, r, hs => by simp [decNG, leavesList, ioRes_pure]
  | _, _, _, .cons t v vs p q h1 h2, st, r, hs => by
    rw [List.append_assoc] at hs
    simp only [List.length_cons, decNG, leavesList, List.length_append]
    refine ioRes_bind q.length (leavesList vs) (io_permitted h1 st _ hs) rfl rfl ?_
    exact ioRes_map _ (io_permittedAll h2 _ r (IOReaderSt.adv_stream hs _))
theorem io_permittedKV : ∀ {k v : Ty} {kvs : List Val} {p : List Byte},
    PermittedKV k v kvs p → ∀ (st : IOReaderSt) (r : List Byte), st.stream = p ++ r →
    decKVG (decG IOReader k) (decG IOReader v) (kvs.length / 2) st
      = ioRes st kvs p.length (leavesList kvs)
  | _, _, _, _, .nil k v, st, r, hs => by simp [decKVG, leavesList, ioRes_pure]
  | _, _, _, _, .cons k v x y kvs p q s h1 h2 h3, st, r, hs => by
    have hl : (x :: y :: kvs).length / 2 = kvs.length / 2 + 1 := by
      simp only [List.length_cons]; omega
    rw [hl]
    rw [List.append_assoc, List.append_assoc] at hs
    simp only [decKVG, leavesList, List.length_append]
    refine ioRes_bind (q.length + s.length) (leaves y ++ leavesList kvs)
      (io_permitted h1 st _ hs) (by omega) (by simp) ?_
    have hs1 := IOReaderSt.adv_stream hs (leaves x)
    refine ioRes_bind s.length (leavesList kvs) (io_permitted h2 _ _ hs1) rfl rfl ?_
    exact ioRes_map _ (io_permittedKV h3 _ r (IOReaderSt.adv_stream hs1 _))
end

/-! ### the reader flavour as a (lax) instance of the simulation -/

/-- what never changes / what is conserved while the reader flavour runs:
the fault position, the scratch capacity, `delivered + |stream|` (every byte
that leaves the stream is counted as delivered — nothing is read and dropped),
the scratch cursor stays inside the buffer (if it started there), and the slots
handed out since the start (`base` = slots before, `u0` = cursor before) tile
`[u0, scratchUsed)` contiguously. -/
def IOReaderSt.Inv (f : Option Nat) (cap total : Nat) (base : List (Nat × Nat)) (u0 : Nat)
    (st : IOReaderSt) : Prop :=
  st.fault = f ∧ st.scratchCap = cap ∧ st.delivered + st.stream.length = total ∧
  (u0 ≤ cap → st.scratchUsed ≤ cap) ∧
  ∃ lens, st.slots = base ++ mkSlots u0 lens ∧ u0 + lens.sum = st.scratchUsed

theorem IOReaderSt.readExact_ok {st st' : IOReaderSt} {n : Nat} {bs : List Byte}
    (h : st.readExact n = .ok (bs, st')) :
    bs = st.stream.take n ∧
    st' = { st with stream := st.stream.drop n, delivered := st.delivered + n } ∧
    n ≤ st.stream.length := by
  unfold IOReaderSt.readExact at h
  split at h
  · cases h
  · split at h
    · simp only [Except.ok.injEq, Prod.mk.injEq] at h
      exact ⟨h.1.symm, h.2.symm, by omega⟩
    · cases h

theorem IOReaderSt.readExact_err {st : IOReaderSt} {n : Nat} {e : Err}
    (h : st.readExact n = .error e) : e = .unexpectedEnd := by
  unfold IOReaderSt.readExact at h
  split at h
  · cases h; rfl
  · split at h
    · cases h
    · cases h; rfl

/-- with no invariant at all: the reader flavour only ever fails with
`unexpectedEnd`, and what it returns are the next bytes of the stream. -/
theorem IOReader.sim_true : Sim IOReader IOReaderSt.stream (fun _ => True) True where
  pop_ok := by
    intro st b st' _ hp
    simp only [IOReader] at hp
    split at hp
    · cases hp
    · rename_i b' rest hs
      split at hp
      · simp only [Except.ok.injEq, Prod.mk.injEq] at hp
        obtain ⟨rfl, rfl⟩ := hp
        exact ⟨hs, trivial⟩
      · cases hp
  pop_err := by
    intro st e _ hp
    simp only [IOReader] at hp
    split at hp
    · cases hp; exact ⟨rfl, .inr trivial⟩
    · split at hp
      · cases hp
      · cases hp; exact ⟨rfl, .inr trivial⟩
  take_ok := by
    intro st n bs st' _ hp
    simp only [IOReader] at hp
    split at hp
    · cases hp
    · cases hr : st.readExact n with
      | error e => rw [hr] at hp; cases hp
      | ok x =>
        obtain ⟨bs1, st1⟩ := x
        rw [hr] at hp
        simp only [Except.ok.injEq, Prod.mk.injEq] at hp
        obtain ⟨rfl, rfl⟩ := hp
        obtain ⟨rfl, rfl, hn⟩ := IOReaderSt.readExact_ok hr
        refine ⟨(List.take_append_drop n st.stream).symm, ?_, trivial⟩
        simp only [List.length_take]; omega
  take_err := by
    intro st n e _ hp
    simp only [IOReader] at hp
    split at hp
    · cases hp; exact ⟨rfl, .inr trivial⟩
    · cases hr : st.readExact n with
      | error e' =>
        rw [hr] at hp
        cases hp
        exact ⟨IOReaderSt.readExact_err hr, .inr trivial⟩
      | ok x => rw [hr] at hp; cases hp

theorem IOReader.sim (f : Option Nat) (cap total : Nat) (base : List (Nat × Nat)) (u0 : Nat) :
    Sim IOReader IOReaderSt.stream (IOReaderSt.Inv f cap total base u0) True where
  pop_ok := by
    intro st b st' hI hp
    obtain ⟨hv, _⟩ := IOReader.sim_true.pop_ok trivial hp
    obtain ⟨hf, hc, ht, hu, hsl⟩ := hI
    simp only [IOReader] at hp
    split at hp
    · cases hp
    · rename_i b' rest hs
      split at hp
      · simp only [Except.ok.injEq, Prod.mk.injEq] at hp
        obtain ⟨rfl, rfl⟩ := hp
        refine ⟨hs, hf, hc, ?_, hu, hsl⟩
        simp only [hs, List.length_cons] at ht ⊢
        omega
      · cases hp
  pop_err := fun _ hp => IOReader.sim_true.pop_err trivial hp
  take_ok := by
    intro st n bs st' hI hp
    obtain ⟨hf, hc, ht, hu, lens, hsl, hsum⟩ := hI
    simp only [IOReader] at hp
    split at hp
    · cases hp
    · rename_i h1
      cases hr : st.readExact n with
      | error e => rw [hr] at hp; cases hp
      | ok x =>
        obtain ⟨bs1, st1⟩ := x
        rw [hr] at hp
        simp only [Except.ok.injEq, Prod.mk.injEq] at hp
        obtain ⟨rfl, rfl⟩ := hp
        obtain ⟨rfl, rfl, hn⟩ := IOReaderSt.readExact_ok hr
        refine ⟨(List.take_append_drop n st.stream).symm, ?_, hf, hc, ?_, ?_, lens ++ [n], ?_, ?_⟩
        · simp only [List.length_take]; omega
        · simp only [List.length_drop]; omega
        · intro h0; have := hu h0; simp only; omega
        · simp only [mkSlots_append, hsl, hsum, mkSlots, List.append_assoc]
        · simp only [List.sum_append, List.sum_cons, List.sum_nil, Nat.add_zero, ← hsum,
            Nat.add_assoc]
  take_err := fun _ hp => IOReader.sim_true.take_err trivial hp

/-- every state satisfies its own invariant. -/
theorem IOReaderSt.inv_self (st : IOReaderSt) :
    IOReaderSt.Inv st.fault st.scratchCap (st.delivered + st.stream.length) st.slots
      st.scratchUsed st :=
  ⟨rfl, rfl, rfl, id, [], by simp [mkSlots], by simp⟩

/-! ### slots -/

/-- slots are pairwise disjoint, in increasing order, inside `[0, cap)`. -/
def SlotsOk (cap : Nat) (slots : List (Nat × Nat)) : Prop :=
  slots.Pairwise (fun a b => a.1 + a.2 ≤ b.1) ∧ ∀ a ∈ slots, a.1 + a.2 ≤ cap

theorem mkSlots_bounds : ∀ (lens : List Nat) (off : Nat) (a : Nat × Nat),
    a ∈ mkSlots off lens → off ≤ a.1 ∧ a.1 + a.2 ≤ off + lens.sum
  | [], off, a, h => by simp [mkSlots] at h
  | n :: ns, off, a, h => by
    simp only [mkSlots, List.mem_cons] at h
    rcases h with rfl | h
    · simp only [List.sum_cons]; omega
    · have := mkSlots_bounds ns (off + n) a h
      simp only [List.sum_cons]; omega

theorem mkSlots_pairwise : ∀ (lens : List Nat) (off : Nat),
    (mkSlots off lens).Pairwise (fun a b => a.1 + a.2 ≤ b.1)
  | [], off => by simp [mkSlots]
  | n :: ns, off => by
    simp only [mkSlots, List.pairwise_cons]
    exact ⟨fun b hb => (mkSlots_bounds ns (off + n) b hb).1, mkSlots_pairwise ns (off + n)⟩

theorem mkSlots_ok {lens : List Nat} {off cap : Nat} (h : off + lens.sum ≤ cap) :
    SlotsOk cap (mkSlots off lens) :=
  ⟨mkSlots_pairwise lens off, fun a ha => by have := mkSlots_bounds lens off a ha; omega⟩

theorem mkSlots_lengths : ∀ (lens : List Nat) (off : Nat), (mkSlots off lens).map (·.2) = lens
  | [], off => rfl
  | n :: ns, off => by simp [mkSlots, mkSlots_lengths ns]

/-- the slots handed out since the start are pairwise disjoint, increasing,
inside `[u0, cap)`, and the scratch cursor is their end. -/
theorem IOReaderSt.Inv.slots {f : Option Nat} {cap total u0 : Nat} {base : List (Nat × Nat)}
    {st : IOReaderSt} (h : IOReaderSt.Inv f cap total base u0 st) (h0 : u0 ≤ cap) :
    ∃ lens, st.slots = base ++ mkSlots u0 lens ∧ st.scratchUsed = u0 + lens.sum ∧
      st.scratchUsed ≤ cap ∧ SlotsOk cap (mkSlots u0 lens) ∧
      ∀ a ∈ mkSlots u0 lens, u0 ≤ a.1 := by
  obtain ⟨_, _, _, hu, lens, hsl, hsum⟩ := h
  have := hu h0
  exact ⟨lens, hsl, hsum.symm, this, mkSlots_ok (by omega),
    fun a ha => (mkSlots_bounds lens u0 a ha).1⟩

/-! ## D. the writer flavour -/

theorem WriteFl.step_eq (s : WriterSt) (c : Chunk) : WriteFl.step s c = s.writeAll c.bytes := by
  cases c <;> rfl

theorem WriteFlF.step_eq (fl : Bool) (s : WriterSt) (c : Chunk) :
    (WriteFlF fl).step s c = s.writeAll c.bytes := by
  cases c <;> rfl

/-- a sink that never fails accepts everything, in order. -/
theorem WriteFlF.feed_none (fl : Bool) (cs : List Chunk) (w : List Byte) :
    (WriteFlF fl).feed ⟨w, none⟩ cs = (⟨w ++ chunkBytes cs, none⟩, none) := by
  induction cs generalizing w with
  | nil => simp [Flavor.feed]
  | cons c cs ih =>
    simp only [Flavor.feed, WriteFlF.step_eq, WriterSt.writeAll, ih, chunkBytes_cons,
      List.append_assoc]

/-- the fault index is not reached: everything is accepted. -/
theorem WriteFlF.feed_fits (fl : Bool) (cs : List Chunk) (w : List Byte) (k : Nat)
    (h : w.length + (chunkBytes cs).length ≤ k) :
    (WriteFlF fl).feed ⟨w, some k⟩ cs = (⟨w ++ chunkBytes cs, some k⟩, none) := by
  induction cs generalizing w with
  | nil => simp [Flavor.feed]
  | cons c cs ih =>
    simp only [chunkBytes_cons, List.length_append] at h
    simp only [Flavor.feed, WriteFlF.step_eq, WriterSt.writeAll]
    rw [if_pos (by omega)]
    simp only
    rw [ih _ (by simp only [List.length_append]; omega)]
    simp only [chunkBytes_cons, List.append_assoc]

/-- the fault index lies inside the payload: exactly the bytes before it are
accepted, the call containing it fails, nothing after it is attempted. -/
theorem WriteFlF.feed_fault (fl : Bool) (cs : List Chunk) (w : List Byte) (k : Nat)
    (hw : w.length ≤ k) (h : k < w.length + (chunkBytes cs).length) :
    (WriteFlF fl).feed ⟨w, some k⟩ cs =
      (⟨w ++ (chunkBytes cs).take (k - w.length), some k⟩, some .bufferFull) := by
  induction cs generalizing w with
  | nil => simp at h; omega
  | cons c cs ih =>
    simp only [chunkBytes_cons, List.length_append] at h
    simp only [Flavor.feed, WriteFlF.step_eq, WriterSt.writeAll]
    by_cases hfit : w.length + c.bytes.length ≤ k
    · rw [if_pos hfit]
      simp only
      rw [ih _ (by simp only [List.length_append]; omega)
        (by simp only [List.length_append]; omega)]
      have e1 : List.take (k - w.length) (c.bytes ++ chunkBytes cs)
          = c.bytes ++ List.take (k - w.length - c.bytes.length) (chunkBytes cs) := by
        rw [List.take_append, List.take_of_length_le (l := c.bytes) (by omega)]
      have e2 : k - (w ++ c.bytes).length = k - w.length - c.bytes.length := by
        simp only [List.length_append]; omega
      rw [chunkBytes_cons, e1, e2, List.append_assoc]
    · rw [if_neg hfit]
      simp only [chunkBytes_cons, List.take_append]
      rw [Nat.sub_eq_zero_of_le (by omega : k - w.length ≤ c.bytes.length)]
      simp

end Postcard
