import Postcard.Model.SchemaFmt
/-
  Postcard.Lemmas.SchemaFmt — helper definitions and lemmas for property C19:
  lawfulness of the structural equality, the `Subterm` relation, the pure
  reference walk `subterms`, the characterisation of `discoverTys` for both
  settings of `leafPanics`, and infix lemmas for the renderer.
-/
namespace Postcard

/-! ## `Schema.beq` is equality -/

mutual
theorem Schema.beq_refl : ∀ a : Schema, a.beq a = true
  | .bool | .i8 | .u8 | .i16 | .i32 | .i64 | .i128 | .u16 | .u32 | .u64 | .u128
  | .usize | .isize | .f32 | .f64 | .char | .string | .byteArray | .unit | .schema => by
    simp [Schema.beq]
  | .option a => by simp [Schema.beq, Schema.beq_refl a]
  | .seq a => by simp [Schema.beq, Schema.beq_refl a]
  | .tuple as => by simp [Schema.beq, Schema.beqList_refl as]
  | .map k v => by simp [Schema.beq, Schema.beq_refl k, Schema.beq_refl v]
  | .struct n d => by simp [Schema.beq, SData.beq_refl d]
  | .enum n vs => by simp [Schema.beq, SVariant.beqList_refl vs]
theorem Schema.beqList_refl : ∀ a : List Schema, Schema.beqList a a = true
  | [] => by simp [Schema.beqList]
  | a :: as => by simp [Schema.beqList, Schema.beq_refl a, Schema.beqList_refl as]
theorem SData.beq_refl : ∀ a : SData, a.beq a = true
  | .unit => by simp [SData.beq]
  | .newtype a => by simp [SData.beq, Schema.beq_refl a]
  | .tuple as => by simp [SData.beq, Schema.beqList_refl as]
  | .struct fs => by simp [SData.beq, SField.beqList_refl fs]
theorem SField.beqList_refl : ∀ a : List SField, SField.beqList a a = true
  | [] => by simp [SField.beqList]
  | .mk n a :: as => by simp [SField.beqList, Schema.beq_refl a, SField.beqList_refl as]
theorem SVariant.beqList_refl : ∀ a : List SVariant, SVariant.beqList a a = true
  | [] => by simp [SVariant.beqList]
  | .mk n a :: as => by simp [SVariant.beqList, SData.beq_refl a, SVariant.beqList_refl as]
end

mutual
theorem Schema.eq_of_beq (a b : Schema) (h : a.beq b = true) : a = b := by
  cases a <;> cases b <;>
    simp only [Schema.beq, Bool.and_eq_true, beq_iff_eq, Bool.false_eq_true] at h <;> try rfl
  · rename_i a b; rw [Schema.eq_of_beq a b h]
  · rename_i a b; rw [Schema.eq_of_beq a b h]
  · rename_i a b; rw [Schema.eq_of_beqList a b h]
  · rename_i k v k' v'; rw [Schema.eq_of_beq k k' h.1, Schema.eq_of_beq v v' h.2]
  · rename_i n d n' d'; rw [h.1, SData.eq_of_beq d d' h.2]
  · rename_i n d n' d'; rw [h.1, SVariant.eq_of_beqList d d' h.2]
theorem Schema.eq_of_beqList (a b : List Schema) (h : Schema.beqList a b = true) : a = b := by
  cases a <;> cases b <;>
    simp only [Schema.beqList, Bool.and_eq_true, Bool.false_eq_true] at h <;> try rfl
  rename_i a as b bs; rw [Schema.eq_of_beq a b h.1, Schema.eq_of_beqList as bs h.2]
theorem SData.eq_of_beq (a b : SData) (h : a.beq b = true) : a = b := by
  cases a <;> cases b <;> simp only [SData.beq, Bool.false_eq_true] at h <;> try rfl
  · rename_i a b; rw [Schema.eq_of_beq a b h]
  · rename_i a b; rw [Schema.eq_of_beqList a b h]
  · rename_i a b; rw [SField.eq_of_beqList a b h]
theorem SField.eq_of_beqList (a b : List SField) (h : SField.beqList a b = true) : a = b := by
  match a, b, h with
  | [], [], _ => rfl
  | .mk n a :: as, .mk n' b :: bs, h =>
    simp only [SField.beqList, Bool.and_eq_true, beq_iff_eq] at h
    rw [h.1.1, Schema.eq_of_beq a b h.1.2, SField.eq_of_beqList as bs h.2]
  | [], _ :: _, h => simp [SField.beqList] at h
  | _ :: _, [], h => simp [SField.beqList] at h
theorem SVariant.eq_of_beqList (a b : List SVariant) (h : SVariant.beqList a b = true) :
    a = b := by
  match a, b, h with
  | [], [], _ => rfl
  | .mk n a :: as, .mk n' b :: bs, h =>
    simp only [SVariant.beqList, Bool.and_eq_true, beq_iff_eq] at h
    rw [h.1.1, SData.eq_of_beq a b h.1.2, SVariant.eq_of_beqList as bs h.2]
  | [], _ :: _, h => simp [SVariant.beqList] at h
  | _ :: _, [], h => simp [SVariant.beqList] at h
end

/-- The derived `PartialEq` is equality of trees. -/
theorem Schema.beq_iff (a b : Schema) : a.beq b = true ↔ a = b :=
  ⟨Schema.eq_of_beq a b, fun h => h ▸ Schema.beq_refl a⟩

theorem SData.beq_iff (a b : SData) : a.beq b = true ↔ a = b :=
  ⟨SData.eq_of_beq a b, fun h => h ▸ SData.beq_refl a⟩

instance : LawfulBEq Schema where
  eq_of_beq {a b} h := Schema.eq_of_beq a b h
  rfl {a} := Schema.beq_refl a

instance : DecidableEq Schema := fun a b => decidable_of_iff _ (Schema.beq_iff a b)
instance : DecidableEq SData := fun a b => decidable_of_iff _ (SData.beq_iff a b)

theorem nodup_eraseDups_aux {α} [BEq α] [LawfulBEq α] :
    ∀ (n : Nat) (l : List α), l.length ≤ n → l.eraseDups.Nodup
  | _, [], _ => by simp
  | 0, _ :: _, h => by simp at h
  | n+1, a :: as, h => by
    rw [List.eraseDups_cons, List.nodup_cons]
    refine ⟨?_, nodup_eraseDups_aux n _ ?_⟩
    · rw [List.mem_eraseDups]; simp
    · exact Nat.le_trans (List.length_filter_le _ _) (by simpa using h)

theorem nodup_eraseDups {α} [BEq α] [LawfulBEq α] (l : List α) : l.eraseDups.Nodup :=
  nodup_eraseDups_aux l.length l (Nat.le_refl _)

/-! ## Subterms -/

/-- `DataChild t d`: `t` is one of the schemas stored directly in the
struct/variant payload `d`. -/
inductive DataChild : Schema → SData → Prop
  | newtype {t} : DataChild t (.newtype t)
  | tuple {t ts} : t ∈ ts → DataChild t (.tuple ts)
  | field {t fn fs} : SField.mk fn t ∈ fs → DataChild t (.struct fs)

/-- `Child t s`: `t` is stored directly inside the node `s`. -/
inductive Child : Schema → Schema → Prop
  | option {t} : Child t (.option t)
  | seq {t} : Child t (.seq t)
  | tuple {t ts} : t ∈ ts → Child t (.tuple ts)
  | mapKey {k v} : Child k (.map k v)
  | mapVal {k v} : Child v (.map k v)
  | struct {t n d} : DataChild t d → Child t (.struct n d)
  | enum {t n vn d vs} : SVariant.mk vn d ∈ vs → DataChild t d → Child t (.enum n vs)

/-- `Subterm x s`: `x` is `s` or is nested anywhere inside `s`
(reflexive-transitive closure of `Child`). -/
inductive Subterm : Schema → Schema → Prop
  | refl {s} : Subterm s s
  | step {x t s} : Subterm x t → Child t s → Subterm x s

theorem Subterm.trans {x y z : Schema} (h₁ : Subterm x y) (h₂ : Subterm y z) : Subterm x z := by
  induction h₂ with
  | refl => exact h₁
  | step _ c ih => exact .step ih c

theorem Subterm.of_child {t s : Schema} (c : Child t s) : Subterm t s := .step .refl c

mutual
/-- The reference walk: the node itself, then the walks of its children, in
declaration order. -/
def subterms : Schema → List Schema
  | .option t => .option t :: subterms t
  | .seq t => .seq t :: subterms t
  | .tuple ts => .tuple ts :: subtermsList ts
  | .map k v => .map k v :: (subterms k ++ subterms v)
  | .struct n d => .struct n d :: subtermsData d
  | .enum n vs => .enum n vs :: subtermsVariants vs
  | s => [s]
termination_by structural s => s
def subtermsList : List Schema → List Schema
  | [] => []
  | t :: ts => subterms t ++ subtermsList ts
termination_by structural ts => ts
def subtermsData : SData → List Schema
  | .unit => []
  | .newtype t => subterms t
  | .tuple ts => subtermsList ts
  | .struct fs => subtermsFields fs
termination_by structural d => d
def subtermsFields : List SField → List Schema
  | [] => []
  | .mk _ t :: fs => subterms t ++ subtermsFields fs
termination_by structural fs => fs
def subtermsVariants : List SVariant → List Schema
  | [] => []
  | .mk _ d :: vs => subtermsData d ++ subtermsVariants vs
termination_by structural vs => vs
end

theorem self_mem_subterms (s : Schema) : s ∈ subterms s := by
  cases s <;> simp [subterms]

theorem mem_subtermsList {x : Schema} {ts : List Schema} :
    x ∈ subtermsList ts ↔ ∃ t, t ∈ ts ∧ x ∈ subterms t := by
  induction ts with
  | nil => simp [subtermsList]
  | cons t ts ih => simp [subtermsList, ih]

theorem mem_subtermsFields {x : Schema} {fs : List SField} :
    x ∈ subtermsFields fs ↔ ∃ fn t, SField.mk fn t ∈ fs ∧ x ∈ subterms t := by
  induction fs with
  | nil => simp [subtermsFields]
  | cons f fs ih =>
    cases f with
    | mk n t =>
      simp only [subtermsFields, List.mem_append, ih, List.mem_cons]
      constructor
      · rintro (h | ⟨fn, t', hm, hx⟩)
        · exact ⟨n, t, .inl rfl, h⟩
        · exact ⟨fn, t', .inr hm, hx⟩
      · rintro ⟨fn, t', (he | hm), hx⟩
        · cases he; exact .inl hx
        · exact .inr ⟨fn, t', hm, hx⟩

theorem mem_subtermsData {x : Schema} {d : SData} :
    x ∈ subtermsData d ↔ ∃ t, DataChild t d ∧ x ∈ subterms t := by
  cases d with
  | unit => simp [subtermsData]; intro t h; cases h
  | newtype t =>
    simp only [subtermsData]
    exact ⟨fun h => ⟨t, .newtype, h⟩, fun ⟨t', c, h⟩ => by cases c; exact h⟩
  | tuple ts =>
    simp only [subtermsData, mem_subtermsList]
    exact ⟨fun ⟨t, hm, h⟩ => ⟨t, .tuple hm, h⟩, fun ⟨t', c, h⟩ => by cases c with | tuple hm => exact ⟨t', hm, h⟩⟩
  | struct fs =>
    simp only [subtermsData, mem_subtermsFields]
    exact ⟨fun ⟨fn, t, hm, h⟩ => ⟨t, .field hm, h⟩,
           fun ⟨t', c, h⟩ => by cases c with | field hm => exact ⟨_, t', hm, h⟩⟩

theorem mem_subtermsVariants {x : Schema} {vs : List SVariant} :
    x ∈ subtermsVariants vs ↔ ∃ vn d, SVariant.mk vn d ∈ vs ∧ x ∈ subtermsData d := by
  induction vs with
  | nil => simp [subtermsVariants]
  | cons v vs ih =>
    cases v with
    | mk n d =>
      simp only [subtermsVariants, List.mem_append, ih, List.mem_cons]
      constructor
      · rintro (h | ⟨vn, d', hm, hx⟩)
        · exact ⟨n, d, .inl rfl, h⟩
        · exact ⟨vn, d', .inr hm, hx⟩
      · rintro ⟨vn, d', (he | hm), hx⟩
        · cases he; exact .inl hx
        · exact .inr ⟨vn, d', hm, hx⟩

/-- one unfolding of the walk, in terms of `Child`. -/
theorem mem_subterms_iff {x s : Schema} :
    x ∈ subterms s ↔ x = s ∨ ∃ t, Child t s ∧ x ∈ subterms t := by
  cases s with
  | option t =>
    simp only [subterms, List.mem_cons]
    exact ⟨fun h => h.imp id fun h => ⟨t, .option, h⟩,
           fun h => h.imp id fun ⟨t', c, h⟩ => by cases c; exact h⟩
  | seq t =>
    simp only [subterms, List.mem_cons]
    exact ⟨fun h => h.imp id fun h => ⟨t, .seq, h⟩,
           fun h => h.imp id fun ⟨t', c, h⟩ => by cases c; exact h⟩
  | tuple ts =>
    simp only [subterms, List.mem_cons, mem_subtermsList]
    exact ⟨fun h => h.imp id fun ⟨t, hm, h⟩ => ⟨t, .tuple hm, h⟩,
           fun h => h.imp id fun ⟨t', c, h⟩ => by cases c with | tuple hm => exact ⟨t', hm, h⟩⟩
  | map k v =>
    simp only [subterms, List.mem_cons, List.mem_append]
    constructor
    · rintro (h | h | h)
      · exact .inl h
      · exact .inr ⟨k, .mapKey, h⟩
      · exact .inr ⟨v, .mapVal, h⟩
    · rintro (h | ⟨t, c, h⟩)
      · exact .inl h
      · cases c
        · exact .inr (.inl h)
        · exact .inr (.inr h)
  | struct n d =>
    simp only [subterms, List.mem_cons, mem_subtermsData]
    exact ⟨fun h => h.imp id fun ⟨t, c, h⟩ => ⟨t, .struct c, h⟩,
           fun h => h.imp id fun ⟨t', c, h⟩ => by cases c with | struct c => exact ⟨t', c, h⟩⟩
  | «enum» n vs =>
    simp only [subterms, List.mem_cons, mem_subtermsVariants, mem_subtermsData]
    exact ⟨fun h => h.imp id fun ⟨vn, d, hm, t, c, h⟩ => ⟨t, .enum hm c, h⟩,
           fun h => h.imp id fun ⟨t', c, h⟩ => by
             cases c with | «enum» hm c => exact ⟨_, _, hm, t', c, h⟩⟩
  | _ =>
    simp only [subterms, List.mem_singleton]
    exact ⟨.inl, fun h => h.elim id fun ⟨t, c, _⟩ => by cases c⟩

theorem subterms_of_subterm {x s : Schema} (h : Subterm x s) : x ∈ subterms s := by
  induction h with
  | refl => exact self_mem_subterms _
  | step _ c ih => exact mem_subterms_iff.2 (.inr ⟨_, c, ih⟩)

mutual
theorem subterm_of_mem : ∀ (s x : Schema), x ∈ subterms s → Subterm x s
  | .option t, x, h => by
    simp only [subterms, List.mem_cons] at h
    rcases h with rfl | h
    · exact .refl
    · exact (subterm_of_mem t x h).trans (.of_child .option)
  | .seq t, x, h => by
    simp only [subterms, List.mem_cons] at h
    rcases h with rfl | h
    · exact .refl
    · exact (subterm_of_mem t x h).trans (.of_child .seq)
  | .tuple ts, x, h => by
    simp only [subterms, List.mem_cons] at h
    rcases h with rfl | h
    · exact .refl
    · obtain ⟨t, hm, hs⟩ := subterm_of_memList ts x h
      exact hs.trans (.of_child (.tuple hm))
  | .map k v, x, h => by
    simp only [subterms, List.mem_cons, List.mem_append] at h
    rcases h with rfl | h | h
    · exact .refl
    · exact (subterm_of_mem k x h).trans (.of_child .mapKey)
    · exact (subterm_of_mem v x h).trans (.of_child .mapVal)
  | .struct n d, x, h => by
    simp only [subterms, List.mem_cons] at h
    rcases h with rfl | h
    · exact .refl
    · obtain ⟨t, c, hs⟩ := subterm_of_memData d x h
      exact hs.trans (.of_child (.struct c))
  | .enum n vs, x, h => by
    simp only [subterms, List.mem_cons] at h
    rcases h with rfl | h
    · exact .refl
    · obtain ⟨vn, d, hm, t, c, hs⟩ := subterm_of_memVariants vs x h
      exact hs.trans (.of_child (.enum hm c))
  | .bool, x, h | .i8, x, h | .u8, x, h | .i16, x, h | .i32, x, h | .i64, x, h | .i128, x, h
  | .u16, x, h | .u32, x, h | .u64, x, h | .u128, x, h | .usize, x, h | .isize, x, h
  | .f32, x, h | .f64, x, h | .char, x, h | .string, x, h | .byteArray, x, h
  | .unit, x, h | .schema, x, h => by
    simp only [subterms, List.mem_singleton] at h
    subst h; exact .refl
theorem subterm_of_memList : ∀ (ts : List Schema) (x : Schema), x ∈ subtermsList ts →
    ∃ t, t ∈ ts ∧ Subterm x t
  | [], x, h => by simp [subtermsList] at h
  | t :: ts, x, h => by
    simp only [subtermsList, List.mem_append] at h
    rcases h with h | h
    · exact ⟨t, List.mem_cons_self, subterm_of_mem t x h⟩
    · obtain ⟨t', hm, hs⟩ := subterm_of_memList ts x h
      exact ⟨t', List.mem_cons_of_mem _ hm, hs⟩
theorem subterm_of_memData : ∀ (d : SData) (x : Schema), x ∈ subtermsData d →
    ∃ t, DataChild t d ∧ Subterm x t
  | .unit, x, h => by simp [subtermsData] at h
  | .newtype t, x, h => ⟨t, .newtype, subterm_of_mem t x (by simpa [subtermsData] using h)⟩
  | .tuple ts, x, h => by
    obtain ⟨t, hm, hs⟩ := subterm_of_memList ts x (by simpa [subtermsData] using h)
    exact ⟨t, .tuple hm, hs⟩
  | .struct fs, x, h => by
    obtain ⟨fn, t, hm, hs⟩ := subterm_of_memFields fs x (by simpa [subtermsData] using h)
    exact ⟨t, .field hm, hs⟩
theorem subterm_of_memFields : ∀ (fs : List SField) (x : Schema), x ∈ subtermsFields fs →
    ∃ fn t, SField.mk fn t ∈ fs ∧ Subterm x t
  | [], x, h => by simp [subtermsFields] at h
  | .mk n t :: fs, x, h => by
    simp only [subtermsFields, List.mem_append] at h
    rcases h with h | h
    · exact ⟨n, t, List.mem_cons_self, subterm_of_mem t x h⟩
    · obtain ⟨fn, t', hm, hs⟩ := subterm_of_memFields fs x h
      exact ⟨fn, t', List.mem_cons_of_mem _ hm, hs⟩
theorem subterm_of_memVariants : ∀ (vs : List SVariant) (x : Schema), x ∈ subtermsVariants vs →
    ∃ vn d, SVariant.mk vn d ∈ vs ∧ ∃ t, DataChild t d ∧ Subterm x t
  | [], x, h => by simp [subtermsVariants] at h
  | .mk n d :: vs, x, h => by
    simp only [subtermsVariants, List.mem_append] at h
    rcases h with h | h
    · exact ⟨n, d, List.mem_cons_self, subterm_of_memData d x h⟩
    · obtain ⟨vn, d', hm, r⟩ := subterm_of_memVariants vs x h
      exact ⟨vn, d', List.mem_cons_of_mem _ hm, r⟩
end

/-- The reference walk lists exactly the subterms. -/
theorem mem_subterms {x s : Schema} : x ∈ subterms s ↔ Subterm x s :=
  ⟨subterm_of_mem s x, subterms_of_subterm⟩

/-! ## `discoverTys` against the reference walk -/

mutual
/-- A `usize`/`isize`/`schema` node is met by the walk. -/
def hasPanicLeaf : Schema → Bool
  | .usize | .isize | .schema => true
  | .option t => hasPanicLeaf t
  | .seq t => hasPanicLeaf t
  | .tuple ts => hasPanicLeafList ts
  | .map k v => hasPanicLeaf k || hasPanicLeaf v
  | .struct _ d => hasPanicLeafData d
  | .enum _ vs => hasPanicLeafVariants vs
  | _ => false
termination_by structural s => s
def hasPanicLeafList : List Schema → Bool
  | [] => false
  | t :: ts => hasPanicLeaf t || hasPanicLeafList ts
termination_by structural ts => ts
def hasPanicLeafData : SData → Bool
  | .unit => false
  | .newtype t => hasPanicLeaf t
  | .tuple ts => hasPanicLeafList ts
  | .struct fs => hasPanicLeafFields fs
termination_by structural d => d
def hasPanicLeafFields : List SField → Bool
  | [] => false
  | .mk _ t :: fs => hasPanicLeaf t || hasPanicLeafFields fs
termination_by structural fs => fs
def hasPanicLeafVariants : List SVariant → Bool
  | [] => false
  | .mk _ d :: vs => hasPanicLeafData d || hasPanicLeafVariants vs
termination_by structural vs => vs
end

/-- the three kinds on which the unrepaired `discover_tys` panics -/
def isPanicKind : Schema → Bool
  | .usize | .isize | .schema => true
  | _ => false

mutual
theorem hasPanicLeaf_eq : ∀ s : Schema, hasPanicLeaf s = (subterms s).any isPanicKind
  | .option t => by simp [hasPanicLeaf, subterms, isPanicKind, hasPanicLeaf_eq t]
  | .seq t => by simp [hasPanicLeaf, subterms, isPanicKind, hasPanicLeaf_eq t]
  | .tuple ts => by simp [hasPanicLeaf, subterms, isPanicKind, hasPanicLeafList_eq ts]
  | .map k v => by
    simp [hasPanicLeaf, subterms, isPanicKind, hasPanicLeaf_eq k, hasPanicLeaf_eq v]
  | .struct n d => by simp [hasPanicLeaf, subterms, isPanicKind, hasPanicLeafData_eq d]
  | .enum n vs => by simp [hasPanicLeaf, subterms, isPanicKind, hasPanicLeafVariants_eq vs]
  | .bool | .i8 | .u8 | .i16 | .i32 | .i64 | .i128 | .u16 | .u32 | .u64 | .u128
  | .usize | .isize | .f32 | .f64 | .char | .string | .byteArray | .unit | .schema => by
    simp [hasPanicLeaf, subterms, isPanicKind]
theorem hasPanicLeafList_eq : ∀ ts : List Schema,
    hasPanicLeafList ts = (subtermsList ts).any isPanicKind
  | [] => by simp [hasPanicLeafList, subtermsList]
  | t :: ts => by
    simp [hasPanicLeafList, subtermsList, hasPanicLeaf_eq t, hasPanicLeafList_eq ts]
theorem hasPanicLeafData_eq : ∀ d : SData,
    hasPanicLeafData d = (subtermsData d).any isPanicKind
  | .unit => by simp [hasPanicLeafData, subtermsData]
  | .newtype t => by simp [hasPanicLeafData, subtermsData, hasPanicLeaf_eq t]
  | .tuple ts => by simp [hasPanicLeafData, subtermsData, hasPanicLeafList_eq ts]
  | .struct fs => by simp [hasPanicLeafData, subtermsData, hasPanicLeafFields_eq fs]
theorem hasPanicLeafFields_eq : ∀ fs : List SField,
    hasPanicLeafFields fs = (subtermsFields fs).any isPanicKind
  | [] => by simp [hasPanicLeafFields, subtermsFields]
  | .mk _ t :: fs => by
    simp [hasPanicLeafFields, subtermsFields, hasPanicLeaf_eq t, hasPanicLeafFields_eq fs]
theorem hasPanicLeafVariants_eq : ∀ vs : List SVariant,
    hasPanicLeafVariants vs = (subtermsVariants vs).any isPanicKind
  | [] => by simp [hasPanicLeafVariants, subtermsVariants]
  | .mk _ d :: vs => by
    simp [hasPanicLeafVariants, subtermsVariants, hasPanicLeafData_eq d,
      hasPanicLeafVariants_eq vs]
end

/-- the outcome of the walk: with `leafPanics` it panics iff a panic leaf is
met, otherwise (and always on the repaired code) it is the reference walk. -/
def walkOutcome (lp : Bool) (panics : Bool) (l : List Schema) : R (List Schema) :=
  if lp && panics then .error .panic else .ok l

mutual
theorem discoverTys_eq (lp : Bool) : ∀ s : Schema,
    discoverTys lp s = walkOutcome lp (hasPanicLeaf s) (subterms s)
  | .option t => by
    rw [discoverTys, discoverTys_eq lp t]
    cases lp <;> cases h : hasPanicLeaf t <;> simp [walkOutcome, andThen, hasPanicLeaf, subterms, h]
  | .seq t => by
    rw [discoverTys, discoverTys_eq lp t]
    cases lp <;> cases h : hasPanicLeaf t <;> simp [walkOutcome, andThen, hasPanicLeaf, subterms, h]
  | .tuple ts => by
    rw [discoverTys, discoverList_eq lp ts]
    cases lp <;> cases h : hasPanicLeafList ts <;>
      simp [walkOutcome, andThen, hasPanicLeaf, subterms, h]
  | .map k v => by
    rw [discoverTys, discoverTys_eq lp k, discoverTys_eq lp v]
    cases lp <;> cases h : hasPanicLeaf k <;> cases h' : hasPanicLeaf v <;>
      simp [walkOutcome, andThen, hasPanicLeaf, subterms, h, h']
  | .struct n d => by
    rw [discoverTys, discoverData_eq lp d]
    cases lp <;> cases h : hasPanicLeafData d <;>
      simp [walkOutcome, andThen, hasPanicLeaf, subterms, h]
  | .enum n vs => by
    rw [discoverTys, discoverVariants_eq lp vs]
    cases lp <;> cases h : hasPanicLeafVariants vs <;>
      simp [walkOutcome, andThen, hasPanicLeaf, subterms, h]
  | .bool | .i8 | .u8 | .i16 | .i32 | .i64 | .i128 | .u16 | .u32 | .u64 | .u128
  | .usize | .isize | .f32 | .f64 | .char | .string | .byteArray | .unit | .schema => by
    cases lp <;> simp [discoverTys, walkOutcome, hasPanicLeaf, subterms]
theorem discoverList_eq (lp : Bool) : ∀ ts : List Schema,
    discoverList lp ts = walkOutcome lp (hasPanicLeafList ts) (subtermsList ts)
  | [] => by cases lp <;> simp [discoverList, walkOutcome, hasPanicLeafList, subtermsList]
  | t :: ts => by
    rw [discoverList, discoverTys_eq lp t, discoverList_eq lp ts]
    cases lp <;> cases h : hasPanicLeaf t <;> cases h' : hasPanicLeafList ts <;>
      simp [walkOutcome, andThen, hasPanicLeafList, subtermsList, h, h']
theorem discoverData_eq (lp : Bool) : ∀ d : SData,
    discoverData lp d = walkOutcome lp (hasPanicLeafData d) (subtermsData d)
  | .unit => by cases lp <;> simp [discoverData, walkOutcome, hasPanicLeafData, subtermsData]
  | .newtype t => by
    rw [discoverData, discoverTys_eq lp t]; simp [hasPanicLeafData, subtermsData]
  | .tuple ts => by
    rw [discoverData, discoverList_eq lp ts]; simp [hasPanicLeafData, subtermsData]
  | .struct fs => by
    rw [discoverData, discoverFields_eq lp fs]; simp [hasPanicLeafData, subtermsData]
theorem discoverFields_eq (lp : Bool) : ∀ fs : List SField,
    discoverFields lp fs = walkOutcome lp (hasPanicLeafFields fs) (subtermsFields fs)
  | [] => by cases lp <;> simp [discoverFields, walkOutcome, hasPanicLeafFields, subtermsFields]
  | .mk _ t :: fs => by
    rw [discoverFields, discoverTys_eq lp t, discoverFields_eq lp fs]
    cases lp <;> cases h : hasPanicLeaf t <;> cases h' : hasPanicLeafFields fs <;>
      simp [walkOutcome, andThen, hasPanicLeafFields, subtermsFields, h, h']
theorem discoverVariants_eq (lp : Bool) : ∀ vs : List SVariant,
    discoverVariants lp vs = walkOutcome lp (hasPanicLeafVariants vs) (subtermsVariants vs)
  | [] => by
    cases lp <;> simp [discoverVariants, walkOutcome, hasPanicLeafVariants, subtermsVariants]
  | .mk _ d :: vs => by
    rw [discoverVariants, discoverData_eq lp d, discoverVariants_eq lp vs]
    cases lp <;> cases h : hasPanicLeafData d <;> cases h' : hasPanicLeafVariants vs <;>
      simp [walkOutcome, andThen, hasPanicLeafVariants, subtermsVariants, h, h']
end

/-! ## The renderer mentions names -/

theorem infix_mid {α} (a l b : List α) : l <:+: a ++ l ++ b := List.infix_append a l b

theorem fieldName_infix_fieldsTail {fn : Name} {t : Schema} : ∀ {fs : List SField},
    SField.mk fn t ∈ fs → (fn ++ ascii ": " ++ fmtDmt false t) <:+: fmtFieldsTail fs
  | [], h => by simp at h
  | .mk n ty :: fs, h => by
    simp only [List.mem_cons] at h
    rcases h with h | h
    · cases h
      refine ⟨ascii ", ", fmtFieldsTail fs, ?_⟩
      simp [fmtFieldsTail, List.append_assoc]
    · have ih := fieldName_infix_fieldsTail h
      simp only [fmtFieldsTail]
      exact List.infix_append_of_infix_right ih

/-- every field of a struct payload is rendered as `name: ty`. -/
theorem field_infix_fmtData {fn : Name} {t : Schema} {fs : List SField}
    (h : SField.mk fn t ∈ fs) :
    (fn ++ ascii ": " ++ fmtDmt false t) <:+: fmtData (.struct fs) := by
  cases fs with
  | nil => simp at h
  | cons f fs =>
    cases f with
    | mk n ty =>
      simp only [List.mem_cons] at h
      rcases h with h | h
      · cases h
        refine ⟨ascii " { ", fmtFieldsTail fs ++ ascii " }", ?_⟩
        simp [fmtData, List.append_assoc]
      · have ih := fieldName_infix_fieldsTail h
        simp only [fmtData]
        refine List.infix_append_of_infix_left (List.infix_append_of_infix_right ih)

theorem fieldName_infix_fmtData {fn : Name} {t : Schema} {fs : List SField}
    (h : SField.mk fn t ∈ fs) : fn <:+: fmtData (.struct fs) :=
  List.IsInfix.trans
    (by rw [List.append_assoc]; exact (List.prefix_append fn _).isInfix)
    (field_infix_fmtData h)

theorem variant_infix_variantsTail {vn : Name} {d : SData} : ∀ {vs : List SVariant},
    SVariant.mk vn d ∈ vs → (vn ++ fmtData d) <:+: fmtVariantsTail vs
  | [], h => by simp at h
  | .mk n d' :: vs, h => by
    simp only [List.mem_cons] at h
    rcases h with h | h
    · cases h
      refine ⟨ascii ", ", fmtVariantsTail vs, ?_⟩
      simp [fmtVariantsTail, List.append_assoc]
    · have ih := variant_infix_variantsTail h
      simp only [fmtVariantsTail]
      exact List.infix_append_of_infix_right ih

/-- every variant is rendered as its name immediately followed by its payload. -/
theorem variant_infix_variants {vn : Name} {d : SData} {vs : List SVariant}
    (h : SVariant.mk vn d ∈ vs) : (vn ++ fmtData d) <:+: fmtVariants vs := by
  cases vs with
  | nil => simp at h
  | cons v vs =>
    cases v with
    | mk n d' =>
      simp only [List.mem_cons] at h
      rcases h with h | h
      · cases h
        simp only [fmtVariants]
        exact (List.prefix_append _ _).isInfix
      · simp only [fmtVariants]
        exact List.infix_append_of_infix_right (variant_infix_variantsTail h)

theorem fmtVariants_infix_enum (name : Name) (vs : List SVariant) :
    fmtVariants vs <:+: fmtDmt true (.enum name vs) := by
  simp only [fmtDmt, if_true]
  exact infix_mid _ _ _

end Postcard
