import Postcard.Model.Dyn
import Postcard.Model.JsonOf
import Postcard.Lemmas.Varint
import Postcard.Lemmas.SchemaSer
/-
  Postcard.Lemmas.Dyn — lemmas for the `Schema` kind of postcard-dyn (C17/C18):
  A. `schemaOfJson (jsonOfSchema s) = some s` (serde_json `to_value` / `from_value`
     on `OwnedDataModelType` round-trip);
  B. `decOwnedBytes` never reports `.panic` (its fuel, `bs.length + 1`, is never
     exhausted: every nested node consumes at least one byte).
  Everything lives in `namespace Postcard.Dyn`.
-/
set_option linter.unusedSimpArgs false
set_option linter.unusedVariables false

namespace Postcard.Dyn

/-! ## A. JSON form of a schema value -/

theorem kindOfName_kindName (k : SchemaKind) : kindOfName (kindName k) = some k := by
  cases k <;> decide

theorem dataKindOfName_dataKindName (k : DataKind) : dataKindOfName (dataKindName k) = some k := by
  cases k <;> decide

theorem key_ne : (ascii "val" = ascii "key") = False ∧ (ascii "key" = ascii "val") = False ∧
    (ascii "data" = ascii "name") = False ∧
    (ascii "name" = ascii "variants") = False ∧ (ascii "name" = ascii "data") = False ∧
    (ascii "name" = ascii "ty") = False ∧ (ascii "ty" = ascii "name") = False ∧
    (ascii "variants" = ascii "name") = False := by
  refine ⟨?_, ?_, ?_, ?_, ?_, ?_, ?_, ?_⟩ <;> (apply eq_false; decide)

mutual
theorem soj_schema : ∀ s : Schema, schemaOfJson (jsonOfSchema s) = some s
  | .option t => by simp [jsonOfSchema, schemaOfJson, kindOfName_kindName, soj_schema t]
  | .seq t => by simp [jsonOfSchema, schemaOfJson, kindOfName_kindName, soj_schema t]
  | .tuple ts => by simp [jsonOfSchema, schemaOfJson, kindOfName_kindName, soj_list ts]
  | .map k v => by
    simp [jsonOfSchema, schemaOfJson, kindOfName_kindName, schemaGet, key_ne, soj_schema k, soj_schema v]
  | .struct n d => by
    simp [jsonOfSchema, schemaOfJson, kindOfName_kindName, dataGet, nameGet, objGet, key_ne, soj_data d]
  | .enum n vs => by
    simp [jsonOfSchema, schemaOfJson, kindOfName_kindName, variantsGet, nameGet, objGet, key_ne,
      soj_variants vs]
  | .bool => by simp [jsonOfSchema, schemaOfJson, kindOfName_kindName, schemaOfUnitKind]
  | .i8 => by simp [jsonOfSchema, schemaOfJson, kindOfName_kindName, schemaOfUnitKind]
  | .u8 => by simp [jsonOfSchema, schemaOfJson, kindOfName_kindName, schemaOfUnitKind]
  | .i16 => by simp [jsonOfSchema, schemaOfJson, kindOfName_kindName, schemaOfUnitKind]
  | .i32 => by simp [jsonOfSchema, schemaOfJson, kindOfName_kindName, schemaOfUnitKind]
  | .i64 => by simp [jsonOfSchema, schemaOfJson, kindOfName_kindName, schemaOfUnitKind]
  | .i128 => by simp [jsonOfSchema, schemaOfJson, kindOfName_kindName, schemaOfUnitKind]
  | .u16 => by simp [jsonOfSchema, schemaOfJson, kindOfName_kindName, schemaOfUnitKind]
  | .u32 => by simp [jsonOfSchema, schemaOfJson, kindOfName_kindName, schemaOfUnitKind]
  | .u64 => by simp [jsonOfSchema, schemaOfJson, kindOfName_kindName, schemaOfUnitKind]
  | .u128 => by simp [jsonOfSchema, schemaOfJson, kindOfName_kindName, schemaOfUnitKind]
  | .usize => by simp [jsonOfSchema, schemaOfJson, kindOfName_kindName, schemaOfUnitKind]
  | .isize => by simp [jsonOfSchema, schemaOfJson, kindOfName_kindName, schemaOfUnitKind]
  | .f32 => by simp [jsonOfSchema, schemaOfJson, kindOfName_kindName, schemaOfUnitKind]
  | .f64 => by simp [jsonOfSchema, schemaOfJson, kindOfName_kindName, schemaOfUnitKind]
  | .char => by simp [jsonOfSchema, schemaOfJson, kindOfName_kindName, schemaOfUnitKind]
  | .string => by simp [jsonOfSchema, schemaOfJson, kindOfName_kindName, schemaOfUnitKind]
  | .byteArray => by simp [jsonOfSchema, schemaOfJson, kindOfName_kindName, schemaOfUnitKind]
  | .unit => by simp [jsonOfSchema, schemaOfJson, kindOfName_kindName, schemaOfUnitKind]
  | .schema => by simp [jsonOfSchema, schemaOfJson, kindOfName_kindName, schemaOfUnitKind]
theorem soj_list : ∀ ts : List Schema, schemaOfJsonList (jsonOfSchemaList ts) = some ts
  | [] => by simp [jsonOfSchemaList, schemaOfJsonList]
  | t :: ts => by simp [jsonOfSchemaList, schemaOfJsonList, soj_schema t, soj_list ts]
theorem soj_data : ∀ d : SData, dataOfJson (jsonOfData d) = some d
  | .unit => by simp [jsonOfData, dataOfJson, dataKindOfName_dataKindName]
  | .newtype t => by simp [jsonOfData, dataOfJson, dataKindOfName_dataKindName, soj_schema t]
  | .tuple ts => by simp [jsonOfData, dataOfJson, dataKindOfName_dataKindName, soj_list ts]
  | .struct fs => by simp [jsonOfData, dataOfJson, dataKindOfName_dataKindName, soj_fields fs]
theorem soj_fields : ∀ fs : List SField, fieldsOfJsonList (jsonOfFields fs) = some fs
  | [] => by simp [jsonOfFields, fieldsOfJsonList]
  | .mk n t :: fs => by
    simp [jsonOfFields, fieldsOfJsonList, fieldOfJson, nameGet, objGet, schemaGet, key_ne,
      soj_schema t, soj_fields fs]
theorem soj_variants : ∀ vs : List SVariant, variantsOfJsonList (jsonOfVariants vs) = some vs
  | [] => by simp [jsonOfVariants, variantsOfJsonList]
  | .mk n d :: vs => by
    simp [jsonOfVariants, variantsOfJsonList, variantOfJson, nameGet, objGet, dataGet, key_ne,
      soj_data d, soj_variants vs]
end

/-! ## B. `decOwnedBytes` never runs out of fuel -/

/-- `x` is not a panic, and if it succeeds its remainder has at most `n` bytes. -/
def OK {α : Type} (x : R (α × List Byte)) (n : Nat) : Prop :=
  x ≠ .error .panic ∧ ∀ a r, x = .ok (a, r) → r.length ≤ n

theorem OK_ok {α : Type} {a : α} {r : List Byte} {n : Nat} (h : r.length ≤ n) :
    OK (.ok (a, r) : R (α × List Byte)) n :=
  ⟨by simp, by intro a' r' h'; cases h'; exact h⟩

theorem OK_err {α : Type} {e : Err} {n : Nat} (h : e ≠ .panic) : OK (.error e : R (α × List Byte)) n :=
  ⟨by simp [h], by intro a r h'; cases h'⟩

theorem OK_err_of {α β : Type} {x : R (α × List Byte)} {e : Err} {n m : Nat} (h : OK x n)
    (heq : x = .error e) : OK (.error e : R (β × List Byte)) m :=
  OK_err (fun hp => h.1 (by rw [heq, hp]))

theorem OK_mono {α : Type} {x : R (α × List Byte)} {n m : Nat} (h : OK x n) (hnm : n ≤ m) : OK x m :=
  ⟨h.1, fun a r he => Nat.le_trans (h.2 a r he) hnm⟩

/-- the varint reader: never a panic; on success it consumed at least one byte. -/
theorem decVarint_OK (bits : Nat) (bs : List Byte) : OK (decVarint bits bs) (bs.length - 1) := by
  rcases decVarint_cases bits bs with ⟨_, _, he⟩ | he | ⟨q, l, r, rfl, _, _, _, _, he⟩
  · rw [he]; exact OK_err (by decide)
  · rw [he]; exact OK_err (by decide)
  · rw [he]; exact OK_ok (by simp)

theorem decVarint_pos {bits n : Nat} {bs r : List Byte} (h : decVarint bits bs = .ok (n, r)) :
    r.length < bs.length := by
  obtain ⟨q, l, rfl, _⟩ := decVarint_ok_shape h
  simp; omega

theorem takeN_OK (n : Nat) (bs : List Byte) : OK (takeN n bs) bs.length := by
  unfold takeN
  split
  · exact OK_err (by decide)
  · exact OK_ok (by simp)

theorem decName_OK (bs : List Byte) : OK (decName bs) (bs.length - 1) := by
  unfold decName
  have hv := decVarint_OK 64 bs
  split
  · next e heq => exact OK_err_of hv heq
  · next sz r heq =>
    have hr := hv.2 _ _ heq
    have ht := takeN_OK sz r
    split
    · next e heq2 => exact OK_err_of ht heq2
    · next s r' heq2 =>
      have := ht.2 _ _ heq2
      split
      · exact OK_ok (by omega)
      · exact OK_err (by decide)

/-- `f` behaves on every input shorter than `fuel`. -/
def Good {α : Type} (fuel : Nat) (f : List Byte → R (α × List Byte)) : Prop :=
  ∀ bs, bs.length < fuel → OK (f bs) bs.length

theorem decElems_good {α : Type} {fuel : Nat} {f : List Byte → R (α × List Byte)} (hf : Good fuel f) :
    ∀ n, Good fuel (decElems f n)
  | 0 => fun bs _ => OK_ok (Nat.le_refl _)
  | n + 1 => fun bs hbs => by
    unfold decElems
    have h1 := hf bs hbs
    split
    · next e heq => exact OK_err_of h1 heq
    · next v r heq =>
      have hr := h1.2 _ _ heq
      have h2 := decElems_good hf n r (by omega)
      split
      · next e heq2 => exact OK_err_of h2 heq2
      · next vs r' heq2 => exact OK_ok (by have := h2.2 _ _ heq2; omega)

theorem decBoxSlice_good {α : Type} {fuel : Nat} {f : List Byte → R (α × List Byte)} (hf : Good fuel f) :
    Good fuel (decBoxSlice f) := fun bs hbs => by
  unfold decBoxSlice
  have hv := decVarint_OK 64 bs
  split
  · next e heq => exact OK_err_of hv heq
  · next n r heq =>
    have hr := hv.2 _ _ heq
    exact OK_mono (decElems_good hf n r (by omega)) (by omega)

theorem decField_good {fuel : Nat} {f : List Byte → R (Schema × List Byte)} (hf : Good fuel f) :
    Good fuel (decField f) := fun bs hbs => by
  unfold decField
  have hv := decName_OK bs
  split
  · next e heq => exact OK_err_of hv heq
  · next n r heq =>
    have hr := hv.2 _ _ heq
    have h2 := hf r (by omega)
    split
    · next e heq2 => exact OK_err_of h2 heq2
    · next t r' heq2 => exact OK_ok (by have := h2.2 _ _ heq2; omega)

theorem decVariantEntry_good {fuel : Nat} {f : List Byte → R (SData × List Byte)} (hf : Good fuel f) :
    Good fuel (decVariantEntry f) := fun bs hbs => by
  unfold decVariantEntry
  have hv := decName_OK bs
  split
  · next e heq => exact OK_err_of hv heq
  · next n r heq =>
    have hr := hv.2 _ _ heq
    have h2 := hf r (by omega)
    split
    · next e heq2 => exact OK_err_of h2 heq2
    · next t r' heq2 => exact OK_ok (by have := h2.2 _ _ heq2; omega)

/-- closes `OK (match x with | .error e => .error e | .ok (a, r) => .ok (g a, r)) n` from `h : OK x m`
(`m ≤ n` by `omega` from the context). -/
syntax "ok_map " term : tactic
macro_rules
  | `(tactic| ok_map $h) =>
    `(tactic| (split
               · next _ heq => exact OK_err_of $h heq
               · next _ _ heq => exact OK_ok (by have := ($h).2 _ _ heq; omega)))

theorem decOwned_step (fuel : Nat) (ih1 : Good fuel (decOwned fuel)) (ih2 : Good fuel (decOwnedData fuel)) :
    Good (fuel + 1) (decOwned (fuel + 1)) := fun bs hbs => by
  rw [decOwned]
  have hv := decVarint_OK 32 bs
  split
  · next e heq => exact OK_err_of hv heq
  · next idx r heq =>
    have hr := decVarint_pos heq
    have hrf : r.length < fuel := by omega
    split
    all_goals first
      | exact OK_err (by decide)
      | exact OK_ok (by omega)
      | skip
    · -- option
      have hh := ih1 r hrf
      ok_map hh
    · -- seq
      have hh := ih1 r hrf
      ok_map hh
    · -- tuple
      have hh := decBoxSlice_good ih1 r hrf
      ok_map hh
    · -- map
      have h1 := ih1 r hrf
      split
      · next e heq1 => exact OK_err_of h1 heq1
      · next k r' heq1 =>
        have hr' := h1.2 _ _ heq1
        have hh := ih1 r' (by omega)
        ok_map hh
    · -- struct
      have h1 := decName_OK r
      split
      · next e heq1 => exact OK_err_of h1 heq1
      · next n r' heq1 =>
        have hr' := h1.2 _ _ heq1
        have hh := ih2 r' (by omega)
        ok_map hh
    · -- enum
      have h1 := decName_OK r
      split
      · next e heq1 => exact OK_err_of h1 heq1
      · next n r' heq1 =>
        have hr' := h1.2 _ _ heq1
        have hh := decBoxSlice_good (decVariantEntry_good ih2) r' (by omega)
        ok_map hh

theorem decOwnedData_step (fuel : Nat) (ih1 : Good fuel (decOwned fuel)) :
    Good (fuel + 1) (decOwnedData (fuel + 1)) := fun bs hbs => by
  rw [decOwnedData]
  have hv := decVarint_OK 32 bs
  split
  · next e heq => exact OK_err_of hv heq
  · next idx r heq =>
    have hr := decVarint_pos heq
    have hrf : r.length < fuel := by omega
    split
    all_goals first
      | exact OK_err (by decide)
      | exact OK_ok (by omega)
      | skip
    · have hh := ih1 r hrf
      ok_map hh
    · have hh := decBoxSlice_good ih1 r hrf
      ok_map hh
    · have hh := decBoxSlice_good (decField_good ih1) r hrf
      ok_map hh

theorem decOwned_good : ∀ fuel, Good fuel (decOwned fuel) ∧ Good fuel (decOwnedData fuel)
  | 0 => ⟨fun bs h => by omega, fun bs h => by omega⟩
  | fuel + 1 =>
    have ih := decOwned_good fuel
    ⟨decOwned_step fuel ih.1 ih.2, decOwnedData_step fuel ih.1⟩

/-- `postcard::take_from_bytes::<OwnedDataModelType>`: the model's fuel is never
exhausted, on ANY input (every nested node consumes at least one byte). -/
theorem decOwnedBytes_no_panic (bs : List Byte) : decOwnedBytes bs ≠ .error .panic :=
  ((decOwned_good (bs.length + 1)).1 bs (by omega)).1

/-- and it never returns more bytes than it was given. -/
theorem decOwnedBytes_rest_le {bs r : List Byte} {s : Schema} (h : decOwnedBytes bs = .ok (s, r)) :
    r.length ≤ bs.length :=
  ((decOwned_good (bs.length + 1)).1 bs (by omega)).2 s r h

end Postcard.Dyn
