import Postcard.Model.SchemaHash
import Postcard.Spec.Fnv
/-
  Postcard.Lemmas.Fnv — helper definitions and lemmas for Props/C16.lean.

  Contents
  * constants / `hashUpdate` = `Spec.fnv1aFrom`, append lemmas
  * both tree hashers = `hashUpdate` over `Spec.stream` (mutual induction)
  * FNV-1a round is a bijection in the state and injective in the byte
  * `Diff1`: two byte strings that differ in exactly one position
  * little-endian rendering is injective
  * one-hole schema contexts (`Frame`, `plug`) and how the stream sees them
  * `eraseTypeNames`
  * `LeafKind`
-/
namespace Postcard
open Spec

/-! ## constants, `hashUpdate` -/

theorem FNV_PRIME_eq : FNV_PRIME = Spec.fnvPrime := by decide
theorem FNV_BASIS_eq : FNV_BASIS = Spec.fnvBasis := by decide

theorem hashUpdate_nil (st : UInt64) : hashUpdate st [] = st := rfl

theorem hashUpdate_cons (st : UInt64) (b : Byte) (bs : List Byte) :
    hashUpdate st (b :: bs) = hashUpdate (Spec.fnvStep st b) bs := by
  simp [hashUpdate, Spec.fnvStep, FNV_PRIME_eq]

theorem hashUpdate_single (st : UInt64) (b : Byte) :
    hashUpdate st [b] = Spec.fnvStep st b := by
  simp [hashUpdate_cons, hashUpdate_nil]

theorem hashUpdate_eq_fnv1aFrom (st : UInt64) (bs : List Byte) :
    hashUpdate st bs = Spec.fnv1aFrom st bs := by
  induction bs generalizing st with
  | nil => rfl
  | cons b bs ih => simp [hashUpdate_cons, ih, Spec.fnv1aFrom]

theorem hashUpdate_append (st : UInt64) (xs ys : List Byte) :
    hashUpdate st (xs ++ ys) = hashUpdate (hashUpdate st xs) ys := by
  induction xs generalizing st with
  | nil => rfl
  | cons b bs ih => simp [hashUpdate_cons, ih]

theorem hashUpdate_cons' (st : UInt64) (b : Byte) (bs : List Byte) :
    hashUpdate st (b :: bs) = hashUpdate (hashUpdate st [b]) bs := by
  simp [hashUpdate_cons, hashUpdate_nil]

theorem fnv1aFrom_append (st : UInt64) (xs ys : List Byte) :
    Spec.fnv1aFrom st (xs ++ ys) = Spec.fnv1aFrom (Spec.fnv1aFrom st xs) ys := by
  simp [Spec.fnv1aFrom, List.foldl_append]

/-! ## both tree hashers fold `hashUpdate` over the spec stream -/

mutual
theorem hashSdmType_eq (st : UInt64) (s : Schema) :
    hashSdmType st s = hashUpdate st (Spec.stream s) := by
  cases s with
  | option t => simp [hashSdmType, Spec.stream, Spec.tag, hashSdmType_eq _ t, ← hashUpdate_cons']
  | seq t => simp [hashSdmType, Spec.stream, Spec.tag, hashSdmType_eq _ t, ← hashUpdate_cons']
  | tuple ts =>
    simp [hashSdmType, Spec.stream, Spec.tag, hashSdmTypeList_eq _ ts, ← hashUpdate_cons']
  | map k v =>
    simp [hashSdmType, Spec.stream, Spec.tag, hashSdmType_eq _ k, hashSdmType_eq _ v,
      ← hashUpdate_cons']
    rw [← List.cons_append, hashUpdate_append]
  | struct n d => simp [hashSdmType, Spec.stream, hashStruct_eq _ n d]
  | «enum» n vs =>
    simp [hashSdmType, Spec.stream, Spec.tag, hashVariantList_eq _ vs, ← hashUpdate_cons']
  | _ => simp [hashSdmType, Spec.stream, Spec.tag]
theorem hashSdmTypeList_eq (st : UInt64) (ts : List Schema) :
    hashSdmTypeList st ts = hashUpdate st (Spec.streamList ts) := by
  cases ts with
  | nil => simp [hashSdmTypeList, Spec.streamList, hashUpdate_nil]
  | cons t ts =>
    simp [hashSdmTypeList, Spec.streamList, hashUpdate_append, hashSdmType_eq _ t,
      hashSdmTypeList_eq _ ts]
theorem hashStruct_eq (st : UInt64) (n : Name) (d : SData) :
    hashStruct st n d = hashUpdate st (Spec.streamStructData d) := by
  cases d with
  | unit => simp [hashStruct, Spec.streamStructData, Spec.tag]
  | newtype t =>
    simp [hashStruct, Spec.streamStructData, Spec.tag, hashSdmType_eq _ t, ← hashUpdate_cons']
  | tuple ts =>
    simp [hashStruct, Spec.streamStructData, Spec.tag, hashSdmTypeList_eq _ ts,
      ← hashUpdate_cons']
  | struct fs =>
    simp [hashStruct, Spec.streamStructData, Spec.tag, hashNamedFieldList_eq _ fs,
      ← hashUpdate_cons']
theorem hashVariant_eq (st : UInt64) (v : SVariant) :
    hashVariant st v = hashUpdate st (Spec.streamVariant v) := by
  cases v with
  | mk name d =>
    cases d with
    | unit =>
      simp [hashVariant, Spec.streamVariant, Spec.streamVariantData, Spec.tag, hashUpdate_append]
    | newtype t =>
      simp [hashVariant, Spec.streamVariant, Spec.streamVariantData, Spec.tag, hashUpdate_append,
        hashSdmType_eq _ t, ← hashUpdate_cons']
    | tuple ts =>
      simp [hashVariant, Spec.streamVariant, Spec.streamVariantData, Spec.tag, hashUpdate_append,
        hashSdmTypeList_eq _ ts, ← hashUpdate_cons']
    | struct fs =>
      simp [hashVariant, Spec.streamVariant, Spec.streamVariantData, Spec.tag, hashUpdate_append,
        hashNamedFieldList_eq _ fs, ← hashUpdate_cons']
theorem hashVariantList_eq (st : UInt64) (vs : List SVariant) :
    hashVariantList st vs = hashUpdate st (Spec.streamVariants vs) := by
  cases vs with
  | nil => simp [hashVariantList, Spec.streamVariants, hashUpdate_nil]
  | cons v vs =>
    simp [hashVariantList, Spec.streamVariants, hashUpdate_append, hashVariant_eq _ v,
      hashVariantList_eq _ vs]
theorem hashNamedField_eq (st : UInt64) (f : SField) :
    hashNamedField st f = hashUpdate st (Spec.streamField f) := by
  cases f with
  | mk name ty =>
    simp [hashNamedField, Spec.streamField, hashUpdate_append, hashSdmType_eq _ ty]
theorem hashNamedFieldList_eq (st : UInt64) (fs : List SField) :
    hashNamedFieldList st fs = hashUpdate st (Spec.streamFields fs) := by
  cases fs with
  | nil => simp [hashNamedFieldList, Spec.streamFields, hashUpdate_nil]
  | cons f fs =>
    simp [hashNamedFieldList, Spec.streamFields, hashUpdate_append, hashNamedField_eq _ f,
      hashNamedFieldList_eq _ fs]
end

mutual
theorem hashSdmTypeOwned_eq (st : UInt64) (s : Schema) :
    hashSdmTypeOwned st s = hashUpdate st (Spec.stream s) := by
  cases s with
  | option t =>
    simp [hashSdmTypeOwned, Spec.stream, Spec.tag, hashSdmTypeOwned_eq _ t, ← hashUpdate_cons']
  | seq t =>
    simp [hashSdmTypeOwned, Spec.stream, Spec.tag, hashSdmTypeOwned_eq _ t, ← hashUpdate_cons']
  | tuple ts =>
    simp [hashSdmTypeOwned, Spec.stream, Spec.tag, hashSdmTypeOwnedList_eq _ ts,
      ← hashUpdate_cons']
  | map k v =>
    simp [hashSdmTypeOwned, Spec.stream, Spec.tag, hashSdmTypeOwned_eq _ k,
      hashSdmTypeOwned_eq _ v, ← hashUpdate_cons']
    rw [← List.cons_append, hashUpdate_append]
  | struct n d => simp [hashSdmTypeOwned, Spec.stream, hashStructOwned_eq _ n d]
  | «enum» n vs =>
    simp [hashSdmTypeOwned, Spec.stream, Spec.tag, hashVariantOwnedList_eq _ vs,
      ← hashUpdate_cons']
  | _ => simp [hashSdmTypeOwned, Spec.stream, Spec.tag]
theorem hashSdmTypeOwnedList_eq (st : UInt64) (ts : List Schema) :
    hashSdmTypeOwnedList st ts = hashUpdate st (Spec.streamList ts) := by
  cases ts with
  | nil => simp [hashSdmTypeOwnedList, Spec.streamList, hashUpdate_nil]
  | cons t ts =>
    simp [hashSdmTypeOwnedList, Spec.streamList, hashUpdate_append, hashSdmTypeOwned_eq _ t,
      hashSdmTypeOwnedList_eq _ ts]
theorem hashStructOwned_eq (st : UInt64) (n : Name) (d : SData) :
    hashStructOwned st n d = hashUpdate st (Spec.streamStructData d) := by
  cases d with
  | unit => simp [hashStructOwned, Spec.streamStructData, Spec.tag]
  | newtype t =>
    simp [hashStructOwned, Spec.streamStructData, Spec.tag, hashSdmTypeOwned_eq _ t,
      ← hashUpdate_cons']
  | tuple ts =>
    simp [hashStructOwned, Spec.streamStructData, Spec.tag, hashSdmTypeOwnedList_eq _ ts,
      ← hashUpdate_cons']
  | struct fs =>
    simp [hashStructOwned, Spec.streamStructData, Spec.tag, hashNamedFieldOwnedList_eq _ fs,
      ← hashUpdate_cons']
theorem hashVariantOwned_eq (st : UInt64) (v : SVariant) :
    hashVariantOwned st v = hashUpdate st (Spec.streamVariant v) := by
  cases v with
  | mk name d =>
    cases d with
    | unit =>
      simp [hashVariantOwned, Spec.streamVariant, Spec.streamVariantData, Spec.tag,
        hashUpdate_append]
    | newtype t =>
      simp [hashVariantOwned, Spec.streamVariant, Spec.streamVariantData, Spec.tag,
        hashUpdate_append, hashSdmTypeOwned_eq _ t, ← hashUpdate_cons']
    | tuple ts =>
      simp [hashVariantOwned, Spec.streamVariant, Spec.streamVariantData, Spec.tag,
        hashUpdate_append, hashSdmTypeOwnedList_eq _ ts, ← hashUpdate_cons']
    | struct fs =>
      simp [hashVariantOwned, Spec.streamVariant, Spec.streamVariantData, Spec.tag,
        hashUpdate_append, hashNamedFieldOwnedList_eq _ fs, ← hashUpdate_cons']
theorem hashVariantOwnedList_eq (st : UInt64) (vs : List SVariant) :
    hashVariantOwnedList st vs = hashUpdate st (Spec.streamVariants vs) := by
  cases vs with
  | nil => simp [hashVariantOwnedList, Spec.streamVariants, hashUpdate_nil]
  | cons v vs =>
    simp [hashVariantOwnedList, Spec.streamVariants, hashUpdate_append, hashVariantOwned_eq _ v,
      hashVariantOwnedList_eq _ vs]
theorem hashNamedFieldOwned_eq (st : UInt64) (f : SField) :
    hashNamedFieldOwned st f = hashUpdate st (Spec.streamField f) := by
  cases f with
  | mk name ty =>
    simp [hashNamedFieldOwned, Spec.streamField, hashUpdate_append, hashSdmTypeOwned_eq _ ty]
theorem hashNamedFieldOwnedList_eq (st : UInt64) (fs : List SField) :
    hashNamedFieldOwnedList st fs = hashUpdate st (Spec.streamFields fs) := by
  cases fs with
  | nil => simp [hashNamedFieldOwnedList, Spec.streamFields, hashUpdate_nil]
  | cons f fs =>
    simp [hashNamedFieldOwnedList, Spec.streamFields, hashUpdate_append,
      hashNamedFieldOwned_eq _ f, hashNamedFieldOwnedList_eq _ fs]
end

/-! ## the FNV-1a round -/

/-- multiplicative inverse of the FNV prime modulo 2^64 -/
def pinv : UInt64 := 0xce965057aff6957b

theorem prime_mul_pinv : Spec.fnvPrime * pinv = 1 := by decide

theorem mul_prime_inj {a b : UInt64} (h : a * Spec.fnvPrime = b * Spec.fnvPrime) : a = b := by
  have h' := congrArg (· * pinv) h
  simpa [UInt64.mul_assoc, prime_mul_pinv] using h'

theorem xor_left_cancel {s a b : UInt64} (h : s ^^^ a = s ^^^ b) : a = b := by
  have h' := congrArg (s ^^^ ·) h
  simpa [← UInt64.xor_assoc] using h'

theorem xor_right_cancel {s t a : UInt64} (h : s ^^^ a = t ^^^ a) : s = t := by
  have h' := congrArg (· ^^^ a) h
  simpa [UInt64.xor_assoc] using h'

theorem toUInt64_inj {a b : UInt8} (h : a.toUInt64 = b.toUInt64) : a = b := by
  have h' := congrArg UInt64.toUInt8 h
  simpa using h'

theorem fnvStep_inj_state {b : Byte} {h h' : UInt64}
    (e : Spec.fnvStep h b = Spec.fnvStep h' b) : h = h' :=
  xor_right_cancel (mul_prime_inj e)

theorem fnvStep_inj_byte {h : UInt64} {b b' : Byte}
    (e : Spec.fnvStep h b = Spec.fnvStep h b') : b = b' :=
  toUInt64_inj (xor_left_cancel (mul_prime_inj e))

/-- Absorbing a fixed byte string is injective in the start state. -/
theorem fnv1aFrom_inj_state (bs : List Byte) {h h' : UInt64}
    (e : Spec.fnv1aFrom h bs = Spec.fnv1aFrom h' bs) : h = h' := by
  induction bs generalizing h h' with
  | nil => simpa [Spec.fnv1aFrom] using e
  | cons b bs ih =>
    have : Spec.fnv1aFrom (Spec.fnvStep h b) bs = Spec.fnv1aFrom (Spec.fnvStep h' b) bs := by
      simpa [Spec.fnv1aFrom] using e
    exact fnvStep_inj_state (ih this)

/-! ## byte strings that differ in exactly one position -/

/-- `xs` and `ys` have the same length and differ in exactly one position. -/
def Diff1 (xs ys : List Byte) : Prop :=
  ∃ pre a b post, a ≠ b ∧ xs = pre ++ a :: post ∧ ys = pre ++ b :: post

theorem Diff1.wrap {xs ys : List Byte} (h : Diff1 xs ys) (p q : List Byte) :
    Diff1 (p ++ xs ++ q) (p ++ ys ++ q) := by
  obtain ⟨pre, a, b, post, hab, rfl, rfl⟩ := h
  exact ⟨p ++ pre, a, b, post ++ q, hab, by simp, by simp⟩

theorem Diff1.ne {xs ys : List Byte} (h : Diff1 xs ys) : xs ≠ ys := by
  obtain ⟨pre, a, b, post, hab, rfl, rfl⟩ := h
  intro e
  have := List.append_cancel_left e
  simp at this
  exact hab this

theorem Diff1.length_eq {xs ys : List Byte} (h : Diff1 xs ys) : xs.length = ys.length := by
  obtain ⟨pre, a, b, post, _, rfl, rfl⟩ := h
  simp

/-- index formulation ⇒ `Diff1` -/
theorem diff1_of_index : ∀ (xs ys : List Byte), xs.length = ys.length →
    (∃ i : Nat, xs[i]? ≠ ys[i]? ∧ ∀ j : Nat, j ≠ i → xs[j]? = ys[j]?) → Diff1 xs ys
  | [], [], _, ⟨i, hne, _⟩ => by simp at hne
  | [], _ :: _, hl, _ => by simp at hl
  | _ :: _, [], hl, _ => by simp at hl
  | x :: xs, y :: ys, hl, ⟨i, hne, hrest⟩ => by
    cases i with
    | zero =>
      have hxy : x ≠ y := by simpa using hne
      have htl : xs = ys := by
        apply List.ext_getElem?
        intro j
        have := hrest (j + 1) (by omega)
        simpa using this
      subst htl
      exact ⟨[], x, y, xs, hxy, rfl, rfl⟩
    | succ i =>
      have hx : x = y := by simpa using hrest 0 (by omega)
      subst hx
      have hl' : xs.length = ys.length := by simpa using hl
      have : Diff1 xs ys := diff1_of_index xs ys hl' ⟨i, by simpa using hne, fun j hj => by
        have := hrest (j + 1) (by omega)
        simpa using this⟩
      obtain ⟨pre, a, b, post, hab, rfl, rfl⟩ := this
      exact ⟨x :: pre, a, b, post, hab, rfl, rfl⟩

/-- The FNV-1a state separates byte strings that differ in exactly one
position, from any start state. -/
theorem fnv1aFrom_ne_of_diff1 (h : UInt64) {xs ys : List Byte} (d : Diff1 xs ys) :
    Spec.fnv1aFrom h xs ≠ Spec.fnv1aFrom h ys := by
  obtain ⟨pre, a, b, post, hab, rfl, rfl⟩ := d
  intro e
  rw [fnv1aFrom_append, fnv1aFrom_append] at e
  have e' : Spec.fnv1aFrom (Spec.fnvStep (Spec.fnv1aFrom h pre) a) post
      = Spec.fnv1aFrom (Spec.fnvStep (Spec.fnv1aFrom h pre) b) post := by
    simpa [Spec.fnv1aFrom] using e
  exact hab (fnvStep_inj_byte (fnv1aFrom_inj_state post e'))

/-! ## little-endian rendering is injective -/

theorem ofLeBytes_leBytes_mod (k n : Nat) : ofLeBytes (leBytes k n) = n % 256 ^ k := by
  induction k generalizing n with
  | zero => simp [leBytes, ofLeBytes, Nat.mod_one]
  | succ k ih =>
    simp only [leBytes, ofLeBytes, ih]
    have h1 : (UInt8.ofNat (n % 256)).toNat = n % 256 := by
      simp [UInt8.toNat_ofNat']
    rw [h1, Nat.pow_succ, Nat.mul_comm (256 ^ k) 256, Nat.mod_mul]

theorem le64_inj {x y : UInt64} (h : Spec.le64 x = Spec.le64 y) : x = y := by
  have h' := congrArg ofLeBytes h
  simp only [Spec.le64, ofLeBytes_leBytes_mod] at h'
  have hx : x.toNat % 256 ^ 8 = x.toNat := Nat.mod_eq_of_lt (by have := x.toNat_lt; omega)
  have hy : y.toNat % 256 ^ 8 = y.toNat := Nat.mod_eq_of_lt (by have := y.toNat_lt; omega)
  rw [hx, hy] at h'
  exact UInt64.toNat_inj.mp h'

theorem u64le_eq_le64 (x : UInt64) : u64le x = Spec.le64 x := rfl

theorem u64le_inj {x y : UInt64} (h : u64le x = u64le y) : x = y := le64_inj h

/-! ## stream of lists -/

theorem streamList_append (xs ys : List Schema) :
    Spec.streamList (xs ++ ys) = Spec.streamList xs ++ Spec.streamList ys := by
  induction xs with
  | nil => simp [Spec.streamList]
  | cons x xs ih => simp [Spec.streamList, ih]

theorem streamFields_append (xs ys : List SField) :
    Spec.streamFields (xs ++ ys) = Spec.streamFields xs ++ Spec.streamFields ys := by
  induction xs with
  | nil => simp [Spec.streamFields]
  | cons x xs ih => simp [Spec.streamFields, ih]

theorem streamVariants_append (xs ys : List SVariant) :
    Spec.streamVariants (xs ++ ys) = Spec.streamVariants xs ++ Spec.streamVariants ys := by
  induction xs with
  | nil => simp [Spec.streamVariants]
  | cons x xs ih => simp [Spec.streamVariants, ih]

theorem streamList_single (t : Schema) : Spec.streamList [t] = Spec.stream t := by
  simp [Spec.streamList]
theorem streamFields_single (f : SField) : Spec.streamFields [f] = Spec.streamField f := by
  simp [Spec.streamFields]
theorem streamVariants_single (v : SVariant) : Spec.streamVariants [v] = Spec.streamVariant v := by
  simp [Spec.streamVariants]

/-! ## one-hole contexts

A `Frame` is one step from a node to one of its `Schema`-typed children; a
context is a list of frames (outermost first).  Every position in a schema tree
at which a `Schema` can sit is reached by exactly one context. -/

inductive Frame
  | option
  | seq
  | tupleElem (pre post : List Schema)
  | mapKey (val : Schema)
  | mapVal (key : Schema)
  | structNewtype (n : Name)
  | structTupleElem (n : Name) (pre post : List Schema)
  | structField (n : Name) (pre : List SField) (fname : Name) (post : List SField)
  | variantNewtype (n : Name) (pre : List SVariant) (vname : Name) (post : List SVariant)
  | variantTupleElem (n : Name) (pre : List SVariant) (vname : Name)
      (tpre tpost : List Schema) (post : List SVariant)
  | variantField (n : Name) (pre : List SVariant) (vname : Name)
      (fpre : List SField) (fname : Name) (fpost : List SField) (post : List SVariant)

def Frame.plug : Frame → Schema → Schema
  | .option, s => .option s
  | .seq, s => .seq s
  | .tupleElem pre post, s => .tuple (pre ++ [s] ++ post)
  | .mapKey v, s => .map s v
  | .mapVal k, s => .map k s
  | .structNewtype n, s => .struct n (.newtype s)
  | .structTupleElem n pre post, s => .struct n (.tuple (pre ++ [s] ++ post))
  | .structField n pre fname post, s => .struct n (.struct (pre ++ [.mk fname s] ++ post))
  | .variantNewtype n pre vname post, s => .enum n (pre ++ [.mk vname (.newtype s)] ++ post)
  | .variantTupleElem n pre vname tpre tpost post, s =>
    .enum n (pre ++ [.mk vname (.tuple (tpre ++ [s] ++ tpost))] ++ post)
  | .variantField n pre vname fpre fname fpost post, s =>
    .enum n (pre ++ [.mk vname (.struct (fpre ++ [.mk fname s] ++ fpost))] ++ post)

/-- bytes the stream emits before the hole -/
def Frame.before : Frame → List Byte
  | .option => [Spec.tag .option]
  | .seq => [Spec.tag .seq]
  | .tupleElem pre _ => Spec.tag .tuple :: Spec.streamList pre
  | .mapKey _ => [Spec.tag .map]
  | .mapVal k => Spec.tag .map :: Spec.stream k
  | .structNewtype _ => [Spec.tag .structNewtype]
  | .structTupleElem _ pre _ => Spec.tag .structTuple :: Spec.streamList pre
  | .structField _ pre fname _ => Spec.tag .structStruct :: (Spec.streamFields pre ++ fname)
  | .variantNewtype _ pre vname _ =>
    Spec.tag .enum :: (Spec.streamVariants pre ++ vname ++ [Spec.tag .variantNewtype])
  | .variantTupleElem _ pre vname tpre _ _ =>
    Spec.tag .enum ::
      (Spec.streamVariants pre ++ vname ++ Spec.tag .variantTuple :: Spec.streamList tpre)
  | .variantField _ pre vname fpre fname _ _ =>
    Spec.tag .enum ::
      (Spec.streamVariants pre ++ vname ++
        Spec.tag .variantStruct :: (Spec.streamFields fpre ++ fname))

/-- bytes the stream emits after the hole -/
def Frame.after : Frame → List Byte
  | .option => []
  | .seq => []
  | .tupleElem _ post => Spec.streamList post
  | .mapKey v => Spec.stream v
  | .mapVal _ => []
  | .structNewtype _ => []
  | .structTupleElem _ _ post => Spec.streamList post
  | .structField _ _ _ post => Spec.streamFields post
  | .variantNewtype _ _ _ post => Spec.streamVariants post
  | .variantTupleElem _ _ _ _ tpost post => Spec.streamList tpost ++ Spec.streamVariants post
  | .variantField _ _ _ _ _ fpost post => Spec.streamFields fpost ++ Spec.streamVariants post

theorem Frame.stream_plug (f : Frame) (s : Schema) :
    Spec.stream (f.plug s) = f.before ++ Spec.stream s ++ f.after := by
  cases f <;>
    simp [Frame.plug, Frame.before, Frame.after, Spec.stream, Spec.streamStructData,
      Spec.streamVariantData, Spec.streamVariant, Spec.streamField, streamList_append,
      streamFields_append, streamVariants_append, Spec.streamList, Spec.streamFields,
      Spec.streamVariants]

/-- a context: frames from the root down to the hole -/
abbrev Ctx := List Frame

def plug : Ctx → Schema → Schema
  | [], s => s
  | f :: c, s => f.plug (plug c s)

def Ctx.before : Ctx → List Byte
  | [] => []
  | f :: c => f.before ++ Ctx.before c

def Ctx.after : Ctx → List Byte
  | [] => []
  | f :: c => Ctx.after c ++ f.after

theorem stream_plug (c : Ctx) (s : Schema) :
    Spec.stream (plug c s) = Ctx.before c ++ Spec.stream s ++ Ctx.after c := by
  induction c with
  | nil => simp [plug, Ctx.before, Ctx.after]
  | cons f c ih => simp [plug, Ctx.before, Ctx.after, Frame.stream_plug, ih]

theorem diff1_plug (c : Ctx) {s s' : Schema} (h : Diff1 (Spec.stream s) (Spec.stream s')) :
    Diff1 (Spec.stream (plug c s)) (Spec.stream (plug c s')) := by
  rw [stream_plug, stream_plug]
  exact h.wrap _ _

/-! ## erasing type names -/

mutual
/-- replace every struct / enum TYPE name in the tree by the empty name
(field and variant names are kept) -/
def eraseTypeNames : Schema → Schema
  | .option t => .option (eraseTypeNames t)
  | .seq t => .seq (eraseTypeNames t)
  | .tuple ts => .tuple (eraseTypeNamesList ts)
  | .map k v => .map (eraseTypeNames k) (eraseTypeNames v)
  | .struct _ d => .struct [] (eraseTypeNamesData d)
  | .enum _ vs => .enum [] (eraseTypeNamesVariants vs)
  | s => s
def eraseTypeNamesList : List Schema → List Schema
  | [] => []
  | t :: ts => eraseTypeNames t :: eraseTypeNamesList ts
def eraseTypeNamesData : SData → SData
  | .unit => .unit
  | .newtype t => .newtype (eraseTypeNames t)
  | .tuple ts => .tuple (eraseTypeNamesList ts)
  | .struct fs => .struct (eraseTypeNamesFields fs)
def eraseTypeNamesFields : List SField → List SField
  | [] => []
  | .mk n t :: fs => .mk n (eraseTypeNames t) :: eraseTypeNamesFields fs
def eraseTypeNamesVariants : List SVariant → List SVariant
  | [] => []
  | .mk n d :: vs => .mk n (eraseTypeNamesData d) :: eraseTypeNamesVariants vs
end

mutual
theorem stream_eraseTypeNames (s : Schema) :
    Spec.stream (eraseTypeNames s) = Spec.stream s := by
  cases s with
  | option t => simp [eraseTypeNames, Spec.stream, stream_eraseTypeNames t]
  | seq t => simp [eraseTypeNames, Spec.stream, stream_eraseTypeNames t]
  | tuple ts => simp [eraseTypeNames, Spec.stream, streamList_eraseTypeNames ts]
  | map k v =>
    simp [eraseTypeNames, Spec.stream, stream_eraseTypeNames k, stream_eraseTypeNames v]
  | struct n d =>
    cases d with
    | unit => simp [eraseTypeNames, eraseTypeNamesData, Spec.stream, Spec.streamStructData]
    | newtype t =>
      simp [eraseTypeNames, eraseTypeNamesData, Spec.stream, Spec.streamStructData,
        stream_eraseTypeNames t]
    | tuple ts =>
      simp [eraseTypeNames, eraseTypeNamesData, Spec.stream, Spec.streamStructData,
        streamList_eraseTypeNames ts]
    | struct fs =>
      simp [eraseTypeNames, eraseTypeNamesData, Spec.stream, Spec.streamStructData,
        streamFields_eraseTypeNames fs]
  | «enum» n vs => simp [eraseTypeNames, Spec.stream, streamVariants_eraseTypeNames vs]
  | _ => simp [eraseTypeNames]
theorem streamList_eraseTypeNames (ts : List Schema) :
    Spec.streamList (eraseTypeNamesList ts) = Spec.streamList ts := by
  cases ts with
  | nil => simp [eraseTypeNamesList]
  | cons t ts =>
    simp [eraseTypeNamesList, Spec.streamList, stream_eraseTypeNames t,
      streamList_eraseTypeNames ts]
theorem streamFields_eraseTypeNames (fs : List SField) :
    Spec.streamFields (eraseTypeNamesFields fs) = Spec.streamFields fs := by
  cases fs with
  | nil => simp [eraseTypeNamesFields]
  | cons f fs =>
    cases f with
    | mk n t =>
      simp [eraseTypeNamesFields, Spec.streamFields, Spec.streamField, stream_eraseTypeNames t,
        streamFields_eraseTypeNames fs]
theorem streamVariants_eraseTypeNames (vs : List SVariant) :
    Spec.streamVariants (eraseTypeNamesVariants vs) = Spec.streamVariants vs := by
  cases vs with
  | nil => simp [eraseTypeNamesVariants]
  | cons v vs =>
    cases v with
    | mk n d =>
      cases d with
      | unit =>
        simp [eraseTypeNamesVariants, eraseTypeNamesData, Spec.streamVariants,
          Spec.streamVariant, Spec.streamVariantData, streamVariants_eraseTypeNames vs]
      | newtype t =>
        simp [eraseTypeNamesVariants, eraseTypeNamesData, Spec.streamVariants,
          Spec.streamVariant, Spec.streamVariantData, streamVariants_eraseTypeNames vs,
          stream_eraseTypeNames t]
      | tuple ts =>
        simp [eraseTypeNamesVariants, eraseTypeNamesData, Spec.streamVariants,
          Spec.streamVariant, Spec.streamVariantData, streamVariants_eraseTypeNames vs,
          streamList_eraseTypeNames ts]
      | struct fs =>
        simp [eraseTypeNamesVariants, eraseTypeNamesData, Spec.streamVariants,
          Spec.streamVariant, Spec.streamVariantData, streamVariants_eraseTypeNames vs,
          streamFields_eraseTypeNames fs]
end

/-! ## leaf kinds -/

/-- the 20 `DataModelType` kinds without children -/
inductive LeafKind
  | bool | i8 | u8 | i16 | i32 | i64 | i128 | u16 | u32 | u64 | u128
  | usize | isize | f32 | f64 | char | string | byteArray | unit | schema
  deriving DecidableEq, Repr

def LeafKind.toSchema : LeafKind → Schema
  | .bool => .bool | .i8 => .i8 | .u8 => .u8 | .i16 => .i16 | .i32 => .i32 | .i64 => .i64
  | .i128 => .i128 | .u16 => .u16 | .u32 => .u32 | .u64 => .u64 | .u128 => .u128
  | .usize => .usize | .isize => .isize | .f32 => .f32 | .f64 => .f64 | .char => .char
  | .string => .string | .byteArray => .byteArray | .unit => .unit | .schema => .schema

def LeafKind.kind : LeafKind → Spec.Kind
  | .bool => .bool | .i8 => .i8 | .u8 => .u8 | .i16 => .i16 | .i32 => .i32 | .i64 => .i64
  | .i128 => .i128 | .u16 => .u16 | .u32 => .u32 | .u64 => .u64 | .u128 => .u128
  | .usize => .usize | .isize => .isize | .f32 => .f32 | .f64 => .f64 | .char => .char
  | .string => .string | .byteArray => .byteArray | .unit => .unit | .schema => .schema

def LeafKind.all : List LeafKind :=
  [.bool, .i8, .u8, .i16, .i32, .i64, .i128, .u16, .u32, .u64, .u128,
   .usize, .isize, .f32, .f64, .char, .string, .byteArray, .unit, .schema]

theorem LeafKind.stream_toSchema (l : LeafKind) :
    Spec.stream l.toSchema = [Spec.tag l.kind] := by
  cases l <;> rfl

/-- inverse of the tag table -/
def untag (b : Byte) : Option Spec.Kind := Spec.Kind.all.find? (fun k => Spec.tag k == b)

theorem untag_tag (k : Spec.Kind) : untag (Spec.tag k) = some k := by
  cases k <;> decide

theorem tag_injective {k k' : Spec.Kind} (h : Spec.tag k = Spec.tag k') : k = k' := by
  have := untag_tag k
  rw [h, untag_tag] at this
  exact (Option.some.inj this).symm

theorem LeafKind.kind_injective {l l' : LeafKind} (h : l.kind = l'.kind) : l = l' := by
  cases l <;> cases l' <;> first | rfl | (exact absurd h (by decide))

end Postcard
